/-
  Irc.Props.ReachF — reachability corollaries, part F: properties C15 (NICK moves the identity)
  and C16 (channel life cycle), and the NON-VACUITY section: a concrete well-scheduled run, the
  reachable world it ends in, and instances of the corollaries of parts A–D, F at that world.

  C15: the theorems of `Irc/Props/C15.lean` take the bundle `Registered x c old u` = "`c` is
  authenticated under the nickname `old`, whose user record is `u`, and `InvCore x.w`".
  `registered_of_reachable` builds it from `Reachable cfg x.w`; every theorem is restated with
  the bundle spelled out (`hreach hauth hnick huser`), so no invariant hypothesis is left.

  C16: one theorem (`removeUser_leaves_all_channels`) takes `InvCore w`; the others hold for all
  worlds and get trace-level instances for the headline.
-/
import Irc.Props.ReachA
import Irc.Props.ReachB
import Irc.Props.ReachC
import Irc.Props.ReachD
import Irc.Props.C15
import Irc.Props.C16

/-! ## C15 -/

namespace Irc.Reach.C15
open Irc Irc.C15

/-- the `Registered` bundle in a reachable world -/
theorem registered_of_reachable {cfg : Cfg} {x : Ctx} {c : Nat} {old : Str} {u : User}
    (hreach : Reachable cfg x.w) (hauth : (x.conn c).authenticated = true)
    (hnick : (x.conn c).nick = some old) (huser : Map.lookup old x.w.users = some u) :
    Registered x c old u :=
  ⟨hauth, hnick, huser, core_reachable hreach⟩

theorem nick_refused_reachable
    {cfg : Cfg} {c : Nat} {old : Str} {new : Str} {msg : Message} {x : Ctx} {u : User}
    (hreach : Reachable cfg x.w) (hauth : (x.conn c).authenticated = true)
    (hnick : (x.conn c).nick = some old) (huser : Map.lookup old x.w.users = some u)
    (hne : new ≠ old) (hused : Map.contains new x.w.users = true) :
    Refused433 cfg old new x (processNick cfg c new msg x) :=
  nick_refused (registered_of_reachable hreach hauth hnick huser) hne hused

theorem nick_same_noop_reachable
    {cfg : Cfg} {c : Nat} {old : Str} {msg : Message} {x : Ctx} {u : User}
    (hreach : Reachable cfg x.w) (hauth : (x.conn c).authenticated = true)
    (hnick : (x.conn c).nick = some old) (huser : Map.lookup old x.w.users = some u) :
    processNick cfg c old msg x = x :=
  nick_same_noop (registered_of_reachable hreach hauth hnick huser)

theorem nick_accepted_iff_reachable
    {cfg : Cfg} {c : Nat} {old : Str} {new : Str} {msg : Message} {x : Ctx} {u : User}
    (hreach : Reachable cfg x.w) (hauth : (x.conn c).authenticated = true)
    (hnick : (x.conn c).nick = some old) (huser : Map.lookup old x.w.users = some u)
    (hne : new ≠ old) :
    (((processNick cfg c new msg x).conn c).nick = some new ∧
        Map.lookup old (processNick cfg c new msg x).w.users = none
      ↔ Map.contains new x.w.users = false) ∧
    (Map.contains new x.w.users = true →
      Refused433 cfg old new x (processNick cfg c new msg x)) :=
  nick_accepted_iff (registered_of_reachable hreach hauth hnick huser) hne

theorem nick_moves_identity_reachable
    {cfg : Cfg} {c : Nat} {old : Str} {new : Str} {msg : Message} {x : Ctx} {u : User}
    (hreach : Reachable cfg x.w) (hauth : (x.conn c).authenticated = true)
    (hnick : (x.conn c).nick = some old) (huser : Map.lookup old x.w.users = some u)
    (hne : new ≠ old) (hfree : Map.contains new x.w.users = false) :
    IdentityMoved old new u (newSource x c new) c x.w (processNick cfg c new msg x).w :=
  nick_moves_identity (registered_of_reachable hreach hauth hnick huser) hne hfree

theorem nick_no_panic_reachable
    {cfg : Cfg} {c : Nat} {old : Str} {new : Str} {msg : Message} {x : Ctx} {u : User}
    (hreach : Reachable cfg x.w) (hauth : (x.conn c).authenticated = true)
    (hnick : (x.conn c).nick = some old) (huser : Map.lookup old x.w.users = some u)
    (hne : new ≠ old) (hfree : Map.contains new x.w.users = false) :
    (processNick cfg c new msg x).w.panicked = none :=
  nick_no_panic (registered_of_reachable hreach hauth hnick huser) hne hfree

theorem nick_announced_reachable
    {cfg : Cfg} {c : Nat} {old : Str} {new : Str} {msg : Message} {x : Ctx} {u : User}
    (hreach : Reachable cfg x.w) (hauth : (x.conn c).authenticated = true)
    (hnick : (x.conn c).nick = some old) (huser : Map.lookup old x.w.users = some u)
    (hne : new ≠ old) (hfree : Map.contains new x.w.users = false) :
    (processNick cfg c new msg x).queued =
      x.queued ++ (Map.keys (processNick cfg c new msg x).w.users).map
        (fun n => (ownerOf (processNick cfg c new msg x).w n, msg.render (x.conn c).source)) ∧
    (Map.keys (processNick cfg c new msg x).w.users).Nodup ∧
    (processNick cfg c new msg x).direct = x.direct :=
  nick_announced (registered_of_reachable hreach hauth hnick huser) hne hfree

theorem nick_recipients_reachable
    {cfg : Cfg} {c : Nat} {old : Str} {new : Str} {msg : Message} {x : Ctx} {u : User}
    (hreach : Reachable cfg x.w) (hauth : (x.conn c).authenticated = true)
    (hnick : (x.conn c).nick = some old) (huser : Map.lookup old x.w.users = some u)
    (hne : new ≠ old) (hfree : Map.contains new x.w.users = false) (n : Str) :
    n ∈ Map.keys (processNick cfg c new msg x).w.users ↔
      n = new ∨ (n ≠ old ∧ n ∈ Map.keys x.w.users) :=
  nick_recipients (registered_of_reachable hreach hauth hnick huser) hne hfree n

theorem nick_announced_to_self_reachable
    {cfg : Cfg} {c : Nat} {old : Str} {new : Str} {msg : Message} {x : Ctx} {u : User}
    (hreach : Reachable cfg x.w) (hauth : (x.conn c).authenticated = true)
    (hnick : (x.conn c).nick = some old) (huser : Map.lookup old x.w.users = some u)
    (hne : new ≠ old) (hfree : Map.contains new x.w.users = false) :
    (c, msg.render (x.conn c).source) ∈ (processNick cfg c new msg x).queued :=
  nick_announced_to_self (registered_of_reachable hreach hauth hnick huser) hne hfree

theorem nick_announced_to_everyone_reachable
    {cfg : Cfg} {c : Nat} {old : Str} {new : Str} {msg : Message} {x : Ctx} {u : User}
    (hreach : Reachable cfg x.w) (hauth : (x.conn c).authenticated = true)
    (hnick : (x.conn c).nick = some old) (huser : Map.lookup old x.w.users = some u)
    (hne : new ≠ old) (hfree : Map.contains new x.w.users = false) (n : Str) (v : User)
    (hno : n ≠ old) (hv : Map.lookup n x.w.users = some v) :
    (v.owner, msg.render (x.conn c).source) ∈ (processNick cfg c new msg x).queued :=
  nick_announced_to_everyone (registered_of_reachable hreach hauth hnick huser) hne hfree n v hno hv

theorem nick_announced_to_peers_reachable
    {cfg : Cfg} {c : Nat} {old : Str} {new : Str} {msg : Message} {x : Ctx} {u : User}
    (hreach : Reachable cfg x.w) (hauth : (x.conn c).authenticated = true)
    (hnick : (x.conn c).nick = some old) (huser : Map.lookup old x.w.users = some u)
    (hne : new ≠ old) (hfree : Map.contains new x.w.users = false) (ch : Str) (C : Channel)
    (n : Str) (_hch : KSet.mem ch u.channels = true) (hC : Map.lookup ch x.w.channels = some C)
    (hn : Map.contains n C.users = true) (hno : n ≠ old) :
    ∃ v, Map.lookup n x.w.users = some v ∧
      (v.owner, msg.render (x.conn c).source) ∈ (processNick cfg c new msg x).queued :=
  nick_announced_to_peers (registered_of_reachable hreach hauth hnick huser) hne hfree ch C n _hch hC hn hno

/-! ### trace-level form -/

/-- **C15 over whole executions** (`nick_moves_identity`).  After any well-scheduled event list,
    an accepted NICK (new name different and free) of the connection `c` registered as `old`,
    handled in the context `step` builds, moves the whole identity (`IdentityMoved`: user record,
    memberships, ranks, WALLOPS entry, WHOWAS entry, connection), announces it to every user
    once and replies nothing; a NICK naming a nickname in use is refused with one 433 and
    changes nothing. -/
theorem nick_moves_identity_run {cfg : Cfg} (evs : List Event) (hs : SchedAll cfg evs) {c : Nat}
    {old new : Str} {msg : Message} {u : User}
    (hauth : (Ctx.conn { w := run cfg evs } c).authenticated = true)
    (hnick : (Ctx.conn { w := run cfg evs } c).nick = some old)
    (huser : Map.lookup old (run cfg evs).users = some u) (hne : new ≠ old) :
    (Map.contains new (run cfg evs).users = false →
      IdentityMoved old new u (newSource { w := run cfg evs } c new) c (run cfg evs)
        (processNick cfg c new msg { w := run cfg evs }).w ∧
      (processNick cfg c new msg { w := run cfg evs }).queued =
        (Map.keys (processNick cfg c new msg { w := run cfg evs }).w.users).map
          (fun n => (ownerOf (processNick cfg c new msg { w := run cfg evs }).w n,
            msg.render (Ctx.conn { w := run cfg evs } c).source)) ∧
      (processNick cfg c new msg { w := run cfg evs }).direct = []) ∧
    (Map.contains new (run cfg evs).users = true →
      Refused433 cfg old new { w := run cfg evs } (processNick cfg c new msg { w := run cfg evs })) := by
  have hr : Reachable cfg (Ctx.w { w := run cfg evs }) := reachable_run hs
  refine ⟨fun hfree => ⟨nick_moves_identity_reachable hr hauth hnick huser hne hfree, ?_, ?_⟩,
    fun hused => nick_refused_reachable hr hauth hnick huser hne hused⟩
  · simpa using (nick_announced_reachable (msg := msg) hr hauth hnick huser hne hfree).1
  · simpa using (nick_announced_reachable (msg := msg) hr hauth hnick huser hne hfree).2.2

end Irc.Reach.C15

/-! ## C16 -/

namespace Irc.Reach.C16
open Irc Irc.C16

theorem removeUser_leaves_all_channels_reachable {cfg : Cfg} {w : World} {n : Str} {u : User}
    (hr : Reachable cfg w) (hu : Map.lookup n w.users = some u) : UserGone n w (w.removeUser n) :=
  removeUser_leaves_all_channels (core_reachable hr) hu

/-! ### trace-level forms -/

/-- **C16 over whole executions** (`last_member_leaves`): for every channel `C` existing after a
    well-scheduled event list and every member `n` of it, when `n` leaves (PART, KICK; QUIT etc.
    go through the same `removeUserFromChannel`): an ad-hoc channel whose sole member was `n`
    is gone; a preconfigured one stays, empty; if others remain the channel stays with them. -/
theorem last_member_leaves_run {cfg : Cfg} (evs : List Event) (_hs : SchedAll cfg evs)
    {ch n : Str} {C : Channel} (hC : Map.lookup ch (run cfg evs).channels = some C)
    (hm : Map.contains n C.users = true) :
    (SoleMember n C → C.preconfigured = false →
      Map.lookup ch ((run cfg evs).removeUserFromChannel ch n).channels = none) ∧
    (SoleMember n C → C.preconfigured = true →
      ∃ C', Map.lookup ch ((run cfg evs).removeUserFromChannel ch n).channels = some C' ∧
        C'.users = [] ∧ MemberRemoved n C C') ∧
    (OthersRemain n C →
      ∃ C', Map.lookup ch ((run cfg evs).removeUserFromChannel ch n).channels = some C' ∧
        C'.users ≠ [] ∧ MemberRemoved n C C') :=
  last_member_leaves hC hm

/-- ... and conversely no memberless ad-hoc channel ever exists: after any well-scheduled event
    list, a channel with no members is a preconfigured one -/
theorem noEmptyAdHoc_run {cfg : Cfg} (evs : List Event) (hs : SchedAll cfg evs) :
    NoEmptyAdHoc (run cfg evs).channels :=
  (core_reachable (reachable_run hs)).noEmptyAdHoc

/-- leaving everything at once (QUIT, EOF, KILL, ...), after any well-scheduled event list -/
theorem removeUser_leaves_all_channels_run {cfg : Cfg} (evs : List Event) (hs : SchedAll cfg evs)
    {n : Str} {u : User} (hu : Map.lookup n (run cfg evs).users = some u) :
    UserGone n (run cfg evs) ((run cfg evs).removeUser n) :=
  removeUser_leaves_all_channels_reachable (reachable_run hs) hu

end Irc.Reach.C16

/-! ## NON-VACUITY: a concrete reachable world, and the corollaries instantiated at it

  The corollaries above are not about an empty class of worlds: here is a well-scheduled run of
  13 events (three clients register; alice creates `#c` and makes it secret; bob joins; alice
  talks), the world `w0` it reaches, and eight of the corollaries instantiated at `w0` with
  every hypothesis discharged (by kernel evaluation of the model, `decide`). -/

namespace Irc.Reach.Demo
open Irc Irc.Reply

def cfg0 : Cfg := {}

def evs0 : List Event :=
  [ .connect 1 (str "10.0.0.1"),
    .line 1 (str "NICK alice"),
    .line 1 (str "USER alice 0 * :Alice A"),
    .connect 2 (str "10.0.0.2"),
    .line 2 (str "NICK bob"),
    .line 2 (str "USER bob 0 * :Bob B"),
    .line 1 (str "JOIN #c"),
    .line 1 (str "MODE #c +s"),
    .line 2 (str "JOIN #c"),
    .line 1 (str "PRIVMSG #c :hello"),
    .connect 3 (str "10.0.0.3"),
    .line 3 (str "NICK carol"),
    .line 3 (str "USER carol 0 * :Carol C") ]

example : SchedAll cfg0 evs0 := by decide

theorem sched_evs0 : SchedAll cfg0 evs0 := by decide

/-- the world after the run -/
def w0 : World := run cfg0 evs0

theorem reach_evs0 : Reachable cfg0 (run cfg0 evs0) := ⟨evs0, sched_evs0, rfl⟩
theorem reach_w0 : Reachable cfg0 w0 := reach_evs0

/-- the scheduling discipline really restricts: connecting a live id again is not schedulable -/
example : ¬ SchedAll cfg0 (evs0 ++ [.connect 2 (str "10.0.0.9")]) := by decide

def alice : Str := str "alice"
def bob : Str := str "bob"
def carol : Str := str "carol"
def chan : Str := str "#c"
def aliceConn : Conn := (w0.conn? 1).getD default
def bobConn : Conn := (w0.conn? 2).getD default
def carolConn : Conn := (w0.conn? 3).getD default
def aliceU : User := (Map.lookup alice w0.users).getD default
def bobU : User := (Map.lookup bob w0.users).getD default
def chanC : Channel := (Map.lookup chan w0.channels).getD default

/-- what `w0` looks like: three registered users on connections 1, 2, 3; one channel `#c`,
    secret, with members alice (founder, operator) and bob; alice's PRIVMSG went to bob only -/
theorem w0_facts :
    Map.keys w0.users = [alice, bob, carol] ∧
    w0.conns.map (fun cn => (cn.id, cn.authenticated, cn.nick)) =
      [(1, true, some alice), (2, true, some bob), (3, true, some carol)] ∧
    Map.keys w0.channels = [chan] ∧ Map.keys chanC.users = [alice, bob] ∧
    chanC.modes.secret = true ∧ chanC.modes.founders = [alice] ∧ chanC.modes.operators = [alice] ∧
    aliceU.owner = 1 ∧ aliceU.channels = [chan] ∧ bobU.owner = 2 ∧ bobU.channels = [chan] ∧
    w0.panicked = none := by decide

theorem w0_lookups :
    Map.lookup alice w0.users = some aliceU ∧ Map.lookup bob w0.users = some bobU ∧
    Map.lookup chan w0.channels = some chanC ∧
    w0.conn? 1 = some aliceConn ∧ w0.conn? 2 = some bobConn ∧ w0.conn? 3 = some carolConn ∧
    aliceConn ∈ w0.conns ∧ bobConn ∈ w0.conns ∧ carolConn ∈ w0.conns ∧
    aliceConn.id = 1 ∧ bobConn.id = 2 ∧ carolConn.id = 3 := by decide

example : (step cfg0 (run cfg0 (evs0.take 9)) (.line 1 (str "PRIVMSG #c :hello"))).outs =
    [(2, str ":alice!~alice@10.0.0.1 PRIVMSG #c :hello")] := by decide

/-! ### 1. C02 `one_owner_reachable`: the nickname `alice` has exactly one owner, connection 1 -/

example : ∃ cn, C02.RegisteredAs w0 cn alice ∧ cn.id = aliceU.owner ∧
    ∀ cn', C02.RegisteredAs w0 cn' alice → cn' = cn :=
  C02.one_owner_reachable reach_w0 w0_lookups.1

example : C02.RegisteredAs w0 aliceConn alice ∧ aliceU.owner = 1 := by decide

/-! ### 2. C04 `membership_symmetric_reachable`, `rank_lists_mirror_flags_reachable` -/

example : chan ∈ bobU.channels ↔ C04.Member w0 chan bob :=
  C04.membership_symmetric_reachable reach_w0 w0_lookups.2.1 chan

example : C04.Member w0 chan bob ∧ ¬ C04.Member w0 chan carol := by decide

example : (alice ∈ chanC.modes.founders ↔ ∃ m, Map.lookup alice chanC.users = some m ∧ m.founder = true) ∧
    (bob ∈ chanC.modes.operators ↔ ∃ m, Map.lookup bob chanC.users = some m ∧ m.operator = true) :=
  ⟨(C04.rank_lists_mirror_flags_reachable reach_w0 w0_lookups.2.2.1 alice).1,
   (C04.rank_lists_mirror_flags_reachable reach_w0 w0_lookups.2.2.1 bob).2.2.1⟩

example : alice ∈ chanC.modes.founders ∧ bob ∉ chanC.modes.operators := by decide

/-! ### 3. C01 `delivered_exactly_reachable`: alice's next PRIVMSG to `#c`, `bob` -/

example : ∃ rc : Str → List Str,
    (∀ t, (rc t).Nodup ∧ ∀ n, n ∈ rc t ↔
      C01.Spec.receives w0 alice (Ctx.conn { w := w0 } 1).source t n) ∧
    (processPrivmsgNotice cfg0 1 [chan, bob] (str "again") false { w := w0 }).queued =
      [] ++ (dedup [chan, bob]).flatMap (fun t => (rc t).map (fun n =>
        (C01.Spec.ownerOf w0 n, C01.Spec.line (Ctx.conn { w := w0 } 1).source false t (str "again")))) :=
  C01.delivered_exactly_reachable cfg0 1 [chan, bob] (str "again") false { w := w0 }
    (nick := alice) reach_w0 (by decide)

example : (processPrivmsgNotice cfg0 1 [chan, bob] (str "again") false { w := w0 }).queued =
    [(2, str ":alice!~alice@10.0.0.1 PRIVMSG #c :again"),
     (2, str ":alice!~alice@10.0.0.1 PRIVMSG bob :again")] := by decide

/-! ### 4. C12 `list_hides_secret_reachable`, `who_hides_secret_reachable`: carol (connection 3)
    is outside the secret channel `#c`; what she is told is what she would be told if `#c` did
    not exist -/

theorem carol_outside : C12.Outside w0 3 chanC :=
  C12.outside_of_observer (cn := carolConn) (obs := carol) w0_lookups.2.2.2.2.2.1 (by decide)
    (by decide)

example : C12.replyOf (processList cfg0 3 [] none) w0 =
    C12.replyOf (processList cfg0 3 [] none) (C12.hideChannel chan w0) :=
  C12.list_hides_secret_reachable cfg0 w0 reach_w0 chan chanC w0_lookups.2.2.1 w0_facts.2.2.2.2.1 3 []

example : C12.replyOf (processWho cfg0 3 chan) w0 =
    C12.replyOf (processWho cfg0 3 chan) (C12.hideChannel chan w0) :=
  C12.who_hides_secret_reachable cfg0 w0 reach_w0 chan chanC w0_lookups.2.2.1 w0_facts.2.2.2.2.1 3
    carol_outside chan

example : C12.replyOf (processList cfg0 3 [] none) w0 =
      [(str ":irc.irc " ++ Reply.RplListStart321 (client := str "carol")), (str ":irc.irc " ++ Reply.RplListEnd323 (client := str "carol"))] ∧
    C12.replyOf (processWho cfg0 3 chan) w0 = [(str ":irc.irc " ++ Reply.RplEndOfWho315 (client := str "carol") (mask := str "#c"))] ∧
    -- ... whereas bob, a member, sees the members
    (C12.replyOf (processWho cfg0 2 chan) w0).length = 3 := by decide

/-! ### 5. C06 `every_ending_tears_down_reachable`: bob's connection reaches EOF -/

example : ∃ u, Map.lookup bob w0.users = some u ∧ u.owner = bobConn.id ∧
    C06.TornDown w0 (step cfg0 w0 (.eof 2)).w bobConn.id bob u :=
  C06.every_ending_tears_down_reachable reach_w0 w0_lookups.2.2.2.2.2.2.2.1 (by decide) (by decide)
    (by rw [w0_lookups.2.2.2.2.2.2.2.2.2.2.1]; exact Or.inl .eof)

example : Map.keys (step cfg0 w0 (.eof 2)).w.users = [alice, carol] ∧
    (Map.lookup chan (step cfg0 w0 (.eof 2)).w.channels).map (fun C => Map.keys C.users) =
      some [alice] := by decide

/-! ### 6. C19 `lusers_true_reachable`, C05 `no_panic_line_reachable` -/

example : (processLusers cfg0 carol { w := w0 }).direct = [] ++
      [ srvLine cfg0 (RplLUserClient251 carol (C19.Spec.visible w0) (C19.Spec.invisible w0) 1),
        srvLine cfg0 (RplLUserOp252 carol (C19.Spec.operators w0)),
        srvLine cfg0 (RplLUserUnknown253 carol 0),
        srvLine cfg0 (RplLUserChannels254 carol (C19.Spec.channels w0)),
        srvLine cfg0 (RplLUserMe255 carol (C19.Spec.users w0) 1),
        srvLine cfg0 (RplLocalUsers265 carol (C19.Spec.users w0) w0.maxUsers),
        srvLine cfg0 (RplGlobalUsers266 carol (C19.Spec.users w0) w0.maxUsers) ] ∧
    C19.Spec.users w0 ≤ w0.maxUsers ∧
    (processLusers cfg0 carol { w := w0 }).w = w0 :=
  C19.lusers_true_reachable (client := carol) (x := { w := w0 }) reach_w0

example : C19.Spec.users w0 = 3 ∧ C19.Spec.visible w0 = 3 ∧ C19.Spec.channels w0 = 1 ∧
    w0.maxUsers = 3 := by decide

/-- whatever line connection 3 sends next, no handler aborts -/
example (s : Str) : (step cfg0 w0 (.line 3 s)).w.panicked = none :=
  C05.no_panic_line_reachable reach_w0 3 s

/-! ### 7. C15 `nick_moves_identity_reachable`: alice becomes `alicia` -/

example : C15.IdentityMoved alice (str "alicia") aliceU
    (C15.newSource { w := w0 } 1 (str "alicia")) 1 w0
    (processNick cfg0 1 (str "alicia") ⟨none, str "NICK", [str "alicia"]⟩ { w := w0 }).w :=
  C15.nick_moves_identity_reachable (x := { w := w0 }) reach_w0 (by decide) (by decide)
    w0_lookups.1 (by decide) (by decide)

example : (Map.lookup chan (processNick cfg0 1 (str "alicia") ⟨none, str "NICK", [str "alicia"]⟩
      { w := w0 }).w.channels).map (fun C => (Map.keys C.users, C.modes.founders)) =
    some ([bob, str "alicia"], [str "alicia"]) := by decide

/-! ### 8. C16 `removeUser_leaves_all_channels_reachable`: bob leaves everything -/

example : C16.UserGone bob w0 (w0.removeUser bob) :=
  C16.removeUser_leaves_all_channels_reachable reach_w0 w0_lookups.2.1

end Irc.Reach.Demo
