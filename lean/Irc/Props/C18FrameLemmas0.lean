/-
  Frame lemmas for C18 (`Irc/Props/C18Frame.lean`), part 0: vocabulary, the context primitives,
  the two tactics.

  Two facts are proved for every handler `h` run by connection `d`, about the record of a FOREIGN
  connection (a record `cn` with `cn.id ≠ d`, a connection number `c ≠ d`):

  (A) commutation   `h (x.sc cn) = (h x).sc cn`     where `x.sc cn = x.setConn cn`
  (B) preservation  `Keep c x (h x)`                 i.e. `(h x).w.conn? c = x.w.conn? c`

  `Ctx.sc` / `World.scW` are `setConn` under another name: a marker for "the foreign record", so that
  rewriting with the push lemmas (`fr_push`) moves exactly this update outwards and terminates.
-/
import Irc.Props.C18FrameLemmasAttr
import Irc.Props.C18Lemmas

namespace Irc

/-- `World.setConn`, used for the record of the foreign connection only -/
def World.scW (w : World) (cn : Conn) : World := w.setConn cn
/-- `Ctx.setConn`, used for the record of the foreign connection only -/
def Ctx.sc (x : Ctx) (cn : Conn) : Ctx := x.setConn cn

namespace C18F
open Irc.Conc

/-- no registered user is owned by connection `c` -/
def NoOwn (c : Nat) (w : World) : Prop := ∀ n u, Map.lookup n w.users = some u → u.owner ≠ c

/-- the record of `c` is the same in `Y` as in `X` -/
def Keep (c : Nat) (X Y : Ctx) : Prop := Y.w.conn? c = X.w.conn? c

/-! ### reads -/
section
variable (w : World) (x : Ctx) (cn : Conn)

@[fr_read] theorem sc_w : (x.sc cn).w = x.w.scW cn := rfl
@[fr_read] theorem sc_direct : (x.sc cn).direct = x.direct := rfl
@[fr_read] theorem sc_queued : (x.sc cn).queued = x.queued := rfl
@[fr_read] theorem scW_users : (w.scW cn).users = w.users := rfl
@[fr_read] theorem scW_channels : (w.scW cn).channels = w.channels := rfl
@[fr_read] theorem scW_wallops : (w.scW cn).wallops = w.wallops := rfl
@[fr_read] theorem scW_invisibleCount : (w.scW cn).invisibleCount = w.invisibleCount := rfl
@[fr_read] theorem scW_operatorsCount : (w.scW cn).operatorsCount = w.operatorsCount := rfl
@[fr_read] theorem scW_maxUsers : (w.scW cn).maxUsers = w.maxUsers := rfl
@[fr_read] theorem scW_histories : (w.scW cn).histories = w.histories := rfl
@[fr_read] theorem scW_connsCount : (w.scW cn).connsCount = w.connsCount := rfl
@[fr_read] theorem scW_srvQuit : (w.scW cn).srvQuit = w.srvQuit := rfl
@[fr_read] theorem scW_cmdCounts : (w.scW cn).cmdCounts = w.cmdCounts := rfl
@[fr_read] theorem scW_panicked : (w.scW cn).panicked = w.panicked := rfl

@[fr_read] theorem sc_conn {d : Nat} (h : cn.id ≠ d) : (x.sc cn).conn d = x.conn d :=
  ctx_conn_setConn_ne x cn d h

@[fr_read] theorem scW_conn? {o : Nat} (h : cn.id ≠ o) : (w.scW cn).conn? o = w.conn? o :=
  conn?_setConn_ne w cn o h

@[fr_read] theorem conn_id (d : Nat) : (x.conn d).id = d := ctx_conn_id x d
@[fr_read] theorem setNick_id (n : Str) : (cn.setNick n).id = cn.id := rfl
@[fr_read] theorem setName_id (n : Str) : (cn.setName n).id = cn.id := rfl

end

/-! ### pushes -/
section
variable (w : World) (x : Ctx) (cn : Conn)

@[fr_push] theorem sc_reply (cfg : Cfg) (t : Str) : (x.sc cn).reply cfg t = (x.reply cfg t).sc cn := rfl
@[fr_push] theorem sc_replySrc (s t : Str) : (x.sc cn).replySrc s t = (x.replySrc s t).sc cn := rfl
@[fr_push] theorem sc_panic (s : String) : (x.sc cn).panic s = (x.panic s).sc cn := rfl
@[fr_push] theorem scW_panic (s : String) : (w.scW cn).panic s = (w.panic s).scW cn := rfl

@[fr_push] theorem sc_send (n l : Str) : (x.sc cn).send n l = (x.send n l).sc cn := by
  unfold Ctx.send
  simp only [sc_w, scW_users]
  split <;> rfl

@[fr_push] theorem sc_sendDisplay (n s t : Str) :
    (x.sc cn).sendDisplay n s t = (x.sendDisplay n s t).sc cn := sc_send x cn n _

@[fr_push] theorem sc_foldl {α : Type} (f : Ctx → α → Ctx)
    (hf : ∀ y a, f (y.sc cn) a = (f y a).sc cn) (l : List α) :
    l.foldl f (x.sc cn) = (l.foldl f x).sc cn := by
  induction l generalizing x with
  | nil => rfl
  | cons a l ih => simp only [List.foldl_cons, hf, ih]

@[fr_push] theorem scW_foldl {α : Type} (f : World → α → World)
    (hf : ∀ y a, f (y.scW cn) a = (f y a).scW cn) (l : List α) :
    l.foldl f (w.scW cn) = (l.foldl f w).scW cn := by
  induction l generalizing w with
  | nil => rfl
  | cons a l ih => simp only [List.foldl_cons, hf, ih]

@[fr_push] theorem sc_sendAll (ns : List Str) (l : Str) :
    (x.sc cn).sendAll ns l = (x.sendAll ns l).sc cn :=
  sc_foldl x cn _ (fun y a => sc_send y cn a l) ns

@[fr_push] theorem sc_setConn (dn : Conn) (h : cn.id ≠ dn.id) :
    (x.sc cn).setConn dn = (x.setConn dn).sc cn := ctx_setConn_comm x cn dn h

@[fr_push] theorem scW_setConn (dn : Conn) (h : cn.id ≠ dn.id) :
    (w.scW cn).setConn dn = (w.setConn dn).scW cn := setConn_comm w cn dn h

@[fr_push] theorem sc_modifyW (f : World → World) (hf : ∀ w, f (w.scW cn) = (f w).scW cn) :
    (x.sc cn).modifyW f = (x.modifyW f).sc cn := by
  simp only [Ctx.modifyW, Ctx.sc, Ctx.setConn, World.scW] at hf ⊢
  rw [hf]

/-- structure updates of the other fields commute with the foreign record -/
@[fr_push] theorem scW_mk (a : Map User) (b : Map Channel) (c : KSet) (d e f : Nat)
    (g : Map (List HistEntry)) (i : Nat) (j : Bool) (k : List Nat) (l : Option Str) :
    World.mk a b c d e f g (w.scW cn).conns i j k l =
      (World.mk a b c d e f g w.conns i j k l).scW cn := rfl

@[fr_push] theorem sc_mk (dr : List Str) (q : List (Nat × Str)) :
    Ctx.mk (w.scW cn) dr q = (Ctx.mk w dr q).sc cn := rfl

end

/-! ### `Keep` -/
section
variable {c : Nat} {X Y Z : Ctx}

theorem Keep.refl (X : Ctx) : Keep c X X := rfl
theorem Keep.trans (h1 : Keep c X Y) (h2 : Keep c Y Z) : Keep c X Z := Eq.trans h2 h1

theorem Keep.post (h : Keep c X Y) (hc : Z.w.conns = Y.w.conns) : Keep c X Z := by
  unfold Keep World.conn? at *
  rw [hc]; exact h

theorem Keep.reply (h : Keep c X Y) {cfg : Cfg} {t : Str} : Keep c X (Y.reply cfg t) := h
theorem Keep.replySrc (h : Keep c X Y) {s t : Str} : Keep c X (Y.replySrc s t) := h
theorem Keep.panic (h : Keep c X Y) {s : String} : Keep c X (Y.panic s) := h
theorem Keep.send (h : Keep c X Y) {n l : Str} : Keep c X (Y.send n l) :=
  h.post (Ctx.send_conns ..)
theorem Keep.sendDisplay (h : Keep c X Y) {n s t : Str} : Keep c X (Y.sendDisplay n s t) :=
  Keep.send h
theorem Keep.foldl {α : Type} {f : Ctx → α → Ctx} (hf : ∀ Y a, Keep c Y (f Y a))
    (h : Keep c X Y) (l : List α) : Keep c X (l.foldl f Y) := by
  induction l generalizing Y with
  | nil => exact h
  | cons a l ih => exact ih (h.trans (hf Y a))
theorem Keep.sendAll (h : Keep c X Y) {ns : List Str} {l : Str} : Keep c X (Y.sendAll ns l) :=
  Keep.foldl (fun Y _ => Keep.send (Keep.refl Y)) h ns
theorem Keep.modifyW (h : Keep c X Y) {f : World → World} (hf : ∀ w, (f w).conns = w.conns) :
    Keep c X (Y.modifyW f) := h.post (hf _)
theorem Keep.setConn (h : Keep c X Y) {dn : Conn} (hid : dn.id ≠ c) : Keep c X (Y.setConn dn) :=
  h.trans (conn?_setConn_ne Y.w dn c hid)

end

/-! ### the tactic for (A) -/

macro "fr_simp" : tactic =>
  `(tactic| simp only [fr_read, fr_push, ↓reduceIte, Bool.false_eq_true, Bool.true_eq_false, ne_eq,
      not_false_eq_true, not_true_eq_false, implies_true, *])

theorem ite_sc {cn : Conn} {p : Prop} [Decidable p] {A B A' B' : Ctx} (hA : A' = A.sc cn)
    (hB : B' = B.sc cn) : (if p then A' else B') = (if p then A else B).sc cn := by
  subst hA hB; split <;> rfl

theorem ite_scW {cn : Conn} {p : Prop} [Decidable p] {A B A' B' : World} (hA : A' = A.scW cn)
    (hB : B' = B.scW cn) : (if p then A' else B') = (if p then A else B).scW cn := by
  subst hA hB; split <;> rfl

/-- hook: further structural steps registered with `macro_rules` -/
syntax "fr_hook" : tactic
macro_rules | `(tactic| fr_hook) => `(tactic| fail "no frame step applies")

/-- normalise the reads, push the foreign record outwards, split the handler's case analysis
    (on both sides at once), recurse into folds and world updates -/
macro "fr" : tactic =>
  `(tactic| repeat' (first
    | with_reducible rfl
    | intro _
    | fr_simp
    | (rw [sc_foldl])
    | (rw [scW_foldl])
    | (rw [sc_modifyW])
    | with_reducible apply ite_sc
    | with_reducible apply ite_scW
    | fr_hook
    | split))

/-! ### the tactic for (B) -/

/-- side goal `dn.id ≠ c` of `Keep.setConn` (the record written is the acting connection's own) -/
macro "kp_side" : tactic =>
  `(tactic| ((try simp only [fr_read]); assumption))

/-- side goal `(f w).conns = w.conns` of `Keep.modifyW` -/
macro "kp_w" : tactic =>
  `(tactic| repeat' (first
    | with_reducible rfl
    | intro _
    | (simp only [kp])
    | split
    | rfl))

/-- hook: `Keep c Y (helper … Y)` lemmas registered with `macro_rules` -/
syntax "kp_lemma" : tactic
macro_rules | `(tactic| kp_lemma) => `(tactic| fail "no Keep lemma applies")

macro "kp" : tactic =>
  `(tactic| repeat' (first
    | with_reducible exact Keep.refl _
    | with_reducible assumption
    | with_reducible apply Keep.reply
    | with_reducible apply Keep.replySrc
    | with_reducible apply Keep.sendDisplay
    | with_reducible apply Keep.send
    | with_reducible apply Keep.sendAll
    | with_reducible apply Keep.panic
    | with_reducible apply Keep.setConn
    | with_reducible apply Keep.modifyW
    | (show _ ≠ _; kp_side)
    | (show ∀ _ : World, _ = _; kp_w; done)
    | (intro _ _; try dsimp only)
    | kp_lemma
    | with_reducible apply Keep.foldl
    | split))

end C18F
end Irc
