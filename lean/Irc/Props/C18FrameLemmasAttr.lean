/-
  Simp sets for the frame proofs of C18 (`Irc/Props/C18Frame.lean`).

  `fr_read` : what a handler READS is the same in `x.sc cn` and in `x`
  `fr_push` : every context operation commutes with `·.sc cn` (the foreign record is pushed outwards)
  `kp`      : one-sided: the operation leaves the record of the foreign connection alone
-/
import Lean

register_simp_attr fr_read
register_simp_attr fr_push
register_simp_attr kp
