import Irc.Inv
import Irc.Lemmas.Frame
namespace Irc.C04
open Irc

/-- first obligation (the full theorem list of this property is added as the
    invariant-preservation proofs land): the initial world has no users. -/
theorem init_no_users (cfg : Cfg) : (World.init cfg).users = [] := rfl

end Irc.C04
