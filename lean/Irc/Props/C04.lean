/-
  C04 — "The members of every channel, as reported by NAMES, WHO and WHOIS to a client entitled to see
  them, are exactly the users who joined successfully and have not since parted, been kicked or
  disconnected, under their current nicknames; the three views always agree with each other.  Every
  membership change made by JOIN, PART, KICK or NICK is announced to all members of the channel, the
  departing user included ..."

  This file: the membership relation itself (one symmetric relation, mirrored rank lists), its
  history (exact effect of JOIN / PART / KICK / NICK / disconnect), and the three views.
  Helper lemmas: Irc/Props/InvPropsLemmas.lean.
-/
import Irc.Props.InvPropsLemmas

namespace Irc.C04
open Irc Reply

/-! ### 1. the membership relation -/

/-- `n` is a member of channel `ch` (read off the channel's member map) -/
def Member (w : World) (ch n : Str) : Prop := w.memOf ch n = true

instance (w : World) (ch n : Str) : Decidable (Member w ch n) := by unfold Member; infer_instance

theorem member_iff (w : World) (ch n : Str) :
    Member w ch n ↔ ∃ C, Map.lookup ch w.channels = some C ∧ n ∈ Map.keys C.users := by
  unfold Member
  rw [Memb.World.memOf_iff]
  simp only [Map.mem_keys_iff, Map.contains_iff]

/-- the two sides of the relation agree: a user's channel set lists `ch` iff `ch`'s member map lists
    the user -/
theorem membership_symmetric {w : World} (h : InvCore w) {n : Str} {u : User}
    (hu : Map.lookup n w.users = some u) (ch : Str) : ch ∈ u.channels ↔ Member w ch n := by
  unfold Member
  rw [Memb.World.memOf_iff, ← KSet.mem_iff]
  exact h.memberSym n u ch hu

/-- every member is a registered user (under its current nickname), and that user lists the channel -/
theorem members_are_users {w : World} (h : InvCore w) {ch n : Str} (hm : Member w ch n) :
    ∃ u, Map.lookup n w.users = some u ∧ ch ∈ u.channels := by
  obtain ⟨C, hC, hc⟩ := (Memb.World.memOf_iff w ch n).mp hm
  obtain ⟨u, hu⟩ := (Map.contains_iff _ _).mp (h.memberIsUser ch C n hC hc)
  exact ⟨u, hu, (membership_symmetric h hu ch).mpr hm⟩

/-- nobody is listed twice, on either side -/
theorem no_duplicates {w : World} (h : InvCore w) :
    (∀ ch C, Map.lookup ch w.channels = some C → (Map.keys C.users).Nodup) ∧
    (∀ n u, Map.lookup n w.users = some u → u.channels.Nodup) ∧
    (Map.keys w.channels).Nodup ∧ (Map.keys w.users).Nodup :=
  ⟨h.membersNodup, h.userChansNodup, h.chansNodup, h.usersNodup⟩

/-- the five rank lists of a channel are exactly the members carrying the corresponding flag -/
theorem rank_lists_mirror_flags {w : World} (h : InvCore w) {ch : Str} {C : Channel}
    (hC : Map.lookup ch w.channels = some C) (n : Str) :
    (n ∈ C.modes.founders ↔ ∃ m, Map.lookup n C.users = some m ∧ m.founder = true) ∧
    (n ∈ C.modes.protecteds ↔ ∃ m, Map.lookup n C.users = some m ∧ m.prot = true) ∧
    (n ∈ C.modes.operators ↔ ∃ m, Map.lookup n C.users = some m ∧ m.operator = true) ∧
    (n ∈ C.modes.halfOperators ↔ ∃ m, Map.lookup n C.users = some m ∧ m.halfOper = true) ∧
    (n ∈ C.modes.voices ↔ ∃ m, Map.lookup n C.users = some m ∧ m.voice = true) := by
  have r := h.rankMirror ch C hC
  simp only [← KSet.mem_iff]
  exact ⟨r.founders n, r.protecteds n, r.operators n, r.halfOperators n, r.voices n⟩

/-- a channel without members exists only if it is preconfigured -/
theorem empty_only_if_preconfigured {w : World} (h : InvCore w) {ch : Str} {C : Channel}
    (hC : Map.lookup ch w.channels = some C) (he : ∀ n, ¬ Member w ch n) : C.preconfigured = true := by
  apply h.noEmptyAdHoc ch C hC
  apply IP.map_eq_nil_of_lookup_none
  intro k
  cases hk : Map.lookup k C.users with
  | none => rfl
  | some v =>
    exact absurd ((Memb.World.memOf_iff w ch k).mpr ⟨C, hC, (Map.contains_iff _ _).mpr ⟨v, hk⟩⟩) (he k)

/-! ### 2. history: who becomes / stops being a member -/

/-- the relation after `n` joined the channels satisfying `accepted` -/
def Spec.afterJoin (R : Str → Str → Prop) (n : Str) (accepted : Str → Prop) : Str → Str → Prop :=
  fun ch m => R ch m ∨ (m = n ∧ accepted ch)
/-- the relation after `n` parted from the channels `chs` -/
def Spec.afterPart (R : Str → Str → Prop) (n : Str) (chs : List Str) : Str → Str → Prop :=
  fun ch m => R ch m ∧ ¬ (ch ∈ chs ∧ m = n)
/-- the relation after the users satisfying `victim` were kicked from `channel` -/
def Spec.afterKick (R : Str → Str → Prop) (channel : Str) (victim : Str → Prop) : Str → Str → Prop :=
  fun ch m => R ch m ∧ ¬ (ch = channel ∧ victim m)
/-- the relation after `n` disconnected -/
def Spec.afterQuit (R : Str → Str → Prop) (n : Str) : Str → Str → Prop :=
  fun ch m => R ch m ∧ m ≠ n
/-- the relation after `old` changed its nickname to the unused `new` -/
def Spec.afterNick (R : Str → Str → Prop) (old new : Str) : Str → Str → Prop :=
  fun ch m => if m = new then R ch old else if m = old then False else R ch m

/-- JOIN adds exactly the sender to exactly the listed channels whose admission decision is positive;
    nothing else changes -/
theorem join_adds_exactly {cfg : Cfg} {c : Nat} {channels : List Str} {keys : Option (List Str)} {x : Ctx}
    (h : InvCore x.w) (hl : Live x.w c) (ha : (x.conn c).authenticated = true) :
    ∃ n u, (x.conn c).nick = some n ∧ Map.lookup n x.w.users = some u ∧
      ∀ ch m, Member (processJoin cfg c channels keys x).w ch m ↔
        Spec.afterJoin (Member x.w) n
          (fun ch => ∃ p, p ∈ (Memb.joinDecisions cfg c channels keys x n u).zip channels ∧
            p.1.1 = true ∧ p.2 = ch) ch m := by
  obtain ⟨n, u, hn, hu, e⟩ := join_membership_effect (cfg := cfg) (channels := channels) (keys := keys) h hl ha
  exact ⟨n, u, hn, hu, e⟩

/-- only listed channels are joined -/
theorem join_only_listed {ds : List (Bool × Bool)} {channels : List Str} {ch : Str}
    (hp : ∃ p, p ∈ ds.zip channels ∧ p.1.1 = true ∧ p.2 = ch) : ch ∈ channels := by
  obtain ⟨p, hp, _, rfl⟩ := hp
  obtain ⟨a, b⟩ := p
  exact (List.of_mem_zip hp).2

/-- PART removes exactly the sender from exactly the listed channels -/
theorem part_removes_exactly {cfg : Cfg} {c : Nat} {channels : List Str} {reason : Option Str} {x : Ctx}
    (h : InvCore x.w) (hl : Live x.w c) (ha : (x.conn c).authenticated = true) :
    ∃ n, (x.conn c).nick = some n ∧
      ∀ ch m, Member (processPart cfg c channels reason x).w ch m ↔
        Spec.afterPart (Member x.w) n channels ch m :=
  part_membership_effect h hl ha

/-- KICK removes exactly the listed legitimate victims from exactly the named channel -/
theorem kick_removes_exactly {cfg : Cfg} {c : Nat} {channel : Str} {kickUsers : List Str}
    {comment : Option Str} {x : Ctx}
    (h : InvCore x.w) (hl : Live x.w c) (ha : (x.conn c).authenticated = true) :
    ∃ n, (x.conn c).nick = some n ∧
      ∀ ch m, Member (processKick cfg c channel kickUsers comment x).w ch m ↔
        Spec.afterKick (Member x.w) channel
          (fun m => m ∈ kickUsers ∧ Memb.KickVictim x.w channel n m) ch m :=
  kick_membership_effect h hl ha

/-- a disconnect (any `teardown` of a registered connection) removes its user from every channel and
    changes no other membership -/
theorem teardown_removes_member_everywhere {w : World} (h : InvCore w) {cn : Conn} (hm : cn ∈ w.conns)
    (ha : cn.authenticated = true) {n : Str} (hn : cn.nick = some n) (ch m : Str) :
    Member (teardown w cn.id) ch m ↔ Spec.afterQuit (Member w) n ch m := by
  obtain ⟨_, _, r3⟩ := teardown_removes_user h hm ha hn
  obtain ⟨_, k2, k3, _⟩ := teardown_keeps_others h hm ha hn
  unfold Spec.afterQuit Member
  rw [Memb.World.memOf_iff, Memb.World.memOf_iff]
  constructor
  · rintro ⟨C', hC', hc'⟩
    obtain ⟨C, hC, hs⟩ := k2 ch C' hC'
    have hne : m ≠ n := by
      rintro rfl
      rw [(r3 ch C' hC').1] at hc'; cases hc'
    refine ⟨⟨C, hC, ?_⟩, hne⟩
    unfold Map.contains at hc' ⊢
    rw [← hs.2.2.2.2.2.2.2.2.2.2.2.2.2.2.1 m hne]; exact hc'
  · rintro ⟨⟨C, hC, hc⟩, hne⟩
    cases hC' : Map.lookup ch (teardown w cn.id).channels with
    | none => exact absurd ((k3 ch C hC hC').2.2 m hc) hne
    | some C' =>
      obtain ⟨C0, hC0, hs⟩ := k2 ch C' hC'
      rw [hC] at hC0; cases hC0
      refine ⟨C', rfl, ?_⟩
      unfold Map.contains at hc ⊢
      rw [hs.2.2.2.2.2.2.2.2.2.2.2.2.2.2.1 m hne]; exact hc

/-- closing a connection that is not registered changes no membership -/
theorem teardown_unregistered_keeps_membership {w : World} (h : InvCore w) {cn : Conn} (hm : cn ∈ w.conns)
    (ha : cn.authenticated = false) (ch m : Str) : Member (teardown w cn.id) ch m ↔ Member w ch m := by
  unfold Member
  have e : Map.lookup ch (teardown w cn.id).channels = Map.lookup ch w.channels := by
    rw [(teardown_unauthenticated_noop h hm ha).2.1]
  rw [Memb.World.memOf_congr e]

/-- NICK of a registered connection: either nothing changes (same nick, or nick in use), or the
    memberships of the old nickname are carried over to the new one and nothing else changes -/
theorem nick_renames_member {cfg : Cfg} {c : Nat} {nick : Str} {msg : Message} {x : Ctx}
    (h : InvCore x.w) (hl : Live x.w c) (ha : (x.conn c).authenticated = true) :
    ∃ old, (x.conn c).nick = some old ∧
      ((∀ ch m, Member (processNick cfg c nick msg x).w ch m ↔ Member x.w ch m) ∨
       (nick ≠ old ∧ Map.lookup nick x.w.users = none ∧
        ∀ ch m, Member (processNick cfg c nick msg x).w ch m ↔
          Spec.afterNick (Member x.w) old nick ch m)) := by
  obtain ⟨hm, hcid⟩ := Reg.Ctx.conn_of_live hl
  obtain ⟨old, user, hnick, hold, _⟩ := h.authOwns _ hm ha
  refine ⟨old, hnick, ?_⟩
  by_cases hne : nick = old
  · left
    have : processNick cfg c nick msg x = x := by
      unfold processNick
      simp only [ha, Bool.not_true, Bool.false_eq_true, ↓reduceIte, hnick, hne, bne_self_eq_false]
    rw [this]; exact fun _ _ => Iff.rfl
  · by_cases hc : Map.contains nick x.w.users = true
    · left
      have : (processNick cfg c nick msg x).w = x.w := by
        unfold processNick
        have : (nick != old) = true := by simpa using hne
        simp only [ha, Bool.not_true, Bool.false_eq_true, ↓reduceIte, hnick, this, hc, Ctx.reply_w]
      rw [this]; exact fun _ _ => Iff.rfl
    · right
      have hc' : Map.contains nick x.w.users = false := by simpa using hc
      refine ⟨hne, (Map.contains_false_iff _ _).mp hc', fun ch m => ?_⟩
      unfold Member Spec.afterNick
      rw [IP.nick_rename_memOf (cfg := cfg) (msg := msg) h ha hnick hne hc' hold ch m]
      by_cases e1 : m = nick
      · simp [e1]
      · by_cases e2 : m = old <;> simp [e1, e2]

/-- the commands of a connection that is not registered never touch a channel -/
theorem unregistered_keeps_membership {cfg : Cfg} {c : Nat} {s : Str} {x : Ctx}
    (h : InvCore x.w) (hl : Live x.w c) (hu : (x.conn c).authenticated = false) (ch m : Str) :
    Member (handleLine cfg c s x).w ch m ↔ Member x.w ch m := by
  unfold Member
  have e : Map.lookup ch (handleLine cfg c s x).w.channels = Map.lookup ch x.w.channels := by
    rw [(IP.handleLine_unreg_regEffect (cfg := cfg) (s := s) h hl hu).1]
  rw [Memb.World.memOf_congr e]

/-- the three query commands themselves change nothing at all -/
theorem views_are_read_only {cfg : Cfg} {c : Nat} {x : Ctx}
    (h : InvCore x.w) (hl : Live x.w c) (ha : (x.conn c).authenticated = true)
    (chs : List Str) (mask : Str) (t : Option Str) (ns : List Str) :
    (processNames cfg c chs x).w = x.w ∧ (processWho cfg c mask x).w = x.w ∧
    (processWhois cfg c t ns x).w = x.w :=
  ⟨processNames_world_unchanged h, processWho_world_unchanged h hl ha, processWhois_world_unchanged h hl ha⟩

/-- "nobody else changes", for the four membership-changing operations: JOIN and PART touch only the
    sender, KICK only listed nicknames, a disconnect only the disconnecting user -/
theorem nobody_else_changes {cfg : Cfg} {c : Nat} {x : Ctx}
    (h : InvCore x.w) (hl : Live x.w c) (ha : (x.conn c).authenticated = true) :
    ∃ n, (x.conn c).nick = some n ∧
      (∀ channels keys ch m, m ≠ n →
        (Member (processJoin cfg c channels keys x).w ch m ↔ Member x.w ch m)) ∧
      (∀ channels reason ch m, m ≠ n →
        (Member (processPart cfg c channels reason x).w ch m ↔ Member x.w ch m)) ∧
      (∀ channel kickUsers comment ch m, m ∉ kickUsers →
        (Member (processKick cfg c channel kickUsers comment x).w ch m ↔ Member x.w ch m)) := by
  obtain ⟨n, u, hn, _, _⟩ := Memb.sender_of_auth h hl ha
  refine ⟨n, hn, ?_, ?_, ?_⟩
  · intro channels keys ch m hne
    obtain ⟨n', u', hn', _, e⟩ := join_adds_exactly (cfg := cfg) (channels := channels) (keys := keys) h hl ha
    rw [hn] at hn'; cases hn'
    rw [e]; unfold Spec.afterJoin
    exact ⟨fun hh => hh.elim id (fun hh => absurd hh.1 hne), Or.inl⟩
  · intro channels reason ch m hne
    obtain ⟨n', hn', e⟩ := part_removes_exactly (cfg := cfg) (channels := channels) (reason := reason) h hl ha
    rw [hn] at hn'; cases hn'
    rw [e]; unfold Spec.afterPart
    exact ⟨fun hh => hh.1, fun hh => ⟨hh, fun hh' => hne hh'.2⟩⟩
  · intro channel kickUsers comment ch m hne
    obtain ⟨n', hn', e⟩ := kick_removes_exactly (cfg := cfg) (channel := channel) (kickUsers := kickUsers)
      (comment := comment) h hl ha
    rw [e]; unfold Spec.afterKick
    exact ⟨fun hh => hh.1, fun hh => ⟨hh, fun hh' => hne hh'.2.1⟩⟩

/-- **Only JOIN, PART, KICK and NICK change the relation in their handler.**  Any other line of a
    registered connection (any command, or text that is no command at all) leaves every membership
    as it is.  (QUIT, KILL, DIE and SQUIT only flag connections; the memberships of the users they end
    are removed by the `teardown` of the settling phase, see `teardown_removes_member_everywhere`.) -/
theorem membership_changes_only_by {cfg : Cfg} {c : Nat} {s : Str} {x : Ctx}
    (h : InvCore x.w) (hl : Live x.w c) (ha : (x.conn c).authenticated = true)
    (hno : ∀ msg cmd, Message.parse s = .ok msg → Command.fromMessage msg = .ok cmd →
      IP.changesMembership cmd = false) (ch m : Str) :
    Member (handleLine cfg c s x).w ch m ↔ Member x.w ch m := by
  unfold Member
  rw [IP.handleLine_auth_memOf h hl ha hno]

/-- the commands meant by `IP.changesMembership` -/
theorem changesMembership_iff (cmd : Command) :
    IP.changesMembership cmd = true ↔
      (∃ a b, cmd = .JOIN a b) ∨ (∃ a b, cmd = .PART a b) ∨ (∃ a b d, cmd = .KICK a b d) ∨
      (∃ a, cmd = .NICK a) := by
  cases cmd <;> simp [IP.changesMembership]

/-! ### 3. the three views -/

/-- is the observer (given by its nick, if it has one) on the channel? -/
def onChannel (obs : Option Str) (C : Channel) : Bool :=
  obs.any (fun n => Map.contains n C.users)

/-- NAMES shows member `m`: it is a registered user, and not invisible unless the observer is on the
    channel -/
def namesShows (w : World) (obsOn : Bool) (m : Str) : Bool :=
  (Map.lookup m w.users).any (fun u => !u.modes.invisible || obsOn)

/-- the nicknames NAMES lists for channel `C` to an observer -/
def namesView (w : World) (obs : Option Str) (C : Channel) : List Str :=
  (Map.keys C.users).filter (namesShows w (onChannel obs C))

/-- the `(prefix, nick)` entries of the 353 lines -/
def namesEntries (w : World) (obs : Option Str) (multiPrefix : Bool) (C : Channel) : List (Str × Str) :=
  C.users.filterMap (fun p =>
    if namesShows w (onChannel obs C) p.1 then some (p.2.prefixStr multiPrefix, p.1) else none)

/-- WHO shows member `m` to the user `obsUser`: not invisible, or sharing a channel with the observer -/
def whoShows (w : World) (obsUser : User) (m : Str) : Bool :=
  match Map.lookup m w.users with
  | some uu => !uu.modes.invisible || !(KSet.disjoint uu.channels obsUser.channels)
  | none => false

/-- the nicknames WHO `#channel` lists -/
def whoView (w : World) (obsUser : User) (C : Channel) : List Str :=
  (Map.keys C.users).filter (whoShows w obsUser)

/-- the rows (nick, member flags, user record) behind the 352 lines -/
def whoRows (w : World) (obsUser : User) (C : Channel) : List (Str × ChanUserModes × User) :=
  C.users.filterMap (fun p =>
    match Map.lookup p.1 w.users with
    | some uu => if whoShows w obsUser p.1 then some (p.1, p.2, uu) else none
    | none => none)

/-- one 352 line -/
def whoLine (cfg : Cfg) (cn : Conn) (mask : Str) (r : Str × ChanUserModes × User) : Str :=
  srvLine cfg (RplWhoReply352 cn.clientName mask r.2.2.name r.2.2.hostname cfg.name r.1
    ((if r.2.2.away.isSome then ['G'] else ['H']) ++ (if r.2.2.modes.isLocalOper then ['*'] else []) ++
      r.2.1.prefixStr cn.multiPrefix) 0 r.2.2.realname)

/-- WHOIS talks about `au` to `obsUser`: not (invisible and sharing no channel) -/
def whoisVisible (au obsUser : User) : Bool :=
  !(au.modes.invisible && KSet.disjoint au.channels obsUser.channels)

/-- the channels WHOIS lists for nick `n` with user record `au`: its non-secret channels -/
def whoisChannels (w : World) (n : Str) (au : User) : List Str :=
  au.channels.filter (fun chn =>
    match Map.lookup chn w.channels with
    | some ch => !ch.modes.secret && Map.contains n ch.users
    | none => false)

/-- **NAMES, output.**  For a channel whose member nicknames are non-empty (guaranteed by the NICK
    validation; the invariant does not record it), the reply of `send_names_from_channel` consists of
    the 353 lines carrying `namesEntries` in groups of 20 (plus 366 if asked for) when the channel is
    not secret or the observer is on it, and of nothing otherwise; the nicknames carried are
    `namesView`. -/
theorem names_output {cfg : Cfg} {c : Nat} {chname : Str} {C : Channel} {theEnd : Bool} {x : Ctx}
    (hne : ∀ m, Map.contains m C.users = true → m ≠ []) :
    (sendNamesFromChannel cfg c chname C theEnd x).direct = x.direct ++
      (if !C.modes.secret || onChannel (x.conn c).nick C then
        (chunks 20 (namesEntries x.w (x.conn c).nick (x.conn c).multiPrefix C)).map (fun chunk =>
          srvLine cfg (RplNameReply353 (x.conn c).clientName (if C.modes.secret then ['@'] else ['='])
            chname chunk)) ++
        (if theEnd then [srvLine cfg (RplEndOfNames366 (x.conn c).clientName chname)] else [])
       else []) ∧
    (namesEntries x.w (x.conn c).nick (x.conn c).multiPrefix C).map (·.2) = namesView x.w (x.conn c).nick C := by
  constructor
  · have hne' : ∀ p, p ∈ C.users → p.1 ≠ [] := fun p hp => hne p.1 (RO.map_contains_of_mem (v := p.2) hp)
    exact IP.sendNames_direct cfg c chname C theEnd x hne'
  · unfold namesEntries namesView
    rw [← IP.filter_keys]
    apply IP.map_filterMap_eq_filter
    · intro a b _ hab
      split at hab
      · cases hab; rfl
      · cases hab
    · intro a _
      split <;> simp_all

/-- the hypothesis of `names_output` is needed: `send_names_from_channel` drops a member whose nickname
    is the empty string (the Rust code uses the empty nickname as its "hidden" marker).  NICK validation
    never accepts such a nickname, but the invariant does not record that. -/
example :
    let u : User := { hostname := [], name := [], realname := [], source := [], modes := {},
                      history := ⟨[], [], []⟩, owner := 1 }
    let C : Channel := { users := [([], {})] }
    namesView { users := [([], u)] } none C = [[]] ∧
    (sendNamesFromChannel {} 1 (str "#c") C false { w := { users := [([], u)] } }).direct = [] := by decide

/-- **NAMES, a member looks.**  An observer that is on the channel sees exactly the members. -/
theorem names_view_member {w : World} (h : InvCore w) {ch : Str} {C : Channel}
    (hC : Map.lookup ch w.channels = some C) {obs : Str} (hobs : Map.contains obs C.users = true) :
    namesView w (some obs) C = Map.keys C.users := by
  unfold namesView
  apply List.filter_eq_self.mpr
  intro m hm
  have hc : Map.contains m C.users = true := (Map.contains_iff _ _).mpr ((Map.mem_keys_iff _ _).mp hm)
  obtain ⟨u, hu⟩ := (Map.contains_iff _ _).mp (h.memberIsUser ch C m hC hc)
  simp [namesShows, hu, onChannel, hobs]

/-- **NAMES, an outsider looks** (at a non-secret channel): it sees only members, and all members
    that are not invisible. -/
theorem names_view_outsider {w : World} (h : InvCore w) {ch : Str} {C : Channel}
    (hC : Map.lookup ch w.channels = some C) (obs : Option Str) (m : Str) :
    (m ∈ namesView w obs C → Member w ch m) ∧
    (Member w ch m → (∀ u, Map.lookup m w.users = some u → u.modes.invisible = false) →
      m ∈ namesView w obs C) := by
  unfold namesView Member
  rw [Memb.World.memOf_of_lookup hC]
  constructor
  · intro hm
    exact (Map.contains_iff _ _).mpr ((Map.mem_keys_iff _ _).mp (List.mem_filter.mp hm).1)
  · intro hc hinv
    obtain ⟨u, hu⟩ := (Map.contains_iff _ _).mp (h.memberIsUser ch C m hC hc)
    refine List.mem_filter.mpr ⟨(Map.mem_keys_iff _ _).mpr ((Map.contains_iff _ _).mp hc), ?_⟩
    simp [namesShows, hu, hinv u hu]

/-- **WHO `#channel`, output.**  When the sender may look at the channel (not secret, or the sender is
    on it) the reply is one 352 line per row of `whoRows`, then 315; the nicknames are `whoView`. -/
theorem who_output {cfg : Cfg} {c : Nat} {mask : Str} {x : Ctx} {nick : Str} {user : User} {C : Channel}
    (hn : (x.conn c).nick = some nick) (hu : Map.lookup nick x.w.users = some user)
    (hw1 : containsChar '*' mask = false) (hw2 : containsChar '?' mask = false)
    (hv : validateChannel mask = true) (hC : Map.lookup mask x.w.channels = some C)
    (hs : (!C.modes.secret || Map.contains nick C.users) = true) :
    (processWho cfg c mask x).direct = x.direct ++
      (whoRows x.w user C).map (whoLine cfg (x.conn c) mask) ++
      [srvLine cfg (RplEndOfWho315 (x.conn c).clientName mask)] ∧
    (whoRows x.w user C).map (·.1) = whoView x.w user C := by
  constructor
  · rw [IP.processWho_channel_direct hn hu hw1 hw2 hv hC hs, srvLine_eq]
    congr 2
    unfold whoRows
    rw [List.map_filterMap]
    apply IP.filterMap_congr'
    intro p _
    unfold whoShows
    cases Map.lookup p.1 x.w.users with
    | none => rfl
    | some uu =>
      simp only
      split <;> simp [whoLine, srvLine_eq]
  · unfold whoRows whoView
    rw [← IP.filter_keys]
    apply IP.map_filterMap_eq_filter
    · intro a b _ hab
      split at hab
      · split at hab
        · cases hab; rfl
        · cases hab
      · cases hab
    · intro a _
      unfold whoShows
      cases Map.lookup a.1 x.w.users with
      | none => rfl
      | some uu => simp only; split <;> simp_all

/-- **WHO, a member looks.**  A sender that is on the channel gets exactly the members: invisible
    members share this very channel with the sender. -/
theorem who_view_member {w : World} (h : InvCore w) {ch : Str} {C : Channel}
    (hC : Map.lookup ch w.channels = some C) {obs : Str} {obsUser : User}
    (hou : Map.lookup obs w.users = some obsUser) (hobs : Map.contains obs C.users = true) :
    whoView w obsUser C = Map.keys C.users := by
  unfold whoView
  apply List.filter_eq_self.mpr
  intro m hm
  have hc : Map.contains m C.users = true := (Map.contains_iff _ _).mpr ((Map.mem_keys_iff _ _).mp hm)
  obtain ⟨u, hu⟩ := (Map.contains_iff _ _).mp (h.memberIsUser ch C m hC hc)
  have h1 : ch ∈ u.channels := (KSet.mem_iff _ _).mp ((h.memberSym m u ch hu).mpr ⟨C, hC, hc⟩)
  have h2 : KSet.mem ch obsUser.channels = true := (h.memberSym obs obsUser ch hou).mpr ⟨C, hC, hobs⟩
  simp [whoShows, hu, IP.disjoint_false_of_common h1 h2]

/-- **WHO, an outsider looks**: only members, and all members that are not invisible. -/
theorem who_view_outsider {w : World} (h : InvCore w) {ch : Str} {C : Channel}
    (hC : Map.lookup ch w.channels = some C) (obsUser : User) (m : Str) :
    (m ∈ whoView w obsUser C → Member w ch m) ∧
    (Member w ch m → (∀ u, Map.lookup m w.users = some u → u.modes.invisible = false) →
      m ∈ whoView w obsUser C) := by
  unfold whoView Member
  rw [Memb.World.memOf_of_lookup hC]
  constructor
  · intro hm
    exact (Map.contains_iff _ _).mpr ((Map.mem_keys_iff _ _).mp (List.mem_filter.mp hm).1)
  · intro hc hinv
    obtain ⟨u, hu⟩ := (Map.contains_iff _ _).mp (h.memberIsUser ch C m hC hc)
    refine List.mem_filter.mpr ⟨(Map.mem_keys_iff _ _).mpr ((Map.contains_iff _ _).mp hc), ?_⟩
    simp [whoShows, hu, hinv u hu]

/-- **WHOIS, output.**  For a target that is visible to the asker, the 319 lines carry, in groups of
    30, one entry per channel of `whoisChannels` (with the member's prefix); an invisible target
    sharing no channel with the asker produces no line at all. -/
theorem whois_output {cfg : Cfg} {cn : Conn} {user : User} {nick : Str} {x : Ctx} {au : User}
    (hau : Map.lookup nick x.w.users = some au) :
    (whoisVisible au user = false → whoisOne cfg cn user nick x = x) ∧
    (whoisVisible au user = true →
      ∃ pre post : List Str,
        (whoisOne cfg cn user nick x).direct = x.direct ++ pre ++
          (chunks 30 (IP.whoisShown x.w cn.multiPrefix nick au)).map
            (fun chunk => srvLine cfg (RplWhoIsChannels319 cn.clientName nick chunk)) ++ post ∧
        pre = (if au.modes.registered then [srvLine cfg (RplWhoIsRegNick307 cn.clientName nick)] else []) ++
          [srvLine cfg (RplWhoIsUser311 cn.clientName nick au.name au.hostname au.realname),
           srvLine cfg (RplWhoIsServer312 cn.clientName nick cfg.name cfg.info)] ++
          (if au.modes.isLocalOper then [srvLine cfg (RplWhoIsOperator313 cn.clientName nick)] else []) ∧
        post = [srvLine cfg (RplwhoIsIdle317 cn.clientName nick 0 0)] ++
          (if au.modes.isLocalOper then
            [srvLine cfg (RplWhoIsHost378 cn.clientName nick au.hostname),
             srvLine cfg (RplWhoIsModes379 cn.clientName nick au.modes.render)] else [])) ∧
    (IP.whoisShown x.w cn.multiPrefix nick au).map (·.2) = whoisChannels x.w nick au := by
  refine ⟨?_, ?_, ?_⟩
  · intro hv
    apply IP.whoisOne_hidden hau
    unfold whoisVisible at hv
    cases h1 : (au.modes.invisible && KSet.disjoint au.channels user.channels)
    · rw [h1] at hv; cases hv
    · rfl
  · intro hv
    have hv' : (au.modes.invisible && KSet.disjoint au.channels user.channels) = false := by
      unfold whoisVisible at hv
      cases h1 : (au.modes.invisible && KSet.disjoint au.channels user.channels)
      · rfl
      · rw [h1] at hv; cases hv
    refine ⟨_, _, ?_, rfl, rfl⟩
    rw [IP.whoisOne_direct hau hv']
    simp only [List.append_assoc]
  · unfold IP.whoisShown whoisChannels
    refine (IP.map_filterMap_eq_filter au.channels _ (fun b : Option Str × Str => b.2) id _
      (by
        intro a b _ hab
        cases hl : Map.lookup a x.w.channels with
        | none => rw [hl] at hab; cases hab
        | some ch =>
          rw [hl] at hab
          simp only at hab
          split at hab
          · cases hl2 : Map.lookup nick ch.users with
            | none => rw [hl2] at hab; cases hab
            | some chum => rw [hl2] at hab; cases hab; rfl
          · cases hab)
      (by
        intro a _
        cases Map.lookup a x.w.channels with
        | none => rfl
        | some ch =>
          simp only
          cases ch.modes.secret with
          | true => rfl
          | false =>
            simp only [Bool.not_false, ↓reduceIte, Bool.true_and, Map.contains]
            cases Map.lookup nick ch.users <;> rfl)).trans (List.map_id _)

/-- **WHOIS lists the membership.**  For a non-secret channel `ch`, WHOIS on `n` lists `ch` iff `n` is a
    member of `ch`.  (Secret channels are never listed by WHOIS, not even to their own members.) -/
theorem whois_lists_membership {w : World} (h : InvCore w) {n : Str} {au : User}
    (hau : Map.lookup n w.users = some au) {ch : Str} :
    ch ∈ whoisChannels w n au ↔
      (Member w ch n ∧ ∃ C, Map.lookup ch w.channels = some C ∧ C.modes.secret = false) := by
  unfold whoisChannels Member
  rw [List.mem_filter, ← KSet.mem_iff, h.memberSym n au ch hau, Memb.World.memOf_iff]
  constructor
  · rintro ⟨⟨C, hC, hc⟩, hm⟩
    rw [hC] at hm
    simp only [Bool.and_eq_true, Bool.not_eq_eq_eq_not, Bool.not_true] at hm
    exact ⟨⟨C, hC, hc⟩, C, hC, hm.1⟩
  · rintro ⟨⟨C, hC, hc⟩, C', hC', hs⟩
    rw [hC] at hC'; cases hC'
    refine ⟨⟨C, hC, hc⟩, ?_⟩
    rw [hC]; simp [hs, hc]

/-- **The three views agree.**  Let the observer `obs` be on the non-secret channel `ch`.  Then NAMES
    and WHO both list exactly the members of `ch`, every member is visible to the observer in WHOIS,
    and WHOIS on a nickname lists `ch` exactly for the members. -/
theorem views_agree_for_members {w : World} (h : InvCore w) {ch : Str} {C : Channel}
    (hC : Map.lookup ch w.channels = some C) (hsec : C.modes.secret = false)
    {obs : Str} {obsUser : User} (hou : Map.lookup obs w.users = some obsUser)
    (hobs : Map.contains obs C.users = true) :
    namesView w (some obs) C = Map.keys C.users ∧
    whoView w obsUser C = Map.keys C.users ∧
    (∀ m, m ∈ Map.keys C.users ↔ Member w ch m) ∧
    (∀ m au, Map.lookup m w.users = some au →
      ((m ∈ Map.keys C.users → whoisVisible au obsUser = true) ∧
       (ch ∈ whoisChannels w m au ↔ m ∈ Map.keys C.users))) := by
  have hmem : ∀ m, m ∈ Map.keys C.users ↔ Member w ch m := by
    intro m
    unfold Member
    rw [Memb.World.memOf_of_lookup hC, Map.mem_keys_iff, Map.contains_iff]
  refine ⟨names_view_member h hC hobs, who_view_member h hC hou hobs, hmem, ?_⟩
  intro m au hau
  constructor
  · intro hm
    have hc : Map.contains m C.users = true := (Map.contains_iff _ _).mpr ((Map.mem_keys_iff _ _).mp hm)
    have h1 : ch ∈ au.channels := (KSet.mem_iff _ _).mp ((h.memberSym m au ch hau).mpr ⟨C, hC, hc⟩)
    have h2 : KSet.mem ch obsUser.channels = true := (h.memberSym obs obsUser ch hou).mpr ⟨C, hC, hobs⟩
    simp [whoisVisible, IP.disjoint_false_of_common h1 h2]
  · rw [whois_lists_membership h hau, hmem]
    exact ⟨fun hh => hh.1, fun hh => ⟨hh, C, hC, hsec⟩⟩

/-! ### non-vacuity (`RO.Ex.w`: alice — invisible — and bob on `#c`; `Memb.Ex`: a, b joining `#c`) -/

example : InvCore RO.Ex.w ∧ Member RO.Ex.w RO.Ex.chan RO.Ex.alice ∧ Member RO.Ex.w RO.Ex.chan RO.Ex.bob ∧
    ¬ Member RO.Ex.w RO.Ex.chan (str "zed") := ⟨RO.Ex.inv, by decide, by decide, by decide⟩
-- a member sees both, an outsider does not see the invisible alice
example : namesView RO.Ex.w (some RO.Ex.bob) RO.Ex.cChan = [RO.Ex.alice, RO.Ex.bob] ∧
    namesView RO.Ex.w (some (str "zed")) RO.Ex.cChan = [RO.Ex.bob] ∧
    namesView RO.Ex.w none RO.Ex.cChan = [RO.Ex.bob] := by decide
example : whoView RO.Ex.w RO.Ex.uBob RO.Ex.cChan = [RO.Ex.alice, RO.Ex.bob] ∧
    whoView RO.Ex.w { RO.Ex.uBob with channels := [] } RO.Ex.cChan = [RO.Ex.bob] := by decide
example : whoisChannels RO.Ex.w RO.Ex.alice RO.Ex.uAlice = [RO.Ex.chan] ∧
    whoisVisible RO.Ex.uAlice RO.Ex.uBob = true ∧
    whoisVisible RO.Ex.uAlice { RO.Ex.uBob with channels := [] } = false := by decide
example : ((processNames RO.Ex.cfg 2 [RO.Ex.chan] RO.Ex.x).direct.map String.ofList).take 1 =
    [":irc.irc 353 bob = #c :~alice +bob"] := by decide
example : ((processWho RO.Ex.cfg 2 RO.Ex.chan RO.Ex.x).direct.map String.ofList).length = 3 := by decide
-- history: JOIN / PART / KICK on `Memb.Ex`
example : ¬ Member Memb.Ex.w0 Memb.Ex.hc Memb.Ex.na ∧ Member Memb.Ex.w1 Memb.Ex.hc Memb.Ex.na ∧
    ¬ Member Memb.Ex.w1 Memb.Ex.hc Memb.Ex.nb ∧ Member Memb.Ex.w2 Memb.Ex.hc Memb.Ex.nb := by decide
example : ¬ Member (processPart Memb.Ex.cfg0 1 [Memb.Ex.hc] none (Memb.Ex.ctx Memb.Ex.w2)).w Memb.Ex.hc Memb.Ex.na ∧
    Member (processPart Memb.Ex.cfg0 1 [Memb.Ex.hc] none (Memb.Ex.ctx Memb.Ex.w2)).w Memb.Ex.hc Memb.Ex.nb := by
  decide
-- MODE / TOPIC / PRIVMSG ... change no membership
example : (handleLine Modes.Ex.cfgE 1 (str "MODE #c +tl 5") (Modes.Ex.ctx Modes.Ex.w0)).w.channels ≠
      Modes.Ex.w0.channels ∧
    Member (handleLine Modes.Ex.cfgE 1 (str "MODE #c +tl 5") (Modes.Ex.ctx Modes.Ex.w0)).w Modes.Ex.hc Modes.Ex.na ∧
    ¬ Member (handleLine Modes.Ex.cfgE 1 (str "MODE #c +tl 5") (Modes.Ex.ctx Modes.Ex.w0)).w Modes.Ex.hc Modes.Ex.nb := by
  decide
-- NICK: the membership moves to the new nickname
example : Member (processNick {} 1 (str "b") (Reg.exMsg "b") { w := Reg.exW6 }).w (str "#c") (str "b") ∧
    ¬ Member (processNick {} 1 (str "b") (Reg.exMsg "b") { w := Reg.exW6 }).w (str "#c") (str "a") ∧
    Member Reg.exW6 (str "#c") (str "a") := by decide
-- disconnect: gone from the channel
example : Member Tear.exWorld (str "#a") (str "a") ∧ ¬ Member (teardown Tear.exWorld 1) (str "#a") (str "a") := by
  decide

/-! ### reachable worlds -/
section Reachable

theorem reachable_membership_symmetric {cfg : Cfg} {evs : List Event} (hs : SchedAll cfg evs) {n : Str}
    {u : User} (hu : Map.lookup n (run cfg evs).users = some u) (ch : Str) :
    ch ∈ u.channels ↔ Member (run cfg evs) ch n :=
  membership_symmetric (inv_run hs).toInvCore hu ch

theorem reachable_members_are_users {cfg : Cfg} {evs : List Event} (hs : SchedAll cfg evs) {ch n : Str}
    (hm : Member (run cfg evs) ch n) : ∃ u, Map.lookup n (run cfg evs).users = some u ∧ ch ∈ u.channels :=
  members_are_users (inv_run hs).toInvCore hm

theorem reachable_views_agree {cfg : Cfg} {evs : List Event} (hs : SchedAll cfg evs) {ch : Str} {C : Channel}
    (hC : Map.lookup ch (run cfg evs).channels = some C) (hsec : C.modes.secret = false)
    {obs : Str} {obsUser : User} (hou : Map.lookup obs (run cfg evs).users = some obsUser)
    (hobs : Map.contains obs C.users = true) :
    namesView (run cfg evs) (some obs) C = Map.keys C.users ∧
    whoView (run cfg evs) obsUser C = Map.keys C.users ∧
    (∀ m, m ∈ Map.keys C.users ↔ Member (run cfg evs) ch m) ∧
    (∀ m au, Map.lookup m (run cfg evs).users = some au →
      ((m ∈ Map.keys C.users → whoisVisible au obsUser = true) ∧
       (ch ∈ whoisChannels (run cfg evs) m au ↔ m ∈ Map.keys C.users))) :=
  views_agree_for_members (inv_run hs).toInvCore hC hsec hou hobs

end Reachable

end Irc.C04
