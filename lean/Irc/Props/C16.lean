/-
  Property C16.  "Joining a channel name that does not exist (within the max_joins quota)
  creates the channel without restrictions and makes the joiner its founder and operator; the
  channel ceases to exist - forgetting topic, modes, lists and ranks - as soon as its last
  member leaves by any means, and a later JOIN creates a fresh one.  Channels declared in the
  configuration exist from start-up with their configured topic, flags, key, limit and mask
  lists, persist while empty, and give the configured ranks to the listed nicknames whenever
  these join."

  Model: `Channel.newOnUserJoin`, `joinDecide`/`joinApply` (JOIN), `Channel.removeUser`,
  `World.removeUserFromChannel` (PART, KICK), `World.removeUser` (QUIT / EOF / KILL / timeout via
  `teardown`), `World.init` (start-up), `Channel.addUser` (JOIN of an existing channel).
  Helper lemmas: `Irc/Props/IdentLemmas.lean`.
-/
import Irc.Props.IdentLemmas
namespace Irc.C16
open Irc

/-! ## 0. vocabulary -/

/-- founder and operator, nothing else -/
def founderOp : ChanUserModes :=
  { founder := true, operator := true, prot := false, voice := false, halfOper := false }

/-- the five boolean channel flags (`+i +m +s +t +n`) -/
def flagsOf (m : ChannelModes) : Bool × Bool × Bool × Bool × Bool :=
  (m.inviteOnly, m.moderated, m.secret, m.protectedTopic, m.noExternalMessages)

/-- A channel as created by a JOIN: no restrictions, no topic, no lists, the joiner alone,
    founder and operator. -/
structure Fresh (nick : Str) (C : Channel) : Prop where
  topic : C.topic = none
  flags : flagsOf C.modes = (false, false, false, false, false)
  key : C.modes.key = none
  limit : C.modes.clientLimit = none
  ban : C.modes.ban = []
  exception : C.modes.exception = []
  inviteException : C.modes.inviteException = []
  banInfo : C.banInfo = []
  adHoc : C.preconfigured = false
  noDefaults : C.defaultModes = {}
  members : C.users = [(nick, founderOp)]
  founders : C.modes.founders = [nick]
  operators : C.modes.operators = [nick]
  protecteds : C.modes.protecteds = []
  halfOperators : C.modes.halfOperators = []
  voices : C.modes.voices = []

/-- everything of a channel except its members and rank lists -/
structure SameSettings (C C' : Channel) : Prop where
  topic : C'.topic = C.topic
  flags : flagsOf C'.modes = flagsOf C.modes
  key : C'.modes.key = C.modes.key
  limit : C'.modes.clientLimit = C.modes.clientLimit
  ban : C'.modes.ban = C.modes.ban
  exception : C'.modes.exception = C.modes.exception
  inviteException : C'.modes.inviteException = C.modes.inviteException
  banInfo : C'.banInfo = C.banInfo
  defaultModes : C'.defaultModes = C.defaultModes
  preconfigured : C'.preconfigured = C.preconfigured

/-- a set of names after `n` has been taken out -/
def SetWithout (n : Str) (s s' : KSet) : Prop :=
  ∀ k, KSet.mem k s' = (!decide (k = n) && KSet.mem k s)

/-- `C'` is `C` after member `n` left: gone from the member map and from the five rank lists,
    everybody and everything else as before -/
structure MemberRemoved (n : Str) (C C' : Channel) : Prop where
  gone : Map.lookup n C'.users = none
  others : ∀ k, k ≠ n → Map.lookup k C'.users = Map.lookup k C.users
  founders : SetWithout n C.modes.founders C'.modes.founders
  protecteds : SetWithout n C.modes.protecteds C'.modes.protecteds
  operators : SetWithout n C.modes.operators C'.modes.operators
  halfOperators : SetWithout n C.modes.halfOperators C'.modes.halfOperators
  voices : SetWithout n C.modes.voices C'.modes.voices
  settings : SameSettings C C'

/-- `n` is the only member of `C` -/
def SoleMember (n : Str) (C : Channel) : Prop :=
  Map.contains n C.users = true ∧ ∀ k, Map.contains k C.users = true → k = n

/-- `C` has a member other than `n` -/
def OthersRemain (n : Str) (C : Channel) : Prop := ∃ k, k ≠ n ∧ Map.contains k C.users = true

/-! ## 1. a created channel -/

/-- **fresh_channel.**  The channel made by a creating JOIN is unrestricted, has the joiner as
    its only member with exactly the founder and operator flags, mirrors that in the rank
    lists, and is a function of the joiner's nickname only. -/
theorem fresh_channel (nick : Str) :
    Fresh nick (Channel.newOnUserJoin nick) ∧
    RankMirror (Channel.newOnUserJoin nick) ∧
    (∀ k, Map.lookup k (Channel.newOnUserJoin nick).users =
      if k = nick then some founderOp else none) := by
  refine ⟨⟨rfl, rfl, rfl, rfl, rfl, rfl, rfl, rfl, rfl, rfl, rfl, rfl, rfl, rfl, rfl, rfl⟩, ?_, ?_⟩
  · have hl : ∀ k, Map.lookup k (Channel.newOnUserJoin nick).users =
        if nick = k then some ChanUserModes.createdChannel else none := fun k => rfl
    have hm : ∀ k, KSet.mem k [nick] = true ↔ nick = k := by
      intro k; simp [KSet.mem]
    have he : ∀ k, KSet.mem k [] = true ↔ False := by
      intro k; simp [KSet.mem]
    constructor
    all_goals
      intro k
      rw [hl]
      first
        | (show KSet.mem k [nick] = true ↔ _
           rw [hm]
           constructor
           · intro e; exact ⟨_, by rw [if_pos e], rfl⟩
           · rintro ⟨m, h1, _⟩; by_cases e : nick = k
             · exact e
             · rw [if_neg e] at h1; cases h1)
        | (show KSet.mem k [] = true ↔ _
           rw [he]
           constructor
           · exact False.elim
           · rintro ⟨m, h1, h2⟩
             by_cases e : nick = k
             · rw [if_pos e] at h1; cases h1; cases h2
             · rw [if_neg e] at h1; cases h1)
  · intro k
    show (if nick = k then some ChanUserModes.createdChannel else none) = _
    by_cases e : nick = k
    · subst e; simp [founderOp, ChanUserModes.createdChannel]
    · have e' : ¬ k = nick := fun h => e h.symm
      simp [e, e']

/-- `Fresh nick` describes exactly one channel value -/
theorem fresh_unique (nick : Str) (C : Channel) (h : Fresh nick C) :
    C = Channel.newOnUserJoin nick := by
  obtain ⟨topic, modes, defaultModes, banInfo, users, preconfigured⟩ := C
  obtain ⟨ban, exception, clientLimit, inviteException, key, operators, halfOperators, voices,
    founders, protecteds, inviteOnly, moderated, secret, protectedTopic, noExternalMessages⟩ := modes
  obtain ⟨h1, h2, h3, h4, h5, h6, h7, h8, h9, h10, h11, h12, h13, h14, h15, h16⟩ := h
  simp only [flagsOf, Prod.mk.injEq] at h2
  obtain ⟨f1, f2, f3, f4, f5⟩ := h2
  simp only at h1 h3 h4 h5 h6 h7 h8 h9 h10 h11 h12 h13 h14 h15 h16 f1 f2 f3 f4 f5
  subst h1 h3 h4 h5 h6 h7 h8 h9 h10 h11 h12 h13 h14 h15 h16 f1 f2 f3 f4 f5
  rfl

/-- the created channel does not depend on the world it is created in (in particular not on
    any earlier channel of that name) -/
theorem fresh_independent (nick chn : Str) (w₁ w₂ : World) :
    Map.lookup chn (joinApply nick [(true, true)] [chn] w₁).channels =
    Map.lookup chn (joinApply nick [(true, true)] [chn] w₂).channels := by
  rw [joinApply_cons, joinApply_cons, joinApply_nil_left, joinApply_nil_left,
    joinStep_lookup, joinStep_lookup]
  simp

example : Map.lookup (str "al") (Channel.newOnUserJoin (str "al")).users = some founderOp := by
  decide

/-! ## 2. JOIN of a name that does not exist creates it -/

/-- The decision loop of JOIN: a name that does not exist gets the decision "create", and
    "join" exactly when the quota allows (`cnt` = number of channels joined so far, including
    those accepted earlier in the same command). -/
theorem join_nonexistent_decides (cfg : Cfg) (w : World) (cn : Conn) (nick : Str) (inv : KSet)
    (chn : Str) (rest : List Str) (keys : List (Option Str)) (cnt : Nat)
    (hno : Map.lookup chn w.channels = none) :
    (joinDecide cfg w cn nick inv (chn :: rest) keys cnt).1.head? =
      some (match cfg.maxJoins with
            | some mj => decide (cnt < mj)
            | none => true, true) := by
  unfold joinDecide
  simp only [hno]
  cases cfg.maxJoins <;> simp

/-- **create_on_join.**  In the insert loop, a "join + create" decision for `chn` (not named
    again later in the same command) leaves exactly the fresh channel under that name, and the
    joiner's channel set contains `chn`. -/
theorem create_on_join (nick chn : Str) (dpre dpost : List (Bool × Bool)) (pre post : List Str)
    (w : World) (hlen : dpre.length = pre.length) (hpost : chn ∉ post) :
    Map.lookup chn (joinApply nick (dpre ++ (true, true) :: dpost) (pre ++ chn :: post) w).channels
      = some (Channel.newOnUserJoin nick) ∧
    (∀ u, Map.lookup nick w.users = some u →
      ∃ u', Map.lookup nick
          (joinApply nick (dpre ++ (true, true) :: dpost) (pre ++ chn :: post) w).users = some u' ∧
        KSet.mem chn u'.channels = true) := by
  rw [joinApply_append _ _ _ _ _ _ hlen, joinApply_cons]
  constructor
  · rw [joinApply_lookup_notin _ _ _ _ _ hpost, joinStep_lookup]; simp
  · intro u hu
    obtain ⟨u1, hu1, _⟩ := joinApply_user_mono nick dpre pre w u hu
    have hs := joinStep_user nick (joinApply nick dpre pre w) (true, true) chn nick
    rw [hu1] at hs
    simp only [and_self, ↓reduceIte, Option.map_some] at hs
    obtain ⟨u', hu', hmono⟩ := joinApply_user_mono nick dpost post _ _ hs
    exact ⟨u', hu', hmono chn (by simp [KSet.mem_insert])⟩

/-- the single-channel case `JOIN #new` -/
theorem create_on_join_single (nick chn : Str) (w : World) :
    Map.lookup chn (joinApply nick [(true, true)] [chn] w).channels
      = some (Channel.newOnUserJoin nick) ∧
    (∀ k, k ≠ chn →
      Map.lookup k (joinApply nick [(true, true)] [chn] w).channels = Map.lookup k w.channels) ∧
    (∀ u, Map.lookup nick w.users = some u →
      Map.lookup nick (joinApply nick [(true, true)] [chn] w).users =
        some { u with channels := KSet.insert chn u.channels
                      invitedTo := KSet.erase chn u.invitedTo }) ∧
    (∀ k, k ≠ nick →
      Map.lookup k (joinApply nick [(true, true)] [chn] w).users = Map.lookup k w.users) := by
  rw [joinApply_cons, joinApply_nil_left]
  refine ⟨?_, ?_, ?_, ?_⟩
  · rw [joinStep_lookup]; simp
  · intro k hk; rw [joinStep_lookup]; simp [hk]
  · intro u hu; rw [joinStep_user, hu]; simp
  · intro k hk; rw [joinStep_user]; simp [hk]

/-- over quota (decision "create" but not "join"): nothing is created -/
theorem no_create_over_quota (nick chn : Str) (w : World) :
    joinApply nick [(false, true)] [chn] w = w := by
  rw [joinApply_cons, joinApply_nil_left]; rfl

/-! ## 3. the last member leaves -/

section
variable {w : World} {ch n : Str} {C : Channel}

theorem without_spec (C : Channel) (n : Str) : MemberRemoved n C (C.without n) := by
  refine
    { gone := ?_, others := ?_
      founders := fun k => KSet.mem_erase k n _
      protecteds := fun k => KSet.mem_erase k n _
      operators := fun k => KSet.mem_erase k n _
      halfOperators := fun k => KSet.mem_erase k n _
      voices := fun k => KSet.mem_erase k n _
      settings := ⟨rfl, rfl, rfl, rfl, rfl, rfl, rfl, rfl, rfl, rfl⟩ }
  · simp [Channel.without]
  · intro k hk; simp only [Channel.without]; rw [Map.lookup_erase_ne _ _ _ (Ne.symm hk)]

/-- The last member `n` of a channel that is not preconfigured leaves: the channel - with its
    topic, modes, lists and ranks - is gone. -/
theorem last_member_leaves_adhoc (hC : Map.lookup ch w.channels = some C) (hs : SoleMember n C)
    (hp : C.preconfigured = false) :
    Map.lookup ch (w.removeUserFromChannel ch n).channels = none := by
  rw [rufc_lookup, if_pos rfl, hC, Option.bind_some, rmOpt_of_member hs.1]
  have : (Map.erase n C.users).isEmpty = true := (erase_isEmpty_iff n C.users).mpr hs.2
  simp [this, hp]

/-- The last member of a preconfigured channel leaves: the channel stays, empty, with its
    settings; the rank lists lose `n` (hence, by the rank mirror, are empty). -/
theorem last_member_leaves_preconfigured (hC : Map.lookup ch w.channels = some C)
    (hs : SoleMember n C) (hp : C.preconfigured = true) :
    ∃ C', Map.lookup ch (w.removeUserFromChannel ch n).channels = some C' ∧ C'.users = [] ∧
      MemberRemoved n C C' := by
  refine ⟨C.without n, ?_, ?_, without_spec C n⟩
  · rw [rufc_lookup, if_pos rfl, hC, Option.bind_some, rmOpt_of_member hs.1]
    simp [hp]
  · exact (Map.erase_eq_nil_iff n C.users).mpr hs.2

/-- A member leaves while others remain: the channel stays with the others. -/
theorem member_leaves_others_remain (hC : Map.lookup ch w.channels = some C)
    (hm : Map.contains n C.users = true) (ho : OthersRemain n C) :
    ∃ C', Map.lookup ch (w.removeUserFromChannel ch n).channels = some C' ∧ C'.users ≠ [] ∧
      MemberRemoved n C C' := by
  have hne : (Map.erase n C.users).isEmpty = false := by
    cases hq : (Map.erase n C.users).isEmpty with
    | false => rfl
    | true =>
      obtain ⟨k, hk, hkc⟩ := ho
      exact absurd ((erase_isEmpty_iff n C.users).mp hq k hkc) hk
  refine ⟨C.without n, ?_, ?_, without_spec C n⟩
  · rw [rufc_lookup, if_pos rfl, hC, Option.bind_some, rmOpt_of_member hm]
    simp [hne]
  · intro he
    have : (Map.erase n C.users).isEmpty = true := by
      show (C.without n).users.isEmpty = true
      rw [he]; rfl
    rw [hne] at this; cases this

/-- what else `remove_user_from_channel` does: the other channels are untouched, the leaver's
    channel set loses `ch`, the other users are untouched -/
theorem leave_frame (w : World) (ch n : Str) :
    (∀ k, k ≠ ch → Map.lookup k (w.removeUserFromChannel ch n).channels = Map.lookup k w.channels) ∧
    Map.lookup n (w.removeUserFromChannel ch n).users =
      (Map.lookup n w.users).map (fun u => { u with channels := KSet.erase ch u.channels }) ∧
    (∀ k, k ≠ n → Map.lookup k (w.removeUserFromChannel ch n).users = Map.lookup k w.users) := by
  refine ⟨?_, ?_, ?_⟩
  · intro k hk; rw [rufc_lookup, if_neg hk]
  · rw [rufc_users, Map.lookup_modify]; simp
  · intro k hk; rw [rufc_users, Map.lookup_modify]; simp [Ne.symm hk]

/-- **last_member_leaves** (the three cases together). -/
theorem last_member_leaves (hC : Map.lookup ch w.channels = some C)
    (hm : Map.contains n C.users = true) :
    (SoleMember n C → C.preconfigured = false →
      Map.lookup ch (w.removeUserFromChannel ch n).channels = none) ∧
    (SoleMember n C → C.preconfigured = true →
      ∃ C', Map.lookup ch (w.removeUserFromChannel ch n).channels = some C' ∧ C'.users = [] ∧
        MemberRemoved n C C') ∧
    (OthersRemain n C →
      ∃ C', Map.lookup ch (w.removeUserFromChannel ch n).channels = some C' ∧ C'.users ≠ [] ∧
        MemberRemoved n C C') :=
  ⟨last_member_leaves_adhoc hC, last_member_leaves_preconfigured hC,
   member_leaves_others_remain hC hm⟩

/-- either `n` is the sole member or others remain (for a member `n`) -/
theorem sole_or_others (hm : Map.contains n C.users = true) : SoleMember n C ∨ OthersRemain n C := by
  by_cases h : ∀ k, Map.contains k C.users = true → k = n
  · exact Or.inl ⟨hm, h⟩
  · right
    simp only [Classical.not_forall] at h
    obtain ⟨k, hk, hkn⟩ := h
    exact ⟨k, hkn, hk⟩

/-- **exists_iff_members.**  For a channel that is not preconfigured, after a member left the
    channel exists iff it still has members. -/
theorem exists_iff_members (hC : Map.lookup ch w.channels = some C)
    (hm : Map.contains n C.users = true) (hp : C.preconfigured = false) :
    (Map.lookup ch (w.removeUserFromChannel ch n).channels).isSome = true ↔ OthersRemain n C := by
  constructor
  · intro h
    rcases sole_or_others hm with hs | ho
    · rw [last_member_leaves_adhoc hC hs hp] at h; cases h
    · exact ho
  · intro ho
    obtain ⟨C', hC', _⟩ := member_leaves_others_remain hC hm ho
    rw [hC']; rfl

/-- I4 ("an empty channel exists only if it is preconfigured") is preserved by
    `remove_user_from_channel`, for any channel and nickname. -/
theorem noEmptyAdHoc_preserved (w : World) (ch n : Str)
    (h : ∀ c C, Map.lookup c w.channels = some C → C.users = [] → C.preconfigured = true) :
    ∀ c C, Map.lookup c (w.removeUserFromChannel ch n).channels = some C → C.users = [] →
      C.preconfigured = true := by
  intro c C' hC' he
  rw [rufc_lookup] at hC'
  by_cases e : c = ch
  · subst e
    rw [if_pos rfl] at hC'
    cases hl : Map.lookup c w.channels with
    | none => rw [hl] at hC'; cases hC'
    | some C =>
      rw [hl, Option.bind_some] at hC'
      cases hm : Map.contains n C.users with
      | false =>
        rw [rmOpt_of_not_member hm] at hC'; cases hC'
        exact h c C' hl he
      | true =>
        rw [rmOpt_of_member hm] at hC'
        split at hC'
        · cases hC'
        · rename_i hcond
          cases hC'
          have he' : (Map.erase n C.users).isEmpty = true := by
            show (C.without n).users.isEmpty = true
            rw [he]; rfl
          simp only [he', Bool.true_and, Bool.not_eq_true', Bool.not_eq_false] at hcond
          exact hcond
  · rw [if_neg e] at hC'; exact h c C' hC' he

end

/-! ## 4. leaving everything at once: `remove_user` (QUIT, EOF, KILL, ping timeout) -/

/-- `n` is neither a member nor on any rank list of `C` -/
structure NotIn (n : Str) (C : Channel) : Prop where
  member : Map.contains n C.users = false
  founders : KSet.mem n C.modes.founders = false
  protecteds : KSet.mem n C.modes.protecteds = false
  operators : KSet.mem n C.modes.operators = false
  halfOperators : KSet.mem n C.modes.halfOperators = false
  voices : KSet.mem n C.modes.voices = false

/-- the effect of `remove_user` on users and channels -/
structure UserGone (n : Str) (w w' : World) : Prop where
  /-- `n` is a member of no channel and on no rank list -/
  nowhere : ∀ ch C', Map.lookup ch w'.channels = some C' → NotIn n C'
  /-- every ad-hoc channel whose only member was `n` is erased -/
  erased : ∀ ch C, Map.lookup ch w.channels = some C → SoleMember n C → C.preconfigured = false →
    Map.lookup ch w'.channels = none
  /-- every other channel `n` was on stays, without `n` -/
  kept : ∀ ch C, Map.lookup ch w.channels = some C → Map.contains n C.users = true →
    (C.preconfigured = true ∨ OthersRemain n C) →
    ∃ C', Map.lookup ch w'.channels = some C' ∧ MemberRemoved n C C'
  /-- channels `n` was not on are untouched -/
  untouched : ∀ ch C, Map.lookup ch w.channels = some C → Map.contains n C.users = false →
    Map.lookup ch w'.channels = some C
  no_new : ∀ ch, Map.lookup ch w.channels = none → Map.lookup ch w'.channels = none
  user_gone : Map.lookup n w'.users = none
  other_users : ∀ k, k ≠ n → Map.lookup k w'.users = Map.lookup k w.users

theorem notIn_without (C : Channel) (n : Str) : NotIn n (C.without n) := by
  refine ⟨?_, ?_, ?_, ?_, ?_, ?_⟩
  · rw [Map.contains_false_iff]; simp [Channel.without]
  all_goals exact KSet.mem_erase_self n _

theorem notIn_of_mirror {C : Channel} {n : Str} (hm : RankMirror C)
    (h : Map.contains n C.users = false) : NotIn n C := by
  have hl := (Map.contains_false_iff _ _).mp h
  have aux : ∀ (f : ChanUserModes → Bool) (s : KSet),
      (∀ k, KSet.mem k s = true ↔ ∃ m, Map.lookup k C.users = some m ∧ f m = true) →
      KSet.mem n s = false := by
    intro f s hs
    cases hq : KSet.mem n s with
    | false => rfl
    | true => obtain ⟨m, hm1, _⟩ := (hs n).mp hq; rw [hl] at hm1; cases hm1
  exact ⟨h, aux (·.founder) _ hm.founders, aux (·.prot) _ hm.protecteds,
    aux (·.operator) _ hm.operators, aux (·.halfOper) _ hm.halfOperators,
    aux (·.voice) _ hm.voices⟩

/-- **removeUser_leaves_all_channels.** -/
theorem removeUser_leaves_all_channels {w : World} {n : Str} {u : User} (hinv : InvCore w)
    (hu : Map.lookup n w.users = some u) : UserGone n w (w.removeUser n) := by
  have hlk := removeUser_lookup_channel hu
  -- membership of `n` in an existing channel = the channel is in `u.channels`
  have hsym : ∀ ch C, Map.lookup ch w.channels = some C →
      (ch ∈ u.channels ↔ Map.contains n C.users = true) := by
    intro ch C hC
    rw [← KSet.mem_iff, hinv.memberSym n u ch hu]
    constructor
    · rintro ⟨C0, hC0, h0⟩; rw [hC] at hC0; cases hC0; exact h0
    · intro h0; exact ⟨C, hC, h0⟩
  refine
    { nowhere := ?_, erased := ?_, kept := ?_, untouched := ?_, no_new := ?_
      user_gone := ?_, other_users := ?_ }
  · intro ch C' hC'
    rw [hlk] at hC'
    cases hl : Map.lookup ch w.channels with
    | none => rw [hl] at hC'; simp at hC'
    | some C =>
      rw [hl] at hC'
      cases hm : Map.contains n C.users with
      | true =>
        rw [if_pos ((hsym ch C hl).mpr hm), Option.bind_some, rmOpt_of_member hm] at hC'
        split at hC'
        · cases hC'
        · cases hC'; exact notIn_without C n
      | false =>
        have hnin : ch ∉ u.channels := fun hin => by
          have := (hsym ch C hl).mp hin; rw [hm] at this; cases this
        rw [if_neg hnin] at hC'
        cases hC'
        exact notIn_of_mirror (hinv.rankMirror ch _ hl) hm
  · intro ch C hC hs hp
    rw [hlk, if_pos ((hsym ch C hC).mpr hs.1), hC, Option.bind_some, rmOpt_of_member hs.1]
    have : (Map.erase n C.users).isEmpty = true := (erase_isEmpty_iff n C.users).mpr hs.2
    simp [this, hp]
  · intro ch C hC hm hor
    refine ⟨C.without n, ?_, without_spec C n⟩
    rw [hlk, if_pos ((hsym ch C hC).mpr hm), hC, Option.bind_some, rmOpt_of_member hm]
    rcases hor with hp | ⟨k, hk, hkc⟩
    · simp [hp]
    · have : (Map.erase n C.users).isEmpty = false := by
        cases hq : (Map.erase n C.users).isEmpty with
        | false => rfl
        | true => exact absurd ((erase_isEmpty_iff n C.users).mp hq k hkc) hk
      simp [this]
  · intro ch C hC hm
    have hnin : ch ∉ u.channels := fun hin => by
      have := (hsym ch C hC).mp hin; rw [hm] at this; cases this
    rw [hlk, if_neg hnin, hC]
  · intro ch hC
    rw [hlk, hC]; simp
  · rw [removeUser_users hu]; simp
  · intro k hk
    rw [removeUser_users hu, Map.lookup_erase_ne _ _ _ (Ne.symm hk)]

/-- removing somebody who is not a user changes nothing -/
theorem removeUser_unknown {w : World} {n : Str} (h : Map.lookup n w.users = none) :
    w.removeUser n = w := removeUser_of_none h

/-- QUIT, EOF, read error, KILL, DIE and the ping timeout all end in `teardown`, which (for a
    registered connection) is `remove_user` on its nickname plus freeing the connection slot. -/
theorem teardown_is_removeUser {w : World} {c : Nat} {cn : Conn} {n : Str}
    (hc : w.conn? c = some cn) (ha : cn.authenticated = true) (hn : cn.nick = some n) :
    (teardown w c).channels = (w.removeUser n).channels ∧
    (teardown w c).users = (w.removeUser n).users := by
  unfold teardown
  rw [hc]
  simp [ha, hn]

/-- an unregistered connection going away touches neither users nor channels -/
theorem teardown_unregistered {w : World} {c : Nat} {cn : Conn}
    (hc : w.conn? c = some cn) (ha : cn.authenticated = false) :
    (teardown w c).channels = w.channels ∧ (teardown w c).users = w.users := by
  unfold teardown
  rw [hc]
  simp [ha]

/-! ## 5. preconfigured channels are never erased -/

theorem rmOpt_preconfigured {C : Channel} (n : Str) (hp : C.preconfigured = true) :
    ∃ C', rmOpt n C = some C' ∧ C'.preconfigured = true ∧ SameSettings C C' := by
  cases hm : Map.contains n C.users with
  | false =>
    exact ⟨C, rmOpt_of_not_member hm, hp, ⟨rfl, rfl, rfl, rfl, rfl, rfl, rfl, rfl, rfl, rfl⟩⟩
  | true =>
    refine ⟨C.without n, ?_, hp, (without_spec C n).settings⟩
    rw [rmOpt_of_member hm]; simp [hp]

/-- **preconfigured_never_erased**, for `remove_user_from_channel` (any channel, any nick) ... -/
theorem preconfigured_never_erased (w : World) (ch0 n : Str) {ch : Str} {C : Channel}
    (hC : Map.lookup ch w.channels = some C) (hp : C.preconfigured = true) :
    ∃ C', Map.lookup ch (w.removeUserFromChannel ch0 n).channels = some C' ∧
      C'.preconfigured = true ∧ SameSettings C C' := by
  rw [rufc_lookup]
  by_cases e : ch = ch0
  · rw [if_pos e, hC, Option.bind_some]; exact rmOpt_preconfigured n hp
  · rw [if_neg e]; exact ⟨C, hC, hp, ⟨rfl, rfl, rfl, rfl, rfl, rfl, rfl, rfl, rfl, rfl⟩⟩

/-- ... and for `remove_user` (no invariant needed). -/
theorem preconfigured_never_erased_removeUser (w : World) (n : Str) {ch : Str} {C : Channel}
    (hC : Map.lookup ch w.channels = some C) (hp : C.preconfigured = true) :
    ∃ C', Map.lookup ch (w.removeUser n).channels = some C' ∧
      C'.preconfigured = true ∧ SameSettings C C' := by
  cases hu : Map.lookup n w.users with
  | none =>
    rw [removeUser_of_none hu]
    exact ⟨C, hC, hp, ⟨rfl, rfl, rfl, rfl, rfl, rfl, rfl, rfl, rfl, rfl⟩⟩
  | some u =>
    rw [removeUser_lookup_channel hu]
    by_cases e : ch ∈ u.channels
    · rw [if_pos e, hC, Option.bind_some]; exact rmOpt_preconfigured n hp
    · rw [if_neg e]; exact ⟨C, hC, hp, ⟨rfl, rfl, rfl, rfl, rfl, rfl, rfl, rfl, rfl, rfl⟩⟩

/-! ## 6. a later JOIN creates a fresh channel -/

/-- **recreate_is_fresh.**  After the last member of an ad-hoc channel left, the name is free;
    the decision loop of a later JOIN says "create" and the insert loop puts the fresh channel
    there - whatever topic, modes, lists and ranks the erased channel `C` had. -/
theorem recreate_is_fresh {w : World} {ch n : Str} {C : Channel}
    (hC : Map.lookup ch w.channels = some C) (hs : SoleMember n C) (hp : C.preconfigured = false)
    (nick : Str) :
    Map.lookup ch (w.removeUserFromChannel ch n).channels = none ∧
    (∀ cfg cn inv rest keys cnt,
      ((joinDecide cfg (w.removeUserFromChannel ch n) cn nick inv (ch :: rest) keys cnt).1.head?).map
        (·.2) = some true) ∧
    Map.lookup ch (joinApply nick [(true, true)] [ch] (w.removeUserFromChannel ch n)).channels =
      some (Channel.newOnUserJoin nick) := by
  have hgone := last_member_leaves_adhoc hC hs hp
  refine ⟨hgone, ?_, (create_on_join_single nick ch _).1⟩
  intro cfg cn inv rest keys cnt
  rw [join_nonexistent_decides cfg _ cn nick inv ch rest keys cnt hgone]
  rfl

/-! ## 7. channels declared in the configuration -/

/-- `C` is the start-up form of the configuration entry `c`: settings as configured, nobody in
    it, the configured rank lists kept aside as `defaultModes` -/
structure Configured (c : ChanCfg) (C : Channel) : Prop where
  preconfigured : C.preconfigured = true
  /-- topic text as configured (no setter recorded) -/
  topic : C.topic = c.topic.map (fun t => { topic := t, nick := [] })
  flags : flagsOf C.modes = flagsOf c.modes
  key : C.modes.key = c.modes.key
  limit : C.modes.clientLimit = c.modes.clientLimit
  ban : C.modes.ban = c.modes.ban
  exception : C.modes.exception = c.modes.exception
  inviteException : C.modes.inviteException = c.modes.inviteException
  banInfo : C.banInfo = []
  noMembers : C.users = []
  noRanks : C.modes.founders = [] ∧ C.modes.protecteds = [] ∧ C.modes.operators = [] ∧
    C.modes.halfOperators = [] ∧ C.modes.voices = []
  defaults : C.defaultModes.founders = c.modes.founders ∧
    C.defaultModes.protecteds = c.modes.protecteds ∧
    C.defaultModes.operators = c.modes.operators ∧
    C.defaultModes.halfOperators = c.modes.halfOperators ∧
    C.defaultModes.voices = c.modes.voices

theorem chanOfCfg_configured (c : ChanCfg) : Configured c (chanOfCfg c) :=
  ⟨rfl, rfl, rfl, rfl, rfl, rfl, rfl, rfl, rfl, rfl, ⟨rfl, rfl, rfl, rfl, rfl⟩,
   ⟨rfl, rfl, rfl, rfl, rfl⟩⟩

/-- **config_channels.**  At start-up: the last entry of each configured name exists as
    configured (a later entry of the same name replaces an earlier one); exactly the configured
    names exist; there are no users and no connections. -/
theorem config_channels (cfg : Cfg) :
    (∀ pre c post, cfg.channels = pre ++ c :: post → (∀ d ∈ post, d.name ≠ c.name) →
      ∃ C, Map.lookup c.name (World.init cfg).channels = some C ∧ Configured c C) ∧
    (∀ name, (Map.lookup name (World.init cfg).channels).isSome = true ↔
      ∃ c ∈ cfg.channels, c.name = name) ∧
    (World.init cfg).users = [] ∧ (World.init cfg).conns = [] := by
  refine ⟨?_, ?_, rfl, rfl⟩
  · intro pre c post hl hpost
    refine ⟨chanOfCfg c, ?_, chanOfCfg_configured c⟩
    rw [init_lookup, hl]
    simp only [List.reverse_append, List.reverse_cons, List.append_assoc, List.find?_append]
    have h1 : post.reverse.find? (fun d => d.name == c.name) = none := by
      rw [List.find?_eq_none]
      intro d hd
      simpa using hpost d (List.mem_reverse.mp hd)
    rw [h1]
    simp
  · intro name
    rw [init_lookup, Option.isSome_map, List.find?_isSome]
    constructor
    · rintro ⟨d, hd, hn⟩; exact ⟨d, List.mem_reverse.mp hd, by simpa using hn⟩
    · rintro ⟨d, hd, hn⟩; exact ⟨d, List.mem_reverse.mpr hd, by simpa using hn⟩

/-- with pairwise distinct configured names: every entry exists as configured -/
theorem config_channels_distinct (cfg : Cfg) (hnd : (cfg.channels.map (·.name)).Nodup)
    (c : ChanCfg) (hc : c ∈ cfg.channels) :
    ∃ C, Map.lookup c.name (World.init cfg).channels = some C ∧ Configured c C := by
  obtain ⟨pre, post, hl⟩ := List.append_of_mem hc
  apply (config_channels cfg).1 pre c post hl
  intro d hd he
  rw [hl, List.map_append, List.map_cons] at hnd
  have h2 := (List.nodup_append.mp hnd).2.1
  exact (List.nodup_cons.mp h2).1 (he ▸ List.mem_map.mpr ⟨d, hd, rfl⟩)

/-- a configured channel that nobody has joined yet satisfies the rank mirror trivially -/
theorem configured_rankMirror {c : ChanCfg} {C : Channel} (h : Configured c C) : RankMirror C := by
  obtain ⟨r1, r2, r3, r4, r5⟩ := h.noRanks
  constructor
  all_goals
    intro n
    simp only [r1, r2, r3, r4, r5, h.noMembers, KSet.mem, List.any_nil, Map.lookup_nil]
    simp

/-! ## 8. the configured ranks are given on every join -/

/-- `C'` is `C` after `nick` joined: the member flags are exactly the configured default
    ranks of that nickname, the rank lists follow, everything else is unchanged -/
structure JoinedWithDefaults (nick : Str) (C C' : Channel) : Prop where
  member : Map.lookup nick C'.users = some
    { founder := KSet.mem nick C.defaultModes.founders
      prot := KSet.mem nick C.defaultModes.protecteds
      operator := KSet.mem nick C.defaultModes.operators
      halfOper := KSet.mem nick C.defaultModes.halfOperators
      voice := KSet.mem nick C.defaultModes.voices }
  others : ∀ k, k ≠ nick → Map.lookup k C'.users = Map.lookup k C.users
  founders : ∀ k, KSet.mem k C'.modes.founders =
    (KSet.mem k C.modes.founders || (decide (k = nick) && KSet.mem nick C.defaultModes.founders))
  protecteds : ∀ k, KSet.mem k C'.modes.protecteds =
    (KSet.mem k C.modes.protecteds || (decide (k = nick) && KSet.mem nick C.defaultModes.protecteds))
  operators : ∀ k, KSet.mem k C'.modes.operators =
    (KSet.mem k C.modes.operators || (decide (k = nick) && KSet.mem nick C.defaultModes.operators))
  halfOperators : ∀ k, KSet.mem k C'.modes.halfOperators =
    (KSet.mem k C.modes.halfOperators ||
      (decide (k = nick) && KSet.mem nick C.defaultModes.halfOperators))
  voices : ∀ k, KSet.mem k C'.modes.voices =
    (KSet.mem k C.modes.voices || (decide (k = nick) && KSet.mem nick C.defaultModes.voices))
  settings : SameSettings C C'

theorem mem_condInsert (k nick : Str) (s : KSet) (b : Bool) :
    KSet.mem k (if b then KSet.insert nick s else s) = (KSet.mem k s || (decide (k = nick) && b)) := by
  cases b with
  | true => simp [KSet.mem_insert, Bool.or_comm]
  | false => simp

/-- **config_ranks_on_join.** -/
theorem config_ranks_on_join (C : Channel) (nick : Str) :
    JoinedWithDefaults nick C (C.addUser nick) ∧
    (RankMirror C → Map.lookup nick C.users = none → RankMirror (C.addUser nick)) := by
  constructor
  · refine
      { member := ?_, others := ?_
        founders := fun k => mem_condInsert k nick _ _
        protecteds := fun k => mem_condInsert k nick _ _
        operators := fun k => mem_condInsert k nick _ _
        halfOperators := fun k => mem_condInsert k nick _ _
        voices := fun k => mem_condInsert k nick _ _
        settings := ⟨rfl, rfl, rfl, rfl, rfl, rfl, rfl, rfl, rfl, rfl⟩ }
    · simp [Channel.addUser]
    · intro k hk; simp only [Channel.addUser]; rw [Map.lookup_insert_ne _ _ _ _ (Ne.symm hk)]
  · intro hm hnew
    exact
      { founders := rank_add (·.founder) _ _ _ rfl hnew hm.founders
        protecteds := rank_add (·.prot) _ _ _ rfl hnew hm.protecteds
        operators := rank_add (·.operator) _ _ _ rfl hnew hm.operators
        halfOperators := rank_add (·.halfOper) _ _ _ rfl hnew hm.halfOperators
        voices := rank_add (·.voice) _ _ _ rfl hnew hm.voices }

/-- the insert loop of JOIN uses `addUser` for an existing channel -/
theorem join_existing (nick chn : Str) (w : World) (C : Channel)
    (hC : Map.lookup chn w.channels = some C) :
    Map.lookup chn (joinApply nick [(true, false)] [chn] w).channels = some (C.addUser nick) := by
  rw [joinApply_cons, joinApply_nil_left, joinStep_lookup, hC]
  simp

/-- "whenever these join": the default ranks survive a join/leave round trip (they are part of
    the settings both operations keep), so the next join gives them again. -/
theorem defaults_persist (C : Channel) (nick n : Str) :
    (C.addUser nick).defaultModes = C.defaultModes ∧ (C.without n).defaultModes = C.defaultModes :=
  ⟨rfl, rfl⟩

/-! ## 9. "by any means": every exit goes through `remove_user_from_channel`

PART and KICK call it per channel / per kicked nick; QUIT, EOF, KILL, DIE and the ping timeout go
through `teardown` = `remove_user` (section 4), which folds it over the user's channels.  So the
case analysis of section 3 applies to every single departure, and the invariant "no empty ad-hoc
channel exists" is kept by all of them. -/

/-- I4 as a predicate on the channel map -/
def NoEmptyAdHoc (chans : Map Channel) : Prop :=
  ∀ c C, Map.lookup c chans = some C → C.users = [] → C.preconfigured = true

/-- PART changes users and channels exactly like leaving, one after the other, those of the
    named channels the caller is on (`partStep` = `remove_user_from_channel` if the channel
    exists and the caller is a member, nothing otherwise). -/
theorem part_is_leave {cfg : Cfg} {c : Nat} {chans : List Str} {reason : Option Str} {x : Ctx}
    {nick : Str} (hnick : (x.conn c).nick = some nick) :
    (processPart cfg c chans reason x).w.channels = (chans.foldl (partStep nick) x.w).channels ∧
    (processPart cfg c chans reason x).w.users = (chans.foldl (partStep nick) x.w).users :=
  processPart_world hnick

/-- KICK (by a channel member with at least half-operator rank) changes users and channels
    exactly like the selected nicknames leaving the channel one after the other. -/
theorem kick_is_leave {cfg : Cfg} {c : Nat} {channel : Str} {kickUsers : List Str}
    {comment : Option Str} {x : Ctx} {nick : Str} {ch : Channel} {chum : ChanUserModes}
    (hnick : (x.conn c).nick = some nick) (hC : Map.lookup channel x.w.channels = some ch)
    (hchum : Map.lookup nick ch.users = some chum) (hhalf : chum.isHalfOperator = true) :
    let kicked := (kickSelect (x.conn c).clientName channel ch chum.isOnlyHalfOperator kickUsers []).1
    (processKick cfg c channel kickUsers comment x).w.channels =
      (kicked.foldl (fun w ku => w.removeUserFromChannel channel ku) x.w).channels ∧
    (processKick cfg c channel kickUsers comment x).w.users =
      (kicked.foldl (fun w ku => w.removeUserFromChannel channel ku) x.w).users :=
  processKick_world hnick hC hchum hhalf

theorem leave_keeps (w : World) (ch n : Str) (h : NoEmptyAdHoc w.channels) :
    NoEmptyAdHoc (w.removeUserFromChannel ch n).channels :=
  noEmptyAdHoc_preserved w ch n h

theorem partStep_keeps (nick : Str) (w : World) (chn : Str) (h : NoEmptyAdHoc w.channels) :
    NoEmptyAdHoc (partStep nick w chn).channels := by
  unfold partStep
  split
  · split
    · exact leave_keeps w chn nick h
    · exact h
  · exact h

theorem part_keeps {cfg : Cfg} {c : Nat} {chans : List Str} {reason : Option Str} {x : Ctx}
    {nick : Str} (hnick : (x.conn c).nick = some nick) (h : NoEmptyAdHoc x.w.channels) :
    NoEmptyAdHoc (processPart cfg c chans reason x).w.channels := by
  rw [(part_is_leave hnick).1]
  generalize x.w = w at h
  induction chans generalizing w with
  | nil => exact h
  | cons a rest ih => exact ih _ (partStep_keeps nick w a h)

theorem kick_keeps {cfg : Cfg} {c : Nat} {channel : Str} {kickUsers : List Str}
    {comment : Option Str} {x : Ctx} {nick : Str} {ch : Channel} {chum : ChanUserModes}
    (hnick : (x.conn c).nick = some nick) (hC : Map.lookup channel x.w.channels = some ch)
    (hchum : Map.lookup nick ch.users = some chum) (hhalf : chum.isHalfOperator = true)
    (h : NoEmptyAdHoc x.w.channels) :
    NoEmptyAdHoc (processKick cfg c channel kickUsers comment x).w.channels := by
  have := (kick_is_leave (cfg := cfg) (kickUsers := kickUsers) (comment := comment)
    hnick hC hchum hhalf).1
  rw [this]
  generalize (kickSelect (x.conn c).clientName channel ch chum.isOnlyHalfOperator kickUsers []).1 = l
  generalize x.w = w at h
  induction l generalizing w with
  | nil => exact h
  | cons a rest ih => exact ih _ (leave_keeps w channel a h)

theorem removeUser_keeps (w : World) (n : Str) (h : NoEmptyAdHoc w.channels) :
    NoEmptyAdHoc (w.removeUser n).channels := by
  cases hu : Map.lookup n w.users with
  | none => rw [removeUser_of_none hu]; exact h
  | some u =>
    rw [removeUser_eq hu]
    show NoEmptyAdHoc (u.channels.foldl (fun w chn => w.removeUserFromChannel chn n)
      (removeUserPre w n u)).channels
    have h0 : NoEmptyAdHoc (removeUserPre w n u).channels := by
      rw [removeUserPre_channels]; exact h
    generalize removeUserPre w n u = w0 at h0
    generalize u.channels = l
    induction l generalizing w0 with
    | nil => exact h0
    | cons a rest ih => exact ih _ (leave_keeps w0 a n h0)

theorem teardown_keeps (w : World) (c : Nat) (h : NoEmptyAdHoc w.channels) :
    NoEmptyAdHoc (teardown w c).channels := by
  unfold teardown
  cases w.conn? c with
  | none => exact h
  | some cn =>
    simp only
    cases cn.authenticated with
    | false => exact h
    | true =>
      simp only [↓reduceIte]
      cases cn.nick with
      | none => exact h
      | some n => exact removeUser_keeps w n h

/-! ## 10. concrete instances (hypotheses satisfiable, conclusions non-trivial)

`Ex.w` (see IdentLemmas): alice (founder, operator) and bob (voice) on the secret ad-hoc
channel `#c` that has a topic. -/

example : Map.lookup Ex.chan Ex.w.channels = some Ex.cChan ∧ Ex.cChan.preconfigured = false := by
  decide
example : OthersRemain Ex.bob Ex.cChan := ⟨Ex.alice, by decide, by decide⟩
-- bob parts: the channel stays with alice, topic and flags kept
example : Map.lookup Ex.chan (Ex.w.removeUserFromChannel Ex.chan Ex.bob).channels =
    some { Ex.cChan with users := [(Ex.alice, { founder := true, operator := true })]
                         modes := { Ex.cChan.modes with voices := [] } } := by decide
-- then alice (now the sole member) leaves: the channel is gone
example : SoleMember Ex.alice (Ex.cChan.without Ex.bob) :=
  ⟨by decide, fun k hk => by
    obtain ⟨m, hm⟩ := (Map.contains_iff _ _).mp hk
    have := Map.lookup_some_mem hm
    simp only [Channel.without, Ex.cChan, Map.erase] at this
    have := (show k = Ex.alice ∧ _ by simpa [Ex.alice, Ex.bob, str] using this)
    exact this.1⟩
example : Map.lookup Ex.chan
    ((Ex.w.removeUserFromChannel Ex.chan Ex.bob).removeUserFromChannel Ex.chan Ex.alice).channels =
    none := by decide
-- and carol's later JOIN makes a fresh one: no topic, not secret, carol founder + operator
example : Map.lookup Ex.chan (joinApply Ex.carol [(true, true)] [Ex.chan]
    ((Ex.w.removeUserFromChannel Ex.chan Ex.bob).removeUserFromChannel Ex.chan Ex.alice)).channels =
    some { users := [(Ex.carol, founderOp)]
           modes := { founders := [Ex.carol], operators := [Ex.carol] } } := by decide
-- QUIT of alice (remove_user) while bob stays: the channel stays, without alice
example : InvCore Ex.w ∧ Map.lookup Ex.alice Ex.w.users = some Ex.uAlice := ⟨Ex.inv, by decide⟩
example : Map.lookup Ex.chan (Ex.w.removeUser Ex.alice).channels =
    some { Ex.cChan with users := [(Ex.bob, { voice := true })]
                         modes := { Ex.cChan.modes with founders := [], operators := [] } } := by
  decide
example : Map.lookup Ex.chan ((Ex.w.removeUser Ex.alice).removeUser Ex.bob).channels = none := by
  decide

/-- a configuration with one channel: topic, `+s`, key, a ban mask, alice as operator -/
def exCfg : Cfg :=
  { channels := [{ name := str "#pre", topic := some (str "hello"),
                   modes := { operators := [Ex.alice], secret := true, key := some (str "k"),
                              ban := [str "x!*@*"] } }] }

example : Map.lookup (str "#pre") (World.init exCfg).channels =
    some { topic := some ⟨str "hello", []⟩
           modes := { secret := true, key := some (str "k"), ban := [str "x!*@*"] }
           defaultModes := { operators := [Ex.alice] }
           preconfigured := true } := by decide
example : Map.lookup (str "#other") (World.init exCfg).channels = none := by decide
-- alice joins: operator by configuration; bob joins: no rank
example : (Map.lookup (str "#pre") (World.init exCfg).channels).map
      (fun C => (Map.lookup Ex.alice (C.addUser Ex.alice).users,
                 (C.addUser Ex.alice).modes.operators,
                 Map.lookup Ex.bob (C.addUser Ex.bob).users,
                 (C.addUser Ex.bob).modes.operators)) =
    some (some { operator := true }, [Ex.alice], some {}, []) := by decide
-- alice joins and leaves again: the channel persists, empty, with its settings
example : (Map.lookup (str "#pre") (World.init exCfg).channels).map
      (fun C => rmOpt Ex.alice (C.addUser Ex.alice)) =
    (Map.lookup (str "#pre") (World.init exCfg).channels).map some := by decide

end Irc.C16
