/-
  Property C09.  "KICK removes a member only when issued by a member ranked half-operator or
  above, never removes a founder or protected member, and a mere half-operator cannot remove
  half-operators or above; the kick is announced to the remaining members and to the victim, who
  loses membership and rank.  TOPIC is changed only by a member, and on a +t channel only by
  half-operator or above; the new topic is announced to all members and is what later TOPIC, LIST
  and JOIN replies show.  INVITE is honoured only from a member (an operator if the channel is
  invite-only) for a user not already on the channel, reaches exactly the invited user and grants
  one admission to that channel."

  Model: `Irc.kickSelect`, `Irc.processKick`, `Irc.World.removeUserFromChannel`,
  `Irc.processTopic`, `Irc.processInvite`.  Helper lemmas: `Irc/Props/ChanPrivLemmas.lean`.
-/
import Irc.Props.ChanPrivLemmas
namespace Irc.C09
open Irc Reply

/-! ## 0. vocabulary -/

/-- a server reply `t` as the line written to the acting connection -/
def srvLine (cfg : Cfg) (t : Str) : Str := str ":" ++ cfg.name ++ str " " ++ t

/-- "the handler answered with exactly the one reply `t` and did nothing else" -/
def OnlyReplied (cfg : Cfg) (x x' : Ctx) (t : Str) : Prop :=
  x'.w = x.w ∧ x'.queued = x.queued ∧ x'.direct = x.direct ++ [srvLine cfg t]

theorem onlyReplied_reply (cfg : Cfg) (x : Ctx) (t : Str) : OnlyReplied cfg x (x.reply cfg t) t := by
  simp [OnlyReplied, srvLine, str]

namespace Spec

/-- who may kick whom, in the words of the statement -/
def kickable (actor victim : ChanUserModes) : Bool :=
  -- issued by a member ranked half-operator or above
  (actor.founder || actor.prot || actor.operator || actor.halfOper) &&
  -- never removes a founder or protected member
  !(victim.founder || victim.prot) &&
  -- a mere half-operator cannot remove half-operators or above
  !((actor.halfOper && !actor.founder && !actor.prot && !actor.operator) &&
    (victim.founder || victim.prot || victim.operator || victim.halfOper))

end Spec

/-! ## 1. KICK: who is selected -/

/-- The selection loop: `v` is selected iff it is listed, is a member, is not founder/protected,
    and is below half-operator unless the actor is more than a mere half-operator
    (`onlyHalf = false`); nobody is selected twice; the replies are, in list order, one 441 per
    listed non-member occurrence and one 972 per listed occurrence of a member that may not be
    kicked. -/
theorem kickSelect_spec (client channel : Str) (ch : Channel) (onlyHalf : Bool) (users : List Str) :
    (∀ v, v ∈ (kickSelect client channel ch onlyHalf users []).1 ↔
      v ∈ users ∧ ∃ m, Map.lookup v ch.users = some m ∧ ¬ m.isProtected = true ∧
        (¬ m.isHalfOperator = true ∨ ¬ onlyHalf = true)) ∧
    (kickSelect client channel ch onlyHalf users []).1.Nodup ∧
    (kickSelect client channel ch onlyHalf users []).2 = users.filterMap (fun ku =>
      match Map.lookup ku ch.users with
      | none => some (ErrUserNotInChannel441 client ku channel)
      | some m => if !m.isProtected && (!m.isHalfOperator || !onlyHalf) then none
                  else some (ErrCannotDoCommand972 client)) := by
  refine ⟨fun v => ?_, kickSelect_fst_nodup _ _ _ _ _ _ List.nodup_nil, ?_⟩
  · rw [kickSelect_fst_mem]
    simp [kickOk]
  · rw [kickSelect_snd]; rfl

/-- In `processKick` the selection is run with the actor's rank: the selected nicks are exactly
    the listed members that the actor may kick according to `Spec.kickable`. -/
theorem kickSelect_kickable (client channel : Str) (ch : Channel) (actor : ChanUserModes)
    (hact : actor.isHalfOperator = true) (users : List Str) (v : Str) :
    v ∈ (kickSelect client channel ch actor.isOnlyHalfOperator users []).1 ↔
      v ∈ users ∧ ∃ m, Map.lookup v ch.users = some m ∧ Spec.kickable actor m = true := by
  rw [kickSelect_fst_mem]
  simp only [List.not_mem_nil, false_or]
  have key : ∀ m : ChanUserModes, kickOk m actor.isOnlyHalfOperator = Spec.kickable actor m := by
    intro m
    obtain ⟨aq, aa, av, ao, ah⟩ := actor
    obtain ⟨mq, ma, mv, mo, mh⟩ := m
    simp only [ChanUserModes.isHalfOperator] at hact
    simp only [kickOk, Spec.kickable, ChanUserModes.isProtected, ChanUserModes.isHalfOperator,
      ChanUserModes.isOnlyHalfOperator]
    revert hact
    cases aq <;> cases aa <;> cases ao <;> cases ah <;> cases mq <;> cases ma <;> cases mo <;> cases mh <;> decide
  simp only [key]

example : Spec.kickable { halfOper := true } { voice := true } = true := by decide
example : Spec.kickable { halfOper := true } { halfOper := true } = false := by decide
example : Spec.kickable { operator := true } { halfOper := true } = true := by decide
example : Spec.kickable { founder := true } { prot := true } = false := by decide
example : Spec.kickable { voice := true } {} = false := by decide

/-! ## 2. KICK: who may issue it -/

/-- unknown channel: 403; actor not a member: 442; member below half-operator: 482; in all
    three cases nothing else happens. -/
theorem kick_requires_rank (cfg : Cfg) (c : Nat) (channel : Str) (kickUsers : List Str)
    (comment : Option Str) (x : Ctx) (nick : Str) (hnick : (x.conn c).nick = some nick) :
    let x' := processKick cfg c channel kickUsers comment x
    let client := (x.conn c).clientName
    (Map.lookup channel x.w.channels = none →
      OnlyReplied cfg x x' (ErrNoSuchChannel403 client channel)) ∧
    (∀ ch, Map.lookup channel x.w.channels = some ch → Map.lookup nick ch.users = none →
      OnlyReplied cfg x x' (ErrNotOnChannel442 client channel)) ∧
    (∀ ch chum, Map.lookup channel x.w.channels = some ch → Map.lookup nick ch.users = some chum →
      chum.isHalfOperator = false →
      OnlyReplied cfg x x' (ErrChanOpPrivsNeeded482 client channel)) := by
  refine ⟨fun h => ?_, fun ch h1 h2 => ?_, fun ch chum h1 h2 h3 => ?_⟩
  · simp [processKick, hnick, h, OnlyReplied, srvLine, str]
  · simp [processKick, hnick, h1, h2, OnlyReplied, srvLine, str]
  · simp [processKick, hnick, h1, h2, h3, OnlyReplied, srvLine, str]

/-! ## 3. KICK: what it does -/

/-- The effect of a KICK issued by a member `nick` of rank half-operator or above, on a channel
    all of whose members are registered users.  `kicked` is the selection of section 1.

    * every kicked `v`: is no member of the channel afterwards (if the channel still exists) and
      in none of its rank lists; `channel` is removed from `v`'s own channel list; the KICK line is
      queued to `v` and to every remaining member;
    * the channel afterwards is the old one minus the kicked members (`Removed`): members not
      kicked keep their flags, all settings stay;
    * users not kicked, other channels and all other parts of the world are unchanged;
    * the queue grows by exactly: for each kicked `v` in order, the line to each remaining member,
      then to `v`. -/
theorem kick_effect (cfg : Cfg) (c : Nat) (channel : Str) (kickUsers : List Str) (comment : Option Str)
    (x : Ctx) (nick : Str) (ch : Channel) (chum : ChanUserModes)
    (hnick : (x.conn c).nick = some nick) (hch : Map.lookup channel x.w.channels = some ch)
    (hm : Map.lookup nick ch.users = some chum) (hH : chum.isHalfOperator = true)
    (hmem : ∀ n, Map.contains n ch.users = true → Map.contains n x.w.users = true) :
    let cn := x.conn c
    let kicked := (kickSelect cn.clientName channel ch chum.isOnlyHalfOperator kickUsers []).1
    let x' := processKick cfg c channel kickUsers comment x
    let line (v : Str) : Str :=
      str ":" ++ cn.source ++ str " KICK " ++ channel ++ str " " ++ v ++ str " :" ++ comment.getD (str "Kicked")
    let remaining : List Str := match Map.lookup channel x'.w.channels with
      | some C' => Map.keys C'.users
      | none => []
    (∀ v ∈ kicked,
      (∀ C', Map.lookup channel x'.w.channels = some C' →
        Map.lookup v C'.users = none ∧ ∀ l, KSet.mem v (rankList C'.modes l) = false) ∧
      (∃ u u', Map.lookup v x.w.users = some u ∧ Map.lookup v x'.w.users = some u' ∧
        u' = { u with channels := KSet.erase channel u.channels } ∧
        KSet.mem channel u'.channels = false) ∧
      (ownerOf x.w v, line v) ∈ x'.queued ∧
      (∀ n ∈ remaining, (ownerOf x.w n, line v) ∈ x'.queued)) ∧
    (∀ C', Map.lookup channel x'.w.channels = some C' →
      Removed kicked ch C' ∧ ∀ n, n ∉ kicked → Map.lookup n C'.users = Map.lookup n ch.users) ∧
    (∀ n, n ∉ kicked → Map.lookup n x'.w.users = Map.lookup n x.w.users) ∧
    (∀ c', c' ≠ channel → Map.lookup c' x'.w.channels = Map.lookup c' x.w.channels) ∧
    x'.w = { x.w with users := x'.w.users, channels := x'.w.channels } ∧
    x'.queued = x.queued ++ kicked.flatMap (fun v =>
      (remaining ++ [v]).map (fun n => (ownerOf x.w n, line v))) := by
  intro cn kicked x' line remaining
  obtain ⟨hw, -, hq⟩ := processKick_ok cfg c channel kickUsers comment x nick ch chum hnick hch hm hH hmem
  have hsel_mem : ∀ k ∈ kicked, Map.contains k ch.users = true := by
    intro k hk
    rw [kickSelect_fst_mem] at hk
    rcases hk with hk | ⟨_, m, hm', _⟩
    · cases hk
    · exact Map.contains_of_lookup hm'
  have hnd : kicked.Nodup := kickSelect_fst_nodup _ _ _ _ _ _ List.nodup_nil
  obtain ⟨f1, f2, f3, f4⟩ := kickFold_spec channel kicked x.w hnd
    (by intro C hC; rw [hch] at hC; cases hC; exact hsel_mem)
  have hw' : x'.w = kicked.foldl (fun w ku => w.removeUserFromChannel channel ku) x.w := hw
  rw [← hw'] at f1 f2 f3 f4
  have hline : ∀ v, line v = ':' :: (cn.source ++ ' ' :: kickMsg channel v comment) := by
    intro v; simp [line, kickMsg, str]
  have hq' : x'.queued = x.queued ++ kicked.flatMap (fun v =>
      (remaining ++ [v]).map (fun n => (ownerOf x.w n, line v))) := by
    have hrem_eq : remaining = (match Map.lookup channel
        (kicked.foldl (fun w ku => w.removeUserFromChannel channel ku) x.w).channels with
        | some C' => Map.keys C'.users
        | none => []) := by
      show (match Map.lookup channel x'.w.channels with
        | some C' => Map.keys C'.users
        | none => []) = _
      rw [hw']
    rw [show x'.queued = _ from hq]
    congr 1
    apply flatMap_congr'
    intro v _
    simp only [hline]
    rw [hrem_eq]; rfl
  have hR : ∀ C', Map.lookup channel x'.w.channels = some C' → Removed kicked ch C' := by
    intro C' hC'
    obtain ⟨C, hC, hRem⟩ := f4 C' hC'
    rw [hch] at hC; cases hC; exact hRem
  refine ⟨?_, ?_, ?_, f3, f1, hq'⟩
  · intro v hv
    refine ⟨?_, ?_, ?_, ?_⟩
    · intro C' hC'
      have := hR C' hC'
      refine ⟨by rw [this.users]; simp [hv], fun l => by rw [this.ranks]; simp [hv]⟩
    · obtain ⟨u, hu⟩ := (Map.contains_iff _ _).mp (hmem v (hsel_mem v hv))
      refine ⟨u, _, hu, by rw [f2 v, hu]; simp [hv], rfl, ?_⟩
      rw [KSet.mem_erase]; simp
    · rw [hq']
      apply List.mem_append_right
      rw [List.mem_flatMap]
      exact ⟨v, hv, by simp⟩
    · intro n hn
      rw [hq']
      apply List.mem_append_right
      rw [List.mem_flatMap]
      exact ⟨v, hv, List.mem_map.mpr ⟨n, by simp [hn], rfl⟩⟩
  · intro C' hC'
    refine ⟨hR C' hC', fun n hn => ?_⟩
    rw [(hR C' hC').users]; simp [hn]
  · intro n hn
    rw [f2 n]
    cases Map.lookup n x.w.users <;> simp [hn]

/-- what the issuer is told: for each listed nick in order, 441 for a non-member, 972 for a
    member he may not kick, nothing for a kicked one. -/
theorem kick_replies (cfg : Cfg) (c : Nat) (channel : Str) (kickUsers : List Str) (comment : Option Str)
    (x : Ctx) (nick : Str) (ch : Channel) (chum : ChanUserModes)
    (hnick : (x.conn c).nick = some nick) (hch : Map.lookup channel x.w.channels = some ch)
    (hm : Map.lookup nick ch.users = some chum) (hH : chum.isHalfOperator = true)
    (hmem : ∀ n, Map.contains n ch.users = true → Map.contains n x.w.users = true) :
    (processKick cfg c channel kickUsers comment x).direct = x.direct ++
      (kickUsers.filterMap (fun ku =>
        match Map.lookup ku ch.users with
        | none => some (ErrUserNotInChannel441 (x.conn c).clientName ku channel)
        | some m => if Spec.kickable chum m then none else some (ErrCannotDoCommand972 (x.conn c).clientName))).map
        (srvLine cfg) := by
  obtain ⟨-, hd, -⟩ := processKick_ok cfg c channel kickUsers comment x nick ch chum hnick hch hm hH hmem
  rw [show (processKick cfg c channel kickUsers comment x).direct = _ from hd, kickSelect_snd]
  congr 1
  have key : ∀ m : ChanUserModes, kickOk m chum.isOnlyHalfOperator = Spec.kickable chum m := by
    intro m
    obtain ⟨aq, aa, av, ao, ah⟩ := chum
    obtain ⟨mq, ma, mv, mo, mh⟩ := m
    simp only [ChanUserModes.isHalfOperator] at hH
    simp only [kickOk, Spec.kickable, ChanUserModes.isProtected, ChanUserModes.isHalfOperator,
      ChanUserModes.isOnlyHalfOperator]
    revert hH
    cases aq <;> cases aa <;> cases ao <;> cases ah <;> cases mq <;> cases ma <;> cases mo <;> cases mh <;> decide
  have : (kickReply (x.conn c).clientName channel ch chum.isOnlyHalfOperator) = (fun ku =>
        match Map.lookup ku ch.users with
        | none => some (ErrUserNotInChannel441 (x.conn c).clientName ku channel)
        | some m => if Spec.kickable chum m then none else some (ErrCannotDoCommand972 (x.conn c).clientName)) := by
    funext ku
    unfold kickReply
    cases Map.lookup ku ch.users <;> simp [key]
  rw [this]
  apply List.map_congr_left
  intro e _
  simp [srvLine, str]

/-! ## 4. TOPIC -/

/-- `TOPIC #chan :text`.  With the issuer's nick `nick`:
    * accepted iff the channel exists, `nick` is a member, and the channel is not `+t` or `nick`
      is half-operator or above.  Then the stored topic becomes `text` set by `nick` (cleared if
      `text` is empty), nothing else of the channel or the world changes, the TOPIC line is queued
      once to every member (in member order) and nothing is written back;
    * otherwise exactly one of 403 / 442 / 482 is written and nothing changes. -/
theorem topic_spec (cfg : Cfg) (c : Nat) (channel : Str) (t : Str) (msg : Message) (x : Ctx)
    (nick : Str) (hnick : (x.conn c).nick = some nick) :
    let x' := processTopic cfg c channel (some t) msg x
    let client := (x.conn c).clientName
    (∀ ch chum, Map.lookup channel x.w.channels = some ch → Map.lookup nick ch.users = some chum →
      (ch.modes.protectedTopic = false ∨ chum.isHalfOperator = true) →
      (∀ n, Map.contains n ch.users = true → Map.contains n x.w.users = true) →
      x'.w = { x.w with channels := (Map.insert channel
                { ch with topic := if t = [] then none else some { topic := t, nick := nick } } x.w.channels) } ∧
      x'.direct = x.direct ∧
      x'.queued = x.queued ++ (Map.keys ch.users).map (fun n => (ownerOf x.w n, msg.render (x.conn c).source))) ∧
    (Map.lookup channel x.w.channels = none → OnlyReplied cfg x x' (ErrNoSuchChannel403 client channel)) ∧
    (∀ ch, Map.lookup channel x.w.channels = some ch → Map.lookup nick ch.users = none →
      OnlyReplied cfg x x' (ErrNotOnChannel442 client channel)) ∧
    (∀ ch chum, Map.lookup channel x.w.channels = some ch → Map.lookup nick ch.users = some chum →
      ch.modes.protectedTopic = true → chum.isHalfOperator = false →
      OnlyReplied cfg x x' (ErrChanOpPrivsNeeded482 client channel)) := by
  refine ⟨fun ch chum h1 h2 h3 h4 => ?_, fun h => ?_, fun ch h1 h2 => ?_, fun ch chum h1 h2 h3 h4 => ?_⟩
  · have hcond : (!ch.modes.protectedTopic || chum.isHalfOperator) = true := by
      rcases h3 with h3 | h3 <;> simp [h3]
    have : processTopic cfg c channel (some t) msg x =
        (x.modifyW (fun w => { w with channels := (Map.insert channel
          { ch with topic := if t = [] then none else some { topic := t, nick := nick } } w.channels) })).sendAll
          (Map.keys ch.users) (msg.render (x.conn c).source) := by
      unfold processTopic
      simp only [hnick, h1, h2, hcond, ↓reduceIte]
      cases t <;> rfl
    simp only [this]
    rw [Ctx.sendAll_known]
    · simp [ownerOf]
    · intro n hn
      exact h4 n ((Map.contains_iff_mem_keys _ _).mpr hn)
  · simp [processTopic, hnick, h, OnlyReplied, srvLine, str]
  · simp [processTopic, hnick, h1, h2, OnlyReplied, srvLine, str]
  · simp [processTopic, hnick, h1, h2, h3, h4, OnlyReplied, srvLine, str]

/-- the read form `TOPIC #chan`: a member is shown the stored topic (332 + 333) or 331, a
    non-member gets 442, an unknown channel 403; nothing changes. -/
theorem topic_read_spec (cfg : Cfg) (c : Nat) (channel : Str) (msg : Message) (x : Ctx)
    (nick : Str) (hnick : (x.conn c).nick = some nick) :
    let x' := processTopic cfg c channel none msg x
    let client := (x.conn c).clientName
    (∀ ch chum tp, Map.lookup channel x.w.channels = some ch → Map.lookup nick ch.users = some chum →
      ch.topic = some tp →
      x'.w = x.w ∧ x'.queued = x.queued ∧
      x'.direct = x.direct ++ [srvLine cfg (RplTopic332 client channel tp.topic),
                               srvLine cfg (RplTopicWhoTime333 client channel tp.nick 0)]) ∧
    (∀ ch chum, Map.lookup channel x.w.channels = some ch → Map.lookup nick ch.users = some chum →
      ch.topic = none → OnlyReplied cfg x x' (RplNoTopic331 client channel)) ∧
    (∀ ch, Map.lookup channel x.w.channels = some ch → Map.lookup nick ch.users = none →
      OnlyReplied cfg x x' (ErrNotOnChannel442 client channel)) ∧
    (Map.lookup channel x.w.channels = none → OnlyReplied cfg x x' (ErrNoSuchChannel403 client channel)) := by
  refine ⟨fun ch chum tp h1 h2 h3 => ?_, fun ch chum h1 h2 h3 => ?_, fun ch h1 h2 => ?_, fun h => ?_⟩
  · simp [processTopic, hnick, h1, h2, h3, Map.contains, srvLine, str]
  · simp [processTopic, hnick, h1, h2, h3, Map.contains, OnlyReplied, srvLine, str]
  · simp [processTopic, hnick, h1, h2, Map.contains, OnlyReplied, srvLine, str]
  · simp [processTopic, hnick, h, OnlyReplied, srvLine, str]

/-! ## 5. INVITE -/

/-- `INVITE nickname #chan` by `nick`:
    * honoured iff the channel exists, `nick` is a member, the channel is not invite-only or
      `nick` has the operator flag, `nickname` is not on the channel and is a registered user.  Then
      `channel` is added to the invitee's `invitedTo` and nothing else in the world changes; one
      341 is written to the issuer; exactly one line, the INVITE itself, is queued, to the invitee;
    * otherwise exactly one of 403 / 442 / 482 / 443 / 401 (in this precedence) is written and
      nothing changes. -/
theorem invite_spec (cfg : Cfg) (c : Nat) (nickname channel : Str) (msg : Message) (x : Ctx)
    (nick : Str) (hnick : (x.conn c).nick = some nick) :
    let x' := processInvite cfg c nickname channel msg x
    let client := (x.conn c).clientName
    (∀ ch chum u, Map.lookup channel x.w.channels = some ch → Map.lookup nick ch.users = some chum →
      (ch.modes.inviteOnly = false ∨ chum.operator = true) → Map.lookup nickname ch.users = none →
      Map.lookup nickname x.w.users = some u →
      (Map.lookup nickname x'.w.users = some { u with invitedTo := KSet.insert channel u.invitedTo } ∧
       KSet.mem channel (KSet.insert channel u.invitedTo) = true ∧
       (∀ n, n ≠ nickname → Map.lookup n x'.w.users = Map.lookup n x.w.users) ∧
       Map.keys x'.w.users = Map.keys x.w.users ∧
       x'.w = { x.w with users := x'.w.users }) ∧
      x'.direct = x.direct ++ [srvLine cfg (RplInviting341 client nickname channel)] ∧
      x'.queued = x.queued ++ [(u.owner, msg.render (x.conn c).source)]) ∧
    (Map.lookup channel x.w.channels = none → OnlyReplied cfg x x' (ErrNoSuchChannel403 client channel)) ∧
    (∀ ch, Map.lookup channel x.w.channels = some ch → Map.lookup nick ch.users = none →
      OnlyReplied cfg x x' (ErrNotOnChannel442 client channel)) ∧
    (∀ ch chum, Map.lookup channel x.w.channels = some ch → Map.lookup nick ch.users = some chum →
      ch.modes.inviteOnly = true → chum.operator = false →
      OnlyReplied cfg x x' (ErrChanOpPrivsNeeded482 client channel)) ∧
    (∀ ch chum m, Map.lookup channel x.w.channels = some ch → Map.lookup nick ch.users = some chum →
      (ch.modes.inviteOnly = false ∨ chum.operator = true) → Map.lookup nickname ch.users = some m →
      OnlyReplied cfg x x' (ErrUserOnChannel443 client nickname channel)) ∧
    (∀ ch chum, Map.lookup channel x.w.channels = some ch → Map.lookup nick ch.users = some chum →
      (ch.modes.inviteOnly = false ∨ chum.operator = true) → Map.lookup nickname ch.users = none →
      Map.lookup nickname x.w.users = none →
      OnlyReplied cfg x x' (ErrNoSuchNick401 client nickname)) := by
  refine ⟨fun ch chum u h1 h2 h3 h4 h5 => ?_, fun h => ?_, fun ch h1 h2 => ?_,
    fun ch chum h1 h2 h3 h4 => ?_, fun ch chum m h1 h2 h3 h4 => ?_, fun ch chum h1 h2 h3 h4 h5 => ?_⟩
  · have hcond : (ch.modes.inviteOnly && !chum.operator) = false := by
      rcases h3 with h3 | h3 <;> simp [h3]
    have hx : processInvite cfg c nickname channel msg x =
        ((x.modifyW (fun w => { w with users := Map.modify nickname (fun u =>
            { u with invitedTo := KSet.insert channel u.invitedTo }) w.users })).reply cfg
          (RplInviting341 (x.conn c).clientName nickname channel)).send nickname (msg.render (x.conn c).source) := by
      unfold processInvite
      simp [hnick, h1, h2, hcond, Map.contains, h4, h5]
    simp only [hx]
    have hl : Map.lookup nickname (Map.modify nickname (fun u =>
        { u with invitedTo := KSet.insert channel u.invitedTo }) x.w.users) =
        some { u with invitedTo := KSet.insert channel u.invitedTo } := by
      rw [Map.lookup_modify]; simp [h5]
    rw [Ctx.send_w_of_lookup (u := { u with invitedTo := KSet.insert channel u.invitedTo })]
    · refine ⟨⟨hl, ?_, ?_, ?_, rfl⟩, ?_, rfl⟩
      · rw [KSet.mem_insert]; simp
      · intro n hn
        simp only [Ctx.reply_w, Ctx.modifyW_w]
        rw [Map.lookup_modify]; simp [Ne.symm hn]
      · simp only [Ctx.reply_w, Ctx.modifyW_w]; exact Map.keys_modify _ _ _
      · simp [srvLine, str]
    · simpa using hl
  · simp [processInvite, hnick, h, OnlyReplied, srvLine, str]
  · simp [processInvite, hnick, h1, h2, OnlyReplied, srvLine, str]
  · simp [processInvite, hnick, h1, h2, h3, h4, OnlyReplied, srvLine, str]
  · have hcond : (ch.modes.inviteOnly && !chum.operator) = false := by
      rcases h3 with h3 | h3 <;> simp [h3]
    simp [processInvite, hnick, h1, h2, hcond, Map.contains, h4, OnlyReplied, srvLine, str]
  · have hcond : (ch.modes.inviteOnly && !chum.operator) = false := by
      rcases h3 with h3 | h3 <;> simp [h3]
    simp [processInvite, hnick, h1, h2, hcond, Map.contains, h4, h5, OnlyReplied, srvLine, str]

/-! ## 6. what later replies show; the admission granted by INVITE -/

/-- after an accepted TOPIC the channel stored under `channel` carries the new topic (this is what
    `topic_read_spec`, LIST and the JOIN burst read) -/
theorem topic_stored (cfg : Cfg) (c : Nat) (channel : Str) (t : Str) (msg : Message) (x : Ctx)
    (nick : Str) (hnick : (x.conn c).nick = some nick) (ch : Channel) (chum : ChanUserModes)
    (h1 : Map.lookup channel x.w.channels = some ch) (h2 : Map.lookup nick ch.users = some chum)
    (h3 : ch.modes.protectedTopic = false ∨ chum.isHalfOperator = true)
    (h4 : ∀ n, Map.contains n ch.users = true → Map.contains n x.w.users = true) :
    Map.lookup channel (processTopic cfg c channel (some t) msg x).w.channels =
      some { ch with topic := if t = [] then none else some { topic := t, nick := nick } } := by
  have := ((topic_spec cfg c channel t msg x nick hnick).1 ch chum h1 h2 h3 h4).1
  rw [show (processTopic cfg c channel (some t) msg x).w = _ from this]
  simp

/-- LIST shows the stored topic text (empty if none) -/
theorem list_shows_topic (cfg : Cfg) (client chn : Str) (ch : Channel) (x : Ctx) :
    listLine cfg client chn ch x =
      x.reply cfg (RplList322 client chn ch.users.length ((ch.topic.map (·.topic)).getD [])) := by
  unfold listLine
  cases ch.topic <;> rfl

/-- An invitation opens an invite-only channel: with no key, no ban, no limit problem and the
    nick not yet on the channel, the admission test of JOIN succeeds without error replies exactly
    when the channel is not invite-only, or the nick holds an invitation, or an invite-exception
    matches; otherwise the one reply is 473. -/
theorem invitation_opens (ch : Channel) (chname : Str) (key : Option (Option Str))
    (source nick client : Str) (invitedTo : KSet)
    (hkey : ch.modes.key = none) (hban : ch.modes.banned source = false)
    (hlim : ch.modes.clientLimit = none) (hnot : Map.contains nick ch.users = false) :
    joinCheckExisting ch chname key source nick client invitedTo =
      if !ch.modes.inviteOnly || KSet.mem chname invitedTo ||
          ch.modes.inviteException.any (fun e => matchWildcard e source)
      then (true, []) else (false, [ErrInviteOnlyChan473 client chname]) := by
  unfold joinCheckExisting
  simp only [hkey, hban, hlim, hnot]
  generalize (!ch.modes.inviteOnly || KSet.mem chname invitedTo ||
    ch.modes.inviteException.any (fun e => matchWildcard e source)) = b
  cases b <;> simp

/-- ... and the JOIN that uses it consumes it ("one admission") -/
theorem join_consumes_invitation (nick chn : Str) (create : Bool) (w : World) (n : Str) :
    Map.lookup n (joinApply nick [(true, create)] [chn] w).users =
      (Map.lookup n w.users).map (fun u =>
        if n = nick then { u with channels := KSet.insert chn u.channels
                                  invitedTo := KSet.erase chn u.invitedTo } else u) := by
  have hu : (joinApply nick [(true, create)] [chn] w).users =
      Map.modify nick (fun u => { u with channels := KSet.insert chn u.channels
                                         invitedTo := KSet.erase chn u.invitedTo }) w.users := by
    simp only [joinApply, ↓reduceIte]
    cases create
    · simp only [Bool.false_eq_true, ↓reduceIte]
      split <;> rfl
    · rfl
  rw [hu, Map.lookup_modify]
  by_cases h : nick = n
  · subst h; simp
  · have h' : ¬ n = nick := fun e => h e.symm
    cases Map.lookup n w.users <;> simp [h, h']

/-! ## 7. examples on a concrete channel
    `#c` = alice (founder, operator), hank (half-operator), vic (voice), pat (plain); `out` is a
    registered user who is not a member.  Connection ids 1..5 in that order. -/

namespace Ex
open PrivEx

-- the half-operator kicks the plain member: announced to the three remaining members and to pat
example : let x := processKick cfg 2 (str "#c") [str "pat"] none x0
    x.queued = [(1, str ":hank!~hank@h KICK #c pat :Kicked"), (2, str ":hank!~hank@h KICK #c pat :Kicked"),
                (3, str ":hank!~hank@h KICK #c pat :Kicked"), (4, str ":hank!~hank@h KICK #c pat :Kicked")] ∧
    x.direct = [] ∧
    (chanAfter x).map (fun C => Map.keys C.users) = some [str "alice", str "hank", str "vic"] ∧
    (Map.lookup (str "pat") x.w.users).map (·.channels) = some [] ∧
    invCheck x.w = [] := by decide

-- he can kick neither the founder nor himself (a half-operator), and `out` is no member
example : let x := processKick cfg 2 (str "#c") [str "alice", str "hank", str "out"] (some (str "bye")) x0
    x.queued = [] ∧ chanAfter x = some chan ∧
    x.direct = [(str ":irc.irc " ++ Reply.ErrCannotDoCommand972 (client := str "hank")), (str ":irc.irc " ++ Reply.ErrCannotDoCommand972 (client := str "hank")),
                (str ":irc.irc " ++ Reply.ErrUserNotInChannel441 (client := str "hank") (nick := str "out") (channel := str "#c"))] := by decide

-- the founder kicks the half-operator and the voiced member, with a comment; ranks go too
example : let x := processKick cfg 1 (str "#c") [str "hank", str "vic", str "hank"] (some (str "bye")) x0
    (chanAfter x).map (fun C => (Map.keys C.users, C.modes.halfOperators, C.modes.voices)) =
      some ([str "alice", str "pat"], [], []) ∧
    x.queued = [(1, str ":alice!~alice@h KICK #c hank :bye"), (4, str ":alice!~alice@h KICK #c hank :bye"),
                (2, str ":alice!~alice@h KICK #c hank :bye"),
                (1, str ":alice!~alice@h KICK #c vic :bye"), (4, str ":alice!~alice@h KICK #c vic :bye"),
                (3, str ":alice!~alice@h KICK #c vic :bye")] ∧
    invCheck x.w = [] := by decide

-- voice, plain member and outsider cannot kick
example : let x := processKick cfg 3 (str "#c") [str "pat"] none x0
    x.w.channels = x0.w.channels ∧ x.queued = [] ∧
    x.direct = [(str ":irc.irc " ++ Reply.ErrChanOpPrivsNeeded482 (client := str "vic") (channel := str "#c"))] := by decide
example : (processKick cfg 5 (str "#c") [str "pat"] none x0).direct =
    [(str ":irc.irc " ++ Reply.ErrNotOnChannel442 (client := str "out") (channel := str "#c"))] := by decide
example : (processKick cfg 5 (str "#x") [str "pat"] none x0).direct =
    [(str ":irc.irc " ++ Reply.ErrNoSuchChannel403 (client := str "out") (channel := str "#x"))] := by decide

def topicMsg : Message := { source := none, command := str "TOPIC", params := [str "#c", str "hello"] }
def inviteMsg : Message := { source := none, command := str "INVITE", params := [str "out", str "#c"] }

-- TOPIC on the (not +t) channel by the plain member: stored, announced to all four
example : let x := processTopic cfg 4 (str "#c") (some (str "hello")) topicMsg x0
    (chanAfter x).map (·.topic) = some (some { topic := str "hello", nick := str "pat" }) ∧
    x.queued.map (·.1) = [1, 2, 3, 4] ∧
    x.queued.all (·.2 == str ":pat!~pat@h TOPIC #c hello") = true ∧ x.direct = [] := by decide

-- on a +t channel the plain member is refused, the half-operator is not
def x0t : Ctx := { w := (processMode cfg 2 (str "#c") [(str "+t", [])] x0).w }
example : let x := processTopic cfg 4 (str "#c") (some (str "hello")) topicMsg x0t
    x.w.channels = x0t.w.channels ∧ x.queued = [] ∧
    x.direct = [(str ":irc.irc " ++ Reply.ErrChanOpPrivsNeeded482 (client := str "pat") (channel := str "#c"))] := by decide
example : let x := processTopic cfg 2 (str "#c") (some (str "hello")) topicMsg x0t
    (chanAfter x).map (·.topic) = some (some { topic := str "hello", nick := str "hank" }) := by decide
example : (processTopic cfg 5 (str "#c") (some (str "hello")) topicMsg x0).direct =
    [(str ":irc.irc " ++ Reply.ErrNotOnChannel442 (client := str "out") (channel := str "#c"))] := by decide
-- the read form shows what was stored
example : (processTopic cfg 3 (str "#c") none topicMsg
      { w := (processTopic cfg 4 (str "#c") (some (str "hello")) topicMsg x0).w }).direct =
    [(str ":irc.irc " ++ Reply.RplTopic332 (client := str "vic") (channel := str "#c") (topic := str "hello")), (str ":irc.irc " ++ Reply.RplTopicWhoTime333 (client := str "vic") (channel := str "#c") (nick := str "pat") (setat := 0))] := by decide
example : (processTopic cfg 3 (str "#c") none topicMsg x0).direct =
    [(str ":irc.irc " ++ Reply.RplNoTopic331 (client := str "vic") (channel := str "#c"))] := by decide

-- INVITE by the plain member reaches exactly `out` and is recorded
example : let x := processInvite cfg 4 (str "out") (str "#c") inviteMsg x0
    x.queued = [(5, str ":pat!~pat@h INVITE out #c")] ∧
    x.direct = [(str ":irc.irc " ++ Reply.RplInviting341 (client := str "pat") (nick := str "out") (channel := str "#c"))] ∧
    (Map.lookup (str "out") x.w.users).map (·.invitedTo) = some [str "#c"] ∧
    x.w.channels = x0.w.channels := by decide
-- refused: outsider, already on channel, unknown nick, invite-only without operator flag
example : (processInvite cfg 5 (str "pat") (str "#c") inviteMsg x0).direct =
    [(str ":irc.irc " ++ Reply.ErrNotOnChannel442 (client := str "out") (channel := str "#c"))] := by decide
example : (processInvite cfg 4 (str "vic") (str "#c") inviteMsg x0).direct =
    [(str ":irc.irc " ++ Reply.ErrUserOnChannel443 (client := str "pat") (nick := str "vic") (channel := str "#c"))] := by decide
example : (processInvite cfg 4 (str "nobody") (str "#c") inviteMsg x0).direct =
    [(str ":irc.irc " ++ Reply.ErrNoSuchNick401 (client := str "pat") (nick := str "nobody"))] := by decide
def x0i : Ctx := { w := (processMode cfg 2 (str "#c") [(str "+i", [])] x0).w }
example : let x := processInvite cfg 2 (str "out") (str "#c") inviteMsg x0i
    x.queued = [] ∧ x.w.users = x0i.w.users ∧
    x.direct = [(str ":irc.irc " ++ Reply.ErrChanOpPrivsNeeded482 (client := str "hank") (channel := str "#c"))] := by decide
example : (processInvite cfg 1 (str "out") (str "#c") inviteMsg x0i).queued =
    [(5, str ":alice!~alice@h INVITE out #c")] := by decide

-- the hypotheses of the theorems are satisfiable on this world
example : (x0.conn 2).nick = some (str "hank") ∧ Map.lookup (str "#c") x0.w.channels = some chan ∧
    Map.lookup (str "hank") chan.users = some { halfOper := true } ∧
    (∀ n ∈ Map.keys chan.users, Map.contains n x0.w.users = true) := by decide

end Ex

end Irc.C09
