/-
  Property C09.  "KICK removes a member only when issued by a member ranked half-operator or
  above, never removes a founder or protected member, and a mere half-operator cannot remove
  half-operators or above; the kick is announced to the remaining members and to the victim, who
  loses membership and rank.  TOPIC is changed only by a member, and on a +t channel only by
  half-operator or above; the new topic is announced to all members and is what later TOPIC, LIST
  and JOIN replies show.  INVITE is honoured only from a member (an operator if the channel is
  invite-only) for a user not already on the channel, reaches exactly the invited user and grants
  one admission to that channel."

  Model: `Irc.kickSelect`, `Irc.processKick`, `Irc.World.removeUserFromChannel`,
  `Irc.processTopic`, `Irc.processInvite`.  Helper lemmas: `Irc/Props/ChanPrivLemmas.lean`.
-/
import Irc.Props.ChanPrivLemmas
namespace Irc.C09
open Irc Reply

/-! ## 0. vocabulary -/

/-- a server reply `t` as the line written to the acting connection -/
def srvLine (cfg : Cfg) (t : Str) : Str := str ":" ++ cfg.name ++ str " " ++ t

/-- "the handler answered with exactly the one reply `t` and did nothing else" -/
def OnlyReplied (cfg : Cfg) (x x' : Ctx) (t : Str) : Prop :=
  x'.w = x.w ∧ x'.queued = x.queued ∧ x'.direct = x.direct ++ [srvLine cfg t]

theorem onlyReplied_reply (cfg : Cfg) (x : Ctx) (t : Str) : OnlyReplied cfg x (x.reply cfg t) t := by
  simp [OnlyReplied, srvLine, str]

namespace Spec

/-- who may kick whom, in the words of the statement -/
def kickable (actor victim : ChanUserModes) : Bool :=
  -- issued by a member ranked half-operator or above
  (actor.founder || actor.prot || actor.operator || actor.halfOper) &&
  -- never removes a founder or protected member
  !(victim.founder || victim.prot) &&
  -- a mere half-operator cannot remove half-operators or above
  !((actor.halfOper && !actor.founder && !actor.prot && !actor.operator) &&
    (victim.founder || victim.prot || victim.operator || victim.halfOper))

end Spec

/-! ## 1. KICK: who is selected -/

/-- The selection loop: `v` is selected iff it is listed, is a member, is not founder/protected,
    and is below half-operator unless the actor is more than a mere half-operator
    (`onlyHalf = false`); nobody is selected twice; the replies are, in list order, one 441 per
    listed non-member occurrence and one 972 per listed occurrence of a member that may not be
    kicked. -/
theorem kickSelect_spec (client channel : Str) (ch : Channel) (onlyHalf : Bool) (users : List Str) :
    (∀ v, v ∈ (kickSelect client channel ch onlyHalf users []).1 ↔
      v ∈ users ∧ ∃ m, Map.lookup v ch.users = some m ∧ ¬ m.isProtected = true ∧
        (¬ m.isHalfOperator = true ∨ ¬ onlyHalf = true)) ∧
    (kickSelect client channel ch onlyHalf users []).1.Nodup ∧
    (kickSelect client channel ch onlyHalf users []).2 = users.filterMap (fun ku =>
      match Map.lookup ku ch.users with
      | none => some (ErrUserNotInChannel441 client ku channel)
      | some m => if !m.isProtected && (!m.isHalfOperator || !onlyHalf) then none
                  else some (ErrCannotDoCommand972 client)) := by
  refine ⟨fun v => ?_, kickSelect_fst_nodup _ _ _ _ _ _ List.nodup_nil, ?_⟩
  · rw [kickSelect_fst_mem]
    simp [kickOk]
  · rw [kickSelect_snd]; rfl

/-- In `processKick` the selection is run with the actor's rank: the selected nicks are exactly
    the listed members that the actor may kick according to `Spec.kickable`. -/
theorem kickSelect_kickable (client channel : Str) (ch : Channel) (actor : ChanUserModes)
    (hact : actor.isHalfOperator = true) (users : List Str) (v : Str) :
    v ∈ (kickSelect client channel ch actor.isOnlyHalfOperator users []).1 ↔
      v ∈ users ∧ ∃ m, Map.lookup v ch.users = some m ∧ Spec.kickable actor m = true := by
  rw [kickSelect_fst_mem]
  simp only [List.not_mem_nil, false_or]
  have key : ∀ m : ChanUserModes, kickOk m actor.isOnlyHalfOperator = Spec.kickable actor m := by
    intro m
    obtain ⟨aq, aa, av, ao, ah⟩ := actor
    obtain ⟨mq, ma, mv, mo, mh⟩ := m
    simp only [ChanUserModes.isHalfOperator] at hact
    simp only [kickOk, Spec.kickable, ChanUserModes.isProtected, ChanUserModes.isHalfOperator,
      ChanUserModes.isOnlyHalfOperator]
    revert hact
    cases aq <;> cases aa <;> cases ao <;> cases ah <;> cases mq <;> cases ma <;> cases mo <;> cases mh <;> decide
  simp only [key]

example : Spec.kickable { halfOper := true } { voice := true } = true := by decide
example : Spec.kickable { halfOper := true } { halfOper := true } = false := by decide
example : Spec.kickable { operator := true } { halfOper := true } = true := by decide
example : Spec.kickable { founder := true } { prot := true } = false := by decide
example : Spec.kickable { voice := true } {} = false := by decide

/-! ## 2. KICK: who may issue it -/

/-- unknown channel: 403; actor not a member: 442; member below half-operator: 482; in all
    three cases nothing else happens. -/
theorem kick_requires_rank (cfg : Cfg) (c : Nat) (channel : Str) (kickUsers : List Str)
    (comment : Option Str) (x : Ctx) (nick : Str) (hnick : (x.conn c).nick = some nick) :
    let x' := processKick cfg c channel kickUsers comment x
    let client := (x.conn c).clientName
    (Map.lookup channel x.w.channels = none →
      OnlyReplied cfg x x' (ErrNoSuchChannel403 client channel)) ∧
    (∀ ch, Map.lookup channel x.w.channels = some ch → Map.lookup nick ch.users = none →
      OnlyReplied cfg x x' (ErrNotOnChannel442 client channel)) ∧
    (∀ ch chum, Map.lookup channel x.w.channels = some ch → Map.lookup nick ch.users = some chum →
      chum.isHalfOperator = false →
      OnlyReplied cfg x x' (ErrChanOpPrivsNeeded482 client channel)) := by
  refine ⟨fun h => ?_, fun ch h1 h2 => ?_, fun ch chum h1 h2 h3 => ?_⟩
  · simp [processKick, hnick, h, OnlyReplied, srvLine, str]
  · simp [processKick, hnick, h1, h2, OnlyReplied, srvLine, str]
  · simp [processKick, hnick, h1, h2, h3, OnlyReplied, srvLine, str]

/-! ## 3. KICK: what it does -/

/-- The effect of a KICK issued by a member `nick` of rank half-operator or above, on a channel
    all of whose members are registered users.  `kicked` is the selection of section 1.

    * every kicked `v`: is no member of the channel afterwards (if the channel still exists) and
      in none of its rank lists; `channel` is removed from `v`'s own channel list; the KICK line is
      queued to `v` and to every remaining member;
    * the channel afterwards is the old one minus the kicked members (`Removed`): members not
      kicked keep their flags, all settings stay;
    * users not kicked, other channels and all other parts of the world are unchanged;
    * the queue grows by exactly: for each kicked `v` in order, the line to each remaining member,
      then to `v`. -/
theorem kick_effect (cfg : Cfg) (c : Nat) (channel : Str) (kickUsers : List Str) (comment : Option Str)
    (x : Ctx) (nick : Str) (ch : Channel) (chum : ChanUserModes)
    (hnick : (x.conn c).nick = some nick) (hch : Map.lookup channel x.w.channels = some ch)
    (hm : Map.lookup nick ch.users = some chum) (hH : chum.isHalfOperator = true)
    (hmem : ∀ n, Map.contains n ch.users = true → Map.contains n x.w.users = true) :
    let cn := x.conn c
    let kicked := (kickSelect cn.clientName channel ch chum.isOnlyHalfOperator kickUsers []).1
    let x' := processKick cfg c channel kickUsers comment x
    let line (v : Str) : Str :=
      str ":" ++ cn.source ++ str " KICK " ++ channel ++ str " " ++ v ++ str " :" ++ comment.getD (str "Kicked")
    let remaining : List Str := match Map.lookup channel x'.w.channels with
      | some C' => Map.keys C'.users
      | none => []
    (∀ v ∈ kicked,
      (∀ C', Map.lookup channel x'.w.channels = some C' →
        Map.lookup v C'.users = none ∧ ∀ l, KSet.mem v (rankList C'.modes l) = false) ∧
      (∃ u u', Map.lookup v x.w.users = some u ∧ Map.lookup v x'.w.users = some u' ∧
        u' = { u with channels := KSet.erase channel u.channels } ∧
        KSet.mem channel u'.channels = false) ∧
      (ownerOf x.w v, line v) ∈ x'.queued ∧
      (∀ n ∈ remaining, (ownerOf x.w n, line v) ∈ x'.queued)) ∧
    (∀ C', Map.lookup channel x'.w.channels = some C' →
      Removed kicked ch C' ∧ ∀ n, n ∉ kicked → Map.lookup n C'.users = Map.lookup n ch.users) ∧
    (∀ n, n ∉ kicked → Map.lookup n x'.w.users = Map.lookup n x.w.users) ∧
    (∀ c', c' ≠ channel → Map.lookup c' x'.w.channels = Map.lookup c' x.w.channels) ∧
    x'.w = { x.w with users := x'.w.users, channels := x'.w.channels } ∧
    x'.queued = x.queued ++ kicked.flatMap (fun v =>
      (remaining ++ [v]).map (fun n => (ownerOf x.w n, line v))) := by
  intro cn kicked x' line remaining
  obtain ⟨hw, -, hq⟩ := processKick_ok cfg c channel kickUsers comment x nick ch chum hnick hch hm hH hmem
  have hsel_mem : ∀ k ∈ kicked, Map.contains k ch.users = true := by
    intro k hk
    rw [kickSelect_fst_mem] at hk
    rcases hk with hk | ⟨_, m, hm', _⟩
    · cases hk
    · exact Map.contains_of_lookup hm'
  have hnd : kicked.Nodup := kickSelect_fst_nodup _ _ _ _ _ _ List.nodup_nil
  obtain ⟨f1, f2, f3, f4⟩ := kickFold_spec channel kicked x.w hnd
    (by intro C hC; rw [hch] at hC; cases hC; exact hsel_mem)
  have hw' : x'.w = kicked.foldl (fun w ku => w.removeUserFromChannel channel ku) x.w := hw
  rw [← hw'] at f1 f2 f3 f4
  have hline : ∀ v, line v = ':' :: (cn.source ++ ' ' :: kickMsg channel v comment) := by
    intro v; simp [line, kickMsg, str]
  have hq' : x'.queued = x.queued ++ kicked.flatMap (fun v =>
      (remaining ++ [v]).map (fun n => (ownerOf x.w n, line v))) := by
    have hrem_eq : remaining = (match Map.lookup channel
        (kicked.foldl (fun w ku => w.removeUserFromChannel channel ku) x.w).channels with
        | some C' => Map.keys C'.users
        | none => []) := by
      show (match Map.lookup channel x'.w.channels with
        | some C' => Map.keys C'.users
        | none => []) = _
      rw [hw']
    rw [show x'.queued = _ from hq]
    congr 1
    apply flatMap_congr'
    intro v _
    simp only [hline]
    rw [hrem_eq]; rfl
  have hR : ∀ C', Map.lookup channel x'.w.channels = some C' → Removed kicked ch C' := by
    intro C' hC'
    obtain ⟨C, hC, hRem⟩ := f4 C' hC'
    rw [hch] at hC; cases hC; exact hRem
  refine ⟨?_, ?_, ?_, f3, f1, hq'⟩
  · intro v hv
    refine ⟨?_, ?_, ?_, ?_⟩
    · intro C' hC'
      have := hR C' hC'
      refine ⟨by rw [this.users]; simp [hv], fun l => by rw [this.ranks]; simp [hv]⟩
    · obtain ⟨u, hu⟩ := (Map.contains_iff _ _).mp (hmem v (hsel_mem v hv))
      refine ⟨u, _, hu, by rw [f2 v, hu]; simp [hv], rfl, ?_⟩
      rw [KSet.mem_erase]; simp
    · rw [hq']
      apply List.mem_append_right
      rw [List.mem_flatMap]
      exact ⟨v, hv, by simp⟩
    · intro n hn
      rw [hq']
      apply List.mem_append_right
      rw [List.mem_flatMap]
      exact ⟨v, hv, List.mem_map.mpr ⟨n, by simp [hn], rfl⟩⟩
  · intro C' hC'
    refine ⟨hR C' hC', fun n hn => ?_⟩
    rw [(hR C' hC').users]; simp [hn]
  · intro n hn
    rw [f2 n]
    cases Map.lookup n x.w.users <;> simp [hn]
