/-
  Frame lemmas for C18, part 5: `dispatch` and `handleLine`.
-/
import Irc.Props.C18FrameLemmas4

namespace Irc.C18F
open Irc Irc.Conc

/-- the three commands that reach another connection's record (through `User.owner`) -/
def mayKill : Command → Bool
  | .KILL .. | .DIE .. | .SQUIT .. => true
  | _ => false

/-- the command a line is parsed to (if it gets that far) -/
def lineCmd (s : Str) : Option Command :=
  match Message.parse s with
  | .ok msg =>
    (match Command.fromMessage msg with
     | .ok cmd => some cmd
     | .error _ => none)
  | .error _ => none

/-- the line is a well-formed KILL, DIE or SQUIT -/
def lineKills (s : Str) : Bool :=
  match lineCmd s with
  | some cmd => mayKill cmd
  | none => false

section
variable {cfg : Cfg} {cn : Conn} {c d : Nat} {x X : Ctx}

@[fr_push] theorem bumpCount_scW (w : World) (i : Nat) :
    bumpCount (w.scW cn) i = (bumpCount w i).scW cn := rfl

@[kp] theorem bumpCount_conns (w : World) (i : Nat) : (bumpCount w i).conns = w.conns := rfl

/-- (A) for the dispatcher: `NoOwn` is needed for KILL / DIE / SQUIT only -/
theorem dispatch_sc (hne : cn.id ≠ d) (msg : Message) (cmd : Command)
    (h : mayKill cmd = true → NoOwn cn.id x.w) :
    dispatch cfg d msg cmd (x.sc cn) = (dispatch cfg d msg cmd x).sc cn := by
  cases cmd
  case KILL n cm => exact processKill_sc hne (h rfl) n cm
  case DIE m => exact processDie_sc hne (h rfl) m
  case SQUIT s cm => exact processSquit_sc hne (h rfl) s cm
  all_goals (clear h; simp only [dispatch]; fr)

/-- (B) for the dispatcher -/
theorem keep_dispatch (hdc : d ≠ c) (msg : Message) (cmd : Command)
    (h : mayKill cmd = true → NoOwn c X.w) : Keep c X (dispatch cfg d msg cmd X) := by
  cases cmd
  case KILL n cm => exact keep_processKill (h rfl)
  case DIE m => exact keep_processDie (h rfl)
  case SQUIT s cm => exact keep_processSquit (h rfl)
  case CAP => exact keep_processCap hdc
  case AUTHENTICATE => exact keep_processAuthenticate
  case PASS => exact keep_processPass hdc
  case NICK => exact keep_processNick hdc
  case USER => exact keep_processUser hdc
  case PING => exact keep_processPing (d := d)
  case PONG => exact keep_processPong (cfg := cfg) hdc
  case OPER => exact keep_processOper
  case QUIT => exact keep_processQuit hdc
  case JOIN => exact keep_processJoin
  case PART => exact keep_processPart
  case TOPIC => exact keep_processTopic
  case NAMES => exact keep_processNames
  case LIST => exact keep_processList
  case INVITE => exact keep_processInvite
  case KICK => exact keep_processKick
  case MOTD => exact keep_processMotd
  case VERSION => exact keep_processVersion
  case ADMIN => exact keep_processAdmin
  case CONNECT => exact keep_unsupported
  case LUSERS => exact keep_processLusers
  case TIME => exact keep_processTime
  case STATS => exact keep_processStats
  case LINKS => exact keep_processLinks
  case HELP => exact keep_processHelp
  case INFO => exact keep_processInfo
  case MODE => exact keep_processMode
  case PRIVMSG => exact keep_processPrivmsgNotice
  case NOTICE => exact keep_processPrivmsgNotice
  case WHO => exact keep_processWho
  case WHOIS => exact keep_processWhois
  case WHOWAS => exact keep_processWhowas
  case REHASH => exact keep_unsupported
  case RESTART => exact keep_unsupported
  case AWAY => exact keep_processAway
  case USERHOST => exact keep_processUserhost
  case WALLOPS => exact keep_processWallops
  case ISON => exact keep_processIson

/-- (A) for one whole command -/
theorem handleLine_sc (hne : cn.id ≠ d) (line : Str)
    (h : lineKills line = true → NoOwn cn.id x.w) :
    handleLine cfg d line (x.sc cn) = (handleLine cfg d line x).sc cn := by
  unfold handleLine
  simp only [sc_conn x cn hne]
  unfold lineKills lineCmd at h
  split
  · rfl
  · rfl
  · rfl
  · next msg hp =>
    simp only [hp] at h
    split
    · rfl
    · next cmd hc =>
      simp only [hc] at h
      split
      · rfl
      · have e : (x.sc cn).modifyW (fun w => bumpCount w cmd.id.index) =
            (x.modifyW (fun w => bumpCount w cmd.id.index)).sc cn := rfl
        rw [e]
        exact dispatch_sc hne msg cmd h

/-- (B) for one whole command -/
theorem keep_handleLine (hdc : d ≠ c) (line : Str) (h : lineKills line = true → NoOwn c X.w) :
    Keep c X (handleLine cfg d line X) := by
  unfold handleLine
  unfold lineKills lineCmd at h
  dsimp only
  split
  · exact Keep.refl _
  · exact Keep.refl _
  · exact Keep.refl _
  · next msg hp =>
    simp only [hp] at h
    split
    · exact Keep.refl _
    · next cmd hc =>
      simp only [hc] at h
      split
      · exact Keep.refl _
      · refine Keep.trans (Y := X.modifyW (fun w => bumpCount w cmd.id.index)) (Keep.refl _) ?_
        exact keep_dispatch hdc msg cmd h

end

end Irc.C18F
