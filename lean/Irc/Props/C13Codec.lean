/-
  Property C13, FRAMING half (the grammar half is `Irc/Props/C13.lean`).

  "Every received line within the length limit is parsed ...; empty lines are ignored and an
   over-long line is answered with ERR_INPUTTOOLONG and no part of it is executed.  Every line
   the server emits is one CRLF-terminated message ..."

  Model: `Irc/Codec.lean` (`codecRun max chunks`: tokio-util `LinesCodec::decode` with
  `max_length` under `Framed`, fed in arbitrary read chunks, then EOF; the stream ends at the
  first error).  Reference semantics: `Spec.frames max bytes`, defined on the WHOLE byte
  stream (`Spec.cut` / `Spec.framesN` / `Spec.frames`, in `C13CodecLemmas.lean` §0 because the
  lemmas need them; their defining equations are restated below as `rfl` theorems).  The
  reference never mentions chunks, `nextIndex`, `discarding` or the decoder's fuel.
  All theorems are for ALL byte streams, ALL chunkings (empty chunks included) and ALL `max`.

  Main theorem: `codec_chunking : codecRun max chunks = Spec.frames max chunks.flatten`
  — NO side condition is needed: no way of cutting the stream (not at `max`/`max+1` bytes, not
  between `\r` and `\n`, not with empty reads) changes the result.

  Findings (exact bounds, each with a kernel-checked witness below):
  * `cr_counts`   — the searched window is `max+1` bytes and the `\r` of a CRLF counts: a
                    CRLF-terminated line may carry at most `max-1` payload bytes, an
                    LF-terminated one `max`.  (`wire_roundtrip` therefore needs
                    `(utf8Encode s).length + 1 ≤ max`, not `≤ max`.)
  * `max_zero`    — with `max = 0` even the empty CRLF line is `tooLong`.
  * `one_cr`      — exactly one trailing `\r` is removed; any other `\r` stays in the line.
  * `eof_tail`    — an unterminated tail at EOF is never delivered as a line: it is the error
                    `bytesRemaining` (or `tooLong` if longer than `max`).
  * the `discarding` branches of `decode` are unreachable from `codecRun` (invariant `Good`:
    the stream ends at the first error, so the decoder never runs in discarding mode).
-/
import Irc.Props.C13CodecLemmas
namespace Irc.C13C
open Irc Irc.Codec

/-! ## 1. Reference semantics and independence of chunking -/

/-- `Spec.cut`: split at the first `\n`. -/
theorem spec_cut_nil : Spec.cut [] = ([], none) := rfl
theorem spec_cut_cons (b : Nat) (bs : List Nat) :
    Spec.cut (b :: bs) = if b = 10 then ([], some bs) else (b :: (Spec.cut bs).1, (Spec.cut bs).2) :=
  rfl

/-- `Spec.framesN`: one round per line. -/
theorem spec_framesN_zero (max : Nat) (bytes : List Nat) : Spec.framesN max 0 bytes = [] := rfl
theorem spec_framesN_succ (max n : Nat) (bytes : List Nat) :
    Spec.framesN max (n + 1) bytes =
      match Spec.cut bytes with
      | (seg, some rest) =>
        if seg.length > max then [.tooLong]
        else match utf8Decode (chompCr seg) with
          | some s => .line s :: Spec.framesN max n rest
          | none => [.badUtf8]
      | (tail, none) =>
        if tail.length > max then [.tooLong]
        else if tail.isEmpty then [] else [.bytesRemaining] := rfl
theorem spec_frames_def (max : Nat) (bytes : List Nat) :
    Spec.frames max bytes = Spec.framesN max (bytes.length + 1) bytes := rfl

/-- The reference in closed form (no fuel): the three mutually exclusive, exhaustive
    situations of a stream (`spec_exhaustive`) and its frames in each. -/
theorem spec_line (max : Nat) (seg rest : List Nat) (hs : 10 ∉ seg) (hl : seg.length ≤ max) :
    Spec.frames max (seg ++ 10 :: rest) =
      match utf8Decode (chompCr seg) with
      | some s => .line s :: Spec.frames max rest
      | none => [.badUtf8] := frames_line max rest hs hl

theorem spec_tooLong (max : Nat) (b : List Nat) (h : 10 ∉ b.take (max + 1)) (hl : b.length > max) :
    Spec.frames max b = [.tooLong] := frames_tooLong max h hl

theorem spec_tail (max : Nat) (b : List Nat) (h : 10 ∉ b) (hl : b.length ≤ max) :
    Spec.frames max b = if b.isEmpty then [] else [.bytesRemaining] := frames_tail max h hl

theorem spec_exhaustive (max : Nat) (b : List Nat) :
    (∃ seg rest, b = seg ++ 10 :: rest ∧ 10 ∉ seg ∧ seg.length ≤ max) ∨
    (10 ∉ b.take (max + 1) ∧ b.length > max) ∨
    (10 ∉ b ∧ b.length ≤ max) := trichotomy max b

/-- the fuel of the reference is irrelevant once it exceeds the length -/
theorem spec_fuel (max n : Nat) (bytes : List Nat) (h : bytes.length < n) :
    Spec.framesN max n bytes = Spec.frames max bytes :=
  framesN_fuel max n (bytes.length + 1) bytes h (by omega)

/-- The full statement of "the result does not depend on how the stream is cut into reads". -/
def codec_chunking_full : Prop :=
  ∀ (max : Nat) (chunks : List (List Nat)), codecRun max chunks = Spec.frames max chunks.flatten

/-- MAIN THEOREM.  The chunk-driven decoder (with its `nextIndex` resume bookkeeping, its
    per-call fuel, `drain` after every read and the `decode_eof` loop) computes exactly the
    reference semantics of the concatenated stream. -/
theorem codec_chunking (max : Nat) (chunks : List (List Nat)) :
    codecRun max chunks = Spec.frames max chunks.flatten := by
  have := runChunks_spec max chunks {} [] good_init
  simpa [codecRun] using this

theorem codec_chunking_full_holds : codec_chunking_full := codec_chunking

theorem codec_chunk_independent (max : Nat) (chunks₁ chunks₂ : List (List Nat))
    (h : chunks₁.flatten = chunks₂.flatten) : codecRun max chunks₁ = codecRun max chunks₂ := by
  rw [codec_chunking, codec_chunking, h]

/-- in particular: any chunking behaves like delivering the whole stream in one read -/
theorem codec_one_chunk (max : Nat) (chunks : List (List Nat)) :
    codecRun max chunks = codecRun max [chunks.flatten] :=
  codec_chunk_independent max _ _ (by simp)

-- hypotheses satisfiable / conclusion non-trivial: "ab\r\ncd\n" cut in four different ways
example : codecRun 5 [[97, 98, 13, 10, 99, 100, 10]] = [.line (str "ab"), .line (str "cd")] := by
  decide
example : codecRun 5 [[97, 98, 13], [], [10, 99], [100, 10]] = codecRun 5 [[97, 98, 13, 10, 99, 100, 10]] :=
  codec_chunk_independent 5 _ _ (by decide)
example : codecRun 5 [[97], [98], [13], [10], [99], [100], [10]] = [.line (str "ab"), .line (str "cd")] := by
  decide

/-- The decoder state invariant behind the main theorem, for the record: between any two
    calls the decoder is not discarding and everything before `nextIndex` is `\n`-free; and
    from ANY such state the driver yields the reference frames of buffer ++ remaining input. -/
theorem codec_invariant (max : Nat) (chunks : List (List Nat)) (s : DecState) (acc : List Frame)
    (hd : s.discarding = false) (hn : s.nextIndex ≤ s.buf.length)
    (hm : 10 ∉ s.buf.take s.nextIndex) :
    runChunks max chunks s acc = acc ++ Spec.frames max (s.buf ++ chunks.flatten) :=
  runChunks_spec max chunks s acc ⟨hd, hn, hm⟩

/-- Shape of every result: some delivered lines followed by at most one error frame; an
    error is always the LAST frame (nothing after it is delivered). -/
theorem codec_shape (max : Nat) (chunks : List (List Nat)) :
    ∃ (ss : List Str) (e : List Frame), codecRun max chunks = ss.map .line ++ e ∧
      (e = [] ∨ e = [.tooLong] ∨ e = [.badUtf8] ∨ e = [.bytesRemaining]) := by
  rw [codec_chunking]
  exact framesN_shape max _ _

/-! ## 2. Consequences -/

/-- Every received line within the length limit is delivered, whatever the chunking: if the
    stream starts with `l ++ "\n"`, `l` free of `\n`, at most `max` bytes (a trailing `\r`
    INCLUDED in the count), and `l` minus one trailing `\r` is valid UTF-8 for `s`, the first
    frame is `line s` and the rest of the stream is processed as a fresh stream. -/
theorem line_within_limit_delivered (max : Nat) (chunks : List (List Nat)) (l rest : List Nat)
    (s : Str) (hc : chunks.flatten = l ++ 10 :: rest) (hnl : 10 ∉ l) (hlen : l.length ≤ max)
    (hu : utf8Decode (chompCr l) = some s) :
    codecRun max chunks = .line s :: codecRun max [rest] := by
  rw [codec_chunking, codec_chunking, hc, frames_line_some max rest hnl hlen hu]
  simp

/-- CRLF form: the payload `l` may have at most `max - 1` bytes (`l.length + 1 ≤ max`). -/
theorem line_within_limit_delivered_crlf (max : Nat) (chunks : List (List Nat)) (l rest : List Nat)
    (s : Str) (hc : chunks.flatten = l ++ 13 :: 10 :: rest) (hnl : 10 ∉ l)
    (hlen : l.length + 1 ≤ max) (hu : utf8Decode l = some s) :
    codecRun max chunks = .line s :: codecRun max [rest] := by
  apply line_within_limit_delivered max chunks (l ++ [13]) rest s
  · simp [hc]
  · simp [hnl]
  · simp; omega
  · rw [chompCr_cr]; exact hu

/-- LF form: the payload may have `max` bytes; it must not end in `\r` to arrive unchanged. -/
theorem line_within_limit_delivered_lf (max : Nat) (chunks : List (List Nat)) (l rest : List Nat)
    (s : Str) (hc : chunks.flatten = l ++ 10 :: rest) (hnl : 10 ∉ l)
    (hlen : l.length ≤ max) (hcr : l.getLast? ≠ some 13) (hu : utf8Decode l = some s) :
    codecRun max chunks = .line s :: codecRun max [rest] :=
  line_within_limit_delivered max chunks l rest s hc hnl hlen (by rw [chompCr_of_last hcr]; exact hu)

example : codecRun 5 [[97, 98], [99, 13, 10, 100]] = .line (str "abc") :: codecRun 5 [[100]] :=
  line_within_limit_delivered_crlf 5 _ [97, 98, 99] [100] (str "abc") (by decide) (by decide)
    (by decide) (by decide)
example : codecRun 5 [[100]] = [.bytesRemaining] := by decide

/-- Any number of good lines in a row are all delivered, in order, each as `mkLine` of its
    bytes; then the remainder of the stream is processed as a fresh stream. -/
theorem lines_delivered (max : Nat) (chunks : List (List Nat)) (ls : List (List Nat))
    (tail : List Nat)
    (hc : chunks.flatten = (ls.map (· ++ [10])).flatten ++ tail)
    (hls : ∀ l ∈ ls, 10 ∉ l ∧ l.length ≤ max ∧ isErr (mkLine l) = false) :
    codecRun max chunks = ls.map mkLine ++ codecRun max [tail] := by
  rw [codec_chunking, codec_chunking, hc, frames_lines max tail ls hls]
  simp

example : codecRun 5 [[97, 10, 98, 13], [10, 10, 99]] =
    [.line (str "a"), .line (str "b"), .line []] ++ codecRun 5 [[99]] :=
  lines_delivered 5 _ [[97], [98, 13], []] [99] (by decide) (by decide)

/-- Over-long line: if the first `max+1` bytes of the stream contain no `\n`, the only frame
    is `tooLong` — no part of that line and nothing after it is delivered. -/
theorem overlong_rejected (max : Nat) (chunks : List (List Nat))
    (hnl : 10 ∉ chunks.flatten.take (max + 1)) (hlen : chunks.flatten.length > max) :
    codecRun max chunks = [.tooLong] := by
  rw [codec_chunking, frames_tooLong max hnl hlen]

/-- the same after any number of good lines: they are delivered, then `tooLong`, then nothing -/
theorem overlong_rejected_after (max : Nat) (chunks : List (List Nat)) (ls : List (List Nat))
    (tail : List Nat)
    (hc : chunks.flatten = (ls.map (· ++ [10])).flatten ++ tail)
    (hls : ∀ l ∈ ls, 10 ∉ l ∧ l.length ≤ max ∧ isErr (mkLine l) = false)
    (hnl : 10 ∉ tail.take (max + 1)) (hlen : tail.length > max) :
    codecRun max chunks = ls.map mkLine ++ [.tooLong] := by
  rw [lines_delivered max chunks ls tail hc hls,
    overlong_rejected max [tail] (by simpa using hnl) (by simpa using hlen)]

example : codecRun 5 [[97, 98, 99], [100, 101, 102], [10, 103, 10]] = [.tooLong] :=
  overlong_rejected 5 _ (by decide) (by decide)
example : codecRun 5 [[120, 10, 97, 98, 99], [100, 101, 102], [10, 103, 10]] =
    [.line (str "x"), .tooLong] :=
  overlong_rejected_after 5 _ [[120]] [97, 98, 99, 100, 101, 102, 10, 103, 10]
    (by decide) (by decide) (by decide) (by decide)

/-- exact characterisation of "the first frame is `tooLong`" for a non-empty result -/
theorem first_tooLong_iff (max : Nat) (chunks : List (List Nat)) :
    codecRun max chunks = [.tooLong] ↔
      (10 ∉ chunks.flatten.take (max + 1) ∧ chunks.flatten.length > max) := by
  constructor
  · intro h
    rw [codec_chunking] at h
    rcases trichotomy max chunks.flatten with ⟨seg, rest, he, hs, hl⟩ | h2 | ⟨hn, hl⟩
    · rw [he, frames_line max rest hs hl] at h
      cases hu : utf8Decode (chompCr seg) <;> rw [hu] at h <;> simp at h
    · exact h2
    · rw [frames_tail max hn hl] at h
      split at h <;> simp at h
  · intro ⟨h1, h2⟩; exact overlong_rejected max chunks h1 h2

/-- Empty lines: a bare `\n` is delivered as the empty line (which `Message.parse` then
    ignores: `Irc.C13.empty_ignored`), for every `max`. -/
theorem empty_line_lf (max : Nat) (chunks : List (List Nat)) (rest : List Nat)
    (hc : chunks.flatten = 10 :: rest) :
    codecRun max chunks = .line [] :: codecRun max [rest] :=
  line_within_limit_delivered max chunks [] rest [] (by simp [hc]) (by simp) (by simp) (by decide)

/-- `\r\n` is delivered as the empty line provided `1 ≤ max` (the `\r` counts). -/
theorem empty_line_crlf (max : Nat) (hmax : 1 ≤ max) (chunks : List (List Nat)) (rest : List Nat)
    (hc : chunks.flatten = 13 :: 10 :: rest) :
    codecRun max chunks = .line [] :: codecRun max [rest] :=
  line_within_limit_delivered_crlf max chunks [] rest [] (by simp [hc]) (by simp) (by simpa)
    (by decide)

theorem empty_line (max : Nat) (hmax : 1 ≤ max) :
    codecRun max [[10]] = [.line []] ∧ codecRun max [[13, 10]] = [.line []] ∧
    codecRun max [[13], [10]] = [.line []] := by
  refine ⟨?_, ?_, ?_⟩
  · rw [empty_line_lf max _ [] (by simp)]; rfl
  · rw [empty_line_crlf max hmax _ [] (by simp)]; rfl
  · rw [empty_line_crlf max hmax _ [] (by simp)]; rfl

/-- finding `max_zero`: the side condition of `empty_line_crlf` is needed -/
theorem max_zero : codecRun 0 [[13, 10]] = [.tooLong] ∧ codecRun 0 [[10]] = [.line []] := by decide

/-- Invalid UTF-8 in a line within the limit: `badUtf8`, and the stream ends there. -/
theorem bad_utf8_ends_stream (max : Nat) (chunks : List (List Nat)) (l rest : List Nat)
    (hc : chunks.flatten = l ++ 10 :: rest) (hnl : 10 ∉ l) (hlen : l.length ≤ max)
    (hu : utf8Decode (chompCr l) = none) :
    codecRun max chunks = [.badUtf8] := by
  rw [codec_chunking, hc, frames_line_none max rest hnl hlen hu]

example : codecRun 5 [[0xC3], [10, 97, 10]] = [.badUtf8] :=
  bad_utf8_ends_stream 5 _ [0xC3] [97, 10] (by decide) (by decide) (by decide) (by decide)
-- over-long encodings, surrogates, > U+10FFFF, stray continuation bytes are all rejected
example : utf8Decode [0xC0, 0x80] = none ∧ utf8Decode [0xE0, 0x80, 0x80] = none ∧
    utf8Decode [0xED, 0xA0, 0x80] = none ∧ utf8Decode [0xF4, 0x90, 0x80, 0x80] = none ∧
    utf8Decode [0x80] = none ∧ utf8Decode [0xF0, 0x80, 0x80, 0x80] = none ∧
    utf8Decode [0xFF] = none ∧ utf8Decode [300] = none := by decide

/-- finding `eof_tail`: an unterminated tail at EOF is an error, never a line -/
theorem unterminated_tail (max : Nat) (chunks : List (List Nat))
    (hnl : 10 ∉ chunks.flatten) (hne : chunks.flatten ≠ []) (hlen : chunks.flatten.length ≤ max) :
    codecRun max chunks = [.bytesRemaining] := by
  rw [codec_chunking, frames_tail max hnl hlen]
  cases h : chunks.flatten with
  | nil => exact absurd h hne
  | cons => rfl

theorem empty_stream (max : Nat) (chunks : List (List Nat)) (h : chunks.flatten = []) :
    codecRun max chunks = [] := by
  rw [codec_chunking, h]; rfl

example : codecRun 5 [[97], [], [98]] = [.bytesRemaining] :=
  unterminated_tail 5 _ (by decide) (by decide) (by decide)
example : codecRun 5 [[], [], []] = [] := empty_stream 5 _ (by decide)

/-- finding `one_cr`: only one trailing CR is removed, inner CRs stay -/
theorem one_cr : codecRun 9 [[97, 13, 13, 10]] = [.line [Char.ofNat 97, Char.ofNat 13]] ∧
    codecRun 9 [[97, 13, 98, 10]] = [.line [Char.ofNat 97, Char.ofNat 13, Char.ofNat 98]] := by
  decide

/-! ## 3. UTF-8 round trip; what a client sends is what the parser receives -/

/-- `utf8Encode` (standard 1–4 byte encoding, `encChar`) restated -/
theorem encChar_def (c : Char) : encChar c =
    (let n := c.toNat
     if n < 0x80 then [n]
     else if n < 0x800 then [0xC0 + n / 64, 0x80 + n % 64]
     else if n < 0x10000 then [0xE0 + n / 4096, 0x80 + n / 64 % 64, 0x80 + n % 64]
     else [0xF0 + n / 262144, 0x80 + n / 4096 % 64, 0x80 + n / 64 % 64, 0x80 + n % 64]) := rfl
theorem utf8Encode_nil : utf8Encode [] = [] := rfl
theorem utf8Encode_cons (c : Char) (cs : Str) : utf8Encode (c :: cs) = encChar c ++ utf8Encode cs :=
  rfl

/-- full statement -/
def utf8_roundtrip_full : Prop := ∀ s : Str, utf8Decode (utf8Encode s) = some s

/-- decoding inverts encoding for EVERY string (all four ranges, all scalar values) -/
theorem utf8_roundtrip (s : Str) : utf8Decode (utf8Encode s) = some s := utf8Decode_encode s

theorem utf8_roundtrip_full_holds : utf8_roundtrip_full := utf8_roundtrip

/-- encodings consist of bytes -/
theorem utf8Encode_bytes (s : Str) : ∀ b ∈ utf8Encode s, b < 256 := by
  induction s with
  | nil => intro b hb; simp [utf8Encode] at hb
  | cons c cs ih =>
    intro b hb
    simp only [utf8Encode, List.mem_append] at hb
    rcases hb with hb | hb
    · exact encChar_byte c b hb
    · exact ih b hb

-- one character from each of the four ranges, and the range borders
example : utf8Encode [Char.ofNat 0x41, Char.ofNat 0xE9, Char.ofNat 0x20AC, Char.ofNat 0x1F600] =
    [0x41, 0xC3, 0xA9, 0xE2, 0x82, 0xAC, 0xF0, 0x9F, 0x98, 0x80] := by decide
example : utf8Encode [Char.ofNat 0x7F, Char.ofNat 0x80, Char.ofNat 0x7FF, Char.ofNat 0x800,
      Char.ofNat 0xD7FF, Char.ofNat 0xE000, Char.ofNat 0xFFFF, Char.ofNat 0x10000, Char.ofNat 0x10FFFF] =
    [0x7F, 0xC2, 0x80, 0xDF, 0xBF, 0xE0, 0xA0, 0x80, 0xED, 0x9F, 0xBF, 0xEE, 0x80, 0x80,
     0xEF, 0xBF, 0xBF, 0xF0, 0x90, 0x80, 0x80, 0xF4, 0x8F, 0xBF, 0xBF] := by decide

/-- What a client sends is what the parser receives: `s` (no `'\n'`; it MAY end in `'\r'`)
    sent as UTF-8 + CRLF, in any chunking, with `(utf8Encode s).length + 1 ≤ max` (finding
    `cr_counts`), arrives as exactly `line s`. -/
theorem wire_roundtrip (max : Nat) (s : Str) (chunks : List (List Nat))
    (hc : chunks.flatten = utf8Encode s ++ [13, 10])
    (hnl : '\n' ∉ s) (hlen : (utf8Encode s).length + 1 ≤ max) :
    codecRun max chunks = [.line s] := by
  rw [line_within_limit_delivered_crlf max chunks (utf8Encode s) [] s (by simp [hc])
    (utf8Encode_no_nl hnl) hlen (utf8_roundtrip s)]
  rfl

/-- the single-chunk instance asked for -/
theorem wire_roundtrip_one (max : Nat) (s : Str) (hnl : '\n' ∉ s)
    (hlen : (utf8Encode s).length + 1 ≤ max) :
    codecRun max [utf8Encode s ++ [13, 10]] = [.line s] :=
  wire_roundtrip max s _ (by simp) hnl hlen

/-- LF-only termination: `max` payload bytes allowed, but `s` must not end in `'\r'`. -/
theorem wire_roundtrip_lf (max : Nat) (s : Str) (chunks : List (List Nat))
    (hc : chunks.flatten = utf8Encode s ++ [10])
    (hnl : '\n' ∉ s) (hcr : s.getLast? ≠ some '\r') (hlen : (utf8Encode s).length ≤ max) :
    codecRun max chunks = [.line s] := by
  rw [line_within_limit_delivered_lf max chunks (utf8Encode s) [] s (by simp [hc])
    (utf8Encode_no_nl hnl) hlen (utf8Encode_last hcr) (utf8_roundtrip s)]
  rfl

example : codecRun 5 [utf8Encode (str "né") ++ [13, 10]] = [.line (str "né")] :=
  wire_roundtrip_one 5 (str "né") (by decide) (by decide)

/-- finding `cr_counts`: the statement with `(utf8Encode s).length ≤ max` is FALSE for CRLF:
    5 payload bytes + CRLF with `max = 5` is `tooLong`; 4 payload bytes pass; with a bare LF
    5 pass and 6 do not. -/
theorem cr_counts :
    (utf8Encode (str "abcde")).length ≤ 5 ∧
    codecRun 5 [utf8Encode (str "abcde") ++ [13, 10]] = [.tooLong] ∧
    codecRun 5 [utf8Encode (str "abcd") ++ [13, 10]] = [.line (str "abcd")] ∧
    codecRun 5 [utf8Encode (str "abcde") ++ [10]] = [.line (str "abcde")] ∧
    codecRun 5 [utf8Encode (str "abcdef") ++ [10]] = [.tooLong] := by decide

/-- Encoder side: a message `s` (no `'\n'`) that the server emits as `s ++ "\r\n"` is re-read
    by a `LinesCodec` peer as exactly the one line `s`. -/
theorem emitted_one_line (max : Nat) (s : Str) (chunks : List (List Nat))
    (hc : chunks.flatten = utf8Encode (s ++ ['\r', '\n']))
    (hnl : '\n' ∉ s) (hlen : (utf8Encode s).length + 1 ≤ max) :
    codecRun max chunks = [.line s] :=
  wire_roundtrip max s chunks (by rw [hc, utf8Encode_append]; rfl) hnl hlen

/-- ... and a whole sequence of emitted messages, concatenated on the wire and cut into
    arbitrary chunks, is re-read as exactly that sequence of lines: every emitted line is ONE
    CRLF-terminated message. -/
theorem emitted_lines (max : Nat) (ss : List Str) (chunks : List (List Nat))
    (hc : chunks.flatten = utf8Encode (ss.map (· ++ ['\r', '\n'])).flatten)
    (hss : ∀ s ∈ ss, '\n' ∉ s ∧ (utf8Encode s).length + 1 ≤ max) :
    codecRun max chunks = ss.map .line := by
  have hflat : utf8Encode (ss.map (· ++ ['\r', '\n'])).flatten =
      ((ss.map (fun s => utf8Encode s ++ [13])).map (· ++ [10])).flatten ++ [] := by
    clear hc hss
    induction ss with
    | nil => rfl
    | cons s ss ih =>
      simp only [List.map_cons, List.flatten_cons, utf8Encode_append, ih]
      simp [utf8Encode, encChar]
  rw [lines_delivered max chunks (ss.map (fun s => utf8Encode s ++ [13])) [] (by rw [hc, hflat])]
  · rw [empty_stream max [[]] rfl, List.append_nil, List.map_map]
    apply List.map_congr_left
    intro s _
    simp [mkLine, chompCr_cr, utf8_roundtrip]
  · intro l hl
    obtain ⟨s, hs, rfl⟩ := List.mem_map.mp hl
    obtain ⟨h1, h2⟩ := hss s hs
    refine ⟨by simp [utf8Encode_no_nl h1], by simp; omega, ?_⟩
    simp [mkLine, chompCr_cr, utf8_roundtrip, isErr]

example : codecRun 9 [utf8Encode (str "PING x\r\n")] = [.line (str "PING x")] :=
  emitted_one_line 9 (str "PING x") _ rfl (by decide) (by decide)
example : codecRun 9 [utf8Encode (str "A b\r\nC"), utf8Encode (str " :d e\r\n")] =
    [.line (str "A b"), .line (str "C :d e")] :=
  emitted_lines 9 [str "A b", str "C :d e"] _ (by decide) (by decide)

/-! ## 4. Concrete boundary cases (`max = 5`), kernel-checked -/

-- a line of exactly `max` bytes (LF) is delivered; `max + 1` bytes is too long
example : codecRun 5 [[97, 98, 99, 100, 101, 10]] = [.line (str "abcde")] := by decide
example : codecRun 5 [[97, 98, 99, 100, 101, 102, 10]] = [.tooLong] := by decide
-- the same, delivered byte by byte / cut exactly at the limit
example : codecRun 5 [[97], [98], [99], [100], [101], [10]] = [.line (str "abcde")] := by decide
example : codecRun 5 [[97, 98, 99, 100, 101], [10]] = [.line (str "abcde")] := by decide
example : codecRun 5 [[97, 98, 99, 100, 101], [102], [10]] = [.tooLong] := by decide
-- `max` bytes including the CR
example : codecRun 5 [[97, 98, 99, 100, 13, 10]] = [.line (str "abcd")] := by decide
example : codecRun 5 [[97, 98, 99, 100, 101, 13, 10]] = [.tooLong] := by decide
-- CRLF split across chunks
example : codecRun 5 [[97, 98, 13], [10]] = [.line (str "ab")] := by decide
example : codecRun 5 [[97, 98], [13], [], [10]] = [.line (str "ab")] := by decide
-- three lines in one chunk
example : codecRun 5 [[97, 13, 10, 98, 10, 13, 10]] = [.line (str "a"), .line (str "b"), .line []] := by
  decide
-- an unterminated tail at EOF (after a good line): error, not a line
example : codecRun 5 [[97, 10, 98, 99]] = [.line (str "a"), .bytesRemaining] := by decide
example : codecRun 5 [[97, 10, 98, 99, 100, 101, 102, 103]] = [.line (str "a"), .tooLong] := by decide
-- nothing after an error is delivered
example : codecRun 5 [[0xFF, 10, 97, 10]] = [.badUtf8] := by decide
example : codecRun 5 [[97, 98, 99, 100, 101, 102, 10, 97, 10]] = [.tooLong] := by decide
-- multi-byte character cut in the middle by the chunking
example : codecRun 5 [[0xC3], [0xA9, 13, 10]] = [.line (str "é")] := by decide

end Irc.C13C
