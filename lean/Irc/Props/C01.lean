/-
  Property C01.  "When a registered client sends PRIVMSG or NOTICE, every distinct target that
  accepts the message causes exactly one copy to reach each other current member of that
  channel (for a channel target carrying a status prefix: each other member holding that
  status) or the one user currently owning that nickname, and no copy reaches anybody else,
  the sender included.  Each delivered copy is prefixed with the sender's current
  nick!user@host and carries the target and the text exactly as sent."

  Model: `Irc.dedup`, `Irc.specialRecipients`, `Irc.privmsgTarget`, `Irc.processPrivmsgNotice`.
  "A copy reaches user n" = an entry `(owner of n, line)` is appended to `Ctx.queued` (the mpsc
  queue of the connection that owns user `n`).  Helper lemmas: `Irc/Props/MsgLemmas.lean`;
  "accepts the message" is `C10.Spec.maySpeak` (proved equivalent to `canSend` in C10).

  Oddity (kept, it is what the Rust code does): a *nickname* target equal to the sender's own
  nick is delivered to the sender (the "one user currently owning that nickname" is the sender);
  only for channel targets the sender is excluded.  See the last example of section 4.
-/
import Irc.Props.MsgLemmas
import Irc.Props.C10
namespace Irc.C01
open Irc Irc.Reply

/-! ## 1. every distinct target once -/

theorem dedup_nodup (l : List Str) : (dedup l).Nodup := Msg.dedup_nodup l

theorem mem_dedup (a : Str) (l : List Str) : a ∈ dedup l ↔ a ∈ l := Msg.mem_dedup a l

/-- hence each given target is handled exactly once -/
theorem count_dedup (a : Str) (l : List Str) : (dedup l).count a = if a ∈ l then 1 else 0 := by
  rw [(dedup_nodup l).count]
  simp only [mem_dedup]

example : dedup [str "#a", str "bob", str "#a", str "#b", str "bob"] =
    [str "#a", str "bob", str "#b"] := by decide

/-! ## 2. vocabulary -/

/-- the connection that owns the user registered under nick `n` -/
def Spec.ownerOf (w : World) (n : Str) : Nat :=
  match Map.lookup n w.users with
  | some u => u.owner
  | none => 0

/-- the relayed line `:<source> PRIVMSG|NOTICE <target> :<text>` -/
def Spec.line (source : Str) (notice : Bool) (target text : Str) : Str :=
  str ":" ++ source ++ (if notice then str " NOTICE " else str " PRIVMSG ") ++ target ++
    str " :" ++ text

/-- member `m` holds one of the statuses named by the prefix of the target -/
def Spec.holdsStatus (tt : TargetType) (m : ChanUserModes) : Prop :=
  (tt.founder = true ∧ m.founder = true) ∨ (tt.prot = true ∧ m.prot = true) ∨
  (tt.oper = true ∧ m.operator = true) ∨ (tt.halfOper = true ∧ m.halfOper = true) ∨
  (tt.voice = true ∧ m.voice = true)

/-- the target carries no status prefix -/
def Spec.plain (tt : TargetType) : Prop :=
  tt.founder = false ∧ tt.prot = false ∧ tt.oper = false ∧ tt.halfOper = false ∧
  tt.voice = false

instance (tt : TargetType) (m : ChanUserModes) : Decidable (Spec.holdsStatus tt m) := by
  unfold Spec.holdsStatus; infer_instance

instance (tt : TargetType) : Decidable (Spec.plain tt) := by
  unfold Spec.plain; infer_instance

theorem Spec.line_eq (source : Str) (notice : Bool) (target text : Str) :
    Msg.msgLine source notice target text = Spec.line source notice target text := by
  rw [Msg.msgLine_eq]; rfl

/-! ## 3. channel targets -/

section
variable (cfg : Cfg) (c : Nat) (nick : Str) (notice : Bool) (text target : Str) (x : Ctx)

/-- An accepted channel target without status prefix: exactly one copy of the line is queued
    for every member of the channel other than the sender (in member order), nothing else is
    queued, nothing is written to the sender and the world is unchanged. -/
theorem plain_channel_recipients {C : Channel}
    (hc : (getPrivmsgTargetType target).1.channel = true)
    (hp : Spec.plain (getPrivmsgTargetType target).1)
    (hl : Map.lookup (getPrivmsgTargetType target).2 x.w.channels = some C)
    (hs : C10.Spec.maySpeak C nick (x.conn c).source)
    (hmem : ∀ n, Map.contains n C.users = true → Map.contains n x.w.users = true)
    (hnd : (Map.keys C.users).Nodup) :
    let recips := (Map.keys C.users).filter (· != nick)
    (privmsgTarget cfg c nick notice text target x).1.queued =
      x.queued ++ recips.map (fun n =>
        (Spec.ownerOf x.w n, Spec.line (x.conn c).source notice target text)) ∧
    (privmsgTarget cfg c nick notice text target x).1.w = x.w ∧
    (privmsgTarget cfg c nick notice text target x).1.direct = x.direct ∧
    (privmsgTarget cfg c nick notice text target x).2 = true ∧
    recips.Nodup ∧
    (∀ n, n ∈ recips ↔ (∃ m, Map.lookup n C.users = some m) ∧ n ≠ nick) := by
  intro recips
  have hs' := (C10.canSend_iff _ _ _).mpr hs
  obtain ⟨h1, h2, h3, h4, h5⟩ := hp
  have hr : Msg.chanRcpts (getPrivmsgTargetType target).1 C nick = recips := by
    simp [Msg.chanRcpts, h1, h2, h3, h4, h5, recips]
  have hknown : ∀ n ∈ recips, Map.contains n x.w.users = true := fun n hn =>
    hmem n ((Map.contains_iff _ _).mpr ((Msg.mem_plainRcpts C nick n).mp hn).1)
  rw [Msg.privmsgTarget_chan_ok cfg c nick notice text target x hc hl hs', hr]
  refine ⟨?_, Msg.foldl_send_w_of_known _ _ _ _ hknown, Msg.foldl_send_direct _ _ _ _, rfl,
    hnd.filter _, Msg.mem_plainRcpts C nick⟩
  rw [Msg.foldl_send_queued, ← Spec.line_eq]
  congr 1
  apply Msg.deliver_eq_map
  intro n hn
  obtain ⟨u, hu⟩ := (Map.contains_iff _ _).mp (hknown n hn)
  exact ⟨u, hu, by simp [Spec.ownerOf, hu]⟩

/-- who the recipients of a status-prefixed target are: the members other than the sender
    holding (at least) one of the named statuses; each of them once, even when it holds
    several of the named statuses. -/
theorem special_recipients_spec (tt : TargetType) (C : Channel) (nick : Str) (h : RankMirror C) :
    (∀ n, n ∈ specialRecipients tt C nick ↔
      n ≠ nick ∧ ∃ m, Map.lookup n C.users = some m ∧ Spec.holdsStatus tt m) ∧
    (specialRecipients tt C nick).Nodup :=
  ⟨Msg.mem_specialRecipients tt C nick h, Msg.specialRecipients_nodup tt C nick⟩

/-- An accepted channel target WITH a status prefix: exactly one copy for every element of
    `specialRecipients` (characterised by `special_recipients_spec`), nothing else. -/
theorem status_channel_recipients {C : Channel}
    (hc : (getPrivmsgTargetType target).1.channel = true)
    (hp : ¬ Spec.plain (getPrivmsgTargetType target).1)
    (hl : Map.lookup (getPrivmsgTargetType target).2 x.w.channels = some C)
    (hs : C10.Spec.maySpeak C nick (x.conn c).source)
    (hmem : ∀ n, Map.contains n C.users = true → Map.contains n x.w.users = true)
    (hrm : RankMirror C) :
    let recips := specialRecipients (getPrivmsgTargetType target).1 C nick
    (privmsgTarget cfg c nick notice text target x).1.queued =
      x.queued ++ recips.map (fun n =>
        (Spec.ownerOf x.w n, Spec.line (x.conn c).source notice target text)) ∧
    (privmsgTarget cfg c nick notice text target x).1.w = x.w ∧
    (privmsgTarget cfg c nick notice text target x).1.direct = x.direct ∧
    (privmsgTarget cfg c nick notice text target x).2 = true ∧
    recips.Nodup ∧
    (∀ n, n ∈ recips ↔ n ≠ nick ∧ ∃ m, Map.lookup n C.users = some m ∧
        Spec.holdsStatus (getPrivmsgTargetType target).1 m) := by
  intro recips
  have hs' := (C10.canSend_iff _ _ _).mpr hs
  have hr : Msg.chanRcpts (getPrivmsgTargetType target).1 C nick = recips := by
    unfold Msg.chanRcpts
    rw [if_pos]
    unfold Spec.plain at hp
    revert hp
    cases (getPrivmsgTargetType target).1.founder <;> cases (getPrivmsgTargetType target).1.prot <;>
      cases (getPrivmsgTargetType target).1.oper <;>
      cases (getPrivmsgTargetType target).1.halfOper <;>
      cases (getPrivmsgTargetType target).1.voice <;> simp
  have hspec := Msg.mem_specialRecipients (getPrivmsgTargetType target).1 C nick hrm
  have hknown : ∀ n ∈ recips, Map.contains n x.w.users = true := fun n hn => by
    obtain ⟨_, m, hm, _⟩ := (hspec n).mp hn
    exact hmem n ((Map.contains_iff _ _).mpr ⟨m, hm⟩)
  rw [Msg.privmsgTarget_chan_ok cfg c nick notice text target x hc hl hs', hr]
  refine ⟨?_, Msg.foldl_send_w_of_known _ _ _ _ hknown, Msg.foldl_send_direct _ _ _ _, rfl,
    Msg.specialRecipients_nodup _ _ _, hspec⟩
  rw [Msg.foldl_send_queued, ← Spec.line_eq]
  congr 1
  apply Msg.deliver_eq_map
  intro n hn
  obtain ⟨u, hu⟩ := (Map.contains_iff _ _).mp (hknown n hn)
  exact ⟨u, hu, by simp [Spec.ownerOf, hu]⟩

/-! ## 4. nickname targets -/

/-- A nickname target that is a registered user: exactly one line is queued, to the connection
    owning that user; nothing else is queued and the world is unchanged.  (Direct output: for
    NOTICE none, for PRIVMSG only the away text, see `C10.away_reply`.) -/
theorem nick_target_recipient {u : User}
    (hc : (getPrivmsgTargetType target).1.channel = false)
    (hl : Map.lookup target x.w.users = some u) :
    (privmsgTarget cfg c nick notice text target x).1.queued =
      x.queued ++ [(u.owner, Spec.line (x.conn c).source notice target text)] ∧
    (privmsgTarget cfg c nick notice text target x).1.w = x.w ∧
    (privmsgTarget cfg c nick notice text target x).2 = true := by
  cases notice
  · obtain ⟨h1, h2, h3, _⟩ := C10.away_reply cfg c nick text target x hc hl
    exact ⟨h1, h2, h3⟩
  · obtain ⟨h1, h2, h3, _⟩ := C10.notice_to_user cfg c nick text target x hc hl
    exact ⟨h1, h2, h3⟩

/-- A nickname target that is not a registered user: nothing is queued. -/
theorem nick_target_unknown
    (hc : (getPrivmsgTargetType target).1.channel = false)
    (hl : Map.lookup target x.w.users = none) :
    (privmsgTarget cfg c nick notice text target x).1.queued = x.queued :=
  (C10.unknown_nick cfg c nick notice text target x hc hl).1

end

/-! ## 5. the whole command -/

section
variable (cfg : Cfg) (c : Nat) (targets : List Str) (text : Str) (notice : Bool) (x : Ctx)

/-- `processPrivmsgNotice` only queues lines and writes replies: every data field of the world
    is unchanged, for EVERY context (no invariant needed).  The only field that can change is
    the sticky `panicked` flag - see `world_unchanged` for when it does not. -/
theorem nothing_else_changes :
    (processPrivmsgNotice cfg c targets text notice x).w.users = x.w.users ∧
    (processPrivmsgNotice cfg c targets text notice x).w.channels = x.w.channels ∧
    (processPrivmsgNotice cfg c targets text notice x).w.wallops = x.w.wallops ∧
    (processPrivmsgNotice cfg c targets text notice x).w.invisibleCount = x.w.invisibleCount ∧
    (processPrivmsgNotice cfg c targets text notice x).w.operatorsCount = x.w.operatorsCount ∧
    (processPrivmsgNotice cfg c targets text notice x).w.maxUsers = x.w.maxUsers ∧
    (processPrivmsgNotice cfg c targets text notice x).w.histories = x.w.histories ∧
    (processPrivmsgNotice cfg c targets text notice x).w.conns = x.w.conns ∧
    (processPrivmsgNotice cfg c targets text notice x).w.connsCount = x.w.connsCount ∧
    (processPrivmsgNotice cfg c targets text notice x).w.srvQuit = x.w.srvQuit ∧
    (processPrivmsgNotice cfg c targets text notice x).w.cmdCounts = x.w.cmdCounts := by
  have h := Msg.ppn_sameData cfg c text notice targets x
  exact ⟨h.users, h.channels, h.wallops, h.invisibleCount, h.operatorsCount, h.maxUsers,
    h.histories, h.conns, h.connsCount, h.srvQuit, h.cmdCounts⟩

/-- In a world satisfying the membership clauses of the invariant (`Msg.ChanInv`: members have
    unique keys, are registered users, rank lists mirror the member flags; all part of
    `InvCore`), for a registered sender, the world is not changed at all (in particular no
    `unwrap` site is hit). -/
theorem world_unchanged {nick : Str} (hI : Msg.ChanInv x.w) (hn : (x.conn c).nick = some nick)
    (hu : Map.contains nick x.w.users = true) :
    (processPrivmsgNotice cfg c targets text notice x).w = x.w :=
  Msg.ppn_w cfg c text notice targets x hI hn hu

theorem world_unchanged_inv {nick : Str} (hI : InvCore x.w) (hn : (x.conn c).nick = some nick)
    (hu : Map.contains nick x.w.users = true) :
    (processPrivmsgNotice cfg c targets text notice x).w = x.w :=
  world_unchanged cfg c targets text notice x (Msg.ChanInv.of_invCore hI) hn hu

/-- Every line queued by the command starts with `:` + the sender's current source + space,
    followed by the command word, the target (one of the given ones) and the text, exactly. -/
theorem source_is_senders :
    ∃ q, (processPrivmsgNotice cfg c targets text notice x).queued = x.queued ++ q ∧
      ∀ e ∈ q, ∃ t ∈ targets, e.2 = Spec.line (x.conn c).source notice t text ∧
        e.2 = ':' :: ((x.conn c).source ++ ' ' ::
          ((if notice = true then str "NOTICE " else str "PRIVMSG ") ++ t ++ str " :" ++ text)) := by
  cases hn : (x.conn c).nick with
  | none => exact ⟨[], by rw [Msg.ppn_queued_none cfg c text notice targets x hn]; simp, by simp⟩
  | some nick =>
    refine ⟨_, Msg.ppn_queued cfg c text notice targets x hn, ?_⟩
    intro e he
    rw [List.mem_flatMap] at he
    obtain ⟨t, ht, he⟩ := he
    obtain ⟨n, u, _, _, rfl⟩ := Msg.mem_deliver he
    exact ⟨t, (mem_dedup t targets).mp ht, Spec.line_eq _ _ _ _, rfl⟩

/-- who receives a copy for target `target`: specification over `Map.lookup` only. -/
def Spec.receives (w : World) (nick source target n : Str) : Prop :=
  if (getPrivmsgTargetType target).1.channel = true then
    ∃ C, Map.lookup (getPrivmsgTargetType target).2 w.channels = some C ∧
      C10.Spec.maySpeak C nick source ∧ n ≠ nick ∧
      ∃ m, Map.lookup n C.users = some m ∧
        (Spec.plain (getPrivmsgTargetType target).1 ∨
          Spec.holdsStatus (getPrivmsgTargetType target).1 m)
  else n = target ∧ ∃ u, Map.lookup n w.users = some u

/-- THE statement of C01 for the whole command, in a world satisfying the membership clauses of
    the invariant (`Msg.ChanInv`, implied by `InvCore`): the lines
    queued are, for each distinct target in turn, exactly one copy of that target's line for
    each user that `Spec.receives` it (`rc t` lists them without repetition), addressed to the
    connection owning that user - and nothing else. -/
theorem delivered_exactly {nick : Str} (hI : Msg.ChanInv x.w) (hn : (x.conn c).nick = some nick) :
    ∃ rc : Str → List Str,
      (∀ t, (rc t).Nodup ∧ ∀ n, n ∈ rc t ↔ Spec.receives x.w nick (x.conn c).source t n) ∧
      (processPrivmsgNotice cfg c targets text notice x).queued =
        x.queued ++ (dedup targets).flatMap (fun t => (rc t).map (fun n =>
          (Spec.ownerOf x.w n, Spec.line (x.conn c).source notice t text))) := by
  refine ⟨fun t => (Msg.rcptsOf x.w nick (x.conn c).source t).filter
      (fun n => Map.contains n x.w.users), ?_, ?_⟩
  · intro t
    unfold Msg.rcptsOf Spec.receives
    by_cases hc : (getPrivmsgTargetType t).1.channel = true
    · simp only [hc, if_true]
      cases hl : Map.lookup (getPrivmsgTargetType t).2 x.w.channels with
      | none => simp
      | some C =>
        by_cases hs : canSend C nick (x.conn c).source = true
        · have hs' := (C10.canSend_iff _ _ _).mp hs
          simp only [hs, if_true]
          have hrm := hI.rankMirror _ C hl
          have hknown : ∀ n, n ∈ Msg.chanRcpts (getPrivmsgTargetType t).1 C nick →
              Map.contains n x.w.users = true := fun n h =>
            hI.memberIsUser _ C n hl (Msg.chanRcpts_member _ C nick hrm n h)
          refine ⟨(Msg.chanRcpts_nodup _ C nick (hI.membersNodup _ C hl)).filter _, ?_⟩
          intro n
          rw [List.mem_filter]
          constructor
          · rintro ⟨h, _⟩
            refine ⟨C, rfl, hs', ?_⟩
            unfold Msg.chanRcpts at h
            split at h
            · rename_i hsp
              obtain ⟨h1, m, hm, hh⟩ := (Msg.mem_specialRecipients _ C nick hrm n).mp h
              exact ⟨h1, m, hm, Or.inr hh⟩
            · rename_i hsp
              obtain ⟨⟨m, hm⟩, h1⟩ := (Msg.mem_plainRcpts C nick n).mp h
              refine ⟨h1, m, hm, Or.inl ?_⟩
              simpa [Spec.plain, and_assoc] using hsp
          · rintro ⟨C', hC', _, h1, m, hm, hh⟩
            cases hC'
            have hin : n ∈ Msg.chanRcpts (getPrivmsgTargetType t).1 C nick := by
              unfold Msg.chanRcpts
              split
              · rename_i hsp
                rcases hh with hp | hh
                · obtain ⟨a1, a2, a3, a4, a5⟩ := hp; simp [a1, a2, a3, a4, a5] at hsp
                · exact (Msg.mem_specialRecipients _ C nick hrm n).mpr ⟨h1, m, hm, hh⟩
              · exact (Msg.mem_plainRcpts C nick n).mpr ⟨⟨m, hm⟩, h1⟩
            exact ⟨hin, hknown n hin⟩
        · have hs' : ¬ C10.Spec.maySpeak C nick (x.conn c).source :=
            fun h => hs ((C10.canSend_iff _ _ _).mpr h)
          have hs2 : canSend C nick (x.conn c).source = false := by simpa using hs
          simp only [hs2, Bool.false_eq_true, if_false]
          refine ⟨by simp, fun n => ?_⟩
          constructor
          · intro h; simp at h
          · rintro ⟨C', hC', h, _⟩
            cases hC'; exact absurd h hs'
    · have hc' : (getPrivmsgTargetType t).1.channel = false := by simpa using hc
      simp only [hc', Bool.false_eq_true, if_false]
      refine ⟨(by simp : [t].Nodup).filter _, fun n => ?_⟩
      simp only [List.mem_filter, List.mem_singleton, Map.contains_iff]
  · rw [Msg.ppn_queued cfg c text notice targets x hn]
    congr 1
    have hf : ∀ t, Msg.deliver x.w (Msg.msgLine (x.conn c).source notice t text)
          (Msg.rcptsOf x.w nick (x.conn c).source t) =
        ((Msg.rcptsOf x.w nick (x.conn c).source t).filter
          (fun n => Map.contains n x.w.users)).map (fun n =>
            (Spec.ownerOf x.w n, Spec.line (x.conn c).source notice t text)) := by
      intro t
      rw [Spec.line_eq]
      apply Msg.deliver_eq_filter_map
      intro n u hu
      simp [Spec.ownerOf, hu]
    simp only [hf]

theorem delivered_exactly_inv {nick : Str} (hI : InvCore x.w) (hn : (x.conn c).nick = some nick) :
    ∃ rc : Str → List Str,
      (∀ t, (rc t).Nodup ∧ ∀ n, n ∈ rc t ↔ Spec.receives x.w nick (x.conn c).source t n) ∧
      (processPrivmsgNotice cfg c targets text notice x).queued =
        x.queued ++ (dedup targets).flatMap (fun t => (rc t).map (fun n =>
          (Spec.ownerOf x.w n, Spec.line (x.conn c).source notice t text))) :=
  delivered_exactly cfg c targets text notice x (Msg.ChanInv.of_invCore hI) hn

end

/-- distinct users are owned by distinct connections (clauses `connsNodup` and `userOwned` of
    the invariant): so "one copy per recipient user" is also "one copy per receiving
    connection" within one target. -/
theorem one_copy_per_connection {w : World} (hnc : (w.conns.map (·.id)).Nodup)
    (hown : ∀ n u, Map.lookup n w.users = some u →
      ∃ cn, cn ∈ w.conns ∧ cn.id = u.owner ∧ cn.nick = some n)
    (rc : List Str) (hnd : rc.Nodup)
    (hk : ∀ n ∈ rc, ∃ u, Map.lookup n w.users = some u) :
    (rc.map (Spec.ownerOf w)).Nodup := by
  induction rc with
  | nil => exact List.nodup_nil
  | cons a rc ih =>
    rw [List.nodup_cons] at hnd
    rw [List.map_cons, List.nodup_cons]
    refine ⟨?_, ih hnd.2 (fun n hn => hk n (List.mem_cons_of_mem _ hn))⟩
    intro hmem
    obtain ⟨b, hb, hob⟩ := List.mem_map.mp hmem
    obtain ⟨u, hu⟩ := hk a List.mem_cons_self
    obtain ⟨u', hu'⟩ := hk b (List.mem_cons_of_mem _ hb)
    have : b = a := Msg.owner_injective hnc hown hu' hu
      (by simpa [Spec.ownerOf, hu, hu'] using hob)
    exact hnd.1 (this ▸ hb)

theorem one_copy_per_connection_inv {w : World} (hI : InvCore w) (rc : List Str) (hnd : rc.Nodup)
    (hk : ∀ n ∈ rc, ∃ u, Map.lookup n w.users = some u) :
    (rc.map (Spec.ownerOf w)).Nodup :=
  one_copy_per_connection hI.connsNodup
    (fun n u h => by
      obtain ⟨cn, h1, h2, _, h3⟩ := hI.userOwned n u h
      exact ⟨cn, h1, h2, h3⟩) rc hnd hk

example : (Msg.Demo.w.conns.map (·.id)).Nodup ∧
    ∀ n u, Map.lookup n Msg.Demo.w.users = some u →
      ∃ cn, cn ∈ Msg.Demo.w.conns ∧ cn.id = u.owner ∧ cn.nick = some n :=
  ⟨by decide, fun n u h =>
    (by decide : ∀ p ∈ Msg.Demo.w.users, ∃ cn, cn ∈ Msg.Demo.w.conns ∧ cn.id = p.2.owner ∧
      cn.nick = some p.1) (n, u) (Msg.lookup_mem h)⟩

/-! ## 6. concrete checks on the demo world (`Msg.Demo`: alice = founder+operator of `#c`,
    bob = voice, carol = no rank; connections 1, 2, 3) -/

section
open Msg.Demo

/-- the hypotheses of the theorems above hold in the demo world -/
example : Msg.ChanInv x.w := chanInv
example : RankMirror chanC := rankMirrorC
example : (x.conn 2).nick = some (str "bob") ∧ Map.contains (str "bob") x.w.users = true := by
  decide
example : (getPrivmsgTargetType (str "#c")).1.channel = true ∧
    (getPrivmsgTargetType (str "#c")).1.founder = false ∧
    Map.lookup (getPrivmsgTargetType (str "#c")).2 x.w.channels = some chanC ∧
    canSend chanC (str "alice") (x.conn 1).source = true := by decide
example : Spec.plain (getPrivmsgTargetType (str "#c")).1 := by decide
example : ¬ Spec.plain (getPrivmsgTargetType (str "~@#c")).1 := by decide

/-- plain channel target: every other member once, not the sender -/
example : (privmsgTarget cfg 1 (str "alice") false (str "hi there") (str "#c") x).1.queued =
    [(2, str ":alice!~u@h PRIVMSG #c :hi there"), (3, str ":alice!~u@h PRIVMSG #c :hi there")] := by
  decide

/-- `~@#c` (founders and operators): alice is both - she gets exactly ONE copy -/
example : specialRecipients (getPrivmsgTargetType (str "~@#c")).1 chanC (str "bob") =
    [str "alice"] := by decide
example : (privmsgTarget cfg 2 (str "bob") false (str "hi") (str "~@#c") x).1.queued =
    [(1, str ":bob!~u@h PRIVMSG ~@#c :hi")] := by decide
/-- the same from alice herself: nobody (the sender is excluded) -/
example : (privmsgTarget cfg 1 (str "alice") true (str "hi") (str "~@#c") x).1.queued = [] := by
  decide
/-- `+#c`: the voiced members only; `@+#c`: operators and voiced -/
example : (privmsgTarget cfg 1 (str "alice") true (str "hi") (str "+#c") x).1.queued =
    [(2, str ":alice!~u@h NOTICE +#c :hi")] := by decide
example : (privmsgTarget cfg 3 (str "carol") false (str "hi") (str "@+#c") x).1.queued =
    [(1, str ":carol!~u@h PRIVMSG @+#c :hi"), (2, str ":carol!~u@h PRIVMSG @+#c :hi")] := by decide

/-- nickname target -/
example : (privmsgTarget cfg 1 (str "alice") false (str "a : b") (str "bob") x).1.queued =
    [(2, str ":alice!~u@h PRIVMSG bob :a : b")] := by decide

/-- several targets, one of them twice, one rejected (`#m`: bob is banned and not a member), one
    unknown: each accepted distinct target is served once, in order -/
example : (processPrivmsgNotice cfg 2 [str "#c", str "alice", str "#c", str "#m", str "zed"]
      (str "yo") false x).queued =
    [(1, str ":bob!~u@h PRIVMSG #c :yo"), (3, str ":bob!~u@h PRIVMSG #c :yo"),
     (1, str ":bob!~u@h PRIVMSG alice :yo")] := by decide

/-- oddity: a nickname target equal to the sender's own nick IS delivered to the sender -/
example : (processPrivmsgNotice cfg 2 [str "bob"] (str "yo") false x).queued =
    [(2, str ":bob!~u@h PRIVMSG bob :yo")] := by decide

end

end Irc.C01
