/-
  C13 (numeric replies) — 2. the shape lemma of every reply definition of `Irc/Reply.lean`
  (all 100 names of `Reply.allNames`, in that order).

  Written out by a script from the SIGNATURES of `Irc/Reply.lean` (definition name, binders); the
  numeric in each statement is the three digits that end the definition's name.  Every proof is
  the uniform tactic `reply_shape R` of `C13RepliesLemmas.lean` (for the definitions that start
  with a `match` on an optional argument: after `cases` on it), which evaluates only
  "first literal = NNN ++ ' '" and "the literal after `client` starts with ' '".  No statement
  and no proof mentions any human-readable text.
-/
import Irc.Props.C13RepliesLemmas
namespace Irc.C13
open Irc Irc.Reply

theorem RplWelcome001_shape (client networkname nick user host : Str) :
    NumericShape (str "001") client (RplWelcome001 client networkname nick user host) := by
  reply_shape RplWelcome001

theorem RplYourHost002_shape (client servername version : Str) :
    NumericShape (str "002") client (RplYourHost002 client servername version) := by
  reply_shape RplYourHost002

theorem RplCreated003_shape (client datetime : Str) :
    NumericShape (str "003") client (RplCreated003 client datetime) := by
  reply_shape RplCreated003

theorem RplMyInfo004_shape (client servername version avail_user_modes avail_chmodes : Str) (avail_chmodes_with_params : Option Str) :
    NumericShape (str "004") client (RplMyInfo004 client servername version avail_user_modes avail_chmodes avail_chmodes_with_params) := by
  cases avail_chmodes_with_params <;> reply_shape RplMyInfo004

theorem RplISupport005_shape (client tokens : Str) :
    NumericShape (str "005") client (RplISupport005 client tokens) := by
  reply_shape RplISupport005

theorem RplStatsCommands212_shape (client command : Str) (count : Nat) :
    NumericShape (str "212") client (RplStatsCommands212 client command count) := by
  reply_shape RplStatsCommands212

theorem RplEndOfStats219_shape (client : Str) (stat : Char) :
    NumericShape (str "219") client (RplEndOfStats219 client stat) := by
  reply_shape RplEndOfStats219

theorem RplUModeIs221_shape (client user_modes : Str) :
    NumericShape (str "221") client (RplUModeIs221 client user_modes) := by
  reply_shape RplUModeIs221

theorem RplStatsUptime242_shape (client : Str) (seconds : Nat) :
    NumericShape (str "242") client (RplStatsUptime242 client seconds) := by
  reply_shape RplStatsUptime242

theorem RplLUserClient251_shape (client : Str) (users_num inv_users_num servers_num : Nat) :
    NumericShape (str "251") client (RplLUserClient251 client users_num inv_users_num servers_num) := by
  reply_shape RplLUserClient251

theorem RplLUserOp252_shape (client : Str) (ops_num : Nat) :
    NumericShape (str "252") client (RplLUserOp252 client ops_num) := by
  reply_shape RplLUserOp252

theorem RplLUserUnknown253_shape (client : Str) (conns_num : Nat) :
    NumericShape (str "253") client (RplLUserUnknown253 client conns_num) := by
  reply_shape RplLUserUnknown253

theorem RplLUserChannels254_shape (client : Str) (channels_num : Nat) :
    NumericShape (str "254") client (RplLUserChannels254 client channels_num) := by
  reply_shape RplLUserChannels254

theorem RplLUserMe255_shape (client : Str) (clients_num servers_num : Nat) :
    NumericShape (str "255") client (RplLUserMe255 client clients_num servers_num) := by
  reply_shape RplLUserMe255

theorem RplAdminMe256_shape (client server : Str) :
    NumericShape (str "256") client (RplAdminMe256 client server) := by
  reply_shape RplAdminMe256

theorem RplAdminLoc1257_shape (client info : Str) :
    NumericShape (str "257") client (RplAdminLoc1257 client info) := by
  reply_shape RplAdminLoc1257

theorem RplAdminLoc2258_shape (client info : Str) :
    NumericShape (str "258") client (RplAdminLoc2258 client info) := by
  reply_shape RplAdminLoc2258

theorem RplAdminEmail259_shape (client email : Str) :
    NumericShape (str "259") client (RplAdminEmail259 client email) := by
  reply_shape RplAdminEmail259

theorem RplLocalUsers265_shape (client : Str) (clients_num max_clients_num : Nat) :
    NumericShape (str "265") client (RplLocalUsers265 client clients_num max_clients_num) := by
  reply_shape RplLocalUsers265

theorem RplGlobalUsers266_shape (client : Str) (clients_num max_clients_num : Nat) :
    NumericShape (str "266") client (RplGlobalUsers266 client clients_num max_clients_num) := by
  reply_shape RplGlobalUsers266

theorem RplAway301_shape (client nick message : Str) :
    NumericShape (str "301") client (RplAway301 client nick message) := by
  reply_shape RplAway301

theorem RplUserHost302_shape (client : Str) (replies : List Str) :
    NumericShape (str "302") client (RplUserHost302 client replies) := by
  reply_shape RplUserHost302

theorem RplIson303_shape (client : Str) (nicknames : List Str) :
    NumericShape (str "303") client (RplIson303 client nicknames) := by
  reply_shape RplIson303

theorem RplUnAway305_shape (client : Str) :
    NumericShape (str "305") client (RplUnAway305 client) := by
  reply_shape RplUnAway305

theorem RplNowAway306_shape (client : Str) :
    NumericShape (str "306") client (RplNowAway306 client) := by
  reply_shape RplNowAway306

theorem RplWhoReply352_shape (client channel username host server nick flags : Str) (hopcount : Nat) (realname : Str) :
    NumericShape (str "352") client (RplWhoReply352 client channel username host server nick flags hopcount realname) := by
  reply_shape RplWhoReply352

theorem RplEndOfWho315_shape (client mask : Str) :
    NumericShape (str "315") client (RplEndOfWho315 client mask) := by
  reply_shape RplEndOfWho315

theorem RplWhoIsRegNick307_shape (client nick : Str) :
    NumericShape (str "307") client (RplWhoIsRegNick307 client nick) := by
  reply_shape RplWhoIsRegNick307

theorem RplWhoIsUser311_shape (client nick username host realname : Str) :
    NumericShape (str "311") client (RplWhoIsUser311 client nick username host realname) := by
  reply_shape RplWhoIsUser311

theorem RplWhoIsServer312_shape (client nick server server_info : Str) :
    NumericShape (str "312") client (RplWhoIsServer312 client nick server server_info) := by
  reply_shape RplWhoIsServer312

theorem RplWhoIsOperator313_shape (client nick : Str) :
    NumericShape (str "313") client (RplWhoIsOperator313 client nick) := by
  reply_shape RplWhoIsOperator313

theorem RplWhoWasUser314_shape (client nick username host realname : Str) :
    NumericShape (str "314") client (RplWhoWasUser314 client nick username host realname) := by
  reply_shape RplWhoWasUser314

theorem RplwhoIsIdle317_shape (client nick : Str) (secs signon : Nat) :
    NumericShape (str "317") client (RplwhoIsIdle317 client nick secs signon) := by
  reply_shape RplwhoIsIdle317

theorem RplEndOfWhoIs318_shape (client nick : Str) :
    NumericShape (str "318") client (RplEndOfWhoIs318 client nick) := by
  reply_shape RplEndOfWhoIs318

theorem RplWhoIsChannels319_shape (client nick : Str) (channels : List (Option Str × Str)) :
    NumericShape (str "319") client (RplWhoIsChannels319 client nick channels) := by
  reply_shape RplWhoIsChannels319

theorem RplListStart321_shape (client : Str) :
    NumericShape (str "321") client (RplListStart321 client) := by
  reply_shape RplListStart321

theorem RplList322_shape (client channel : Str) (client_count : Nat) (topic : Str) :
    NumericShape (str "322") client (RplList322 client channel client_count topic) := by
  reply_shape RplList322

theorem RplListEnd323_shape (client : Str) :
    NumericShape (str "323") client (RplListEnd323 client) := by
  reply_shape RplListEnd323

theorem RplChannelModeIs324_shape (client channel modestring : Str) :
    NumericShape (str "324") client (RplChannelModeIs324 client channel modestring) := by
  reply_shape RplChannelModeIs324

theorem RplCreationTime329_shape (client channel : Str) (creation_time : Nat) :
    NumericShape (str "329") client (RplCreationTime329 client channel creation_time) := by
  reply_shape RplCreationTime329

theorem RplNoTopic331_shape (client channel : Str) :
    NumericShape (str "331") client (RplNoTopic331 client channel) := by
  reply_shape RplNoTopic331

theorem RplTopic332_shape (client channel topic : Str) :
    NumericShape (str "332") client (RplTopic332 client channel topic) := by
  reply_shape RplTopic332

theorem RplTopicWhoTime333_shape (client channel nick : Str) (setat : Nat) :
    NumericShape (str "333") client (RplTopicWhoTime333 client channel nick setat) := by
  reply_shape RplTopicWhoTime333

theorem RplInviting341_shape (client nick channel : Str) :
    NumericShape (str "341") client (RplInviting341 client nick channel) := by
  reply_shape RplInviting341

theorem RplInviteList346_shape (client channel mask : Str) :
    NumericShape (str "346") client (RplInviteList346 client channel mask) := by
  reply_shape RplInviteList346

theorem RplEndOfInviteList347_shape (client channel : Str) :
    NumericShape (str "347") client (RplEndOfInviteList347 client channel) := by
  reply_shape RplEndOfInviteList347

theorem RplExceptList348_shape (client channel mask : Str) :
    NumericShape (str "348") client (RplExceptList348 client channel mask) := by
  reply_shape RplExceptList348

theorem RplEndOfExceptList349_shape (client channel : Str) :
    NumericShape (str "349") client (RplEndOfExceptList349 client channel) := by
  reply_shape RplEndOfExceptList349

theorem RplVersion351_shape (client version server comments : Str) :
    NumericShape (str "351") client (RplVersion351 client version server comments) := by
  reply_shape RplVersion351

theorem RplNameReply353_shape (client symbol channel : Str) (replies : List (Str × Str)) :
    NumericShape (str "353") client (RplNameReply353 client symbol channel replies) := by
  reply_shape RplNameReply353

theorem RplEndOfNames366_shape (client channel : Str) :
    NumericShape (str "366") client (RplEndOfNames366 client channel) := by
  reply_shape RplEndOfNames366

theorem RplLinks364_shape (client mask server : Str) (hop_count : Nat) (server_info : Str) :
    NumericShape (str "364") client (RplLinks364 client mask server hop_count server_info) := by
  reply_shape RplLinks364

theorem RplEndOfLinks365_shape (client mask : Str) :
    NumericShape (str "365") client (RplEndOfLinks365 client mask) := by
  reply_shape RplEndOfLinks365

theorem RplBanList367_shape (client channel mask who : Str) (set_ts : Nat) :
    NumericShape (str "367") client (RplBanList367 client channel mask who set_ts) := by
  reply_shape RplBanList367

theorem RplEndOfBanList368_shape (client channel : Str) :
    NumericShape (str "368") client (RplEndOfBanList368 client channel) := by
  reply_shape RplEndOfBanList368

theorem RplEndOfWhoWas369_shape (client nick : Str) :
    NumericShape (str "369") client (RplEndOfWhoWas369 client nick) := by
  reply_shape RplEndOfWhoWas369

theorem RplInfo371_shape (client info : Str) :
    NumericShape (str "371") client (RplInfo371 client info) := by
  reply_shape RplInfo371

theorem RplEndOfInfo374_shape (client : Str) :
    NumericShape (str "374") client (RplEndOfInfo374 client) := by
  reply_shape RplEndOfInfo374

theorem RplMotdStart375_shape (client server : Str) :
    NumericShape (str "375") client (RplMotdStart375 client server) := by
  reply_shape RplMotdStart375

theorem RplMotd372_shape (client motd : Str) :
    NumericShape (str "372") client (RplMotd372 client motd) := by
  reply_shape RplMotd372

theorem RplEndOfMotd376_shape (client : Str) :
    NumericShape (str "376") client (RplEndOfMotd376 client) := by
  reply_shape RplEndOfMotd376

theorem RplWhoIsHost378_shape (client nick host_info : Str) :
    NumericShape (str "378") client (RplWhoIsHost378 client nick host_info) := by
  reply_shape RplWhoIsHost378

theorem RplWhoIsModes379_shape (client nick modes : Str) :
    NumericShape (str "379") client (RplWhoIsModes379 client nick modes) := by
  reply_shape RplWhoIsModes379

theorem RplYoureOper381_shape (client : Str) :
    NumericShape (str "381") client (RplYoureOper381 client) := by
  reply_shape RplYoureOper381

theorem RplTime391_shape (client server : Str) (timestamp : Nat) (ts_offset human_readable : Str) :
    NumericShape (str "391") client (RplTime391 client server timestamp ts_offset human_readable) := by
  reply_shape RplTime391

theorem ErrUnknownError400_shape (client command : Str) (subcommand : Option Str) (info : Str) :
    NumericShape (str "400") client (ErrUnknownError400 client command subcommand info) := by
  cases subcommand <;> reply_shape ErrUnknownError400

theorem ErrNoSuchNick401_shape (client nick : Str) :
    NumericShape (str "401") client (ErrNoSuchNick401 client nick) := by
  reply_shape ErrNoSuchNick401

theorem ErrNoSuchChannel403_shape (client channel : Str) :
    NumericShape (str "403") client (ErrNoSuchChannel403 client channel) := by
  reply_shape ErrNoSuchChannel403

theorem ErrCannotSendToChain404_shape (client channel : Str) :
    NumericShape (str "404") client (ErrCannotSendToChain404 client channel) := by
  reply_shape ErrCannotSendToChain404

theorem ErrTooManyChannels405_shape (client channel : Str) :
    NumericShape (str "405") client (ErrTooManyChannels405 client channel) := by
  reply_shape ErrTooManyChannels405

theorem ErrWasNoSuchNick406_shape (client nick : Str) :
    NumericShape (str "406") client (ErrWasNoSuchNick406 client nick) := by
  reply_shape ErrWasNoSuchNick406

theorem ErrInputTooLong417_shape (client : Str) :
    NumericShape (str "417") client (ErrInputTooLong417 client) := by
  reply_shape ErrInputTooLong417

theorem ErrUnknownCommand421_shape (client command : Str) :
    NumericShape (str "421") client (ErrUnknownCommand421 client command) := by
  reply_shape ErrUnknownCommand421

theorem ErrNicknameInUse433_shape (client nick : Str) :
    NumericShape (str "433") client (ErrNicknameInUse433 client nick) := by
  reply_shape ErrNicknameInUse433

theorem ErrUserNotInChannel441_shape (client nick channel : Str) :
    NumericShape (str "441") client (ErrUserNotInChannel441 client nick channel) := by
  reply_shape ErrUserNotInChannel441

theorem ErrNotOnChannel442_shape (client channel : Str) :
    NumericShape (str "442") client (ErrNotOnChannel442 client channel) := by
  reply_shape ErrNotOnChannel442

theorem ErrUserOnChannel443_shape (client nick channel : Str) :
    NumericShape (str "443") client (ErrUserOnChannel443 client nick channel) := by
  reply_shape ErrUserOnChannel443

theorem ErrNotRegistered451_shape (client : Str) :
    NumericShape (str "451") client (ErrNotRegistered451 client) := by
  reply_shape ErrNotRegistered451

theorem ErrNeedMoreParams461_shape (client command : Str) :
    NumericShape (str "461") client (ErrNeedMoreParams461 client command) := by
  reply_shape ErrNeedMoreParams461

theorem ErrAlreadyRegistered462_shape (client : Str) :
    NumericShape (str "462") client (ErrAlreadyRegistered462 client) := by
  reply_shape ErrAlreadyRegistered462

theorem ErrPasswdMismatch464_shape (client : Str) :
    NumericShape (str "464") client (ErrPasswdMismatch464 client) := by
  reply_shape ErrPasswdMismatch464

theorem ErrChannelIsFull471_shape (client channel : Str) :
    NumericShape (str "471") client (ErrChannelIsFull471 client channel) := by
  reply_shape ErrChannelIsFull471

theorem ErrUnknownMode472_shape (client : Str) (modechar : Char) (channel : Str) :
    NumericShape (str "472") client (ErrUnknownMode472 client modechar channel) := by
  reply_shape ErrUnknownMode472

theorem ErrInviteOnlyChan473_shape (client channel : Str) :
    NumericShape (str "473") client (ErrInviteOnlyChan473 client channel) := by
  reply_shape ErrInviteOnlyChan473

theorem ErrBannedFromChan474_shape (client channel : Str) :
    NumericShape (str "474") client (ErrBannedFromChan474 client channel) := by
  reply_shape ErrBannedFromChan474

theorem ErrBadChannelKey475_shape (client channel : Str) :
    NumericShape (str "475") client (ErrBadChannelKey475 client channel) := by
  reply_shape ErrBadChannelKey475

theorem ErrNoPrivileges481_shape (client : Str) :
    NumericShape (str "481") client (ErrNoPrivileges481 client) := by
  reply_shape ErrNoPrivileges481

theorem ErrChanOpPrivsNeeded482_shape (client channel : Str) :
    NumericShape (str "482") client (ErrChanOpPrivsNeeded482 client channel) := by
  reply_shape ErrChanOpPrivsNeeded482

theorem ErrCantKillServer483_shape (client : Str) :
    NumericShape (str "483") client (ErrCantKillServer483 client) := by
  reply_shape ErrCantKillServer483

theorem ErrYourConnRestricted484_shape (client : Str) :
    NumericShape (str "484") client (ErrYourConnRestricted484 client) := by
  reply_shape ErrYourConnRestricted484

theorem ErrNoOperHost491_shape (client : Str) :
    NumericShape (str "491") client (ErrNoOperHost491 client) := by
  reply_shape ErrNoOperHost491

theorem ErrUmodeUnknownFlag501_shape (client : Str) :
    NumericShape (str "501") client (ErrUmodeUnknownFlag501 client) := by
  reply_shape ErrUmodeUnknownFlag501

theorem ErrUsersDontMatch502_shape (client : Str) :
    NumericShape (str "502") client (ErrUsersDontMatch502 client) := by
  reply_shape ErrUsersDontMatch502

theorem ErrHelpNotFound524_shape (client subject : Str) :
    NumericShape (str "524") client (ErrHelpNotFound524 client subject) := by
  reply_shape ErrHelpNotFound524

theorem RplWhoIsSecure671_shape (client nick : Str) :
    NumericShape (str "671") client (RplWhoIsSecure671 client nick) := by
  reply_shape RplWhoIsSecure671

theorem ErrInvalidModeParam696_shape (client target : Str) (modechar : Char) (param description : Str) :
    NumericShape (str "696") client (ErrInvalidModeParam696 client target modechar param description) := by
  reply_shape ErrInvalidModeParam696

theorem RplHelpStart704_shape (client subject line : Str) :
    NumericShape (str "704") client (RplHelpStart704 client subject line) := by
  reply_shape RplHelpStart704

theorem RplHelpTxt705_shape (client subject line : Str) :
    NumericShape (str "705") client (RplHelpTxt705 client subject line) := by
  reply_shape RplHelpTxt705

theorem RplEndOfHelp706_shape (client subject line : Str) :
    NumericShape (str "706") client (RplEndOfHelp706 client subject line) := by
  reply_shape RplEndOfHelp706

theorem ErrCannotDoCommand972_shape (client : Str) :
    NumericShape (str "972") client (ErrCannotDoCommand972 client) := by
  reply_shape ErrCannotDoCommand972

end Irc.C13
