/-
  Helper lemmas for property C03 (registration gate, `authDecision`, `authenticate`).
-/
import Irc.Lemmas.Frame
import Irc.Props.C14
namespace Irc.C03
open Irc Irc.Reply

/-! ### looking up / replacing the acting connection -/

theorem conn?_id {w : World} {c : Nat} {cn : Conn} (h : w.conn? c = some cn) : cn.id = c := by
  unfold World.conn? at h
  have := List.find?_some h
  simpa using this

theorem conn?_mem {w : World} {c : Nat} {cn : Conn} (h : w.conn? c = some cn) : cn ∈ w.conns := by
  unfold World.conn? at h
  exact List.mem_of_find?_eq_some h

theorem conn_id (x : Ctx) (c : Nat) : (x.conn c).id = c := by
  unfold Ctx.conn
  cases h : x.w.conn? c with
  | none => rfl
  | some cn => exact conn?_id h

theorem conn?_setConn (w : World) (cn : Conn) (c : Nat) (h : cn.id = c) :
    (w.setConn cn).conn? c = (w.conn? c).map (fun _ => cn) := by
  unfold World.conn? World.setConn
  simp only
  induction w.conns with
  | nil => rfl
  | cons a l ih =>
    simp only [List.map_cons, List.find?_cons]
    by_cases ha : a.id = c
    · simp [ha, h]
    · have hne : (a.id == cn.id) = false := by rw [h]; simpa using ha
      have ha' : (a.id == c) = false := by simpa using ha
      rw [hne]
      simp only [Bool.false_eq_true, ↓reduceIte, ha']
      exact ih

theorem conn_setConn_live (x : Ctx) (cn : Conn) (c : Nat) (h : cn.id = c)
    (hl : (x.w.conn? c).isSome = true) : (x.setConn cn).conn c = cn := by
  unfold Ctx.conn
  rw [Ctx.setConn_w, conn?_setConn _ _ _ h]
  cases hc : x.w.conn? c with
  | none => simp [hc] at hl
  | some _ => rfl

theorem conn_setConn_dead (x : Ctx) (cn : Conn) (c : Nat) (h : cn.id = c)
    (hl : x.w.conn? c = none) : (x.setConn cn).conn c = Conn.new c [] := by
  unfold Ctx.conn
  rw [Ctx.setConn_w, conn?_setConn _ _ _ h, hl]
  rfl

theorem live_setConn (x : Ctx) (cn : Conn) (c : Nat) (h : cn.id = c) :
    ((x.setConn cn).w.conn? c).isSome = (x.w.conn? c).isSome := by
  rw [Ctx.setConn_w, conn?_setConn _ _ _ h]
  cases x.w.conn? c <;> rfl

theorem conn_dead_unauth (x : Ctx) (c : Nat) (hl : x.w.conn? c = none) :
    (x.conn c).authenticated = false := by
  unfold Ctx.conn; rw [hl]; rfl

/-- `conn` depends only on `w.conns`. -/
theorem conn_congr {x y : Ctx} (h : y.w.conns = x.w.conns) (c : Nat) : y.conn c = x.conn c := by
  unfold Ctx.conn World.conn?; rw [h]

@[simp] theorem conn_reply (x : Ctx) (cfg : Cfg) (t : Str) (c : Nat) :
    (x.reply cfg t).conn c = x.conn c := rfl

@[simp] theorem conn_panic (x : Ctx) (s : String) (c : Nat) : (x.panic s).conn c = x.conn c := rfl

/-! ### the welcome burst touches nothing but the reply buffer (and the panic flag) -/

theorem foldl_reply_w {β : Type} (cfg : Cfg) (f : β → Str) (l : List β) (x : Ctx) :
    (l.foldl (fun x t => x.reply cfg (f t)) x).w = x.w ∧
    (l.foldl (fun x t => x.reply cfg (f t)) x).queued = x.queued ∧
    (l.foldl (fun x t => x.reply cfg (f t)) x).direct =
      x.direct ++ l.map (fun t => ':' :: (cfg.name ++ ' ' :: f t)) := by
  induction l generalizing x with
  | nil => simp
  | cons a l ih =>
    simp only [List.foldl_cons, List.map_cons]
    obtain ⟨h1, h2, h3⟩ := ih (x.reply cfg (f a))
    refine ⟨h1, h2, ?_⟩
    rw [h3]; simp

theorem sendIsupport_w (cfg : Cfg) (cl : Str) (x : Ctx) : (sendIsupport cfg cl x).w = x.w :=
  (foldl_reply_w cfg _ _ x).1
theorem sendIsupport_queued (cfg : Cfg) (cl : Str) (x : Ctx) :
    (sendIsupport cfg cl x).queued = x.queued :=
  (foldl_reply_w cfg _ _ x).2.1
theorem sendIsupport_direct (cfg : Cfg) (cl : Str) (x : Ctx) :
    ∃ l, (sendIsupport cfg cl x).direct = x.direct ++ l :=
  ⟨_, (foldl_reply_w cfg _ _ x).2.2⟩

theorem processLusers_w (cfg : Cfg) (cl : Str) (x : Ctx) :
    (processLusers cfg cl x).w =
      if x.w.invisibleCount > x.w.users.length then x.w.panic "lusers: users - invisible underflow"
      else x.w := by
  unfold processLusers
  simp only
  split <;> rfl

theorem processLusers_queued (cfg : Cfg) (cl : Str) (x : Ctx) :
    (processLusers cfg cl x).queued = x.queued := by
  unfold processLusers
  simp only
  split <;> rfl

theorem processLusers_direct (cfg : Cfg) (cl : Str) (x : Ctx) :
    ∃ l, (processLusers cfg cl x).direct = x.direct ++ l := by
  unfold processLusers
  simp only
  split <;> simp only [Ctx.reply_direct, Ctx.panic_direct, List.append_assoc] <;> exact ⟨_, rfl⟩

theorem welcomeBurst_w (cfg : Cfg) (cn : Conn) (um : Str) (x : Ctx) :
    (welcomeBurst cfg cn um x).w =
      if x.w.invisibleCount > x.w.users.length then x.w.panic "lusers: users - invisible underflow"
      else x.w := by
  unfold welcomeBurst processMotd
  simp only [Ctx.reply_w, processLusers_w, sendIsupport_w]

theorem welcomeBurst_queued (cfg : Cfg) (cn : Conn) (um : Str) (x : Ctx) :
    (welcomeBurst cfg cn um x).queued = x.queued := by
  unfold welcomeBurst processMotd
  simp only [Ctx.reply_queued, processLusers_queued, sendIsupport_queued]

theorem welcomeBurst_direct (cfg : Cfg) (cn : Conn) (um : Str) (x : Ctx) :
    ∃ l, (welcomeBurst cfg cn um x).direct = x.direct ++ l := by
  unfold welcomeBurst processMotd
  simp only [Ctx.reply_direct]
  obtain ⟨l1, h1⟩ := processLusers_direct cfg cn.clientName (sendIsupport cfg cn.clientName
    ((((x.reply cfg (RplWelcome001 cn.clientName cfg.network (cn.nick.getD []) (cn.name.getD []) cn.hostname)).reply cfg
      (RplYourHost002 cn.clientName cfg.name pkgDash)).reply cfg (RplCreated003 cn.clientName (str "DATE"))).reply cfg
      (RplMyInfo004 cn.clientName cfg.name pkgDash (str "Oiorw") (str "Iabehiklmnopqstv") none)))
  obtain ⟨l2, h2⟩ := sendIsupport_direct cfg cn.clientName
    ((((x.reply cfg (RplWelcome001 cn.clientName cfg.network (cn.nick.getD []) (cn.name.getD []) cn.hostname)).reply cfg
      (RplYourHost002 cn.clientName cfg.name pkgDash)).reply cfg (RplCreated003 cn.clientName (str "DATE"))).reply cfg
      (RplMyInfo004 cn.clientName cfg.name pkgDash (str "Oiorw") (str "Iabehiklmnopqstv") none))
  rw [h1, h2]
  simp only [Ctx.reply_direct, List.append_assoc]
  exact ⟨_, rfl⟩

/-! ### `authenticate`, branch by branch -/

/-- modes given to a freshly registered user -/
def regModes (cfg : Cfg) (r : Bool) : UserModes :=
  { cfg.defaultUserModes with registered := cfg.defaultUserModes.registered || r }

/-- the user record created at registration for connection `cn` (slot `c`) -/
def newUser (cfg : Cfg) (c : Nat) (cn : Conn) (r : Bool) : User :=
  { hostname := cn.hostname, name := cn.name.getD [], realname := cn.realname.getD [],
    source := cn.source, modes := regModes cfg r,
    history := { username := cn.name.getD [], hostname := cn.hostname, realname := cn.realname.getD [] },
    owner := c }

/-- the connection record after successful registration, before the ping waker -/
def regConn (cn : Conn) (r : Bool) : Conn :=
  { cn with authenticated := true, registered := r, hasSender := false, hasQuitSender := false }

/-- the connection record after a completed registration -/
def doneConn (cn : Conn) (r : Bool) : Conn :=
  { cn with authenticated := true, registered := r, hasSender := false, hasQuitSender := false,
            hasPingSender := false }

theorem authenticate_bad (cfg : Cfg) (c : Nat) (x : Ctx) (r : Bool)
    (h : authDecision cfg (x.conn c) = .decided false r) :
    authenticate cfg c x =
      (x.setConn { x.conn c with authenticated := false, quit := true }).reply cfg
        (ErrPasswdMismatch464 (x.conn c).clientName) := by
  unfold authenticate
  simp only [h]
  rfl

theorem authenticate_notReady (cfg : Cfg) (c : Nat) (x : Ctx)
    (h : authDecision cfg (x.conn c) = .notReady) : authenticate cfg c x = x := by
  unfold authenticate
  simp only [h]

theorem authenticate_mask (cfg : Cfg) (c : Nat) (x : Ctx)
    (h : authDecision cfg (x.conn c) = .maskMismatch) :
    authenticate cfg c x = x.reply cfg (str "ERROR: user mask doesn't match") := by
  unfold authenticate
  simp only [h]

theorem authenticate_good_nonick (cfg : Cfg) (c : Nat) (x : Ctx) (r : Bool)
    (h : authDecision cfg (x.conn c) = .decided true r) (hn : (x.conn c).nick = none) :
    authenticate cfg c x = x.panic "authenticate: nick unwrap" := by
  unfold authenticate
  simp only [h, ↓reduceIte]
  split
  · rfl
  · rename_i n heq
    have heq' : (x.conn c).nick = some n := heq
    rw [hn] at heq'; cases heq'

theorem authenticate_good_inuse (cfg : Cfg) (c : Nat) (x : Ctx) (r : Bool) (nick : Str)
    (h : authDecision cfg (x.conn c) = .decided true r) (hn : (x.conn c).nick = some nick)
    (hu : Map.contains nick x.w.users = true) :
    authenticate cfg c x =
      (x.setConn { x.conn c with authenticated := false, registered := r }).reply cfg
        (ErrNicknameInUse433 (x.conn c).clientName nick) := by
  unfold authenticate
  simp only [h, ↓reduceIte]
  split
  · rename_i heq
    have heq' : (x.conn c).nick = none := heq
    rw [hn] at heq'; cases heq'
  · rename_i n heq
    have heq' : (x.conn c).nick = some n := heq
    rw [hn] at heq'; cases heq'
    simp only [hu, Bool.not_true, Bool.false_eq_true, ↓reduceIte]
    rfl

theorem authenticate_good_nosender (cfg : Cfg) (c : Nat) (x : Ctx) (r : Bool) (nick : Str)
    (h : authDecision cfg (x.conn c) = .decided true r) (hn : (x.conn c).nick = some nick)
    (hu : Map.contains nick x.w.users = false)
    (hs : ((x.conn c).hasSender && (x.conn c).hasQuitSender) = false) :
    authenticate cfg c x =
      (x.setConn { x.conn c with authenticated := true, registered := r }).panic
        "authenticate: sender taken twice" := by
  have hs' : (!(x.conn c).hasSender || !(x.conn c).hasQuitSender) = true := by
    cases h1 : (x.conn c).hasSender <;> cases h2 : (x.conn c).hasQuitSender <;> simp_all
  unfold authenticate
  simp only [h, ↓reduceIte]
  split
  · rename_i heq
    have heq' : (x.conn c).nick = none := heq
    rw [hn] at heq'; cases heq'
  · rename_i n heq
    have heq' : (x.conn c).nick = some n := heq
    rw [hn] at heq'; cases heq'
    simp only [hu, hs', Bool.not_false, ↓reduceIte]

theorem authenticate_good_free (cfg : Cfg) (c : Nat) (x : Ctx) (r : Bool) (nick : Str)
    (h : authDecision cfg (x.conn c) = .decided true r) (hn : (x.conn c).nick = some nick)
    (hu : Map.contains nick x.w.users = false)
    (hs : ((x.conn c).hasSender && (x.conn c).hasQuitSender) = true) :
    authenticate cfg c x =
      let cn1 := regConn (x.conn c) r
      let y := welcomeBurst cfg cn1 (regModes cfg r).render
        ((x.setConn cn1).modifyW (fun w => w.addUser nick (newUser cfg c (x.conn c) r)))
      if (x.conn c).hasPingSender then y.setConn (doneConn (x.conn c) r)
      else y.panic "Ping waker ran!" := by
  have hs' : (!(x.conn c).hasSender || !(x.conn c).hasQuitSender) = false := by
    cases h1 : (x.conn c).hasSender <;> cases h2 : (x.conn c).hasQuitSender <;> simp_all
  unfold authenticate
  simp only [h, ↓reduceIte]
  split
  · rename_i heq
    have heq' : (x.conn c).nick = none := heq
    rw [hn] at heq'; cases heq'
  · rename_i n heq
    have heq' : (x.conn c).nick = some n := heq
    rw [hn] at heq'; cases heq'
    simp only [hu, hs', Bool.not_false, Bool.false_eq_true, ↓reduceIte]
    rfl

/-! ### projections of a successful registration -/

theorem addUser_users (w : World) (nick : Str) (u : User) :
    (w.addUser nick u).users = Map.insert nick u w.users := by
  unfold World.addUser
  simp only
  split <;> split <;> split <;> split <;> rfl

theorem addUser_conns (w : World) (nick : Str) (u : User) :
    (w.addUser nick u).conns = w.conns := by
  unfold World.addUser
  simp only
  split <;> split <;> split <;> split <;> rfl

theorem addUser_channels (w : World) (nick : Str) (u : User) :
    (w.addUser nick u).channels = w.channels := by
  unfold World.addUser
  simp only
  split <;> split <;> split <;> split <;> rfl

theorem welcomeBurst_users (cfg : Cfg) (cn : Conn) (um : Str) (x : Ctx) :
    (welcomeBurst cfg cn um x).w.users = x.w.users := by
  rw [welcomeBurst_w]; split <;> rfl

theorem welcomeBurst_conns (cfg : Cfg) (cn : Conn) (um : Str) (x : Ctx) :
    (welcomeBurst cfg cn um x).w.conns = x.w.conns := by
  rw [welcomeBurst_w]; split <;> rfl

theorem welcomeBurst_channels (cfg : Cfg) (cn : Conn) (um : Str) (x : Ctx) :
    (welcomeBurst cfg cn um x).w.channels = x.w.channels := by
  rw [welcomeBurst_w]; split <;> rfl

theorem authenticate_good_free_users (cfg : Cfg) (c : Nat) (x : Ctx) (r : Bool) (nick : Str)
    (h : authDecision cfg (x.conn c) = .decided true r) (hn : (x.conn c).nick = some nick)
    (hu : Map.contains nick x.w.users = false)
    (hs : ((x.conn c).hasSender && (x.conn c).hasQuitSender) = true) :
    (authenticate cfg c x).w.users = Map.insert nick (newUser cfg c (x.conn c) r) x.w.users := by
  rw [authenticate_good_free cfg c x r nick h hn hu hs]
  simp only
  split <;>
    simp only [Ctx.setConn_w, Ctx.panic_w, World.setConn_users, World.panic_users,
      welcomeBurst_users, Ctx.modifyW_w, addUser_users]

theorem authenticate_good_free_channels (cfg : Cfg) (c : Nat) (x : Ctx) (r : Bool) (nick : Str)
    (h : authDecision cfg (x.conn c) = .decided true r) (hn : (x.conn c).nick = some nick)
    (hu : Map.contains nick x.w.users = false)
    (hs : ((x.conn c).hasSender && (x.conn c).hasQuitSender) = true) :
    (authenticate cfg c x).w.channels = x.w.channels := by
  rw [authenticate_good_free cfg c x r nick h hn hu hs]
  simp only
  split <;>
    simp only [Ctx.setConn_w, Ctx.panic_w, World.setConn_channels, World.panic_channels,
      welcomeBurst_channels, Ctx.modifyW_w, addUser_channels]

theorem authenticate_good_free_queued (cfg : Cfg) (c : Nat) (x : Ctx) (r : Bool) (nick : Str)
    (h : authDecision cfg (x.conn c) = .decided true r) (hn : (x.conn c).nick = some nick)
    (hu : Map.contains nick x.w.users = false)
    (hs : ((x.conn c).hasSender && (x.conn c).hasQuitSender) = true) :
    (authenticate cfg c x).queued = x.queued := by
  rw [authenticate_good_free cfg c x r nick h hn hu hs]
  simp only
  split <;>
    simp only [Ctx.setConn_queued, Ctx.panic_queued, welcomeBurst_queued, Ctx.modifyW_queued]

theorem authenticate_good_free_conn (cfg : Cfg) (c : Nat) (x : Ctx) (r : Bool) (nick : Str)
    (h : authDecision cfg (x.conn c) = .decided true r) (hn : (x.conn c).nick = some nick)
    (hu : Map.contains nick x.w.users = false)
    (hs : ((x.conn c).hasSender && (x.conn c).hasQuitSender) = true)
    (hl : (x.w.conn? c).isSome = true) :
    (authenticate cfg c x).conn c = doneConn (x.conn c) r := by
  rw [authenticate_good_free cfg c x r nick h hn hu hs]
  simp only
  have hid : (regConn (x.conn c) r).id = c := conn_id x c
  split
  · rename_i hp
    have hid2 : (doneConn (x.conn c) r).id = c := conn_id x c
    apply conn_setConn_live _ _ _ hid2
    have : (welcomeBurst cfg (regConn (x.conn c) r) (regModes cfg r).render
        ((x.setConn (regConn (x.conn c) r)).modifyW fun w =>
          w.addUser nick (newUser cfg c (x.conn c) r))).w.conns = (x.setConn (regConn (x.conn c) r)).w.conns := by
      rw [welcomeBurst_conns, Ctx.modifyW_w, addUser_conns]
    unfold World.conn?; rw [this]
    exact (live_setConn x _ c hid).trans hl
  · rename_i hp
    have hp' : (x.conn c).hasPingSender = false := by simpa using hp
    rw [conn_panic]
    have : (welcomeBurst cfg (regConn (x.conn c) r) (regModes cfg r).render
        ((x.setConn (regConn (x.conn c) r)).modifyW fun w =>
          w.addUser nick (newUser cfg c (x.conn c) r))).w.conns = (x.setConn (regConn (x.conn c) r)).w.conns := by
      rw [welcomeBurst_conns, Ctx.modifyW_w, addUser_conns]
    rw [conn_congr this, conn_setConn_live _ _ _ hid hl]
    unfold doneConn regConn
    rw [← hp']

/-- a slot that is not live never gets past `notReady` -/
theorem authDecision_dead (cfg : Cfg) (x : Ctx) (c : Nat) (hl : x.w.conn? c = none) :
    authDecision cfg (x.conn c) = .notReady := by
  have : x.conn c = Conn.new c [] := by unfold Ctx.conn; rw [hl]; rfl
  rw [this]
  unfold authDecision Conn.new
  simp

/-! ### summary of `authenticate` on an unauthenticated connection -/

theorem conn_setConn_unauth (x : Ctx) (cn : Conn) (c : Nat) (h : cn.id = c)
    (ha : cn.authenticated = false) : ((x.setConn cn).conn c).authenticated = false := by
  cases hl : x.w.conn? c with
  | none => rw [conn_setConn_dead x cn c h hl]; rfl
  | some _ => rw [conn_setConn_live x cn c h (by rw [hl]; rfl)]; exact ha

/-- Either nothing was registered (connection still unauthenticated, user table untouched), or the
    decision was "good", the nick was free, and the connection is now authenticated. -/
theorem authenticate_summary (cfg : Cfg) (c : Nat) (x : Ctx)
    (h0 : (x.conn c).authenticated = false) :
    (((authenticate cfg c x).conn c).authenticated = false ∧
      (authenticate cfg c x).w.users = x.w.users) ∨
    (∃ r nick, authDecision cfg (x.conn c) = .decided true r ∧ (x.conn c).nick = some nick ∧
      Map.contains nick x.w.users = false ∧ (x.w.conn? c).isSome = true ∧
      ((authenticate cfg c x).conn c).authenticated = true) := by
  cases hl : x.w.conn? c with
  | none =>
    left
    rw [authenticate_notReady cfg c x (authDecision_dead cfg x c hl)]
    exact ⟨h0, rfl⟩
  | some cn0 =>
    have hlive : (x.w.conn? c).isSome = true := by rw [hl]; rfl
    have hid := conn_id x c
    cases hd : authDecision cfg (x.conn c) with
    | notReady => left; rw [authenticate_notReady cfg c x hd]; exact ⟨h0, rfl⟩
    | maskMismatch => left; rw [authenticate_mask cfg c x hd]; exact ⟨h0, rfl⟩
    | decided good r =>
      cases good with
      | false =>
        left; rw [authenticate_bad cfg c x r hd]
        exact ⟨conn_setConn_unauth x _ c hid rfl, rfl⟩
      | true =>
        cases hn : (x.conn c).nick with
        | none => left; rw [authenticate_good_nonick cfg c x r hd hn]; exact ⟨h0, rfl⟩
        | some nick =>
          cases hu : Map.contains nick x.w.users with
          | true =>
            left; rw [authenticate_good_inuse cfg c x r nick hd hn hu]
            exact ⟨conn_setConn_unauth x _ c hid rfl, rfl⟩
          | false =>
            right
            refine ⟨r, nick, rfl, rfl, hu, rfl, ?_⟩
            cases hs : ((x.conn c).hasSender && (x.conn c).hasQuitSender) with
            | false =>
              rw [authenticate_good_nosender cfg c x r nick hd hn hu hs, conn_panic,
                conn_setConn_live x _ c (by exact hid) hlive]
            | true =>
              rw [authenticate_good_free_conn cfg c x r nick hd hn hu hs hlive]; rfl

/-! ### `handleLine` on an unauthenticated connection -/

/-- the commands whose handler ends in a call of `authenticate` -/
def isRegCmd : Command → Bool
  | .CAP .END _ _ | .PASS _ | .NICK _ | .USER .. => true
  | _ => false

/-- what can be said of the context on which `authenticate` is called -/
structure PreAuth (c : Nat) (x x' : Ctx) : Prop where
  users : x'.w.users = x.w.users
  unauth : (x'.conn c).authenticated = false
  direct : x'.direct = x.direct
  queued : x'.queued = x.queued

theorem via_auth (cfg : Cfg) (c : Nat) (x x' : Ctx) (msg : Message) (cmd : Command) (s : Str)
    (hp : Message.parse s = .ok msg) (hc : Command.fromMessage msg = .ok cmd)
    (hr : isRegCmd cmd = true) (pre : PreAuth c x x') :
    (((authenticate cfg c x').conn c).authenticated = false ∧
      (authenticate cfg c x').w.users = x.w.users) ∨
    (∃ msg cmd x'', Message.parse s = .ok msg ∧ Command.fromMessage msg = .ok cmd ∧
      isRegCmd cmd = true ∧ PreAuth c x x'' ∧ authenticate cfg c x' = authenticate cfg c x'' ∧
      ((authenticate cfg c x'').conn c).authenticated = true) := by
  rcases authenticate_summary cfg c x' pre.unauth with ⟨h1, h2⟩ | ⟨r, nick, _, _, _, _, h⟩
  · left; exact ⟨h1, h2.trans pre.users⟩
  · right; exact ⟨msg, cmd, x', hp, hc, hr, pre, rfl, h⟩

theorem handleLine_parse_error (cfg : Cfg) (c : Nat) (s : Str) (x : Ctx) (e : MessageError)
    (hp : Message.parse s = .error e) :
    ∃ l, handleLine cfg c s x = { x with direct := x.direct ++ l } := by
  unfold handleLine
  simp only [hp]
  cases e
  · exact ⟨[], by simp⟩
  · exact ⟨_, rfl⟩
  · exact ⟨_, rfl⟩

theorem handleLine_command_error (cfg : Cfg) (c : Nat) (s : Str) (x : Ctx) (msg : Message)
    (e : CommandError) (hp : Message.parse s = .ok msg) (hc : Command.fromMessage msg = .error e) :
    handleLine cfg c s x = x.reply cfg (commandErrorReply (x.conn c).clientName e) := by
  unfold handleLine
  simp only [hp, hc]

theorem handleLine_ok (cfg : Cfg) (c : Nat) (s : Str) (x : Ctx) (msg : Message)
    (cmd : Command) (hp : Message.parse s = .ok msg) (hc : Command.fromMessage msg = .ok cmd) :
    handleLine cfg c s x =
      if !(allowedUnregistered cmd) && !(x.conn c).authenticated then
        (x.modifyW (fun w => bumpCount w cmd.id.index)).reply cfg
          (ErrNotRegistered451 (x.conn c).clientName)
      else dispatch cfg c msg cmd (x.modifyW (fun w => bumpCount w cmd.id.index)) := by
  unfold handleLine
  simp only [hp, hc]

theorem handleLine_unauth (cfg : Cfg) (c : Nat) (s : Str) (x : Ctx)
    (h0 : (x.conn c).authenticated = false) :
    (((handleLine cfg c s x).conn c).authenticated = false ∧
      (handleLine cfg c s x).w.users = x.w.users) ∨
    (∃ msg cmd x', Message.parse s = .ok msg ∧ Command.fromMessage msg = .ok cmd ∧
      isRegCmd cmd = true ∧ PreAuth c x x' ∧ handleLine cfg c s x = authenticate cfg c x' ∧
      ((authenticate cfg c x').conn c).authenticated = true) := by
  have hid := conn_id x c
  generalize hp : Message.parse s = pr
  rw [← hp]
  cases pr with
  | error e =>
    obtain ⟨l, hl⟩ := handleLine_parse_error cfg c s x e hp
    rw [hl]; exact Or.inl ⟨h0, rfl⟩
  | ok msg =>
    generalize hc : Command.fromMessage msg = cr
    cases cr with
    | error e => rw [handleLine_command_error cfg c s x msg e hp hc]; exact Or.inl ⟨h0, rfl⟩
    | ok cmd =>
      rw [handleLine_ok cfg c s x msg cmd hp hc]
      have h0' : ((x.modifyW fun w => bumpCount w cmd.id.index).conn c).authenticated = false := h0
      have hid' : ((x.modifyW fun w => bumpCount w cmd.id.index).conn c).id = c := hid
      have hna : (!((x.modifyW fun w => bumpCount w cmd.id.index).conn c).authenticated) = true := by
        rw [h0']; rfl
      generalize hx1 : (x.modifyW fun w => bumpCount w cmd.id.index) = x1 at *
      have pre1 : PreAuth c x x1 := by subst hx1; exact ⟨rfl, h0, rfl, rfl⟩
      have mk : ∀ cn : Conn, cn.id = c → cn.authenticated = false → PreAuth c x (x1.setConn cn) :=
        fun cn h1 h2 => ⟨pre1.users, conn_setConn_unauth _ _ c h1 h2, pre1.direct, pre1.queued⟩
      cases cmd
      case CAP sub caps v =>
        simp only [allowedUnregistered, h0, Bool.not_true, Bool.false_and, Bool.false_eq_true,
          ↓reduceIte, dispatch]
        cases sub
        · exact Or.inl ⟨conn_setConn_unauth _ _ c hid' h0', pre1.users⟩
        · exact Or.inl ⟨h0', pre1.users⟩
        · simp only [processCap]
          split
          · split
            · refine Or.inl ⟨?_, pre1.users⟩
              rw [conn_reply]
              apply conn_setConn_unauth _ _ c
              · split <;> exact hid'
              · split <;> exact h0'
            · exact Or.inl ⟨conn_setConn_unauth _ _ c hid' h0', pre1.users⟩
          · exact Or.inl ⟨conn_setConn_unauth _ _ c hid' h0', pre1.users⟩
        · simp only [processCap]
          rw [if_pos hna]
          exact via_auth cfg c x _ msg _ s hp hc rfl (mk _ (by exact hid') (by exact h0'))
      case AUTHENTICATE => exact Or.inl ⟨h0', pre1.users⟩
      case PASS p =>
        simp only [allowedUnregistered, h0, Bool.not_true, Bool.false_and, Bool.false_eq_true,
          ↓reduceIte, dispatch, processPass]
        rw [if_pos hna]
        exact via_auth cfg c x _ msg _ s hp hc rfl (mk _ (by exact hid') (by exact h0'))
      case NICK n =>
        simp only [allowedUnregistered, h0, Bool.not_true, Bool.false_and, Bool.false_eq_true,
          ↓reduceIte, dispatch, processNick]
        rw [if_pos hna]
        split
        · exact via_auth cfg c x _ msg _ s hp hc rfl (mk _ (by exact hid') (by exact h0'))
        · exact Or.inl ⟨h0', pre1.users⟩
      case USER u hn sn r =>
        simp only [allowedUnregistered, h0, Bool.not_true, Bool.false_and, Bool.false_eq_true,
          ↓reduceIte, dispatch, processUser]
        rw [if_pos hna]
        exact via_auth cfg c x _ msg _ s hp hc rfl (mk _ (by exact hid') (by exact h0'))
      case QUIT =>
        exact Or.inl ⟨conn_setConn_unauth _ _ c hid' h0', pre1.users⟩
      all_goals
        simp only [allowedUnregistered, h0, Bool.not_false, Bool.and_self, ↓reduceIte]
        exact Or.inl ⟨h0', pre1.users⟩

theorem handleLine_gate (cfg : Cfg) (x : Ctx) (c : Nat) (s : Str) (msg : Message) (cmd : Command)
    (hauth : (x.conn c).authenticated = false)
    (hp : Message.parse s = .ok msg) (hc : Command.fromMessage msg = .ok cmd)
    (hg : allowedUnregistered cmd = false) :
    handleLine cfg c s x =
      (x.modifyW (fun w => bumpCount w cmd.id.index)).reply cfg
        (ErrNotRegistered451 (x.conn c).clientName) := by
  rw [handleLine_ok cfg c s x msg cmd hp hc]
  simp [hg, hauth]

/-- the fields `authDecision` reads (and the host name) are the same in both records -/
def SameCreds (a b : Conn) : Prop :=
  a.capsNeg = b.capsNeg ∧ a.nick = b.nick ∧ a.name = b.name ∧ a.source = b.source ∧
  a.password = b.password ∧ a.hostname = b.hostname ∧ a.realname = b.realname

theorem authenticate_success_conn (cfg : Cfg) (c : Nat) (x : Ctx)
    (h0 : (x.conn c).authenticated = false)
    (h1 : ((authenticate cfg c x).conn c).authenticated = true) :
    ∃ r nick, authDecision cfg (x.conn c) = .decided true r ∧ (x.conn c).nick = some nick ∧
      Map.contains nick x.w.users = false ∧ (x.w.conn? c).isSome = true ∧
      SameCreds ((authenticate cfg c x).conn c) (x.conn c) ∧
      ((authenticate cfg c x).conn c).registered = r := by
  rcases authenticate_summary cfg c x h0 with ⟨h2, _⟩ | ⟨r, nick, hd, hn, hu, hlive, _⟩
  · rw [h2] at h1; cases h1
  · refine ⟨r, nick, hd, hn, hu, hlive, ?_⟩
    have hid := conn_id x c
    cases hs : ((x.conn c).hasSender && (x.conn c).hasQuitSender) with
    | false =>
      rw [authenticate_good_nosender cfg c x r nick hd hn hu hs, conn_panic,
        conn_setConn_live x _ c (by exact hid) hlive]
      exact ⟨⟨rfl, rfl, rfl, rfl, rfl, rfl, rfl⟩, rfl⟩
    | true =>
      rw [authenticate_good_free_conn cfg c x r nick hd hn hu hs hlive]
      exact ⟨⟨rfl, rfl, rfl, rfl, rfl, rfl, rfl⟩, rfl⟩

theorem authDecision_congr (cfg : Cfg) (a b : Conn) (h : SameCreds a b) :
    authDecision cfg a = authDecision cfg b := by
  obtain ⟨h1, h2, h3, h4, h5, _, _⟩ := h
  unfold authDecision
  rw [h1, h2, h3, h4, h5]

theorem isRegCmd_spec (cmd : Command) (h : isRegCmd cmd = true) :
    cmd.id ∈ [CmdId.CAP, .PASS, .NICK, .USER] ∧
    (cmd.id = .CAP → ∃ caps v, cmd = .CAP .END caps v) := by
  cases cmd
  case CAP sub caps v =>
    cases sub <;> simp [isRegCmd] at h
    exact ⟨by simp [Command.id], fun _ => ⟨caps, v, rfl⟩⟩
  case PASS => exact ⟨by simp [Command.id], fun h => by simp [Command.id] at h⟩
  case NICK => exact ⟨by simp [Command.id], fun h => by simp [Command.id] at h⟩
  case USER => exact ⟨by simp [Command.id], fun h => by simp [Command.id] at h⟩
  all_goals simp [isRegCmd] at h

/-! ### the records of the other connections -/

/-- `w'` has the same connection records as `w`, except possibly for slot `c` -/
def Others (c : Nat) (w w' : World) : Prop :=
  ∀ y : Conn, y.id ≠ c → (y ∈ w'.conns ↔ y ∈ w.conns)

theorem Others.refl (c : Nat) (w : World) : Others c w w := fun _ _ => Iff.rfl

theorem Others.trans {c : Nat} {w1 w2 w3 : World} (h1 : Others c w1 w2) (h2 : Others c w2 w3) :
    Others c w1 w3 := fun y hy => (h2 y hy).trans (h1 y hy)

theorem others_of_conns_eq {c : Nat} {w w' : World} (h : w'.conns = w.conns) : Others c w w' := by
  intro y _; rw [h]

theorem others_setConn (c : Nat) (w : World) (cn : Conn) (h : cn.id = c) :
    Others c w (w.setConn cn) := by
  intro y hy
  unfold World.setConn
  simp only [List.mem_map]
  constructor
  · rintro ⟨a, ha, he⟩
    split at he
    · subst he; exact absurd h hy
    · subst he; exact ha
  · intro hm
    refine ⟨y, hm, ?_⟩
    have : (y.id == cn.id) = false := by rw [h]; simpa using hy
    rw [this]; rfl

theorem authenticate_others (cfg : Cfg) (c : Nat) (x : Ctx) :
    Others c x.w (authenticate cfg c x).w := by
  have hid := conn_id x c
  cases hd : authDecision cfg (x.conn c) with
  | notReady => rw [authenticate_notReady cfg c x hd]; exact Others.refl c _
  | maskMismatch => rw [authenticate_mask cfg c x hd]; exact Others.refl c _
  | decided good r =>
    cases good with
    | false => rw [authenticate_bad cfg c x r hd]; exact others_setConn c _ _ hid
    | true =>
      cases hn : (x.conn c).nick with
      | none => rw [authenticate_good_nonick cfg c x r hd hn]; exact Others.refl c _
      | some nick =>
        cases hu : Map.contains nick x.w.users with
        | true =>
          rw [authenticate_good_inuse cfg c x r nick hd hn hu]; exact others_setConn c _ _ hid
        | false =>
          cases hs : ((x.conn c).hasSender && (x.conn c).hasQuitSender) with
          | false =>
            rw [authenticate_good_nosender cfg c x r nick hd hn hu hs]
            exact others_setConn c _ _ hid
          | true =>
            rw [authenticate_good_free cfg c x r nick hd hn hu hs]
            simp only
            have h1 : Others c x.w (welcomeBurst cfg (regConn (x.conn c) r) (regModes cfg r).render
                ((x.setConn (regConn (x.conn c) r)).modifyW fun w =>
                  w.addUser nick (newUser cfg c (x.conn c) r))).w :=
              (others_setConn c x.w (regConn (x.conn c) r) hid).trans
                (others_of_conns_eq (by rw [welcomeBurst_conns, Ctx.modifyW_w, addUser_conns]; rfl))
            split
            · exact h1.trans (others_setConn c _ _ hid)
            · exact h1.trans (others_of_conns_eq (World.panic_conns _ _))

/-- a line received on an unauthenticated connection leaves the records of all other
    connections alone -/
theorem handleLine_unauth_others (cfg : Cfg) (c : Nat) (s : Str) (x : Ctx)
    (h0 : (x.conn c).authenticated = false) :
    Others c x.w (handleLine cfg c s x).w := by
  have hid := conn_id x c
  generalize hp : Message.parse s = pr
  cases pr with
  | error e =>
    obtain ⟨l, hl⟩ := handleLine_parse_error cfg c s x e hp
    rw [hl]; exact Others.refl c _
  | ok msg =>
    generalize hc : Command.fromMessage msg = cr
    cases cr with
    | error e => rw [handleLine_command_error cfg c s x msg e hp hc]; exact Others.refl c _
    | ok cmd =>
      rw [handleLine_ok cfg c s x msg cmd hp hc]
      have h0' : ((x.modifyW fun w => bumpCount w cmd.id.index).conn c).authenticated = false := h0
      have hid' : ((x.modifyW fun w => bumpCount w cmd.id.index).conn c).id = c := hid
      have hna : (!((x.modifyW fun w => bumpCount w cmd.id.index).conn c).authenticated) = true := by
        rw [h0']; rfl
      have pre1 : Others c x.w (x.modifyW fun w => bumpCount w cmd.id.index).w :=
        others_of_conns_eq rfl
      generalize (x.modifyW fun w => bumpCount w cmd.id.index) = x1 at *
      have mk : ∀ cn : Conn, cn.id = c → Others c x.w (x1.setConn cn).w :=
        fun cn h1 => pre1.trans (others_setConn c _ _ h1)
      cases cmd
      case CAP sub caps v =>
        simp only [allowedUnregistered, h0, Bool.not_true, Bool.false_and, Bool.false_eq_true,
          ↓reduceIte, dispatch]
        cases sub
        · exact mk _ hid'
        · exact pre1
        · simp only [processCap]
          split
          · split
            · refine (mk _ (by exact hid')).trans (others_setConn c _ _ ?_)
              split <;> exact hid'
            · exact mk _ hid'
          · exact mk _ hid'
        · simp only [processCap]
          rw [if_pos hna]
          exact (mk _ (by exact hid')).trans (authenticate_others cfg c _)
      case AUTHENTICATE => exact pre1
      case PASS p =>
        simp only [allowedUnregistered, h0, Bool.not_true, Bool.false_and, Bool.false_eq_true,
          ↓reduceIte, dispatch, processPass]
        rw [if_pos hna]
        exact (mk _ (by exact hid')).trans (authenticate_others cfg c _)
      case NICK n =>
        simp only [allowedUnregistered, h0, Bool.not_true, Bool.false_and, Bool.false_eq_true,
          ↓reduceIte, dispatch, processNick]
        rw [if_pos hna]
        split
        · exact (mk _ (by exact hid')).trans (authenticate_others cfg c _)
        · exact pre1
      case USER u hn sn r =>
        simp only [allowedUnregistered, h0, Bool.not_true, Bool.false_and, Bool.false_eq_true,
          ↓reduceIte, dispatch, processUser]
        rw [if_pos hna]
        exact (mk _ (by exact hid')).trans (authenticate_others cfg c _)
      case QUIT => exact mk _ hid'
      all_goals
        simp only [allowedUnregistered, h0, Bool.not_false, Bool.and_self, ↓reduceIte]
        exact pre1

/-! ### the settling phase when only the acting, unauthenticated connection is flagged -/

theorem settleConn_id (cfg : Cfg) (acc : World × List (Nat × Str) × List Str) (c : Nat)
    (h : ∀ cn, acc.1.conn? c = some cn → cn.quit = false ∧ cn.killedBy = none) :
    settleConn cfg acc c = acc := by
  obtain ⟨w, outs, evs⟩ := acc
  unfold settleConn
  simp only
  cases hc : w.conn? c with
  | none => rfl
  | some cn =>
    obtain ⟨hq, hk⟩ := h cn hc
    simp [hq, hk]

theorem settleConn_quit (cfg : Cfg) (w : World) (outs : List (Nat × Str)) (evs : List Str)
    (c : Nat) (cn : Conn) (hc : w.conn? c = some cn) (hq : cn.quit = true) :
    settleConn cfg (w, outs, evs) c =
      (teardown w c, outs, evs ++ [str "closed " ++ natToStr c]) := by
  unfold settleConn
  simp [hc, hq]

theorem teardown_unauth (w : World) (c : Nat) (cn : Conn) (hc : w.conn? c = some cn)
    (ha : cn.authenticated = false) :
    teardown w c =
      { w with conns := w.conns.filter (·.id != c), connsCount := w.connsCount - 1 } := by
  unfold teardown
  simp [hc, ha]

theorem foldl_settle_unflagged (cfg : Cfg) (l : List Nat)
    (acc : World × List (Nat × Str) × List Str)
    (h : ∀ cn ∈ acc.1.conns, cn.quit = false ∧ cn.killedBy = none) :
    l.foldl (settleConn cfg) acc = acc := by
  induction l with
  | nil => rfl
  | cons c l ih =>
    rw [List.foldl_cons, settleConn_id cfg acc c (fun cn hc => h cn (conn?_mem hc)), ih]

theorem foldl_settle_one (cfg : Cfg) (l : List Nat) (w : World) (outs : List (Nat × Str))
    (evs : List Str) (c : Nat) (cn : Conn) (hc : w.conn? c = some cn) (hq : cn.quit = true)
    (ha : cn.authenticated = false)
    (ho : ∀ y ∈ w.conns, y.id ≠ c → y.quit = false ∧ y.killedBy = none) :
    l.foldl (settleConn cfg) (w, outs, evs) =
      if c ∈ l then (teardown w c, outs, evs ++ [str "closed " ++ natToStr c])
      else (w, outs, evs) := by
  induction l with
  | nil => rfl
  | cons c' l ih =>
    rw [List.foldl_cons]
    by_cases hcc : c' = c
    · subst hcc
      rw [settleConn_quit cfg w outs evs c' cn hc hq, if_pos List.mem_cons_self]
      apply foldl_settle_unflagged
      intro y hy
      rw [teardown_unauth w c' cn hc ha] at hy
      simp only [List.mem_filter, bne_iff_ne, ne_eq] at hy
      exact ho y hy.1 hy.2
    · rw [settleConn_id cfg _ c' (fun y hy => ho y (conn?_mem hy) (by rw [conn?_id hy]; exact hcc)),
        ih]
      have : (c ∈ c' :: l) ↔ c ∈ l := by
        simp only [List.mem_cons]
        constructor
        · rintro (h | h)
          · exact absurd h.symm hcc
          · exact h
        · exact Or.inr
      simp only [this]

theorem settle_one (cfg : Cfg) (w : World) (outs : List (Nat × Str))
    (evs : List Str) (c : Nat) (cn : Conn) (hc : w.conn? c = some cn) (hq : cn.quit = true)
    (ha : cn.authenticated = false)
    (ho : ∀ y ∈ w.conns, y.id ≠ c → y.quit = false ∧ y.killedBy = none) :
    settle cfg w outs evs =
      ({ w with conns := w.conns.filter (·.id != c), connsCount := w.connsCount - 1 }, outs,
        evs ++ [str "closed " ++ natToStr c]) := by
  unfold settle
  rw [foldl_settle_one cfg _ w outs evs c cn hc hq ha ho, teardown_unauth w c cn hc ha]
  have : c ∈ w.conns.map (·.id) := List.mem_map.mpr ⟨cn, conn?_mem hc, conn?_id hc⟩
  rw [if_pos this]

theorem conn?_filter_self (w : World) (c : Nat) :
    ({ w with conns := w.conns.filter (·.id != c), connsCount := w.connsCount - 1 } : World).conn? c
      = none := by
  unfold World.conn?
  simp only [List.find?_eq_none, List.mem_filter]
  rintro y ⟨_, hy⟩
  simpa using hy

end Irc.C03
