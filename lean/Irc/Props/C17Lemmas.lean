/-
  Helper lemmas for property C17 (keep-alive), about the executable model `Irc.Timer`.
-/
import Irc.Timer
namespace Irc.Timer
open Irc

/-! ## basic unfolding -/

@[simp] theorem firePing_now (cfg : TCfg) (s : TState) : (firePing cfg s).now = s.nextPing := rfl
@[simp] theorem firePing_nextPing (cfg : TCfg) (s : TState) :
    (firePing cfg s).nextPing = s.nextPing + cfg.pingMs := rfl
@[simp] theorem firePing_deadline (cfg : TCfg) (s : TState) :
    (firePing cfg s).deadline = arm cfg s.deadline s.nextPing := rfl
@[simp] theorem firePing_quit (cfg : TCfg) (s : TState) : (firePing cfg s).quit = s.quit := rfl
@[simp] theorem firePing_registered (cfg : TCfg) (s : TState) :
    (firePing cfg s).registered = s.registered := rfl
@[simp] theorem firePing_regAt (cfg : TCfg) (s : TState) : (firePing cfg s).regAt = s.regAt := rfl

theorem firePing_setNow (cfg : TCfg) (s : TState) (n : Nat) :
    firePing cfg { s with now := n } = firePing cfg s := rfl

theorem dueDeadline_setNow (s : TState) (n tgt : Nat) :
    dueDeadline { s with now := n } tgt = dueDeadline s tgt := rfl

theorem dueDeadline_some {s : TState} {tgt d : Nat} (h : dueDeadline s tgt = some d) :
    s.deadline = some d ∧ d ≤ s.nextPing ∧ d ≤ tgt := by
  unfold dueDeadline at h
  split at h
  · split at h
    · simp at h; subst h; simp_all
    · simp at h
  · simp at h

theorem dueDeadline_none {s : TState} {tgt : Nat} (h : dueDeadline s tgt = none) :
    ∀ d, s.deadline = some d → ¬ (d ≤ s.nextPing ∧ d ≤ tgt) := by
  intro d hd
  unfold dueDeadline at h
  rw [hd] at h
  simp only at h
  split at h
  · simp at h
  · assumption

theorem dueDeadline_of_none {s : TState} {tgt : Nat} (h : s.deadline = none) :
    dueDeadline s tgt = none := by
  unfold dueDeadline; rw [h]

theorem dueDeadline_of_some {s : TState} {tgt d : Nat} (h : s.deadline = some d) :
    dueDeadline s tgt = if d ≤ s.nextPing ∧ d ≤ tgt then some d else none := by
  unfold dueDeadline; rw [h]

/-- one unfolding of the loop -/
theorem advTo_succ (cfg : TCfg) (f tgt : Nat) (s : TState) :
    advTo cfg (f + 1) tgt s =
      if s.quit then (s, [])
      else if !s.registered then ({ s with now := tgt }, [])
      else
        match dueDeadline s tgt with
        | some d => ({ s with now := d, deadline := none, quit := true }, [TOut.errorTimeout d])
        | none =>
          if s.nextPing ≤ tgt then
            ((advTo cfg f tgt (firePing cfg s)).1,
              TOut.ping s.nextPing :: (advTo cfg f tgt (firePing cfg s)).2)
          else ({ s with now := tgt }, []) := rfl

/-- the result does not depend on the clock value of the start state -/
theorem advTo_setNow (cfg : TCfg) (f tgt : Nat) (s : TState) (n : Nat) (hf : 0 < f)
    (hq : s.quit = false) :
    advTo cfg f tgt { s with now := n } = advTo cfg f tgt s := by
  obtain ⟨f, rfl⟩ : ∃ g, f = g + 1 := ⟨f - 1, by omega⟩
  rw [advTo_succ, advTo_succ, dueDeadline_setNow, firePing_setNow]
  simp only [hq, Bool.false_eq_true, if_false]

/-- enough fuel: the result does not depend on the fuel -/
theorem advTo_fuel (cfg : TCfg) (hP : 1 ≤ cfg.pingMs) (tgt : Nat) :
    ∀ (f f' : Nat) (s : TState), tgt + 1 - s.nextPing < f → tgt + 1 - s.nextPing < f' →
      advTo cfg f tgt s = advTo cfg f' tgt s := by
  intro f
  induction f with
  | zero => intro f' s h; omega
  | succ f ih =>
    intro f' s h h'
    obtain ⟨f', rfl⟩ : ∃ g, f' = g + 1 := ⟨f' - 1, by omega⟩
    rw [advTo_succ, advTo_succ]
    by_cases hle : s.nextPing ≤ tgt
    · rw [ih f' (firePing cfg s) (by simp; omega) (by simp; omega)]
    · simp [hle]

/-- the loop with the canonical fuel -/
def adv (cfg : TCfg) (tgt : Nat) (s : TState) : TState × List TOut :=
  advTo cfg (advFuel tgt s) tgt s

theorem adv_eq_advTo (cfg : TCfg) (hP : 1 ≤ cfg.pingMs) (tgt f : Nat) (s : TState)
    (hf : tgt + 1 - s.nextPing < f) : adv cfg tgt s = advTo cfg f tgt s :=
  advTo_fuel cfg hP tgt _ _ s (by unfold advFuel; omega) hf

/-- unfolding equation of `adv` -/
theorem adv_eq (cfg : TCfg) (hP : 1 ≤ cfg.pingMs) (tgt : Nat) (s : TState) :
    adv cfg tgt s =
      if s.quit then (s, [])
      else if !s.registered then ({ s with now := tgt }, [])
      else
        match dueDeadline s tgt with
        | some d => ({ s with now := d, deadline := none, quit := true }, [TOut.errorTimeout d])
        | none =>
          if s.nextPing ≤ tgt then
            ((adv cfg tgt (firePing cfg s)).1,
              TOut.ping s.nextPing :: (adv cfg tgt (firePing cfg s)).2)
          else ({ s with now := tgt }, []) := by
  by_cases hle : s.nextPing ≤ tgt
  · rw [adv_eq_advTo cfg hP tgt (tgt + 1 - s.nextPing + 1) s (by omega), advTo_succ,
      adv_eq_advTo cfg hP tgt (tgt + 1 - s.nextPing) (firePing cfg s) (by simp; omega)]
  · unfold adv advFuel
    rw [advTo_succ]; simp [hle]

theorem adv_setNow (cfg : TCfg) (tgt : Nat) (s : TState) (n : Nat) (hq : s.quit = false) :
    adv cfg tgt { s with now := n } = adv cfg tgt s := by
  unfold adv
  exact advTo_setNow cfg _ tgt s n (by unfold advFuel; omega) hq

theorem tStep_advance (cfg : TCfg) (s : TState) (ms : Nat) :
    tStep cfg s (.advance ms) = if s.quit then (s, []) else adv cfg (s.now + ms) s := rfl

/-- induction principle for `adv`: on the distance of `nextPing` to the target. -/
theorem adv_induct (cfg : TCfg) (hP : 1 ≤ cfg.pingMs) (tgt : Nat) (motive : TState → Prop)
    (step : ∀ s, (s.nextPing ≤ tgt → motive (firePing cfg s)) → motive s) : ∀ s, motive s := by
  intro s
  generalize hn : tgt + 1 - s.nextPing = n
  induction n using Nat.strongRecOn generalizing s with
  | ind n ih =>
    apply step
    intro hle
    exact ih (tgt + 1 - (firePing cfg s).nextPing) (by simp; omega) _ rfl

/-! ## the five cases of one round of `adv` -/

theorem adv_quit (cfg : TCfg) (tgt : Nat) (s : TState) (hq : s.quit = true) :
    adv cfg tgt s = (s, []) := by
  unfold adv advFuel; rw [advTo_succ]; simp [hq]

theorem adv_unreg (cfg : TCfg) (tgt : Nat) (s : TState) (hq : s.quit = false)
    (hr : s.registered = false) : adv cfg tgt s = ({ s with now := tgt }, []) := by
  unfold adv advFuel; rw [advTo_succ]; simp [hq, hr]

theorem adv_fire (cfg : TCfg) (tgt : Nat) (s : TState) (d : Nat) (hq : s.quit = false)
    (hr : s.registered = true) (hd : s.deadline = some d) (h1 : d ≤ s.nextPing) (h2 : d ≤ tgt) :
    adv cfg tgt s =
      ({ s with now := d, deadline := none, quit := true }, [TOut.errorTimeout d]) := by
  unfold adv advFuel; rw [advTo_succ, dueDeadline_of_some hd]; simp [hq, hr, h1, h2]

theorem adv_ping (cfg : TCfg) (hP : 1 ≤ cfg.pingMs) (tgt : Nat) (s : TState)
    (hq : s.quit = false) (hr : s.registered = true)
    (hd : ∀ d, s.deadline = some d → s.nextPing < d) (hle : s.nextPing ≤ tgt) :
    adv cfg tgt s = ((adv cfg tgt (firePing cfg s)).1,
      TOut.ping s.nextPing :: (adv cfg tgt (firePing cfg s)).2) := by
  have hdd : dueDeadline s tgt = none := by
    cases h : s.deadline with
    | none => exact dueDeadline_of_none h
    | some d => rw [dueDeadline_of_some h]; have := hd d h; simp; omega
  rw [adv_eq cfg hP, hdd]; simp [hq, hr, hle]

theorem adv_idle (cfg : TCfg) (tgt : Nat) (s : TState)
    (hq : s.quit = false) (hr : s.registered = true)
    (hd : ∀ d, s.deadline = some d → tgt < d) (hlt : tgt < s.nextPing) :
    adv cfg tgt s = ({ s with now := tgt }, []) := by
  have hdd : dueDeadline s tgt = none := by
    cases h : s.deadline with
    | none => exact dueDeadline_of_none h
    | some d => rw [dueDeadline_of_some h]; have := hd d h; simp; omega
  unfold adv advFuel; rw [advTo_succ, hdd]; simp [hq, hr]; omega

/-- Relational induction principle for `adv`: the result is built by the five rules. -/
theorem adv_rel (cfg : TCfg) (hP : 1 ≤ cfg.pingMs) (tgt : Nat)
    (motive : TState → TState × List TOut → Prop)
    (quit : ∀ s, s.quit = true → motive s (s, []))
    (unreg : ∀ s, s.quit = false → s.registered = false → motive s ({ s with now := tgt }, []))
    (fire : ∀ s d, s.quit = false → s.registered = true → s.deadline = some d →
      d ≤ s.nextPing → d ≤ tgt →
      motive s ({ s with now := d, deadline := none, quit := true }, [TOut.errorTimeout d]))
    (ping : ∀ s r, s.quit = false → s.registered = true →
      (∀ d, s.deadline = some d → s.nextPing < d) → s.nextPing ≤ tgt →
      motive (firePing cfg s) r → motive s (r.1, TOut.ping s.nextPing :: r.2))
    (idle : ∀ s, s.quit = false → s.registered = true →
      (∀ d, s.deadline = some d → tgt < d) → tgt < s.nextPing →
      motive s ({ s with now := tgt }, [])) :
    ∀ s, motive s (adv cfg tgt s) := by
  apply adv_induct cfg hP tgt
  intro s ih
  by_cases hq : s.quit = true
  · rw [adv_quit cfg tgt s hq]; exact quit s hq
  have hq : s.quit = false := by simpa using hq
  by_cases hr : s.registered = false
  · rw [adv_unreg cfg tgt s hq hr]; exact unreg s hq hr
  have hr : s.registered = true := by simpa using hr
  by_cases hf : ∃ d, s.deadline = some d ∧ d ≤ s.nextPing ∧ d ≤ tgt
  · obtain ⟨d, hd, h1, h2⟩ := hf
    rw [adv_fire cfg tgt s d hq hr hd h1 h2]; exact fire s d hq hr hd h1 h2
  by_cases hle : s.nextPing ≤ tgt
  · have hd : ∀ d, s.deadline = some d → s.nextPing < d := by
      intro d hd
      apply Nat.lt_of_not_le
      intro h; exact hf ⟨d, hd, h, by omega⟩
    rw [adv_ping cfg hP tgt s hq hr hd hle]
    exact ping s _ hq hr hd hle (ih hle)
  · have hd : ∀ d, s.deadline = some d → tgt < d := by
      intro d hd
      apply Nat.lt_of_not_le
      intro h; exact hf ⟨d, hd, by omega, h⟩
    rw [adv_idle cfg tgt s hq hr hd (by omega)]
    exact idle s hq hr hd (by omega)

/-! ## structural facts about `adv` -/

theorem adv_now (cfg : TCfg) (hP : 1 ≤ cfg.pingMs) (tgt : Nat) (s : TState) :
    s.quit = false → (adv cfg tgt s).1.quit = false → (adv cfg tgt s).1.now = tgt := by
  apply adv_rel cfg hP tgt (fun s r => s.quit = false → r.1.quit = false → r.1.now = tgt)
  · intro s hq hq'; simp [hq] at hq'
  · intro s _ _ _ _; rfl
  · intro s d _ _ _ _ _ _ h; simp at h
  · intro s r _ _ _ _ ih hq h; exact ih (by simpa using hq) h
  · intro s _ _ _ _ _ _; rfl

/-- KEY STRUCTURAL LEMMA: advancing to `tgt2` is advancing to an intermediate `tgt1` and then
    on to `tgt2`. -/
theorem adv_split (cfg : TCfg) (hP : 1 ≤ cfg.pingMs) (tgt1 tgt2 : Nat) (h12 : tgt1 ≤ tgt2)
    (s : TState) :
    adv cfg tgt2 s = ((adv cfg tgt2 (adv cfg tgt1 s).1).1,
      (adv cfg tgt1 s).2 ++ (adv cfg tgt2 (adv cfg tgt1 s).1).2) := by
  apply adv_rel cfg hP tgt1
    (fun s r => adv cfg tgt2 s = ((adv cfg tgt2 r.1).1, r.2 ++ (adv cfg tgt2 r.1).2))
  · intro s hq; simp [adv_quit cfg tgt2 s hq]
  · intro s hq hr; simp [adv_setNow cfg tgt2 s tgt1 hq]
  · intro s d hq hr hd h1 h2
    rw [adv_fire cfg tgt2 s d hq hr hd h1 (by omega), adv_quit cfg tgt2 _ rfl]; rfl
  · intro s r hq hr hd hle ih
    rw [adv_ping cfg hP tgt2 s hq hr hd (by omega), ih]; rfl
  · intro s hq hr hd hlt; simp [adv_setNow cfg tgt2 s tgt1 hq]

/-! ## runs -/

theorem tStep_quit (cfg : TCfg) (s : TState) (e : TEvent) (hq : s.quit = true) :
    tStep cfg s e = (s, []) := by
  unfold tStep; simp [hq]

theorem tRun_quit (cfg : TCfg) (s : TState) (es : List TEvent) (hq : s.quit = true) :
    tRun cfg s es = (s, []) := by
  induction es with
  | nil => rfl
  | cons e es ih => simp [tRun, tStep_quit cfg s e hq, ih]

theorem tRun_nil (cfg : TCfg) (s : TState) : tRun cfg s [] = (s, []) := rfl

theorem tRun_cons (cfg : TCfg) (s : TState) (e : TEvent) (es : List TEvent) :
    tRun cfg s (e :: es) =
      ((tRun cfg (tStep cfg s e).1 es).1, (tStep cfg s e).2 ++ (tRun cfg (tStep cfg s e).1 es).2) :=
  rfl

theorem tRun_append (cfg : TCfg) (s : TState) (es1 es2 : List TEvent) :
    tRun cfg s (es1 ++ es2) =
      ((tRun cfg (tRun cfg s es1).1 es2).1,
        (tRun cfg s es1).2 ++ (tRun cfg (tRun cfg s es1).1 es2).2) := by
  induction es1 generalizing s with
  | nil => simp [tRun_nil]
  | cons e es ih => simp [tRun_cons, ih, List.append_assoc]

theorem tStep_advance_of_not_quit (cfg : TCfg) (s : TState) (ms : Nat) (hq : s.quit = false) :
    tStep cfg s (.advance ms) = adv cfg (s.now + ms) s := by
  rw [tStep_advance]; simp [hq]

theorem tStep_pong (cfg : TCfg) (s : TState) (hq : s.quit = false) :
    tStep cfg s .pong = ({ s with deadline := none }, []) := by
  unfold tStep; simp [hq]

theorem tStep_pingCmd (cfg : TCfg) (s : TState) (tok : Str) (hq : s.quit = false)
    (hr : s.registered = true) :
    tStep cfg s (.pingCmd tok) = (s, [TOut.pongReply s.now tok]) := by
  unfold tStep; simp [hq, hr]

theorem tStep_pingCmd_state (cfg : TCfg) (s : TState) (tok : Str) :
    (tStep cfg s (.pingCmd tok)).1 = s := by
  unfold tStep; split
  · rfl
  · simp only; split <;> rfl

/-- `advance a` then `advance b` is `advance (a + b)`. -/
theorem tStep_advance_add (cfg : TCfg) (hP : 1 ≤ cfg.pingMs) (s : TState) (a b : Nat) :
    tStep cfg s (.advance (a + b)) =
      ((tStep cfg (tStep cfg s (.advance a)).1 (.advance b)).1,
        (tStep cfg s (.advance a)).2 ++ (tStep cfg (tStep cfg s (.advance a)).1 (.advance b)).2) := by
  by_cases hq : s.quit = true
  · simp [tStep_quit cfg s _ hq]
  have hq : s.quit = false := by simpa using hq
  rw [tStep_advance_of_not_quit cfg s _ hq, tStep_advance_of_not_quit cfg s _ hq,
    adv_split cfg hP (s.now + a) (s.now + (a + b)) (by omega) s]
  by_cases hq1 : (adv cfg (s.now + a) s).1.quit = true
  · rw [tStep_quit cfg _ _ hq1, adv_quit cfg _ _ hq1]
  have hq1 : (adv cfg (s.now + a) s).1.quit = false := by simpa using hq1
  rw [tStep_advance_of_not_quit cfg _ _ hq1, adv_now cfg hP _ s hq hq1, Nat.add_assoc]

/-! ## specification vocabulary -/

/-- times of the server PINGs in an output -/
def pingTimes : List TOut → List Nat
  | [] => []
  | .ping t :: os => t :: pingTimes os
  | _ :: os => pingTimes os

/-- times of the `ERROR :Pong timeout` lines in an output -/
def errorTimes : List TOut → List Nat
  | [] => []
  | .errorTimeout t :: os => t :: errorTimes os
  | _ :: os => errorTimes os

/-- absolute times of the client's PONGs in an event list that starts at clock `t0` -/
def pongTimes (t0 : Nat) : List TEvent → List Nat
  | [] => []
  | .advance ms :: es => pongTimes (t0 + ms) es
  | .pong :: es => t0 :: pongTimes t0 es
  | .pingCmd _ :: es => pongTimes t0 es

/-- total time that passes in an event list -/
def duration : List TEvent → Nat
  | [] => 0
  | .advance ms :: es => ms + duration es
  | _ :: es => duration es

/-- the client sends no PONG -/
def noPong : List TEvent → Bool
  | [] => true
  | .pong :: _ => false
  | _ :: es => noPong es

/-- `p, p+P, …` (`m` terms) -/
def pingList (p P : Nat) : Nat → List Nat
  | 0 => []
  | m + 1 => p :: pingList (p + P) P m

theorem pingList_eq_map (p P m : Nat) :
    pingList p P m = (List.range m).map (fun j => p + j * P) := by
  induction m generalizing p with
  | zero => rfl
  | succ m ih =>
    rw [pingList, ih, List.range_succ_eq_map, List.map_cons, List.map_map]
    simp only [Nat.zero_mul, Nat.add_zero]
    congr 1
    apply List.map_congr_left
    intro j _
    simp only [Function.comp, Nat.succ_mul]; omega

theorem pingList_append (p P n m : Nat) :
    pingList p P (n + m) = pingList p P n ++ pingList (p + n * P) P m := by
  induction n generalizing p with
  | zero => simp [pingList]
  | succ n ih =>
    rw [Nat.add_right_comm, pingList, ih, pingList, Nat.succ_mul]
    simp only [List.cons_append]
    congr 3; omega

theorem mem_pingList {p P m t : Nat} : t ∈ pingList p P m ↔ ∃ j, j < m ∧ t = p + j * P := by
  rw [pingList_eq_map]; simp only [List.mem_map, List.mem_range]
  constructor
  · rintro ⟨j, hj, rfl⟩; exact ⟨j, hj, rfl⟩
  · rintro ⟨j, hj, rfl⟩; exact ⟨j, hj, rfl⟩

theorem pingTimes_append (a b : List TOut) : pingTimes (a ++ b) = pingTimes a ++ pingTimes b := by
  induction a with
  | nil => rfl
  | cons o os ih => cases o <;> simp [pingTimes, ih]

theorem errorTimes_append (a b : List TOut) :
    errorTimes (a ++ b) = errorTimes a ++ errorTimes b := by
  induction a with
  | nil => rfl
  | cons o os ih => cases o <;> simp [errorTimes, ih]

theorem pingTimes_map_ping (l : List Nat) : pingTimes (l.map TOut.ping) = l := by
  induction l with
  | nil => rfl
  | cons a l ih => simp [pingTimes, ih]

theorem errorTimes_map_ping (l : List Nat) : errorTimes (l.map TOut.ping) = [] := by
  induction l with
  | nil => rfl
  | cons a l ih => simp [errorTimes, ih]

theorem pongTimes_ge (t0 : Nat) (es : List TEvent) : ∀ t ∈ pongTimes t0 es, t0 ≤ t := by
  induction es generalizing t0 with
  | nil => intro t h; simp [pongTimes] at h
  | cons e es ih =>
    intro t h
    cases e with
    | advance ms => have := ih (t0 + ms) t h; omega
    | pong =>
      simp only [pongTimes, List.mem_cons] at h
      rcases h with h | h
      · omega
      · exact ih t0 t h
    | pingCmd tok => exact ih t0 t h

/-! ## `adv` when no timer can fire up to the target -/

theorem arm_cases (cfg : TCfg) (pending : Option Nat) (p : Nat) :
    arm cfg pending p = pending ∨ arm cfg pending p = some (p + cfg.pongMs) := by
  unfold arm; split <;> simp

theorem arm_fixed_some (cfg : TCfg) (hf : cfg.fixed = true) (d p : Nat) :
    arm cfg (some d) p = some d := by
  unfold arm; simp [hf]

theorem arm_none (cfg : TCfg) (p : Nat) : arm cfg none p = some (p + cfg.pongMs) := by
  unfold arm; split <;> simp_all

theorem arm_unfixed (cfg : TCfg) (hf : cfg.fixed = false) (o : Option Nat) (p : Nat) :
    arm cfg o p = some (p + cfg.pongMs) := by
  unfold arm; split <;> simp_all

/-- If the pending deadline (if any) lies after the target and the next PING's deadline would
    too, then up to the target only PINGs happen (both variants). -/
theorem adv_safe (cfg : TCfg) (hP : 1 ≤ cfg.pingMs) (tgt : Nat) (s : TState) :
    s.quit = false → s.registered = true → (∀ d, s.deadline = some d → tgt < d) →
    tgt < s.nextPing + cfg.pongMs →
    ∃ m dl, adv cfg tgt s =
        ({ s with now := tgt, nextPing := s.nextPing + m * cfg.pingMs, deadline := dl },
          (pingList s.nextPing cfg.pingMs m).map TOut.ping) ∧
      tgt < s.nextPing + m * cfg.pingMs ∧
      (∀ j, j < m → s.nextPing + j * cfg.pingMs ≤ tgt) ∧
      (dl = s.deadline ∨ ∃ j, j < m ∧ dl = some (s.nextPing + j * cfg.pingMs + cfg.pongMs)) ∧
      (∀ d, dl = some d → tgt < d) := by
  apply adv_rel cfg hP tgt (fun s r => s.quit = false → s.registered = true →
    (∀ d, s.deadline = some d → tgt < d) → tgt < s.nextPing + cfg.pongMs →
    ∃ m dl, r =
        ({ s with now := tgt, nextPing := s.nextPing + m * cfg.pingMs, deadline := dl },
          (pingList s.nextPing cfg.pingMs m).map TOut.ping) ∧
      tgt < s.nextPing + m * cfg.pingMs ∧
      (∀ j, j < m → s.nextPing + j * cfg.pingMs ≤ tgt) ∧
      (dl = s.deadline ∨ ∃ j, j < m ∧ dl = some (s.nextPing + j * cfg.pingMs + cfg.pongMs)) ∧
      (∀ d, dl = some d → tgt < d))
  · intro s hq hq'; simp [hq] at hq'
  · intro s _ hr _ hr'; simp [hr] at hr'
  · intro s d _ _ hd _ h2 _ _ hdl _; have := hdl d hd; omega
  · intro s r hq hr hd hle ih _ _ hdl hT
    have hdl' : ∀ d, (firePing cfg s).deadline = some d → tgt < d := by
      intro d h
      rw [firePing_deadline] at h
      rcases arm_cases cfg s.deadline s.nextPing with h' | h'
      · rw [h'] at h; exact hdl d h
      · rw [h'] at h; simp at h; omega
    obtain ⟨m, dl, hr', h1, h2, h3, h4⟩ := ih hq hr hdl' (by simp; omega)
    refine ⟨m + 1, dl, ?_, ?_, ?_, ?_, h4⟩
    · rw [hr']; simp only [firePing_nextPing, pingList, List.map_cons, Nat.succ_mul]
      simp only [firePing, Nat.add_assoc, Nat.add_comm cfg.pingMs]
    · simp only [firePing_nextPing] at h1; rw [Nat.succ_mul]; omega
    · intro j hj
      cases j with
      | zero => simpa using hle
      | succ j =>
        have := h2 j (by omega)
        simp only [firePing_nextPing] at this; rw [Nat.succ_mul]; omega
    · rcases h3 with h3 | ⟨j, hj, h3⟩
      · rw [firePing_deadline] at h3
        rcases arm_cases cfg s.deadline s.nextPing with h' | h'
        · left; rw [h3, h']
        · right; exact ⟨0, by omega, by rw [h3, h']; simp⟩
      · right
        refine ⟨j + 1, by omega, ?_⟩
        rw [h3, firePing_nextPing, Nat.succ_mul]; congr 1; omega
  · intro s hq hr hd hlt _ _ _ _
    exact ⟨0, s.deadline, by simp [pingList], by simpa using hlt, by intro j hj; omega,
      Or.inl rfl, hd⟩

/-! ## `adv` across a timeout, repaired variant -/

/-- `fixed = true`: with `D` the pending deadline, or the deadline of the next PING when none
    is pending, advancing to a target `≥ D` sends the PINGs due before `D` and then times out
    at `D`. -/
theorem adv_timeout_fixed (cfg : TCfg) (hP : 1 ≤ cfg.pingMs) (hT : 1 ≤ cfg.pongMs)
    (hfix : cfg.fixed = true) (tgt D : Nat) (hD : D ≤ tgt) (s : TState) :
    s.quit = false → s.registered = true →
    (s.deadline = some D ∨ (s.deadline = none ∧ D = s.nextPing + cfg.pongMs)) →
    ∃ m, adv cfg tgt s =
        ({ s with now := D, nextPing := s.nextPing + m * cfg.pingMs, deadline := none,
                  quit := true },
          (pingList s.nextPing cfg.pingMs m).map TOut.ping ++ [TOut.errorTimeout D]) ∧
      (∀ j, j < m → s.nextPing + j * cfg.pingMs < D) ∧ D ≤ s.nextPing + m * cfg.pingMs := by
  apply adv_rel cfg hP tgt (fun s r => s.quit = false → s.registered = true →
    (s.deadline = some D ∨ (s.deadline = none ∧ D = s.nextPing + cfg.pongMs)) →
    ∃ m, r =
        ({ s with now := D, nextPing := s.nextPing + m * cfg.pingMs, deadline := none,
                  quit := true },
          (pingList s.nextPing cfg.pingMs m).map TOut.ping ++ [TOut.errorTimeout D]) ∧
      (∀ j, j < m → s.nextPing + j * cfg.pingMs < D) ∧ D ≤ s.nextPing + m * cfg.pingMs)
  · intro s hq hq'; simp [hq] at hq'
  · intro s _ hr _ hr'; simp [hr] at hr'
  · intro s d _ _ hd h1 _ _ _ hDD
    rcases hDD with h | ⟨h, _⟩
    · rw [hd] at h; simp at h; subst h
      exact ⟨0, by simp [pingList], by intro j hj; omega, by simpa using h1⟩
    · rw [hd] at h; simp at h
  · intro s r hq hr hd hle ih _ _ hDD
    have hdl : (firePing cfg s).deadline = some D := by
      rw [firePing_deadline]
      rcases hDD with h | ⟨h, h'⟩
      · rw [h, arm_fixed_some cfg hfix]
      · rw [h, arm_none, h']
    have hlt : s.nextPing < D := by
      rcases hDD with h | ⟨_, h'⟩
      · exact hd D h
      · omega
    obtain ⟨m, hr', h1, h2⟩ := ih hq hr (Or.inl hdl)
    refine ⟨m + 1, ?_, ?_, ?_⟩
    · rw [hr']; simp only [firePing_nextPing, pingList, List.map_cons, Nat.succ_mul]
      simp only [firePing, Nat.add_assoc, Nat.add_comm cfg.pingMs, List.cons_append]
    · intro j hj
      cases j with
      | zero => simpa using hlt
      | succ j =>
        have := h1 j (by omega)
        simp only [firePing_nextPing] at this; rw [Nat.succ_mul]; omega
    · simp only [firePing_nextPing] at h2; rw [Nat.succ_mul]; omega
  · intro s _ _ hd hlt _ _ hDD
    rcases hDD with h | ⟨_, h'⟩
    · have := hd D h; omega
    · omega

/-! ## `adv` in the code as it is with `T > P`: no timer ever fires -/

theorem adv_unfixed (cfg : TCfg) (hP : 1 ≤ cfg.pingMs) (hfix : cfg.fixed = false)
    (hTP : cfg.pingMs < cfg.pongMs) (tgt : Nat) (s : TState) :
    s.quit = false → (∀ d, s.deadline = some d → s.nextPing < d) →
    (adv cfg tgt s).1.quit = false ∧
      (∀ d, (adv cfg tgt s).1.deadline = some d → (adv cfg tgt s).1.nextPing < d) ∧
      errorTimes (adv cfg tgt s).2 = [] := by
  apply adv_rel cfg hP tgt (fun s r => s.quit = false →
    (∀ d, s.deadline = some d → s.nextPing < d) →
    r.1.quit = false ∧ (∀ d, r.1.deadline = some d → r.1.nextPing < d) ∧ errorTimes r.2 = [])
  · intro s hq hq'; simp [hq] at hq'
  · intro s hq _ _ hd; exact ⟨hq, hd, rfl⟩
  · intro s d _ _ hd h1 _ _ hdl; have := hdl d hd; omega
  · intro s r hq _ _ _ ih _ _
    have := ih hq (by
      intro d h
      rw [firePing_deadline, arm_unfixed cfg hfix] at h
      simp at h; simp; omega)
    exact ⟨this.1, this.2.1, by simpa [errorTimes] using this.2.2⟩
  · intro s hq _ _ _ _ hd; exact ⟨hq, hd, rfl⟩

/-! ## the PING schedule of `adv` (both variants, any state) -/

theorem adv_sched (cfg : TCfg) (hP : 1 ≤ cfg.pingMs) (hT : 1 ≤ cfg.pongMs) (tgt : Nat)
    (s : TState) :
    s.quit = false → s.registered = true →
    (∀ d, s.deadline = some d → s.nextPing < d + cfg.pingMs) →
    ∃ m, (adv cfg tgt s).1.nextPing = s.nextPing + m * cfg.pingMs ∧
      pingTimes (adv cfg tgt s).2 = pingList s.nextPing cfg.pingMs m ∧
      (adv cfg tgt s).1.registered = true ∧ (adv cfg tgt s).1.regAt = s.regAt ∧
      (∀ d, (adv cfg tgt s).1.deadline = some d →
        (adv cfg tgt s).1.nextPing < d + cfg.pingMs) ∧
      ((adv cfg tgt s).1.quit = false → (adv cfg tgt s).1.now = tgt ∧
        tgt < (adv cfg tgt s).1.nextPing ∧
        (m = 0 ∨ (adv cfg tgt s).1.nextPing ≤ tgt + cfg.pingMs) ∧
        errorTimes (adv cfg tgt s).2 = []) ∧
      ((adv cfg tgt s).1.quit = true → (adv cfg tgt s).1.now ≤ (adv cfg tgt s).1.nextPing ∧
        (adv cfg tgt s).1.nextPing < (adv cfg tgt s).1.now + cfg.pingMs ∧
        (adv cfg tgt s).1.now ≤ tgt ∧
        errorTimes (adv cfg tgt s).2 = [(adv cfg tgt s).1.now]) := by
  apply adv_rel cfg hP tgt (fun s r => s.quit = false → s.registered = true →
    (∀ d, s.deadline = some d → s.nextPing < d + cfg.pingMs) →
    ∃ m, r.1.nextPing = s.nextPing + m * cfg.pingMs ∧
      pingTimes r.2 = pingList s.nextPing cfg.pingMs m ∧
      r.1.registered = true ∧ r.1.regAt = s.regAt ∧
      (∀ d, r.1.deadline = some d → r.1.nextPing < d + cfg.pingMs) ∧
      (r.1.quit = false → r.1.now = tgt ∧ tgt < r.1.nextPing ∧
        (m = 0 ∨ r.1.nextPing ≤ tgt + cfg.pingMs) ∧ errorTimes r.2 = []) ∧
      (r.1.quit = true → r.1.now ≤ r.1.nextPing ∧ r.1.nextPing < r.1.now + cfg.pingMs ∧
        r.1.now ≤ tgt ∧ errorTimes r.2 = [r.1.now]))
  · intro s hq hq'; simp [hq] at hq'
  · intro s _ hr _ hr'; simp [hr] at hr'
  · intro s d _ hr hd h1 h2 _ _ hdl
    have := hdl d hd
    exact ⟨0, by simp, by simp [pingTimes, pingList], hr, rfl, by simp, by simp,
      by simp [errorTimes]; omega⟩
  · intro s r hq hr hd hle ih _ _ hdl
    obtain ⟨m, h1, h2, h3, h4, h5, h6, h7⟩ := ih hq hr (by
      intro d h
      rw [firePing_deadline] at h
      rcases arm_cases cfg s.deadline s.nextPing with h' | h'
      · rw [h'] at h; have := hd d h; simp; omega
      · rw [h'] at h; simp at h; simp; omega)
    refine ⟨m + 1, ?_, ?_, h3, h4, h5, ?_, ?_⟩
    · rw [h1, firePing_nextPing, Nat.succ_mul]; omega
    · simp only [pingTimes, pingList, h2, firePing_nextPing]
    · intro hq'
      obtain ⟨a, b, c, e⟩ := h6 hq'
      refine ⟨a, b, Or.inr ?_, by simpa [errorTimes] using e⟩
      rcases c with c | c
      · subst c; simp only [firePing_nextPing] at h1; simp at h1; rw [h1]; omega
      · exact c
    · intro hq'
      obtain ⟨a, b, c, d⟩ := h7 hq'
      exact ⟨a, b, c, by simpa [errorTimes] using d⟩
  · intro s hq hr hd hlt _ _ hdl
    exact ⟨0, by simp, by simp [pingTimes, pingList], hr, rfl, hdl,
      fun _ => ⟨rfl, hlt, Or.inl rfl, rfl⟩, by intro h; simp [hq] at h⟩

/-! ## run level: the unfixed variant with `T > P` -/

theorem tStep_pingCmd_errorTimes (cfg : TCfg) (s : TState) (tok : Str) :
    errorTimes (tStep cfg s (.pingCmd tok)).2 = [] := by
  unfold tStep; split
  · rfl
  · simp only; split <;> rfl

theorem tStep_pingCmd_pingTimes (cfg : TCfg) (s : TState) (tok : Str) :
    pingTimes (tStep cfg s (.pingCmd tok)).2 = [] := by
  unfold tStep; split
  · rfl
  · simp only; split <;> rfl

theorem tStep_pong_out (cfg : TCfg) (s : TState) : (tStep cfg s .pong).2 = [] := by
  unfold tStep; split <;> rfl

theorem tStep_unfixed (cfg : TCfg) (hP : 1 ≤ cfg.pingMs) (hfix : cfg.fixed = false)
    (hTP : cfg.pingMs < cfg.pongMs) (s : TState) (e : TEvent)
    (hq : s.quit = false) (hd : ∀ d, s.deadline = some d → s.nextPing < d) :
    (tStep cfg s e).1.quit = false ∧
      (∀ d, (tStep cfg s e).1.deadline = some d → (tStep cfg s e).1.nextPing < d) ∧
      errorTimes (tStep cfg s e).2 = [] := by
  cases e with
  | advance ms =>
    rw [tStep_advance_of_not_quit cfg s ms hq]
    exact adv_unfixed cfg hP hfix hTP _ s hq hd
  | pong => rw [tStep_pong cfg s hq]; exact ⟨hq, by simp, rfl⟩
  | pingCmd tok =>
    rw [tStep_pingCmd_state]; exact ⟨hq, hd, tStep_pingCmd_errorTimes cfg s tok⟩

theorem tRun_unfixed (cfg : TCfg) (hP : 1 ≤ cfg.pingMs) (hfix : cfg.fixed = false)
    (hTP : cfg.pingMs < cfg.pongMs) (es : List TEvent) (s : TState)
    (hq : s.quit = false) (hd : ∀ d, s.deadline = some d → s.nextPing < d) :
    (tRun cfg s es).1.quit = false ∧ errorTimes (tRun cfg s es).2 = [] := by
  induction es generalizing s with
  | nil => exact ⟨hq, rfl⟩
  | cons e es ih =>
    obtain ⟨h1, h2, h3⟩ := tStep_unfixed cfg hP hfix hTP s e hq hd
    obtain ⟨h4, h5⟩ := ih _ h1 h2
    rw [tRun_cons]; exact ⟨h4, by rw [errorTimes_append, h3, h5]; rfl⟩

/-! ## run level: quit is monotone along a run -/

theorem tRun_take_quit (cfg : TCfg) (s : TState) (es : List TEvent) (n : Nat)
    (h : (tRun cfg s (es.take n)).1.quit = true) : (tRun cfg s es).1.quit = true := by
  have := tRun_append cfg s (es.take n) (es.drop n)
  rw [List.take_append_drop] at this
  rw [this, tRun_quit cfg _ _ h]; exact h

theorem tRun_take_errorTimes (cfg : TCfg) (s : TState) (es : List TEvent) (n : Nat)
    (h : errorTimes (tRun cfg s es).2 = []) : errorTimes (tRun cfg s (es.take n)).2 = [] := by
  have := tRun_append cfg s (es.take n) (es.drop n)
  rw [List.take_append_drop] at this
  rw [this, errorTimes_append] at h
  exact (List.append_eq_nil_iff.mp h).1

/-! ## run level: a client whose PONGs cover every deadline -/

/-- Every deadline that can fall into the run `es` (started in state `s`) is preceded by a
    client PONG: the pending one by a PONG before it, the one of each future PING
    `nextPing + j·P` by a PONG in `[ping, ping + T)`. -/
def Covered (cfg : TCfg) (s : TState) (es : List TEvent) : Prop :=
  (∀ d, s.deadline = some d → d ≤ s.now + duration es → ∃ t, t ∈ pongTimes s.now es ∧ t < d) ∧
  (∀ j, s.nextPing + j * cfg.pingMs + cfg.pongMs ≤ s.now + duration es →
    ∃ t, t ∈ pongTimes s.now es ∧ s.nextPing + j * cfg.pingMs ≤ t ∧
      t < s.nextPing + j * cfg.pingMs + cfg.pongMs)

def Live (s : TState) : Prop := s.quit = false ∧ s.registered = true ∧ s.now < s.nextPing

theorem tStep_live (cfg : TCfg) (hP : 1 ≤ cfg.pingMs) (s : TState) (e : TEvent)
    (es : List TEvent) (hl : Live s) (hc : Covered cfg s (e :: es)) :
    Live (tStep cfg s e).1 ∧ Covered cfg (tStep cfg s e).1 es ∧
      errorTimes (tStep cfg s e).2 = [] := by
  obtain ⟨hq, hr, hlt⟩ := hl
  obtain ⟨ha, hb⟩ := hc
  cases e with
  | advance ms =>
    simp only [pongTimes, duration] at ha hb
    have hge := pongTimes_ge (s.now + ms) es
    have hdl : ∀ d, s.deadline = some d → s.now + ms < d := by
      intro d hd
      apply Nat.lt_of_not_le
      intro hle
      obtain ⟨t, ht, h⟩ := ha d hd (by omega)
      have := hge t ht; omega
    have hnp : s.now + ms < s.nextPing + cfg.pongMs := by
      apply Nat.lt_of_not_le
      intro hle
      obtain ⟨t, ht, _, h⟩ := hb 0 (by simp; omega)
      have := hge t ht; simp at h; omega
    obtain ⟨m, dl, hr', h1, h2, h3, h4⟩ := adv_safe cfg hP (s.now + ms) s hq hr hdl hnp
    rw [tStep_advance_of_not_quit cfg s ms hq, hr']
    refine ⟨⟨hq, hr, h1⟩, ⟨?_, ?_⟩, errorTimes_map_ping _⟩
    · intro d hd hle
      simp only at hd hle
      rcases h3 with h3 | ⟨j, hj, h3⟩
      · exact ha d (by rw [← h3]; exact hd) (by omega)
      · rw [h3] at hd; simp at hd
        obtain ⟨t, ht, _, h⟩ := hb j (by omega)
        exact ⟨t, ht, by omega⟩
    · intro j hle
      simp only at hle ⊢
      have := hb (m + j) (by rw [Nat.add_mul]; omega)
      rw [Nat.add_mul] at this
      obtain ⟨t, ht, h5, h6⟩ := this
      exact ⟨t, ht, by omega, by omega⟩
  | pong =>
    rw [tStep_pong cfg s hq]
    simp only [pongTimes, duration] at ha hb
    refine ⟨⟨hq, hr, hlt⟩, ⟨by simp, ?_⟩, rfl⟩
    intro j hle
    obtain ⟨t, ht, h5, h6⟩ := hb j hle
    simp only [List.mem_cons] at ht
    rcases ht with ht | ht
    · omega
    · exact ⟨t, ht, h5, h6⟩
  | pingCmd tok =>
    rw [tStep_pingCmd_state]
    exact ⟨⟨hq, hr, hlt⟩, ⟨ha, hb⟩, tStep_pingCmd_errorTimes cfg s tok⟩

theorem tRun_live (cfg : TCfg) (hP : 1 ≤ cfg.pingMs) (es : List TEvent) (s : TState)
    (hl : Live s) (hc : Covered cfg s es) :
    (tRun cfg s es).1.quit = false ∧ errorTimes (tRun cfg s es).2 = [] := by
  induction es generalizing s with
  | nil => exact ⟨hl.1, rfl⟩
  | cons e es ih =>
    obtain ⟨h1, h2, h3⟩ := tStep_live cfg hP s e es hl hc
    obtain ⟨h4, h5⟩ := ih _ h1 h2
    rw [tRun_cons]; exact ⟨h4, by rw [errorTimes_append, h3, h5]; rfl⟩

/-! ## run level: runs without PONG collapse to one `advance` -/

/-- the timer output: server PINGs and the timeout ERROR (echo replies dropped) -/
def timerOut : List TOut → List TOut
  | [] => []
  | .pongReply _ _ :: os => timerOut os
  | o :: os => o :: timerOut os

theorem timerOut_append (a b : List TOut) : timerOut (a ++ b) = timerOut a ++ timerOut b := by
  induction a with
  | nil => rfl
  | cons o os ih => cases o <;> simp [timerOut, ih]

theorem timerOut_map_ping (l : List Nat) : timerOut (l.map TOut.ping) = l.map TOut.ping := by
  induction l with
  | nil => rfl
  | cons a l ih => simp [timerOut, ih]

theorem errorTimes_timerOut (l : List TOut) : errorTimes (timerOut l) = errorTimes l := by
  induction l with
  | nil => rfl
  | cons o os ih => cases o <;> simp [timerOut, errorTimes, ih]

theorem pingTimes_timerOut (l : List TOut) : pingTimes (timerOut l) = pingTimes l := by
  induction l with
  | nil => rfl
  | cons o os ih => cases o <;> simp [timerOut, pingTimes, ih]

theorem tStep_pingCmd_timerOut (cfg : TCfg) (s : TState) (tok : Str) :
    timerOut (tStep cfg s (.pingCmd tok)).2 = [] := by
  unfold tStep; split
  · rfl
  · simp only; split <;> rfl

/-- clock well-formedness: every internal event lies in the future -/
def WF (s : TState) : Prop :=
  s.quit = false → s.registered = true →
    s.now < s.nextPing ∧ ∀ d, s.deadline = some d → s.now < d

theorem adv_wf (cfg : TCfg) (hP : 1 ≤ cfg.pingMs) (tgt : Nat) (s : TState) :
    s.quit = false → WF (adv cfg tgt s).1 := by
  apply adv_rel cfg hP tgt (fun s r => s.quit = false → WF r.1)
  · intro s hq hq'; simp [hq] at hq'
  · intro s _ hr _ _ hr'; simp [hr] at hr'
  · intro s d _ _ _ _ _ _ h; simp at h
  · intro s r hq _ _ _ ih _; exact ih hq
  · intro s _ _ hd hlt _ _ _; exact ⟨hlt, hd⟩

theorem tStep_wf (cfg : TCfg) (hP : 1 ≤ cfg.pingMs) (s : TState) (e : TEvent) (h : WF s) :
    WF (tStep cfg s e).1 := by
  by_cases hq : s.quit = true
  · rw [tStep_quit cfg s e hq]; exact h
  have hq : s.quit = false := by simpa using hq
  cases e with
  | advance ms => rw [tStep_advance_of_not_quit cfg s ms hq]; exact adv_wf cfg hP _ s hq
  | pong =>
    rw [tStep_pong cfg s hq]
    intro a b; exact ⟨(h a b).1, by simp⟩
  | pingCmd tok => rw [tStep_pingCmd_state]; exact h

theorem tStep_advance_zero (cfg : TCfg) (s : TState) (h : WF s) :
    tStep cfg s (.advance 0) = (s, []) := by
  by_cases hq : s.quit = true
  · exact tStep_quit cfg s _ hq
  have hq : s.quit = false := by simpa using hq
  rw [tStep_advance_of_not_quit cfg s 0 hq]
  by_cases hr : s.registered = false
  · rw [adv_unreg cfg _ s hq hr]; rfl
  have hr : s.registered = true := by simpa using hr
  obtain ⟨h1, h2⟩ := h hq hr
  rw [adv_idle cfg _ s hq hr (by simpa using h2) (by simpa using h1)]; rfl

/-- A run without client PONG is, as far as the timers are concerned, a single `advance`. -/
theorem tRun_noPong (cfg : TCfg) (hP : 1 ≤ cfg.pingMs) (es : List TEvent) (s : TState)
    (hwf : WF s) (hnp : noPong es = true) :
    (tRun cfg s es).1 = (tStep cfg s (.advance (duration es))).1 ∧
      timerOut (tRun cfg s es).2 = timerOut (tStep cfg s (.advance (duration es))).2 := by
  induction es generalizing s with
  | nil => rw [tRun_nil]; simp only [duration]; rw [tStep_advance_zero cfg s hwf]; exact ⟨rfl, rfl⟩
  | cons e es ih =>
    cases e with
    | pong => simp [noPong] at hnp
    | advance ms =>
      have hnp' : noPong es = true := by simpa [noPong] using hnp
      obtain ⟨h1, h2⟩ := ih _ (tStep_wf cfg hP s (.advance ms) hwf) hnp'
      rw [tRun_cons]; simp only [duration]
      rw [tStep_advance_add cfg hP s ms (duration es)]
      exact ⟨h1, by rw [timerOut_append, timerOut_append, h2]⟩
    | pingCmd tok =>
      have hnp' : noPong es = true := by simpa [noPong] using hnp
      rw [tRun_cons]; simp only [duration]
      rw [tStep_pingCmd_state, timerOut_append, tStep_pingCmd_timerOut]
      exact ih s hwf hnp'

/-! ## the repaired variant before the deadline -/

theorem adv_before_fixed (cfg : TCfg) (hP : 1 ≤ cfg.pingMs) (hfix : cfg.fixed = true)
    (tgt D : Nat) (hD : tgt < D) (s : TState) :
    s.quit = false → s.registered = true →
    (s.deadline = some D ∨ (s.deadline = none ∧ D = s.nextPing + cfg.pongMs)) →
    (adv cfg tgt s).1.quit = false ∧ errorTimes (adv cfg tgt s).2 = [] := by
  apply adv_rel cfg hP tgt (fun s r => s.quit = false → s.registered = true →
    (s.deadline = some D ∨ (s.deadline = none ∧ D = s.nextPing + cfg.pongMs)) →
    r.1.quit = false ∧ errorTimes r.2 = [])
  · intro s hq hq'; simp [hq] at hq'
  · intro s _ hr _ hr'; simp [hr] at hr'
  · intro s d _ _ hd _ h2 _ _ hDD
    rcases hDD with h | ⟨h, _⟩
    · rw [hd] at h; simp at h; omega
    · rw [hd] at h; simp at h
  · intro s r hq hr _ _ ih _ _ hDD
    have hdl : (firePing cfg s).deadline = some D := by
      rw [firePing_deadline]
      rcases hDD with h | ⟨h, h'⟩
      · rw [h, arm_fixed_some cfg hfix]
      · rw [h, arm_none, h']
    obtain ⟨h1, h2⟩ := ih hq hr (Or.inl hdl)
    exact ⟨h1, by simpa [errorTimes] using h2⟩
  · intro s hq _ _ _ _ _ _; exact ⟨hq, rfl⟩

/-! ## run level: the PING schedule -/

/-- invariant of every run from `TState.start cfg regAt`: `n` PINGs were sent, at
    `regAt + P, …, regAt + n·P`; the next is due at `regAt + (n+1)·P`. -/
def Sched (cfg : TCfg) (regAt : Nat) (s : TState) (out : List TOut) : Prop :=
  s.registered = true ∧
  (∀ d, s.deadline = some d → s.nextPing < d + cfg.pingMs) ∧
  ∃ n, s.nextPing = regAt + (n + 1) * cfg.pingMs ∧
    pingTimes out = pingList (regAt + cfg.pingMs) cfg.pingMs n ∧
    (s.quit = false →
      s.now < s.nextPing ∧ s.nextPing ≤ s.now + cfg.pingMs ∧ errorTimes out = []) ∧
    (s.quit = true →
      s.now ≤ s.nextPing ∧ s.nextPing < s.now + cfg.pingMs ∧ errorTimes out = [s.now])

theorem sched_start (cfg : TCfg) (hP : 1 ≤ cfg.pingMs) (regAt : Nat) :
    Sched cfg regAt (TState.start cfg regAt) [] := by
  refine ⟨rfl, by simp [TState.start], 0, by simp [TState.start], rfl, ?_, ?_⟩
  · intro _; simp [TState.start, errorTimes]; omega
  · intro h; simp [TState.start] at h

theorem tStep_sched (cfg : TCfg) (hP : 1 ≤ cfg.pingMs) (hT : 1 ≤ cfg.pongMs) (regAt : Nat)
    (s : TState) (out : List TOut) (e : TEvent) (h : Sched cfg regAt s out) :
    Sched cfg regAt (tStep cfg s e).1 (out ++ (tStep cfg s e).2) := by
  by_cases hq : s.quit = true
  · rw [tStep_quit cfg s e hq]; simpa using h
  have hq : s.quit = false := by simpa using hq
  obtain ⟨hr, hd, n, hn, hp, hA, hB⟩ := h
  obtain ⟨hA1, hA2, hA3⟩ := hA hq
  cases e with
  | advance ms =>
    rw [tStep_advance_of_not_quit cfg s ms hq]
    obtain ⟨m, h1, h2, h3, _, h5, h6, h7⟩ := adv_sched cfg hP hT (s.now + ms) s hq hr hd
    refine ⟨h3, h5, n + m, ?_, ?_, ?_, ?_⟩
    · rw [h1, hn]; simp only [Nat.add_mul, Nat.succ_mul]; omega
    · rw [pingTimes_append, hp, h2, pingList_append, hn]
      congr 2; simp only [Nat.succ_mul]; omega
    · intro hq'
      obtain ⟨a, b, c, d⟩ := h6 hq'
      refine ⟨by omega, ?_, by rw [errorTimes_append, hA3, d]; rfl⟩
      rcases c with c | c
      · subst c; simp at h1; omega
      · omega
    · intro hq'
      obtain ⟨a, b, _, d⟩ := h7 hq'
      exact ⟨a, b, by rw [errorTimes_append, hA3, d]; rfl⟩
  | pong =>
    rw [tStep_pong cfg s hq]
    refine ⟨hr, by simp, n, hn, by simpa using hp, ?_, ?_⟩
    · intro _; exact ⟨hA1, hA2, by simpa using hA3⟩
    · intro h; simp [hq] at h
  | pingCmd tok =>
    rw [tStep_pingCmd_state]
    refine ⟨hr, hd, n, hn, ?_, ?_, ?_⟩
    · rw [pingTimes_append, tStep_pingCmd_pingTimes]; simpa using hp
    · intro _
      exact ⟨hA1, hA2, by rw [errorTimes_append, tStep_pingCmd_errorTimes]; simpa using hA3⟩
    · intro h; simp [hq] at h

theorem tRun_sched (cfg : TCfg) (hP : 1 ≤ cfg.pingMs) (hT : 1 ≤ cfg.pongMs) (regAt : Nat)
    (es : List TEvent) (s : TState) (out : List TOut) (h : Sched cfg regAt s out) :
    Sched cfg regAt (tRun cfg s es).1 (out ++ (tRun cfg s es).2) := by
  induction es generalizing s out with
  | nil => simpa [tRun_nil] using h
  | cons e es ih =>
    rw [tRun_cons]
    have := ih _ _ (tStep_sched cfg hP hT regAt s out e h)
    simpa [List.append_assoc] using this

/-- the clock of a run that has not quit -/
theorem tRun_now (cfg : TCfg) (hP : 1 ≤ cfg.pingMs) (es : List TEvent) (s : TState)
    (h : (tRun cfg s es).1.quit = false) : (tRun cfg s es).1.now = s.now + duration es := by
  induction es generalizing s with
  | nil => rfl
  | cons e es ih =>
    rw [tRun_cons] at h ⊢
    simp only at h ⊢
    have hq1 : (tStep cfg s e).1.quit = false := by
      cases hq1 : (tStep cfg s e).1.quit with
      | false => rfl
      | true => rw [tRun_quit cfg _ _ hq1] at h; rw [hq1] at h; exact h
    have hq : s.quit = false := by
      cases hq : s.quit with
      | false => rfl
      | true => rw [tStep_quit cfg s e hq] at hq1; rw [hq] at hq1; exact hq1
    rw [ih _ h]
    cases e with
    | advance ms =>
      rw [tStep_advance_of_not_quit cfg s ms hq] at hq1 ⊢
      rw [adv_now cfg hP _ s hq hq1]; simp only [duration]; omega
    | pong => rw [tStep_pong cfg s hq]; rfl
    | pingCmd tok => rw [tStep_pingCmd_state]; rfl

/-! ## run level: the silent client in the repaired variant -/

theorem silent_core (cfg : TCfg) (hP : 1 ≤ cfg.pingMs) (hT : 1 ≤ cfg.pongMs)
    (hfix : cfg.fixed = true) (s : TState) (es : List TEvent) (D : Nat)
    (hq : s.quit = false) (hr : s.registered = true) (hnow : s.now < s.nextPing)
    (hDD : (s.deadline = some D ∧ s.now < D) ∨
      (s.deadline = none ∧ D = s.nextPing + cfg.pongMs))
    (hnp : noPong es = true) :
    (s.now + duration es < D →
      (tRun cfg s es).1.quit = false ∧ errorTimes (tRun cfg s es).2 = []) ∧
    (D ≤ s.now + duration es →
      ∃ m, (tRun cfg s es).1 =
          { s with now := D, nextPing := s.nextPing + m * cfg.pingMs, deadline := none,
                   quit := true } ∧
        timerOut (tRun cfg s es).2 =
          (pingList s.nextPing cfg.pingMs m).map TOut.ping ++ [TOut.errorTimeout D] ∧
        (∀ j, j < m ↔ s.nextPing + j * cfg.pingMs < D)) := by
  have hwf : WF s := by
    intro _ _
    refine ⟨hnow, ?_⟩
    intro d hd
    rcases hDD with ⟨h, h'⟩ | ⟨h, _⟩
    · rw [h] at hd; simp at hd; omega
    · rw [h] at hd; simp at hd
  have hDD' : s.deadline = some D ∨ (s.deadline = none ∧ D = s.nextPing + cfg.pongMs) := by
    rcases hDD with ⟨h, _⟩ | h
    · exact Or.inl h
    · exact Or.inr h
  obtain ⟨h1, h2⟩ := tRun_noPong cfg hP es s hwf hnp
  rw [tStep_advance_of_not_quit cfg s _ hq] at h1 h2
  constructor
  · intro hlt
    obtain ⟨a, b⟩ := adv_before_fixed cfg hP hfix _ D hlt s hq hr hDD'
    exact ⟨by rw [h1]; exact a, by rw [← errorTimes_timerOut, h2, errorTimes_timerOut]; exact b⟩
  · intro hle
    obtain ⟨m, a, b, c⟩ := adv_timeout_fixed cfg hP hT hfix _ D hle s hq hr hDD'
    refine ⟨m, by rw [h1, a], ?_, ?_⟩
    · rw [h2, a]; simp only [timerOut_append, timerOut_map_ping]; rfl
    · intro j
      constructor
      · exact b j
      · intro hj
        apply Nat.lt_of_not_le
        intro hmj
        have := Nat.mul_le_mul_right cfg.pingMs hmj
        omega

/-! ## a client that answers the `k`-th PING `δ k` ms later -/

def delayAt (δ : Nat → Nat) : Nat → Nat
  | 0 => 0
  | k + 1 => δ (k + 1)

/-- `n` rounds: wait for the next PING plus `δ`, answer. -/
def answering (P : Nat) (δ : Nat → Nat) : Nat → List TEvent
  | 0 => []
  | n + 1 => answering P δ n ++ [.advance (P + δ (n + 1) - delayAt δ n), .pong]

theorem duration_append (a b : List TEvent) : duration (a ++ b) = duration a + duration b := by
  induction a with
  | nil => simp [duration]
  | cons e es ih => cases e <;> simp [duration, ih, Nat.add_assoc]

theorem pongTimes_append (t0 : Nat) (a b : List TEvent) :
    pongTimes t0 (a ++ b) = pongTimes t0 a ++ pongTimes (t0 + duration a) b := by
  induction a generalizing t0 with
  | nil => simp [pongTimes, duration]
  | cons e es ih => cases e <;> simp [pongTimes, duration, ih, Nat.add_assoc]

theorem delayAt_succ (δ : Nat → Nat) (k : Nat) : delayAt δ (k + 1) = δ (k + 1) := rfl

theorem delayAt_lt (δ : Nat → Nat) (B : Nat) (hB : 0 < B) (h : ∀ k, δ k < B) (n : Nat) :
    delayAt δ n < B := by
  cases n with
  | zero => exact hB
  | succ n => exact h (n + 1)

theorem duration_answering (P : Nat) (δ : Nat → Nat) (h : ∀ k, δ k < P) (n : Nat) :
    duration (answering P δ n) = n * P + delayAt δ n := by
  induction n with
  | zero => simp [answering, duration, delayAt]
  | succ n ih =>
    have := delayAt_lt δ P (by have := h 0; omega) h n
    rw [answering, duration_append, ih]
    simp only [duration, delayAt_succ, Nat.succ_mul]; omega

theorem mem_pongTimes_answering (P : Nat) (δ : Nat → Nat) (h : ∀ k, δ k < P) (regAt : Nat)
    (n k : Nat) (hk : 1 ≤ k) (hkn : k ≤ n) :
    regAt + k * P + δ k ∈ pongTimes regAt (answering P δ n) := by
  induction n with
  | zero => omega
  | succ n ih =>
    rw [answering, pongTimes_append, List.mem_append]
    by_cases hkn' : k ≤ n
    · exact Or.inl (ih hkn')
    · right
      have hk' : k = n + 1 := by omega
      subst hk'
      have := delayAt_lt δ P (by have := h 0; omega) h n
      simp only [pongTimes, duration_answering P δ h n, List.mem_cons, List.not_mem_nil,
        or_false, Nat.succ_mul]
      omega

end Irc.Timer
