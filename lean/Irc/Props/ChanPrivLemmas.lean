/-
  Helper lemmas for properties C08 (channel MODE privileges) and C09 (KICK / TOPIC / INVITE).
-/
import Irc.Inv
import Irc.Lemmas.Frame
import Irc.InvCheck

namespace Irc

open Reply

/-! ### generic helpers -/

/-- the connection that owns the user registered under nick `n` (0 if there is none) -/
def ownerOf (w : World) (n : Str) : Nat := ((Map.lookup n w.users).map (·.owner)).getD 0

theorem Ctx.send_known (x : Ctx) (n line : Str) (h : Map.contains n x.w.users = true) :
    x.send n line = { x with queued := x.queued ++ [(ownerOf x.w n, line)] } := by
  obtain ⟨u, hu⟩ := (Map.contains_iff _ _).mp h
  simp [Ctx.send, ownerOf, hu]

theorem Ctx.sendAll_known (x : Ctx) (ns : List Str) (line : Str)
    (h : ∀ n ∈ ns, Map.contains n x.w.users = true) :
    x.sendAll ns line = { x with queued := x.queued ++ ns.map (fun n => (ownerOf x.w n, line)) } := by
  unfold Ctx.sendAll
  induction ns generalizing x with
  | nil => simp
  | cons n ns ih =>
    simp only [List.foldl_cons]
    rw [Ctx.send_known x n line (h n List.mem_cons_self)]
    rw [ih]
    · simp
    · intro m hm; exact h m (List.mem_cons_of_mem _ hm)

theorem Ctx.sendDisplayAll_known (x : Ctx) (ns : List Str) (src t : Str)
    (h : ∀ n ∈ ns, Map.contains n x.w.users = true) :
    ns.foldl (fun x n => x.sendDisplay n src t) x =
      { x with queued := x.queued ++ ns.map (fun n => (ownerOf x.w n, ':' :: (src ++ ' ' :: t))) } :=
  Ctx.sendAll_known x ns (':' :: (src ++ ' ' :: t)) h

theorem Map.keys_insert_of_contains {α : Type} (k : Str) (v : α) (m : Map α)
    (h : Map.contains k m = true) : Map.keys (Map.insert k v m) = Map.keys m := by
  induction m with
  | nil => simp [Map.contains, Map.lookup] at h
  | cons p m ih =>
    obtain ⟨k', v'⟩ := p
    simp only [Map.insert]
    split
    · rename_i hk; simp [Map.keys, hk]
    · rename_i hk
      have : Map.contains k m = true := by
        simpa [Map.contains, Map.lookup, hk] using h
      have := ih this
      simp_all [Map.keys]

theorem Map.contains_insert {α : Type} (k k' : Str) (v : α) (m : Map α) :
    Map.contains k (Map.insert k' v m) = (decide (k' = k) || Map.contains k m) := by
  unfold Map.contains
  rw [Map.lookup_insert]
  split <;> simp_all

theorem Map.contains_of_lookup {α : Type} {k : Str} {v : α} {m : Map α}
    (h : Map.lookup k m = some v) : Map.contains k m = true := by
  simp [Map.contains, h]

theorem KSet.mem_eq_false_iff (k : Str) (s : KSet) : KSet.mem k s = false ↔ k ∉ s := by
  rw [← KSet.mem_iff]; simp

/-! ### rank letters, `Channel.setRank` -/

/-- the five member-rank letters -/
def rankLetters : List Char := ['q', 'a', 'o', 'h', 'v']

/-- the member flag named by a rank letter -/
def rankFlag (m : ChanUserModes) (l : Char) : Bool :=
  if l = 'q' then m.founder else if l = 'a' then m.prot else if l = 'o' then m.operator
  else if l = 'h' then m.halfOper else if l = 'v' then m.voice else false

/-- the rank list named by a rank letter -/
def rankList (m : ChannelModes) (l : Char) : KSet :=
  if l = 'q' then m.founders else if l = 'a' then m.protecteds else if l = 'o' then m.operators
  else if l = 'h' then m.halfOperators else if l = 'v' then m.voices else []

/-- everything of a channel except the member map and the five rank lists is equal -/
structure SameSettings (C C' : Channel) : Prop where
  topic : C'.topic = C.topic
  defaultModes : C'.defaultModes = C.defaultModes
  banInfo : C'.banInfo = C.banInfo
  preconfigured : C'.preconfigured = C.preconfigured
  ban : C'.modes.ban = C.modes.ban
  exception : C'.modes.exception = C.modes.exception
  inviteException : C'.modes.inviteException = C.modes.inviteException
  clientLimit : C'.modes.clientLimit = C.modes.clientLimit
  key : C'.modes.key = C.modes.key
  inviteOnly : C'.modes.inviteOnly = C.modes.inviteOnly
  moderated : C'.modes.moderated = C.modes.moderated
  secret : C'.modes.secret = C.modes.secret
  protectedTopic : C'.modes.protectedTopic = C.modes.protectedTopic
  noExternalMessages : C'.modes.noExternalMessages = C.modes.noExternalMessages

theorem rankMirror_iff (C : Channel) :
    RankMirror C ↔ ∀ l ∈ rankLetters, ∀ n,
      KSet.mem n (rankList C.modes l) = true ↔ ∃ m, Map.lookup n C.users = some m ∧ rankFlag m l = true := by
  constructor
  · intro h l hl n
    simp only [rankLetters, List.mem_cons, List.not_mem_nil, or_false] at hl
    rcases hl with rfl | rfl | rfl | rfl | rfl
    · simpa [rankList, rankFlag] using h.founders n
    · simpa [rankList, rankFlag] using h.protecteds n
    · simpa [rankList, rankFlag] using h.operators n
    · simpa [rankList, rankFlag] using h.halfOperators n
    · simpa [rankList, rankFlag] using h.voices n
  · intro h
    constructor
    · intro n; simpa [rankList, rankFlag] using h 'q' (by simp [rankLetters]) n
    · intro n; simpa [rankList, rankFlag] using h 'a' (by simp [rankLetters]) n
    · intro n; simpa [rankList, rankFlag] using h 'o' (by simp [rankLetters]) n
    · intro n; simpa [rankList, rankFlag] using h 'h' (by simp [rankLetters]) n
    · intro n; simpa [rankList, rankFlag] using h 'v' (by simp [rankLetters]) n

theorem Channel.setRank_eq_none (C : Channel) (l : Char) (n : Str) (on : Bool) :
    C.setRank l n on = none ↔ Map.lookup n C.users = none := by
  unfold Channel.setRank
  cases h : Map.lookup n C.users <;> simp

theorem KSet.mem_upd (n' n : Str) (on : Bool) (s : KSet) :
    KSet.mem n' (if on = true then KSet.insert n s else KSet.erase n s) =
      if n' = n then on else KSet.mem n' s := by
  cases on
  · simp only [Bool.false_eq_true, ↓reduceIte]; rw [KSet.mem_erase]; split <;> simp_all
  · simp only [↓reduceIte]; rw [KSet.mem_insert]; split <;> simp_all

/-- full description of a successful `setRank` -/
theorem Channel.setRank_spec (C C' : Channel) (l : Char) (hl : l ∈ rankLetters) (n : Str) (on : Bool)
    (h : C.setRank l n on = some C') :
    ∃ m m', Map.lookup n C.users = some m ∧ Map.lookup n C'.users = some m' ∧
      rankFlag m' l = on ∧
      (∀ l', l' ≠ l → rankFlag m' l' = rankFlag m l') ∧
      (∀ n', n' ≠ n → Map.lookup n' C'.users = Map.lookup n' C.users) ∧
      (∀ n', KSet.mem n' (rankList C'.modes l) = if n' = n then on else KSet.mem n' (rankList C.modes l)) ∧
      (∀ l', l' ≠ l → rankList C'.modes l' = rankList C.modes l') ∧
      Map.keys C'.users = Map.keys C.users ∧
      SameSettings C C' := by
  unfold Channel.setRank at h
  cases hm : Map.lookup n C.users with
  | none => simp [hm] at h
  | some m =>
    have hc : Map.contains n C.users = true := Map.contains_of_lookup hm
    simp only [hm] at h
    simp only [rankLetters, List.mem_cons, List.not_mem_nil, or_false] at hl
    rcases hl with rfl | rfl | rfl | rfl | rfl
    all_goals
      simp only [Char.reduceEq, ↓reduceIte, Option.some.injEq] at h
      subst h
      refine ⟨m, _, rfl, Map.lookup_insert_eq _ _ _, by simp [rankFlag], ?_, ?_, ?_, ?_,
        Map.keys_insert_of_contains _ _ _ hc, ⟨rfl, rfl, rfl, rfl, rfl, rfl, rfl, rfl, rfl, rfl, rfl, rfl, rfl, rfl⟩⟩
      · intro l' hl'
        simp only [rankFlag]
        repeat' split
        all_goals first | rfl | (subst_vars; simp at hl')
      · intro n' hn'; exact Map.lookup_insert_ne _ _ _ _ (Ne.symm hn')
      · intro n'; simp only [rankList, Char.reduceEq, ↓reduceIte]; exact KSet.mem_upd _ _ _ _
      · intro l' hl'
        simp only [rankList]
        repeat' split
        all_goals first | rfl | (subst_vars; simp at hl')

theorem Channel.setRank_mirror (C C' : Channel) (l : Char) (hl : l ∈ rankLetters) (n : Str) (on : Bool)
    (hC : RankMirror C) (h : C.setRank l n on = some C') : RankMirror C' := by
  obtain ⟨m, m', hm, hm', hon, hoth, hothn, hlist, holist, -, -⟩ := Channel.setRank_spec C C' l hl n on h
  rw [rankMirror_iff] at hC ⊢
  intro l' hl' n'
  by_cases hll : l' = l
  · subst hll
    rw [hlist n']
    by_cases hnn : n' = n
    · subst hnn
      simp only [↓reduceIte, hm', Option.some.injEq, exists_eq_left', hon]
    · simp only [hnn, ↓reduceIte, hothn n' hnn]
      exact hC l' hl' n'
  · rw [holist l' hll]
    by_cases hnn : n' = n
    · subst hnn
      rw [hC l' hl' n']
      simp only [hm, hm', Option.some.injEq, exists_eq_left', hoth l' hll]
    · rw [hothn n' hnn]; exact hC l' hl' n'

/-! ### the channel-MODE loop: what it never touches -/

/-- what no step of the channel-MODE loop ever touches -/
structure ModeFrame (a a' : ModeAcc) : Prop where
  queued : a'.x.queued = a.x.queued
  world : ∃ p, a'.x.w = { a.x.w with panicked := p }
  direct : ∃ l, a'.x.direct = a.x.direct ++ l
  keys : Map.keys a'.ch.users = Map.keys a.ch.users
  topic : a'.ch.topic = a.ch.topic
  defaultModes : a'.ch.defaultModes = a.ch.defaultModes
  preconfigured : a'.ch.preconfigured = a.ch.preconfigured

theorem ModeFrame.refl (a : ModeAcc) : ModeFrame a a :=
  ⟨rfl, ⟨_, rfl⟩, ⟨[], by simp⟩, rfl, rfl, rfl, rfl⟩

theorem ModeFrame.trans {a b c : ModeAcc} (h1 : ModeFrame a b) (h2 : ModeFrame b c) : ModeFrame a c := by
  obtain ⟨q1, ⟨p1, w1⟩, ⟨l1, d1⟩, k1, t1, dm1, pc1⟩ := h1
  obtain ⟨q2, ⟨p2, w2⟩, ⟨l2, d2⟩, k2, t2, dm2, pc2⟩ := h2
  refine ⟨q2.trans q1, ⟨p2, ?_⟩, ⟨l1 ++ l2, ?_⟩, k2.trans k1, t2.trans t1, dm2.trans dm1, pc2.trans pc1⟩
  · rw [w2, w1]
  · rw [d2, d1]; simp

theorem foldl_reply_frame (cfg : Cfg) {α : Type} (f : α → Str) (l : List α) (x : Ctx) :
    (l.foldl (fun x b => x.reply cfg (f b)) x).queued = x.queued ∧
    (l.foldl (fun x b => x.reply cfg (f b)) x).w = x.w ∧
    ∃ d, (l.foldl (fun x b => x.reply cfg (f b)) x).direct = x.direct ++ d := by
  induction l generalizing x with
  | nil => exact ⟨rfl, rfl, [], by simp⟩
  | cons b l ih =>
    obtain ⟨h1, h2, d, h3⟩ := ih (x.reply cfg (f b))
    refine ⟨h1, h2, (':' :: (cfg.name ++ ' ' :: f b)) :: d, ?_⟩
    simp only [List.foldl_cons, h3]; simp



theorem ModeFrame.of_x_eq {a a' : ModeAcc} (hx : a'.x = a.x)
    (k : Map.keys a'.ch.users = Map.keys a.ch.users) (t : a'.ch.topic = a.ch.topic)
    (d : a'.ch.defaultModes = a.ch.defaultModes) (p : a'.ch.preconfigured = a.ch.preconfigured) :
    ModeFrame a a' :=
  ⟨by rw [hx], ⟨_, by rw [hx]⟩, ⟨[], by rw [hx]; simp⟩, k, t, d, p⟩

theorem ModeFrame.of_reply {a a' : ModeAcc} (cfg : Cfg) (t : Str) (hx : a'.x = a.x.reply cfg t)
    (k : Map.keys a'.ch.users = Map.keys a.ch.users) (tp : a'.ch.topic = a.ch.topic)
    (d : a'.ch.defaultModes = a.ch.defaultModes) (p : a'.ch.preconfigured = a.ch.preconfigured) :
    ModeFrame a a' :=
  ⟨by rw [hx]; rfl, ⟨_, by rw [hx]; rfl⟩, ⟨_, by rw [hx]; rfl⟩, k, tp, d, p⟩

theorem ModeFrame.of_panic {a a' : ModeAcc} (s : String) (hx : a'.x = a.x.panic s)
    (k : Map.keys a'.ch.users = Map.keys a.ch.users) (tp : a'.ch.topic = a.ch.topic)
    (d : a'.ch.defaultModes = a.ch.defaultModes) (p : a'.ch.preconfigured = a.ch.preconfigured) :
    ModeFrame a a' :=
  ⟨by rw [hx]; rfl, ⟨_, by rw [hx]; rfl⟩, ⟨[], by rw [hx]; simp⟩, k, tp, d, p⟩

theorem ModeFrame.of_list {a a' : ModeAcc} (cfg : Cfg) {α : Type} (f : α → Str) (l : List α) (t : Str)
    (hx : a'.x = (l.foldl (fun x b => x.reply cfg (f b)) a.x).reply cfg t)
    (hc : a'.ch = a.ch) : ModeFrame a a' := by
  obtain ⟨h1, h2, d, h3⟩ := foldl_reply_frame cfg f l a.x
  refine ⟨by rw [hx]; exact h1, ⟨a.x.w.panicked, by rw [hx, Ctx.reply_w, h2]⟩, ⟨d ++ [':' :: (cfg.name ++ ' ' :: t)], ?_⟩, by rw [hc], by rw [hc], by rw [hc], by rw [hc]⟩
  rw [hx]; simp only [Ctx.reply_direct, h3, List.append_assoc]

theorem modeChar_frame (cfg : Cfg) (cn : Conn) (target : Str) (chum : ChanUserModes) (a : ModeAcc)
    (mchar : Char) : ModeFrame a (modeChar cfg cn target chum a mchar) := by
  unfold modeChar
  extract_lets client nick err482 preChecked a1 ifHalfOp sign
  have h1 : ModeFrame a a1 := by
    show ModeFrame a (if _ then _ else _)
    split
    · exact ModeFrame.of_reply cfg _ rfl rfl rfl rfl rfl
    · exact ModeFrame.refl _
  refine h1.trans ?_
  clear_value a1 sign ifHalfOp preChecked
  clear h1
  by_cases hmem : mchar ∈ ['+', '-', 'b', 'e', 'I', 'o', 'v', 'h', 'q', 'a', 'l', 'k', 'i', 'm', 't', 'n', 's']
  · simp only [List.mem_cons, List.not_mem_nil, or_false] at hmem
    rcases hmem with rfl | rfl | rfl | rfl | rfl | rfl | rfl | rfl | rfl | rfl | rfl | rfl | rfl | rfl | rfl | rfl | rfl
    all_goals simp only [Char.reduceEq, ↓reduceIte, decide_false, decide_true, Bool.or_false, Bool.or_true, Bool.false_eq_true]
    all_goals repeat' split
    all_goals first
      | exact ModeFrame.refl _
      | exact ModeFrame.of_x_eq rfl rfl rfl rfl rfl
      | exact ModeFrame.of_reply cfg _ rfl rfl rfl rfl rfl
      | exact ModeFrame.of_panic _ rfl rfl rfl rfl rfl
      | exact ModeFrame.of_list cfg _ _ _ rfl rfl
      | skip
    all_goals
      rename_i hsr
      obtain ⟨-, -, -, -, -, -, -, -, -, hk, hs⟩ := Channel.setRank_spec _ _ _ (by simp [rankLetters]) _ _ hsr
      exact ModeFrame.of_x_eq rfl hk hs.topic hs.defaultModes hs.preconfigured
  · simp only [List.mem_cons, List.not_mem_nil, or_false, not_or] at hmem
    obtain ⟨h1, h2, h3, h4, h5, h6, h7, h8, h9, h10, h11, h12, h13, h14, h15, h16, h17⟩ := hmem
    simp only [h1, h2, h3, h4, h5, h6, h7, h8, h9, h10, h11, h12, h13, h14, h15, h16, h17, ↓reduceIte, decide_false, Bool.or_false]
    exact ModeFrame.refl _


theorem modeGroup_frame (cfg : Cfg) (cn : Conn) (target : Str) (chum : ChanUserModes) (a : ModeAcc)
    (g : Str × List Str) : ModeFrame a (modeGroup cfg cn target chum a g) := by
  unfold modeGroup
  have h0 : ModeFrame a { a with args := g.2, modeSet := false } := ModeFrame.of_x_eq rfl rfl rfl rfl rfl
  generalize ({ a with args := g.2, modeSet := false } : ModeAcc) = b at h0 ⊢
  induction g.1 generalizing b with
  | nil => exact h0
  | cons m ms ih => exact ih _ (h0.trans (modeChar_frame cfg cn target chum b m))

theorem modeRun_frame (cfg : Cfg) (cn : Conn) (target : Str) (chum : ChanUserModes) (a : ModeAcc)
    (modes : List (Str × List Str)) :
    ModeFrame a (modes.foldl (modeGroup cfg cn target chum) a) := by
  suffices h : ∀ b, ModeFrame a b → ModeFrame a (modes.foldl (modeGroup cfg cn target chum) b) from
    h a (ModeFrame.refl a)
  intro b h0
  induction modes generalizing b with
  | nil => exact h0
  | cons g gs ih => exact ih _ (h0.trans (modeGroup_frame cfg cn target chum b g))

/-! ### the channel-MODE loop run by a member below half-operator -/

theorem mayChange_false_of_not_halfop (chum : ChanUserModes) (h : chum.isHalfOperator = false) (m : Char) :
    mayChange chum m = false := by
  simp only [ChanUserModes.isHalfOperator, Bool.or_eq_false_iff] at h
  obtain ⟨⟨⟨h1, h2⟩, h3⟩, h4⟩ := h
  unfold mayChange
  simp [ChanUserModes.isProtected, ChanUserModes.isOperator, ChanUserModes.isHalfOperator, h1, h2, h3, h4]

/-- the channel and the three announcement accumulators are unchanged -/
structure ModeSame (a a' : ModeAcc) : Prop where
  ch : a'.ch = a.ch
  setStr : a'.setStr = a.setStr
  unsetStr : a'.unsetStr = a.unsetStr
  paramsStr : a'.paramsStr = a.paramsStr

theorem ModeSame.refl (a : ModeAcc) : ModeSame a a := ⟨rfl, rfl, rfl, rfl⟩
theorem ModeSame.trans {a b c : ModeAcc} (h1 : ModeSame a b) (h2 : ModeSame b c) : ModeSame a c :=
  ⟨h2.ch.trans h1.ch, h2.setStr.trans h1.setStr, h2.unsetStr.trans h1.unsetStr, h2.paramsStr.trans h1.paramsStr⟩

theorem modeChar_lowrank (cfg : Cfg) (cn : Conn) (target : Str) (chum : ChanUserModes) (a : ModeAcc)
    (mchar : Char) (h : chum.isHalfOperator = false) :
    ModeSame a (modeChar cfg cn target chum a mchar) := by
  have hmay := mayChange_false_of_not_halfop chum h
  unfold modeChar
  extract_lets client nick err482 preChecked a1 ifHalfOp sign
  have h1 : ModeSame a a1 := by
    show ModeSame a (if _ then _ else _)
    split
    · exact ⟨rfl, rfl, rfl, rfl⟩
    · exact ModeSame.refl _
  refine h1.trans ?_
  have hI : ifHalfOp = false := h
  clear_value a1 sign ifHalfOp preChecked
  subst hI
  clear h1
  by_cases hmem : mchar ∈ ['+', '-', 'b', 'e', 'I', 'o', 'v', 'h', 'q', 'a', 'l', 'k', 'i', 'm', 't', 'n', 's']
  · simp only [List.mem_cons, List.not_mem_nil, or_false] at hmem
    rcases hmem with rfl | rfl | rfl | rfl | rfl | rfl | rfl | rfl | rfl | rfl | rfl | rfl | rfl | rfl | rfl | rfl | rfl
    all_goals simp only [Char.reduceEq, ↓reduceIte, decide_false, decide_true, Bool.or_false, Bool.or_true, Bool.false_eq_true, hmay]
    all_goals repeat' split
    all_goals exact ⟨rfl, rfl, rfl, rfl⟩
  · simp only [List.mem_cons, List.not_mem_nil, or_false, not_or] at hmem
    obtain ⟨h1, h2, h3, h4, h5, h6, h7, h8, h9, h10, h11, h12, h13, h14, h15, h16, h17⟩ := hmem
    simp only [h1, h2, h3, h4, h5, h6, h7, h8, h9, h10, h11, h12, h13, h14, h15, h16, h17, ↓reduceIte, decide_false, Bool.or_false]
    exact ModeSame.refl _

theorem modeRun_lowrank (cfg : Cfg) (cn : Conn) (target : Str) (chum : ChanUserModes) (a : ModeAcc)
    (modes : List (Str × List Str)) (h : chum.isHalfOperator = false) :
    ModeSame a (modes.foldl (modeGroup cfg cn target chum) a) := by
  suffices hs : ∀ b, ModeSame a b → ModeSame a (modes.foldl (modeGroup cfg cn target chum) b) from
    hs a (ModeSame.refl a)
  intro b h0
  induction modes generalizing b with
  | nil => exact h0
  | cons g gs ih =>
    refine ih _ (h0.trans ?_)
    unfold modeGroup
    have h1 : ModeSame b { b with args := g.2, modeSet := false } := ⟨rfl, rfl, rfl, rfl⟩
    suffices hs : ∀ d, ModeSame b d → ModeSame b (g.1.foldl (modeChar cfg cn target chum) d) from hs _ h1
    intro d hd
    induction g.1 generalizing d with
    | nil => exact hd
    | cons m ms ih2 => exact ih2 _ (hd.trans (modeChar_lowrank cfg cn target chum d m h))

theorem Map.insert_lookup_self {α : Type} (k : Str) (v : α) (m : Map α) (h : Map.lookup k m = some v) :
    Map.insert k v m = m := by
  induction m with
  | nil => simp [Map.lookup] at h
  | cons p m ih =>
    obtain ⟨k', v'⟩ := p
    simp only [Map.insert]
    simp only [Map.lookup] at h
    split
    · rename_i hk; simp_all
    · rename_i hk; simp only [hk, ↓reduceIte] at h; rw [ih h]

/-! ### `processModeChannel` as a whole -/

theorem Map.contains_iff_mem_keys {α : Type} (k : Str) (m : Map α) : Map.contains k m = true ↔ k ∈ Map.keys m := by
  rw [Map.contains_iff, Map.mem_keys_iff]

theorem processModeChannel_nonempty (cfg : Cfg) (c : Nat) (target : Str) (ch : Channel)
    (modes : List (Str × List Str)) (chum : ChanUserModes) (x : Ctx) (hne : modes ≠ [])
    (hmem : ∀ n, Map.contains n ch.users = true → Map.contains n x.w.users = true) :
    let cn := x.conn c
    let a := modes.foldl (modeGroup cfg cn target chum) { x := x, ch := ch, args := [] }
    let x' := processModeChannel cfg c target ch modes chum x
    x'.w = { x.w with channels := Map.insert target a.ch x.w.channels, panicked := a.x.w.panicked } ∧
    x'.direct = a.x.direct ∧
    x'.queued = x.queued ++
      (match modeAnnouncement target a.setStr a.unsetStr a.paramsStr with
       | some line => (Map.keys a.ch.users).map (fun n => (ownerOf x.w n, ':' :: (cn.source ++ ' ' :: line)))
       | none => []) := by
  intro cn a x'
  have hfr : ModeFrame { x := x, ch := ch, args := [] } a := modeRun_frame cfg cn target chum _ modes
  obtain ⟨hq, ⟨p, hw⟩, -, hk, -, -, -⟩ := hfr
  simp only at hq hw hk
  have hemp : modes.isEmpty = false := by cases modes <;> simp_all
  have hx' : x' = (match modeAnnouncement target a.setStr a.unsetStr a.paramsStr with
      | some line => (Map.keys a.ch.users).foldl (fun x n => x.sendDisplay n cn.source line)
          (a.x.modifyW (fun w => { w with channels := Map.insert target a.ch w.channels }))
      | none => a.x.modifyW (fun w => { w with channels := Map.insert target a.ch w.channels })) := by
    show processModeChannel cfg c target ch modes chum x = _
    unfold processModeChannel
    simp only [hemp, Bool.false_eq_true, ↓reduceIte]
    rfl
  have hwp : a.x.w.panicked = p := by rw [hw]
  rw [hx']
  cases hann : modeAnnouncement target a.setStr a.unsetStr a.paramsStr with
  | none =>
    simp only [Ctx.modifyW_w, Ctx.modifyW_direct, Ctx.modifyW_queued, hq, List.append_nil, and_true]
    rw [hw]
  | some line =>
    simp only
    rw [Ctx.sendDisplayAll_known]
    · simp only [Ctx.modifyW_w, Ctx.modifyW_direct, Ctx.modifyW_queued, hq]
      refine ⟨by rw [hw], trivial, ?_⟩
      congr 1
      apply List.map_congr_left
      intro n _
      simp only [ownerOf, hw]
    · intro n hn
      simp only [Ctx.modifyW_w, hw]
      apply hmem
      rw [Map.contains_iff_mem_keys, ← hk]; exact hn

/-! ### KICK: the selection loop -/

/-- may this member be selected (second argument: the actor is a mere half-operator) -/
def kickOk (m : ChanUserModes) (onlyHalf : Bool) : Bool :=
  !m.isProtected && (!m.isHalfOperator || !onlyHalf)

theorem kickSelect_fst_mem (client channel : Str) (ch : Channel) (onlyHalf : Bool)
    (users acc : List Str) (v : Str) :
    v ∈ (kickSelect client channel ch onlyHalf users acc).1 ↔
      v ∈ acc ∨ (v ∈ users ∧ ∃ m, Map.lookup v ch.users = some m ∧ kickOk m onlyHalf = true) := by
  induction users generalizing acc with
  | nil => simp [kickSelect]
  | cons ku rest ih =>
    unfold kickSelect
    cases hm : Map.lookup ku ch.users with
    | none =>
      simp only [ih, List.mem_cons]
      constructor
      · rintro (h | ⟨h1, h2⟩)
        · exact Or.inl h
        · exact Or.inr ⟨Or.inr h1, h2⟩
      · rintro (h | ⟨h1 | h1, m, h2, h3⟩)
        · exact Or.inl h
        · subst h1; rw [hm] at h2; cases h2
        · exact Or.inr ⟨h1, m, h2, h3⟩
    | some chum =>
      simp only
      by_cases hk : kickOk chum onlyHalf = true
      · have hk' : (!chum.isProtected && (!chum.isHalfOperator || !onlyHalf)) = true := hk
        simp only [hk', ↓reduceIte, ih, List.mem_cons]
        by_cases hany : acc.any (· == ku) = true
        · have hin : ku ∈ acc := by simpa using hany
          simp only [hany, ↓reduceIte]
          constructor
          · rintro (h | ⟨h1, h2⟩)
            · exact Or.inl h
            · exact Or.inr ⟨Or.inr h1, h2⟩
          · rintro (h | ⟨h1 | h1, h2⟩)
            · exact Or.inl h
            · subst h1; exact Or.inl hin
            · exact Or.inr ⟨h1, h2⟩
        · simp only [hany, Bool.false_eq_true, ↓reduceIte, List.mem_append, List.mem_singleton]
          constructor
          · rintro ((h | h) | ⟨h1, h2⟩)
            · exact Or.inl h
            · subst h; exact Or.inr ⟨Or.inl rfl, chum, hm, hk⟩
            · exact Or.inr ⟨Or.inr h1, h2⟩
          · rintro (h | ⟨h1 | h1, h2⟩)
            · exact Or.inl (Or.inl h)
            · exact Or.inl (Or.inr h1)
            · exact Or.inr ⟨h1, h2⟩
      · have hk' : (!chum.isProtected && (!chum.isHalfOperator || !onlyHalf)) = false := by
          simpa [kickOk] using hk
        simp only [hk', Bool.false_eq_true, ↓reduceIte, ih, List.mem_cons]
        constructor
        · rintro (h | ⟨h1, h2⟩)
          · exact Or.inl h
          · exact Or.inr ⟨Or.inr h1, h2⟩
        · rintro (h | ⟨h1 | h1, m, h2, h3⟩)
          · exact Or.inl h
          · subst h1; rw [hm] at h2; cases h2; exact absurd h3 hk
          · exact Or.inr ⟨h1, m, h2, h3⟩

theorem kickSelect_fst_nodup (client channel : Str) (ch : Channel) (onlyHalf : Bool)
    (users acc : List Str) (hacc : acc.Nodup) :
    (kickSelect client channel ch onlyHalf users acc).1.Nodup := by
  induction users generalizing acc with
  | nil => simpa [kickSelect] using hacc
  | cons ku rest ih =>
    unfold kickSelect
    cases hm : Map.lookup ku ch.users with
    | none => exact ih acc hacc
    | some chum =>
      simp only
      split
      · apply ih
        by_cases hany : acc.any (· == ku) = true
        · simpa [hany] using hacc
        · have hin : ku ∉ acc := by simpa using hany
          simp only [hany, Bool.false_eq_true, ↓reduceIte]
          rw [List.nodup_append]
          refine ⟨hacc, by simp, ?_⟩
          intro a ha b hb
          simp only [List.mem_singleton] at hb
          subst hb; intro h; subst h; exact hin ha
      · exact ih acc hacc

/-- the reply for one listed nick: 441 for a non-member, 972 for a member that may not be
    kicked, none for a kicked one -/
def kickReply (client channel : Str) (ch : Channel) (onlyHalf : Bool) (ku : Str) : Option Str :=
  match Map.lookup ku ch.users with
  | none => some (ErrUserNotInChannel441 client ku channel)
  | some m => if kickOk m onlyHalf then none else some (ErrCannotDoCommand972 client)

theorem kickSelect_snd (client channel : Str) (ch : Channel) (onlyHalf : Bool)
    (users acc : List Str) :
    (kickSelect client channel ch onlyHalf users acc).2 =
      users.filterMap (kickReply client channel ch onlyHalf) := by
  induction users generalizing acc with
  | nil => simp [kickSelect]
  | cons ku rest ih =>
    unfold kickSelect
    cases hm : Map.lookup ku ch.users with
    | none => simp [kickReply, hm, ih]
    | some chum =>
      simp only
      by_cases hk : kickOk chum onlyHalf = true
      · have hk' : (!chum.isProtected && (!chum.isHalfOperator || !onlyHalf)) = true := hk
        simp [hk', kickReply, hm, hk, ih]
      · have hk' : (!chum.isProtected && (!chum.isHalfOperator || !onlyHalf)) = false := by
          simpa [kickOk] using hk
        simp [hk', kickReply, hm, hk, ih]

/-! ### KICK: removing the selected members -/

/-- `C'` is `C` with the members `ks` removed from the member map and from the five rank
    lists; everything else is as in `C` -/
structure Removed (ks : List Str) (C C' : Channel) : Prop where
  users : ∀ n, Map.lookup n C'.users = if n ∈ ks then none else Map.lookup n C.users
  ranks : ∀ l n, KSet.mem n (rankList C'.modes l) = (!decide (n ∈ ks) && KSet.mem n (rankList C.modes l))
  keys : Map.keys C'.users = (Map.keys C.users).filter (fun n => !decide (n ∈ ks))
  same : SameSettings C C'

theorem Removed.refl (C : Channel) : Removed [] C C :=
  ⟨by simp, by simp, (List.filter_eq_self.mpr (by simp)).symm, ⟨rfl, rfl, rfl, rfl, rfl, rfl, rfl, rfl, rfl, rfl, rfl, rfl, rfl, rfl⟩⟩

theorem SameSettings.trans {A B C : Channel} (h1 : SameSettings A B) (h2 : SameSettings B C) :
    SameSettings A C :=
  ⟨h2.topic.trans h1.topic, h2.defaultModes.trans h1.defaultModes, h2.banInfo.trans h1.banInfo,
   h2.preconfigured.trans h1.preconfigured, h2.ban.trans h1.ban, h2.exception.trans h1.exception,
   h2.inviteException.trans h1.inviteException, h2.clientLimit.trans h1.clientLimit, h2.key.trans h1.key,
   h2.inviteOnly.trans h1.inviteOnly, h2.moderated.trans h1.moderated, h2.secret.trans h1.secret,
   h2.protectedTopic.trans h1.protectedTopic, h2.noExternalMessages.trans h1.noExternalMessages⟩

theorem Removed.trans {ks1 ks2 : List Str} {A B C : Channel} (h1 : Removed ks1 A B) (h2 : Removed ks2 B C) :
    Removed (ks1 ++ ks2) A C := by
  refine ⟨?_, ?_, ?_, h1.same.trans h2.same⟩
  · intro n
    rw [h2.users, h1.users]
    by_cases a : n ∈ ks1 <;> by_cases b : n ∈ ks2 <;> simp [a, b]
  · intro l n
    rw [h2.ranks, h1.ranks]
    by_cases a : n ∈ ks1 <;> by_cases b : n ∈ ks2 <;> simp [a, b]
  · rw [h2.keys, h1.keys, List.filter_filter]
    apply List.filter_congr
    intro n _
    by_cases a : n ∈ ks1 <;> by_cases b : n ∈ ks2 <;> simp [a, b]

theorem Channel.removeUser_removed (C C1 : Channel) (k : Str) (h : C.removeUser k = some C1) :
    Removed [k] C C1 := by
  unfold Channel.removeUser at h
  split at h
  · cases h
  · simp only [Option.some.injEq] at h
    subst h
    refine ⟨?_, ?_, ?_, ⟨rfl, rfl, rfl, rfl, rfl, rfl, rfl, rfl, rfl, rfl, rfl, rfl, rfl, rfl⟩⟩
    · intro n
      simp only [List.mem_singleton]
      rw [Map.lookup_erase]
      by_cases hn : n = k
      · subst hn; simp
      · simp [hn, Ne.symm hn]
    · intro l n
      simp only [rankList, List.mem_singleton]
      repeat' split
      all_goals first | exact KSet.mem_erase _ _ _ | simp [KSet.mem]
    · simp only [Map.keys_erase, List.mem_singleton]
      apply List.filter_congr
      intro n _
      by_cases hn : n = k <;> simp [hn]

/-- one `remove_user_from_channel` -/
theorem World.removeUserFromChannel_spec (w : World) (channel k : Str) :
    (w.removeUserFromChannel channel k) =
      { w with users := Map.modify k (fun u => { u with channels := KSet.erase channel u.channels }) w.users
               channels := (w.removeUserFromChannel channel k).channels
               panicked := (w.removeUserFromChannel channel k).panicked } ∧
    (∀ c, c ≠ channel → Map.lookup c (w.removeUserFromChannel channel k).channels = Map.lookup c w.channels) ∧
    (Map.lookup channel w.channels = none →
      (w.removeUserFromChannel channel k).channels = w.channels ∧
      (w.removeUserFromChannel channel k).panicked = w.panicked) ∧
    (∀ C, Map.lookup channel w.channels = some C → Map.contains k C.users = true →
      (w.removeUserFromChannel channel k).panicked = w.panicked ∧
      ∀ C1, Map.lookup channel (w.removeUserFromChannel channel k).channels = some C1 → Removed [k] C C1) := by
  cases hch : Map.lookup channel w.channels with
  | none =>
    have e : w.removeUserFromChannel channel k = { w with users := Map.modify k (fun u => { u with channels := KSet.erase channel u.channels }) w.users } := by
      simp [World.removeUserFromChannel, hch]
    rw [e]; simp
  | some C =>
    cases hr : C.removeUser k with
    | none =>
      have e : w.removeUserFromChannel channel k = { w with users := Map.modify k (fun u => { u with channels := KSet.erase channel u.channels }) w.users, panicked := some "remove_user_from_channel: not a member".toList } := by
        simp [World.removeUserFromChannel, hch, hr, World.panic]
      rw [e]
      refine ⟨rfl, fun c _ => rfl, by simp, ?_⟩
      intro C' hC' hk
      cases hC'
      simp [Channel.removeUser, hk] at hr
    | some C1 =>
      by_cases hemp : (C1.users.isEmpty && !C1.preconfigured) = true
      · have e : w.removeUserFromChannel channel k = { w with users := Map.modify k (fun u => { u with channels := KSet.erase channel u.channels }) w.users, channels := Map.erase channel w.channels } := by
          simp only [World.removeUserFromChannel, hch, hr, hemp, ↓reduceIte]
        rw [e]
        refine ⟨rfl, fun c hc => Map.lookup_erase_ne _ _ _ (Ne.symm hc), by simp, ?_⟩
        intro C' hC' hk
        refine ⟨rfl, ?_⟩
        intro C2 hC2
        simp at hC2
      · have e : w.removeUserFromChannel channel k = { w with users := Map.modify k (fun u => { u with channels := KSet.erase channel u.channels }) w.users, channels := Map.insert channel C1 w.channels } := by
          simp [World.removeUserFromChannel, hch, hr, hemp]
        rw [e]
        refine ⟨rfl, fun c hc => Map.lookup_insert_ne _ _ _ _ (Ne.symm hc), by simp, ?_⟩
        intro C' hC' hk
        cases hC'
        refine ⟨rfl, ?_⟩
        intro C2 hC2
        simp only [Map.lookup_insert_eq, Option.some.injEq] at hC2
        subst hC2
        exact Channel.removeUser_removed _ _ _ hr

/-- the loop `for ku in kicked { remove_user_from_channel(channel, ku) }` -/
theorem kickFold_spec (channel : Str) (ks : List Str) (w : World) (hnd : ks.Nodup)
    (hmem : ∀ C, Map.lookup channel w.channels = some C → ∀ k ∈ ks, Map.contains k C.users = true) :
    (ks.foldl (fun w ku => w.removeUserFromChannel channel ku) w) =
      { w with users := (ks.foldl (fun w ku => w.removeUserFromChannel channel ku) w).users
               channels := (ks.foldl (fun w ku => w.removeUserFromChannel channel ku) w).channels } ∧
    (∀ n, Map.lookup n (ks.foldl (fun w ku => w.removeUserFromChannel channel ku) w).users =
      (Map.lookup n w.users).map (fun u =>
        if n ∈ ks then { u with channels := KSet.erase channel u.channels } else u)) ∧
    (∀ c, c ≠ channel → Map.lookup c (ks.foldl (fun w ku => w.removeUserFromChannel channel ku) w).channels =
      Map.lookup c w.channels) ∧
    (∀ C', Map.lookup channel (ks.foldl (fun w ku => w.removeUserFromChannel channel ku) w).channels = some C' →
      ∃ C, Map.lookup channel w.channels = some C ∧ Removed ks C C') := by
  induction ks generalizing w with
  | nil =>
    refine ⟨rfl, by simp, fun _ _ => rfl, ?_⟩
    intro C' h; exact ⟨C', h, Removed.refl C'⟩
  | cons k ks ih =>
    simp only [List.foldl_cons]
    obtain ⟨s1, s2, s3, s4⟩ := World.removeUserFromChannel_spec w channel k
    have hnd' : ks.Nodup := (List.nodup_cons.mp hnd).2
    have hk : k ∉ ks := (List.nodup_cons.mp hnd).1
    -- facts about the first step
    have hp : (w.removeUserFromChannel channel k).panicked = w.panicked := by
      cases hch : Map.lookup channel w.channels with
      | none => exact (s3 hch).2
      | some C => exact (s4 C hch (hmem C hch k List.mem_cons_self)).1
    have hstep : ∀ C1, Map.lookup channel (w.removeUserFromChannel channel k).channels = some C1 →
        ∃ C, Map.lookup channel w.channels = some C ∧ Removed [k] C C1 := by
      intro C1 hC1
      cases hch : Map.lookup channel w.channels with
      | none => rw [(s3 hch).1, hch] at hC1; cases hC1
      | some C => exact ⟨C, rfl, (s4 C hch (hmem C hch k List.mem_cons_self)).2 C1 hC1⟩
    have hmem' : ∀ C1, Map.lookup channel (w.removeUserFromChannel channel k).channels = some C1 →
        ∀ k' ∈ ks, Map.contains k' C1.users = true := by
      intro C1 hC1 k' hk'
      obtain ⟨C, hC, hrem⟩ := hstep C1 hC1
      have hne : k' ≠ k := fun e => hk (e ▸ hk')
      have := hmem C hC k' (List.mem_cons_of_mem _ hk')
      rw [Map.contains_iff] at this ⊢
      obtain ⟨v, hv⟩ := this
      exact ⟨v, by rw [hrem.users]; simp [hne, hv]⟩
    obtain ⟨i1, i2, i3, i4⟩ := ih (w.removeUserFromChannel channel k) hnd' hmem'
    refine ⟨?_, ?_, ?_, ?_⟩
    · rw [i1]; rw [s1]; simp only [hp]
    · intro n
      rw [i2, s1]
      simp only
      rw [Map.lookup_modify]
      by_cases hn : n = k
      · subst hn
        cases Map.lookup n w.users <;> simp [hk]
      · have hn' : ¬ k = n := fun e => hn e.symm
        simp only [hn', ↓reduceIte, List.mem_cons, hn, false_or]
    · intro c hc
      rw [i3 c hc, s2 c hc]
    · intro C' hC'
      obtain ⟨C1, hC1, hrem1⟩ := i4 C' hC'
      obtain ⟨C, hC, hrem⟩ := hstep C1 hC1
      exact ⟨C, hC, hrem.trans hrem1⟩

/-! ### KICK: the handler -/

theorem foldl_reply_eq (cfg : Cfg) (errs : List Str) (x : Ctx) :
    errs.foldl (fun x e => x.reply cfg e) x =
      { x with direct := x.direct ++ errs.map (fun e => ':' :: (cfg.name ++ ' ' :: e)) } := by
  induction errs generalizing x with
  | nil => simp
  | cons e es ih => simp only [List.foldl_cons, ih]; simp [Ctx.reply]

/-- the text of the KICK announcement for victim `ku` -/
def kickMsg (channel ku : Str) (comment : Option Str) : Str :=
  str "KICK " ++ channel ++ [' '] ++ ku ++ str " :" ++ comment.getD (str "Kicked")

theorem Ctx.sendDisplay_known (x : Ctx) (n src t : Str) (h : Map.contains n x.w.users = true) :
    x.sendDisplay n src t = { x with queued := x.queued ++ [(ownerOf x.w n, ':' :: (src ++ ' ' :: t))] } :=
  Ctx.send_known x n _ h

theorem kickSend_known (src channel : Str) (comment : Option Str) (remaining kicked : List Str) (x : Ctx)
    (hr : ∀ n ∈ remaining, Map.contains n x.w.users = true)
    (hk : ∀ n ∈ kicked, Map.contains n x.w.users = true) :
    kicked.foldl (fun x ku =>
        (remaining.foldl (fun x n => x.sendDisplay n src (kickMsg channel ku comment)) x).sendDisplay ku src
          (kickMsg channel ku comment)) x =
      { x with queued := x.queued ++ kicked.flatMap (fun ku => (remaining ++ [ku]).map (fun n =>
          (ownerOf x.w n, ':' :: (src ++ ' ' :: kickMsg channel ku comment)))) } := by
  induction kicked generalizing x with
  | nil => simp
  | cons ku ks ih =>
    simp only [List.foldl_cons]
    rw [Ctx.sendDisplayAll_known x remaining src _ hr]
    have hku := hk ku List.mem_cons_self
    rw [Ctx.sendDisplay_known (h := by exact hku)]
    rw [ih]
    · simp
    · exact hr
    · intro n hn; exact hk n (List.mem_cons_of_mem _ hn)


theorem flatMap_congr' {α β : Type} (l : List α) (f g : α → List β) (h : ∀ a ∈ l, f a = g a) :
    l.flatMap f = l.flatMap g := by
  induction l with
  | nil => rfl
  | cons a l ih =>
    simp only [List.flatMap_cons]
    rw [h a List.mem_cons_self, ih (fun b hb => h b (List.mem_cons_of_mem _ hb))]

theorem ownerOf_congr (w w' : World) (n : Str) (f : User → User) (hf : ∀ u, (f u).owner = u.owner)
    (h : Map.lookup n w'.users = (Map.lookup n w.users).map f) : ownerOf w' n = ownerOf w n := by
  unfold ownerOf
  rw [h]
  cases Map.lookup n w.users <;> simp [hf]

/-- the successful path of `processKick` in closed form -/
theorem processKick_ok (cfg : Cfg) (c : Nat) (channel : Str) (kickUsers : List Str) (comment : Option Str)
    (x : Ctx) (nick : Str) (ch : Channel) (chum : ChanUserModes)
    (hnick : (x.conn c).nick = some nick) (hch : Map.lookup channel x.w.channels = some ch)
    (hm : Map.lookup nick ch.users = some chum) (hH : chum.isHalfOperator = true)
    (hmem : ∀ n, Map.contains n ch.users = true → Map.contains n x.w.users = true) :
    let cn := x.conn c
    let sel := kickSelect cn.clientName channel ch chum.isOnlyHalfOperator kickUsers []
    let w' := sel.1.foldl (fun w ku => w.removeUserFromChannel channel ku) x.w
    let remaining : List Str := match Map.lookup channel w'.channels with
      | some C' => Map.keys C'.users
      | none => []
    let x' := processKick cfg c channel kickUsers comment x
    x'.w = w' ∧
    x'.direct = x.direct ++ sel.2.map (fun e => ':' :: (cfg.name ++ ' ' :: e)) ∧
    x'.queued = x.queued ++ sel.1.flatMap (fun ku => (remaining ++ [ku]).map (fun n =>
      (ownerOf x.w n, ':' :: (cn.source ++ ' ' :: kickMsg channel ku comment)))) := by
  intro cn sel w' remaining x'
  have hsel_mem : ∀ k ∈ sel.1, Map.contains k ch.users = true := by
    intro k hk
    rw [kickSelect_fst_mem] at hk
    rcases hk with hk | ⟨_, m, hm', _⟩
    · cases hk
    · exact Map.contains_of_lookup hm'
  have hnd : sel.1.Nodup := kickSelect_fst_nodup _ _ _ _ _ _ List.nodup_nil
  obtain ⟨f1, f2, f3, f4⟩ := kickFold_spec channel sel.1 x.w hnd
    (by intro C hC; rw [hch] at hC; cases hC; exact hsel_mem)
  have hknown : ∀ n, Map.contains n ch.users = true → Map.contains n w'.users = true := by
    intro n hn
    have := hmem n hn
    rw [Map.contains_iff] at this ⊢
    obtain ⟨u, hu⟩ := this
    exact ⟨_, by rw [f2 n, hu]; rfl⟩
  have hrem : ∀ n ∈ remaining, Map.contains n ch.users = true := by
    intro n hn
    simp only [remaining] at hn
    cases hC' : Map.lookup channel w'.channels with
    | none => rw [hC'] at hn; cases hn
    | some C' =>
      rw [hC'] at hn
      obtain ⟨C, hC, hR⟩ := f4 C' hC'
      rw [hch] at hC; cases hC
      simp only [] at hn
      rw [hR.keys, List.mem_filter] at hn
      exact (Map.contains_iff_mem_keys _ _).mpr hn.1
  have hown : ∀ n, ownerOf w' n = ownerOf x.w n := by
    intro n
    exact ownerOf_congr x.w w' n _ (by intro u; split <;> rfl) (f2 n)
  show (processKick cfg c channel kickUsers comment x).w = _ ∧
    (processKick cfg c channel kickUsers comment x).direct = _ ∧
    (processKick cfg c channel kickUsers comment x).queued = _
  unfold processKick
  simp only [hnick, hch, hm, hH, ↓reduceIte]
  rw [foldl_reply_eq]
  simp only [Ctx.modifyW_w]
  change (sel.1.foldl (fun x ku =>
        (remaining.foldl (fun x n => x.sendDisplay n cn.source (kickMsg channel ku comment)) x).sendDisplay ku
          cn.source (kickMsg channel ku comment))
        (Ctx.modifyW { x with direct := x.direct ++ sel.2.map (fun e => ':' :: (cfg.name ++ ' ' :: e)) }
          (fun w => sel.1.foldl (fun w ku => w.removeUserFromChannel channel ku) w))).w = _ ∧
    (sel.1.foldl (fun x ku =>
        (remaining.foldl (fun x n => x.sendDisplay n cn.source (kickMsg channel ku comment)) x).sendDisplay ku
          cn.source (kickMsg channel ku comment))
        (Ctx.modifyW { x with direct := x.direct ++ sel.2.map (fun e => ':' :: (cfg.name ++ ' ' :: e)) }
          (fun w => sel.1.foldl (fun w ku => w.removeUserFromChannel channel ku) w))).direct = _ ∧
    (sel.1.foldl (fun x ku =>
        (remaining.foldl (fun x n => x.sendDisplay n cn.source (kickMsg channel ku comment)) x).sendDisplay ku
          cn.source (kickMsg channel ku comment))
        (Ctx.modifyW { x with direct := x.direct ++ sel.2.map (fun e => ':' :: (cfg.name ++ ' ' :: e)) }
          (fun w => sel.1.foldl (fun w ku => w.removeUserFromChannel channel ku) w))).queued = _
  rw [kickSend_known]
  · simp only [Ctx.modifyW_w, Ctx.modifyW_direct, Ctx.modifyW_queued]
    refine ⟨rfl, trivial, ?_⟩
    congr 1
    apply flatMap_congr'
    intro ku _
    apply List.map_congr_left
    intro n _
    rw [show (List.foldl (fun w ku => w.removeUserFromChannel channel ku) x.w sel.1) = w' from rfl, hown]
  · intro n hn; exact hknown n (hrem n hn)
  · intro n hn; exact hknown n (hsel_mem n hn)


/-! ### a small concrete world for the `decide` examples of C08 / C09 -/

namespace PrivEx

def mkUser (n : String) (owner : Nat) (chans : List Str) : User :=
  { hostname := str "h", name := str n, realname := str n, source := str n ++ str "!~" ++ str n ++ str "@h",
    modes := {}, channels := chans,
    history := { username := str n, hostname := str "h", realname := str n }, owner := owner }

def mkConn (id : Nat) (n : String) : Conn :=
  { id := id, hostname := str "h", nick := some (str n), name := some (str n),
    source := str n ++ str "!~" ++ str n ++ str "@h", authenticated := true, registered := true,
    hasSender := false, hasQuitSender := false, hasPingSender := false }

/-- `#c`: alice founder+operator, hank half-operator, vic voice, pat plain (`out` is not on it). -/
def chan : Channel :=
  { users := [(str "alice", { founder := true, operator := true }), (str "hank", { halfOper := true }),
              (str "vic", { voice := true }), (str "pat", {})]
    modes := { founders := [str "alice"], operators := [str "alice"], halfOperators := [str "hank"],
               voices := [str "vic"] } }

def w0 : World :=
  { users := [(str "alice", mkUser "alice" 1 [str "#c"]), (str "hank", mkUser "hank" 2 [str "#c"]),
              (str "vic", mkUser "vic" 3 [str "#c"]), (str "pat", mkUser "pat" 4 [str "#c"]),
              (str "out", mkUser "out" 5 [])]
    channels := [(str "#c", chan)]
    conns := [mkConn 1 "alice", mkConn 2 "hank", mkConn 3 "vic", mkConn 4 "pat", mkConn 5 "out"]
    connsCount := 5, maxUsers := 5 }

/-- connection ids: 1 alice (founder), 2 hank (half-operator), 3 vic (voice), 4 pat (plain), 5 out -/
def x0 : Ctx := { w := w0 }
def cfg : Cfg := {}

/-- the channel `#c` after a handler ran -/
def chanAfter (x : Ctx) : Option Channel := Map.lookup (str "#c") x.w.channels

/-- the `qaohv` letters of a member of `#c` after a handler ran -/
def rankAfter (x : Ctx) (n : String) : Option Str :=
  (chanAfter x).bind (fun C => (Map.lookup (str n) C.users).map (·.letters))

example : invCheck w0 = [] := by decide

end PrivEx

end Irc
