/-
  Helper lemmas for properties C08 (channel MODE privileges) and C09 (KICK / TOPIC / INVITE).
-/
import Irc.Inv
import Irc.Lemmas.Frame

namespace Irc

open Reply

/-! ### generic helpers -/

/-- the connection that owns the user registered under nick `n` (0 if there is none) -/
def ownerOf (w : World) (n : Str) : Nat := ((Map.lookup n w.users).map (·.owner)).getD 0

theorem Ctx.send_known (x : Ctx) (n line : Str) (h : Map.contains n x.w.users = true) :
    x.send n line = { x with queued := x.queued ++ [(ownerOf x.w n, line)] } := by
  obtain ⟨u, hu⟩ := (Map.contains_iff _ _).mp h
  simp [Ctx.send, ownerOf, hu]

theorem Ctx.sendAll_known (x : Ctx) (ns : List Str) (line : Str)
    (h : ∀ n ∈ ns, Map.contains n x.w.users = true) :
    x.sendAll ns line = { x with queued := x.queued ++ ns.map (fun n => (ownerOf x.w n, line)) } := by
  unfold Ctx.sendAll
  induction ns generalizing x with
  | nil => simp
  | cons n ns ih =>
    simp only [List.foldl_cons]
    rw [Ctx.send_known x n line (h n List.mem_cons_self)]
    rw [ih]
    · simp
    · intro m hm; exact h m (List.mem_cons_of_mem _ hm)

theorem Ctx.sendDisplayAll_known (x : Ctx) (ns : List Str) (src t : Str)
    (h : ∀ n ∈ ns, Map.contains n x.w.users = true) :
    ns.foldl (fun x n => x.sendDisplay n src t) x =
      { x with queued := x.queued ++ ns.map (fun n => (ownerOf x.w n, ':' :: (src ++ ' ' :: t))) } :=
  Ctx.sendAll_known x ns (':' :: (src ++ ' ' :: t)) h

theorem Map.keys_insert_of_contains {α : Type} (k : Str) (v : α) (m : Map α)
    (h : Map.contains k m = true) : Map.keys (Map.insert k v m) = Map.keys m := by
  induction m with
  | nil => simp [Map.contains, Map.lookup] at h
  | cons p m ih =>
    obtain ⟨k', v'⟩ := p
    simp only [Map.insert]
    split
    · rename_i hk; simp [Map.keys, hk]
    · rename_i hk
      have : Map.contains k m = true := by
        simpa [Map.contains, Map.lookup, hk] using h
      have := ih this
      simp_all [Map.keys]

theorem Map.contains_insert {α : Type} (k k' : Str) (v : α) (m : Map α) :
    Map.contains k (Map.insert k' v m) = (decide (k' = k) || Map.contains k m) := by
  unfold Map.contains
  rw [Map.lookup_insert]
  split <;> simp_all

theorem Map.contains_of_lookup {α : Type} {k : Str} {v : α} {m : Map α}
    (h : Map.lookup k m = some v) : Map.contains k m = true := by
  simp [Map.contains, h]

theorem KSet.mem_eq_false_iff (k : Str) (s : KSet) : KSet.mem k s = false ↔ k ∉ s := by
  rw [← KSet.mem_iff]; simp

/-! ### rank letters, `Channel.setRank` -/

/-- the five member-rank letters -/
def rankLetters : List Char := ['q', 'a', 'o', 'h', 'v']

/-- the member flag named by a rank letter -/
def rankFlag (m : ChanUserModes) (l : Char) : Bool :=
  if l = 'q' then m.founder else if l = 'a' then m.prot else if l = 'o' then m.operator
  else if l = 'h' then m.halfOper else if l = 'v' then m.voice else false

/-- the rank list named by a rank letter -/
def rankList (m : ChannelModes) (l : Char) : KSet :=
  if l = 'q' then m.founders else if l = 'a' then m.protecteds else if l = 'o' then m.operators
  else if l = 'h' then m.halfOperators else if l = 'v' then m.voices else []

/-- everything of a channel except the member map and the five rank lists is equal -/
structure SameSettings (C C' : Channel) : Prop where
  topic : C'.topic = C.topic
  defaultModes : C'.defaultModes = C.defaultModes
  banInfo : C'.banInfo = C.banInfo
  preconfigured : C'.preconfigured = C.preconfigured
  ban : C'.modes.ban = C.modes.ban
  exception : C'.modes.exception = C.modes.exception
  inviteException : C'.modes.inviteException = C.modes.inviteException
  clientLimit : C'.modes.clientLimit = C.modes.clientLimit
  key : C'.modes.key = C.modes.key
  inviteOnly : C'.modes.inviteOnly = C.modes.inviteOnly
  moderated : C'.modes.moderated = C.modes.moderated
  secret : C'.modes.secret = C.modes.secret
  protectedTopic : C'.modes.protectedTopic = C.modes.protectedTopic
  noExternalMessages : C'.modes.noExternalMessages = C.modes.noExternalMessages

theorem rankMirror_iff (C : Channel) :
    RankMirror C ↔ ∀ l ∈ rankLetters, ∀ n,
      KSet.mem n (rankList C.modes l) = true ↔ ∃ m, Map.lookup n C.users = some m ∧ rankFlag m l = true := by
  constructor
  · intro h l hl n
    simp only [rankLetters, List.mem_cons, List.not_mem_nil, or_false] at hl
    rcases hl with rfl | rfl | rfl | rfl | rfl
    · simpa [rankList, rankFlag] using h.founders n
    · simpa [rankList, rankFlag] using h.protecteds n
    · simpa [rankList, rankFlag] using h.operators n
    · simpa [rankList, rankFlag] using h.halfOperators n
    · simpa [rankList, rankFlag] using h.voices n
  · intro h
    constructor
    · intro n; simpa [rankList, rankFlag] using h 'q' (by simp [rankLetters]) n
    · intro n; simpa [rankList, rankFlag] using h 'a' (by simp [rankLetters]) n
    · intro n; simpa [rankList, rankFlag] using h 'o' (by simp [rankLetters]) n
    · intro n; simpa [rankList, rankFlag] using h 'h' (by simp [rankLetters]) n
    · intro n; simpa [rankList, rankFlag] using h 'v' (by simp [rankLetters]) n

theorem Channel.setRank_eq_none (C : Channel) (l : Char) (n : Str) (on : Bool) :
    C.setRank l n on = none ↔ Map.lookup n C.users = none := by
  unfold Channel.setRank
  cases h : Map.lookup n C.users <;> simp

theorem KSet.mem_upd (n' n : Str) (on : Bool) (s : KSet) :
    KSet.mem n' (if on = true then KSet.insert n s else KSet.erase n s) =
      if n' = n then on else KSet.mem n' s := by
  cases on
  · simp only [Bool.false_eq_true, ↓reduceIte]; rw [KSet.mem_erase]; split <;> simp_all
  · simp only [↓reduceIte]; rw [KSet.mem_insert]; split <;> simp_all

/-- full description of a successful `setRank` -/
theorem Channel.setRank_spec (C C' : Channel) (l : Char) (hl : l ∈ rankLetters) (n : Str) (on : Bool)
    (h : C.setRank l n on = some C') :
    ∃ m m', Map.lookup n C.users = some m ∧ Map.lookup n C'.users = some m' ∧
      rankFlag m' l = on ∧
      (∀ l', l' ≠ l → rankFlag m' l' = rankFlag m l') ∧
      (∀ n', n' ≠ n → Map.lookup n' C'.users = Map.lookup n' C.users) ∧
      (∀ n', KSet.mem n' (rankList C'.modes l) = if n' = n then on else KSet.mem n' (rankList C.modes l)) ∧
      (∀ l', l' ≠ l → rankList C'.modes l' = rankList C.modes l') ∧
      Map.keys C'.users = Map.keys C.users ∧
      SameSettings C C' := by
  unfold Channel.setRank at h
  cases hm : Map.lookup n C.users with
  | none => simp [hm] at h
  | some m =>
    have hc : Map.contains n C.users = true := Map.contains_of_lookup hm
    simp only [hm] at h
    simp only [rankLetters, List.mem_cons, List.not_mem_nil, or_false] at hl
    rcases hl with rfl | rfl | rfl | rfl | rfl
    all_goals
      simp only [Char.reduceEq, ↓reduceIte, Option.some.injEq] at h
      subst h
      refine ⟨m, _, rfl, Map.lookup_insert_eq _ _ _, by simp [rankFlag], ?_, ?_, ?_, ?_,
        Map.keys_insert_of_contains _ _ _ hc, ⟨rfl, rfl, rfl, rfl, rfl, rfl, rfl, rfl, rfl, rfl, rfl, rfl, rfl, rfl⟩⟩
      · intro l' hl'
        simp only [rankFlag]
        repeat' split
        all_goals first | rfl | (subst_vars; simp at hl')
      · intro n' hn'; exact Map.lookup_insert_ne _ _ _ _ (Ne.symm hn')
      · intro n'; simp only [rankList, Char.reduceEq, ↓reduceIte]; exact KSet.mem_upd _ _ _ _
      · intro l' hl'
        simp only [rankList]
        repeat' split
        all_goals first | rfl | (subst_vars; simp at hl')

theorem Channel.setRank_mirror (C C' : Channel) (l : Char) (hl : l ∈ rankLetters) (n : Str) (on : Bool)
    (hC : RankMirror C) (h : C.setRank l n on = some C') : RankMirror C' := by
  obtain ⟨m, m', hm, hm', hon, hoth, hothn, hlist, holist, -, -⟩ := Channel.setRank_spec C C' l hl n on h
  rw [rankMirror_iff] at hC ⊢
  intro l' hl' n'
  by_cases hll : l' = l
  · subst hll
    rw [hlist n']
    by_cases hnn : n' = n
    · subst hnn
      simp only [↓reduceIte, hm', Option.some.injEq, exists_eq_left', hon]
    · simp only [hnn, ↓reduceIte, hothn n' hnn]
      exact hC l' hl' n'
  · rw [holist l' hll]
    by_cases hnn : n' = n
    · subst hnn
      rw [hC l' hl' n']
      simp only [hm, hm', Option.some.injEq, exists_eq_left', hoth l' hll]
    · rw [hothn n' hnn]; exact hC l' hl' n'

/-! ### the channel-MODE loop: what it never touches -/

/-- what no step of the channel-MODE loop ever touches -/
structure ModeFrame (a a' : ModeAcc) : Prop where
  queued : a'.x.queued = a.x.queued
  world : ∃ p, a'.x.w = { a.x.w with panicked := p }
  direct : ∃ l, a'.x.direct = a.x.direct ++ l
  keys : Map.keys a'.ch.users = Map.keys a.ch.users
  topic : a'.ch.topic = a.ch.topic
  defaultModes : a'.ch.defaultModes = a.ch.defaultModes
  preconfigured : a'.ch.preconfigured = a.ch.preconfigured

theorem ModeFrame.refl (a : ModeAcc) : ModeFrame a a :=
  ⟨rfl, ⟨_, rfl⟩, ⟨[], by simp⟩, rfl, rfl, rfl, rfl⟩

theorem ModeFrame.trans {a b c : ModeAcc} (h1 : ModeFrame a b) (h2 : ModeFrame b c) : ModeFrame a c := by
  obtain ⟨q1, ⟨p1, w1⟩, ⟨l1, d1⟩, k1, t1, dm1, pc1⟩ := h1
  obtain ⟨q2, ⟨p2, w2⟩, ⟨l2, d2⟩, k2, t2, dm2, pc2⟩ := h2
  refine ⟨q2.trans q1, ⟨p2, ?_⟩, ⟨l1 ++ l2, ?_⟩, k2.trans k1, t2.trans t1, dm2.trans dm1, pc2.trans pc1⟩
  · rw [w2, w1]
  · rw [d2, d1]; simp

theorem foldl_reply_frame (cfg : Cfg) {α : Type} (f : α → Str) (l : List α) (x : Ctx) :
    (l.foldl (fun x b => x.reply cfg (f b)) x).queued = x.queued ∧
    (l.foldl (fun x b => x.reply cfg (f b)) x).w = x.w ∧
    ∃ d, (l.foldl (fun x b => x.reply cfg (f b)) x).direct = x.direct ++ d := by
  induction l generalizing x with
  | nil => exact ⟨rfl, rfl, [], by simp⟩
  | cons b l ih =>
    obtain ⟨h1, h2, d, h3⟩ := ih (x.reply cfg (f b))
    refine ⟨h1, h2, (':' :: (cfg.name ++ ' ' :: f b)) :: d, ?_⟩
    simp only [List.foldl_cons, h3]; simp



theorem ModeFrame.of_x_eq {a a' : ModeAcc} (hx : a'.x = a.x)
    (k : Map.keys a'.ch.users = Map.keys a.ch.users) (t : a'.ch.topic = a.ch.topic)
    (d : a'.ch.defaultModes = a.ch.defaultModes) (p : a'.ch.preconfigured = a.ch.preconfigured) :
    ModeFrame a a' :=
  ⟨by rw [hx], ⟨_, by rw [hx]⟩, ⟨[], by rw [hx]; simp⟩, k, t, d, p⟩

theorem ModeFrame.of_reply {a a' : ModeAcc} (cfg : Cfg) (t : Str) (hx : a'.x = a.x.reply cfg t)
    (k : Map.keys a'.ch.users = Map.keys a.ch.users) (tp : a'.ch.topic = a.ch.topic)
    (d : a'.ch.defaultModes = a.ch.defaultModes) (p : a'.ch.preconfigured = a.ch.preconfigured) :
    ModeFrame a a' :=
  ⟨by rw [hx]; rfl, ⟨_, by rw [hx]; rfl⟩, ⟨_, by rw [hx]; rfl⟩, k, tp, d, p⟩

theorem ModeFrame.of_panic {a a' : ModeAcc} (s : String) (hx : a'.x = a.x.panic s)
    (k : Map.keys a'.ch.users = Map.keys a.ch.users) (tp : a'.ch.topic = a.ch.topic)
    (d : a'.ch.defaultModes = a.ch.defaultModes) (p : a'.ch.preconfigured = a.ch.preconfigured) :
    ModeFrame a a' :=
  ⟨by rw [hx]; rfl, ⟨_, by rw [hx]; rfl⟩, ⟨[], by rw [hx]; simp⟩, k, tp, d, p⟩

theorem ModeFrame.of_list {a a' : ModeAcc} (cfg : Cfg) {α : Type} (f : α → Str) (l : List α) (t : Str)
    (hx : a'.x = (l.foldl (fun x b => x.reply cfg (f b)) a.x).reply cfg t)
    (hc : a'.ch = a.ch) : ModeFrame a a' := by
  obtain ⟨h1, h2, d, h3⟩ := foldl_reply_frame cfg f l a.x
  refine ⟨by rw [hx]; exact h1, ⟨a.x.w.panicked, by rw [hx, Ctx.reply_w, h2]⟩, ⟨d ++ [':' :: (cfg.name ++ ' ' :: t)], ?_⟩, by rw [hc], by rw [hc], by rw [hc], by rw [hc]⟩
  rw [hx]; simp only [Ctx.reply_direct, h3, List.append_assoc]

theorem modeChar_frame (cfg : Cfg) (cn : Conn) (target : Str) (chum : ChanUserModes) (a : ModeAcc)
    (mchar : Char) : ModeFrame a (modeChar cfg cn target chum a mchar) := by
  unfold modeChar
  extract_lets client nick err482 preChecked a1 ifHalfOp sign
  have h1 : ModeFrame a a1 := by
    show ModeFrame a (if _ then _ else _)
    split
    · exact ModeFrame.of_reply cfg _ rfl rfl rfl rfl rfl
    · exact ModeFrame.refl _
  refine h1.trans ?_
  clear_value a1 sign ifHalfOp preChecked
  clear h1
  by_cases hmem : mchar ∈ ['+', '-', 'b', 'e', 'I', 'o', 'v', 'h', 'q', 'a', 'l', 'k', 'i', 'm', 't', 'n', 's']
  · simp only [List.mem_cons, List.not_mem_nil, or_false] at hmem
    rcases hmem with rfl | rfl | rfl | rfl | rfl | rfl | rfl | rfl | rfl | rfl | rfl | rfl | rfl | rfl | rfl | rfl | rfl
    all_goals simp only [Char.reduceEq, ↓reduceIte, decide_false, decide_true, Bool.or_false, Bool.or_true, Bool.false_eq_true]
    all_goals repeat' split
    all_goals first
      | exact ModeFrame.refl _
      | exact ModeFrame.of_x_eq rfl rfl rfl rfl rfl
      | exact ModeFrame.of_reply cfg _ rfl rfl rfl rfl rfl
      | exact ModeFrame.of_panic _ rfl rfl rfl rfl rfl
      | exact ModeFrame.of_list cfg _ _ _ rfl rfl
      | skip
    all_goals
      rename_i hsr
      obtain ⟨-, -, -, -, -, -, -, -, -, hk, hs⟩ := Channel.setRank_spec _ _ _ (by simp [rankLetters]) _ _ hsr
      exact ModeFrame.of_x_eq rfl hk hs.topic hs.defaultModes hs.preconfigured
  · simp only [List.mem_cons, List.not_mem_nil, or_false, not_or] at hmem
    obtain ⟨h1, h2, h3, h4, h5, h6, h7, h8, h9, h10, h11, h12, h13, h14, h15, h16, h17⟩ := hmem
    simp only [h1, h2, h3, h4, h5, h6, h7, h8, h9, h10, h11, h12, h13, h14, h15, h16, h17, ↓reduceIte, decide_false, Bool.or_false]
    exact ModeFrame.refl _


theorem modeGroup_frame (cfg : Cfg) (cn : Conn) (target : Str) (chum : ChanUserModes) (a : ModeAcc)
    (g : Str × List Str) : ModeFrame a (modeGroup cfg cn target chum a g) := by
  unfold modeGroup
  have h0 : ModeFrame a { a with args := g.2, modeSet := false } := ModeFrame.of_x_eq rfl rfl rfl rfl rfl
  generalize ({ a with args := g.2, modeSet := false } : ModeAcc) = b at h0 ⊢
  induction g.1 generalizing b with
  | nil => exact h0
  | cons m ms ih => exact ih _ (h0.trans (modeChar_frame cfg cn target chum b m))

theorem modeRun_frame (cfg : Cfg) (cn : Conn) (target : Str) (chum : ChanUserModes) (a : ModeAcc)
    (modes : List (Str × List Str)) :
    ModeFrame a (modes.foldl (modeGroup cfg cn target chum) a) := by
  suffices h : ∀ b, ModeFrame a b → ModeFrame a (modes.foldl (modeGroup cfg cn target chum) b) from
    h a (ModeFrame.refl a)
  intro b h0
  induction modes generalizing b with
  | nil => exact h0
  | cons g gs ih => exact ih _ (h0.trans (modeGroup_frame cfg cn target chum b g))

/-! ### the channel-MODE loop run by a member below half-operator -/

theorem mayChange_false_of_not_halfop (chum : ChanUserModes) (h : chum.isHalfOperator = false) (m : Char) :
    mayChange chum m = false := by
  simp only [ChanUserModes.isHalfOperator, Bool.or_eq_false_iff] at h
  obtain ⟨⟨⟨h1, h2⟩, h3⟩, h4⟩ := h
  unfold mayChange
  simp [ChanUserModes.isProtected, ChanUserModes.isOperator, ChanUserModes.isHalfOperator, h1, h2, h3, h4]

/-- the channel and the three announcement accumulators are unchanged -/
structure ModeSame (a a' : ModeAcc) : Prop where
  ch : a'.ch = a.ch
  setStr : a'.setStr = a.setStr
  unsetStr : a'.unsetStr = a.unsetStr
  paramsStr : a'.paramsStr = a.paramsStr

theorem ModeSame.refl (a : ModeAcc) : ModeSame a a := ⟨rfl, rfl, rfl, rfl⟩
theorem ModeSame.trans {a b c : ModeAcc} (h1 : ModeSame a b) (h2 : ModeSame b c) : ModeSame a c :=
  ⟨h2.ch.trans h1.ch, h2.setStr.trans h1.setStr, h2.unsetStr.trans h1.unsetStr, h2.paramsStr.trans h1.paramsStr⟩

theorem modeChar_lowrank (cfg : Cfg) (cn : Conn) (target : Str) (chum : ChanUserModes) (a : ModeAcc)
    (mchar : Char) (h : chum.isHalfOperator = false) :
    ModeSame a (modeChar cfg cn target chum a mchar) := by
  have hmay := mayChange_false_of_not_halfop chum h
  unfold modeChar
  extract_lets client nick err482 preChecked a1 ifHalfOp sign
  have h1 : ModeSame a a1 := by
    show ModeSame a (if _ then _ else _)
    split
    · exact ⟨rfl, rfl, rfl, rfl⟩
    · exact ModeSame.refl _
  refine h1.trans ?_
  have hI : ifHalfOp = false := h
  clear_value a1 sign ifHalfOp preChecked
  subst hI
  clear h1
  by_cases hmem : mchar ∈ ['+', '-', 'b', 'e', 'I', 'o', 'v', 'h', 'q', 'a', 'l', 'k', 'i', 'm', 't', 'n', 's']
  · simp only [List.mem_cons, List.not_mem_nil, or_false] at hmem
    rcases hmem with rfl | rfl | rfl | rfl | rfl | rfl | rfl | rfl | rfl | rfl | rfl | rfl | rfl | rfl | rfl | rfl | rfl
    all_goals simp only [Char.reduceEq, ↓reduceIte, decide_false, decide_true, Bool.or_false, Bool.or_true, Bool.false_eq_true, hmay]
    all_goals repeat' split
    all_goals exact ⟨rfl, rfl, rfl, rfl⟩
  · simp only [List.mem_cons, List.not_mem_nil, or_false, not_or] at hmem
    obtain ⟨h1, h2, h3, h4, h5, h6, h7, h8, h9, h10, h11, h12, h13, h14, h15, h16, h17⟩ := hmem
    simp only [h1, h2, h3, h4, h5, h6, h7, h8, h9, h10, h11, h12, h13, h14, h15, h16, h17, ↓reduceIte, decide_false, Bool.or_false]
    exact ModeSame.refl _

theorem modeRun_lowrank (cfg : Cfg) (cn : Conn) (target : Str) (chum : ChanUserModes) (a : ModeAcc)
    (modes : List (Str × List Str)) (h : chum.isHalfOperator = false) :
    ModeSame a (modes.foldl (modeGroup cfg cn target chum) a) := by
  suffices hs : ∀ b, ModeSame a b → ModeSame a (modes.foldl (modeGroup cfg cn target chum) b) from
    hs a (ModeSame.refl a)
  intro b h0
  induction modes generalizing b with
  | nil => exact h0
  | cons g gs ih =>
    refine ih _ (h0.trans ?_)
    unfold modeGroup
    have h1 : ModeSame b { b with args := g.2, modeSet := false } := ⟨rfl, rfl, rfl, rfl⟩
    suffices hs : ∀ d, ModeSame b d → ModeSame b (g.1.foldl (modeChar cfg cn target chum) d) from hs _ h1
    intro d hd
    induction g.1 generalizing d with
    | nil => exact hd
    | cons m ms ih2 => exact ih2 _ (hd.trans (modeChar_lowrank cfg cn target chum d m h))

theorem Map.insert_lookup_self {α : Type} (k : Str) (v : α) (m : Map α) (h : Map.lookup k m = some v) :
    Map.insert k v m = m := by
  induction m with
  | nil => simp [Map.lookup] at h
  | cons p m ih =>
    obtain ⟨k', v'⟩ := p
    simp only [Map.insert]
    simp only [Map.lookup] at h
    split
    · rename_i hk; simp_all
    · rename_i hk; simp only [hk, ↓reduceIte] at h; rw [ih h]

end Irc
