/-
  Property C18, the frame fact left open in `Irc/Props/C18.lean`:
  "each connection task owns its `ConnState` exclusively" for ONE-SECTION commands, i.e. for a
  whole `handleLine` (all 41 handlers).

  `C18.whole_sections_independent_full` is TRUE as stated and is proved here in full
  (`whole_sections_independent_full_holds`); no hypothesis had to be added.  In fact more holds:

  * `whole_sections_independent`   the hypothesis "no user is owned by `c`" is only needed when the
      line is a well-formed KILL, DIE or SQUIT (`lineKills`); for every other line (parse errors,
      the registration gate, the other 38 handlers) both conclusions hold in EVERY context;
  * `whole_section_secIndep`        hence `Conc.SecIndep cfg c (.whole d line)` — the hypothesis that
      the serialisability theorems of C18 section 4 put on the foreign sections `F`, `G` — holds
      unconditionally for every line of another connection that is not KILL / DIE / SQUIT;
  * the two conclusions separately (`whole_commutes`, `whole_keeps`).

  That the hypothesis cannot be dropped for KILL is shown by a `decide`d run at the end
  (`kill_reaches_owner`): an operator's KILL writes `killedBy` into the record of the connection that
  owns the victim, and does not commute with a replacement of that record.

  Proof (files `Irc/Props/C18FrameLemmas0 … 5.lean`): for every context primitive, helper and handler
  `h` of connection `d`, and every record `cn` with `cn.id ≠ d`,
     (A)  `h (x.setConn cn) = (h x).setConn cn`        (simp set `fr_push`, tactic `fr`)
     (B)  `(h x).w.conn? c = x.w.conn? c`  for `c ≠ d`  (relation `Keep`, tactic `kp`)
  `fireKill` (KILL / DIE / SQUIT) is the only place where a handler reads or writes a record other
  than its own (`w.conn? u.owner`); there (A) and (B) use `NoOwn c w`, which `fireKill` preserves.
-/
import Irc.Props.C18
import Irc.Props.C18FrameLemmas5

namespace Irc.C18

open Irc Irc.Conc Irc.C18F

/-- the line is a well-formed KILL, DIE or SQUIT: the only commands whose handler reaches the
    record of a connection other than the acting one -/
abbrev lineKills (line : Str) : Bool := C18F.lineKills line

/-- **(A)** a whole command of `d` commutes with every replacement of the record of `c ≠ d`;
    "no user is owned by `c`" is needed for KILL / DIE / SQUIT only. -/
theorem whole_commutes (cfg : Cfg) {c d : Nat} (line : Str) (x : Ctx) (cn : Conn) (hdc : d ≠ c)
    (hid : cn.id = c)
    (hown : lineKills line = true → ∀ n u, Map.lookup n x.w.users = some u → u.owner ≠ c) :
    handleLine cfg d line (x.setConn cn) = (handleLine cfg d line x).setConn cn := by
  have hne : cn.id ≠ d := by rw [hid]; exact fun e => hdc e.symm
  exact handleLine_sc hne line (fun hk => hid ▸ hown hk)

/-- **(B)** a whole command of `d` leaves the record of `c ≠ d` as it is. -/
theorem whole_keeps (cfg : Cfg) {c d : Nat} (line : Str) (x : Ctx) (hdc : d ≠ c)
    (hown : lineKills line = true → ∀ n u, Map.lookup n x.w.users = some u → u.owner ≠ c) :
    (handleLine cfg d line x).w.conn? c = x.w.conn? c :=
  keep_handleLine hdc line hown

/-- the strongest form: the ownership hypothesis only for lines that are KILL / DIE / SQUIT -/
theorem whole_sections_independent (cfg : Cfg) (c d : Nat) (line : Str) (x : Ctx) (cn : Conn)
    (hdc : d ≠ c) (hid : cn.id = c)
    (hown : lineKills line = true → ∀ n u, Map.lookup n x.w.users = some u → u.owner ≠ c) :
    handleLine cfg d line (x.setConn cn) = (handleLine cfg d line x).setConn cn ∧
    (handleLine cfg d line x).w.conn? c = x.w.conn? c :=
  ⟨whole_commutes cfg line x cn hdc hid hown, whole_keeps cfg line x hdc hown⟩

/-- **`whole_sections_independent_full`** (stated in `Irc/Props/C18.lean`) holds as stated. -/
theorem whole_sections_independent_full_holds : whole_sections_independent_full :=
  fun cfg c d line x cn hdc hid hown =>
    whole_sections_independent cfg c d line x cn hdc hid (fun _ => hown)

/-- a one-section command of another connection that is not KILL / DIE / SQUIT is independent of
    `c` in the sense of `Conc.SecIndep`, in every state: it can be used as a foreign section in
    `serialisable_nick_first / _last / _corner`, `authDecide_mover_run`, … -/
theorem whole_section_secIndep (cfg : Cfg) {c d : Nat} (hdc : d ≠ c) (line : Str)
    (hk : lineKills line = false) : SecIndep cfg c (.whole d line) where
  other := hdc
  comm p x cn hcn := by
    have e := whole_commutes cfg line x cn hdc hcn (fun h => by rw [hk] at h; cases h)
    simp only [execSection, e]
  conn_eq p x := whole_keeps cfg line x hdc (fun h => by rw [hk] at h; cases h)

/-- the same for a registered connection's KILL / DIE / SQUIT, as a statement about the state the
    section runs in: it is independent of `c` wherever no user is owned by `c` -/
theorem whole_section_indep_at (cfg : Cfg) {c d : Nat} (hdc : d ≠ c) (line : Str) (p : Pc) (x : Ctx)
    (cn : Conn) (hid : cn.id = c) (hown : ∀ n u, Map.lookup n x.w.users = some u → u.owner ≠ c) :
    execSection cfg (.whole d line) ⟨p, x.setConn cn⟩ =
      ⟨(execSection cfg (.whole d line) ⟨p, x⟩).pc,
       (execSection cfg (.whole d line) ⟨p, x⟩).x.setConn cn⟩ ∧
    (execSection cfg (.whole d line) ⟨p, x⟩).x.w.conn? c = x.w.conn? c := by
  obtain ⟨e1, e2⟩ := whole_sections_independent_full_holds cfg c d line x cn hdc hid hown
  exact ⟨by simp only [execSection, e1], e2⟩

/-! ### the statements are not vacuous; the hypothesis is needed for KILL -/

-- which lines need the hypothesis
example : lineKills (str "KILL b :bye") = true ∧ lineKills (str "DIE") = true ∧
    lineKills (str "SQUIT irc.irc :x") = true ∧ lineKills (str "KILL b") = false ∧
    lineKills (str "NICK a") = false ∧ lineKills (str "PRIVMSG b :KILL b :x") = false ∧
    lineKills (str "QUIT") = false := by decide

open Demo in
-- the demo world of C18 (connections 1 and 2 have sent USER, nobody is registered): the hypotheses
-- hold for `c = 2`, `d = 1`, and the command of 1 does change the state
example : (∀ n u, Map.lookup n ({ w := w0 } : Ctx).w.users = some u → u.owner ≠ 2) ∧
    (w0.conn? 2).isSome = true ∧ (w0.conn? 1).isSome = true ∧
    Map.keys (handleLine cfg 1 (str "NICK a") { w := w0 }).w.users = [nickA] ∧
    ((handleLine cfg 1 (str "NICK a") { w := w0 }).w.conn? 1).map (·.authenticated) = some true := by
  refine ⟨?_, by decide, by decide, by decide, by decide⟩
  intro n u h
  have e : w0.users = [] := by decide
  rw [show ({ w := w0 } : Ctx).w.users = w0.users from rfl, e] at h
  cases h

open Demo in
-- … and `whole_sections_independent_full_holds` applies to it
example (cn : Conn) (hid : cn.id = 2) :
    handleLine cfg 1 (str "NICK a") (({ w := w0 } : Ctx).setConn cn) =
      (handleLine cfg 1 (str "NICK a") { w := w0 }).setConn cn ∧
    (handleLine cfg 1 (str "NICK a") { w := w0 }).w.conn? 2 = w0.conn? 2 := by
  refine whole_sections_independent_full_holds cfg 2 1 _ _ cn (by decide) hid ?_
  intro n u h
  have e : w0.users = [] := by decide
  rw [show ({ w := w0 } : Ctx).w.users = w0.users from rfl, e] at h
  cases h

namespace Demo
/-- a configuration with one operator block -/
def kcfg : Cfg := { operators := [{ name := str "op", password := str "pw", mask := none }] }
/-- `a` on connection 1 is an operator, `b` is registered on connection 2 -/
def kw : World := run kcfg [.connect 1 ip, .line 1 (str "NICK a"), .line 1 (str "USER a 0 * :A"),
  .line 1 (str "OPER op pw"), .connect 2 ip, .line 2 (str "NICK b"), .line 2 (str "USER b 0 * :B")]
/-- a fresh record for connection 2 -/
def cn2 : Conn := Conn.new 2 ip
end Demo

set_option maxRecDepth 16384 in
open Demo in
/-- **`kill_reaches_owner`**: the hypothesis "no user is owned by `c`" cannot be dropped.  In `kw`
    the user `b` is owned by connection 2; the KILL of operator `a` (connection 1)
    * writes `killedBy` into the record of connection 2 (second conjunct of the statement fails), and
    * does not commute with a replacement of that record (first conjunct fails: replacing first,
      the new record receives the signal; replacing afterwards, it does not). -/
example : ownerOf { w := kw } (str "b") = some 2 ∧ lineKills (str "KILL b :bye") = true ∧
    (kw.conn? 2).map (·.killedBy) = some none ∧
    ((handleLine kcfg 1 (str "KILL b :bye") { w := kw }).w.conn? 2).map (·.killedBy) =
      some (some (str "a", str "bye")) ∧
    ((handleLine kcfg 1 (str "KILL b :bye") (({ w := kw } : Ctx).setConn cn2)).w.conn? 2).map
      (·.killedBy) = some (some (str "a", str "bye")) ∧
    (((handleLine kcfg 1 (str "KILL b :bye") { w := kw }).setConn cn2).w.conn? 2).map
      (·.killedBy) = some none := by decide

end Irc.C18
