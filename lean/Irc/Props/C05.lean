import Irc.Step
namespace Irc.C05
open Irc

/-- placeholder first theorem: a `connect` never sets the panic flag. -/
theorem connect_no_panic (cfg : Cfg) (w : World) (c : Nat) (ip : Str) (h : w.panicked = none) :
    (step cfg w (.connect c ip)).w.panicked = none := by
  simp only [step]
  split <;> (try split) <;> simp [h]

end Irc.C05
