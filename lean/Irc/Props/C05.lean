/-
  Irc.Props.C05 — property C05 (no crash).

  "For every sequence of lines a client can send - well formed or not, in any session state - the
  server answers or ignores each line and keeps serving: the sending connection stays open unless
  the protocol itself ends it (QUIT, failed password, KILL, ping timeout, DIE, or bytes that are not
  valid text / an over-long line, which may at worst close that one connection cleanly), and no
  other connection is closed, stalled or deprived of messages as a consequence.  In particular no
  command, parameter, mask, mode string or text makes a handler abort abnormally."

  In the model every `unwrap` / index / slice / checked-arithmetic site of the Rust handlers is a
  branch that sets `World.panicked`.  Helper lemmas (the effect relation `Eff`, proved for all 41
  handlers without any assumption on the state) are in `Irc/Props/C05Lemmas.lean`.
-/
import Irc.Props.C05Lemmas

namespace Irc.C05
open Irc

/-! ### a. no handler aborts -/

/-- One operation from a state satisfying the invariant never hits a panic site -- for EVERY event,
    in particular `Event.line c s` for every connection `c` and every line `s` (any characters, any
    length). -/
theorem no_panic {cfg : Cfg} {w : World} {e : Event} (h : Inv w) (hs : Sched w e) :
    (step cfg w e).w.panicked = none :=
  (inv_step h hs).noPanic

/-- specialisation to lines: nothing is required of `c` or `s` -/
theorem no_panic_line {cfg : Cfg} {w : World} (h : Inv w) (c : Nat) (s : Str) :
    (step cfg w (.line c s)).w.panicked = none :=
  no_panic h trivial

/-- no reachable state has the panic flag set -/
theorem no_panic_reachable {cfg : Cfg} {evs : List Event} (hs : SchedAll cfg evs) :
    (run cfg evs).panicked = none :=
  (inv_run hs).noPanic

theorem no_panic_of_reachable {cfg : Cfg} {w : World} (hr : Reachable cfg w) : w.panicked = none :=
  (inv_reachable hr).noPanic

/-- the flag is not merely clear at the end of the operation: the handler itself (before the
    settling phase) has not set it -/
theorem handler_no_panic {cfg : Cfg} {w : World} {c : Nat} {s : Str} (h : Inv w) (hl : Live w c) :
    (handleLine cfg c s { w := w }).w.panicked = none :=
  (invCore_handleLine (x := { w := w }) h.toInvCore hl).1.noPanic

/-! ### b. every line is answered or ignored; nothing already written is lost -/

/-- `handleLine` is total (trivially, in Lean); the meaningful statement: for every line, in every
    context, the handler only ever APPENDS to the replies of the sender (`direct`) and to the lines
    queued for other users (`queued`) -- the old contents stay, as a prefix.  ("Ignored" is the case
    where nothing is appended, e.g. a blank line.)  All 41 handlers, no assumption on the state. -/
theorem every_line_answered_or_ignored (cfg : Cfg) (c : Nat) (s : Str) (x : Ctx) :
    x.direct <+: (handleLine cfg c s x).direct ∧ x.queued <+: (handleLine cfg c s x).queued :=
  ⟨(eff_handleLine (cfg := cfg) (c := c) (X := x) (s := s)).direct,
   (eff_handleLine (cfg := cfg) (c := c) (X := x) (s := s)).queued⟩

/-- the same for the dispatcher alone -/
theorem every_command_answered_or_ignored (cfg : Cfg) (c : Nat) (msg : Message) (cmd : Command)
    (x : Ctx) : x.direct <+: (dispatch cfg c msg cmd x).direct ∧
      x.queued <+: (dispatch cfg c msg cmd x).queued :=
  ⟨(eff_dispatch (cfg := cfg) (c := c) (X := x) (msg := msg) (cmd := cmd)).direct,
   (eff_dispatch (cfg := cfg) (c := c) (X := x) (msg := msg) (cmd := cmd)).queued⟩

/-- and nobody is deprived of messages by the delivery: everything the handler wrote (its replies,
    then the queued lines, in order) is the beginning of what the operation delivers; the settling
    phase only adds lines (the ERROR line of a killed connection) -/
theorem every_line_delivered {cfg : Cfg} {w : World} {c : Nat} {s : Str} {cn : Conn}
    (hc : w.conn? c = some cn) :
    ((handleLine cfg c s { w := w }).direct.map (fun l => (c, l)) ++
      (handleLine cfg c s { w := w }).queued) <+: (step cfg w (.line c s)).outs := by
  unfold step
  simp only [hc]
  exact finish_outs_prefix cfg c _ []

/-- a blank line is ignored altogether -/
theorem blank_line_ignored (cfg : Cfg) (c : Nat) (x : Ctx) : handleLine cfg c [] x = x := by
  have hp : Message.parse [] = .error .empty := by decide
  unfold handleLine
  simp only [hp]

/-! ### c. nobody else is closed -/

/-- case analysis of a `line` operation -/
theorem step_line_cases (cfg : Cfg) (w : World) (c : Nat) (s : Str) :
    (w.conn? c = none ∧ (step cfg w (.line c s)).w = w) ∨
    (∃ cn, w.conn? c = some cn ∧
      step cfg w (.line c s) = finish cfg c (handleLine cfg c s { w := w })) := by
  unfold step
  simp only
  split
  · rename_i h; exact Or.inl ⟨h, rfl⟩
  · rename_i cn h; exact Or.inr ⟨cn, h, rfl⟩

/-- Frame fact, all handlers, NO assumption on the state: every connection record other than the
    sender's stems from a record with the same id and the same `quit` flag -- a handler never sets
    the `quit` flag of anybody but its own connection. -/
theorem handleLine_others_frame (cfg : Cfg) (c : Nat) (s : Str) (x : Ctx) :
    ∀ y, y ∈ (handleLine cfg c s x).w.conns → y.id ≠ c →
      ∃ y0, y0 ∈ x.w.conns ∧ y0.id = y.id ∧ y0.quit = y.quit ∧ (lineKills s = false → y0 = y) := by
  intro y hy hne
  obtain ⟨y0, h0, hid, hr⟩ := (eff_handleLine (cfg := cfg) (c := c) (X := x) (s := s)).conns y hy
  exact ⟨y0, h0, hid, (hr hne).1, (hr hne).2⟩

/-- The same in terms of `Ctx.conn`, in a state satisfying the (mid-operation) invariant:
    `quit` of every other connection is untouched -- by every handler, KILL and DIE included. -/
theorem handleLine_quit_only_self {cfg : Cfg} {c : Nat} {s : Str} {x : Ctx} (h : InvCore x.w)
    (hl : Live x.w c) : ∀ d, d ≠ c → ((handleLine cfg c s x).conn d).quit = (x.conn d).quit := by
  intro d hd
  obtain ⟨hI, hS⟩ := invCore_handleLine (cfg := cfg) (s := s) h hl
  cases hx : x.w.conn? d with
  | some cn0 =>
    have hl0 : Live x.w d := ⟨cn0, conn?_mem hx, conn?_id hx⟩
    obtain ⟨y, hy, hym, hyid⟩ := conn?_of_live (Live.of_same hS hl0)
    obtain ⟨y0, h0, hid0, hq, _⟩ := handleLine_others_frame cfg c s x y hym (by rw [hyid]; exact hd)
    have : y0 = cn0 := Tear.conn_eq_of_id h.connsNodup h0 (conn?_mem hx)
      (by rw [hid0, hyid, conn?_id hx])
    rw [conn_of_conn? hy, conn_of_conn? hx, ← hq, this]
  | none =>
    have hn : (handleLine cfg c s x).w.conn? d = none := by
      cases hy : (handleLine cfg c s x).w.conn? d with
      | none => rfl
      | some y =>
        have hS' : SameConnIds (handleLine cfg c s x).w x.w := by
          unfold SameConnIds at hS ⊢; exact hS.symm
        obtain ⟨cn, hcn, _, _⟩ := conn?_of_live (Live.of_same hS' ⟨y, conn?_mem hy, conn?_id hy⟩)
        rw [hx] at hcn; cases hcn
    unfold Ctx.conn
    rw [hn, hx]

/-- A command other than KILL / DIE / SQUIT leaves every other connection exactly as it was:
    same record, still open after the operation. -/
theorem others_untouched {cfg : Cfg} {w : World} {c : Nat} {s : Str} (h : Inv w)
    (hk : lineKills s = false) :
    ∀ y, y ∈ w.conns → y.id ≠ c → y ∈ (step cfg w (.line c s)).w.conns := by
  intro y hy hne
  rcases step_line_cases cfg w c s with ⟨_, e⟩ | ⟨cn, hc, e⟩
  · rw [e]; exact hy
  · rw [e]
    have hl : Live w c := ⟨cn, conn?_mem hc, conn?_id hc⟩
    obtain ⟨hI, hS⟩ := invCore_handleLine (cfg := cfg) (s := s) (x := { w := w }) h.toInvCore hl
    rw [Tear.finish_conns hI]
    obtain ⟨y', hy', hid'⟩ := Live.of_same hS ⟨y, hy, rfl⟩
    obtain ⟨y0, h0, hid0, _, heq⟩ :=
      handleLine_others_frame cfg c s { w := w } y' hy' (by rw [hid']; exact hne)
    have e0 : y0 = y := Tear.conn_eq_of_id h.connsNodup h0 hy (by rw [hid0, hid'])
    have e1 : y = y' := e0.symm.trans (heq hk)
    exact ⟨e1 ▸ hy', (h.settled y hy).1, (h.settled y hy).2⟩

/-- hence: if the parsed command is none of KILL, DIE, SQUIT (in particular if the line does not
    parse at all), every other live connection stays live -/
theorem others_stay_open {cfg : Cfg} {w : World} {c : Nat} {s : Str} (h : Inv w)
    (hk : lineKills s = false) : ∀ d, d ≠ c → Live w d → Live (step cfg w (.line c s)).w d := by
  rintro d hd ⟨y, hy, hid⟩
  exact ⟨y, others_untouched h hk y hy (by rw [hid]; exact hd), hid⟩

/-- In general: another connection `d` disappears only if the command was KILL / DIE / SQUIT and
    the handler set `d`'s `killedBy` (the fired quit signal, consumed by the settling phase). -/
theorem others_closed_only_by_kill {cfg : Cfg} {w : World} {c d : Nat} {s : Str} (h : Inv w)
    (hd : d ≠ c) (hl : Live w d) (hgone : ¬ Live (step cfg w (.line c s)).w d) :
    lineKills s = true ∧
    ∃ y, y ∈ (handleLine cfg c s { w := w }).w.conns ∧ y.id = d ∧ y.killedBy.isSome = true := by
  rcases step_line_cases cfg w c s with ⟨_, e⟩ | ⟨cn, hc, e⟩
  · rw [e] at hgone; exact absurd hl hgone
  · have hlc : Live w c := ⟨cn, conn?_mem hc, conn?_id hc⟩
    obtain ⟨hI, hS⟩ := invCore_handleLine (cfg := cfg) (s := s) (x := { w := w }) h.toInvCore hlc
    obtain ⟨y, hy, hid⟩ := Live.of_same hS hl
    obtain ⟨y0, h0, hid0, hq, heq⟩ :=
      handleLine_others_frame cfg c s { w := w } y hy (by rw [hid]; exact hd)
    have hyq : y.quit = false := by rw [← hq]; exact (h.settled y0 h0).1
    have hyk : y.killedBy ≠ none := by
      intro hk
      apply hgone
      rw [e]
      exact ⟨y, (Tear.finish_conns hI y).mpr ⟨hy, hyq, hk⟩, hid⟩
    refine ⟨?_, y, hy, hid, ?_⟩
    · cases hk : lineKills s with
      | true => rfl
      | false =>
        have := heq hk
        subst this
        exact absurd (h.settled y0 h0).2 hyk
    · cases hkb : y.killedBy with
      | none => exact absurd hkb hyk
      | some p => rfl

/-- The sender itself stays open unless the protocol ends the connection: the command is QUIT, or
    the registration failed with a bad password (the 464 reply has been written), or the command is
    KILL / DIE / SQUIT and hit the sender itself (its own `killedBy` was set). -/
theorem sender_stays_open {cfg : Cfg} {w : World} {c : Nat} {s : Str} (h : Inv w) (hl : Live w c) :
    Live (step cfg w (.line c s)).w c ∨
    lineQuits s = true ∨
    Said464 cfg (handleLine cfg c s { w := w }) ∨
    (lineKills s = true ∧
      ∃ y, y ∈ (handleLine cfg c s { w := w }).w.conns ∧ y.id = c ∧ y.killedBy.isSome = true) := by
  obtain ⟨cn, hc, hm, hid⟩ := conn?_of_live hl
  rcases step_line_cases cfg w c s with ⟨hn, _⟩ | ⟨_, _, e⟩
  · rw [hc] at hn; cases hn
  · obtain ⟨hI, hS⟩ := invCore_handleLine (cfg := cfg) (s := s) (x := { w := w }) h.toInvCore hl
    obtain ⟨cn', hc', hq, hk⟩ :=
      (eff_handleLine (cfg := cfg) (c := c) (X := { w := w }) (s := s)).self cn hc
    have hm' := conn?_mem hc'
    have hid' := conn?_id hc'
    rcases hq with hq | hq | hq
    · cases hkb : cn'.killedBy with
      | none =>
        left
        rw [e]
        exact ⟨cn', (Tear.finish_conns hI cn').mpr
          ⟨hm', by rw [hq]; exact (h.settled cn hm).1, hkb⟩, hid'⟩
      | some p =>
        right; right; right
        refine ⟨?_, cn', hm', hid', by rw [hkb]; rfl⟩
        cases hks : lineKills s with
        | true => rfl
        | false =>
          have := hk hks
          rw [hkb, (h.settled cn hm).2] at this
          cases this
    · exact Or.inr (Or.inl hq)
    · exact Or.inr (Or.inr (Or.inl hq))

/-- for an already registered sender that uses none of the registration commands there is no 464
    case either: e.g. every line that fails to parse keeps the sender open -/
theorem sender_stays_open_unparsed {cfg : Cfg} {w : World} {c : Nat} {s : Str} (h : Inv w)
    (hl : Live w c) (hp : lineCmd s = none) : Live (step cfg w (.line c s)).w c := by
  obtain ⟨cn, hc, hm, hid⟩ := conn?_of_live hl
  rcases step_line_cases cfg w c s with ⟨hn, _⟩ | ⟨_, _, e⟩
  · rw [hc] at hn; cases hn
  · obtain ⟨hI, hS⟩ := invCore_handleLine (cfg := cfg) (s := s) (x := { w := w }) h.toInvCore hl
    -- a line that does not parse to a command only produces a reply: the world is unchanged
    have hw : (handleLine cfg c s { w := w }).w = w := by
      unfold lineCmd at hp
      unfold handleLine
      split at hp
      · rename_i msg hmsg
        split at hp
        · cases hp
        · rename_i e' he
          simp only [hmsg, he]
          rfl
      · rename_i e' he
        simp only [he]
        cases e' <;> rfl
    rw [e]
    exact ⟨cn, (Tear.finish_conns hI cn).mpr
      ⟨by rw [hw]; exact hm, (h.settled cn hm).1, (h.settled cn hm).2⟩, hid⟩

/-! ### c'. all events: whatever happens on connection `c` -- a command, garbage, an over-long line,
  invalid UTF-8, EOF, a reset, a new connection -- the OTHER connections are left exactly as they
  were, unless the event is a KILL / DIE / SQUIT line -/

/-- the connection an event happens on -/
def Event.actor : Event → Nat
  | .connect c _ | .line c _ | .tooLong c | .badUtf8 c | .eof c | .reset c | .partialLine c _ => c

def Event.kills : Event → Bool
  | .line _ s => lineKills s
  | _ => false

/-- a stream end on `c` (the framed stream yields an error / `None`): `c` is flagged `quit` and torn
    down by the settling phase; everybody else keeps its record -/
theorem streamEnd_others_untouched {cfg : Cfg} {w : World} {c : Nat} {cn : Conn} {x : Ctx}
    {evs : List Str} (h : Inv w) (hc : w.conn? c = some cn) (hx : x.w = w) :
    ∀ y, y ∈ w.conns → y.id ≠ c →
      y ∈ (finish cfg c (x.setConn { cn with quit := true }) evs).w.conns := by
  intro y hy hne
  have hm := conn?_mem hc
  have hid := conn?_id hc
  have hI : InvCore (x.setConn { cn with quit := true }).w := by
    rw [Ctx.setConn_w, hx]
    exact Tear.invCore_setConn_quit h.toInvCore hm cn.killedBy
  rw [Tear.finish_conns hI, Ctx.setConn_w, hx]
  refine ⟨?_, (h.settled y hy).1, (h.settled y hy).2⟩
  exact (Tear.mem_setConn (cn' := { cn with quit := true }) hm rfl y).mpr
    (Or.inr ⟨hy, by rw [hid]; exact hne⟩)

theorem others_untouched_event {cfg : Cfg} {w : World} {e : Event} (h : Inv w)
    (hk : Event.kills e = false) :
    ∀ y, y ∈ w.conns → y.id ≠ Event.actor e → y ∈ (step cfg w e).w.conns := by
  intro y hy hne
  cases e with
  | connect c ip =>
    rcases Tear.step_connect_w cfg w c ip with e | e <;> rw [e]
    · exact hy
    · exact List.mem_append_left _ hy
  | line c s => exact others_untouched h hk y hy hne
  | tooLong c =>
    unfold step
    simp only
    split
    · exact hy
    · rename_i cn hc
      exact streamEnd_others_untouched h hc rfl y hy hne
  | badUtf8 c =>
    unfold step
    simp only
    split
    · exact hy
    · rename_i cn hc
      exact streamEnd_others_untouched h hc rfl y hy hne
  | eof c =>
    unfold step
    simp only
    split
    · exact hy
    · rename_i cn hc
      exact streamEnd_others_untouched h hc rfl y hy hne
  | reset c =>
    unfold step
    simp only
    split
    · exact hy
    · rename_i cn hc
      exact streamEnd_others_untouched h hc rfl y hy hne
  | partialLine c s =>
    unfold step
    simp only
    split <;> exact hy

/-- along a whole run: a connection stays open (with the very same record) as long as nothing
    happens on it and nobody issues KILL / DIE / SQUIT -/
theorem bystander_untouched {cfg : Cfg} {w : World} {y : Conn} (evs : List Event) (h : Inv w)
    (hs : SchedFrom cfg w evs) (hy : y ∈ w.conns)
    (hq : ∀ e, e ∈ evs → Event.kills e = false ∧ Event.actor e ≠ y.id) :
    y ∈ (evs.foldl (fun w e => (step cfg w e).w) w).conns := by
  induction evs generalizing w with
  | nil => exact hy
  | cons e es ih =>
    rw [List.foldl_cons]
    have he := hq e (List.mem_cons_self ..)
    exact ih (inv_step h hs.1) hs.2
      (others_untouched_event h he.1 y hy (fun e' => he.2 e'.symm))
      (fun e' hm => hq e' (List.mem_cons_of_mem _ hm))

/-! ### d. concrete runs (kernel-checked by `decide`): the inputs that used to crash the Rust
  server, and a mask-heavy MODE / JOIN session -/

namespace Ex

def cfg0 : Cfg := {}

def reg (c : Nat) (n : String) : List Event :=
  [.connect c (str "10.0.0.1"), .line c (str ("NICK " ++ n)), .line c (str ("USER " ++ n ++ " 0 * :R"))]

/-- alice (founder) and bob on `#c` -/
def setup : List Event :=
  reg 1 "alice" ++ reg 2 "bob" ++ [.line 1 (str "JOIN #c"), .line 2 (str "JOIN #c")]

/-- KICK on a channel that does not exist (Rust: `unwrap` on `None`) -/
def kick1 : List Event := setup ++ [.line 1 (str "KICK #nochan bob")]
/-- KICK naming the same user twice (Rust: second `remove_user` unwrap) -/
def kick2 : List Event := setup ++ [.line 1 (str "KICK #c bob,bob")]
/-- the last member (an operator) kicks itself: the channel disappears under the handler's feet -/
def kick3 : List Event :=
  setup ++ [.line 1 (str "MODE #c +o bob"), .line 1 (str "PART #c"), .line 2 (str "KICK #c bob")]

theorem kick1_sched : SchedAll cfg0 kick1 := by decide
theorem kick2_sched : SchedAll cfg0 kick2 := by decide
theorem kick3_sched : SchedAll cfg0 kick3 := by decide

example : (run cfg0 kick1).panicked = none := by decide
example : (run cfg0 kick2).panicked = none := by decide
example : (run cfg0 kick3).panicked = none := by decide
-- the same three facts, from the general theorem
example : (run cfg0 kick1).panicked = none := no_panic_reachable kick1_sched
example : (run cfg0 kick2).panicked = none := no_panic_reachable kick2_sched
example : (run cfg0 kick3).panicked = none := no_panic_reachable kick3_sched
-- and the runs do what they should: bob is kicked once, the emptied channel is gone, everybody
-- is still connected
example : (Map.lookup (str "#c") (run cfg0 kick2).channels).map (fun C => Map.keys C.users) =
    some [str "alice"] := by decide
example : (run cfg0 kick3).channels = [] ∧ (run cfg0 kick3).conns.map (·.id) = [1, 2] := by decide
example : (step cfg0 (run cfg0 setup) (.line 1 (str "KICK #nochan bob"))).outs =
    [(1, (str ":irc.irc " ++ Reply.ErrNoSuchChannel403 (client := str "alice") (channel := str "#nochan")))] := by decide

/-- masks, keys, limits, rank changes, missing and surplus arguments, list queries -/
def modeRun : List Event := setup ++
  [ .line 1 (str "MODE #c +b *!*@*"),
    .line 1 (str "MODE #c +e b?b!*@10.*"),
    .line 1 (str "MODE #c +I *"),
    .line 1 (str "MODE #c +ikl secret 5"),
    .line 1 (str "MODE #c b"),
    .line 1 (str "MODE #c +bbb x y"),
    .line 1 (str "MODE #c +o-o+v bob bob bob"),
    .line 1 (str "MODE #c +o"),
    .line 2 (str "PART #c"),
    .line 2 (str "JOIN #c"),
    .line 2 (str "JOIN #c secret"),
    .line 2 (str "JOIN #c,#d,&e secret,,"),
    .line 2 (str "MODE bob +iw-o"),
    .line 2 (str "MODE #d +b-b ***?*!*@* ***?*!*@*"),
    .line 2 (str "WHO *b*"),
    .line 2 (str "WHOIS a*,?ob"),
    .line 1 (str "MODE #c -k+k x y") ]

theorem modeRun_sched : SchedAll cfg0 modeRun := by decide
example : (run cfg0 modeRun).panicked = none := by decide
example : Inv (run cfg0 modeRun) := inv_run modeRun_sched
example : (Map.lookup (str "#c") (run cfg0 modeRun).channels).map (fun C => C.modes.ban) =
    some [str "*!*@*", str "x!*@*", str "y!*@*"] := by decide

/-! non-vacuity of the theorems of part c, on the reachable world `run cfg0 setup` -/

theorem setup_sched : SchedAll cfg0 setup := by decide
theorem setup_inv : Inv (run cfg0 setup) := inv_run setup_sched
theorem live1 : Live (run cfg0 setup) 1 := by unfold Live; decide
theorem live2 : Live (run cfg0 setup) 2 := by unfold Live; decide

-- a KICK is not a kill command: bob's connection survives alice's KICK, unchanged
example : lineKills (str "KICK #c bob") = false := by decide
example : Live (step cfg0 (run cfg0 setup) (.line 1 (str "KICK #c bob"))).w 2 :=
  others_stay_open setup_inv (by decide) 2 (by decide) live2
-- garbage keeps everybody, the sender included
example : lineCmd (str "\x01\x02 :::: ") = none := by decide
example : Live (step cfg0 (run cfg0 setup) (.line 1 (str "\x01\x02 :::: "))).w 1 :=
  sender_stays_open_unparsed setup_inv live1 (by decide)
-- QUIT is one of the exceptions of `sender_stays_open`, and it does close the sender (only)
example : lineQuits (str "QUIT :bye") = true := by decide
example : (step cfg0 (run cfg0 setup) (.line 1 (str "QUIT :bye"))).w.conns.map (·.id) = [2] := by
  decide
-- the handler really appends: a PING is answered, a PRIVMSG is queued for the other member
example : (handleLine cfg0 1 (str "PING x") { w := run cfg0 setup }).direct =
    [str ":irc.irc PONG irc.irc :x"] := by decide
example : (handleLine cfg0 1 (str "PRIVMSG #c :hi") { w := run cfg0 setup }).queued =
    [(2, str ":alice!~alice@10.0.0.1 PRIVMSG #c :hi")] := by decide

-- an over-long line closes the sender (after the 417) and nobody else
example : ∀ y, y ∈ (run cfg0 setup).conns → y.id = 2 →
    y ∈ (step cfg0 (run cfg0 setup) (.tooLong 1)).w.conns :=
  fun y hy hid => others_untouched_event setup_inv rfl y hy (by rw [hid]; decide)
example : let r := step cfg0 (run cfg0 setup) (.tooLong 1)
    r.outs = [(1, (str ":irc.irc " ++ Reply.ErrInputTooLong417 (client := str "alice")))] ∧
    r.w.conns.map (·.id) = [2] ∧ r.w.panicked = none := by decide
-- bob is a bystander of a whole sequence of events on other connections
def noise : List Event :=
  [.line 1 (str "PART #c"), .line 1 (str "\x07\x07"), .connect 3 (str "10.0.0.3"),
   .line 3 (str "NICK alice"), .badUtf8 1, .line 3 (str "JOIN #c"), .eof 3]
example : ∀ y, y ∈ (run cfg0 setup).conns → y.id = 2 →
    y ∈ (noise.foldl (fun w e => (step cfg0 w e).w) (run cfg0 setup)).conns :=
  fun y hy hid => bystander_untouched noise setup_inv (by decide) hy
    (by rw [hid]; decide)
example : (noise.foldl (fun w e => (step cfg0 w e).w) (run cfg0 setup)).conns.map (·.id) = [2] := by
  decide

/-! the exceptions of `sender_stays_open` / `others_closed_only_by_kill` are real (server with a
  password and one operator account) -/

def cfgP : Cfg :=
  { password := some (str "pw"),
    operators := [{ name := str "root", password := str "op", mask := none }] }

def regP (c : Nat) (n : String) : List Event :=
  [.connect c (str "10.0.0.1"), .line c (str "PASS pw"), .line c (str ("NICK " ++ n)),
   .line c (str ("USER " ++ n ++ " 0 * :R"))]

/-- carol gave the wrong password; her USER line completes the (failing) registration -/
def badPw : List Event := [.connect 1 (str "h"), .line 1 (str "PASS wrong"), .line 1 (str "NICK carol")]

theorem badPw_inv : Inv (run cfgP badPw) := inv_run (by decide)
example : let r := step cfgP (run cfgP badPw) (.line 1 (str "USER carol 0 * :C"))
    r.outs = [(1, (str ":irc.irc " ++ Reply.ErrPasswdMismatch464 (client := str "carol")))] ∧ r.w.conns = [] ∧
    r.w.panicked = none := by decide
example : Said464 cfgP (handleLine cfgP 1 (str "USER carol 0 * :C") { w := run cfgP badPw }) :=
  ⟨str "carol", by decide⟩

/-- alice is an IRC operator, bob an ordinary user -/
def killSetup : List Event := regP 1 "alice" ++ regP 2 "bob" ++ [.line 1 (str "OPER root op")]

theorem killSetup_inv : Inv (run cfgP killSetup) := inv_run (by decide)
example : lineKills (str "KILL bob :spam") = true := by decide
-- KILL closes the victim (with the ERROR line) and only the victim
example : let r := step cfgP (run cfgP killSetup) (.line 1 (str "KILL bob :spam"))
    r.outs = [(2, str ":irc.irc ERROR :User killed by alice: spam")] ∧
    r.w.conns.map (·.id) = [1] ∧ r.w.panicked = none := by decide
-- an operator may kill itself; DIE takes everybody down, cleanly
example : (step cfgP (run cfgP killSetup) (.line 1 (str "KILL alice :oops"))).w.conns.map (·.id) =
    [2] := by decide
example : let r := step cfgP (run cfgP killSetup) (.line 1 (str "DIE"))
    r.w.conns = [] ∧ r.w.users = [] ∧ r.w.panicked = none := by decide
-- without the privilege the same line closes nobody
example : (step cfgP (run cfgP killSetup) (.line 2 (str "KILL alice :no"))).w.conns.map (·.id) =
    [1, 2] := by decide

end Ex

end Irc.C05
