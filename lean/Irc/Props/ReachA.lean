/-
  Irc.Props.ReachA — reachability corollaries, part A: properties C01, C02, C07, C10.

  Many property theorems are stated for ALL worlds satisfying the global invariant
  (`(h : Inv w)` / `(h : InvCore w)`).  `Irc.inv_reachable : Reachable cfg w → Inv w`
  (Irc/InvProofs/Step.lean) says every world the server can actually get into satisfies the
  invariant.  The files `Irc/Props/Reach*.lean` restate every such theorem with the invariant
  hypothesis REPLACED by reachability,

      `(hr : Reachable cfg w)`      where   `Reachable cfg w := ∃ evs, SchedAll cfg evs ∧ w = run cfg evs`

  under the name `Irc.Reach.Cxx.<orig>_reachable`, everything else verbatim.  For the headline
  theorem(s) of a property there is in addition a trace-level form `<name>_run` that speaks about
  `run cfg evs` for a well-scheduled event list `evs` directly (for step properties: about
  `step cfg (run cfg pre) e`, the step taken after the well-scheduled prefix `pre`).

  All proofs are one-liners: the original theorem applied to `inv_reachable hr` (or its
  `InvCore` part, `(inv_reachable hr).toInvCore`).  The last file (`ReachF.lean`) ends with a
  concrete well-scheduled run and instances of the corollaries at the world it reaches.

  Parts:  A = C01 C02 C07 C10,  B = C04,  C = C05 C06 C19,  D = C11 C12,  E = C04Announce,
          F = C15 C16 + non-vacuity.
-/
import Irc.InvProofs.Step
import Irc.Props.C01
import Irc.Props.C02
import Irc.Props.C07
import Irc.Props.C10

namespace Irc.Reach
open Irc

/-! ## 0. small facts about `run` / `SchedAll` / `Reachable` used by the trace-level forms -/

/-- the world after a well-scheduled event list is reachable (by definition) -/
theorem reachable_run {cfg : Cfg} {evs : List Event} (hs : SchedAll cfg evs) :
    Reachable cfg (run cfg evs) := ⟨evs, hs, rfl⟩

/-- the core (mid-operation) part of the invariant in a reachable world -/
theorem core_reachable {cfg : Cfg} {w : World} (hr : Reachable cfg w) : InvCore w :=
  (inv_reachable hr).toInvCore

/-- running `pre ++ [e]` is running `pre` and then taking the step `e` -/
theorem run_snoc (cfg : Cfg) (pre : List Event) (e : Event) :
    run cfg (pre ++ [e]) = (step cfg (run cfg pre) e).w := by
  unfold run
  rw [List.foldl_append]
  rfl

theorem schedFrom_prefix {cfg : Cfg} {w : World} {pre post : List Event}
    (hs : SchedFrom cfg w (pre ++ post)) : SchedFrom cfg w pre := by
  induction pre generalizing w with
  | nil => trivial
  | cons a es ih => exact ⟨hs.1, ih hs.2⟩

theorem schedFrom_suffix {cfg : Cfg} {w : World} {pre post : List Event}
    (hs : SchedFrom cfg w (pre ++ post)) :
    SchedFrom cfg (pre.foldl (fun w e => (step cfg w e).w) w) post := by
  induction pre generalizing w with
  | nil => exact hs
  | cons a es ih => exact ih hs.2

/-- a prefix of a well-scheduled event list is well scheduled -/
theorem schedAll_prefix {cfg : Cfg} {pre post : List Event} (hs : SchedAll cfg (pre ++ post)) :
    SchedAll cfg pre := schedFrom_prefix hs

/-- the last event of a well-scheduled list is schedulable in the world before it -/
theorem sched_last {cfg : Cfg} {pre : List Event} {e : Event} (hs : SchedAll cfg (pre ++ [e])) :
    Sched (run cfg pre) e := (schedFrom_suffix (cfg := cfg) (w := World.init cfg) hs).1

/-- every world along a well-scheduled run is reachable -/
theorem reachable_prefix {cfg : Cfg} {pre post : List Event} (hs : SchedAll cfg (pre ++ post)) :
    Reachable cfg (run cfg pre) := reachable_run (schedAll_prefix hs)

end Irc.Reach

/-! ## C01 — PRIVMSG / NOTICE delivery -/

namespace Irc.Reach.C01
open Irc Irc.Reply Irc.C01

/-- `C01.world_unchanged_inv` with the invariant replaced by reachability -/
theorem world_unchanged_inv_reachable (cfg : Cfg) (c : Nat) (targets : List Str) (text : Str)
    (notice : Bool) (x : Ctx) {nick : Str} (hr : Reachable cfg x.w)
    (hn : (x.conn c).nick = some nick) (hu : Map.contains nick x.w.users = true) :
    (processPrivmsgNotice cfg c targets text notice x).w = x.w :=
  world_unchanged_inv cfg c targets text notice x (core_reachable hr) hn hu

/-- `C01.delivered_exactly_inv` (the headline of C01) with the invariant replaced by
    reachability -/
theorem delivered_exactly_inv_reachable (cfg : Cfg) (c : Nat) (targets : List Str) (text : Str)
    (notice : Bool) (x : Ctx) {nick : Str} (hr : Reachable cfg x.w)
    (hn : (x.conn c).nick = some nick) :
    ∃ rc : Str → List Str,
      (∀ t, (rc t).Nodup ∧ ∀ n, n ∈ rc t ↔ Spec.receives x.w nick (x.conn c).source t n) ∧
      (processPrivmsgNotice cfg c targets text notice x).queued =
        x.queued ++ (dedup targets).flatMap (fun t => (rc t).map (fun n =>
          (Spec.ownerOf x.w n, Spec.line (x.conn c).source notice t text))) :=
  delivered_exactly_inv cfg c targets text notice x (core_reachable hr) hn

/-- the same under the headline's own name -/
theorem delivered_exactly_reachable (cfg : Cfg) (c : Nat) (targets : List Str) (text : Str)
    (notice : Bool) (x : Ctx) {nick : Str} (hr : Reachable cfg x.w)
    (hn : (x.conn c).nick = some nick) :
    ∃ rc : Str → List Str,
      (∀ t, (rc t).Nodup ∧ ∀ n, n ∈ rc t ↔ Spec.receives x.w nick (x.conn c).source t n) ∧
      (processPrivmsgNotice cfg c targets text notice x).queued =
        x.queued ++ (dedup targets).flatMap (fun t => (rc t).map (fun n =>
          (Spec.ownerOf x.w n, Spec.line (x.conn c).source notice t text))) :=
  delivered_exactly_inv_reachable cfg c targets text notice x hr hn

/-- `C01.one_copy_per_connection_inv` with the invariant replaced by reachability -/
theorem one_copy_per_connection_inv_reachable {cfg : Cfg} {w : World} (hr : Reachable cfg w)
    (rc : List Str) (hnd : rc.Nodup) (hk : ∀ n ∈ rc, ∃ u, Map.lookup n w.users = some u) :
    (rc.map (Spec.ownerOf w)).Nodup :=
  one_copy_per_connection_inv (core_reachable hr) rc hnd hk

/-- **C01 over whole executions.**  After ANY well-scheduled event list `evs`, in the handler
    context `{ w := run cfg evs }` that `step` builds for the next line, a PRIVMSG / NOTICE of
    the connection `c` (registered as `nick`) queues exactly one copy per distinct target and
    recipient (`Spec.receives`), each to the connection owning the recipient, distinct
    recipients of one target being distinct connections, nothing else, and leaves the world
    unchanged. -/
theorem delivered_exactly_run (cfg : Cfg) (evs : List Event) (hs : SchedAll cfg evs) (c : Nat)
    (targets : List Str) (text : Str) (notice : Bool) {nick : Str}
    (hn : (Ctx.conn { w := run cfg evs } c).nick = some nick)
    (hu : Map.contains nick (run cfg evs).users = true) :
    (∃ rc : Str → List Str,
      (∀ t, (rc t).Nodup ∧ ((rc t).map (Spec.ownerOf (run cfg evs))).Nodup ∧
        ∀ n, n ∈ rc t ↔
          Spec.receives (run cfg evs) nick (Ctx.conn { w := run cfg evs } c).source t n) ∧
      (processPrivmsgNotice cfg c targets text notice { w := run cfg evs }).queued =
        (dedup targets).flatMap (fun t => (rc t).map (fun n =>
          (Spec.ownerOf (run cfg evs) n,
            Spec.line (Ctx.conn { w := run cfg evs } c).source notice t text)))) ∧
    (processPrivmsgNotice cfg c targets text notice { w := run cfg evs }).w = run cfg evs := by
  have hr : Reachable cfg (run cfg evs) := reachable_run hs
  refine ⟨?_, world_unchanged_inv_reachable cfg c targets text notice { w := run cfg evs } hr hn hu⟩
  obtain ⟨rc, h1, h2⟩ :=
    delivered_exactly_inv_reachable cfg c targets text notice { w := run cfg evs } hr hn
  refine ⟨rc, fun t => ⟨(h1 t).1, ?_, (h1 t).2⟩, by simpa using h2⟩
  apply one_copy_per_connection_inv_reachable hr (rc t) (h1 t).1
  intro n hn'
  have hrec := ((h1 t).2 n).mp hn'
  unfold Spec.receives at hrec
  split at hrec
  · obtain ⟨C, hC, _, _, m, hm, _⟩ := hrec
    exact (Map.contains_iff _ _).mp
      ((core_reachable hr).memberIsUser _ C n hC ((Map.contains_iff _ _).mpr ⟨m, hm⟩))
  · exact hrec.2

end Irc.Reach.C01

/-! ## C02 — one nickname, one owner; unregistered connections have no effect -/

namespace Irc.Reach.C02
open Irc Irc.C02

theorem at_most_one_owner_reachable {cfg : Cfg} {w : World} (hr : Reachable cfg w) {n : Str}
    {a b : Conn} (ha : RegisteredAs w a n) (hb : RegisteredAs w b n) : a = b :=
  at_most_one_owner (core_reachable hr) ha hb

theorem one_owner_reachable {cfg : Cfg} {w : World} (hr : Reachable cfg w) {n : Str} {u : User}
    (hu : Map.lookup n w.users = some u) :
    ∃ cn, RegisteredAs w cn n ∧ cn.id = u.owner ∧ ∀ cn', RegisteredAs w cn' n → cn' = cn :=
  one_owner (core_reachable hr) hu

theorem auth_conn_has_user_reachable {cfg : Cfg} {w : World} (hr : Reachable cfg w) {cn : Conn}
    (hm : cn ∈ w.conns) (ha : cn.authenticated = true) :
    ∃ n u, cn.nick = some n ∧ Map.lookup n w.users = some u ∧ u.owner = cn.id ∧ RegisteredAs w cn n :=
  auth_conn_has_user (core_reachable hr) hm ha

theorem unregistered_owns_nobody_reachable {cfg : Cfg} {w : World} (hr : Reachable cfg w)
    {cn : Conn} (hm : cn ∈ w.conns) (ha : cn.authenticated = false) {n : Str} {u : User}
    (hu : Map.lookup n w.users = some u) : u.owner ≠ cn.id :=
  unregistered_owns_nobody (core_reachable hr) hm ha hu

theorem unregistered_no_effect_line_reachable {cfg : Cfg} {c : Nat} {s : Str} {x : Ctx}
    (hr : Reachable cfg x.w) (hl : Live x.w c) (hu : (x.conn c).authenticated = false) :
    UnregOutcome c x (handleLine cfg c s x) ∧
    (handleLine cfg c s x).w.channels = x.w.channels ∧
    ∀ n u, Map.lookup n x.w.users = some u → Map.lookup n (handleLine cfg c s x).w.users = some u :=
  unregistered_no_effect_line (core_reachable hr) hl hu

theorem refused_registration_no_effect_reachable {cfg : Cfg} {c : Nat} {s : Str} {x : Ctx}
    (hr : Reachable cfg x.w) (hl : Live x.w c) (hu : (x.conn c).authenticated = false)
    (hrf : ((handleLine cfg c s x).conn c).authenticated = false) :
    (handleLine cfg c s x).w.users = x.w.users ∧ (handleLine cfg c s x).w.channels = x.w.channels :=
  refused_registration_no_effect (core_reachable hr) hl hu hrf

theorem unregistered_no_effect_step_reachable {cfg : Cfg} {w : World} (hr : Reachable cfg w)
    {cn : Conn} (hm : cn ∈ w.conns) (ha : cn.authenticated = false) (s : Str) :
    ((step cfg w (.line cn.id s)).w.users = w.users ∨
      ∃ nick u, Map.lookup nick w.users = none ∧ u.owner = cn.id ∧ u.channels = [] ∧
        (step cfg w (.line cn.id s)).w.users = Map.insert nick u w.users) ∧
    (step cfg w (.line cn.id s)).w.channels = w.channels ∧
    ∀ n u, Map.lookup n w.users = some u → Map.lookup n (step cfg w (.line cn.id s)).w.users = some u :=
  unregistered_no_effect_step (inv_reachable hr) hm ha s

theorem unregistered_teardown_no_effect_reachable {cfg : Cfg} {w : World} (hr : Reachable cfg w)
    {cn : Conn} (hm : cn ∈ w.conns) (ha : cn.authenticated = false) :
    (teardown w cn.id).users = w.users ∧ (teardown w cn.id).channels = w.channels ∧
    (teardown w cn.id).wallops = w.wallops ∧ (teardown w cn.id).invisibleCount = w.invisibleCount ∧
    (teardown w cn.id).operatorsCount = w.operatorsCount ∧ (teardown w cn.id).histories = w.histories ∧
    (teardown w cn.id).conns = w.conns.filter (·.id != cn.id) :=
  unregistered_teardown_no_effect (core_reachable hr) hm ha

theorem unregistered_end_no_effect_reachable {cfg : Cfg} {w : World} (hr : Reachable cfg w)
    {cn : Conn} (hm : cn ∈ w.conns) (ha : cn.authenticated = false) {e : Event}
    (he : IP.EndsItself cn.id e) :
    (step cfg w e).w.users = w.users ∧ (step cfg w e).w.channels = w.channels ∧
    (step cfg w e).w.wallops = w.wallops ∧ (step cfg w e).w.histories = w.histories ∧
    (step cfg w e).w.conns = w.conns.filter (·.id != cn.id) :=
  unregistered_end_no_effect (inv_reachable hr) hm ha he

theorem registered_nick_only_renames_self_reachable {cfg : Cfg} {c : Nat} {nick : Str}
    {msg : Message} {x : Ctx}
    (hr : Reachable cfg x.w) (hl : Live x.w c) (ha : (x.conn c).authenticated = true) :
    ∃ old user, (x.conn c).nick = some old ∧ Map.lookup old x.w.users = some user ∧ user.owner = c ∧
      (∀ n, n ≠ old → n ≠ nick →
        Map.lookup n (processNick cfg c nick msg x).w.users = Map.lookup n x.w.users) ∧
      ((processNick cfg c nick msg x).w.users = x.w.users ∨
       (nick ≠ old ∧ Map.lookup nick x.w.users = none ∧
        Map.lookup old (processNick cfg c nick msg x).w.users = none ∧
        ∃ user', Map.lookup nick (processNick cfg c nick msg x).w.users = some user' ∧
          user'.owner = c ∧ user' = { user with source := user'.source })) :=
  registered_nick_only_renames_self (core_reachable hr) hl ha

theorem nick_in_use_refused_reachable {cfg : Cfg} {c : Nat} {nick : Str} {msg : Message} {x : Ctx}
    (hr : Reachable cfg x.w) (hl : Live x.w c) {u : User} (hu : Map.lookup nick x.w.users = some u) :
    (processNick cfg c nick msg x).w.users = x.w.users :=
  nick_in_use_refused (core_reachable hr) hl hu

theorem teardown_removes_only_own_reachable {cfg : Cfg} {w : World} (hr : Reachable cfg w)
    {cn : Conn} (hm : cn ∈ w.conns) {m : Str} (hne : ¬ RegisteredAs w cn m) :
    Map.lookup m (teardown w cn.id).users = Map.lookup m w.users :=
  teardown_removes_only_own (core_reachable hr) hm hne

theorem ending_removes_only_own_reachable {cfg : Cfg} {w : World} (hr : Reachable cfg w)
    {cn : Conn} (hm : cn ∈ w.conns) {e : Event} (he : IP.EndsItself cn.id e)
    {m : Str} (hne : ¬ RegisteredAs w cn m) :
    Map.lookup m (step cfg w e).w.users = Map.lookup m w.users :=
  ending_removes_only_own (inv_reachable hr) hm he hne

/-! ### trace-level forms -/

/-- **C02 over whole executions** (headline): after any well-scheduled event list, every
    registered nickname is owned by exactly one live, authenticated connection carrying that
    nickname.  (`C02.reachable_one_owner` is the same statement in the original file.) -/
theorem one_owner_run {cfg : Cfg} (evs : List Event) (hs : SchedAll cfg evs) {n : Str} {u : User}
    (hu : Map.lookup n (run cfg evs).users = some u) :
    ∃ cn, RegisteredAs (run cfg evs) cn n ∧ cn.id = u.owner ∧
      ∀ cn', RegisteredAs (run cfg evs) cn' n → cn' = cn :=
  one_owner_reachable (reachable_run hs) hu

/-- ... and, the other way round, every authenticated connection owns the user of its nick. -/
theorem auth_conn_has_user_run {cfg : Cfg} (evs : List Event) (hs : SchedAll cfg evs) {cn : Conn}
    (hm : cn ∈ (run cfg evs).conns) (ha : cn.authenticated = true) :
    ∃ n u, cn.nick = some n ∧ Map.lookup n (run cfg evs).users = some u ∧ u.owner = cn.id ∧
      RegisteredAs (run cfg evs) cn n :=
  auth_conn_has_user_reachable (reachable_run hs) hm ha

/-- along every execution: the step `.line cn.id s` of an unregistered connection, taken after
    a well-scheduled prefix, adds at most its own fresh user and touches nobody else -/
theorem unregistered_no_effect_step_run {cfg : Cfg} (evs : List Event) (hs : SchedAll cfg evs) :
    ∀ pre cn s, evs = pre ++ [.line cn.id s] → cn ∈ (run cfg pre).conns →
      cn.authenticated = false →
      (run cfg evs).channels = (run cfg pre).channels ∧
      ∀ n u, Map.lookup n (run cfg pre).users = some u → Map.lookup n (run cfg evs).users = some u := by
  intro pre cn s he hm ha
  subst he
  rw [run_snoc]
  exact (unregistered_no_effect_step_reachable (reachable_prefix hs) hm ha s).2

/-- along every execution: a connection that ends removes no user but its own -/
theorem ending_removes_only_own_run {cfg : Cfg} (evs : List Event) (hs : SchedAll cfg evs) :
    ∀ pre e cn, evs = pre ++ [e] → cn ∈ (run cfg pre).conns → IP.EndsItself cn.id e →
      ∀ m, ¬ RegisteredAs (run cfg pre) cn m →
        Map.lookup m (run cfg evs).users = Map.lookup m (run cfg pre).users := by
  intro pre e cn he hm hend m hne
  subst he
  rw [run_snoc]
  exact ending_removes_only_own_reachable (reachable_prefix hs) hm hend hne

end Irc.Reach.C02

/-! ## C07 — JOIN admission.  The theorems of C07 need no invariant (they hold for every
    channel record); the trace-level form instantiates the headline at the channels of a
    reachable world. -/

namespace Irc.Reach.C07
open Irc Irc.C07

/-- **C07 over whole executions**: for every channel `ch` existing (under the name `chname`)
    after a well-scheduled event list, and every nick that is not a member of it, the admission
    test says yes iff the specification `Spec.admit` does. -/
theorem join_existing_iff_run {cfg : Cfg} (evs : List Event) (_hs : SchedAll cfg evs)
    {ch : Channel} {chname : Str} (_hch : Map.lookup chname (run cfg evs).channels = some ch)
    (key : Option (Option Str)) (source nick client : Str) (invitedTo : KSet)
    (hnm : Map.contains nick ch.users = false) :
    (joinCheckExisting ch chname key source nick client invitedTo).1 = true ↔
      Spec.admit (req ch chname key source invitedTo) = .ok () :=
  join_existing_iff ch chname key source nick client invitedTo hnm

end Irc.Reach.C07

/-! ## C10 — who may speak.  No invariant needed either; trace-level instance of the headline. -/

namespace Irc.Reach.C10
open Irc Irc.C10

/-- **C10 over whole executions**: for every channel of a reachable world, `canSend` decides
    exactly `Spec.maySpeak`. -/
theorem canSend_iff_run {cfg : Cfg} (evs : List Event) (_hs : SchedAll cfg evs) {ch : Str}
    {C : Channel} (_hC : Map.lookup ch (run cfg evs).channels = some C) (nick source : Str) :
    canSend C nick source = true ↔ Spec.maySpeak C nick source :=
  canSend_iff C nick source

/-- ... and a channel message a sender may not speak is delivered to nobody, in the handler
    context built from the reachable world -/
theorem rejected_nobody_receives_run (cfg : Cfg) (evs : List Event) (_hs : SchedAll cfg evs)
    (c : Nat) (nick : Str) (notice : Bool) (text target : Str) {C : Channel}
    (hc : (getPrivmsgTargetType target).1.channel = true)
    (hl : Map.lookup (getPrivmsgTargetType target).2 (run cfg evs).channels = some C)
    (hsp : ¬ Spec.maySpeak C nick (Ctx.conn { w := run cfg evs } c).source) :
    (privmsgTarget cfg c nick notice text target { w := run cfg evs }).1.queued = [] ∧
    (privmsgTarget cfg c nick notice text target { w := run cfg evs }).1.w = run cfg evs :=
  let r := rejected_nobody_receives cfg c nick notice text target { w := run cfg evs } hc hl hsp
  ⟨r.1, r.2.1⟩

end Irc.Reach.C10
