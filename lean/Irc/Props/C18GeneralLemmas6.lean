/-
  Property C18, general serialisability, part 6: the cases of a move — one lemma per status of the
  moving connection and per kind of section.
-/
import Irc.Props.C18GeneralLemmas5

namespace Irc.C18G

open Irc Irc.Conc Reply Irc.C18F

/-! ### small facts -/

theorem pc_after_commit {cfg : Cfg} {c : Nat} {σ : CState}
    (h : σ.pc c = .idle ∨ ∃ r, σ.pc c = .toCommit r) :
    (stepSection cfg (.authCommit c) σ).pc c = .idle := by
  rcases h with h | ⟨r, h⟩
  · rw [step_authCommit_skip (by rw [h]; simp)]; exact h
  · rw [step_authCommit h]; simp [lift]

theorem step_whole_pc (cfg : Cfg) (c : Nat) (line : Str) (σ : CState) :
    (stepSection cfg (.whole c line) σ).pc c = σ.pc c := by
  simp [stepSection, sectionCtx, execSection, Section.conn]

theorem decU_pc_cases (cfg : Cfg) (cn : Conn) :
    (decU cfg cn).pc = some .idle ∨ ∃ r, (decU cfg cn).pc = some (.toCommit r) := by
  unfold decU
  cases authDecision cfg cn with
  | notReady => left; rfl
  | maskMismatch => left; rfl
  | decided good r =>
    cases good with
    | true => right; exact ⟨r, rfl⟩
    | false => left; rfl

theorem mkS_pending (S : Sys) (c : Nat) (σ' : CState) (p' : List Section) :
    mkS S c σ' (S.todo c) p' (S.cur c) = { S with σ := σ', pend := upd S.pend c p' } := by
  simp only [mkS, upd_same]

/-- the sections of the registration path commute with the counter bumps -/
theorem hbc_reg (cfg : Cfg) (split : Bool → Nat → Str → List Section) {s : Section}
    (hp : isProg s = true) (hw : isWhole s = false) : BumpComm cfg s ∨ NoCount split :=
  .inl (bumpComm_reg cfg hp hw)

section
variable {cfg : Cfg} {split : Bool → Nat → Str → List Section} {cs : List Nat} {σ₀ : CState}
  {prog : Nat → List Str} {S : Sys} {done : List (Nat × Str)} {ρ : CState} {st : Nat → St}
  {c : Nat}

/-- what is known when an idle connection starts a command -/
theorem SimW.start (h : SimW cfg split cs σ₀ prog S done ρ st) (hc : c ∈ cs)
    (hst : st c = .idle) :
    ρ.pc c = .idle ∧ ∃ cn, ρ.w.conn? c = some cn ∧ authOf S.σ c = cn.authenticated := by
  have hg := h.good c
  rw [hst] at hg
  refine ⟨hg.1, ?_⟩
  obtain ⟨cn, hcn, _, _⟩ := conn?_of_live (h.live c hc)
  have hb : (fun d => ebOf cfg (st d)) c = idU := by simp only [hst]; rfl
  have ha : (fun d => eaOf cfg (st d)) c = idU := by simp only [hst]; rfl
  rw [h.hτ, applyOn_conn_id h.propB hb] at hcn
  refine ⟨cn, hcn, ?_⟩
  apply authOf_of
  rw [h.hσ, applyOn_conn_id h.propA ha]
  exact hcn

theorem SimW.users (h : SimW cfg split cs σ₀ prog S done ρ st) : S.σ.w.users = ρ.w.users := by
  rw [h.hσ, applyOn_users]

theorem SimW.bcl_todo (h : SimW cfg split cs σ₀ prog S done ρ st) :
    ∀ l ∈ S.todo c, NoCount split ∨ BumpCommLine cfg c l := h.bcl c

/-! ### a pending section of a command that is under way -/

theorem sim_P_idle (h : SimW cfg split cs σ₀ prog S done ρ st) (hc : c ∈ cs) (hst : st c = .idle)
    {s : Section} {rest : List Section} (hp : S.pend c = s :: rest) :
    SimW cfg split cs σ₀ prog (mkS S c (stepSection cfg s S.σ) (S.todo c) rest (S.cur c)) done ρ
      (upd st c .idle) := by
  have hg := h.good c
  rw [hst, hp] at hg
  obtain ⟨hpc, hsk⟩ := hg
  have hs := hsk s List.mem_cons_self
  have hprog : isProg s = true ∧ isWhole s = false ∧ s.conn = c := by
    rcases hs with rfl | rfl | rfl <;> exact ⟨rfl, rfl, rfl⟩
  refine sim_move_loc h hc hprog.1 hprog.2.2 (hbc_reg cfg split hprog.1 hprog.2.1) (s' := .idle)
    ?_ (by rw [hst]) ?_ ?_ h.bcl_todo
  · rw [hst]
    show stepSection cfg s (idU.app c ρ) = idU.app c ρ
    rw [idU_app]
    exact local_skip hpc hs
  · exact ⟨hpc, fun t ht => hsk t (List.mem_cons_of_mem _ ht)⟩
  · have := h.progs c
    rw [hst] at this
    exact this

theorem sim_P_nick1 (h : SimW cfg split cs σ₀ prog S done ρ st) (hc : c ∈ cs)
    {cnt : Option Nat} {n : Str} {cn : Conn} {r : Bool} (hst : st c = .nick1 cnt n cn r) :
    SimW cfg split cs σ₀ prog
      (mkS S c (stepSection cfg (.authDecide c) S.σ) (S.todo c) [.authCommit c] (S.cur c)) done ρ
      (upd st c (.nick2 cnt n cn r)) := by
  have hg := h.good c
  rw [hst] at hg
  have h' : (bumpO cnt ρ).w.conn? c = some cn := (bumpO_conn _ _ _).trans hg.1
  refine sim_move_loc h hc (s := .authDecide c) rfl rfl (hbc_reg cfg split rfl rfl)
    (s' := .nick2 cnt n cn r) ?_ (by rw [hst]; rfl) ?_ ?_ h.bcl_todo
  · rw [hst]
    show stepSection cfg (.authDecide c) (((nick1U n cn).withCnt cnt).app c ρ) =
      ((nick2U n cn r).withCnt cnt).app c ρ
    rw [withCnt_app rfl, withCnt_app rfl]
    exact local_authDecide_good h' hg.2.2.2.1
  · exact ⟨hg.1, hg.2.1, hg.2.2.1, hg.2.2.2.1, rfl, hg.2.2.2.2.2.1, hg.2.2.2.2.2.2⟩
  · have := h.progs c
    rw [hst] at this
    exact this

/-- the corner-freeness of the move, for a connection about to run the A3 of its `NICK` -/
theorem corner_nick2 (h : SimW cfg split cs σ₀ prog S done ρ st) (hc : c ∈ cs)
    {cnt : Option Nat} {n : Str} {cn : Conn} {r : Bool} (hst : st c = .nick2 cnt n cn r)
    (hcf : cornerFree S c = true) : Map.contains n ρ.w.users = false := by
  have hg := h.good c
  rw [hst] at hg
  have hpend : S.pend c = [.authCommit c] := hg.2.2.2.2.1
  have hpc : S.σ.pc c = .toCommit r := by
    rw [h.hσ, applyOn_pc_self h.propA h.nodup hc]
    simp only [hst]
    rfl
  have hconn : S.σ.w.conn? c = some { cn.setNick n with authenticated := true } := by
    rw [h.hσ, applyOn_conn_self h.propA h.nodup hc hg.1]
    simp only [hst]
    rfl
  have hnick : isNickLine (S.cur c) = true := hg.2.2.2.2.2.1
  unfold cornerFree at hcf
  rw [hpend, hpc] at hcf
  simp only [hnick, and_self, ↓reduceIte, hconn, Option.bind_some] at hcf
  have e : ({ cn.setNick n with authenticated := true } : Conn).nick = some n := rfl
  rw [e] at hcf
  simp only [Bool.not_eq_true'] at hcf
  rw [← h.users]
  exact hcf

theorem sim_P_nick2 (hsh : SplitShape split) (h : SimW cfg split cs σ₀ prog S done ρ st)
    (hc : c ∈ cs) {cnt : Option Nat} {n : Str} {cn : Conn}
    {r : Bool} (hst : st c = .nick2 cnt n cn r) (ht : Map.contains n ρ.w.users = false) :
    SimW cfg split cs σ₀ prog
      (mkS S c (stepSection cfg (.authCommit c) S.σ) (S.todo c) [] (S.cur c))
      (done ++ [(c, S.cur c)])
      (stepSection cfg (.authCommit c) (((nick2U n cn r).withCnt cnt).app c ρ))
      (upd st c .idle) := by
  have hg := h.good c
  rw [hst] at hg
  have h' : (bumpO cnt ρ).w.conn? c = some cn := (bumpO_conn _ _ _).trans hg.1
  have ht' : Map.contains n (bumpO cnt ρ).w.users = false := by rw [bumpO_users]; exact ht
  refine sim_move_ser hsh h hc (s := .authCommit c) rfl rfl (hbc_reg cfg split rfl rfl)
    (s' := .idle) ?_ (by rw [hst]; rfl) ?_ ?_ rfl ?_ h.bcl_todo
  · rw [hst]
    show _ = idU.app c _
    rw [idU_app]
    rfl
  · show _ = idU.app c _
    rw [idU_app, seqStep_eq, authOf_of hg.1, hg.2.1, hg.2.2.2.2.2.2, run_cntSec,
      run_nick_good_eq h' hg.2.1 ht' hg.2.2.2.1, withCnt_app rfl]
  · refine ⟨pc_after_commit (.inr ⟨r, ?_⟩), fun s hs => absurd hs List.not_mem_nil⟩
    rw [Upd.app_pc_self]; rfl
  · have := h.progs c
    rw [hst] at this
    simpa [St.pendingLine] using this

theorem sim_P_nickB (h : SimW cfg split cs σ₀ prog S done ρ st) (hc : c ∈ cs) {cn1 : Conn}
    (hst : st c = .nickB cn1) :
    SimW cfg split cs σ₀ prog
      (mkS S c (stepSection cfg (.authDecide c) S.σ) (S.todo c) [.authCommit c] (S.cur c)) done
      ((decU cfg cn1).app c ρ) (upd st c .idle) := by
  have hg := h.good c
  rw [hst] at hg
  refine sim_move h hc (s := .authDecide c) rfl rfl (hbc_reg cfg split rfl rfl) (s' := .idle)
    ?_ ?_ ?_ h.inv h.live ?_ (fun _ _ => rfl) h.bcl_todo
  · rw [hst]
    show stepSection cfg (.authDecide c) (idU.app c ρ) = idU.app c _
    rw [idU_app, idU_app]
    exact local_authDecide hg.1 hg.2.2.1
  · have e := applyOn_extract (e := fun d => ebOf cfg (st d)) h.propB h.nodup hc ρ
    simp only [hst] at e
    rw [h.hτ, e]
    rfl
  · refine ⟨?_, fun s hs => ?_⟩
    · rw [Upd.app_pc_self, decU_pc_idle cfg cn1 hg.2.2.2.1]; rfl
    · simp only [List.mem_cons, List.not_mem_nil, or_false] at hs
      exact .inr (.inl hs)
  · have := h.progs c
    rw [hst] at this
    exact this

theorem sim_P_pre (hsh : SplitShape split) (h : SimW cfg split cs σ₀ prog S done ρ st)
    (hc : c ∈ cs) {cnt : Option Nat} {cmd : Command}
    {cn cn' : Conn} (hst : st c = .pre cnt cmd cn cn') :
    SimW cfg split cs σ₀ prog
      (mkS S c (stepSection cfg (.authCommit c) S.σ) (S.todo c) [] (S.cur c))
      (done ++ [(c, S.cur c)])
      (stepSection cfg (.authCommit c) (((preU cfg cn').withCnt cnt).app c ρ))
      (upd st c .idle) := by
  have hg := h.good c
  rw [hst] at hg
  have h' : (bumpO cnt ρ).w.conn? c = some cn := (bumpO_conn _ _ _).trans hg.1
  refine sim_move_ser hsh h hc (s := .authCommit c) rfl rfl (hbc_reg cfg split rfl rfl)
    (s' := .idle) ?_ (by rw [hst]; rfl) ?_ ?_ rfl ?_ h.bcl_todo
  · rw [hst]
    show _ = idU.app c _
    rw [idU_app]
    rfl
  · show _ = idU.app c _
    rw [idU_app, seqStep_eq, authOf_of hg.1, hg.2.1, hg.2.2.2.2.2.2, run_cntSec,
      run_prelude_eq h' hg.2.1 hg.2.2.2.1, withCnt_app rfl]
  · refine ⟨pc_after_commit ?_, fun s hs => absurd hs List.not_mem_nil⟩
    rw [Upd.app_pc_self]
    show (decU cfg cn').pc.getD (ρ.pc c) = _ ∨ ∃ r, (decU cfg cn').pc.getD (ρ.pc c) = _
    rcases decU_pc_cases cfg cn' with e | ⟨r, e⟩
    · left; rw [e]; rfl
    · right; exact ⟨r, by rw [e]; rfl⟩
  · have := h.progs c
    rw [hst] at this
    simpa [St.pendingLine] using this

/-! ### the first section of a new command: one-section commands, the counter section -/

theorem sim_N_whole (hsh : SplitShape split) (h : SimW cfg split cs σ₀ prog S done ρ st)
    (hc : c ∈ cs) (hst : st c = .idle)
    {line : Str} {more : List Str} {rest : List Section} (ht : S.todo c = line :: more)
    (hsw : split (authOf ρ c) c line = [.whole c line] ∨
      split (authOf ρ c) c line = [.whole c line, .touch c])
    (hrest : ∀ t ∈ rest, t = Section.touch c) :
    SimW cfg split cs σ₀ prog (mkS S c (stepSection cfg (.whole c line) S.σ) more rest line)
      (done ++ [(c, line)]) (stepSection cfg (.whole c line) ρ) (upd st c .idle) := by
  obtain ⟨hpc, _⟩ := h.start hc hst
  have hbc : BumpComm cfg (.whole c line) ∨ NoCount split := by
    rcases h.bcl c line (by rw [ht]; exact List.mem_cons_self) with e | e
    · exact .inr e
    · exact .inl (bumpComm_whole e)
  refine sim_move_ser hsh h hc (s := .whole c line) rfl rfl hbc (s' := .idle) ?_
    (by rw [hst]; rfl) ?_ ?_ rfl ?_
    (fun l hl => h.bcl c l (by rw [ht]; exact List.mem_cons_of_mem _ hl))
  · rw [hst]
    show _ = idU.app c _
    rw [idU_app]
    show stepSection cfg (.whole c line) (idU.app c ρ) = _
    rw [idU_app]
  · show _ = idU.app c _
    rw [idU_app, seqStep_whole hsw]
  · exact ⟨(step_whole_pc cfg c line ρ).trans hpc, fun t ht' => .inr (.inr (hrest t ht'))⟩
  · have := h.progs c
    rw [hst, ht] at this
    simpa [St.pendingLine] using this

theorem sim_N_count (h : SimW cfg split cs σ₀ prog S done ρ st) (hc : c ∈ cs)
    (hst : st c = .idle) {line : Str} {more : List Str} {i : Nat} {rest : List Section} {cn : Conn}
    (ht : S.todo c = line :: more) (hcn : ρ.w.conn? c = some cn) (ha : cn.authenticated = false)
    (hs : split false c line = cntSec c (some i) ++ rest)
    (hkind : (isNickLine line = true ∧ ∃ n, rest = nickSections c n) ∨
      (isNickLine line = false ∧ ∃ cmd, (∀ cn, ∃ cn', preludeConn cmd cn = some cn') ∧
        rest = [.prelude c cmd, .authCommit c])) :
    SimW cfg split cs σ₀ prog (mkS S c (stepSection cfg (.count c i) S.σ) more rest line)
      done ρ (upd st c (.counted i cn)) := by
  obtain ⟨hpc, _⟩ := h.start hc hst
  refine sim_move_loc h hc (s := .count c i) rfl rfl (hbc_reg cfg split rfl rfl)
    (s' := .counted i cn) ?_ (by rw [hst]; rfl) ?_ ?_
    (fun l hl => h.bcl c l (by rw [ht]; exact List.mem_cons_of_mem _ hl))
  · rw [hst]
    show stepSection cfg (.count c i) (idU.app c ρ) = (cntU (some i)).app c ρ
    rw [idU_app, cntU_app, step_count]
    rfl
  · exact ⟨hcn, ha, hpc, hs, hkind⟩
  · have := h.progs c
    rw [hst, ht] at this
    simpa [St.pendingLine] using this

/-! ### the first section of the command proper (A1 / the prelude), after the optional counter
    section: `cnt` is the pending bump, `eaOf cfg (st c) = cntU cnt` -/

theorem sim_C_nick_taken (hsh : SplitShape split) (h : SimW cfg split cs σ₀ prog S done ρ st)
    (hc : c ∈ cs) {cnt : Option Nat} (hea : eaOf cfg (st c) = cntU cnt)
    (heb : ebOf cfg (st c) = idU)
    {line : Str} {t' : List Str} {n : Str} {cn : Conn}
    (hcn : ρ.w.conn? c = some cn) (ha : cn.authenticated = false)
    (hs : split false c line = cntSec c cnt ++ nickSections c n)
    (htk : Map.contains n ρ.w.users = true)
    (hprog : prog c = linesOf c done ++ [line] ++ t')
    (hbcl : ∀ l ∈ t', NoCount split ∨ BumpCommLine cfg c l) :
    SimW cfg split cs σ₀ prog
      (mkS S c (stepSection cfg (.nickCheck c n) S.σ) t' [.authDecide c, .authCommit c] line)
      (done ++ [(c, line)]) (stepSection cfg (.nickCheck c n) (bumpO cnt ρ)) (upd st c .idle) := by
  have h' : (bumpO cnt ρ).w.conn? c = some cn := (bumpO_conn _ _ _).trans hcn
  have htk' : Map.contains n (bumpO cnt ρ).w.users = true := by rw [bumpO_users]; exact htk
  obtain ⟨e1, e2⟩ := run_nick_taken_eq (cfg := cfg) h' ha htk'
  refine sim_move_ser hsh h hc (s := .nickCheck c n) rfl rfl (hbc_reg cfg split rfl rfl)
    (s' := .idle) ?_ heb ?_ ?_ rfl hprog hbcl
  · rw [hea]
    show stepSection cfg (.nickCheck c n) ((cntU cnt).app c ρ) = idU.app c _
    rw [idU_app, cntU_app]
  · show _ = idU.app c _
    rw [idU_app, seqStep_eq, authOf_of hcn, ha, hs, run_cntSec, e1]
  · refine ⟨e2, fun t ht' => ?_⟩
    simp only [List.mem_cons, List.not_mem_nil, or_false] at ht'
    rcases ht' with rfl | rfl
    · exact .inl rfl
    · exact .inr (.inl rfl)

theorem sim_C_nick_good (h : SimW cfg split cs σ₀ prog S done ρ st)
    (hc : c ∈ cs) {cnt : Option Nat} (hea : eaOf cfg (st c) = cntU cnt)
    (heb : ebOf cfg (st c) = idU) (hpc : ρ.pc c = .idle)
    {line : Str} {t' : List Str} {n : Str} {cn : Conn} {r : Bool}
    (hcn : ρ.w.conn? c = some cn) (ha : cn.authenticated = false)
    (hs : split false c line = cntSec c cnt ++ nickSections c n) (hnl : isNickLine line = true)
    (hfree : Map.contains n ρ.w.users = false)
    (hd : authDecision cfg (cn.setNick n) = .decided true r)
    (hprog : prog c = linesOf c done ++ [line] ++ t')
    (hbcl : ∀ l ∈ t', NoCount split ∨ BumpCommLine cfg c l) :
    SimW cfg split cs σ₀ prog
      (mkS S c (stepSection cfg (.nickCheck c n) S.σ) t' [.authDecide c, .authCommit c] line)
      done ρ (upd st c (.nick1 cnt n cn r)) := by
  have h' : (bumpO cnt ρ).w.conn? c = some cn := (bumpO_conn _ _ _).trans hcn
  have hfree' : Map.contains n (bumpO cnt ρ).w.users = false := by rw [bumpO_users]; exact hfree
  refine sim_move_loc h hc (s := .nickCheck c n) rfl rfl (hbc_reg cfg split rfl rfl)
    (s' := .nick1 cnt n cn r) ?_ (by rw [heb]; rfl) ?_ ?_ hbcl
  · rw [hea]
    show stepSection cfg (.nickCheck c n) ((cntU cnt).app c ρ) =
      ((nick1U n cn).withCnt cnt).app c ρ
    rw [cntU_app, withCnt_app rfl]
    exact local_nickCheck_free h' ha hfree'
  · exact ⟨hcn, ha, hpc, hd, rfl, hnl, hs⟩
  · simpa [St.pendingLine] using hprog

theorem sim_C_nick_notgood (hsh : SplitShape split) (h : SimW cfg split cs σ₀ prog S done ρ st)
    (hc : c ∈ cs) {cnt : Option Nat} (hea : eaOf cfg (st c) = cntU cnt)
    (heb : ebOf cfg (st c) = idU)
    {line : Str} {t' : List Str} {n : Str} {cn : Conn}
    (hcn : ρ.w.conn? c = some cn) (ha : cn.authenticated = false)
    (hs : split false c line = cntSec c cnt ++ nickSections c n)
    (hfree : Map.contains n ρ.w.users = false)
    (hd : ∀ r, authDecision cfg (cn.setNick n) ≠ .decided true r)
    (hprog : prog c = linesOf c done ++ [line] ++ t')
    (hbcl : ∀ l ∈ t', NoCount split ∨ BumpCommLine cfg c l) :
    SimW cfg split cs σ₀ prog
      (mkS S c (stepSection cfg (.nickCheck c n) S.σ) t' [.authDecide c, .authCommit c] line)
      (done ++ [(c, line)]) (stepSection cfg (.nickCheck c n) (bumpO cnt ρ))
      (upd st c (.nickB (cn.setNick n))) := by
  have h' : (bumpO cnt ρ).w.conn? c = some cn := (bumpO_conn _ _ _).trans hcn
  have hfree' : Map.contains n (bumpO cnt ρ).w.users = false := by rw [bumpO_users]; exact hfree
  obtain ⟨e1, e2, e3⟩ := run_nick_notgood_eq (cfg := cfg) h' ha hfree' hd
  refine sim_move_ser hsh h hc (s := .nickCheck c n) rfl rfl (hbc_reg cfg split rfl rfl)
    (s' := .nickB (cn.setNick n)) ?_ heb ?_ ?_ rfl hprog hbcl
  · rw [hea]
    show stepSection cfg (.nickCheck c n) ((cntU cnt).app c ρ) = idU.app c _
    rw [idU_app, cntU_app]
  · show _ = (decU cfg (cn.setNick n)).app c _
    rw [seqStep_eq, authOf_of hcn, ha, hs, run_cntSec, e1]
  · exact ⟨e2, ha, e3, hd, rfl⟩

theorem sim_C_pre (h : SimW cfg split cs σ₀ prog S done ρ st)
    (hc : c ∈ cs) {cnt : Option Nat} (hea : eaOf cfg (st c) = cntU cnt)
    (heb : ebOf cfg (st c) = idU) (hpc : ρ.pc c = .idle)
    {line : Str} {t' : List Str} {cmd : Command} {cn cn' : Conn}
    (hcn : ρ.w.conn? c = some cn) (ha : cn.authenticated = false)
    (hs : split false c line = cntSec c cnt ++ [.prelude c cmd, .authCommit c])
    (hnl : isNickLine line = false) (hpre : preludeConn cmd cn = some cn')
    (hprog : prog c = linesOf c done ++ [line] ++ t')
    (hbcl : ∀ l ∈ t', NoCount split ∨ BumpCommLine cfg c l) :
    SimW cfg split cs σ₀ prog
      (mkS S c (stepSection cfg (.prelude c cmd) S.σ) t' [.authCommit c] line)
      done ρ (upd st c (.pre cnt cmd cn cn')) := by
  have h' : (bumpO cnt ρ).w.conn? c = some cn := (bumpO_conn _ _ _).trans hcn
  refine sim_move_loc h hc (s := .prelude c cmd) rfl rfl (hbc_reg cfg split rfl rfl)
    (s' := .pre cnt cmd cn cn') ?_ (by rw [heb]; rfl) ?_ ?_ hbcl
  · rw [hea]
    show stepSection cfg (.prelude c cmd) ((cntU cnt).app c ρ) = ((preU cfg cn').withCnt cnt).app c ρ
    rw [cntU_app, withCnt_app rfl]
    exact local_prelude h' ha hpre
  · exact ⟨hcn, ha, hpc, hpre, rfl, hnl, hs⟩
  · simpa [St.pendingLine] using hprog

end

end Irc.C18G
