/-
  Property C18, general serialisability, part 7: `sim_step` (every corner-free move preserves the
  refinement invariant), the invariant at the start and at the end of a complete run, and the
  sequential run with the counter sections (`seqRun cfg splitCommand`) as `handleLine` folded.
-/
import Irc.Props.C18GeneralLemmas6

namespace Irc.C18G

open Irc Irc.Conc Reply Irc.C18F

section
variable {cfg : Cfg} {split : Bool → Nat → Str → List Section} {cs : List Nat} {σ₀ : CState}
  {prog : Nat → List Str} {S : Sys} {done : List (Nat × Str)} {ρ : CState} {st : Nat → St}

/-- the first section of the command proper: A1 of `NICK n` -/
theorem sim_core_nick (hsh : SplitShape split) (h : SimW cfg split cs σ₀ prog S done ρ st)
    {c : Nat} (hc : c ∈ cs) {cnt : Option Nat} (hea : eaOf cfg (st c) = cntU cnt)
    (heb : ebOf cfg (st c) = idU) (hpc : ρ.pc c = .idle)
    {line : Str} {t' : List Str} {n : Str} {cn : Conn}
    (hcn : ρ.w.conn? c = some cn) (ha : cn.authenticated = false)
    (hs : split false c line = cntSec c cnt ++ nickSections c n) (hnl : isNickLine line = true)
    (hprog : prog c = linesOf c done ++ [line] ++ t')
    (hbcl : ∀ l ∈ t', NoCount split ∨ BumpCommLine cfg c l) :
    ∃ done' ρ' st', SimW cfg split cs σ₀ prog
      (mkS S c (stepSection cfg (.nickCheck c n) S.σ) t' [.authDecide c, .authCommit c] line)
      done' ρ' st' := by
  cases htk : Map.contains n ρ.w.users with
  | true => exact ⟨_, _, _, sim_C_nick_taken hsh h hc hea heb hcn ha hs htk hprog hbcl⟩
  | false =>
    by_cases hgd : ∃ r, authDecision cfg (cn.setNick n) = .decided true r
    · obtain ⟨r, hd⟩ := hgd
      exact ⟨_, _, _, sim_C_nick_good h hc hea heb hpc hcn ha hs hnl htk hd hprog hbcl⟩
    · exact ⟨_, _, _, sim_C_nick_notgood hsh h hc hea heb hcn ha hs htk
        (fun r e => hgd ⟨r, e⟩) hprog hbcl⟩

theorem sim_step (hsh : SplitShape split) (h : SimW cfg split cs σ₀ prog S done ρ st) {c : Nat}
    {S' : Sys} (hcf : cornerFree S c = true) (hm : move cfg split c S = some S') :
    ∃ done' ρ' st', SimW cfg split cs σ₀ prog S' done' ρ' st' := by
  by_cases hc : c ∈ cs
  case neg =>
    obtain ⟨h1, h2⟩ := h.out c hc
    rw [move_none h2 h1] at hm
    cases hm
  have hg := h.good c
  cases hp : S.pend c with
  | cons s rest =>
    rw [move_pending hp] at hm
    simp only [Option.some.injEq] at hm
    subst hm
    rw [← mkS_pending]
    rw [hp] at hg
    cases hst : st c with
    | idle => exact ⟨_, _, _, sim_P_idle h hc hst hp⟩
    | counted i cn =>
      rw [hst] at hg
      obtain ⟨hcn, ha, hpc, hs, hkind⟩ := hg
      have hea : eaOf cfg (st c) = cntU (some i) := by rw [hst]; rfl
      have heb : ebOf cfg (st c) = idU := by rw [hst]; rfl
      have hprog : prog c = linesOf c done ++ [S.cur c] ++ S.todo c := by
        have := h.progs c
        rw [hst] at this
        simpa [St.pendingLine] using this
      rcases hkind with ⟨hnl, n, e⟩ | ⟨hnl, cmd, hpre, e⟩
      · have e' : s :: rest = [.nickCheck c n, .authDecide c, .authCommit c] := e
        simp only [List.cons.injEq] at e'
        obtain ⟨rfl, rfl⟩ := e'
        exact sim_core_nick hsh h hc hea heb hpc hcn ha hs hnl hprog h.bcl_todo
      · simp only [List.cons.injEq] at e
        obtain ⟨rfl, rfl⟩ := e
        obtain ⟨cn', hp'⟩ := hpre cn
        exact ⟨_, _, _, sim_C_pre h hc hea heb hpc hcn ha hs hnl hp' hprog h.bcl_todo⟩
    | nick1 cnt n cn r =>
      rw [hst] at hg
      have e : s :: rest = [.authDecide c, .authCommit c] := hg.2.2.2.2.1
      simp only [List.cons.injEq] at e
      obtain ⟨rfl, rfl⟩ := e
      exact ⟨_, _, _, sim_P_nick1 h hc hst⟩
    | nick2 cnt n cn r =>
      rw [hst] at hg
      have e : s :: rest = [.authCommit c] := hg.2.2.2.2.1
      simp only [List.cons.injEq] at e
      obtain ⟨rfl, rfl⟩ := e
      exact ⟨_, _, _, sim_P_nick2 hsh h hc hst (corner_nick2 h hc hst hcf)⟩
    | nickB cn1 =>
      rw [hst] at hg
      have e : s :: rest = [.authDecide c, .authCommit c] := hg.2.2.2.2
      simp only [List.cons.injEq] at e
      obtain ⟨rfl, rfl⟩ := e
      exact ⟨_, _, _, sim_P_nickB h hc hst⟩
    | pre cnt cmd cn cn' =>
      rw [hst] at hg
      have e : s :: rest = [.authCommit c] := hg.2.2.2.2.1
      simp only [List.cons.injEq] at e
      obtain ⟨rfl, rfl⟩ := e
      exact ⟨_, _, _, sim_P_pre hsh h hc hst⟩
  | nil =>
    rw [hp] at hg
    have hst : st c = .idle := by
      cases hs : st c with
      | idle => rfl
      | counted i cn => rw [hs] at hg; exact absurd rfl (hg.pend_ne_nil rfl)
      | nick1 cnt n cn r => rw [hs] at hg; exact absurd rfl (hg.pend_ne_nil rfl)
      | nick2 cnt n cn r => rw [hs] at hg; exact absurd rfl (hg.pend_ne_nil rfl)
      | nickB cn1 => rw [hs] at hg; exact absurd rfl (hg.pend_ne_nil rfl)
      | pre cnt cmd cn cn' => rw [hs] at hg; exact absurd rfl (hg.pend_ne_nil rfl)
    cases ht : S.todo c with
    | nil => rw [move_none hp ht] at hm; cases hm
    | cons line more =>
      obtain ⟨hpc, cn, hcn, hauth⟩ := h.start hc hst
      have hauρ : authOf ρ c = authOf S.σ c := (authOf_of hcn).trans hauth.symm
      have hea : eaOf cfg (st c) = cntU none := by rw [hst]; rfl
      have heb : ebOf cfg (st c) = idU := by rw [hst]; rfl
      have hprog : prog c = linesOf c done ++ [line] ++ more := by
        have := h.progs c
        rw [hst, ht] at this
        simpa [St.pendingLine] using this
      have hbcl : ∀ l ∈ more, NoCount split ∨ BumpCommLine cfg c l :=
        fun l hl => h.bcl c l (by rw [ht]; exact List.mem_cons_of_mem _ hl)
      rcases hsh.cases (authOf S.σ c) c line with
        e | e | ⟨ha, n, cnt, hl, e⟩ | ⟨ha, hnl, cmd, cnt, hl, hpre, e⟩
      · rw [move_start hp ht e] at hm
        simp only [Option.some.injEq] at hm
        subst hm
        exact ⟨_, _, _, sim_N_whole hsh h hc hst ht (.inl (hauρ ▸ e))
          (fun t ht' => absurd ht' List.not_mem_nil)⟩
      · rw [move_start hp ht e] at hm
        simp only [Option.some.injEq] at hm
        subst hm
        exact ⟨_, _, _, sim_N_whole hsh h hc hst ht (.inr (hauρ ▸ e))
          (fun t ht' => by simpa using ht')⟩
      · have hac : cn.authenticated = false := hauth ▸ ha
        have hs : split false c line = cntSec c cnt ++ nickSections c n := ha ▸ e
        have hnl : isNickLine line = true := by simp [isNickLine, hl]
        cases cnt with
        | none =>
          have e' : split (authOf S.σ c) c line =
              .nickCheck c n :: [.authDecide c, .authCommit c] := e
          rw [move_start hp ht e'] at hm
          simp only [Option.some.injEq] at hm
          subst hm
          exact sim_core_nick hsh h hc hea heb hpc hcn hac hs hnl hprog hbcl
        | some i =>
          have e' : split (authOf S.σ c) c line = .count c i :: nickSections c n := e
          rw [move_start hp ht e'] at hm
          simp only [Option.some.injEq] at hm
          subst hm
          exact ⟨_, _, _, sim_N_count h hc hst ht hcn hac hs (.inl ⟨hnl, n, rfl⟩)⟩
      · have hac : cn.authenticated = false := hauth ▸ ha
        have hs : split false c line = cntSec c cnt ++ [.prelude c cmd, .authCommit c] := ha ▸ e
        cases cnt with
        | none =>
          have e' : split (authOf S.σ c) c line = .prelude c cmd :: [.authCommit c] := e
          rw [move_start hp ht e'] at hm
          simp only [Option.some.injEq] at hm
          subst hm
          obtain ⟨cn', hp'⟩ := hpre cn
          exact ⟨_, _, _, sim_C_pre h hc hea heb hpc hcn hac hs hnl hp' hprog hbcl⟩
        | some i =>
          have e' : split (authOf S.σ c) c line =
              .count c i :: [.prelude c cmd, .authCommit c] := e
          rw [move_start hp ht e'] at hm
          simp only [Option.some.injEq] at hm
          subst hm
          exact ⟨_, _, _, sim_N_count h hc hst ht hcn hac hs (.inr ⟨hnl, cmd, hpre, rfl⟩)⟩

end

/-- the invariant holds at the start … -/
theorem simW_init {cfg : Cfg} {split : Bool → Nat → Str → List Section} {cs : List Nat}
    {S₀ : Sys} (hnd : cs.Nodup)
    (hcs : ∀ c, c ∉ cs → S₀.todo c = []) (hlive : ∀ c ∈ cs, Live S₀.σ.w c)
    (hinv : InvCore S₀.σ.w) (hpc : ∀ c, S₀.σ.pc c = .idle) (hpend : ∀ c, S₀.pend c = [])
    (hbcl : ∀ c, ∀ l ∈ S₀.todo c, NoCount split ∨ BumpCommLine cfg c l) :
    SimW cfg split cs S₀.σ S₀.todo S₀ [] S₀.σ (fun _ => .idle) where
  nodup := hnd
  hσ := (applyOn_idU cs S₀.σ).symm
  hτ := (applyOn_idU cs S₀.σ).symm
  good := fun d => ⟨hpc d, fun s hs => by rw [hpend d] at hs; exact absurd hs List.not_mem_nil⟩
  incs := fun d hd => by cases hd
  out := fun d hd => ⟨hcs d hd, hpend d⟩
  inv := hinv
  live := hlive
  progs := fun d => by simp [linesOf, St.pendingLine]
  bcl := hbcl

/-- … and when no command is in progress it says that the interleaved state IS the sequential one -/
theorem simW_final {cfg : Cfg} {split : Bool → Nat → Str → List Section} {cs : List Nat}
    {σ₀ : CState} {prog : Nat → List Str} {S : Sys}
    {done : List (Nat × Str)} {ρ : CState} {st : Nat → St}
    (h : SimW cfg split cs σ₀ prog S done ρ st) (hdone : ∀ c ∈ cs, S.pend c = []) :
    (∀ c, prog c = linesOf c done ++ S.todo c) ∧ S.σ = seqRun cfg split done σ₀ := by
  have hidle : ∀ d, (st d).isIdle = true := by
    intro d
    cases hi : (st d).isIdle with
    | true => rfl
    | false => exact absurd (hdone d (h.incs d hi)) ((h.good d).pend_ne_nil hi)
  constructor
  · intro c
    have := h.progs c
    have hpl : (st c).pendingLine = false := by
      have := hidle c
      cases hs : st c <;> simp [hs, St.isIdle] at this ⊢ <;> rfl
    rw [hpl] at this
    simpa using this
  · rw [h.hσ, h.hτ, applyOn_all_id (fun d _ => eaOf_idle (hidle d)),
      applyOn_all_id (fun d _ => ebOf_idle (hidle d))]

/-! ### with the counter sections, "back to back" is `handleLine` -/

/-- the sequential run of the FULL section lists (`splitCommand`, counter sections included) is the
    sequential model proper, `handleLine` folded over the commands (`split_is_sequential` at every
    step; the invariant keeps every acting connection live, every program counter stays `idle`) -/
theorem seqRun_splitCommand_eq_seqWhole {cfg : Cfg} (cmds : List (Nat × Str)) (τ : CState)
    (hinv : InvCore τ.w) (hpc : ∀ c, τ.pc c = .idle) (hlive : ∀ p ∈ cmds, Live τ.w p.1) :
    seqRun cfg splitCommand cmds τ = seqWhole cfg cmds τ := by
  induction cmds generalizing τ with
  | nil => rfl
  | cons p cmds ih =>
    obtain ⟨c, line⟩ := p
    have hl : Live τ.w c := hlive (c, line) List.mem_cons_self
    obtain ⟨cn, hcn, _, _⟩ := conn?_of_live hl
    have e : seqStep cfg splitCommand (c, line) τ = stepSection cfg (.whole c line) τ := by
      rw [seqStep_eq, authOf_of hcn]
      exact C18.split_is_sequential hcn (hpc c)
    have hi := invCore_handleLine (cfg := cfg) (s := line) (x := { w := τ.w }) hinv hl
    show seqRun cfg splitCommand cmds (seqStep cfg splitCommand (c, line) τ) =
      seqWhole cfg cmds (stepSection cfg (.whole c line) τ)
    rw [e]
    apply ih
    · exact hi.1
    · intro d
      by_cases hd : d = c
      · subst hd; rw [step_whole_pc]; exact hpc d
      · rw [step_pc_ne cfg (s := .whole c line) (fun e => hd e.symm)]; exact hpc d
    · intro q hq
      exact Live.of_same hi.2 (hlive q (List.mem_cons_of_mem _ hq))

/-- every command of the merge is one of a connection with a non-empty program -/
theorem mem_cmds_of_linesOf {cs : List Nat} {cmds : List (Nat × Str)} {todo₀ todo : Nat → List Str}
    (hcs : ∀ c, c ∉ cs → todo₀ c = []) (h : ∀ c, todo₀ c = linesOf c cmds ++ todo c) :
    ∀ p ∈ cmds, p.1 ∈ cs := by
  intro p hp
  refine Classical.byContradiction (fun hn => ?_)
  have h1 := h p.1
  rw [hcs p.1 hn] at h1
  have h2 : linesOf p.1 cmds = [] := by
    have := congrArg List.length h1
    simp only [List.length_nil, List.length_append] at this
    exact List.eq_nil_of_length_eq_zero (by omega)
  have h3 : p.2 ∈ linesOf p.1 cmds := by
    simp only [linesOf, List.mem_map, List.mem_filter]
    exact ⟨p, ⟨hp, by simp⟩, rfl⟩
  rw [h2] at h3
  cases h3

end Irc.C18G
