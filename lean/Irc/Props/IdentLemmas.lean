/-
  Irc.Props.IdentLemmas — helper lemmas for properties C15 (NICK change moves the identity)
  and C16 (channel life cycle).
-/
import Irc.Inv
import Irc.InvCheck
import Irc.Lemmas.Frame

namespace Irc

/-! ### more association-list / set lemmas -/

namespace Map
variable {α : Type}

theorem lookup_some_mem {k : Str} {v : α} {m : Map α} (h : lookup k m = some v) : (k, v) ∈ m := by
  induction m with
  | nil => simp [lookup] at h
  | cons p m ih =>
    obtain ⟨k', v'⟩ := p
    simp only [lookup] at h
    split at h
    · rename_i hk; subst hk; cases h; exact List.mem_cons_self
    · exact List.mem_cons_of_mem _ (ih h)

theorem contains_of_mem {k : Str} {v : α} {m : Map α} (h : (k, v) ∈ m) : contains k m = true := by
  rw [contains_iff, ← mem_keys_iff]
  exact List.mem_map.mpr ⟨(k, v), h, rfl⟩

theorem contains_eq_false_iff_not_mem_keys (k : Str) (m : Map α) :
    contains k m = false ↔ k ∉ keys m := by
  rw [mem_keys_iff, ← contains_iff]; simp

theorem erase_eq_nil_iff (k : Str) (m : Map α) :
    erase k m = [] ↔ ∀ k', contains k' m = true → k' = k := by
  induction m with
  | nil => simp [erase, contains, lookup]
  | cons p m ih =>
    obtain ⟨k', v'⟩ := p
    simp only [erase]
    split
    · rename_i hk; subst hk
      rw [ih]
      constructor
      · intro h k'' hc
        by_cases e : k' = k''
        · exact e.symm
        · apply h; simpa [contains, lookup, e] using hc
      · intro h k'' hc
        by_cases e : k' = k''
        · exact e.symm
        · apply h; simpa [contains, lookup, e] using hc
    · rename_i hk
      constructor
      · intro h; cases h
      · intro h; exact absurd (h k' (by simp [contains, lookup])) hk

theorem modify_of_lookup_none {k : Str} {f : α → α} {m : Map α} (h : lookup k m = none) :
    modify k f m = m := by
  induction m with
  | nil => rfl
  | cons p m ih =>
    obtain ⟨k', v'⟩ := p
    simp only [lookup] at h
    split at h
    · cases h
    · rename_i hk; simp [modify, hk, ih h]

theorem keys_insert_of_lookup_none {k : Str} {v : α} {m : Map α} (h : lookup k m = none) :
    keys (insert k v m) = keys m ++ [k] := by
  induction m with
  | nil => rfl
  | cons p m ih =>
    obtain ⟨k', v'⟩ := p
    simp only [lookup] at h
    split at h
    · cases h
    · rename_i hk
      simp only [insert, hk, ↓reduceIte]
      have := ih h
      simp only [keys, List.map_cons, List.cons_append] at this ⊢
      rw [this]

theorem keys_insert_of_lookup_some {k : Str} {v v0 : α} {m : Map α} (h : lookup k m = some v0) :
    keys (insert k v m) = keys m := by
  induction m with
  | nil => simp [lookup] at h
  | cons p m ih =>
    obtain ⟨k', v'⟩ := p
    simp only [lookup] at h
    split at h
    · rename_i hk; subst hk; simp [insert, keys]
    · rename_i hk
      simp only [insert, hk, ↓reduceIte]
      have := ih h
      simp only [keys, List.map_cons] at this ⊢
      rw [this]

theorem nodup_keys_erase {k : Str} {m : Map α} (h : (keys m).Nodup) : (keys (erase k m)).Nodup := by
  rw [keys_erase]; exact h.filter _

theorem nodup_keys_insert {k : Str} {v : α} {m : Map α} (h : (keys m).Nodup) :
    (keys (insert k v m)).Nodup := by
  cases hl : lookup k m with
  | none =>
    rw [keys_insert_of_lookup_none hl]
    refine List.nodup_append.mpr ⟨h, by simp, ?_⟩
    intro a ha b hb
    simp only [List.mem_singleton] at hb; subst hb
    intro e; subst e
    rw [mem_keys_iff] at ha
    obtain ⟨v, hv⟩ := ha; rw [hl] at hv; cases hv
  | some v0 => rw [keys_insert_of_lookup_some hl]; exact h

/-- the value a fold of inserts leaves under a key: the LAST entry with that key wins -/
theorem lookup_foldl_insert {β : Type} (key : β → Str) (val : β → α) (l : List β) (m0 : Map α)
    (k : Str) :
    lookup k (l.foldl (fun m c => insert (key c) (val c) m) m0) =
      match l.reverse.find? (fun c => key c == k) with
      | some c => some (val c)
      | none => lookup k m0 := by
  induction l generalizing m0 with
  | nil => rfl
  | cons a rest ih =>
    simp only [List.foldl_cons, List.reverse_cons, List.find?_append]
    rw [ih]
    cases hf : rest.reverse.find? (fun c => key c == k) with
    | some c => simp
    | none =>
      simp only [Option.none_or, List.find?_cons, List.find?_nil]
      by_cases hk : key a = k
      · simp [hk]
      · have hb : (key a == k) = false := by simp [hk]
        simp [hb, lookup_insert_ne k (key a) (val a) m0 hk]

end Map

namespace KSet

theorem mem_eq_false_iff (k : Str) (s : KSet) : mem k s = false ↔ k ∉ s := by
  rw [← mem_iff]; simp

theorem mem_erase_self (k : Str) (s : KSet) : mem k (erase k s) = false := by
  rw [mem_erase]; simp

theorem mem_erase_ne {k k' : Str} (s : KSet) (h : k ≠ k') : mem k (erase k' s) = mem k s := by
  rw [mem_erase]; simp [h]

theorem mem_insert_self (k : Str) (s : KSet) : mem k (insert k s) = true := by
  rw [mem_insert]; simp

theorem mem_insert_ne {k k' : Str} (s : KSet) (h : k ≠ k') : mem k (insert k' s) = mem k s := by
  rw [mem_insert]; simp [h]

end KSet

/-! ### connections -/

theorem World.conn?_id {w : World} {c : Nat} {cn : Conn} (h : w.conn? c = some cn) : cn.id = c := by
  have := List.find?_some h
  simpa using this

theorem World.conn?_mem {w : World} {c : Nat} {cn : Conn} (h : w.conn? c = some cn) : cn ∈ w.conns :=
  List.mem_of_find?_eq_some h

theorem World.setConn_conn?_same {w : World} {c : Nat} {cn0 cn : Conn} (h : w.conn? c = some cn0)
    (hid : cn.id = c) : (w.setConn cn).conn? c = some cn := by
  subst hid
  unfold World.conn? World.setConn at *
  simp only
  generalize w.conns = l at h
  induction l with
  | nil => simp at h
  | cons a rest ih =>
    simp only [List.find?_cons] at h
    simp only [List.map_cons, List.find?_cons]
    by_cases ha : a.id = cn.id
    · simp [ha]
    · have hb : (a.id == cn.id) = false := by simp [ha]
      simp only [hb] at h ⊢
      simp only [Bool.false_eq_true, ↓reduceIte, hb]
      exact ih h

theorem Ctx.conn_id (x : Ctx) (c : Nat) : (x.conn c).id = c := by
  unfold Ctx.conn
  cases h : x.w.conn? c with
  | none => rfl
  | some cn => exact World.conn?_id h

theorem Ctx.conn?_of_auth {x : Ctx} {c : Nat} (h : (x.conn c).authenticated = true) :
    x.w.conn? c = some (x.conn c) := by
  unfold Ctx.conn at *
  cases hc : x.w.conn? c with
  | none => rw [hc] at h; simp [Conn.new] at h
  | some cn => rfl

@[simp] theorem Conn.setNick_id (cn : Conn) (n : Str) : (cn.setNick n).id = cn.id := rfl
@[simp] theorem Conn.setNick_nick (cn : Conn) (n : Str) : (cn.setNick n).nick = some n := rfl
@[simp] theorem Conn.setNick_authenticated (cn : Conn) (n : Str) :
    (cn.setNick n).authenticated = cn.authenticated := rfl

/-! ### C15: renaming -/

theorem mem_renameIn {old new : Str} (k : Str) (s : KSet) (hne : new ≠ old)
    (hnew : KSet.mem new s = false) :
    KSet.mem k (renameIn old new s) =
      if k = new then KSet.mem old s else if k = old then false else KSet.mem k s := by
  unfold renameIn
  by_cases h : KSet.mem old s = true
  · simp only [h, ↓reduceIte]
    rw [KSet.mem_insert, KSet.mem_erase]
    by_cases h1 : k = new
    · simp [h1]
    · by_cases h2 : k = old
      · simp [h2]
      · simp [h1, h2]
  · have h' : KSet.mem old s = false := by simpa using h
    simp only [h', Bool.false_eq_true, ↓reduceIte]
    by_cases h1 : k = new
    · subst h1; simp [hnew]
    · by_cases h2 : k = old
      · subst h2; simp [h']
      · simp [h1, h2]

/-- what `renameInChannels` does to one channel: rename if possible, leave alone otherwise -/
def renOpt (old new : Str) (C : Channel) : Channel := (C.renameUser old new).getD C

theorem renameUser_none_of_lookup {old new : Str} {C : Channel} (h : Map.lookup old C.users = none) :
    C.renameUser old new = none := by
  unfold Channel.renameUser; rw [h]

theorem renOpt_idem {old new : Str} (hne : new ≠ old) (C : Channel) :
    renOpt old new (renOpt old new C) = renOpt old new C := by
  unfold renOpt
  cases h : C.renameUser old new with
  | none => simp [h]
  | some C' =>
    simp only [Option.getD_some]
    have : Map.lookup old C'.users = none := by
      unfold Channel.renameUser at h
      split at h
      · cases h
      · cases h
        simp only
        rw [Map.lookup_insert_ne _ _ _ _ hne]; simp
    rw [renameUser_none_of_lookup this]; rfl

section
variable (old new : Str)

/-- one step of the `renameInChannels` fold -/
def renStep (w : World) (chn : Str) : World :=
  match Map.lookup chn w.channels with
  | none => w.panic "nick: channel of user missing"
  | some ch =>
    match ch.renameUser old new with
    | none => w.panic "nick: user not in its channel"
    | some ch' => { w with channels := Map.insert chn ch' w.channels }

theorem renameInChannels_eq (chs : List Str) (w : World) :
    renameInChannels old new chs w = chs.foldl (renStep old new) w := rfl

theorem renStep_users (w : World) (chn : Str) : (renStep old new w chn).users = w.users := by
  unfold renStep; split
  · rfl
  · split <;> rfl
theorem renStep_wallops (w : World) (chn : Str) : (renStep old new w chn).wallops = w.wallops := by
  unfold renStep; split
  · rfl
  · split <;> rfl
theorem renStep_histories (w : World) (chn : Str) : (renStep old new w chn).histories = w.histories := by
  unfold renStep; split
  · rfl
  · split <;> rfl
theorem renStep_conns (w : World) (chn : Str) : (renStep old new w chn).conns = w.conns := by
  unfold renStep; split
  · rfl
  · split <;> rfl
theorem renStep_counters (w : World) (chn : Str) :
    (renStep old new w chn).invisibleCount = w.invisibleCount ∧
    (renStep old new w chn).operatorsCount = w.operatorsCount ∧
    (renStep old new w chn).maxUsers = w.maxUsers ∧
    (renStep old new w chn).connsCount = w.connsCount ∧
    (renStep old new w chn).srvQuit = w.srvQuit ∧
    (renStep old new w chn).cmdCounts = w.cmdCounts := by
  unfold renStep; split
  · exact ⟨rfl, rfl, rfl, rfl, rfl, rfl⟩
  · split <;> exact ⟨rfl, rfl, rfl, rfl, rfl, rfl⟩

theorem renStep_lookup (w : World) (chn ch : Str) :
    Map.lookup ch (renStep old new w chn).channels =
      if ch = chn then (Map.lookup ch w.channels).map (renOpt old new) else Map.lookup ch w.channels := by
  unfold renStep
  by_cases e : ch = chn
  · subst e
    simp only [↓reduceIte]
    cases h : Map.lookup ch w.channels with
    | none => simp [h]
    | some C =>
      simp only [Option.map_some]
      cases h2 : C.renameUser old new with
      | none => simp [renOpt, h2, h]
      | some C' => simp [renOpt, h2]
  · simp only [e, ↓reduceIte]
    split
    · rfl
    · split
      · rfl
      · simp only; rw [Map.lookup_insert_ne _ _ _ _ (Ne.symm e)]

theorem renameInChannels_frame (chs : List Str) (w : World) :
    (renameInChannels old new chs w).users = w.users ∧
    (renameInChannels old new chs w).wallops = w.wallops ∧
    (renameInChannels old new chs w).histories = w.histories ∧
    (renameInChannels old new chs w).conns = w.conns ∧
    (renameInChannels old new chs w).invisibleCount = w.invisibleCount ∧
    (renameInChannels old new chs w).operatorsCount = w.operatorsCount ∧
    (renameInChannels old new chs w).maxUsers = w.maxUsers ∧
    (renameInChannels old new chs w).connsCount = w.connsCount ∧
    (renameInChannels old new chs w).srvQuit = w.srvQuit ∧
    (renameInChannels old new chs w).cmdCounts = w.cmdCounts := by
  rw [renameInChannels_eq]
  induction chs generalizing w with
  | nil => simp
  | cons a rest ih =>
    simp only [List.foldl_cons]
    have := ih (renStep old new w a)
    have hc := renStep_counters old new w a
    rw [renStep_users, renStep_wallops, renStep_histories, renStep_conns, hc.1, hc.2.1, hc.2.2.1,
      hc.2.2.2.1, hc.2.2.2.2.1, hc.2.2.2.2.2] at this
    exact this

theorem renameInChannels_lookup (hne : new ≠ old) (chs : List Str) (w : World) (ch : Str) :
    Map.lookup ch (renameInChannels old new chs w).channels =
      if ch ∈ chs then (Map.lookup ch w.channels).map (renOpt old new) else Map.lookup ch w.channels := by
  rw [renameInChannels_eq]
  induction chs generalizing w with
  | nil => simp
  | cons a rest ih =>
    simp only [List.foldl_cons, List.mem_cons]
    rw [ih, renStep_lookup]
    by_cases e : ch = a
    · subst e
      simp only [↓reduceIte, true_or]
      split
      · cases Map.lookup ch w.channels <;> simp [renOpt_idem hne]
      · rfl
    · simp [e]

end

/-! ### sending to known users -/

/-- the connection that owns the queue of user `n` (0 if there is no such user) -/
def ownerOf (w : World) (n : Str) : Nat := ((Map.lookup n w.users).map (·.owner)).getD 0

theorem sendAll_known (x : Ctx) (ns : List Str) (line : Str)
    (h : ∀ n ∈ ns, Map.contains n x.w.users = true) :
    x.sendAll ns line = { x with queued := x.queued ++ ns.map (fun n => (ownerOf x.w n, line)) } := by
  unfold Ctx.sendAll
  induction ns generalizing x with
  | nil => simp
  | cons a rest ih =>
    simp only [List.foldl_cons]
    obtain ⟨u, hu⟩ := (Map.contains_iff a x.w.users).mp (h a List.mem_cons_self)
    rw [Ctx.send_w_of_lookup x a line hu]
    rw [ih]
    · simp [ownerOf, hu]
    · intro n hn; exact h n (List.mem_cons_of_mem _ hn)

/-! ### `processNick`, registered branch, unfolded -/

/-- the world update of an accepted NICK (the closure passed to the write lock) -/
def nickWorld (old new : Str) (user : User) (w : World) : World :=
  let w := { w with users := Map.erase old w.users }
  let w := renameInChannels old new user.channels w
  let w := w.pushHistory old user.history
  let w := { w with users := Map.insert new user w.users }
  if KSet.mem old w.wallops then
    { w with wallops := KSet.insert new (KSet.erase old w.wallops) }
  else w

theorem processNick_accept {cfg : Cfg} {c : Nat} {new old : Str} {msg : Message} {x : Ctx} {u : User}
    (hauth : (x.conn c).authenticated = true) (hnick : (x.conn c).nick = some old)
    (hne : new ≠ old) (hfree : Map.contains new x.w.users = false)
    (hu : Map.lookup old x.w.users = some u) :
    processNick cfg c new msg x =
      let cn' := (x.conn c).setNick new
      let x1 := (x.setConn cn').modifyW (nickWorld old new { u with source := cn'.source })
      x1.sendAll (Map.keys x1.w.users) (msg.render (x.conn c).source) := by
  unfold processNick
  simp only [hauth, hnick, hfree, hu, bne_iff_ne, ne_eq, hne, not_false_eq_true, Bool.not_true,
    Bool.false_eq_true, ↓reduceIte, Bool.not_false]
  rfl

theorem processNick_refuse {cfg : Cfg} {c : Nat} {new old : Str} {msg : Message} {x : Ctx}
    (hauth : (x.conn c).authenticated = true) (hnick : (x.conn c).nick = some old)
    (hne : new ≠ old) (hused : Map.contains new x.w.users = true) :
    processNick cfg c new msg x = x.reply cfg (Reply.ErrNicknameInUse433 old new) := by
  unfold processNick
  simp only [hauth, hnick, hused, bne_iff_ne, ne_eq, hne, not_false_eq_true, Bool.not_true,
    Bool.false_eq_true, ↓reduceIte]
  simp [Conn.clientName, hnick]

theorem processNick_same {cfg : Cfg} {c : Nat} {old : Str} {msg : Message} {x : Ctx}
    (hauth : (x.conn c).authenticated = true) (hnick : (x.conn c).nick = some old) :
    processNick cfg c old msg x = x := by
  unfold processNick
  simp [hauth, hnick]

section
variable (old new : Str) (user : User) (w : World)

theorem nickWorld_users :
    (nickWorld old new user w).users = Map.insert new user (Map.erase old w.users) := by
  unfold nickWorld World.pushHistory
  simp only
  split <;> simp [(renameInChannels_frame old new user.channels _).1]

theorem nickWorld_wallops : (nickWorld old new user w).wallops = renameIn old new w.wallops := by
  unfold nickWorld World.pushHistory renameIn
  simp only [(renameInChannels_frame old new user.channels _).2.1]
  split <;> rfl

theorem nickWorld_histories : (nickWorld old new user w).histories =
    Map.insert old ((Map.lookup old w.histories).getD [] ++ [user.history]) w.histories := by
  unfold nickWorld World.pushHistory
  simp only [(renameInChannels_frame old new user.channels _).2.2.1]
  split <;> rfl

theorem nickWorld_channels : (nickWorld old new user w).channels =
    (renameInChannels old new user.channels w).channels := by
  unfold nickWorld World.pushHistory
  simp only
  have : ∀ (chs : List Str) (w1 w2 : World), w1.channels = w2.channels →
      (renameInChannels old new chs w1).channels = (renameInChannels old new chs w2).channels := by
    intro chs
    induction chs with
    | nil => intro w1 w2 h; exact h
    | cons a rest ih =>
      intro w1 w2 h
      simp only [renameInChannels_eq, List.foldl_cons] at ih ⊢
      apply ih
      unfold renStep
      rw [h]
      split
      · exact h
      · split
        · exact h
        · simp
  split <;> exact this _ _ _ rfl

theorem nickWorld_frame :
    (nickWorld old new user w).conns = w.conns ∧
    (nickWorld old new user w).invisibleCount = w.invisibleCount ∧
    (nickWorld old new user w).operatorsCount = w.operatorsCount ∧
    (nickWorld old new user w).maxUsers = w.maxUsers ∧
    (nickWorld old new user w).connsCount = w.connsCount ∧
    (nickWorld old new user w).srvQuit = w.srvQuit ∧
    (nickWorld old new user w).cmdCounts = w.cmdCounts := by
  unfold nickWorld World.pushHistory
  have f := renameInChannels_frame old new user.channels { w with users := Map.erase old w.users }
  simp only
  split <;> exact ⟨f.2.2.2.1, f.2.2.2.2.1, f.2.2.2.2.2.1, f.2.2.2.2.2.2.1, f.2.2.2.2.2.2.2.1,
    f.2.2.2.2.2.2.2.2.1, f.2.2.2.2.2.2.2.2.2⟩

end

theorem renameUser_some {old new : Str} {C : Channel} {chum : ChanUserModes}
    (h : Map.lookup old C.users = some chum) :
    C.renameUser old new = some { C with
      users := Map.insert new chum (Map.erase old C.users)
      modes := { C.modes with
        operators := renameIn old new C.modes.operators
        halfOperators := renameIn old new C.modes.halfOperators
        voices := renameIn old new C.modes.voices
        founders := renameIn old new C.modes.founders
        protecteds := renameIn old new C.modes.protecteds } } := by
  unfold Channel.renameUser; rw [h]

theorem renameUser_eq_some_iff {old new : Str} {C C' : Channel} (h : C.renameUser old new = some C') :
    ∃ chum, Map.lookup old C.users = some chum := by
  unfold Channel.renameUser at h
  split at h
  · cases h
  · rename_i chum hc; exact ⟨chum, hc⟩

theorem lookup_rename_users {old new : Str} (users : Map ChanUserModes) (chum : ChanUserModes)
    (hne : new ≠ old) (k : Str) :
    Map.lookup k (Map.insert new chum (Map.erase old users)) =
      if k = new then some chum else if k = old then none else Map.lookup k users := by
  by_cases h1 : k = new
  · subst h1; simp
  · rw [Map.lookup_insert_ne _ _ _ _ (Ne.symm h1)]
    by_cases h2 : k = old
    · subst h2; simp [h1]
    · rw [Map.lookup_erase_ne _ _ _ (Ne.symm h2)]; simp [h1, h2]

/-- one rank list stays the mirror of its member flag under a rename -/
theorem rank_rename {old new : Str} {users : Map ChanUserModes} {chum : ChanUserModes}
    (f : ChanUserModes → Bool) (s : KSet) (hne : new ≠ old)
    (hold : Map.lookup old users = some chum) (hnew : Map.lookup new users = none)
    (hm : ∀ n, KSet.mem n s = true ↔ ∃ m, Map.lookup n users = some m ∧ f m = true) :
    ∀ n, KSet.mem n (renameIn old new s) = true ↔
      ∃ m, Map.lookup n (Map.insert new chum (Map.erase old users)) = some m ∧ f m = true := by
  have hnew' : KSet.mem new s = false := by
    cases hq : KSet.mem new s with
    | false => rfl
    | true => obtain ⟨m, hm1, _⟩ := (hm new).mp hq; rw [hnew] at hm1; cases hm1
  intro n
  rw [mem_renameIn n s hne hnew', lookup_rename_users users chum hne n]
  by_cases h1 : n = new
  · subst h1
    simp only [↓reduceIte]
    rw [hm old, hold]
  · by_cases h2 : n = old
    · subst h2; simp [h1]
    · simp only [h1, h2, ↓reduceIte]
      exact hm n

theorem World.setConn_conn?_other {w : World} {c' : Nat} {cn : Conn} (hid : cn.id ≠ c') :
    (w.setConn cn).conn? c' = w.conn? c' := by
  unfold World.conn? World.setConn
  simp only
  generalize w.conns = l
  induction l with
  | nil => rfl
  | cons a rest ih =>
    simp only [List.map_cons, List.find?_cons]
    by_cases ha : a.id = cn.id
    · have h1 : (cn.id == c') = false := by simp [hid]
      have h2 : (a.id == c') = false := by simp [ha, hid]
      have h3 : (a.id == cn.id) = true := by simp [ha]
      simp only [h3, ↓reduceIte, h1, h2]
      exact ih
    · have h1 : (a.id == cn.id) = false := by simp [ha]
      simp only [h1, Bool.false_eq_true, ↓reduceIte]
      rw [ih]

section
variable {cfg : Cfg} {c : Nat} {new old : Str} {msg : Message} {x : Ctx} {u : User}
  (hauth : (x.conn c).authenticated = true) (hnick : (x.conn c).nick = some old)
  (hne : new ≠ old) (hfree : Map.contains new x.w.users = false)
  (hu : Map.lookup old x.w.users = some u)
include hauth hnick hne hfree hu

theorem processNick_accept_w :
    (processNick cfg c new msg x).w =
      nickWorld old new { u with source := ((x.conn c).setNick new).source }
        (x.w.setConn ((x.conn c).setNick new)) := by
  rw [processNick_accept hauth hnick hne hfree hu]
  simp only
  rw [sendAll_known]
  · rfl
  · intro n hn
    exact (Map.contains_iff _ _).mpr ((Map.mem_keys_iff _ _).mp hn)

theorem processNick_accept_direct : (processNick cfg c new msg x).direct = x.direct := by
  rw [processNick_accept hauth hnick hne hfree hu]
  simp only
  rw [sendAll_known]
  · rfl
  · intro n hn
    exact (Map.contains_iff _ _).mpr ((Map.mem_keys_iff _ _).mp hn)

theorem processNick_accept_queued :
    (processNick cfg c new msg x).queued =
      x.queued ++ (Map.keys (processNick cfg c new msg x).w.users).map
        (fun n => (ownerOf (processNick cfg c new msg x).w n, msg.render (x.conn c).source)) := by
  rw [processNick_accept_w hauth hnick hne hfree hu]
  rw [processNick_accept hauth hnick hne hfree hu]
  simp only
  rw [sendAll_known]
  · rfl
  · intro n hn
    exact (Map.contains_iff _ _).mpr ((Map.mem_keys_iff _ _).mp hn)

end

theorem World.setConn_ids (w : World) (cn : Conn) :
    (w.setConn cn).conns.map (·.id) = w.conns.map (·.id) := by
  unfold World.setConn
  simp only [List.map_map]
  apply List.map_congr_left
  intro a _
  simp only [Function.comp]
  split
  · rename_i h; simp at h; exact h.symm
  · rfl

/-! ### a small concrete world satisfying `InvCore` (for the non-vacuity examples) -/

theorem rank_of_chk (users : Map ChanUserModes) (lst : KSet) (flag : ChanUserModes → Bool)
    (h : (lst.all (fun n => match Map.lookup n users with | some m => flag m | none => false) &&
          users.all (fun p => !flag p.2 || KSet.mem p.1 lst)) = true) :
    ∀ n, KSet.mem n lst = true ↔ ∃ m, Map.lookup n users = some m ∧ flag m = true := by
  rw [Bool.and_eq_true, List.all_eq_true, List.all_eq_true] at h
  obtain ⟨h1, h2⟩ := h
  intro n
  constructor
  · intro hn
    have := h1 n ((KSet.mem_iff _ _).mp hn)
    cases hl : Map.lookup n users with
    | none => rw [hl] at this; cases this
    | some m => rw [hl] at this; exact ⟨m, rfl, this⟩
  · rintro ⟨m, hm, hf⟩
    have := h2 (n, m) (Map.lookup_some_mem hm)
    simpa [hf] using this

theorem rankMirror_of_check {C : Channel} (h : rankMirrorCheck C = true) : RankMirror C := by
  unfold rankMirrorCheck at h
  simp only [Bool.and_eq_true] at h
  obtain ⟨⟨⟨⟨⟨a1, a2⟩, ⟨b1, b2⟩⟩, ⟨c1, c2⟩⟩, ⟨d1, d2⟩⟩, ⟨e1, e2⟩⟩ := h
  exact
    { founders := rank_of_chk _ _ (·.founder) (by rw [Bool.and_eq_true]; exact ⟨a1, a2⟩)
      protecteds := rank_of_chk _ _ (·.prot) (by rw [Bool.and_eq_true]; exact ⟨b1, b2⟩)
      operators := rank_of_chk _ _ (·.operator) (by rw [Bool.and_eq_true]; exact ⟨c1, c2⟩)
      halfOperators := rank_of_chk _ _ (·.halfOper) (by rw [Bool.and_eq_true]; exact ⟨d1, d2⟩)
      voices := rank_of_chk _ _ (·.voice) (by rw [Bool.and_eq_true]; exact ⟨e1, e2⟩) }

namespace Ex

def alice : Str := str "alice"
def bob : Str := str "bob"
def carol : Str := str "carol"
def chan : Str := str "#c"

def uAlice : User :=
  { hostname := str "h1", name := str "al", realname := str "A", source := str "alice!~al@h1",
    modes := { wallops := true, oper := true }, away := some (str "gone"), channels := [chan],
    invitedTo := [str "#inv"], history := ⟨str "al", str "h1", str "A"⟩, owner := 1 }

def uBob : User :=
  { hostname := str "h2", name := str "bo", realname := str "B", source := str "bob!~bo@h2",
    modes := {}, channels := [chan], history := ⟨str "bo", str "h2", str "B"⟩, owner := 2 }

def cChan : Channel :=
  { topic := some ⟨str "t", alice⟩
    modes := { founders := [alice], operators := [alice], voices := [bob], secret := true }
    users := [(alice, { founder := true, operator := true }), (bob, { voice := true })] }

def conn1 : Conn :=
  { id := 1, hostname := str "h1", nick := some alice, name := some (str "al"),
    realname := some (str "A"), source := str "alice!~al@h1", authenticated := true,
    hasSender := false, hasQuitSender := false, hasPingSender := false }

def conn2 : Conn :=
  { id := 2, hostname := str "h2", nick := some bob, name := some (str "bo"),
    realname := some (str "B"), source := str "bob!~bo@h2", authenticated := true,
    hasSender := false, hasQuitSender := false, hasPingSender := false }

def w : World :=
  { users := [(alice, uAlice), (bob, uBob)], channels := [(chan, cChan)], wallops := [alice],
    operatorsCount := 1, maxUsers := 2, conns := [conn1, conn2], connsCount := 2 }

theorem users_cases {n : Str} {u : User} (h : Map.lookup n w.users = some u) :
    (n = alice ∧ u = uAlice) ∨ (n = bob ∧ u = uBob) := by
  have := Map.lookup_some_mem h
  simpa [w] using this

theorem chans_cases {ch : Str} {C : Channel} (h : Map.lookup ch w.channels = some C) :
    ch = chan ∧ C = cChan := by
  have := Map.lookup_some_mem h
  simpa [w] using this

theorem conns_cases {cn : Conn} (h : cn ∈ w.conns) : cn = conn1 ∨ cn = conn2 := by
  simpa [w] using h

theorem inv : InvCore w where
  noPanic := rfl
  usersNodup := by decide
  chansNodup := by decide
  connsNodup := by decide
  membersNodup := by
    intro ch C h; obtain ⟨rfl, rfl⟩ := chans_cases h; decide
  userChansNodup := by
    intro n u h
    rcases users_cases h with ⟨rfl, rfl⟩ | ⟨rfl, rfl⟩ <;> decide
  authOwns := by
    intro cn h _
    rcases conns_cases h with rfl | rfl
    · exact ⟨alice, uAlice, rfl, by decide, rfl⟩
    · exact ⟨bob, uBob, rfl, by decide, rfl⟩
  userOwned := by
    intro n u h
    rcases users_cases h with ⟨rfl, rfl⟩ | ⟨rfl, rfl⟩
    · exact ⟨conn1, by simp [w], rfl, rfl, rfl⟩
    · exact ⟨conn2, by simp [w], rfl, rfl, rfl⟩
  memberSym := by
    intro n u ch h
    have key : KSet.mem ch u.channels = true ↔ ch = chan := by
      rcases users_cases h with ⟨rfl, rfl⟩ | ⟨rfl, rfl⟩ <;>
        simp [KSet.mem_iff, uAlice, uBob]
    rw [key]
    constructor
    · rintro rfl
      rcases users_cases h with ⟨rfl, rfl⟩ | ⟨rfl, rfl⟩
      · exact ⟨cChan, by decide, by decide⟩
      · exact ⟨cChan, by decide, by decide⟩
    · rintro ⟨C, hC, _⟩; exact (chans_cases hC).1
  memberIsUser := by
    intro ch C n hC hn
    obtain ⟨rfl, rfl⟩ := chans_cases hC
    obtain ⟨m, hm⟩ := (Map.contains_iff _ _).mp hn
    have := Map.lookup_some_mem hm
    simp only [cChan, List.mem_cons, Prod.mk.injEq, List.not_mem_nil, or_false] at this
    rcases this with ⟨rfl, _⟩ | ⟨rfl, _⟩ <;> decide
  rankMirror := by
    intro ch C h; obtain ⟨rfl, rfl⟩ := chans_cases h
    exact rankMirror_of_check (by decide)
  noEmptyAdHoc := by
    intro ch C h he; obtain ⟨rfl, rfl⟩ := chans_cases h; cases he
  invisibleCount := by decide
  operatorsCount := by decide
  wallopsSet := by
    intro n
    constructor
    · intro hn
      have : n = alice := by simpa [KSet.mem_iff, w] using hn
      subst this; exact ⟨uAlice, by decide, rfl⟩
    · rintro ⟨u, hu, hw⟩
      rcases users_cases hu with ⟨rfl, rfl⟩ | ⟨rfl, rfl⟩
      · decide
      · cases hw
  maxUsers := by decide
  resources := by
    intro cn h ha
    rcases conns_cases h with rfl | rfl <;> cases ha
  slots := rfl
  killedFlagged := by
    intro n u h hk
    rcases users_cases h with ⟨rfl, rfl⟩ | ⟨rfl, rfl⟩ <;> cases hk

end Ex

end Irc
