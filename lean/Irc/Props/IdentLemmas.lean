/-
  Irc.Props.IdentLemmas — helper lemmas for properties C15 (NICK change moves the identity)
  and C16 (channel life cycle).
-/
import Irc.Inv
import Irc.InvCheck
import Irc.Lemmas.Frame

namespace Irc

/-! ### more association-list / set lemmas -/

namespace Map
variable {α : Type}

theorem lookup_some_mem {k : Str} {v : α} {m : Map α} (h : lookup k m = some v) : (k, v) ∈ m := by
  induction m with
  | nil => simp [lookup] at h
  | cons p m ih =>
    obtain ⟨k', v'⟩ := p
    simp only [lookup] at h
    split at h
    · rename_i hk; subst hk; cases h; exact List.mem_cons_self
    · exact List.mem_cons_of_mem _ (ih h)

theorem contains_of_mem {k : Str} {v : α} {m : Map α} (h : (k, v) ∈ m) : contains k m = true := by
  rw [contains_iff, ← mem_keys_iff]
  exact List.mem_map.mpr ⟨(k, v), h, rfl⟩

theorem contains_eq_false_iff_not_mem_keys (k : Str) (m : Map α) :
    contains k m = false ↔ k ∉ keys m := by
  rw [mem_keys_iff, ← contains_iff]; simp

theorem erase_eq_nil_iff (k : Str) (m : Map α) :
    erase k m = [] ↔ ∀ k', contains k' m = true → k' = k := by
  induction m with
  | nil => simp [erase, contains, lookup]
  | cons p m ih =>
    obtain ⟨k', v'⟩ := p
    simp only [erase]
    split
    · rename_i hk; subst hk
      rw [ih]
      constructor
      · intro h k'' hc
        by_cases e : k' = k''
        · exact e.symm
        · apply h; simpa [contains, lookup, e] using hc
      · intro h k'' hc
        by_cases e : k' = k''
        · exact e.symm
        · apply h; simpa [contains, lookup, e] using hc
    · rename_i hk
      constructor
      · intro h; cases h
      · intro h; exact absurd (h k' (by simp [contains, lookup])) hk

theorem modify_of_lookup_none {k : Str} {f : α → α} {m : Map α} (h : lookup k m = none) :
    modify k f m = m := by
  induction m with
  | nil => rfl
  | cons p m ih =>
    obtain ⟨k', v'⟩ := p
    simp only [lookup] at h
    split at h
    · cases h
    · rename_i hk; simp [modify, hk, ih h]

theorem keys_insert_of_lookup_none {k : Str} {v : α} {m : Map α} (h : lookup k m = none) :
    keys (insert k v m) = keys m ++ [k] := by
  induction m with
  | nil => rfl
  | cons p m ih =>
    obtain ⟨k', v'⟩ := p
    simp only [lookup] at h
    split at h
    · cases h
    · rename_i hk
      simp only [insert, hk, ↓reduceIte]
      have := ih h
      simp only [keys, List.map_cons, List.cons_append] at this ⊢
      rw [this]

theorem keys_insert_of_lookup_some {k : Str} {v v0 : α} {m : Map α} (h : lookup k m = some v0) :
    keys (insert k v m) = keys m := by
  induction m with
  | nil => simp [lookup] at h
  | cons p m ih =>
    obtain ⟨k', v'⟩ := p
    simp only [lookup] at h
    split at h
    · rename_i hk; subst hk; simp [insert, keys]
    · rename_i hk
      simp only [insert, hk, ↓reduceIte]
      have := ih h
      simp only [keys, List.map_cons] at this ⊢
      rw [this]

theorem nodup_keys_erase {k : Str} {m : Map α} (h : (keys m).Nodup) : (keys (erase k m)).Nodup := by
  rw [keys_erase]; exact h.filter _

theorem nodup_keys_insert {k : Str} {v : α} {m : Map α} (h : (keys m).Nodup) :
    (keys (insert k v m)).Nodup := by
  cases hl : lookup k m with
  | none =>
    rw [keys_insert_of_lookup_none hl]
    refine List.nodup_append.mpr ⟨h, by simp, ?_⟩
    intro a ha b hb
    simp only [List.mem_singleton] at hb; subst hb
    intro e; subst e
    rw [mem_keys_iff] at ha
    obtain ⟨v, hv⟩ := ha; rw [hl] at hv; cases hv
  | some v0 => rw [keys_insert_of_lookup_some hl]; exact h

/-- the value a fold of inserts leaves under a key: the LAST entry with that key wins -/
theorem lookup_foldl_insert {β : Type} (key : β → Str) (val : β → α) (l : List β) (m0 : Map α)
    (k : Str) :
    lookup k (l.foldl (fun m c => insert (key c) (val c) m) m0) =
      match l.reverse.find? (fun c => key c == k) with
      | some c => some (val c)
      | none => lookup k m0 := by
  induction l generalizing m0 with
  | nil => rfl
  | cons a rest ih =>
    simp only [List.foldl_cons, List.reverse_cons, List.find?_append]
    rw [ih]
    cases hf : rest.reverse.find? (fun c => key c == k) with
    | some c => simp
    | none =>
      simp only [Option.none_or, List.find?_cons, List.find?_nil]
      by_cases hk : key a = k
      · simp [hk]
      · have hb : (key a == k) = false := by simp [hk]
        simp [hb, lookup_insert_ne k (key a) (val a) m0 hk]

end Map

namespace KSet

theorem mem_eq_false_iff (k : Str) (s : KSet) : mem k s = false ↔ k ∉ s := by
  rw [← mem_iff]; simp

theorem mem_erase_self (k : Str) (s : KSet) : mem k (erase k s) = false := by
  rw [mem_erase]; simp

theorem mem_erase_ne {k k' : Str} (s : KSet) (h : k ≠ k') : mem k (erase k' s) = mem k s := by
  rw [mem_erase]; simp [h]

theorem mem_insert_self (k : Str) (s : KSet) : mem k (insert k s) = true := by
  rw [mem_insert]; simp

theorem mem_insert_ne {k k' : Str} (s : KSet) (h : k ≠ k') : mem k (insert k' s) = mem k s := by
  rw [mem_insert]; simp [h]

end KSet

/-! ### connections -/

theorem World.conn?_id {w : World} {c : Nat} {cn : Conn} (h : w.conn? c = some cn) : cn.id = c := by
  have := List.find?_some h
  simpa using this

theorem World.conn?_mem {w : World} {c : Nat} {cn : Conn} (h : w.conn? c = some cn) : cn ∈ w.conns :=
  List.mem_of_find?_eq_some h

theorem World.setConn_conn?_same {w : World} {c : Nat} {cn0 cn : Conn} (h : w.conn? c = some cn0)
    (hid : cn.id = c) : (w.setConn cn).conn? c = some cn := by
  subst hid
  unfold World.conn? World.setConn at *
  simp only
  generalize w.conns = l at h
  induction l with
  | nil => simp at h
  | cons a rest ih =>
    simp only [List.find?_cons] at h
    simp only [List.map_cons, List.find?_cons]
    by_cases ha : a.id = cn.id
    · simp [ha]
    · have hb : (a.id == cn.id) = false := by simp [ha]
      simp only [hb] at h ⊢
      simp only [Bool.false_eq_true, ↓reduceIte, hb]
      exact ih h

theorem Ctx.conn_id (x : Ctx) (c : Nat) : (x.conn c).id = c := by
  unfold Ctx.conn
  cases h : x.w.conn? c with
  | none => rfl
  | some cn => exact World.conn?_id h

theorem Ctx.conn?_of_auth {x : Ctx} {c : Nat} (h : (x.conn c).authenticated = true) :
    x.w.conn? c = some (x.conn c) := by
  unfold Ctx.conn at *
  cases hc : x.w.conn? c with
  | none => rw [hc] at h; simp [Conn.new] at h
  | some cn => rfl

@[simp] theorem Conn.setNick_id (cn : Conn) (n : Str) : (cn.setNick n).id = cn.id := rfl
@[simp] theorem Conn.setNick_nick (cn : Conn) (n : Str) : (cn.setNick n).nick = some n := rfl
@[simp] theorem Conn.setNick_authenticated (cn : Conn) (n : Str) :
    (cn.setNick n).authenticated = cn.authenticated := rfl

/-! ### C15: renaming -/

theorem mem_renameIn {old new : Str} (k : Str) (s : KSet) (hne : new ≠ old)
    (hnew : KSet.mem new s = false) :
    KSet.mem k (renameIn old new s) =
      if k = new then KSet.mem old s else if k = old then false else KSet.mem k s := by
  unfold renameIn
  by_cases h : KSet.mem old s = true
  · simp only [h, ↓reduceIte]
    rw [KSet.mem_insert, KSet.mem_erase]
    by_cases h1 : k = new
    · simp [h1]
    · by_cases h2 : k = old
      · simp [h2]
      · simp [h1, h2]
  · have h' : KSet.mem old s = false := by simpa using h
    simp only [h', Bool.false_eq_true, ↓reduceIte]
    by_cases h1 : k = new
    · subst h1; simp [hnew]
    · by_cases h2 : k = old
      · subst h2; simp [h']
      · simp [h1, h2]

/-- what `renameInChannels` does to one channel: rename if possible, leave alone otherwise -/
def renOpt (old new : Str) (C : Channel) : Channel := (C.renameUser old new).getD C

theorem renameUser_none_of_lookup {old new : Str} {C : Channel} (h : Map.lookup old C.users = none) :
    C.renameUser old new = none := by
  unfold Channel.renameUser; rw [h]

theorem renOpt_idem {old new : Str} (hne : new ≠ old) (C : Channel) :
    renOpt old new (renOpt old new C) = renOpt old new C := by
  unfold renOpt
  cases h : C.renameUser old new with
  | none => simp [h]
  | some C' =>
    simp only [Option.getD_some]
    have : Map.lookup old C'.users = none := by
      unfold Channel.renameUser at h
      split at h
      · cases h
      · cases h
        simp only
        rw [Map.lookup_insert_ne _ _ _ _ hne]; simp
    rw [renameUser_none_of_lookup this]; rfl

section
variable (old new : Str)

/-- one step of the `renameInChannels` fold -/
def renStep (w : World) (chn : Str) : World :=
  match Map.lookup chn w.channels with
  | none => w.panic "nick: channel of user missing"
  | some ch =>
    match ch.renameUser old new with
    | none => w.panic "nick: user not in its channel"
    | some ch' => { w with channels := Map.insert chn ch' w.channels }

theorem renameInChannels_eq (chs : List Str) (w : World) :
    renameInChannels old new chs w = chs.foldl (renStep old new) w := rfl

theorem renStep_users (w : World) (chn : Str) : (renStep old new w chn).users = w.users := by
  unfold renStep; split
  · rfl
  · split <;> rfl
theorem renStep_wallops (w : World) (chn : Str) : (renStep old new w chn).wallops = w.wallops := by
  unfold renStep; split
  · rfl
  · split <;> rfl
theorem renStep_histories (w : World) (chn : Str) : (renStep old new w chn).histories = w.histories := by
  unfold renStep; split
  · rfl
  · split <;> rfl
theorem renStep_conns (w : World) (chn : Str) : (renStep old new w chn).conns = w.conns := by
  unfold renStep; split
  · rfl
  · split <;> rfl
theorem renStep_counters (w : World) (chn : Str) :
    (renStep old new w chn).invisibleCount = w.invisibleCount ∧
    (renStep old new w chn).operatorsCount = w.operatorsCount ∧
    (renStep old new w chn).maxUsers = w.maxUsers ∧
    (renStep old new w chn).connsCount = w.connsCount ∧
    (renStep old new w chn).srvQuit = w.srvQuit ∧
    (renStep old new w chn).cmdCounts = w.cmdCounts := by
  unfold renStep; split
  · exact ⟨rfl, rfl, rfl, rfl, rfl, rfl⟩
  · split <;> exact ⟨rfl, rfl, rfl, rfl, rfl, rfl⟩

theorem renStep_lookup (w : World) (chn ch : Str) :
    Map.lookup ch (renStep old new w chn).channels =
      if ch = chn then (Map.lookup ch w.channels).map (renOpt old new) else Map.lookup ch w.channels := by
  unfold renStep
  by_cases e : ch = chn
  · subst e
    simp only [↓reduceIte]
    cases h : Map.lookup ch w.channels with
    | none => simp [h]
    | some C =>
      simp only [Option.map_some]
      cases h2 : C.renameUser old new with
      | none => simp [renOpt, h2, h]
      | some C' => simp [renOpt, h2]
  · simp only [e, ↓reduceIte]
    split
    · rfl
    · split
      · rfl
      · simp only; rw [Map.lookup_insert_ne _ _ _ _ (Ne.symm e)]

theorem renameInChannels_frame (chs : List Str) (w : World) :
    (renameInChannels old new chs w).users = w.users ∧
    (renameInChannels old new chs w).wallops = w.wallops ∧
    (renameInChannels old new chs w).histories = w.histories ∧
    (renameInChannels old new chs w).conns = w.conns ∧
    (renameInChannels old new chs w).invisibleCount = w.invisibleCount ∧
    (renameInChannels old new chs w).operatorsCount = w.operatorsCount ∧
    (renameInChannels old new chs w).maxUsers = w.maxUsers ∧
    (renameInChannels old new chs w).connsCount = w.connsCount ∧
    (renameInChannels old new chs w).srvQuit = w.srvQuit ∧
    (renameInChannels old new chs w).cmdCounts = w.cmdCounts := by
  rw [renameInChannels_eq]
  induction chs generalizing w with
  | nil => simp
  | cons a rest ih =>
    simp only [List.foldl_cons]
    have := ih (renStep old new w a)
    have hc := renStep_counters old new w a
    rw [renStep_users, renStep_wallops, renStep_histories, renStep_conns, hc.1, hc.2.1, hc.2.2.1,
      hc.2.2.2.1, hc.2.2.2.2.1, hc.2.2.2.2.2] at this
    exact this

theorem renameInChannels_lookup (hne : new ≠ old) (chs : List Str) (w : World) (ch : Str) :
    Map.lookup ch (renameInChannels old new chs w).channels =
      if ch ∈ chs then (Map.lookup ch w.channels).map (renOpt old new) else Map.lookup ch w.channels := by
  rw [renameInChannels_eq]
  induction chs generalizing w with
  | nil => simp
  | cons a rest ih =>
    simp only [List.foldl_cons, List.mem_cons]
    rw [ih, renStep_lookup]
    by_cases e : ch = a
    · subst e
      simp only [↓reduceIte, true_or]
      split
      · cases Map.lookup ch w.channels <;> simp [renOpt_idem hne]
      · rfl
    · simp [e]

end

/-! ### sending to known users -/

/-- the connection that owns the queue of user `n` (0 if there is no such user) -/
def ownerOf (w : World) (n : Str) : Nat := ((Map.lookup n w.users).map (·.owner)).getD 0

theorem sendAll_known (x : Ctx) (ns : List Str) (line : Str)
    (h : ∀ n ∈ ns, Map.contains n x.w.users = true) :
    x.sendAll ns line = { x with queued := x.queued ++ ns.map (fun n => (ownerOf x.w n, line)) } := by
  unfold Ctx.sendAll
  induction ns generalizing x with
  | nil => simp
  | cons a rest ih =>
    simp only [List.foldl_cons]
    obtain ⟨u, hu⟩ := (Map.contains_iff a x.w.users).mp (h a List.mem_cons_self)
    rw [Ctx.send_w_of_lookup x a line hu]
    rw [ih]
    · simp [ownerOf, hu]
    · intro n hn; exact h n (List.mem_cons_of_mem _ hn)

/-! ### `processNick`, registered branch, unfolded -/

/-- the world update of an accepted NICK (the closure passed to the write lock) -/
def nickWorld (old new : Str) (user : User) (w : World) : World :=
  let w := { w with users := Map.erase old w.users }
  let w := renameInChannels old new user.channels w
  let w := w.pushHistory old user.history
  let w := { w with users := Map.insert new user w.users }
  if KSet.mem old w.wallops then
    { w with wallops := KSet.insert new (KSet.erase old w.wallops) }
  else w

theorem processNick_accept {cfg : Cfg} {c : Nat} {new old : Str} {msg : Message} {x : Ctx} {u : User}
    (hauth : (x.conn c).authenticated = true) (hnick : (x.conn c).nick = some old)
    (hne : new ≠ old) (hfree : Map.contains new x.w.users = false)
    (hu : Map.lookup old x.w.users = some u) :
    processNick cfg c new msg x =
      let cn' := (x.conn c).setNick new
      let x1 := (x.setConn cn').modifyW (nickWorld old new { u with source := cn'.source })
      x1.sendAll (Map.keys x1.w.users) (msg.render (x.conn c).source) := by
  unfold processNick
  simp only [hauth, hnick, hfree, hu, bne_iff_ne, ne_eq, hne, not_false_eq_true, Bool.not_true,
    Bool.false_eq_true, ↓reduceIte, Bool.not_false]
  rfl

theorem processNick_refuse {cfg : Cfg} {c : Nat} {new old : Str} {msg : Message} {x : Ctx}
    (hauth : (x.conn c).authenticated = true) (hnick : (x.conn c).nick = some old)
    (hne : new ≠ old) (hused : Map.contains new x.w.users = true) :
    processNick cfg c new msg x = x.reply cfg (Reply.ErrNicknameInUse433 old new) := by
  unfold processNick
  simp only [hauth, hnick, hused, bne_iff_ne, ne_eq, hne, not_false_eq_true, Bool.not_true,
    Bool.false_eq_true, ↓reduceIte]
  simp [Conn.clientName, hnick]

theorem processNick_same {cfg : Cfg} {c : Nat} {old : Str} {msg : Message} {x : Ctx}
    (hauth : (x.conn c).authenticated = true) (hnick : (x.conn c).nick = some old) :
    processNick cfg c old msg x = x := by
  unfold processNick
  simp [hauth, hnick]

section
variable (old new : Str) (user : User) (w : World)

theorem nickWorld_users :
    (nickWorld old new user w).users = Map.insert new user (Map.erase old w.users) := by
  unfold nickWorld World.pushHistory
  simp only
  split <;> simp [(renameInChannels_frame old new user.channels _).1]

theorem nickWorld_wallops : (nickWorld old new user w).wallops = renameIn old new w.wallops := by
  unfold nickWorld World.pushHistory renameIn
  simp only [(renameInChannels_frame old new user.channels _).2.1]
  split <;> rfl

theorem nickWorld_histories : (nickWorld old new user w).histories =
    Map.insert old ((Map.lookup old w.histories).getD [] ++ [user.history]) w.histories := by
  unfold nickWorld World.pushHistory
  simp only [(renameInChannels_frame old new user.channels _).2.2.1]
  split <;> rfl

theorem nickWorld_channels : (nickWorld old new user w).channels =
    (renameInChannels old new user.channels w).channels := by
  unfold nickWorld World.pushHistory
  simp only
  have : ∀ (chs : List Str) (w1 w2 : World), w1.channels = w2.channels →
      (renameInChannels old new chs w1).channels = (renameInChannels old new chs w2).channels := by
    intro chs
    induction chs with
    | nil => intro w1 w2 h; exact h
    | cons a rest ih =>
      intro w1 w2 h
      simp only [renameInChannels_eq, List.foldl_cons] at ih ⊢
      apply ih
      unfold renStep
      rw [h]
      split
      · exact h
      · split
        · exact h
        · simp
  split <;> exact this _ _ _ rfl

theorem nickWorld_frame :
    (nickWorld old new user w).conns = w.conns ∧
    (nickWorld old new user w).invisibleCount = w.invisibleCount ∧
    (nickWorld old new user w).operatorsCount = w.operatorsCount ∧
    (nickWorld old new user w).maxUsers = w.maxUsers ∧
    (nickWorld old new user w).connsCount = w.connsCount ∧
    (nickWorld old new user w).srvQuit = w.srvQuit ∧
    (nickWorld old new user w).cmdCounts = w.cmdCounts := by
  unfold nickWorld World.pushHistory
  have f := renameInChannels_frame old new user.channels { w with users := Map.erase old w.users }
  simp only
  split <;> exact ⟨f.2.2.2.1, f.2.2.2.2.1, f.2.2.2.2.2.1, f.2.2.2.2.2.2.1, f.2.2.2.2.2.2.2.1,
    f.2.2.2.2.2.2.2.2.1, f.2.2.2.2.2.2.2.2.2⟩

end

theorem renameUser_some {old new : Str} {C : Channel} {chum : ChanUserModes}
    (h : Map.lookup old C.users = some chum) :
    C.renameUser old new = some { C with
      users := Map.insert new chum (Map.erase old C.users)
      modes := { C.modes with
        operators := renameIn old new C.modes.operators
        halfOperators := renameIn old new C.modes.halfOperators
        voices := renameIn old new C.modes.voices
        founders := renameIn old new C.modes.founders
        protecteds := renameIn old new C.modes.protecteds } } := by
  unfold Channel.renameUser; rw [h]

theorem renameUser_eq_some_iff {old new : Str} {C C' : Channel} (h : C.renameUser old new = some C') :
    ∃ chum, Map.lookup old C.users = some chum := by
  unfold Channel.renameUser at h
  split at h
  · cases h
  · rename_i chum hc; exact ⟨chum, hc⟩

theorem lookup_rename_users {old new : Str} (users : Map ChanUserModes) (chum : ChanUserModes)
    (hne : new ≠ old) (k : Str) :
    Map.lookup k (Map.insert new chum (Map.erase old users)) =
      if k = new then some chum else if k = old then none else Map.lookup k users := by
  by_cases h1 : k = new
  · subst h1; simp
  · rw [Map.lookup_insert_ne _ _ _ _ (Ne.symm h1)]
    by_cases h2 : k = old
    · subst h2; simp [h1]
    · rw [Map.lookup_erase_ne _ _ _ (Ne.symm h2)]; simp [h1, h2]

/-- one rank list stays the mirror of its member flag under a rename -/
theorem rank_rename {old new : Str} {users : Map ChanUserModes} {chum : ChanUserModes}
    (f : ChanUserModes → Bool) (s : KSet) (hne : new ≠ old)
    (hold : Map.lookup old users = some chum) (hnew : Map.lookup new users = none)
    (hm : ∀ n, KSet.mem n s = true ↔ ∃ m, Map.lookup n users = some m ∧ f m = true) :
    ∀ n, KSet.mem n (renameIn old new s) = true ↔
      ∃ m, Map.lookup n (Map.insert new chum (Map.erase old users)) = some m ∧ f m = true := by
  have hnew' : KSet.mem new s = false := by
    cases hq : KSet.mem new s with
    | false => rfl
    | true => obtain ⟨m, hm1, _⟩ := (hm new).mp hq; rw [hnew] at hm1; cases hm1
  intro n
  rw [mem_renameIn n s hne hnew', lookup_rename_users users chum hne n]
  by_cases h1 : n = new
  · subst h1
    simp only [↓reduceIte]
    rw [hm old, hold]
  · by_cases h2 : n = old
    · subst h2; simp [h1]
    · simp only [h1, h2, ↓reduceIte]
      exact hm n

theorem World.setConn_conn?_other {w : World} {c' : Nat} {cn : Conn} (hid : cn.id ≠ c') :
    (w.setConn cn).conn? c' = w.conn? c' := by
  unfold World.conn? World.setConn
  simp only
  generalize w.conns = l
  induction l with
  | nil => rfl
  | cons a rest ih =>
    simp only [List.map_cons, List.find?_cons]
    by_cases ha : a.id = cn.id
    · have h1 : (cn.id == c') = false := by simp [hid]
      have h2 : (a.id == c') = false := by simp [ha, hid]
      have h3 : (a.id == cn.id) = true := by simp [ha]
      simp only [h3, ↓reduceIte, h1, h2]
      exact ih
    · have h1 : (a.id == cn.id) = false := by simp [ha]
      simp only [h1, Bool.false_eq_true, ↓reduceIte]
      rw [ih]

section
variable {cfg : Cfg} {c : Nat} {new old : Str} {msg : Message} {x : Ctx} {u : User}
  (hauth : (x.conn c).authenticated = true) (hnick : (x.conn c).nick = some old)
  (hne : new ≠ old) (hfree : Map.contains new x.w.users = false)
  (hu : Map.lookup old x.w.users = some u)
include hauth hnick hne hfree hu

theorem processNick_accept_w :
    (processNick cfg c new msg x).w =
      nickWorld old new { u with source := ((x.conn c).setNick new).source }
        (x.w.setConn ((x.conn c).setNick new)) := by
  rw [processNick_accept hauth hnick hne hfree hu]
  simp only
  rw [sendAll_known]
  · rfl
  · intro n hn
    exact (Map.contains_iff _ _).mpr ((Map.mem_keys_iff _ _).mp hn)

theorem processNick_accept_direct : (processNick cfg c new msg x).direct = x.direct := by
  rw [processNick_accept hauth hnick hne hfree hu]
  simp only
  rw [sendAll_known]
  · rfl
  · intro n hn
    exact (Map.contains_iff _ _).mpr ((Map.mem_keys_iff _ _).mp hn)

theorem processNick_accept_queued :
    (processNick cfg c new msg x).queued =
      x.queued ++ (Map.keys (processNick cfg c new msg x).w.users).map
        (fun n => (ownerOf (processNick cfg c new msg x).w n, msg.render (x.conn c).source)) := by
  rw [processNick_accept_w hauth hnick hne hfree hu]
  rw [processNick_accept hauth hnick hne hfree hu]
  simp only
  rw [sendAll_known]
  · rfl
  · intro n hn
    exact (Map.contains_iff _ _).mpr ((Map.mem_keys_iff _ _).mp hn)

end

theorem World.setConn_ids (w : World) (cn : Conn) :
    (w.setConn cn).conns.map (·.id) = w.conns.map (·.id) := by
  unfold World.setConn
  simp only [List.map_map]
  apply List.map_congr_left
  intro a _
  simp only [Function.comp]
  split
  · rename_i h; simp at h; exact h.symm
  · rfl

/-! ### no panic site is hit by an accepted NICK -/

theorem renameInChannels_panicked (old new : Str) (chs : List Str) (w : World) (hnd : chs.Nodup)
    (hall : ∀ ch ∈ chs, ∃ C, Map.lookup ch w.channels = some C ∧ Map.contains old C.users = true) :
    (renameInChannels old new chs w).panicked = w.panicked := by
  rw [renameInChannels_eq]
  induction chs generalizing w with
  | nil => rfl
  | cons a rest ih =>
    simp only [List.foldl_cons]
    obtain ⟨C, hC, hold⟩ := hall a List.mem_cons_self
    obtain ⟨chum, hchum⟩ := (Map.contains_iff _ _).mp hold
    have hstep : renStep old new w a =
        { w with channels := Map.insert a ((C.renameUser old new).getD C) w.channels } := by
      unfold renStep; rw [hC]; simp only; rw [renameUser_some hchum]; rfl
    rw [ih]
    · rw [hstep]
    · exact (List.nodup_cons.mp hnd).2
    · intro ch hch
      have hne : a ≠ ch := by
        intro e; subst e; exact (List.nodup_cons.mp hnd).1 hch
      obtain ⟨C2, hC2, h2⟩ := hall ch (List.mem_cons_of_mem _ hch)
      refine ⟨C2, ?_, h2⟩
      rw [hstep]; simp only
      rw [Map.lookup_insert_ne _ _ _ _ hne]; exact hC2

theorem nickWorld_panicked (old new : Str) (user : User) (w : World) (hnd : user.channels.Nodup)
    (hall : ∀ ch ∈ user.channels,
      ∃ C, Map.lookup ch w.channels = some C ∧ Map.contains old C.users = true) :
    (nickWorld old new user w).panicked = w.panicked := by
  unfold nickWorld World.pushHistory
  simp only
  split <;> exact renameInChannels_panicked old new user.channels _ hnd hall

/-! ### a small concrete world satisfying `InvCore` (for the non-vacuity examples) -/

theorem rank_of_chk (users : Map ChanUserModes) (lst : KSet) (flag : ChanUserModes → Bool)
    (h : (lst.all (fun n => match Map.lookup n users with | some m => flag m | none => false) &&
          users.all (fun p => !flag p.2 || KSet.mem p.1 lst)) = true) :
    ∀ n, KSet.mem n lst = true ↔ ∃ m, Map.lookup n users = some m ∧ flag m = true := by
  rw [Bool.and_eq_true, List.all_eq_true, List.all_eq_true] at h
  obtain ⟨h1, h2⟩ := h
  intro n
  constructor
  · intro hn
    have := h1 n ((KSet.mem_iff _ _).mp hn)
    cases hl : Map.lookup n users with
    | none => rw [hl] at this; cases this
    | some m => rw [hl] at this; exact ⟨m, rfl, this⟩
  · rintro ⟨m, hm, hf⟩
    have := h2 (n, m) (Map.lookup_some_mem hm)
    simpa [hf] using this

theorem rankMirror_of_check {C : Channel} (h : rankMirrorCheck C = true) : RankMirror C := by
  unfold rankMirrorCheck at h
  simp only [Bool.and_eq_true] at h
  obtain ⟨⟨⟨⟨⟨a1, a2⟩, ⟨b1, b2⟩⟩, ⟨c1, c2⟩⟩, ⟨d1, d2⟩⟩, ⟨e1, e2⟩⟩ := h
  exact
    { founders := rank_of_chk _ _ (·.founder) (by rw [Bool.and_eq_true]; exact ⟨a1, a2⟩)
      protecteds := rank_of_chk _ _ (·.prot) (by rw [Bool.and_eq_true]; exact ⟨b1, b2⟩)
      operators := rank_of_chk _ _ (·.operator) (by rw [Bool.and_eq_true]; exact ⟨c1, c2⟩)
      halfOperators := rank_of_chk _ _ (·.halfOper) (by rw [Bool.and_eq_true]; exact ⟨d1, d2⟩)
      voices := rank_of_chk _ _ (·.voice) (by rw [Bool.and_eq_true]; exact ⟨e1, e2⟩) }

namespace Ex

def alice : Str := str "alice"
def bob : Str := str "bob"
def carol : Str := str "carol"
def chan : Str := str "#c"

def uAlice : User :=
  { hostname := str "h1", name := str "al", realname := str "A", source := str "alice!~al@h1",
    modes := { wallops := true, oper := true }, away := some (str "gone"), channels := [chan],
    invitedTo := [str "#inv"], history := ⟨str "al", str "h1", str "A"⟩, owner := 1 }

def uBob : User :=
  { hostname := str "h2", name := str "bo", realname := str "B", source := str "bob!~bo@h2",
    modes := {}, channels := [chan], history := ⟨str "bo", str "h2", str "B"⟩, owner := 2 }

def cChan : Channel :=
  { topic := some ⟨str "t", alice⟩
    modes := { founders := [alice], operators := [alice], voices := [bob], secret := true }
    users := [(alice, { founder := true, operator := true }), (bob, { voice := true })] }

def conn1 : Conn :=
  { id := 1, hostname := str "h1", nick := some alice, name := some (str "al"),
    realname := some (str "A"), source := str "alice!~al@h1", authenticated := true,
    hasSender := false, hasQuitSender := false, hasPingSender := false }

def conn2 : Conn :=
  { id := 2, hostname := str "h2", nick := some bob, name := some (str "bo"),
    realname := some (str "B"), source := str "bob!~bo@h2", authenticated := true,
    hasSender := false, hasQuitSender := false, hasPingSender := false }

def w : World :=
  { users := [(alice, uAlice), (bob, uBob)], channels := [(chan, cChan)], wallops := [alice],
    operatorsCount := 1, maxUsers := 2, conns := [conn1, conn2], connsCount := 2 }

theorem users_cases {n : Str} {u : User} (h : Map.lookup n w.users = some u) :
    (n = alice ∧ u = uAlice) ∨ (n = bob ∧ u = uBob) := by
  have := Map.lookup_some_mem h
  simpa [w] using this

theorem chans_cases {ch : Str} {C : Channel} (h : Map.lookup ch w.channels = some C) :
    ch = chan ∧ C = cChan := by
  have := Map.lookup_some_mem h
  simpa [w] using this

theorem conns_cases {cn : Conn} (h : cn ∈ w.conns) : cn = conn1 ∨ cn = conn2 := by
  simpa [w] using h

theorem inv : InvCore w where
  noPanic := rfl
  usersNodup := by decide
  chansNodup := by decide
  connsNodup := by decide
  membersNodup := by
    intro ch C h; obtain ⟨rfl, rfl⟩ := chans_cases h; decide
  userChansNodup := by
    intro n u h
    rcases users_cases h with ⟨rfl, rfl⟩ | ⟨rfl, rfl⟩ <;> decide
  authOwns := by
    intro cn h _
    rcases conns_cases h with rfl | rfl
    · exact ⟨alice, uAlice, rfl, by decide, rfl⟩
    · exact ⟨bob, uBob, rfl, by decide, rfl⟩
  userOwned := by
    intro n u h
    rcases users_cases h with ⟨rfl, rfl⟩ | ⟨rfl, rfl⟩
    · exact ⟨conn1, by simp [w], rfl, rfl, rfl⟩
    · exact ⟨conn2, by simp [w], rfl, rfl, rfl⟩
  memberSym := by
    intro n u ch h
    have key : KSet.mem ch u.channels = true ↔ ch = chan := by
      rcases users_cases h with ⟨rfl, rfl⟩ | ⟨rfl, rfl⟩ <;>
        simp [KSet.mem_iff, uAlice, uBob]
    rw [key]
    constructor
    · rintro rfl
      rcases users_cases h with ⟨rfl, rfl⟩ | ⟨rfl, rfl⟩
      · exact ⟨cChan, by decide, by decide⟩
      · exact ⟨cChan, by decide, by decide⟩
    · rintro ⟨C, hC, _⟩; exact (chans_cases hC).1
  memberIsUser := by
    intro ch C n hC hn
    obtain ⟨rfl, rfl⟩ := chans_cases hC
    obtain ⟨m, hm⟩ := (Map.contains_iff _ _).mp hn
    have := Map.lookup_some_mem hm
    simp only [cChan, List.mem_cons, Prod.mk.injEq, List.not_mem_nil, or_false] at this
    rcases this with ⟨rfl, _⟩ | ⟨rfl, _⟩ <;> decide
  rankMirror := by
    intro ch C h; obtain ⟨rfl, rfl⟩ := chans_cases h
    exact rankMirror_of_check (by decide)
  noEmptyAdHoc := by
    intro ch C h he; obtain ⟨rfl, rfl⟩ := chans_cases h; cases he
  invisibleCount := by decide
  operatorsCount := by decide
  wallopsSet := by
    intro n
    constructor
    · intro hn
      have : n = alice := by simpa [KSet.mem_iff, w] using hn
      subst this; exact ⟨uAlice, by decide, rfl⟩
    · rintro ⟨u, hu, hw⟩
      rcases users_cases hu with ⟨rfl, rfl⟩ | ⟨rfl, rfl⟩
      · decide
      · cases hw
  maxUsers := by decide
  resources := by
    intro cn h ha
    rcases conns_cases h with rfl | rfl <;> cases ha
  slots := rfl
  killedFlagged := by
    intro n u h hk
    rcases users_cases h with ⟨rfl, rfl⟩ | ⟨rfl, rfl⟩ <;> cases hk

end Ex

/-! ### C16: leaving a channel -/

theorem removeUser_some {C : Channel} {n : Str} (h : Map.contains n C.users = true) :
    C.removeUser n = some { C with
      users := Map.erase n C.users
      modes := { C.modes with
        operators := KSet.erase n C.modes.operators
        halfOperators := KSet.erase n C.modes.halfOperators
        founders := KSet.erase n C.modes.founders
        voices := KSet.erase n C.modes.voices
        protecteds := KSet.erase n C.modes.protecteds } } := by
  unfold Channel.removeUser; simp [h]

theorem removeUser_none {C : Channel} {n : Str} (h : Map.contains n C.users = false) :
    C.removeUser n = none := by
  unfold Channel.removeUser; simp [h]

theorem removeUser_eq_some {C C' : Channel} {n : Str} (h : C.removeUser n = some C') :
    Map.contains n C.users = true := by
  cases hc : Map.contains n C.users with
  | true => rfl
  | false => rw [removeUser_none hc] at h; cases h

/-- what `remove_user_from_channel` does to the channel it names: unchanged if `n` is not a
    member (the Rust code panics there), otherwise `n` is taken out and the channel is dropped
    if it became empty and is not preconfigured -/
def rmOpt (n : Str) (C : Channel) : Option Channel :=
  match C.removeUser n with
  | none => some C
  | some C' => if C'.users.isEmpty && !C'.preconfigured then none else some C'

theorem rmOpt_idem (n : Str) (o : Option Channel) :
    (o.bind (rmOpt n)).bind (rmOpt n) = o.bind (rmOpt n) := by
  cases o with
  | none => rfl
  | some C =>
    simp only [Option.bind_some]
    unfold rmOpt
    cases h : C.removeUser n with
    | none => simp [h]
    | some C' =>
      simp only
      split
      · rfl
      · simp only [Option.bind_some]
        have hc := removeUser_eq_some h
        rw [removeUser_some hc] at h
        cases h
        have : Map.contains n (Map.erase n C.users) = false := by
          rw [Map.contains_false_iff]; simp
        rw [removeUser_none (by simpa using this)]

section
variable (w : World) (ch n : Str)

theorem rufc_users : (w.removeUserFromChannel ch n).users =
    Map.modify n (fun u => { u with channels := KSet.erase ch u.channels }) w.users := by
  unfold World.removeUserFromChannel
  simp only
  split
  · split
    · rfl
    · split <;> rfl
  · rfl

theorem rufc_frame :
    (w.removeUserFromChannel ch n).wallops = w.wallops ∧
    (w.removeUserFromChannel ch n).histories = w.histories ∧
    (w.removeUserFromChannel ch n).conns = w.conns ∧
    (w.removeUserFromChannel ch n).invisibleCount = w.invisibleCount ∧
    (w.removeUserFromChannel ch n).operatorsCount = w.operatorsCount ∧
    (w.removeUserFromChannel ch n).maxUsers = w.maxUsers ∧
    (w.removeUserFromChannel ch n).connsCount = w.connsCount ∧
    (w.removeUserFromChannel ch n).srvQuit = w.srvQuit ∧
    (w.removeUserFromChannel ch n).cmdCounts = w.cmdCounts := by
  unfold World.removeUserFromChannel
  simp only
  split
  · split
    · exact ⟨rfl, rfl, rfl, rfl, rfl, rfl, rfl, rfl, rfl⟩
    · split <;> exact ⟨rfl, rfl, rfl, rfl, rfl, rfl, rfl, rfl, rfl⟩
  · exact ⟨rfl, rfl, rfl, rfl, rfl, rfl, rfl, rfl, rfl⟩

theorem rufc_lookup (k : Str) :
    Map.lookup k (w.removeUserFromChannel ch n).channels =
      if k = ch then (Map.lookup k w.channels).bind (rmOpt n) else Map.lookup k w.channels := by
  unfold World.removeUserFromChannel
  simp only
  by_cases e : k = ch
  · subst e
    simp only [↓reduceIte]
    cases h : Map.lookup k w.channels with
    | none => simp [h]
    | some C =>
      simp only [Option.bind_some, rmOpt]
      cases h2 : C.removeUser n with
      | none => simp [h]
      | some C' =>
        simp only
        split <;> simp
  · simp only [e, ↓reduceIte]
    split
    · split
      · rfl
      · split
        · simp only; rw [Map.lookup_erase_ne _ _ _ (Ne.symm e)]
        · simp only; rw [Map.lookup_insert_ne _ _ _ _ (Ne.symm e)]
    · rfl

/-- the panic flag is raised by `remove_user_from_channel` only when the channel exists and
    `n` is not a member -/
theorem rufc_panicked (h : ∀ C, Map.lookup ch w.channels = some C → Map.contains n C.users = true) :
    (w.removeUserFromChannel ch n).panicked = w.panicked := by
  unfold World.removeUserFromChannel
  simp only
  split
  · rename_i C hC
    rw [removeUser_some (h C hC)]
    simp only
    split <;> rfl
  · rfl

end

theorem rufc_fold_lookup (n : Str) (chs : List Str) (w : World) (k : Str) :
    Map.lookup k (chs.foldl (fun w c => w.removeUserFromChannel c n) w).channels =
      if k ∈ chs then (Map.lookup k w.channels).bind (rmOpt n) else Map.lookup k w.channels := by
  induction chs generalizing w with
  | nil => simp
  | cons a rest ih =>
    simp only [List.foldl_cons, List.mem_cons]
    rw [ih, rufc_lookup]
    by_cases e : k = a
    · subst e
      simp only [↓reduceIte, true_or]
      split
      · exact rmOpt_idem n _
      · rfl
    · simp [e]

theorem rufc_fold_users (n : Str) (chs : List Str) (w : World) (h : Map.lookup n w.users = none) :
    (chs.foldl (fun w c => w.removeUserFromChannel c n) w).users = w.users := by
  induction chs generalizing w with
  | nil => rfl
  | cons a rest ih =>
    simp only [List.foldl_cons]
    have hu : (w.removeUserFromChannel a n).users = w.users := by
      rw [rufc_users, Map.modify_of_lookup_none h]
    rw [ih _ (by rw [hu]; exact h), hu]

theorem rufc_fold_frame (n : Str) (chs : List Str) (w : World) :
    (chs.foldl (fun w c => w.removeUserFromChannel c n) w).wallops = w.wallops ∧
    (chs.foldl (fun w c => w.removeUserFromChannel c n) w).histories = w.histories ∧
    (chs.foldl (fun w c => w.removeUserFromChannel c n) w).conns = w.conns := by
  induction chs generalizing w with
  | nil => exact ⟨rfl, rfl, rfl⟩
  | cons a rest ih =>
    simp only [List.foldl_cons]
    have f := rufc_frame w a n
    have := ih (w.removeUserFromChannel a n)
    rw [f.1, f.2.1, f.2.2.1] at this
    exact this

/-! ### `World.removeUser` -/

theorem removeUser_of_none {w : World} {n : Str} (h : Map.lookup n w.users = none) :
    w.removeUser n = w := by
  unfold World.removeUser; rw [h]

/-- the bookkeeping part of `remove_user` (user entry, counters, wallops set) -/
def removeUserPre (w : World) (nick : Str) (user : User) : World :=
  let w := { w with users := Map.erase nick w.users }
  let w := if user.modes.isLocalOper then
      (if w.operatorsCount = 0 then w.panic "remove_user: operators_count underflow"
       else { w with operatorsCount := w.operatorsCount - 1 })
    else w
  let w := if user.modes.invisible then
      (if w.invisibleCount = 0 then w.panic "remove_user: invisible_users_count underflow"
       else { w with invisibleCount := w.invisibleCount - 1 })
    else w
  { w with wallops := KSet.erase nick w.wallops }

theorem removeUser_eq {w : World} {n : Str} {user : User} (h : Map.lookup n w.users = some user) :
    w.removeUser n =
      (user.channels.foldl (fun w chn => w.removeUserFromChannel chn n)
        (removeUserPre w n user)).pushHistory n user.history := by
  unfold World.removeUser; rw [h]; rfl

theorem removeUserPre_users (w : World) (n : Str) (user : User) :
    (removeUserPre w n user).users = Map.erase n w.users := by
  unfold removeUserPre; simp only
  repeat' split
  all_goals rfl

theorem removeUserPre_channels (w : World) (n : Str) (user : User) :
    (removeUserPre w n user).channels = w.channels := by
  unfold removeUserPre; simp only
  repeat' split
  all_goals rfl

theorem removeUserPre_wallops (w : World) (n : Str) (user : User) :
    (removeUserPre w n user).wallops = KSet.erase n w.wallops := by
  unfold removeUserPre; simp only
  repeat' split
  all_goals rfl

theorem removeUserPre_histories (w : World) (n : Str) (user : User) :
    (removeUserPre w n user).histories = w.histories := by
  unfold removeUserPre; simp only
  repeat' split
  all_goals rfl

theorem removeUserPre_conns (w : World) (n : Str) (user : User) :
    (removeUserPre w n user).conns = w.conns := by
  unfold removeUserPre; simp only
  repeat' split
  all_goals rfl

theorem removeUser_lookup_channel {w : World} {n : Str} {user : User}
    (h : Map.lookup n w.users = some user) (k : Str) :
    Map.lookup k (w.removeUser n).channels =
      if k ∈ user.channels then (Map.lookup k w.channels).bind (rmOpt n)
      else Map.lookup k w.channels := by
  rw [removeUser_eq h]
  show Map.lookup k (user.channels.foldl (fun w chn => w.removeUserFromChannel chn n)
        (removeUserPre w n user)).channels = _
  rw [rufc_fold_lookup, removeUserPre_channels]

theorem removeUser_users {w : World} {n : Str} {user : User}
    (h : Map.lookup n w.users = some user) :
    (w.removeUser n).users = Map.erase n w.users := by
  rw [removeUser_eq h]
  show (user.channels.foldl (fun w chn => w.removeUserFromChannel chn n)
        (removeUserPre w n user)).users = _
  rw [rufc_fold_users, removeUserPre_users]
  rw [removeUserPre_users]; simp

theorem removeUser_wallops {w : World} {n : Str} {user : User}
    (h : Map.lookup n w.users = some user) :
    (w.removeUser n).wallops = KSet.erase n w.wallops := by
  rw [removeUser_eq h]
  show (user.channels.foldl (fun w chn => w.removeUserFromChannel chn n)
        (removeUserPre w n user)).wallops = _
  rw [(rufc_fold_frame _ _ _).1, removeUserPre_wallops]

theorem removeUser_histories {w : World} {n : Str} {user : User}
    (h : Map.lookup n w.users = some user) :
    (w.removeUser n).histories =
      Map.insert n ((Map.lookup n w.histories).getD [] ++ [user.history]) w.histories := by
  rw [removeUser_eq h]
  unfold World.pushHistory
  simp only
  rw [(rufc_fold_frame _ _ _).2.1, removeUserPre_histories]

theorem removeUser_conns (w : World) (n : Str) : (w.removeUser n).conns = w.conns := by
  cases h : Map.lookup n w.users with
  | none => rw [removeUser_of_none h]
  | some user =>
    rw [removeUser_eq h]
    show (user.channels.foldl (fun w chn => w.removeUserFromChannel chn n)
          (removeUserPre w n user)).conns = _
    rw [(rufc_fold_frame _ _ _).2.2, removeUserPre_conns]

/-! ### C16: joining -/

/-- one round of the insert loop of `process_join` -/
def joinStep (nick : Str) (w : World) (d : Bool × Bool) (chn : Str) : World :=
  if d.1 then
    let w := { w with users := Map.modify nick (fun u =>
                { u with channels := KSet.insert chn u.channels
                         invitedTo := KSet.erase chn u.invitedTo }) w.users }
    if d.2 then
      { w with channels := Map.insert chn (Channel.newOnUserJoin nick) w.channels }
    else
      match Map.lookup chn w.channels with
      | some ch => { w with channels := Map.insert chn (ch.addUser nick) w.channels }
      | none => w.panic "join: channel vanished"
  else w

theorem joinApply_cons (nick : Str) (d : Bool × Bool) (ds : List (Bool × Bool)) (chn : Str)
    (chs : List Str) (w : World) :
    joinApply nick (d :: ds) (chn :: chs) w = joinApply nick ds chs (joinStep nick w d chn) := by
  obtain ⟨j, c⟩ := d
  rfl

theorem joinApply_nil_left (nick : Str) (chs : List Str) (w : World) :
    joinApply nick [] chs w = w := by
  unfold joinApply; rfl

theorem joinApply_nil_right (nick : Str) (ds : List (Bool × Bool)) (w : World) :
    joinApply nick ds [] w = w := by
  cases ds <;> rfl

theorem joinStep_lookup (nick : Str) (w : World) (d : Bool × Bool) (chn k : Str) :
    Map.lookup k (joinStep nick w d chn).channels =
      if k = chn ∧ d.1 = true then
        (if d.2 then some (Channel.newOnUserJoin nick)
         else (Map.lookup k w.channels).map (fun C => C.addUser nick))
      else Map.lookup k w.channels := by
  unfold joinStep
  obtain ⟨j, c⟩ := d
  cases j with
  | false => simp
  | true =>
    simp only [↓reduceIte, and_true]
    by_cases e : k = chn
    · subst e
      cases c with
      | true => simp
      | false =>
        simp only [Bool.false_eq_true, ↓reduceIte]
        cases h : Map.lookup k w.channels with
        | none => simp [h]
        | some C => simp
    · simp only [e, ↓reduceIte]
      cases c with
      | true => simp only [↓reduceIte]; rw [Map.lookup_insert_ne _ _ _ _ (Ne.symm e)]
      | false =>
        simp only [Bool.false_eq_true, ↓reduceIte]
        split
        · simp only; rw [Map.lookup_insert_ne _ _ _ _ (Ne.symm e)]
        · rfl

theorem joinStep_user (nick : Str) (w : World) (d : Bool × Bool) (chn k : Str) :
    Map.lookup k (joinStep nick w d chn).users =
      if k = nick ∧ d.1 = true then
        (Map.lookup k w.users).map (fun u =>
          { u with channels := KSet.insert chn u.channels, invitedTo := KSet.erase chn u.invitedTo })
      else Map.lookup k w.users := by
  unfold joinStep
  obtain ⟨j, c⟩ := d
  cases j with
  | false => simp
  | true =>
    simp only [↓reduceIte, and_true]
    have : ∀ w' : World, w'.users = Map.modify nick (fun u =>
          { u with channels := KSet.insert chn u.channels
                   invitedTo := KSet.erase chn u.invitedTo }) w.users →
        Map.lookup k w'.users = if k = nick then (Map.lookup k w.users).map (fun u =>
          { u with channels := KSet.insert chn u.channels, invitedTo := KSet.erase chn u.invitedTo })
          else Map.lookup k w.users := by
      intro w' hw'
      rw [hw', Map.lookup_modify]
      by_cases e : k = nick
      · simp [e]
      · simp [e, Ne.symm e]
    apply this
    cases c with
    | true => rfl
    | false =>
      simp only [Bool.false_eq_true, ↓reduceIte]
      split <;> rfl

theorem joinApply_lookup_notin (nick : Str) (ds : List (Bool × Bool)) (chs : List Str) (w : World)
    (k : Str) (h : k ∉ chs) :
    Map.lookup k (joinApply nick ds chs w).channels = Map.lookup k w.channels := by
  induction ds generalizing chs w with
  | nil => rw [joinApply_nil_left]
  | cons d ds ih =>
    cases chs with
    | nil => rw [joinApply_nil_right]
    | cons chn chs =>
      rw [joinApply_cons, ih _ _ (fun hk => h (List.mem_cons_of_mem _ hk)), joinStep_lookup]
      have : k ≠ chn := fun e => h (e ▸ List.mem_cons_self)
      simp [this]

theorem joinApply_append (nick : Str) (dpre ds : List (Bool × Bool)) (pre chs : List Str) (w : World)
    (hlen : dpre.length = pre.length) :
    joinApply nick (dpre ++ ds) (pre ++ chs) w = joinApply nick ds chs (joinApply nick dpre pre w) := by
  induction dpre generalizing pre w with
  | nil =>
    cases pre with
    | nil => simp [joinApply_nil_left]
    | cons _ _ => simp at hlen
  | cons d dpre ih =>
    cases pre with
    | nil => simp at hlen
    | cons p pre =>
      simp only [List.cons_append, joinApply_cons]
      exact ih pre _ (by simpa using hlen)

/-- the joiner's channel set only grows during the insert loop -/
theorem joinApply_user_mono (nick : Str) (ds : List (Bool × Bool)) (chs : List Str) (w : World)
    (u : User) (hu : Map.lookup nick w.users = some u) :
    ∃ u', Map.lookup nick (joinApply nick ds chs w).users = some u' ∧
      ∀ c, KSet.mem c u.channels = true → KSet.mem c u'.channels = true := by
  induction ds generalizing chs w u with
  | nil => rw [joinApply_nil_left]; exact ⟨u, hu, fun _ h => h⟩
  | cons d ds ih =>
    cases chs with
    | nil => rw [joinApply_nil_right]; exact ⟨u, hu, fun _ h => h⟩
    | cons chn chs =>
      rw [joinApply_cons]
      have hs := joinStep_user nick w d chn nick
      rw [hu] at hs
      by_cases hj : d.1 = true
      · simp only [hj, and_self, ↓reduceIte, Option.map_some] at hs
        obtain ⟨u', hu', hmono⟩ := ih chs _ _ hs
        refine ⟨u', hu', fun c hc => hmono c ?_⟩
        simp only [KSet.mem_insert, hc, Bool.or_true]
      · simp [hj] at hs
        exact ih chs _ _ hs

/-! ### C16: `Channel.addUser` -/

/-- one rank list stays the mirror of its member flag when a new member is added with the
    flag `b` and, if `b`, its name is put on the list -/
theorem rank_add {users : Map ChanUserModes} {nick : Str} (f : ChanUserModes → Bool) (s : KSet)
    (b : Bool) (chum : ChanUserModes) (hf : f chum = b) (hnew : Map.lookup nick users = none)
    (hm : ∀ n, KSet.mem n s = true ↔ ∃ m, Map.lookup n users = some m ∧ f m = true) :
    ∀ n, KSet.mem n (if b then KSet.insert nick s else s) = true ↔
      ∃ m, Map.lookup n (Map.insert nick chum users) = some m ∧ f m = true := by
  have hnot : KSet.mem nick s = false := by
    cases hq : KSet.mem nick s with
    | false => rfl
    | true => obtain ⟨m, hm1, _⟩ := (hm nick).mp hq; rw [hnew] at hm1; cases hm1
  intro n
  by_cases e : n = nick
  · subst e
    rw [Map.lookup_insert_eq]
    cases b with
    | true => simp [KSet.mem_insert_self, hf]
    | false => simp [hnot, hf]
  · rw [Map.lookup_insert_ne _ _ _ _ (Ne.symm e)]
    cases b with
    | true => simp only [↓reduceIte]; rw [KSet.mem_insert_ne _ e]; exact hm n
    | false => simp only [Bool.false_eq_true, ↓reduceIte]; exact hm n

/-! ### C16: the start-up world -/

/-- the channel `new_from_config` makes of one `[[channels]]` entry -/
def chanOfCfg (c : ChanCfg) : Channel :=
  { topic := c.topic.map (fun t => { topic := t, nick := [] })
    modes := { c.modes with operators := [], halfOperators := [], voices := [],
                            founders := [], protecteds := [] }
    defaultModes := { operators := c.modes.operators, halfOperators := c.modes.halfOperators,
                      voices := c.modes.voices, founders := c.modes.founders,
                      protecteds := c.modes.protecteds }
    preconfigured := true }

theorem init_channels (cfg : Cfg) :
    (World.init cfg).channels =
      cfg.channels.foldl (fun m c => Map.insert c.name (chanOfCfg c) m) [] := rfl

theorem init_lookup (cfg : Cfg) (k : Str) :
    Map.lookup k (World.init cfg).channels =
      (cfg.channels.reverse.find? (fun c => c.name == k)).map chanOfCfg := by
  rw [init_channels, Map.lookup_foldl_insert (fun c : ChanCfg => c.name) chanOfCfg]
  cases cfg.channels.reverse.find? (fun c => c.name == k) <;> rfl

/-! ### C16: `rmOpt` on a member -/

/-- `C` with the member `n` taken out of the member map and the five rank lists -/
def Channel.without (C : Channel) (n : Str) : Channel :=
  { C with
    users := Map.erase n C.users
    modes := { C.modes with
      operators := KSet.erase n C.modes.operators
      halfOperators := KSet.erase n C.modes.halfOperators
      founders := KSet.erase n C.modes.founders
      voices := KSet.erase n C.modes.voices
      protecteds := KSet.erase n C.modes.protecteds } }

theorem rmOpt_of_member {C : Channel} {n : Str} (h : Map.contains n C.users = true) :
    rmOpt n C = if (Map.erase n C.users).isEmpty && !C.preconfigured then none
                else some (C.without n) := by
  unfold rmOpt; rw [removeUser_some h]; rfl

theorem rmOpt_of_not_member {C : Channel} {n : Str} (h : Map.contains n C.users = false) :
    rmOpt n C = some C := by
  unfold rmOpt; rw [removeUser_none h]

theorem erase_isEmpty_iff (n : Str) (m : Map ChanUserModes) :
    (Map.erase n m).isEmpty = true ↔ ∀ k, Map.contains k m = true → k = n := by
  rw [List.isEmpty_iff, Map.erase_eq_nil_iff]

/-! ### C16: PART and KICK are folds of `remove_user_from_channel` -/

/-- two worlds with the same users and channels -/
def SameUC (w1 w2 : World) : Prop := w1.channels = w2.channels ∧ w1.users = w2.users

theorem SameUC.refl (w : World) : SameUC w w := ⟨rfl, rfl⟩
theorem SameUC.trans {a b c : World} (h1 : SameUC a b) (h2 : SameUC b c) : SameUC a c :=
  ⟨h1.1.trans h2.1, h1.2.trans h2.2⟩
theorem SameUC.symm {a b : World} (h : SameUC a b) : SameUC b a := ⟨h.1.symm, h.2.symm⟩

/-- the channel map after `remove_user_from_channel`, as a function of the channel map -/
def rufcChannels (chans : Map Channel) (ch n : Str) : Map Channel :=
  match Map.lookup ch chans with
  | some C =>
    match C.removeUser n with
    | none => chans
    | some C' =>
      if C'.users.isEmpty && !C'.preconfigured then Map.erase ch chans else Map.insert ch C' chans
  | none => chans

theorem rufc_channels (w : World) (ch n : Str) :
    (w.removeUserFromChannel ch n).channels = rufcChannels w.channels ch n := by
  unfold World.removeUserFromChannel rufcChannels
  simp only
  cases Map.lookup ch w.channels with
  | none => rfl
  | some C =>
    simp only
    cases C.removeUser n with
    | none => rfl
    | some C' => simp only; split <;> rfl

theorem rufc_congr {w1 w2 : World} (h : SameUC w1 w2) (ch n : Str) :
    SameUC (w1.removeUserFromChannel ch n) (w2.removeUserFromChannel ch n) := by
  constructor
  · rw [rufc_channels, rufc_channels, h.1]
  · rw [rufc_users, rufc_users, h.2]

theorem foldl_sameUC {α : Type} (f : Ctx → α → Ctx) (hf : ∀ x a, SameUC (f x a).w x.w)
    (l : List α) (x : Ctx) : SameUC (l.foldl f x).w x.w := by
  induction l generalizing x with
  | nil => exact SameUC.refl _
  | cons a rest ih => exact (ih (f x a)).trans (hf x a)

theorem sendDisplay_sameUC (x : Ctx) (n src t : Str) : SameUC (x.sendDisplay n src t).w x.w :=
  ⟨Ctx.sendDisplay_channels x t src n, Ctx.sendDisplay_users x t src n⟩

/-- one round of PART on the world -/
def partStep (nick : Str) (w : World) (chn : Str) : World :=
  match Map.lookup chn w.channels with
  | some ch => if Map.contains nick ch.users then w.removeUserFromChannel chn nick else w
  | none => w

theorem partStep_congr {w1 w2 : World} (h : SameUC w1 w2) (nick chn : Str) :
    SameUC (partStep nick w1 chn) (partStep nick w2 chn) := by
  unfold partStep
  rw [h.1]
  split
  · split
    · exact rufc_congr h _ _
    · exact h
  · exact h

theorem processPart_world {cfg : Cfg} {c : Nat} {chans : List Str} {reason : Option Str} {x : Ctx}
    {nick : Str} (hnick : (x.conn c).nick = some nick) :
    SameUC (processPart cfg c chans reason x).w (chans.foldl (partStep nick) x.w) := by
  unfold processPart
  simp only [hnick]
  generalize x.conn c = cn
  have key : ∀ (pm : Str → Str) (chans : List Str) (x : Ctx) (w : World), SameUC x.w w →
      SameUC (chans.foldl (fun x chn =>
        match Map.lookup chn x.w.channels with
        | some ch =>
          if Map.contains nick ch.users then
            ((Map.keys ch.users).foldl (fun x n => x.sendDisplay n cn.source (pm chn)) x).modifyW
              (fun w => w.removeUserFromChannel chn nick)
          else x.reply cfg (Reply.ErrNotOnChannel442 cn.clientName chn)
        | none => x.reply cfg (Reply.ErrNoSuchChannel403 cn.clientName chn)) x).w
        (chans.foldl (partStep nick) w) := by
    intro pm chans
    induction chans with
    | nil => intro x w h; exact h
    | cons a rest ih =>
      intro x w h
      simp only [List.foldl_cons]
      apply ih
      unfold partStep
      rw [← h.1]
      split
      · split
        · simp only [Ctx.modifyW_w]
          apply rufc_congr
          exact (foldl_sameUC _ (fun x n => sendDisplay_sameUC x n _ _) _ x).trans h
        · exact h
      · exact h
  have fin : ∀ (y : Ctx) (s : String),
      SameUC (if Map.contains nick y.w.users then y else y.panic s).w y.w := by
    intro y s; split <;> exact ⟨rfl, rfl⟩
  exact (fin _ _).trans (key (fun chn => match reason with
      | some r => str "PART " ++ chn ++ str " :" ++ r
      | none => str "PART " ++ chn) chans x x.w (SameUC.refl _))

theorem processKick_world {cfg : Cfg} {c : Nat} {channel : Str} {kickUsers : List Str}
    {comment : Option Str} {x : Ctx} {nick : Str} {ch : Channel} {chum : ChanUserModes}
    (hnick : (x.conn c).nick = some nick) (hC : Map.lookup channel x.w.channels = some ch)
    (hchum : Map.lookup nick ch.users = some chum) (hhalf : chum.isHalfOperator = true) :
    SameUC (processKick cfg c channel kickUsers comment x).w
      ((kickSelect (x.conn c).clientName channel ch chum.isOnlyHalfOperator kickUsers []).1.foldl
        (fun w ku => w.removeUserFromChannel channel ku) x.w) := by
  unfold processKick
  simp only [hnick, hC, hchum, hhalf, ↓reduceIte]
  generalize kickSelect (x.conn c).clientName channel ch chum.isOnlyHalfOperator kickUsers [] = p
  obtain ⟨kicked, errs⟩ := p
  simp only
  refine (foldl_sameUC _ ?_ kicked _).trans ?_
  · intro y ku
    exact (sendDisplay_sameUC _ _ _ _).trans
      (foldl_sameUC _ (fun x n => sendDisplay_sameUC x n _ _) _ y)
  · simp only [Ctx.modifyW_w]
    have : (errs.foldl (fun x e => x.reply cfg e) x).w = x.w := by
      generalize x = y
      induction errs generalizing y with
      | nil => rfl
      | cons e es ih => simp only [List.foldl_cons]; rw [ih]; rfl
    rw [this]
    exact SameUC.refl _

end Irc
