/-
  Property C07 — JOIN admission.

  "A JOIN to an existing channel by a non-member succeeds if and only if the supplied key
   equals the channel key (+k) when one is set, the user's nick!user@host matches no ban mask
   (+b) or matches an exception mask (+e), the channel is not invite-only (+i) or the user
   holds a pending invitation or matches an invite-exception mask (+I), the member count is
   below the limit (+l) when one is set, and the user is in fewer than max_joins channels.
   A refused JOIN changes nothing, is not announced and is answered with the matching error
   (475, 474, 473, 471, 405); an accepted JOIN makes the user a member, uses up the invitation
   and is announced to every member."

  Findings / oddities of the code (each with a kernel-checked instance in section 6):
  * `join_double_error` — the quota test is made for EVERY listed channel, also when the
       channel-level test has already refused (or the user is already a member): such a channel
       is answered with two error lines (e.g. 471 and 405), see `join_quota`.
  * `join_member_error` — the membership test comes LAST: a user who is already on a +k channel
       and re-joins without the key gets 475 (similarly 474/473/471); only a member that passes
       all four tests is ignored silently, see `join_member`.
  * `join_duplicate` — a channel listed twice in one JOIN is accepted twice (both decisions use
       the pre-state): it counts twice against max_joins and is announced twice.

  Model: `joinCheckExisting`, `joinDecide`, `joinApply`, `joinAnnounce`, `processJoin`
  (Irc/HChannel.lean).  Spec: `Spec.*` below, written over `glob` (Irc/Wildcard.lean) and list
  membership.  Helper lemmas: `Irc/Props/C07Lemmas.lean`.  All theorems are for ALL channels,
  mask lists, keys, worlds and channel lists (no bounds).
-/
import Irc.Props.C07Lemmas
namespace Irc.C07
open Irc Irc.Reply

/-! ## 1. The specification -/

namespace Spec

/-- what the admission test of ONE existing channel looks at -/
structure Request where
  /-- the channel as it is before the JOIN -/
  C : Channel
  /-- its name -/
  chname : Str
  /-- the key supplied for this channel, if any -/
  key : Option Str
  /-- the joining user's `nick!user@host` -/
  source : Str
  /-- the joining user's pending invitations -/
  invited : KSet

/-- the reasons of refusal, one per numeric -/
inductive Refusal
  | badKey | banned | inviteOnly | full | tooMany
  deriving DecidableEq, Repr

def Refusal.numeric : Refusal → Nat
  | .badKey => 475 | .banned => 474 | .inviteOnly => 473 | .full => 471 | .tooMany => 405

/-- the text of the error reply (without the `:server ` prefix) -/
def Refusal.line (r : Refusal) (client chname : Str) : Str :=
  match r with
  | .badKey => str "475 " ++ client ++ str " " ++ chname ++ str " :Cannot join channel (+k)"
  | .banned => str "474 " ++ client ++ str " " ++ chname ++ str " :Cannot join channel (+b)"
  | .inviteOnly => str "473 " ++ client ++ str " " ++ chname ++ str " :Cannot join channel (+i)"
  | .full => str "471 " ++ client ++ str " " ++ chname ++ str " :Cannot join channel (+l)"
  | .tooMany => str "405 " ++ client ++ str " " ++ chname ++ str " :You have joined too many channels"

/-- `source` matches (glob semantics) one of the masks -/
def matchesAny (masks : KSet) (source : Str) : Bool := masks.any (fun m => glob m source)

/-- "the supplied key equals the channel key (+k) when one is set" -/
def keyOk (r : Request) : Bool :=
  match r.C.modes.key with
  | none => true
  | some k => decide (r.key = some k)

/-- "nick!user@host matches no ban mask (+b) or matches an exception mask (+e)" -/
def notBanned (r : Request) : Bool :=
  !(matchesAny r.C.modes.ban r.source) || matchesAny r.C.modes.exception r.source

/-- "the channel is not invite-only (+i) or the user holds a pending invitation or matches an
    invite-exception mask (+I)" -/
def inviteOk (r : Request) : Bool :=
  !r.C.modes.inviteOnly || decide (r.chname ∈ r.invited) ||
    matchesAny r.C.modes.inviteException r.source

/-- "the member count is below the limit (+l) when one is set" -/
def notFull (r : Request) : Bool :=
  match r.C.modes.clientLimit with
  | none => true
  | some l => decide (r.C.users.length < l)

/-- all four channel-level conditions -/
def admitted (r : Request) : Bool := keyOk r && notBanned r && inviteOk r && notFull r

/-- the verdict: admitted, or the FIRST failing condition in the order key, ban, invite, limit -/
def admit (r : Request) : Except Refusal Unit :=
  if !keyOk r then .error .badKey
  else if !notBanned r then .error .banned
  else if !inviteOk r then .error .inviteOnly
  else if !notFull r then .error .full
  else .ok ()

/-- "the user is in fewer than max_joins channels" (`joinedSoFar` includes the channels
    accepted earlier in the same JOIN) -/
def quotaOk (cfg : Cfg) (joinedSoFar : Nat) : Bool :=
  match cfg.maxJoins with
  | none => true
  | some mj => decide (joinedSoFar < mj)

/-- the decision for one listed channel -/
structure Decision where
  join : Bool
  create : Bool
  errs : List Str

/-- the channel-level verdict for one listed channel `chn`, against the world `w`:
    a non-existing channel is always admissible (it will be created); an existing one admits
    a non-member that passes the four conditions. -/
def chanOk (w : World) (source nick : Str) (invited : KSet) (chn : Str) (key : Option Str) : Bool :=
  match Map.lookup chn w.channels with
  | none => true
  | some C =>
    admitted { C := C, chname := chn, key := key, source := source, invited := invited } &&
      !(Map.contains nick C.users)

/-- the channel-level error reply for one listed channel (at most one line) -/
def chanErrs (w : World) (source client : Str) (invited : KSet) (chn : Str) (key : Option Str) :
    List Str :=
  match Map.lookup chn w.channels with
  | none => []
  | some C =>
    match admit { C := C, chname := chn, key := key, source := source, invited := invited } with
    | .ok _ => []
    | .error e => [e.line client chn]

/-- The decision for ONE listed channel `chn`, taken against the world `w` as it is BEFORE the
    JOIN, with `cnt` = number of channels the user is in, counting those accepted earlier in
    the same command. -/
def decideOne (cfg : Cfg) (w : World) (source nick client : Str) (invited : KSet)
    (chn : Str) (key : Option Str) (cnt : Nat) : Decision :=
  { join := chanOk w source nick invited chn key && quotaOk cfg cnt
    create := (Map.lookup chn w.channels).isNone
    errs := chanErrs w source client invited chn key ++
      if quotaOk cfg cnt then [] else [Refusal.tooMany.line client chn] }

/-! ### the spec in logical form (what the Boolean definitions mean) -/

theorem keyOk_iff (r : Request) :
    keyOk r = true ↔ ∀ k, r.C.modes.key = some k → r.key = some k := by
  unfold keyOk
  cases r.C.modes.key <;> simp

theorem matchesAny_iff (masks : KSet) (s : Str) :
    matchesAny masks s = true ↔ ∃ m ∈ masks, C14.Matches m s := by
  simp only [matchesAny, List.any_eq_true, C14.glob_iff_Matches]

theorem notBanned_iff (r : Request) :
    notBanned r = true ↔
      (¬ ∃ b ∈ r.C.modes.ban, C14.Matches b r.source) ∨
      (∃ e ∈ r.C.modes.exception, C14.Matches e r.source) := by
  simp only [notBanned, Bool.or_eq_true, Bool.not_eq_true', ← matchesAny_iff,
    Bool.not_eq_true]

theorem inviteOk_iff (r : Request) :
    inviteOk r = true ↔
      r.C.modes.inviteOnly = false ∨ r.chname ∈ r.invited ∨
      (∃ e ∈ r.C.modes.inviteException, C14.Matches e r.source) := by
  simp only [inviteOk, Bool.or_eq_true, Bool.not_eq_true', decide_eq_true_eq, ← matchesAny_iff,
    or_assoc]

theorem notFull_iff (r : Request) :
    notFull r = true ↔ ∀ l, r.C.modes.clientLimit = some l → r.C.users.length < l := by
  unfold notFull
  cases r.C.modes.clientLimit <;> simp

theorem quotaOk_iff (cfg : Cfg) (n : Nat) :
    quotaOk cfg n = true ↔ ∀ mj, cfg.maxJoins = some mj → n < mj := by
  unfold quotaOk
  cases cfg.maxJoins <;> simp

theorem admit_ok_iff (r : Request) :
    admit r = .ok () ↔
      keyOk r = true ∧ notBanned r = true ∧ inviteOk r = true ∧ notFull r = true := by
  unfold admit
  cases keyOk r <;> cases notBanned r <;> cases inviteOk r <;> cases notFull r <;> simp

theorem admit_ok_iff_admitted (r : Request) : admit r = .ok () ↔ admitted r = true := by
  simp only [admit_ok_iff, admitted, Bool.and_eq_true, and_assoc]

/-- the refusal is the FIRST failing condition -/
theorem admit_error_iff (r : Request) (e : Refusal) :
    admit r = .error e ↔
      (e = .badKey ∧ keyOk r = false) ∨
      (e = .banned ∧ keyOk r = true ∧ notBanned r = false) ∨
      (e = .inviteOnly ∧ keyOk r = true ∧ notBanned r = true ∧ inviteOk r = false) ∨
      (e = .full ∧ keyOk r = true ∧ notBanned r = true ∧ inviteOk r = true ∧
        notFull r = false) := by
  unfold admit
  cases keyOk r <;> cases notBanned r <;> cases inviteOk r <;> cases notFull r <;>
    cases e <;> simp

/-- the channel-level verdict is never 405 -/
theorem admit_ne_tooMany (r : Request) : admit r ≠ .error .tooMany := by
  intro h
  have := (admit_error_iff r .tooMany).mp h
  simp at this

/-- the reply texts are those of the server's reply table -/
theorem line_eq (client chname : Str) :
    Refusal.badKey.line client chname = ErrBadChannelKey475 client chname ∧
    Refusal.banned.line client chname = ErrBannedFromChan474 client chname ∧
    Refusal.inviteOnly.line client chname = ErrInviteOnlyChan473 client chname ∧
    Refusal.full.line client chname = ErrChannelIsFull471 client chname ∧
    Refusal.tooMany.line client chname = ErrTooManyChannels405 client chname :=
  ⟨rfl, rfl, rfl, rfl, rfl⟩

theorem line_take3 (e : Refusal) (c n : Str) :
    (e.line c n).take 3 = (toString e.numeric).toList := by
  cases e <;> rfl

/-- distinct refusals have distinct reply texts (they differ within the numeric) -/
theorem line_injective (e e' : Refusal) (c n c' n' : Str) (h : e.line c n = e'.line c' n') :
    e = e' := by
  have h3 := congrArg (List.take 3) h
  rw [line_take3, line_take3] at h3
  revert h3
  cases e <;> cases e' <;> decide

end Spec

/-- the request the model's `joinCheckExisting` answers.  The model's key argument is
    `none` (no key list given) or `some k` (the list entry at the channel's position). -/
def req (ch : Channel) (chname : Str) (key : Option (Option Str)) (source : Str)
    (invitedTo : KSet) : Spec.Request :=
  { C := ch, chname := chname, key := key.join, source := source, invited := invitedTo }

/-! ## 2. the admission test of one existing channel -/

/-- master equation: decision and replies of `joinCheckExisting`, members and non-members. -/
theorem joinCheckExisting_eq (ch : Channel) (chname : Str) (key : Option (Option Str))
    (source nick client : Str) (invitedTo : KSet) :
    joinCheckExisting ch chname key source nick client invitedTo =
      (Spec.admitted (req ch chname key source invitedTo) && !(Map.contains nick ch.users),
       match Spec.admit (req ch chname key source invitedTo) with
       | .ok _ => []
       | .error e => [e.line client chname]) := by
  have hB : Spec.notBanned (req ch chname key source invitedTo) = !(ch.modes.banned source) := by
    simp only [banned_eq_glob, Spec.notBanned, Spec.matchesAny, req, Bool.not_and, Bool.not_not]
  have hI : Spec.inviteOk (req ch chname key source invitedTo) =
      (!ch.modes.inviteOnly || KSet.mem chname invitedTo ||
        ch.modes.inviteException.any (fun e => matchWildcard e source)) := by
    rw [Bool.eq_iff_iff, Spec.inviteOk_iff]
    simp only [req, Bool.or_eq_true, Bool.not_eq_true', KSet.mem_iff, List.any_eq_true,
      C14.matchWildcard_iff_Matches, or_assoc]
  have hK : ∀ key, Spec.keyOk (req ch chname key source invitedTo) =
      match ch.modes.key, key with
      | none, _ => true
      | some k, some (some g) => k == g
      | some _, _ => false := by
    intro key
    unfold Spec.keyOk req
    rcases ch.modes.key with _ | k
    · rfl
    · rcases key with _ | _ | g
      · simp
      · simp
      · by_cases h : g = k
        · subst h; simp
        · simp [h, Ne.symm h]
  have hF : Spec.notFull (req ch chname key source invitedTo) =
      match ch.modes.clientLimit with
      | none => true
      | some l => decide (ch.users.length < l) := rfl
  rcases hk : ch.modes.key with _ | k <;> rcases key with _ | _ | g <;>
    rcases hl : ch.modes.clientLimit with _ | l
  all_goals
    simp only [joinCheckExisting, Spec.admitted, Spec.admit, hK, hF, hB, hI, hk, hl]
    generalize ch.modes.banned source = b1
    generalize (!ch.modes.inviteOnly || KSet.mem chname invitedTo ||
        ch.modes.inviteException.any (fun e => matchWildcard e source)) = b2
    generalize Map.contains nick ch.users = b3
    try generalize decide (ch.users.length < l) = b4
    try generalize (k == g) = b5
    cases b1 <;> cases b2 <;> cases b3 <;> (try cases b4) <;> (try cases b5) <;> first | rfl | simp

/-- **C07, decision.**  A non-member is admitted to an existing channel iff all four
    channel-level conditions hold. -/
theorem join_existing_iff (ch : Channel) (chname : Str) (key : Option (Option Str))
    (source nick client : Str) (invitedTo : KSet)
    (hnm : Map.contains nick ch.users = false) :
    (joinCheckExisting ch chname key source nick client invitedTo).1 = true ↔
      Spec.admit (req ch chname key source invitedTo) = .ok () := by
  rw [joinCheckExisting_eq, Spec.admit_ok_iff_admitted]
  simp [hnm]

/-- the same, spelled out -/
theorem join_existing_iff' (ch : Channel) (chname : Str) (key : Option (Option Str))
    (source nick client : Str) (invitedTo : KSet)
    (hnm : Map.contains nick ch.users = false) :
    (joinCheckExisting ch chname key source nick client invitedTo).1 = true ↔
      (∀ k, ch.modes.key = some k → key.join = some k) ∧
      ((¬ ∃ b ∈ ch.modes.ban, C14.Matches b source) ∨
        (∃ e ∈ ch.modes.exception, C14.Matches e source)) ∧
      (ch.modes.inviteOnly = false ∨ chname ∈ invitedTo ∨
        (∃ e ∈ ch.modes.inviteException, C14.Matches e source)) ∧
      (∀ l, ch.modes.clientLimit = some l → ch.users.length < l) := by
  rw [join_existing_iff _ _ _ _ _ _ _ hnm, Spec.admit_ok_iff, Spec.keyOk_iff, Spec.notBanned_iff,
    Spec.inviteOk_iff, Spec.notFull_iff]
  rfl

/-- **C07, replies of the channel-level test** (members and non-members alike): nothing when
    the four conditions hold, otherwise exactly ONE line, that of the first failing condition
    in the order 475, 474, 473, 471 (later conditions are not evaluated). -/
theorem join_existing_replies (ch : Channel) (chname : Str) (key : Option (Option Str))
    (source nick client : Str) (invitedTo : KSet) :
    (joinCheckExisting ch chname key source nick client invitedTo).2 =
      match Spec.admit (req ch chname key source invitedTo) with
      | .ok _ => []
      | .error e => [e.line client chname] := by
  rw [joinCheckExisting_eq]

/-- a refused non-member gets exactly one error line: the first failing condition's -/
theorem join_refusal_replies (ch : Channel) (chname : Str) (key : Option (Option Str))
    (source nick client : Str) (invitedTo : KSet)
    (hnm : Map.contains nick ch.users = false)
    (href : (joinCheckExisting ch chname key source nick client invitedTo).1 = false) :
    ∃ e, Spec.admit (req ch chname key source invitedTo) = .error e ∧ e ≠ .tooMany ∧
      (joinCheckExisting ch chname key source nick client invitedTo).2 = [e.line client chname] := by
  have h1 := join_existing_iff ch chname key source nick client invitedTo hnm
  rw [join_existing_replies]
  cases hadm : Spec.admit (req ch chname key source invitedTo) with
  | ok u => cases u; rw [h1.mpr hadm] at href; cases href
  | error e =>
    refine ⟨e, rfl, ?_, rfl⟩
    rintro rfl
    exact Spec.admit_ne_tooMany _ hadm

/-- an admitted JOIN produces no reply from the channel-level test -/
theorem join_admitted_no_reply (ch : Channel) (chname : Str) (key : Option (Option Str))
    (source nick client : Str) (invitedTo : KSet)
    (h : (joinCheckExisting ch chname key source nick client invitedTo).1 = true) :
    (joinCheckExisting ch chname key source nick client invitedTo).2 = [] := by
  rw [joinCheckExisting_eq] at h ⊢
  simp only [Bool.and_eq_true] at h
  rw [(Spec.admit_ok_iff_admitted _).mpr h.1]

/-- a member is never "joined" again; it is refused SILENTLY only if the four conditions hold —
    otherwise it still receives the error of the first failing one (the membership test comes
    last in the code). -/
theorem join_member (ch : Channel) (chname : Str) (key : Option (Option Str))
    (source nick client : Str) (invitedTo : KSet)
    (hm : Map.contains nick ch.users = true) :
    (joinCheckExisting ch chname key source nick client invitedTo).1 = false ∧
    (Spec.admit (req ch chname key source invitedTo) = .ok () →
      (joinCheckExisting ch chname key source nick client invitedTo).2 = []) := by
  rw [joinCheckExisting_eq]
  refine ⟨by simp [hm], fun h => ?_⟩
  simp only [h]

/-! ## 3. the first loop: all listed channels, quota -/

/-- `joinDecide` on a non-empty list: the head is decided by `Spec.decideOne` against the
    unchanged pre-state `w`, with the key at the same list position; the running count grows by
    one iff the head is accepted; the rest is decided with the remaining keys. -/
theorem joinDecide_cons (cfg : Cfg) (w : World) (cn : Conn) (nick : Str) (invitedTo : KSet)
    (chn : Str) (rest : List Str) (keys : List (Option Str)) (cnt : Nat) :
    joinDecide cfg w cn nick invitedTo (chn :: rest) keys cnt =
      let d := Spec.decideOne cfg w cn.source nick cn.clientName invitedTo chn keys.head?.join cnt
      let r := joinDecide cfg w cn nick invitedTo rest keys.tail (if d.join then cnt + 1 else cnt)
      ((d.join, d.create) :: r.1, d.errs ++ r.2.1, r.2.2) := by
  rcases keys with _ | ⟨k, ks⟩ <;>
  rcases hl : Map.lookup chn w.channels with _ | C <;>
  rcases hm : cfg.maxJoins with _ | mj
  all_goals
    simp only [joinDecide, Spec.decideOne, Spec.chanOk, Spec.chanErrs, Spec.quotaOk, hl, hm,
      List.drop_one, List.tail, List.head?, joinCheckExisting_eq, req, Spec.line_eq]
    first
      | (by_cases hc : cnt < mj <;> simp [hc, Nat.not_le.mpr, Nat.le_of_not_lt])
      | simp

theorem joinDecide_nil (cfg : Cfg) (w : World) (cn : Conn) (nick : Str) (invitedTo : KSet)
    (keys : List (Option Str)) (cnt : Nat) :
    joinDecide cfg w cn nick invitedTo [] keys cnt = ([], [], cnt) := by
  simp [joinDecide]

/-- **C07, the whole decision for one listed, existing channel and a non-member**: it is joined
    iff the four channel-level conditions hold and the user is in fewer than max_joins channels
    (counting those accepted earlier in the same JOIN). -/
theorem join_iff (cfg : Cfg) (w : World) (source nick client : Str) (invited : KSet)
    (chn : Str) (key : Option Str) (cnt : Nat) (C : Channel)
    (hC : Map.lookup chn w.channels = some C) (hnm : Map.contains nick C.users = false) :
    (Spec.decideOne cfg w source nick client invited chn key cnt).join = true ↔
      Spec.admit (Spec.Request.mk C chn key source invited) = .ok () ∧
      Spec.quotaOk cfg cnt = true := by
  simp [Spec.decideOne, Spec.chanOk, hC, hnm, Spec.admit_ok_iff_admitted]

/-- a channel that does not exist yet is joined (created) iff the quota allows -/
theorem join_new_iff (cfg : Cfg) (w : World) (source nick client : Str) (invited : KSet)
    (chn : Str) (key : Option Str) (cnt : Nat) (hC : Map.lookup chn w.channels = none) :
    let d := Spec.decideOne cfg w source nick client invited chn key cnt
    (d.join = true ↔ Spec.quotaOk cfg cnt = true) ∧ d.create = true := by
  simp [Spec.decideOne, Spec.chanOk, hC]

/-- without max_joins the decision is the channel-level one -/
theorem join_no_quota (cfg : Cfg) (w : World) (source nick client : Str) (invited : KSet)
    (chn : Str) (key : Option Str) (cnt : Nat) (hmj : cfg.maxJoins = none) :
    let d := Spec.decideOne cfg w source nick client invited chn key cnt
    d.join = Spec.chanOk w source nick invited chn key ∧
    d.errs = Spec.chanErrs w source client invited chn key := by
  simp [Spec.decideOne, Spec.quotaOk, hmj]

/-- **C07, quota.**  With `max_joins = mj`: a listed channel is joined iff the channel-level
    verdict is positive AND the running count is below `mj`; the replies are the channel-level
    one (if any) followed by 405 iff the count has reached `mj` — i.e. 405 is emitted whenever
    the quota is exhausted, also for a channel that was already refused (then TWO error lines
    are sent for it) or of which the user is already a member. -/
theorem join_quota (cfg : Cfg) (w : World) (source nick client : Str) (invited : KSet)
    (chn : Str) (key : Option Str) (cnt mj : Nat) (hmj : cfg.maxJoins = some mj) :
    let d := Spec.decideOne cfg w source nick client invited chn key cnt
    (d.join = true ↔ Spec.chanOk w source nick invited chn key = true ∧ cnt < mj) ∧
    d.errs = Spec.chanErrs w source client invited chn key ++
      (if mj ≤ cnt then [Spec.Refusal.tooMany.line client chn] else []) ∧
    (Spec.Refusal.tooMany.line client chn ∈ d.errs ↔ mj ≤ cnt) := by
  have herrs : ∀ e ∈ Spec.chanErrs w source client invited chn key,
      e ≠ Spec.Refusal.tooMany.line client chn := by
    intro e he
    unfold Spec.chanErrs at he
    split at he
    · cases he
    · split at he
      · cases he
      · rename_i r hr
        simp only [List.mem_singleton] at he
        subst he
        intro h
        have := Spec.line_injective _ _ _ _ _ _ h
        subst this
        exact Spec.admit_ne_tooMany _ hr
  simp only [Spec.decideOne, Spec.quotaOk, hmj]
  by_cases hc : cnt < mj
  · have : ¬ mj ≤ cnt := Nat.not_le.mpr hc
    simp only [hc, this, decide_true, Bool.and_true, and_true, ↓reduceIte, List.append_nil, iff_false, true_and]
    exact fun hmem => herrs _ hmem rfl
  · have : mj ≤ cnt := Nat.le_of_not_lt hc
    simp [hc, this]

theorem joinDecide_length (cfg : Cfg) (w : World) (cn : Conn) (nick : Str) (invitedTo : KSet)
    (chans : List Str) (keys : List (Option Str)) (cnt : Nat) :
    (joinDecide cfg w cn nick invitedTo chans keys cnt).1.length = chans.length := by
  induction chans generalizing keys cnt with
  | nil => simp [joinDecide]
  | cons chn rest ih => rw [joinDecide_cons]; simp [ih]

/-- the final count = the initial count + the number of accepted channels -/
theorem joinDecide_final (cfg : Cfg) (w : World) (cn : Conn) (nick : Str) (invitedTo : KSet)
    (chans : List Str) (keys : List (Option Str)) (cnt : Nat) :
    (joinDecide cfg w cn nick invitedTo chans keys cnt).2.2 =
      cnt + ((joinDecide cfg w cn nick invitedTo chans keys cnt).1.filter (·.1)).length := by
  induction chans generalizing keys cnt with
  | nil => simp [joinDecide]
  | cons chn rest ih =>
    rw [joinDecide_cons]
    simp only
    rw [ih]
    cases (Spec.decideOne cfg w cn.source nick cn.clientName invitedTo chn keys.head?.join cnt).join
    · simp
    · simp; omega

/-- with `max_joins = mj` the count never passes `mj` (unless it was already above) -/
theorem joinDecide_final_le (cfg : Cfg) (w : World) (cn : Conn) (nick : Str) (invitedTo : KSet)
    (chans : List Str) (keys : List (Option Str)) (cnt mj : Nat) (hmj : cfg.maxJoins = some mj) :
    (joinDecide cfg w cn nick invitedTo chans keys cnt).2.2 ≤ max cnt mj := by
  induction chans generalizing keys cnt with
  | nil => simp [joinDecide]; omega
  | cons chn rest ih =>
    rw [joinDecide_cons]
    simp only
    have hq := (join_quota cfg w cn.source nick cn.clientName invitedTo chn keys.head?.join cnt mj hmj).1
    cases hj : (Spec.decideOne cfg w cn.source nick cn.clientName invitedTo chn keys.head?.join cnt).join
    · simpa using ih keys.tail cnt
    · have hlt := (hq.mp hj).2
      have := ih keys.tail (cnt + 1)
      simp only [↓reduceIte]
      omega

/-- every error line of the first loop is one of the five refusals of a listed channel -/
theorem joinDecide_errs (cfg : Cfg) (w : World) (cn : Conn) (nick : Str) (invitedTo : KSet)
    (chans : List Str) (keys : List (Option Str)) (cnt : Nat) :
    ∀ e ∈ (joinDecide cfg w cn nick invitedTo chans keys cnt).2.1,
      ∃ r chn, chn ∈ chans ∧ e = Spec.Refusal.line r cn.clientName chn := by
  induction chans generalizing keys cnt with
  | nil => simp [joinDecide]
  | cons chn rest ih =>
    rw [joinDecide_cons]
    simp only [List.mem_append]
    rintro e (he | he)
    · refine (?_ : ∃ r, e = Spec.Refusal.line r cn.clientName chn).elim
        (fun r hr => ⟨r, chn, List.mem_cons_self, hr⟩)
      simp only [Spec.decideOne, Spec.chanErrs, List.mem_append] at he
      rcases he with he | he
      · split at he
        · cases he
        · split at he
          · cases he
          · rename_i r _; exact ⟨r, by simpa using he⟩
      · split at he
        · cases he
        · exact ⟨.tooMany, by simpa using he⟩
    · obtain ⟨r, c', hc', hr⟩ := ih _ _ e he
      exact ⟨r, c', List.mem_cons_of_mem _ hc', hr⟩


/-! ## 4. a refused JOIN changes nothing -/

theorem join_refused_changes_nothing (cfg : Cfg) (c : Nat) (nick : Str) (ds : List (Bool × Bool))
    (chans : List Str) (w : World) (x : Ctx) (h : ∀ d ∈ ds, d.1 = false) :
    joinApply nick ds chans w = w ∧ joinAnnounce cfg c nick ds chans x = x :=
  ⟨joinApply_refused nick ds chans w h, joinAnnounce_refused cfg c nick ds chans x h⟩

theorem srvLine_eq (cfg : Cfg) (e : Str) : srvLine cfg e = str ":" ++ cfg.name ++ str " " ++ e := by
  simp [srvLine, str]

theorem processJoin_all_refused (cfg : Cfg) (c : Nat) (chans : List Str) (keys : Option (List Str))
    (x : Ctx) (nick : Str) (user : User)
    (hn : (x.conn c).nick = some nick) (hu : Map.lookup nick x.w.users = some user)
    (hall : ∀ d ∈ (joinDecide cfg x.w (x.conn c) nick user.invitedTo chans (keyList keys)
                    user.channels.length).1, d.1 = false) :
    let errs := (joinDecide cfg x.w (x.conn c) nick user.invitedTo chans (keyList keys)
                    user.channels.length).2.1
    let y := processJoin cfg c chans keys x
    y.w = x.w ∧ y.queued = x.queued ∧ y.direct = x.direct ++ errs.map (srvLine cfg) ∧
    (∀ e ∈ errs, ∃ r chn, chn ∈ chans ∧ e = Spec.Refusal.line r (x.conn c).clientName chn) := by
  intro errs y
  have h := processJoin_refused cfg c chans keys x nick user hn hu hall
  refine ⟨?_, ?_, ?_, joinDecide_errs _ _ _ _ _ _ _ _⟩ <;> simp only [y, h, errs]

theorem processJoin_single_refused (cfg : Cfg) (c : Nat) (chn : Str) (keys : Option (List Str))
    (x : Ctx) (nick : Str) (user : User) (C : Channel) (e : Spec.Refusal)
    (hn : (x.conn c).nick = some nick) (hu : Map.lookup nick x.w.users = some user)
    (hC : Map.lookup chn x.w.channels = some C)
    (href : Spec.admit (Spec.Request.mk C chn (keyList keys).head?.join (x.conn c).source
              user.invitedTo) = .error e) :
    let y := processJoin cfg c [chn] keys x
    y.w = x.w ∧ y.queued = x.queued ∧
    y.direct = x.direct ++ srvLine cfg (e.line (x.conn c).clientName chn) ::
      (if Spec.quotaOk cfg user.channels.length then []
       else [srvLine cfg (Spec.Refusal.tooMany.line (x.conn c).clientName chn)]) := by
  have hadm : Spec.admitted (Spec.Request.mk C chn (keyList keys).head?.join (x.conn c).source
      user.invitedTo) = false := by
    cases h : Spec.admitted _ with
    | false => rfl
    | true => rw [(Spec.admit_ok_iff_admitted _).mpr h] at href; cases href
  have hd : joinDecide cfg x.w (x.conn c) nick user.invitedTo [chn] (keyList keys)
      user.channels.length =
      ([(false, false)], e.line (x.conn c).clientName chn ::
        (if Spec.quotaOk cfg user.channels.length then []
         else [Spec.Refusal.tooMany.line (x.conn c).clientName chn]), user.channels.length) := by
    rw [joinDecide_cons]
    simp only [joinDecide_nil]
    simp [Spec.decideOne, Spec.chanOk, Spec.chanErrs, hC, href, hadm]
  have h := processJoin_refused cfg c [chn] keys x nick user hn hu (by rw [hd]; simp)
  rw [hd] at h
  intro y
  simp only [y, h, true_and]
  split <;> simp


/-! ## 5. an accepted JOIN -/

/-- the JOIN line as the clients see it -/
def joinLine (source chn : Str) : Str := str ":" ++ source ++ str " JOIN " ++ chn

theorem joinLine_eq (source chn : Str) :
    joinLine source chn = ':' :: (source ++ ' ' :: (str "JOIN " ++ chn)) := by
  simp [joinLine, str]

/-- **C07, accepted JOIN, state.**  The insert loop on one accepted existing channel. -/
theorem join_accept_effect (nick chn : Str) (w : World) (C : Channel) (u : User)
    (hu : Map.lookup nick w.users = some u) (hC : Map.lookup chn w.channels = some C) :
    let w' := joinApply nick [(true, false)] [chn] w
    Map.lookup chn w'.channels = some (C.addUser nick) ∧
    Map.lookup nick w'.users = some (userJoined chn u) ∧
    (∀ n, n ≠ nick → Map.lookup n w'.users = Map.lookup n w.users) ∧
    (∀ c', c' ≠ chn → Map.lookup c' w'.channels = Map.lookup c' w.channels) ∧
    w'.conns = w.conns ∧ w'.panicked = w.panicked ∧ w'.wallops = w.wallops ∧
    w'.invisibleCount = w.invisibleCount ∧ w'.operatorsCount = w.operatorsCount := by
  intro w'
  have hw : w' = _ := joinApply_single nick chn w C hC
  rw [hw]
  refine ⟨by simp, by simp [Map.lookup_modify, hu], fun n hn => ?_, fun c' hc => ?_,
    rfl, rfl, rfl, rfl, rfl⟩
  · simp [Map.lookup_modify, Ne.symm hn]
  · simp [Map.lookup_insert_ne _ _ _ _ (Ne.symm hc)]

/-- the updated channel: the joiner is a member with exactly the configured default ranks, the
    rank lists follow, everyone else and all other settings are unchanged. -/
theorem addUser_effect (C : Channel) (nick : Str) :
    let C' := C.addUser nick
    Map.contains nick C'.users = true ∧
    (∃ m, Map.lookup nick C'.users = some m ∧
      (m.founder = true ↔ nick ∈ C.defaultModes.founders) ∧
      (m.prot = true ↔ nick ∈ C.defaultModes.protecteds) ∧
      (m.operator = true ↔ nick ∈ C.defaultModes.operators) ∧
      (m.halfOper = true ↔ nick ∈ C.defaultModes.halfOperators) ∧
      (m.voice = true ↔ nick ∈ C.defaultModes.voices)) ∧
    (∀ n, n ≠ nick → Map.lookup n C'.users = Map.lookup n C.users) ∧
    (Map.lookup nick C.users = none → Map.keys C'.users = Map.keys C.users ++ [nick]) ∧
    C'.topic = C.topic ∧ C'.modes.key = C.modes.key ∧ C'.modes.ban = C.modes.ban ∧
    C'.modes.inviteOnly = C.modes.inviteOnly ∧ C'.modes.clientLimit = C.modes.clientLimit := by
  intro C'
  refine ⟨?_, ⟨defaultRanks C nick, addUser_lookup_self C nick, ?_⟩,
    fun n hn => addUser_lookup_other C nick n hn, fun h => ?_, rfl, rfl, rfl, rfl, rfl⟩
  · rw [Map.contains_iff]; exact ⟨_, addUser_lookup_self C nick⟩
  · simp only [defaultRanks, KSet.mem_iff, and_self]
  · simp only [C', addUser_users]; exact keys_insert_of_lookup_none _ _ _ h

/-- the updated user record: in the channel, invitation used up, nothing else touched -/
theorem userJoined_effect (chn : Str) (u : User) :
    let u' := userJoined chn u
    chn ∈ u'.channels ∧ chn ∉ u'.invitedTo ∧
    (∀ c', c' ≠ chn → (c' ∈ u'.channels ↔ c' ∈ u.channels) ∧ (c' ∈ u'.invitedTo ↔ c' ∈ u.invitedTo)) ∧
    u'.owner = u.owner ∧ u'.source = u.source ∧ u'.modes = u.modes ∧ u'.away = u.away := by
  intro u'
  refine ⟨?_, ?_, fun c' hc => ?_, rfl, rfl, rfl, rfl⟩ <;>
    simp [← KSet.mem_iff, u', userJoined, KSet.mem_insert, KSet.mem_erase, *]


/-- **C07, accepted JOIN, announcement.**  The message loop on one accepted channel `C'`
    (the channel AFTER the insert), all of whose members are registered users: the JOIN line
    goes directly to the joiner, followed by the topic (if set) and the NAMES reply, and is
    queued once per entry of the member list for every member other than the joiner; the
    world is not changed. -/
theorem join_accept_announce (cfg : Cfg) (c : Nat) (nick chn : Str) (cr : Bool) (x : Ctx)
    (C' : Channel) (hC : Map.lookup chn x.w.channels = some C')
    (hmem : ∀ n ∈ Map.keys C'.users, Map.contains n x.w.users = true) :
    let y := joinAnnounce cfg c nick [(true, cr)] [chn] x
    let line := joinLine (x.conn c).source chn
    y.w = x.w ∧
    y.direct = x.direct ++ line ::
      ((match C'.topic with
        | some t => [srvLine cfg (RplTopic332 (x.conn c).clientName chn t.topic)]
        | none => []) ++
       (sendNamesFromChannel cfg c chn C' true { w := x.w }).direct) ∧
    y.queued = x.queued ++
      ((Map.keys C'.users).filter (· != nick)).map (fun n => (ownerOf x.w.users n, line)) := by
  intro y line
  have hy : y = _ := joinAnnounce_single cfg c nick chn cr x C' hC hmem
  have hl : line = _ := joinLine_eq _ _
  rw [hy, hl]
  exact ⟨rfl, rfl, rfl⟩

/-- **C07, accepted JOIN, end to end** (one listed channel, which exists; the joiner is not a
    member, passes the four conditions and the quota; all members are registered users). -/
theorem processJoin_single_accepted (cfg : Cfg) (c : Nat) (chn : Str) (keys : Option (List Str))
    (x : Ctx) (nick : Str) (user : User) (C : Channel)
    (hn : (x.conn c).nick = some nick) (hu : Map.lookup nick x.w.users = some user)
    (hC : Map.lookup chn x.w.channels = some C)
    (hnm : Map.contains nick C.users = false)
    (hadm : Spec.admit (Spec.Request.mk C chn (keyList keys).head?.join (x.conn c).source
              user.invitedTo) = .ok ())
    (hq : Spec.quotaOk cfg user.channels.length = true)
    (hmem : ∀ n ∈ Map.keys C.users, Map.contains n x.w.users = true) :
    let y := processJoin cfg c [chn] keys x
    let line := joinLine (x.conn c).source chn
    y.w = { x.w with users := Map.modify nick (userJoined chn) x.w.users
                     channels := Map.insert chn (C.addUser nick) x.w.channels } ∧
    y.direct = x.direct ++ line ::
      ((match C.topic with
        | some t => [srvLine cfg (RplTopic332 (x.conn c).clientName chn t.topic)]
        | none => []) ++
       (sendNamesFromChannel cfg c chn (C.addUser nick) true { w := y.w }).direct) ∧
    y.queued = x.queued ++ (Map.keys C.users).map (fun n => (ownerOf x.w.users n, line)) := by
  have hadm' := (Spec.admit_ok_iff_admitted _).mp hadm
  have hd : joinDecide cfg x.w (x.conn c) nick user.invitedTo [chn] (keyList keys)
      user.channels.length = ([(true, false)], [], user.channels.length + 1) := by
    rw [joinDecide_cons]
    simp only [joinDecide_nil]
    simp [Spec.decideOne, Spec.chanOk, Spec.chanErrs, hC, hadm, hadm', hnm, hq]
  have hnone : Map.lookup nick C.users = none := (Map.contains_false_iff _ _).mp hnm
  have hnk : nick ∉ Map.keys C.users := fun h => by
    obtain ⟨v, hv⟩ := (Map.mem_keys_iff _ _).mp h
    rw [hnone] at hv; cases hv
  have hkeys : Map.keys (C.addUser nick).users = Map.keys C.users ++ [nick] := by
    rw [addUser_users]; exact keys_insert_of_lookup_none _ _ _ hnone
  intro y line
  have hy : y = _ := processJoin_eq cfg c [chn] keys x nick user hn hu
  rw [hd] at hy
  simp only [List.foldl_nil, Ctx.modifyW, joinApply_single nick chn x.w C hC] at hy
  rw [joinAnnounce_single cfg c nick chn false _ (C.addUser nick) (by simp) ?hm] at hy
  case hm =>
    intro n hn'
    simp only [contains_modify]
    rw [hkeys, List.mem_append, List.mem_singleton] at hn'
    rcases hn' with h | rfl
    · exact hmem n h
    · exact (Map.contains_iff _ _).mpr ⟨_, hu⟩
  have hfl : (Map.keys (C.addUser nick).users).filter (· != nick) = Map.keys C.users := by
    rw [hkeys, List.filter_append, filter_ne_of_not_mem _ _ hnk]; simp
  rw [hy]
  refine ⟨rfl, ?_, ?_⟩
  · simp only [line, joinLine_eq, addUser_frame]
    rfl
  · simp only [hfl, ownerOf_modify, line, joinLine_eq]
    rfl

/-! ## 6. concrete instances (kernel-checked by `decide`) -/

namespace Ex
def bobSrc : Str := str "bob!~b@host.org"
/-- +k "sesame" -/
def chKey : Channel := { modes := { key := some (str "sesame") }, users := [(str "al", {})] }
/-- +b *!*@*.org, +e bob!*@* -/
def chBanEx : Channel :=
  { modes := { ban := [str "*!*@*.org"], exception := [str "bob!*@*"] }, users := [(str "al", {})] }
def chBan : Channel := { modes := { ban := [str "*!*@*.org"] }, users := [(str "al", {})] }
/-- +i -/
def chInv : Channel := { modes := { inviteOnly := true }, users := [(str "al", {})] }
/-- +l 1, one member -/
def chFull : Channel := { modes := { clientLimit := some 1 }, users := [(str "al", {})] }

-- wrong key -> 475
example : joinCheckExisting chKey (str "#c") (some (some (str "wrong"))) bobSrc (str "bob") (str "bob") []
    = (false, [(Reply.ErrBadChannelKey475 (client := str "bob") (channel := str "#c"))]) := by decide
-- no key -> 475
example : joinCheckExisting chKey (str "#c") none bobSrc (str "bob") (str "bob") []
    = (false, [(Reply.ErrBadChannelKey475 (client := str "bob") (channel := str "#c"))]) := by decide
-- right key -> admitted
example : joinCheckExisting chKey (str "#c") (some (some (str "sesame"))) bobSrc (str "bob") (str "bob") []
    = (true, []) := by decide
-- banned -> 474
example : joinCheckExisting chBan (str "#c") none bobSrc (str "bob") (str "bob") []
    = (false, [(Reply.ErrBannedFromChan474 (client := str "bob") (channel := str "#c"))]) := by decide
-- banned but excepted -> admitted
example : joinCheckExisting chBanEx (str "#c") none bobSrc (str "bob") (str "bob") []
    = (true, []) := by decide
-- invite-only without invitation -> 473
example : joinCheckExisting chInv (str "#c") none bobSrc (str "bob") (str "bob") [str "#other"]
    = (false, [(Reply.ErrInviteOnlyChan473 (client := str "bob") (channel := str "#c"))]) := by decide
-- invite-only with invitation -> admitted
example : joinCheckExisting chInv (str "#c") none bobSrc (str "bob") (str "bob") [str "#c"]
    = (true, []) := by decide
-- full -> 471
example : joinCheckExisting chFull (str "#c") none bobSrc (str "bob") (str "bob") []
    = (false, [(Reply.ErrChannelIsFull471 (client := str "bob") (channel := str "#c"))]) := by decide
-- the spec gives the same verdicts
example : Spec.admit (req chKey (str "#c") (some (some (str "wrong"))) bobSrc []) = .error .badKey := by decide
example : Spec.admit (req chBanEx (str "#c") none bobSrc []) = .ok () := by decide
example : Spec.admit (req chInv (str "#c") none bobSrc [str "#c"]) = .ok () := by decide
example : Spec.admit (req chFull (str "#c") none bobSrc []) = .error .full := by decide
-- a member that fails the key test still gets 475; one that passes is refused silently
example : joinCheckExisting chKey (str "#c") none (str "al!~a@h") (str "al") (str "al") []
    = (false, [(Reply.ErrBadChannelKey475 (client := str "al") (channel := str "#c"))]) := by decide
example : joinCheckExisting chKey (str "#c") (some (some (str "sesame"))) (str "al!~a@h") (str "al") (str "al") []
    = (false, []) := by decide

def bob : User :=
  { hostname := str "host.org", name := str "b", realname := str "Bob", source := bobSrc, modes := {},
    history := { username := str "b", hostname := str "host.org", realname := str "Bob" }, owner := 1,
    channels := [str "#x"] }
def al : User :=
  { hostname := str "h", name := str "a", realname := str "Al", source := str "al!~a@h", modes := {},
    history := { username := str "a", hostname := str "h", realname := str "Al" }, owner := 2,
    channels := [str "#k", str "#f"] }
def w0 : World :=
  { users := [(str "bob", bob), (str "al", al)]
    channels := [(str "#k", chKey), (str "#f", chFull)]
    conns := [{ id := 1, hostname := str "host.org", nick := some (str "bob"), name := some (str "b"),
                source := bobSrc, registered := true, authenticated := true },
              { id := 2, hostname := str "h", nick := some (str "al"), name := some (str "a"),
                source := str "al!~a@h", registered := true, authenticated := true }] }
def x0 : Ctx := { w := w0 }
def cfg1 : Cfg := { maxJoins := some 1 }

-- JOIN #k,#f sesame  with max_joins = 1 and bob already in one channel:
example : joinDecide cfg1 w0 (x0.conn 1) (str "bob") [] [str "#k", str "#f", str "#new"]
    [some (str "sesame")] 1 =
    ([(false, false), (false, false), (false, true)],
     [(Reply.ErrTooManyChannels405 (client := str "bob") (channel := str "#k")),
      (Reply.ErrChannelIsFull471 (client := str "bob") (channel := str "#f")),
      (Reply.ErrTooManyChannels405 (client := str "bob") (channel := str "#f")),
      (Reply.ErrTooManyChannels405 (client := str "bob") (channel := str "#new"))], 1) := by decide

-- without max_joins: #k accepted (key at position 0), #f refused (no key needed, full), #new created
example : joinDecide {} w0 (x0.conn 1) (str "bob") [] [str "#k", str "#f", str "#new"]
    [some (str "sesame")] 1 =
    ([(true, false), (false, false), (true, true)],
     [(Reply.ErrChannelIsFull471 (client := str "bob") (channel := str "#f"))], 3) := by decide

-- processJoin, all refused
example : (processJoin {} 1 [str "#k", str "#f"] none x0).direct =
    [(str ":irc.irc " ++ Reply.ErrBadChannelKey475 (client := str "bob") (channel := str "#k")),
     (str ":irc.irc " ++ Reply.ErrChannelIsFull471 (client := str "bob") (channel := str "#f"))] := by decide
example : (processJoin {} 1 [str "#k", str "#f"] none x0).queued = [] := by decide
example : (processJoin {} 1 [str "#k", str "#f"] none x0).w.channels = w0.channels := by decide
example : (processJoin {} 1 [str "#k", str "#f"] none x0).w.users = w0.users := by decide

-- hypotheses of `processJoin_all_refused` / `processJoin_single_refused` are satisfiable
example : (x0.conn 1).nick = some (str "bob") ∧ Map.lookup (str "bob") x0.w.users = some bob ∧
    (∀ d ∈ (joinDecide {} x0.w (x0.conn 1) (str "bob") bob.invitedTo [str "#k", str "#f"]
              (keyList none) bob.channels.length).1, d.1 = false) ∧
    Map.lookup (str "#k") x0.w.channels = some chKey ∧
    Spec.admit (Spec.Request.mk chKey (str "#k") (keyList none).head?.join (x0.conn 1).source
      bob.invitedTo) = .error .badKey := by decide

-- an accepted JOIN: `JOIN #k sesame`
example : (processJoin {} 1 [str "#k"] (some [str "sesame"]) x0).direct =
    [str ":bob!~b@host.org JOIN #k",
     str ":irc.irc 353 bob = #k :al bob",
     (str ":irc.irc " ++ Reply.RplEndOfNames366 (client := str "bob") (channel := str "#k"))] := by decide
example : (processJoin {} 1 [str "#k"] (some [str "sesame"]) x0).queued =
    [(2, str ":bob!~b@host.org JOIN #k")] := by decide
example : Map.lookup (str "#k") (processJoin {} 1 [str "#k"] (some [str "sesame"]) x0).w.channels =
    some { chKey with users := [(str "al", {}), (str "bob", {})] } := by decide
example : Map.lookup (str "bob") (processJoin {} 1 [str "#k"] (some [str "sesame"]) x0).w.users =
    some { bob with channels := [str "#x", str "#k"] } := by decide
-- hypotheses of `processJoin_single_accepted` are satisfiable
example : Map.contains (str "bob") chKey.users = false ∧
    Spec.admit (Spec.Request.mk chKey (str "#k") (keyList (some [str "sesame"])).head?.join
      (x0.conn 1).source bob.invitedTo) = .ok () ∧
    Spec.quotaOk {} bob.channels.length = true ∧
    (∀ n ∈ Map.keys chKey.users, Map.contains n x0.w.users = true) := by decide
-- multi-channel JOIN with per-channel keys: `JOIN #f,#k x,sesame` (key list position matters)
example : (joinDecide {} w0 (x0.conn 1) (str "bob") [] [str "#f", str "#k"]
    [some (str "x"), some (str "sesame")] 1).1 = [(false, false), (true, false)] := by decide
example : (joinDecide {} w0 (x0.conn 1) (str "bob") [] [str "#k", str "#f"]
    [some (str "x"), some (str "sesame")] 1).2.1 =
    [(Reply.ErrBadChannelKey475 (client := str "bob") (channel := str "#k")), (Reply.ErrChannelIsFull471 (client := str "bob") (channel := str "#f"))] := by
  decide

/-! ### finding `join_duplicate`: a channel listed twice in one JOIN is decided twice against the
    same pre-state, so it is accepted twice: it counts twice against max_joins (here the third,
    different channel is refused with 405 although bob is then in only 2 < 3 = max_joins channels), and
    the JOIN line / NAMES reply are sent twice. -/
def cfg3 : Cfg := { maxJoins := some 3 }
example : joinDecide cfg3 w0 (x0.conn 1) (str "bob") [] [str "#k", str "#k", str "#new"]
    [some (str "sesame"), some (str "sesame"), some []] 1 =
    ([(true, false), (true, false), (false, true)],
     [(Reply.ErrTooManyChannels405 (client := str "bob") (channel := str "#new"))], 3) := by decide
example : (processJoin {} 1 [str "#k", str "#k"] (some [str "sesame", str "sesame"]) x0).queued =
    [(2, str ":bob!~b@host.org JOIN #k"), (2, str ":bob!~b@host.org JOIN #k")] := by decide
end Ex

end Irc.C07
