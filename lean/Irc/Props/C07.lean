/-
  Property C07 — JOIN admission.

  "A JOIN to an existing channel by a non-member succeeds if and only if the supplied key
   equals the channel key (+k) when one is set, the user's nick!user@host matches no ban mask
   (+b) or matches an exception mask (+e), the channel is not invite-only (+i) or the user
   holds a pending invitation or matches an invite-exception mask (+I), the member count is
   below the limit (+l) when one is set, and the user is in fewer than max_joins channels.
   A refused JOIN changes nothing, is not announced and is answered with the matching error
   (475, 474, 473, 471, 405); an accepted JOIN makes the user a member, uses up the invitation
   and is announced to every member."

  Model: `joinCheckExisting`, `joinDecide`, `joinApply`, `joinAnnounce`, `processJoin`
  (Irc/HChannel.lean).  Spec: `Spec.*` below, written over `glob` (Irc/Wildcard.lean) and list
  membership.  Helper lemmas: `Irc/Props/C07Lemmas.lean`.  All theorems are for ALL channels,
  mask lists, keys, worlds and channel lists (no bounds).
-/
import Irc.Props.C07Lemmas
namespace Irc.C07
open Irc Irc.Reply

/-! ## 1. The specification -/

namespace Spec

/-- what the admission test of ONE existing channel looks at -/
structure Request where
  /-- the channel as it is before the JOIN -/
  C : Channel
  /-- its name -/
  chname : Str
  /-- the key supplied for this channel, if any -/
  key : Option Str
  /-- the joining user's `nick!user@host` -/
  source : Str
  /-- the joining user's pending invitations -/
  invited : KSet

/-- the reasons of refusal, one per numeric -/
inductive Refusal
  | badKey | banned | inviteOnly | full | tooMany
  deriving DecidableEq, Repr

def Refusal.numeric : Refusal → Nat
  | .badKey => 475 | .banned => 474 | .inviteOnly => 473 | .full => 471 | .tooMany => 405

/-- the text of the error reply (without the `:server ` prefix) -/
def Refusal.line (r : Refusal) (client chname : Str) : Str :=
  match r with
  | .badKey => str "475 " ++ client ++ str " " ++ chname ++ str " :Cannot join channel (+k)"
  | .banned => str "474 " ++ client ++ str " " ++ chname ++ str " :Cannot join channel (+b)"
  | .inviteOnly => str "473 " ++ client ++ str " " ++ chname ++ str " :Cannot join channel (+i)"
  | .full => str "471 " ++ client ++ str " " ++ chname ++ str " :Cannot join channel (+l)"
  | .tooMany => str "405 " ++ client ++ str " " ++ chname ++ str " :You have joined too many channels"

/-- `source` matches (glob semantics) one of the masks -/
def matchesAny (masks : KSet) (source : Str) : Bool := masks.any (fun m => glob m source)

/-- "the supplied key equals the channel key (+k) when one is set" -/
def keyOk (r : Request) : Bool :=
  match r.C.modes.key with
  | none => true
  | some k => decide (r.key = some k)

/-- "nick!user@host matches no ban mask (+b) or matches an exception mask (+e)" -/
def notBanned (r : Request) : Bool :=
  !(matchesAny r.C.modes.ban r.source) || matchesAny r.C.modes.exception r.source

/-- "the channel is not invite-only (+i) or the user holds a pending invitation or matches an
    invite-exception mask (+I)" -/
def inviteOk (r : Request) : Bool :=
  !r.C.modes.inviteOnly || decide (r.chname ∈ r.invited) ||
    matchesAny r.C.modes.inviteException r.source

/-- "the member count is below the limit (+l) when one is set" -/
def notFull (r : Request) : Bool :=
  match r.C.modes.clientLimit with
  | none => true
  | some l => decide (r.C.users.length < l)

/-- all four channel-level conditions -/
def admitted (r : Request) : Bool := keyOk r && notBanned r && inviteOk r && notFull r

/-- the verdict: admitted, or the FIRST failing condition in the order key, ban, invite, limit -/
def admit (r : Request) : Except Refusal Unit :=
  if !keyOk r then .error .badKey
  else if !notBanned r then .error .banned
  else if !inviteOk r then .error .inviteOnly
  else if !notFull r then .error .full
  else .ok ()

/-- "the user is in fewer than max_joins channels" (`joinedSoFar` includes the channels
    accepted earlier in the same JOIN) -/
def quotaOk (cfg : Cfg) (joinedSoFar : Nat) : Bool :=
  match cfg.maxJoins with
  | none => true
  | some mj => decide (joinedSoFar < mj)

/-- the decision for one listed channel -/
structure Decision where
  join : Bool
  create : Bool
  errs : List Str

/-- the channel-level verdict for one listed channel `chn`, against the world `w`:
    a non-existing channel is always admissible (it will be created); an existing one admits
    a non-member that passes the four conditions. -/
def chanOk (w : World) (source nick : Str) (invited : KSet) (chn : Str) (key : Option Str) : Bool :=
  match Map.lookup chn w.channels with
  | none => true
  | some C =>
    admitted { C := C, chname := chn, key := key, source := source, invited := invited } &&
      !(Map.contains nick C.users)

/-- the channel-level error reply for one listed channel (at most one line) -/
def chanErrs (w : World) (source client : Str) (invited : KSet) (chn : Str) (key : Option Str) :
    List Str :=
  match Map.lookup chn w.channels with
  | none => []
  | some C =>
    match admit { C := C, chname := chn, key := key, source := source, invited := invited } with
    | .ok _ => []
    | .error e => [e.line client chn]

/-- The decision for ONE listed channel `chn`, taken against the world `w` as it is BEFORE the
    JOIN, with `cnt` = number of channels the user is in, counting those accepted earlier in
    the same command. -/
def decideOne (cfg : Cfg) (w : World) (source nick client : Str) (invited : KSet)
    (chn : Str) (key : Option Str) (cnt : Nat) : Decision :=
  { join := chanOk w source nick invited chn key && quotaOk cfg cnt
    create := (Map.lookup chn w.channels).isNone
    errs := chanErrs w source client invited chn key ++
      if quotaOk cfg cnt then [] else [Refusal.tooMany.line client chn] }

/-! ### the spec in logical form (what the Boolean definitions mean) -/

theorem keyOk_iff (r : Request) :
    keyOk r = true ↔ ∀ k, r.C.modes.key = some k → r.key = some k := by
  unfold keyOk
  cases r.C.modes.key <;> simp

theorem matchesAny_iff (masks : KSet) (s : Str) :
    matchesAny masks s = true ↔ ∃ m ∈ masks, C14.Matches m s := by
  simp only [matchesAny, List.any_eq_true, C14.glob_iff_Matches]

theorem notBanned_iff (r : Request) :
    notBanned r = true ↔
      (¬ ∃ b ∈ r.C.modes.ban, C14.Matches b r.source) ∨
      (∃ e ∈ r.C.modes.exception, C14.Matches e r.source) := by
  simp only [notBanned, Bool.or_eq_true, Bool.not_eq_true', ← matchesAny_iff,
    Bool.not_eq_true]

theorem inviteOk_iff (r : Request) :
    inviteOk r = true ↔
      r.C.modes.inviteOnly = false ∨ r.chname ∈ r.invited ∨
      (∃ e ∈ r.C.modes.inviteException, C14.Matches e r.source) := by
  simp only [inviteOk, Bool.or_eq_true, Bool.not_eq_true', decide_eq_true_eq, ← matchesAny_iff,
    or_assoc]

theorem notFull_iff (r : Request) :
    notFull r = true ↔ ∀ l, r.C.modes.clientLimit = some l → r.C.users.length < l := by
  unfold notFull
  cases r.C.modes.clientLimit <;> simp

theorem quotaOk_iff (cfg : Cfg) (n : Nat) :
    quotaOk cfg n = true ↔ ∀ mj, cfg.maxJoins = some mj → n < mj := by
  unfold quotaOk
  cases cfg.maxJoins <;> simp

theorem admit_ok_iff (r : Request) :
    admit r = .ok () ↔
      keyOk r = true ∧ notBanned r = true ∧ inviteOk r = true ∧ notFull r = true := by
  unfold admit
  cases keyOk r <;> cases notBanned r <;> cases inviteOk r <;> cases notFull r <;> simp

theorem admit_ok_iff_admitted (r : Request) : admit r = .ok () ↔ admitted r = true := by
  simp only [admit_ok_iff, admitted, Bool.and_eq_true, and_assoc]

/-- the refusal is the FIRST failing condition -/
theorem admit_error_iff (r : Request) (e : Refusal) :
    admit r = .error e ↔
      (e = .badKey ∧ keyOk r = false) ∨
      (e = .banned ∧ keyOk r = true ∧ notBanned r = false) ∨
      (e = .inviteOnly ∧ keyOk r = true ∧ notBanned r = true ∧ inviteOk r = false) ∨
      (e = .full ∧ keyOk r = true ∧ notBanned r = true ∧ inviteOk r = true ∧
        notFull r = false) := by
  unfold admit
  cases keyOk r <;> cases notBanned r <;> cases inviteOk r <;> cases notFull r <;>
    cases e <;> simp

/-- the channel-level verdict is never 405 -/
theorem admit_ne_tooMany (r : Request) : admit r ≠ .error .tooMany := by
  intro h
  have := (admit_error_iff r .tooMany).mp h
  simp at this

/-- the reply texts are those of the server's reply table -/
theorem line_eq (client chname : Str) :
    Refusal.badKey.line client chname = ErrBadChannelKey475 client chname ∧
    Refusal.banned.line client chname = ErrBannedFromChan474 client chname ∧
    Refusal.inviteOnly.line client chname = ErrInviteOnlyChan473 client chname ∧
    Refusal.full.line client chname = ErrChannelIsFull471 client chname ∧
    Refusal.tooMany.line client chname = ErrTooManyChannels405 client chname :=
  ⟨rfl, rfl, rfl, rfl, rfl⟩

end Spec

/-- the request the model's `joinCheckExisting` answers.  The model's key argument is
    `none` (no key list given) or `some k` (the list entry at the channel's position). -/
def req (ch : Channel) (chname : Str) (key : Option (Option Str)) (source : Str)
    (invitedTo : KSet) : Spec.Request :=
  { C := ch, chname := chname, key := key.join, source := source, invited := invitedTo }

/-! ## 2. the admission test of one existing channel -/

/-- master equation: decision and replies of `joinCheckExisting`, members and non-members. -/
theorem joinCheckExisting_eq (ch : Channel) (chname : Str) (key : Option (Option Str))
    (source nick client : Str) (invitedTo : KSet) :
    joinCheckExisting ch chname key source nick client invitedTo =
      (Spec.admitted (req ch chname key source invitedTo) && !(Map.contains nick ch.users),
       match Spec.admit (req ch chname key source invitedTo) with
       | .ok _ => []
       | .error e => [e.line client chname]) := by
  have hB : Spec.notBanned (req ch chname key source invitedTo) = !(ch.modes.banned source) := by
    simp only [banned_eq_glob, Spec.notBanned, Spec.matchesAny, req, Bool.not_and, Bool.not_not]
  have hI : Spec.inviteOk (req ch chname key source invitedTo) =
      (!ch.modes.inviteOnly || KSet.mem chname invitedTo ||
        ch.modes.inviteException.any (fun e => matchWildcard e source)) := by
    rw [Bool.eq_iff_iff, Spec.inviteOk_iff]
    simp only [req, Bool.or_eq_true, Bool.not_eq_true', KSet.mem_iff, List.any_eq_true,
      C14.matchWildcard_iff_Matches, or_assoc]
  have hK : ∀ key, Spec.keyOk (req ch chname key source invitedTo) =
      match ch.modes.key, key with
      | none, _ => true
      | some k, some (some g) => k == g
      | some _, _ => false := by
    intro key
    unfold Spec.keyOk req
    rcases ch.modes.key with _ | k
    · rfl
    · rcases key with _ | _ | g
      · simp
      · simp
      · by_cases h : g = k
        · subst h; simp
        · simp [h, Ne.symm h]
  have hF : Spec.notFull (req ch chname key source invitedTo) =
      match ch.modes.clientLimit with
      | none => true
      | some l => decide (ch.users.length < l) := rfl
  rcases hk : ch.modes.key with _ | k <;> rcases key with _ | _ | g <;>
    rcases hl : ch.modes.clientLimit with _ | l
  all_goals
    simp only [joinCheckExisting, Spec.admitted, Spec.admit, hK, hF, hB, hI, hk, hl]
    generalize ch.modes.banned source = b1
    generalize (!ch.modes.inviteOnly || KSet.mem chname invitedTo ||
        ch.modes.inviteException.any (fun e => matchWildcard e source)) = b2
    generalize Map.contains nick ch.users = b3
    try generalize decide (ch.users.length < l) = b4
    try generalize (k == g) = b5
    cases b1 <;> cases b2 <;> cases b3 <;> (try cases b4) <;> (try cases b5) <;> first | rfl | simp
/-- **C07, decision.**  A non-member is admitted to an existing channel iff all four
    channel-level conditions hold. -/
theorem join_existing_iff (ch : Channel) (chname : Str) (key : Option (Option Str))
    (source nick client : Str) (invitedTo : KSet)
    (hnm : Map.contains nick ch.users = false) :
    (joinCheckExisting ch chname key source nick client invitedTo).1 = true ↔
      Spec.admit (req ch chname key source invitedTo) = .ok () := by
  rw [joinCheckExisting_eq, Spec.admit_ok_iff_admitted]
  simp [hnm]

/-- the same, spelled out -/
theorem join_existing_iff' (ch : Channel) (chname : Str) (key : Option (Option Str))
    (source nick client : Str) (invitedTo : KSet)
    (hnm : Map.contains nick ch.users = false) :
    (joinCheckExisting ch chname key source nick client invitedTo).1 = true ↔
      (∀ k, ch.modes.key = some k → key.join = some k) ∧
      ((¬ ∃ b ∈ ch.modes.ban, C14.Matches b source) ∨
        (∃ e ∈ ch.modes.exception, C14.Matches e source)) ∧
      (ch.modes.inviteOnly = false ∨ chname ∈ invitedTo ∨
        (∃ e ∈ ch.modes.inviteException, C14.Matches e source)) ∧
      (∀ l, ch.modes.clientLimit = some l → ch.users.length < l) := by
  rw [join_existing_iff _ _ _ _ _ _ _ hnm, Spec.admit_ok_iff, Spec.keyOk_iff, Spec.notBanned_iff,
    Spec.inviteOk_iff, Spec.notFull_iff]
  rfl

/-- **C07, replies of the channel-level test** (members and non-members alike): nothing when
    the four conditions hold, otherwise exactly ONE line, that of the first failing condition
    in the order 475, 474, 473, 471 (later conditions are not evaluated). -/
theorem join_existing_replies (ch : Channel) (chname : Str) (key : Option (Option Str))
    (source nick client : Str) (invitedTo : KSet) :
    (joinCheckExisting ch chname key source nick client invitedTo).2 =
      match Spec.admit (req ch chname key source invitedTo) with
      | .ok _ => []
      | .error e => [e.line client chname] := by
  rw [joinCheckExisting_eq]

/-- a refused non-member gets exactly one error line: the first failing condition's -/
theorem join_refusal_replies (ch : Channel) (chname : Str) (key : Option (Option Str))
    (source nick client : Str) (invitedTo : KSet)
    (hnm : Map.contains nick ch.users = false)
    (href : (joinCheckExisting ch chname key source nick client invitedTo).1 = false) :
    ∃ e, Spec.admit (req ch chname key source invitedTo) = .error e ∧ e ≠ .tooMany ∧
      (joinCheckExisting ch chname key source nick client invitedTo).2 = [e.line client chname] := by
  have h1 := join_existing_iff ch chname key source nick client invitedTo hnm
  rw [join_existing_replies]
  cases hadm : Spec.admit (req ch chname key source invitedTo) with
  | ok u => cases u; rw [h1.mpr hadm] at href; cases href
  | error e =>
    refine ⟨e, rfl, ?_, rfl⟩
    rintro rfl
    exact Spec.admit_ne_tooMany _ hadm

/-- an admitted JOIN produces no reply from the channel-level test -/
theorem join_admitted_no_reply (ch : Channel) (chname : Str) (key : Option (Option Str))
    (source nick client : Str) (invitedTo : KSet)
    (h : (joinCheckExisting ch chname key source nick client invitedTo).1 = true) :
    (joinCheckExisting ch chname key source nick client invitedTo).2 = [] := by
  rw [joinCheckExisting_eq] at h ⊢
  simp only [Bool.and_eq_true] at h
  rw [(Spec.admit_ok_iff_admitted _).mpr h.1]

/-- a member is never "joined" again; it is refused SILENTLY only if the four conditions hold —
    otherwise it still receives the error of the first failing one (the membership test comes
    last in the code). -/
theorem join_member (ch : Channel) (chname : Str) (key : Option (Option Str))
    (source nick client : Str) (invitedTo : KSet)
    (hm : Map.contains nick ch.users = true) :
    (joinCheckExisting ch chname key source nick client invitedTo).1 = false ∧
    (Spec.admit (req ch chname key source invitedTo) = .ok () →
      (joinCheckExisting ch chname key source nick client invitedTo).2 = []) := by
  rw [joinCheckExisting_eq]
  refine ⟨by simp [hm], fun h => ?_⟩
  simp only [h]

/-! ## 3. the first loop: all listed channels, quota -/

/-- `joinDecide` on a non-empty list: the head is decided by `Spec.decideOne` against the
    unchanged pre-state `w`, with the key at the same list position; the running count grows by
    one iff the head is accepted; the rest is decided with the remaining keys. -/
theorem joinDecide_cons (cfg : Cfg) (w : World) (cn : Conn) (nick : Str) (invitedTo : KSet)
    (chn : Str) (rest : List Str) (keys : List (Option Str)) (cnt : Nat) :
    joinDecide cfg w cn nick invitedTo (chn :: rest) keys cnt =
      let d := Spec.decideOne cfg w cn.source nick cn.clientName invitedTo chn keys.head?.join cnt
      let r := joinDecide cfg w cn nick invitedTo rest keys.tail (if d.join then cnt + 1 else cnt)
      ((d.join, d.create) :: r.1, d.errs ++ r.2.1, r.2.2) := by
  rcases keys with _ | ⟨k, ks⟩ <;>
  rcases hl : Map.lookup chn w.channels with _ | C <;>
  rcases hm : cfg.maxJoins with _ | mj
  all_goals
    simp only [joinDecide, Spec.decideOne, Spec.chanOk, Spec.chanErrs, Spec.quotaOk, hl, hm,
      List.drop_one, List.tail, List.head?, joinCheckExisting_eq, req, Spec.line_eq]
    first
      | (by_cases hc : cnt < mj <;> simp [hc, Nat.not_le.mpr, Nat.le_of_not_lt])
      | simp

theorem joinDecide_nil (cfg : Cfg) (w : World) (cn : Conn) (nick : Str) (invitedTo : KSet)
    (keys : List (Option Str)) (cnt : Nat) :
    joinDecide cfg w cn nick invitedTo [] keys cnt = ([], [], cnt) := by
  simp [joinDecide]

end Irc.C07
