/-
  Irc.Props.InvPropsLemmas — helper lemmas shared by the property files C02, C04, C06, C19
  (corollaries of the global invariant and of the per-handler theorems in Irc/InvProofs).
  Everything lives in `namespace Irc.IP`.
-/
import Irc.InvProofs.Step

namespace Irc.IP
open Irc Tear

/-! ### 1. connections -/

theorem conn?_mem {w : World} (h : InvCore w) {cn : Conn} (hm : cn ∈ w.conns) :
    w.conn? cn.id = some cn := Tear.conn?_of_mem h.connsNodup hm

theorem conn_unique {w : World} (h : InvCore w) {a b : Conn} (ha : a ∈ w.conns) (hb : b ∈ w.conns)
    (e : a.id = b.id) : a = b := conn_eq_of_id h.connsNodup ha hb e

/-- two live authenticated connections with the same nick are the same connection -/
theorem owner_unique {w : World} (h : InvCore w) {a b : Conn} {n : Str}
    (ha : a ∈ w.conns) (haa : a.authenticated = true) (han : a.nick = some n)
    (hb : b ∈ w.conns) (hba : b.authenticated = true) (hbn : b.nick = some n) : a = b := by
  obtain ⟨n1, u1, e1, l1, o1⟩ := h.authOwns a ha haa
  obtain ⟨n2, u2, e2, l2, o2⟩ := h.authOwns b hb hba
  rw [han] at e1; cases e1
  rw [hbn] at e2; cases e2
  rw [l1] at l2; cases l2
  exact conn_unique h ha hb (o1.symm.trans o2)

theorem filter_setConn_ne (l : List Conn) (cn' : Conn) :
    (l.map (fun x => if x.id == cn'.id then cn' else x)).filter (·.id != cn'.id) =
      l.filter (·.id != cn'.id) := by
  induction l with
  | nil => rfl
  | cons a l ih =>
    simp only [List.map_cons, List.filter_cons]
    by_cases e : a.id = cn'.id
    · have e1 : (a.id == cn'.id) = true := by simpa using e
      have e2 : (cn'.id != cn'.id) = false := by simp
      have e3 : (a.id != cn'.id) = false := by simp [e]
      simp only [e1, ↓reduceIte, e2, e3, Bool.false_eq_true, ih]
    · have e1 : (a.id == cn'.id) = false := by simpa using e
      simp only [e1, Bool.false_eq_true, ↓reduceIte]
      have e2 : (a.id != cn'.id) = true := by simpa using e
      simp only [e2, ↓reduceIte, ih]

/-! ### 2. `remove_user` does not look at the connection list, the slot counter or `cmdCounts` -/

/-- `{ w with conns := cs, connsCount := k, cmdCounts := cc }` -/
def upd (cs : List Conn) (k : Nat) (cc : List Nat) (w : World) : World :=
  { w with conns := cs, connsCount := k, cmdCounts := cc }

theorem removeUserFromChannel_upd (w : World) (ch n : Str) (cs : List Conn) (k : Nat) (cc : List Nat) :
    (upd cs k cc w).removeUserFromChannel ch n = upd cs k cc (w.removeUserFromChannel ch n) := by
  unfold World.removeUserFromChannel upd
  simp only
  split
  · split
    · rfl
    · split <;> rfl
  · rfl

theorem fold_removeUserFromChannel_upd (n : Str) (l : List Str) (w : World) (cs : List Conn) (k : Nat)
    (cc : List Nat) :
    l.foldl (fun w chn => w.removeUserFromChannel chn n) (upd cs k cc w) =
      upd cs k cc (l.foldl (fun w chn => w.removeUserFromChannel chn n) w) := by
  induction l generalizing w with
  | nil => rfl
  | cons a l ih =>
    simp only [List.foldl_cons]
    rw [removeUserFromChannel_upd, ih]

def rmOper (b : Bool) (w : World) : World :=
  if b then
    (if w.operatorsCount = 0 then w.panic "remove_user: operators_count underflow"
     else { w with operatorsCount := w.operatorsCount - 1 })
  else w

def rmInvisible (b : Bool) (w : World) : World :=
  if b then
    (if w.invisibleCount = 0 then w.panic "remove_user: invisible_users_count underflow"
     else { w with invisibleCount := w.invisibleCount - 1 })
  else w

def rmWallops (n : Str) (w : World) : World := { w with wallops := KSet.erase n w.wallops }

theorem removeUser_unfold' (w : World) (n : Str) :
    w.removeUser n =
      match Map.lookup n w.users with
      | none => w
      | some user =>
        World.pushHistory
          (user.channels.foldl (fun w chn => w.removeUserFromChannel chn n)
            (rmWallops n (rmInvisible user.modes.invisible (rmOper user.modes.isLocalOper
                ({ w with users := Map.erase n w.users } : World)))))
          n user.history := rfl

theorem rmOper_upd (b : Bool) (cs : List Conn) (k : Nat) (cc : List Nat) (w : World) :
    rmOper b (upd cs k cc w) = upd cs k cc (rmOper b w) := by
  unfold rmOper upd
  split
  · split <;> rfl
  · rfl

theorem rmInvisible_upd (b : Bool) (cs : List Conn) (k : Nat) (cc : List Nat) (w : World) :
    rmInvisible b (upd cs k cc w) = upd cs k cc (rmInvisible b w) := by
  unfold rmInvisible upd
  split
  · split <;> rfl
  · rfl

theorem removeUser_upd (w : World) (n : Str) (cs : List Conn) (k : Nat) (cc : List Nat) :
    (upd cs k cc w).removeUser n = upd cs k cc (w.removeUser n) := by
  rw [removeUser_unfold', removeUser_unfold']
  show (match Map.lookup n w.users with
        | none => upd cs k cc w
        | some user => _) = _
  cases Map.lookup n w.users with
  | none => rfl
  | some user =>
    simp only
    have e1 : ({ upd cs k cc w with users := Map.erase n (upd cs k cc w).users } : World) =
        upd cs k cc ({ w with users := Map.erase n w.users } : World) := rfl
    rw [e1, rmOper_upd, rmInvisible_upd]
    have e2 : ∀ W : World, rmWallops n (upd cs k cc W) = upd cs k cc (rmWallops n W) := fun _ => rfl
    rw [e2, fold_removeUserFromChannel_upd]
    rfl

theorem upd_self (w : World) : upd w.conns w.connsCount w.cmdCounts w = w := rfl

theorem removeUser_conns_eq (w : World) (n : Str) : (w.removeUser n).conns = w.conns := by
  have h := removeUser_upd w n w.conns w.connsCount w.cmdCounts
  rw [upd_self] at h
  exact (congrArg World.conns h).trans rfl

theorem removeUser_connsCount_eq (w : World) (n : Str) : (w.removeUser n).connsCount = w.connsCount := by
  have h := removeUser_upd w n w.conns w.connsCount w.cmdCounts
  rw [upd_self] at h
  exact (congrArg World.connsCount h).trans rfl

theorem removeUser_cmdCounts_eq (w : World) (n : Str) : (w.removeUser n).cmdCounts = w.cmdCounts := by
  have h := removeUser_upd w n w.conns w.connsCount w.cmdCounts
  rw [upd_self] at h
  exact (congrArg World.cmdCounts h).trans rfl

/-! ### 3. `teardown` looks only at id, nick and authentication state of the closing connection -/

theorem teardown_eq_of_conn? {w : World} {c : Nat} {cn : Conn} (hc : w.conn? c = some cn) :
    teardown w c =
      if cn.authenticated = true then
        (match cn.nick with
         | some n => { w.removeUser n with conns := w.conns.filter (·.id != c), connsCount := w.connsCount - 1 }
         | none => { w with conns := w.conns.filter (·.id != c), connsCount := w.connsCount - 1 })
      else { w with conns := w.conns.filter (·.id != c), connsCount := w.connsCount - 1 } := by
  unfold teardown
  rw [hc]
  cases ha : cn.authenticated with
  | false => simp [ha]
  | true =>
    cases hn : cn.nick with
    | none => simp [ha, hn]
    | some n => simp [ha, hn, removeUser_conns_eq, removeUser_connsCount_eq]

/-- replacing the record of the closing connection by one with the same id, nick and authentication
    state (e.g. with the `quit` flag set) does not change what `teardown` produces -/
theorem teardown_setConn {w : World} (h : InvCore w) {cn cn' : Conn} (hm : cn ∈ w.conns)
    (hid : cn'.id = cn.id) (hnick : cn'.nick = cn.nick) (hauth : cn'.authenticated = cn.authenticated) :
    teardown (w.setConn cn') cn.id = teardown w cn.id := by
  have hl : Live w cn.id := ⟨cn, hm, rfl⟩
  rw [teardown_eq_of_conn? (Reg.conn?_setConn_live hl hid), teardown_eq_of_conn? (conn?_mem h hm)]
  have hf : (w.setConn cn').conns.filter (·.id != cn.id) = w.conns.filter (·.id != cn.id) := by
    rw [Reg.World.setConn_conns, ← hid]; exact filter_setConn_ne w.conns cn'
  rw [hauth, hnick, hf]
  have hs : w.setConn cn' = upd (w.setConn cn').conns w.connsCount w.cmdCounts w := rfl
  split
  · split
    · rename_i n _
      rw [hs, removeUser_upd]
      simp only [upd, removeUser_cmdCounts_eq]
    · rfl
  · rfl

/-! ### 4. the settling phase, exactly -/

def flagged (cn : Conn) : Bool := cn.quit || cn.killedBy.isSome

theorem flagged_false {cn : Conn} : flagged cn = false ↔ cn.quit = false ∧ cn.killedBy = none := by
  unfold flagged
  cases cn.quit <;> cases cn.killedBy <;> simp

theorem settleW_of_unflagged {w : World} {i : Nat}
    (hu : ∀ cn, w.conn? i = some cn → cn.quit = false ∧ cn.killedBy = none) : settleW w i = w := by
  unfold settleW
  split
  · rfl
  · rename_i cn hc
    obtain ⟨h1, h2⟩ := hu cn hc
    simp [h1, h2]

/-- a flagged live connection is torn down by its settling step -/
theorem settleW_of_flagged {w : World} (h : InvCore w) {cn : Conn} (hm : cn ∈ w.conns)
    (hf : flagged cn = true) : settleW w cn.id = teardown w cn.id := by
  unfold settleW
  rw [conn?_mem h hm]
  simp only
  cases hq : cn.quit with
  | true => simp
  | false =>
    cases hk : cn.killedBy with
    | none => simp [flagged, hq, hk] at hf
    | some p =>
      simp only [Bool.false_eq_true, ↓reduceIte]
      exact teardown_setConn h hm rfl rfl rfl

theorem foldl_settleW_settled (l : List Nat) (w : World)
    (hs : ∀ cn, cn ∈ w.conns → cn.quit = false ∧ cn.killedBy = none) : l.foldl settleW w = w := by
  induction l with
  | nil => rfl
  | cons i l ih =>
    rw [List.foldl_cons, settleW_of_unflagged (fun cn hc => hs cn (conn?_some hc).1), ih]

/-- with exactly one flagged connection the settling phase is the teardown of that connection -/
theorem foldl_settleW_one {w : World} (h : InvCore w) {cn : Conn} (hm : cn ∈ w.conns)
    (hf : flagged cn = true)
    (ho : ∀ y, y ∈ w.conns → y.id ≠ cn.id → y.quit = false ∧ y.killedBy = none) (l : List Nat) :
    l.foldl settleW w = if cn.id ∈ l then teardown w cn.id else w := by
  induction l with
  | nil => rfl
  | cons i l ih =>
    rw [List.foldl_cons]
    by_cases e : i = cn.id
    · subst e
      rw [settleW_of_flagged h hm hf]
      simp only [List.mem_cons, true_or, ↓reduceIte]
      apply foldl_settleW_settled
      intro y hy
      rw [teardown_conns h hm, List.mem_filter] at hy
      exact ho y hy.1 (by simpa using hy.2)
    · rw [settleW_of_unflagged (fun y hc => ho y (conn?_some hc).1 (by rw [(conn?_some hc).2]; exact e)), ih]
      have : (cn.id ∈ i :: l) ↔ cn.id ∈ l := by
        simp only [List.mem_cons, or_iff_right_iff_imp]
        intro e'; exact absurd e'.symm e
      simp only [this]

theorem settle_one {w : World} (h : InvCore w) {cn : Conn} (hm : cn ∈ w.conns) (hf : flagged cn = true)
    (ho : ∀ y, y ∈ w.conns → y.id ≠ cn.id → y.quit = false ∧ y.killedBy = none)
    (cfg : Cfg) (outs : List (Nat × Str)) (evs : List Str) :
    (settle cfg w outs evs).1 = teardown w cn.id := by
  unfold settle
  rw [settle_w, foldl_settleW_one h hm hf ho, if_pos (List.mem_map.mpr ⟨cn, hm, rfl⟩)]

/-- `quit` is set on one connection of a settled world, then the settling phase runs: exactly that
    connection is torn down -/
theorem finish_quit {w : World} (h : Inv w) {cn : Conn} (hm : cn ∈ w.conns) {x : Ctx} (hx : x.w = w)
    (cfg : Cfg) (evs : List Str) :
    (finish cfg cn.id (x.setConn { cn with quit := true }) evs).w = teardown w cn.id := by
  have hm' := (mem_setConn (w := w) (cn' := { cn with quit := true }) hm rfl)
  have hi : InvCore (w.setConn { cn with quit := true }) := invCore_setConn_quit h.toInvCore hm cn.killedBy
  unfold finish
  simp only [Ctx.setConn_w, hx]
  refine (settle_one hi (cn := { cn with quit := true }) ((hm' _).mpr (Or.inl rfl)) (by simp [flagged])
    (by
      intro y hy hne
      rcases (hm' y).mp hy with rfl | ⟨hy', _⟩
      · exact absurd rfl hne
      · exact h.settled y hy') cfg _ evs).trans ?_
  exact teardown_setConn h.toInvCore (cn := cn) (cn' := { cn with quit := true }) hm rfl rfl rfl

/-! ### 5. `bumpCount` commutes with everything relevant -/

theorem inv_bumpCount {w : World} (h : Inv w) (i : Nat) : Inv (bumpCount w i) :=
  { toInvCore := invCore_bumpCount h.toInvCore i, settled := h.settled, notKilled := h.notKilled }

theorem teardown_bumpCount (w : World) (c i : Nat) :
    teardown (bumpCount w i) c = bumpCount (teardown w c) i := by
  cases hc : w.conn? c with
  | none =>
    have hc' : (bumpCount w i).conn? c = none := hc
    unfold teardown; rw [hc, hc']
  | some cn =>
    have hc' : (bumpCount w i).conn? c = some cn := hc
    rw [teardown_eq_of_conn? hc, teardown_eq_of_conn? hc']
    have hb : bumpCount w i = upd w.conns w.connsCount (w.cmdCounts.set i (w.cmdCounts.getD i 0 + 1)) w := rfl
    split
    · split
      · rw [hb, removeUser_upd]
        simp only [upd, bumpCount, removeUser_cmdCounts_eq]
      · rfl
    · rfl

/-! ### 6. the ends of a connection at `step` level -/

theorem finish_quit' {w : World} (h : Inv w) {cn : Conn} (hm : cn ∈ w.conns) {y : Ctx}
    (hy : y.w = w.setConn { cn with quit := true }) (cfg : Cfg) (evs : List Str) :
    (finish cfg cn.id y evs).w = teardown w cn.id := by
  have := finish_quit h hm (x := { w := w, direct := y.direct, queued := y.queued }) rfl cfg evs
  rw [← this]
  unfold finish
  simp only [Ctx.setConn_w, hy, Ctx.setConn_direct, Ctx.setConn_queued]

theorem step_eof_w {cfg : Cfg} {w : World} (h : Inv w) {cn : Conn} (hm : cn ∈ w.conns) :
    (step cfg w (.eof cn.id)).w = teardown w cn.id := by
  unfold step
  simp only [conn?_mem h.toInvCore hm]
  exact finish_quit' h hm rfl cfg []

theorem step_reset_w {cfg : Cfg} {w : World} (h : Inv w) {cn : Conn} (hm : cn ∈ w.conns) :
    (step cfg w (.reset cn.id)).w = teardown w cn.id := by
  unfold step
  simp only [conn?_mem h.toInvCore hm]
  exact finish_quit' h hm rfl cfg []

theorem step_badUtf8_w {cfg : Cfg} {w : World} (h : Inv w) {cn : Conn} (hm : cn ∈ w.conns) :
    (step cfg w (.badUtf8 cn.id)).w = teardown w cn.id := by
  unfold step
  simp only [conn?_mem h.toInvCore hm]
  exact finish_quit' h hm rfl cfg []

theorem step_tooLong_w {cfg : Cfg} {w : World} (h : Inv w) {cn : Conn} (hm : cn ∈ w.conns) :
    (step cfg w (.tooLong cn.id)).w = teardown w cn.id := by
  unfold step
  simp only [conn?_mem h.toInvCore hm]
  exact finish_quit' h hm rfl cfg []

/-- a line that parses to the command QUIT -/
def IsQuitLine (s : Str) : Prop :=
  ∃ msg, Message.parse s = .ok msg ∧ Command.fromMessage msg = .ok .QUIT

theorem handleLine_quit {cfg : Cfg} {c : Nat} {s : Str} {x : Ctx} (hq : IsQuitLine s) :
    handleLine cfg c s x =
      processQuit cfg c (x.modifyW (fun w => bumpCount w CmdId.QUIT.index)) := by
  obtain ⟨msg, hp, hc⟩ := hq
  unfold handleLine
  simp only [hp, hc, allowedUnregistered, Bool.not_true, Bool.false_and, Bool.false_eq_true, ↓reduceIte,
    dispatch]
  rfl

theorem step_quit_w {cfg : Cfg} {w : World} (h : Inv w) {cn : Conn} (hm : cn ∈ w.conns) {s : Str}
    (hq : IsQuitLine s) :
    (step cfg w (.line cn.id s)).w = bumpCount (teardown w cn.id) CmdId.QUIT.index := by
  unfold step
  simp only [conn?_mem h.toInvCore hm]
  rw [handleLine_quit hq, ← teardown_bumpCount]
  have hb := inv_bumpCount h CmdId.QUIT.index
  have hm' : cn ∈ (bumpCount w CmdId.QUIT.index).conns := hm
  apply finish_quit' hb hm'
  unfold processQuit
  simp only [Ctx.reply_w, Ctx.setConn_w, Ctx.modifyW_w]
  have : (Ctx.modifyW { w := w } fun w => bumpCount w CmdId.QUIT.index).conn cn.id = cn := by
    apply Reg.Ctx.conn_of_conn?
    exact conn?_mem h.toInvCore hm
  rw [this]

/-! ### 7. a line of a connection that is not (yet) registered -/

theorem regEffect_of_bump {c i : Nat} {x y : Ctx}
    (h : RegEffect c (x.modifyW (fun w => bumpCount w i)) y) : RegEffect c x y := h

theorem regEffect_reply {c : Nat} {x y : Ctx} (cfg : Cfg) (t : Str) (h : RegEffect c x y) :
    RegEffect c x (y.reply cfg t) := h

/-- whatever line an unregistered live connection sends, its effect on the registered users is that
    of a registration command (`RegEffect`): none, or its own registration under a free nick -/
theorem handleLine_unreg_regEffect {cfg : Cfg} {c : Nat} {s : Str} {x : Ctx}
    (h : InvCore x.w) (hl : Live x.w c) (hu : (x.conn c).authenticated = false) :
    RegEffect c x (handleLine cfg c s x) := by
  unfold handleLine
  simp only
  split
  · exact Reg.regEffect_refl_of_unauth rfl hu
  · exact Reg.regEffect_refl_of_unauth rfl hu
  · exact Reg.regEffect_refl_of_unauth rfl hu
  · rename_i msg _
    split
    · exact Reg.regEffect_refl_of_unauth rfl hu
    · rename_i cmd hcmd
      apply regEffect_of_bump (i := cmd.id.index)
      have hb : InvCore (x.modifyW (fun w => bumpCount w cmd.id.index)).w := invCore_bumpCount h _
      have hlb : Live (x.modifyW (fun w => bumpCount w cmd.id.index)).w c := hl
      have hub : ((x.modifyW (fun w => bumpCount w cmd.id.index)).conn c).authenticated = false := hu
      generalize x.modifyW (fun w => bumpCount w cmd.id.index) = x' at hb hlb hub
      split
      · exact Reg.regEffect_refl_of_unauth rfl hub
      · rename_i hg
        have hall : allowedUnregistered cmd = true := by
          rw [hu] at hg
          simpa using hg
        have hk := unregistered_nick_user_pass_cap_keep_users (cfg := cfg) hb hlb hub
        cases cmd with
        | CAP sub caps v => exact (hk [] ⟨none, [], []⟩ [] [] [] sub caps).2.2.2
        | AUTHENTICATE => exact Reg.regEffect_refl_of_unauth rfl hub
        | PASS p => exact (hk [] ⟨none, [], []⟩ [] [] p .LS none).2.2.1
        | NICK n => exact (hk n msg [] [] [] .LS none).1
        | USER u a b r => exact (hk [] ⟨none, [], []⟩ u r [] .LS none).2.1
        | QUIT =>
          obtain ⟨_, hcid⟩ := Reg.Ctx.conn_of_live hlb
          exact regEffect_reply cfg _ (Reg.setConn_regEffect hlb hcid hub)
        | _ => simp [allowedUnregistered] at hall

/-! ### 8. more facts about `teardown` -/

theorem map_eq_nil_of_lookup_none {α : Type} (m : Map α) (h : ∀ k, Map.lookup k m = none) : m = [] := by
  cases m with
  | nil => rfl
  | cons p m =>
    obtain ⟨k, v⟩ := p
    have := h k
    simp [Map.lookup] at this

theorem teardown_mem_conns {w : World} (h : InvCore w) {cn : Conn} (hm : cn ∈ w.conns) (y : Conn) :
    y ∈ (teardown w cn.id).conns ↔ y ∈ w.conns ∧ y.id ≠ cn.id := by
  rw [teardown_conns h hm, List.mem_filter]
  simp

theorem teardown_connsCount {w : World} (h : InvCore w) {cn : Conn} (hm : cn ∈ w.conns) :
    (teardown w cn.id).connsCount + 1 = w.connsCount ∧
    (teardown w cn.id).connsCount = (teardown w cn.id).conns.length ∧
    (teardown w cn.id).conns.length + 1 = w.conns.length := by
  have h1 := (invCore_teardown h cn hm).slots
  have h2 := filter_id_length h.connsNodup hm
  rw [← teardown_conns h hm] at h2
  have h3 := h.slots
  omega

theorem teardown_wallops_others {w : World} (h : InvCore w) {cn : Conn} (hm : cn ∈ w.conns)
    (ha : cn.authenticated = true) {n : Str} (hn : cn.nick = some n) (m : Str) (hne : m ≠ n) :
    KSet.mem m (teardown w cn.id).wallops = KSet.mem m w.wallops := by
  obtain ⟨u, CH, _, _, e, _, _⟩ := teardown_auth_eq h hm ha hn
  rw [e]
  show KSet.mem m (KSet.erase n w.wallops) = _
  rw [KSet.mem_erase]; simp [hne]

theorem teardown_srvQuit {w : World} (h : InvCore w) {cn : Conn} (hm : cn ∈ w.conns) :
    (teardown w cn.id).srvQuit = w.srvQuit ∧ (teardown w cn.id).cmdCounts = w.cmdCounts := by
  cases ha : cn.authenticated with
  | false =>
    obtain ⟨_, _, _, _, _, _, _, a, b, _⟩ := teardown_unauthenticated_noop h hm ha
    exact ⟨a, b⟩
  | true =>
    obtain ⟨n, u, hn, _, _⟩ := h.authOwns cn hm ha
    obtain ⟨u, CH, _, _, e, _, _⟩ := teardown_auth_eq h hm ha hn
    rw [e]; exact ⟨rfl, rfl⟩

/-- a channel disappears with the departing user exactly if it is not preconfigured and the user was
    its only member -/
theorem teardown_vanish_iff {w : World} (h : InvCore w) {cn : Conn} (hm : cn ∈ w.conns)
    (ha : cn.authenticated = true) {n : Str} (hn : cn.nick = some n) {ch : Str} {C : Channel}
    (hC : Map.lookup ch w.channels = some C) :
    Map.lookup ch (teardown w cn.id).channels = none ↔
      (C.preconfigured = false ∧ ∀ m, Map.contains m C.users = true ↔ m = n) := by
  obtain ⟨_, hk, hv, _⟩ := teardown_keeps_others h hm ha hn
  constructor
  · intro hnone
    obtain ⟨hp, hc, hall⟩ := hv ch C hC hnone
    exact ⟨hp, fun m => ⟨hall m, fun e => e ▸ hc⟩⟩
  · rintro ⟨hp, hall⟩
    cases hC' : Map.lookup ch (teardown w cn.id).channels with
    | none => rfl
    | some C' =>
      exfalso
      obtain ⟨C0, hC0, hs⟩ := hk ch C' hC'
      rw [hC] at hC0; cases hC0
      have hgone := ((teardown_removes_user h hm ha hn).2.2 ch C' hC').1
      have hemp : C'.users = [] := by
        apply map_eq_nil_of_lookup_none
        intro k
        by_cases e : k = n
        · subst e; exact (Map.contains_false_iff _ _).mp hgone
        · rw [hs.2.2.2.2.2.2.2.2.2.2.2.2.2.2.1 k e]
          apply (Map.contains_false_iff _ _).mp
          cases hc : Map.contains k C.users with
          | false => rfl
          | true => exact absurd ((hall k).mp hc) e
      have := (invCore_teardown h cn hm).noEmptyAdHoc ch C' hC' hemp
      rw [hs.2.2.2.1, hp] at this
      cases this

/-- closing a live connection leaves every user entry alone that is not the connection's own -/
theorem teardown_lookup_other {w : World} (h : InvCore w) {cn : Conn} (hm : cn ∈ w.conns) {m : Str}
    (hne : ¬ (cn.authenticated = true ∧ cn.nick = some m)) :
    Map.lookup m (teardown w cn.id).users = Map.lookup m w.users := by
  cases ha : cn.authenticated with
  | false => rw [(teardown_unauthenticated_noop h hm ha).1]
  | true =>
    obtain ⟨n, u, hn, _, _⟩ := h.authOwns cn hm ha
    refine (teardown_keeps_others h hm ha hn).1 m ?_
    rintro rfl
    exact hne ⟨ha, hn⟩

/-! ### 9. the ways a connection ends by itself, at `step` level -/

/-- the stream-end events of `step` -/
inductive IsEnd (c : Nat) : Event → Prop
  | eof : IsEnd c (.eof c)
  | reset : IsEnd c (.reset c)
  | badUtf8 : IsEnd c (.badUtf8 c)
  | tooLong : IsEnd c (.tooLong c)

/-- `e` is an event by which connection `c` ends itself: its stream ends (EOF, reset, undecodable
    bytes, over-long line) or it sends QUIT -/
def EndsItself (c : Nat) (e : Event) : Prop := IsEnd c e ∨ ∃ s, IsQuitLine s ∧ e = .line c s

theorem step_end_w {cfg : Cfg} {w : World} (h : Inv w) {cn : Conn} (hm : cn ∈ w.conns) {e : Event}
    (he : IsEnd cn.id e) : (step cfg w e).w = teardown w cn.id := by
  cases he
  · exact step_eof_w h hm
  · exact step_reset_w h hm
  · exact step_badUtf8_w h hm
  · exact step_tooLong_w h hm

/-- two worlds that differ at most in the STATS counters -/
structure EqUpToCounts (a b : World) : Prop where
  users : a.users = b.users
  channels : a.channels = b.channels
  wallops : a.wallops = b.wallops
  invisibleCount : a.invisibleCount = b.invisibleCount
  operatorsCount : a.operatorsCount = b.operatorsCount
  maxUsers : a.maxUsers = b.maxUsers
  histories : a.histories = b.histories
  conns : a.conns = b.conns
  connsCount : a.connsCount = b.connsCount
  srvQuit : a.srvQuit = b.srvQuit
  panicked : a.panicked = b.panicked

theorem EqUpToCounts.refl (a : World) : EqUpToCounts a a := ⟨rfl, rfl, rfl, rfl, rfl, rfl, rfl, rfl, rfl, rfl, rfl⟩

theorem eqUpToCounts_bump (a : World) (i : Nat) : EqUpToCounts (bumpCount a i) a :=
  ⟨rfl, rfl, rfl, rfl, rfl, rfl, rfl, rfl, rfl, rfl, rfl⟩

/-- every way a live connection of a settled world ends itself is one `teardown` (QUIT also counts the
    command in the STATS table) -/
theorem step_self_end {cfg : Cfg} {w : World} (h : Inv w) {cn : Conn} (hm : cn ∈ w.conns) {e : Event}
    (he : EndsItself cn.id e) : EqUpToCounts (step cfg w e).w (teardown w cn.id) := by
  rcases he with he | ⟨s, hq, rfl⟩
  · rw [step_end_w h hm he]; exact EqUpToCounts.refl _
  · rw [step_quit_w h hm hq]; exact eqUpToCounts_bump _ _

/-! ### 10. the settling phase with several flagged connections -/

theorem settleW_cases {w : World} (h : InvCore w) (i : Nat) :
    settleW w i = w ∨
    ∃ cn, cn ∈ w.conns ∧ cn.id = i ∧ flagged cn = true ∧ settleW w i = teardown w cn.id := by
  cases hc : w.conn? i with
  | none => left; unfold settleW; rw [hc]
  | some cn =>
    obtain ⟨hm, hid⟩ := conn?_some hc
    cases hf : flagged cn with
    | false =>
      left
      apply settleW_of_unflagged
      intro cn' hc'
      rw [hc] at hc'; cases hc'
      exact flagged_false.mp hf
    | true =>
      right
      exact ⟨cn, hm, hid, hf, hid ▸ settleW_of_flagged h hm hf⟩

/-- a user whose owning connection is not flagged survives one settling step unchanged -/
theorem settleW_lookup_unflagged {w : World} (h : InvCore w) (i : Nat) {m : Str} {u : User}
    (hu : Map.lookup m w.users = some u)
    (hf : ∀ y, y ∈ w.conns → y.id = u.owner → flagged y = false) :
    Map.lookup m (settleW w i).users = some u := by
  rcases settleW_cases h i with e | ⟨cn, hm, _, hfl, e⟩
  · rw [e]; exact hu
  · rw [e, teardown_lookup_other h hm, hu]
    rintro ⟨ha, hn⟩
    obtain ⟨n', u', hn', hu', ho'⟩ := h.authOwns cn hm ha
    rw [hn] at hn'; cases hn'
    rw [hu] at hu'; cases hu'
    rw [hf cn hm ho'.symm] at hfl; cases hfl

theorem foldl_settleW_lookup_unflagged (l : List Nat) {w : World} (h : InvCore w) {m : Str} {u : User}
    (hu : Map.lookup m w.users = some u)
    (hf : ∀ y, y ∈ w.conns → y.id = u.owner → flagged y = false) :
    Map.lookup m (l.foldl settleW w).users = some u := by
  induction l generalizing w with
  | nil => exact hu
  | cons i l ih =>
    rw [List.foldl_cons]
    obtain ⟨h1, hc1⟩ := settleW_spec h i
    exact ih h1 (settleW_lookup_unflagged h i hu hf) (fun y hy ho => hf y ((hc1 y).mp hy).1 ho)

/-- the settling phase leaves every user alone whose connection is not flagged -/
theorem settle_lookup_unflagged {w : World} (h : InvCore w) (cfg : Cfg) (outs : List (Nat × Str))
    (evs : List Str) {m : Str} {u : User} (hu : Map.lookup m w.users = some u)
    (hf : ∀ y, y ∈ w.conns → y.id = u.owner → flagged y = false) :
    Map.lookup m (settle cfg w outs evs).1.users = some u := by
  unfold settle
  rw [settle_w]
  exact foldl_settleW_lookup_unflagged _ h hu hf

/-- the settling phase removes the user of every flagged registered connection -/
theorem settle_flagged_gone {w : World} (h : InvCore w) (cfg : Cfg) (outs : List (Nat × Str))
    (evs : List Str) {cn : Conn} (hm : cn ∈ w.conns) (hf : flagged cn = true)
    (ha : cn.authenticated = true) {n : Str} (hn : cn.nick = some n) :
    Map.lookup n (settle cfg w outs evs).1.users = none := by
  obtain ⟨hi, hc⟩ := inv_settle h cfg outs evs
  cases hl : Map.lookup n (settle cfg w outs evs).1.users with
  | none => rfl
  | some u =>
    exfalso
    obtain ⟨y, hy, _, hya, hyn⟩ := hi.userOwned n u hl
    obtain ⟨hyw, hq, hk⟩ := (hc y).mp hy
    have : y = cn := owner_unique h hyw hya hyn hm ha hn
    subst this
    rw [flagged_false.mpr ⟨hq, hk⟩] at hf; cases hf

theorem nodup_of_nodup_ids {l : List Conn} (h : (l.map (·.id)).Nodup) : l.Nodup :=
  List.Pairwise.of_map (·.id) (fun _ _ hne e => hne (congrArg _ e)) h

theorem filter_partition_length {α : Type} (p : α → Bool) (l : List α) :
    (l.filter (fun y => !p y)).length + (l.filter p).length = l.length := by
  induction l with
  | nil => rfl
  | cons a l ih =>
    simp only [List.filter_cons]
    cases p a <;> simp <;> omega

/-- the settling phase frees the slot of every flagged connection and of no other -/
theorem settle_slots {w : World} (h : InvCore w) (cfg : Cfg) (outs : List (Nat × Str)) (evs : List Str) :
    (settle cfg w outs evs).1.connsCount = (settle cfg w outs evs).1.conns.length ∧
    (settle cfg w outs evs).1.conns.length = (w.conns.filter (fun y => !flagged y)).length ∧
    (settle cfg w outs evs).1.connsCount + (w.conns.filter flagged).length = w.connsCount := by
  obtain ⟨hi, hc⟩ := inv_settle h cfg outs evs
  have h1 := hi.slots
  have h2 : (settle cfg w outs evs).1.conns.length = (w.conns.filter (fun y => !flagged y)).length := by
    apply List.Perm.length_eq
    rw [List.perm_ext_iff_of_nodup (nodup_of_nodup_ids hi.connsNodup)
      ((nodup_of_nodup_ids h.connsNodup).sublist List.filter_sublist)]
    intro y
    rw [hc y, List.mem_filter]
    simp only [Bool.not_eq_eq_eq_not, Bool.not_true, flagged_false]
  refine ⟨h1, h2, ?_⟩
  have h3 := filter_partition_length flagged w.conns
  have := h.slots
  omega

/-! ### 11. the number of connections -/

theorem sameConnIds_length {w w' : World} (h : SameConnIds w w') : w'.conns.length = w.conns.length := by
  have := congrArg List.length h
  simpa using this

theorem finish_conns_length_le {cfg : Cfg} {c : Nat} {x : Ctx} {evs : List Str} (h : InvCore x.w) :
    (finish cfg c x evs).w.conns.length ≤ x.w.conns.length := by
  unfold finish
  simp only
  rw [(settle_slots h cfg _ evs).2.1]
  exact List.length_filter_le _ _

/-- no event other than `connect` increases the number of connections -/
theorem step_conns_length_le {cfg : Cfg} {w : World} (h : Inv w) {e : Event}
    (hne : ∀ c ip, e ≠ .connect c ip) : (step cfg w e).w.conns.length ≤ w.conns.length := by
  cases e with
  | connect c ip => exact absurd rfl (hne c ip)
  | line c s =>
    unfold step
    simp only
    split
    · exact Nat.le_refl _
    · rename_i cn hc
      obtain ⟨hm, hid⟩ := conn?_some hc
      obtain ⟨hi, hs⟩ := invCore_handleLine (cfg := cfg) (s := s) (x := { w := w }) h.toInvCore ⟨cn, hm, hid⟩
      exact Nat.le_trans (finish_conns_length_le hi) (Nat.le_of_eq (sameConnIds_length hs))
  | tooLong c =>
    unfold step
    simp only
    split
    · exact Nat.le_refl _
    · rename_i cn hc
      obtain ⟨hm, hid⟩ := conn?_some hc
      refine Nat.le_trans (finish_conns_length_le ?_) ?_
      · exact invCore_setConn_quit h.toInvCore hm cn.killedBy
      · exact Nat.le_of_eq (Reg.setConn_conns_length _ _)
  | badUtf8 c =>
    unfold step
    simp only
    split
    · exact Nat.le_refl _
    · rename_i cn hc
      obtain ⟨hm, hid⟩ := conn?_some hc
      refine Nat.le_trans (finish_conns_length_le ?_) ?_
      · exact invCore_setConn_quit h.toInvCore hm cn.killedBy
      · exact Nat.le_of_eq (Reg.setConn_conns_length _ _)
  | eof c =>
    unfold step
    simp only
    split
    · exact Nat.le_refl _
    · rename_i cn hc
      obtain ⟨hm, hid⟩ := conn?_some hc
      refine Nat.le_trans (finish_conns_length_le ?_) ?_
      · exact invCore_setConn_quit h.toInvCore hm cn.killedBy
      · exact Nat.le_of_eq (Reg.setConn_conns_length _ _)
  | reset c =>
    unfold step
    simp only
    split
    · exact Nat.le_refl _
    · rename_i cn hc
      obtain ⟨hm, hid⟩ := conn?_some hc
      refine Nat.le_trans (finish_conns_length_le ?_) ?_
      · exact invCore_setConn_quit h.toInvCore hm cn.killedBy
      · exact Nat.le_of_eq (Reg.setConn_conns_length _ _)
  | partialLine c s =>
    unfold step
    simp only
    split <;> exact Nat.le_refl _

/-- `connect`: refused exactly when the slot counter has reached the configured maximum -/
theorem step_connect_cases (cfg : Cfg) (w : World) (c : Nat) (ip : Str) :
    ((∃ m, cfg.maxConnections = some m ∧ m ≤ w.connsCount) ∧
      step cfg w (.connect c ip) = { w := w, events := [str "refused " ++ natToStr c] }) ∨
    ((∀ m, cfg.maxConnections = some m → w.connsCount < m) ∧
      step cfg w (.connect c ip) =
        { w := { w with conns := w.conns ++ [Conn.new c ip], connsCount := w.connsCount + 1 } }) := by
  unfold step
  simp only
  cases hmc : cfg.maxConnections with
  | none =>
    right
    simp
  | some m =>
    by_cases hlt : w.connsCount < m
    · right
      simp [hlt]
    · left
      simp only [hlt, decide_false, Bool.not_false, ↓reduceIte, and_true]
      exact ⟨m, rfl, Nat.le_of_not_lt hlt⟩

/-! ### 12. list helpers for the reply views (NAMES / WHO / WHOIS) -/

/-- selecting with `filterMap g` and then reading a key back is filtering -/
theorem map_filterMap_eq_filter {α β γ : Type} (l : List α) (g : α → Option β) (key : β → γ) (proj : α → γ)
    (vis : α → Bool) (hk : ∀ a b, a ∈ l → g a = some b → key b = proj a)
    (hv : ∀ a, a ∈ l → (g a).isSome = vis a) :
    (l.filterMap g).map key = (l.filter vis).map proj := by
  induction l with
  | nil => rfl
  | cons a l ih =>
    have ih' := ih (fun a b ha => hk a b (List.mem_cons_of_mem _ ha)) (fun a ha => hv a (List.mem_cons_of_mem _ ha))
    have hva := hv a (List.mem_cons_self ..)
    cases hg : g a with
    | none =>
      rw [hg] at hva
      have : vis a = false := by simpa using hva.symm
      simp only [List.filterMap_cons, hg, List.filter_cons, this, Bool.false_eq_true, ↓reduceIte]
      exact ih'
    | some b =>
      rw [hg] at hva
      have : vis a = true := by simpa using hva.symm
      simp only [List.filterMap_cons, hg, List.filter_cons, this, ↓reduceIte, List.map_cons, ih',
        hk a b (List.mem_cons_self ..) hg]

theorem filterMap_congr' {α β : Type} {f g : α → Option β} {l : List α} (h : ∀ x, x ∈ l → f x = g x) :
    l.filterMap f = l.filterMap g := by
  induction l with
  | nil => rfl
  | cons a l ih =>
    simp only [List.filterMap_cons, h a (List.mem_cons_self ..)]
    rw [ih (fun x hx => h x (List.mem_cons_of_mem _ hx))]

theorem filter_keys {α : Type} (m : Map α) (vis : Str → Bool) :
    (m.filter (fun p => vis p.1)).map (·.1) = (Map.keys m).filter vis := by
  unfold Map.keys
  rw [List.filter_map]
  rfl

/-- direct lines and user table of a fold whose body appends at most one line and keeps `users` -/
theorem foldl_opt_reply {α : Type} (f : Ctx → α → Ctx) (g : Map User → α → Option Str) (l : List α) (x : Ctx)
    (hf : ∀ (y : Ctx) (a : α), (f y a).w.users = y.w.users ∧
      (f y a).direct = y.direct ++ (g y.w.users a).toList) :
    (l.foldl f x).direct = x.direct ++ l.filterMap (g x.w.users) ∧ (l.foldl f x).w.users = x.w.users := by
  induction l generalizing x with
  | nil => simp
  | cons a l ih =>
    obtain ⟨h1, h2⟩ := hf x a
    obtain ⟨i1, i2⟩ := ih (f x a)
    rw [List.foldl_cons]
    refine ⟨?_, i2.trans h1⟩
    rw [i1, h2, h1]
    cases hg : g x.w.users a <;> simp [hg]

theorem disjoint_false_of_common {a b : KSet} {k : Str} (ha : k ∈ a) (hb : KSet.mem k b = true) :
    KSet.disjoint a b = false := by
  unfold KSet.disjoint
  rw [List.all_eq_false]
  exact ⟨k, ha, by simp [hb]⟩

/-! ### 13. the reply lines of NAMES / WHO / WHOIS -/

open Reply in
/-- the 353 lines of one channel -/
theorem namesLines_direct (cfg : Cfg) (cn : Conn) (chname : Str) (ch : Channel) (users : Map User) (x : Ctx)
    (hne : ∀ p, p ∈ ch.users → p.1 ≠ []) :
    (namesLines cfg cn chname ch users x).direct = x.direct ++
      (chunks 20 (ch.users.filterMap (fun p =>
          match Map.lookup p.1 users with
          | some u =>
            if (!u.modes.invisible || (match cn.nick with
                                        | some n => Map.contains n ch.users
                                        | none => false)) = true
            then some (p.2.prefixStr cn.multiPrefix, p.1) else none
          | none => none))).map
        (fun chunk => ':' :: (cfg.name ++ ' ' ::
          RplNameReply353 cn.clientName (if ch.modes.secret then ['@'] else ['=']) chname chunk)) := by
  simp only [namesLines]
  rw [RO.foldl_reply_direct]
  congr 1
  · rw [apply_ite Ctx.direct, Ctx.panic_direct, ite_self]
  · congr 2
    rw [List.filterMap_map]
    apply filterMap_congr'
    intro p hp
    have hp1 := hne p hp
    obtain ⟨m, chum⟩ := p
    simp only [Function.comp]
    cases Map.lookup m users with
    | none => rfl
    | some u =>
      simp only
      generalize (!u.modes.invisible || (match cn.nick with
                                        | some n => Map.contains n ch.users
                                        | none => false)) = b
      cases b
      · simp
      · have : m.isEmpty = false := by
          cases m with
          | nil => exact absurd rfl hp1
          | cons a l => rfl
        simp [this]

open Reply in
/-- the reply of `send_names_from_channel`, without `match` expressions in the statement -/
theorem sendNames_direct (cfg : Cfg) (c : Nat) (chname : Str) (C : Channel) (theEnd : Bool) (x : Ctx)
    (hne : ∀ p, p ∈ C.users → p.1 ≠ []) :
    (sendNamesFromChannel cfg c chname C theEnd x).direct = x.direct ++
      (if (!C.modes.secret || (x.conn c).nick.any (fun n => Map.contains n C.users)) = true then
        (chunks 20 (C.users.filterMap (fun p =>
          if (Map.lookup p.1 x.w.users).any (fun u => !u.modes.invisible ||
              (x.conn c).nick.any (fun n => Map.contains n C.users)) = true
          then some (p.2.prefixStr (x.conn c).multiPrefix, p.1) else none))).map
          (fun chunk => srvLine cfg
            (RplNameReply353 (x.conn c).clientName (if C.modes.secret then ['@'] else ['=']) chname chunk)) ++
        (if theEnd = true then [srvLine cfg (RplEndOfNames366 (x.conn c).clientName chname)] else [])
       else []) := by
  have hfm : ∀ b : Bool,
      C.users.filterMap (fun p =>
          match Map.lookup p.1 x.w.users with
          | some u => if (!u.modes.invisible || b) = true
                      then some (p.2.prefixStr (x.conn c).multiPrefix, p.1) else none
          | none => none) =
      C.users.filterMap (fun p =>
          if (Map.lookup p.1 x.w.users).any (fun u => !u.modes.invisible || b) = true
          then some (p.2.prefixStr (x.conn c).multiPrefix, p.1) else none) := by
    intro b
    apply filterMap_congr'
    intro p _
    cases Map.lookup p.1 x.w.users <;> simp
  have aux : ∀ (b : Bool) (nl : Ctx) (L : List Str) (t : Str), nl.direct = x.direct ++ L →
      (if (!C.modes.secret || b) = true then (if theEnd = true then nl.reply cfg t else nl) else x).direct =
        x.direct ++ (if (!C.modes.secret || b) = true then
          L ++ (if theEnd = true then [':' :: (cfg.name ++ ' ' :: t)] else []) else []) := by
    intro b nl L t hnl
    cases (!C.modes.secret || b) <;> cases theEnd <;> simp [hnl]
  have hnl := namesLines_direct cfg (x.conn c) chname C x.w.users x hne
  cases hnk : (x.conn c).nick with
  | none =>
    simp only [hnk] at hnl
    rw [hfm false] at hnl
    have := aux false _ _ (RplEndOfNames366 (x.conn c).clientName chname) hnl
    simp only [sendNamesFromChannel, hnk, Option.any_none, srvLine_eq]
    exact this
  | some n =>
    simp only [hnk] at hnl
    rw [hfm (Map.contains n C.users)] at hnl
    have := aux (Map.contains n C.users) _ _ (RplEndOfNames366 (x.conn c).clientName chname) hnl
    simp only [sendNamesFromChannel, hnk, Option.any_some, srvLine_eq]
    exact this

open Reply in
/-- the reply of WHO for a channel the sender is entitled to look at -/
theorem processWho_channel_direct {cfg : Cfg} {c : Nat} {mask : Str} {x : Ctx} {nick : Str} {user : User}
    {C : Channel} (hn : (x.conn c).nick = some nick) (hu : Map.lookup nick x.w.users = some user)
    (hw1 : containsChar '*' mask = false) (hw2 : containsChar '?' mask = false)
    (hv : validateChannel mask = true) (hC : Map.lookup mask x.w.channels = some C)
    (hs : (!C.modes.secret || Map.contains nick C.users) = true) :
    (processWho cfg c mask x).direct = x.direct ++
      C.users.filterMap (fun p =>
        match Map.lookup p.1 x.w.users with
        | some uu =>
          if (!uu.modes.invisible || !(KSet.disjoint uu.channels user.channels)) = true then
            some (':' :: (cfg.name ++ ' ' :: RplWhoReply352 (x.conn c).clientName mask uu.name uu.hostname
              cfg.name p.1
              ((if uu.away.isSome then ['G'] else ['H']) ++ (if uu.modes.isLocalOper then ['*'] else []) ++
                p.2.prefixStr (x.conn c).multiPrefix) 0 uu.realname))
          else none
        | none => none) ++
      [':' :: (cfg.name ++ ' ' :: RplEndOfWho315 (x.conn c).clientName mask)] := by
  simp only [processWho, hn, hu, hw1, hw2, Bool.or_self, Bool.false_eq_true, ↓reduceIte, hv, hC, hs,
    Ctx.reply_direct]
  congr 1
  refine (foldl_opt_reply _ (fun us (p : Str × ChanUserModes) =>
        match Map.lookup p.1 us with
        | some uu =>
          if (!uu.modes.invisible || !(KSet.disjoint uu.channels user.channels)) = true then
            some (':' :: (cfg.name ++ ' ' :: RplWhoReply352 (x.conn c).clientName mask uu.name uu.hostname
              cfg.name p.1
              ((if uu.away.isSome then ['G'] else ['H']) ++ (if uu.modes.isLocalOper then ['*'] else []) ++
                p.2.prefixStr (x.conn c).multiPrefix) 0 uu.realname))
          else none
        | none => none) C.users x ?_).1
  intro y p
  obtain ⟨m, chum⟩ := p
  simp only
  cases Map.lookup m y.w.users with
  | none => exact ⟨rfl, by simp⟩
  | some uu =>
    simp only [sendWhoInfo]
    split
    · exact ⟨rfl, by simp⟩
    · exact ⟨rfl, by simp⟩

open Reply in
/-- WHOIS says nothing about an invisible user that shares no channel with the asker -/
theorem whoisOne_hidden {cfg : Cfg} {cn : Conn} {user : User} {nick : Str} {x : Ctx} {au : User}
    (hau : Map.lookup nick x.w.users = some au)
    (hvis : (au.modes.invisible && KSet.disjoint au.channels user.channels) = true) :
    whoisOne cfg cn user nick x = x := by
  simp only [whoisOne, hau, hvis, ↓reduceIte]

/-- the channel entries of a 319 reply -/
def whoisShown (w : World) (mp : Bool) (nick : Str) (au : User) : List (Option Str × Str) :=
  au.channels.filterMap (fun chn =>
    match Map.lookup chn w.channels with
    | some ch =>
      if !ch.modes.secret then
        (match Map.lookup nick ch.users with
         | some chum => some (some (chum.prefixStr mp), chn)
         | none => none)
      else none
    | none => none)

open Reply in
/-- the reply lines of WHOIS for one visible nick -/
theorem whoisOne_direct {cfg : Cfg} {cn : Conn} {user : User} {nick : Str} {x : Ctx} {au : User}
    (hau : Map.lookup nick x.w.users = some au)
    (hvis : (au.modes.invisible && KSet.disjoint au.channels user.channels) = false) :
    (whoisOne cfg cn user nick x).direct = x.direct ++
      (if au.modes.registered then [srvLine cfg (RplWhoIsRegNick307 cn.clientName nick)] else []) ++
      [srvLine cfg (RplWhoIsUser311 cn.clientName nick au.name au.hostname au.realname),
       srvLine cfg (RplWhoIsServer312 cn.clientName nick cfg.name cfg.info)] ++
      (if au.modes.isLocalOper then [srvLine cfg (RplWhoIsOperator313 cn.clientName nick)] else []) ++
      (chunks 30 (whoisShown x.w cn.multiPrefix nick au)).map
        (fun chunk => srvLine cfg (RplWhoIsChannels319 cn.clientName nick chunk)) ++
      [srvLine cfg (RplwhoIsIdle317 cn.clientName nick 0 0)] ++
      (if au.modes.isLocalOper then
        [srvLine cfg (RplWhoIsHost378 cn.clientName nick au.hostname),
         srvLine cfg (RplWhoIsModes379 cn.clientName nick au.modes.render)] else []) := by
  simp only [whoisOne, hau, hvis, Bool.false_eq_true, ↓reduceIte]
  cases au.modes.registered <;> cases au.modes.isLocalOper <;>
    simp only [Bool.false_eq_true, ↓reduceIte, Ctx.reply_w, apply_ite Ctx.direct, Ctx.reply_direct,
      RO.foldl_reply_direct, Ctx.panic_direct, ite_self, srvLine_eq, List.append_assoc,
      List.cons_append, List.nil_append, List.append_nil] <;>
    (generalize hT : List.filterMap _ (List.map _ au.channels) = T
     have hTe : T = whoisShown x.w cn.multiPrefix nick au := by
       rw [← hT]
       unfold whoisShown
       rw [List.filterMap_map]
       apply filterMap_congr'
       intro chn _
       simp only [Function.comp]
       cases Map.lookup chn x.w.channels with
       | none => rfl
       | some ch =>
         simp only
         cases ch.modes.secret with
         | true => rfl
         | false =>
           simp only [Bool.not_false, ↓reduceIte]
           cases Map.lookup nick ch.users <;> rfl
     rw [hTe])

/-! ### 14. the membership relation after a NICK change -/

theorem nick_rename_memOf {cfg : Cfg} {c : Nat} {nick : Str} {msg : Message} {x : Ctx}
    {old : Str} {user : User} (h : InvCore x.w)
    (ha : (x.conn c).authenticated = true) (hnick : (x.conn c).nick = some old) (hne : nick ≠ old)
    (hfree : Map.contains nick x.w.users = false) (hold : Map.lookup old x.w.users = some user)
    (ch m : Str) :
    (processNick cfg c nick msg x).w.memOf ch m =
      if m = nick then x.w.memOf ch old else if m = old then false else x.w.memOf ch m := by
  obtain ⟨chans', hW, _, hch⟩ := Reg.processNick_rename_w (cfg := cfg) (msg := msg) h ha hnick hne hfree hold
  have hl : Map.lookup ch (processNick cfg c nick msg x).w.channels = Map.lookup ch chans' := by rw [hW]
  have hsym := h.memberSym old user ch hold
  cases hmem : KSet.mem ch user.channels with
  | true =>
    obtain ⟨C, hC, hc⟩ := hsym.mp hmem
    obtain ⟨chum, hchum⟩ := (Map.contains_iff _ _).mp hc
    have hl' : Map.lookup ch (processNick cfg c nick msg x).w.channels = _ := hl.trans (hch ch)
    rw [hmem, if_pos rfl, hC] at hl'
    simp only [Option.bind_some, Reg.renameUser_of_lookup hchum] at hl'
    rw [Memb.World.memOf_of_lookup hl']
    simp only [Memb.World.memOf_of_lookup hC]
    show Map.contains m (Map.insert nick chum (Map.erase old C.users)) = _
    unfold Map.contains
    rw [Map.lookup_insert, Map.lookup_erase]
    by_cases e1 : m = nick
    · subst e1; simp [hchum]
    · have e1' : ¬ nick = m := fun e => e1 e.symm
      by_cases e2 : m = old
      · subst e2; simp [e1, e1']
      · have e2' : ¬ old = m := fun e => e2 e.symm
        simp [e1, e1', e2, e2']
  | false =>
    have hl' : Map.lookup ch (processNick cfg c nick msg x).w.channels = Map.lookup ch x.w.channels := by
      rw [hl, hch ch, hmem]; simp
    rw [Memb.World.memOf_congr hl']
    have hnotold : x.w.memOf ch old = false := by
      cases hh : x.w.memOf ch old with
      | false => rfl
      | true =>
        have := hsym.mpr ((Memb.World.memOf_iff _ _ _).mp hh)
        rw [hmem] at this; cases this
    have hnotnew : x.w.memOf ch nick = false := by
      cases hh : x.w.memOf ch nick with
      | false => rfl
      | true =>
        obtain ⟨C, hC, hc⟩ := (Memb.World.memOf_iff _ _ _).mp hh
        have := h.memberIsUser ch C nick hC hc
        rw [hfree] at this; cases this
    by_cases e1 : m = nick
    · subst e1; simp [hnotold, hnotnew]
    · by_cases e2 : m = old
      · subst e2; simp [e1, hnotold]
      · simp [e1, e2]

/-! ### 15. handler frames: the stored maximum and the membership relation -/

/-- `w'` has the same stored user maximum and the same membership relation as `w` -/
def Keeps (w w' : World) : Prop :=
  w'.maxUsers = w.maxUsers ∧ ∀ ch m, w'.memOf ch m = w.memOf ch m

theorem Keeps.refl (w : World) : Keeps w w := ⟨rfl, fun _ _ => rfl⟩

theorem Keeps.of_eq {w w' : World} (e : w' = w) : Keeps w w' := by subst e; exact Keeps.refl _

theorem Keeps.of_fields {w w' : World} (hm : w'.maxUsers = w.maxUsers) (hc : w'.channels = w.channels) :
    Keeps w w' :=
  ⟨hm, fun ch m => Memb.World.memOf_congr (by rw [hc]) m⟩

theorem Keeps.trans {a b c : World} (h1 : Keeps a b) (h2 : Keeps b c) : Keeps a c :=
  ⟨h2.1.trans h1.1, fun ch m => (h2.2 ch m).trans (h1.2 ch m)⟩

theorem sendAll_keeps (x : Ctx) (ns : List Str) (l : Str) : Keeps x.w (x.sendAll ns l).w := by
  unfold Ctx.sendAll
  induction ns generalizing x with
  | nil => exact Keeps.refl _
  | cons n ns ih =>
    simp only [List.foldl_cons]
    exact Keeps.trans (Keeps.of_fields (Ctx.send_maxUsers ..) (Ctx.send_channels ..)) (ih _)

theorem foldl_sendDisplay_keeps (src t : Str) (ns : List Str) (x : Ctx) :
    Keeps x.w (ns.foldl (fun x n => x.sendDisplay n src t) x).w := by
  induction ns generalizing x with
  | nil => exact Keeps.refl _
  | cons n ns ih =>
    simp only [List.foldl_cons]
    refine Keeps.trans (Keeps.of_fields ?_ (Ctx.sendDisplay_channels ..)) (ih _)
    unfold Ctx.sendDisplay; exact Ctx.send_maxUsers ..

theorem processAway_keeps {cfg : Cfg} {c : Nat} {text : Option Str} {x : Ctx} :
    Keeps x.w (processAway cfg c text x).w := by
  unfold processAway
  simp only
  split
  · exact Keeps.of_fields rfl rfl
  · split
    · exact Keeps.of_fields rfl rfl
    · split <;> exact Keeps.of_fields rfl rfl

theorem processOper_keeps {cfg : Cfg} {c : Nat} {name password : Str} {x : Ctx} :
    Keeps x.w (processOper cfg c name password x).w := by
  unfold processOper
  simp only
  repeat' split
  all_goals first
    | exact Keeps.of_fields rfl rfl
    | (simp only [Ctx.reply_w, Ctx.modifyW_w]; split <;> exact Keeps.of_fields rfl rfl)

theorem processInvite_keeps {cfg : Cfg} {c : Nat} {nickname channel : Str} {msg : Message} {x : Ctx} :
    Keeps x.w (processInvite cfg c nickname channel msg x).w := by
  unfold processInvite
  simp only
  repeat' split
  all_goals first
    | exact Keeps.of_fields rfl rfl
    | exact Keeps.of_fields (by simp) (by simp)

theorem processTopic_keeps {cfg : Cfg} {c : Nat} {channel : Str} {topic : Option Str} {msg : Message} {x : Ctx} :
    Keeps x.w (processTopic cfg c channel topic msg x).w := by
  unfold processTopic
  simp only
  split
  · exact Keeps.of_fields rfl rfl
  · split
    · split
      · rename_i ch hch
        split
        · split
          · refine Keeps.trans ?_ (sendAll_keeps _ _ _)
            refine ⟨rfl, fun ch2 m => ?_⟩
            simp only [Ctx.modifyW_w]
            by_cases e : channel = ch2
            · subst e
              rw [Memb.World.memOf_of_lookup (Map.lookup_insert_eq _ _ _), Memb.World.memOf_of_lookup hch]
            · exact Memb.World.memOf_congr (Map.lookup_insert_ne _ _ _ _ e) m
          · exact Keeps.of_fields rfl rfl
        · exact Keeps.of_fields rfl rfl
      · exact Keeps.of_fields rfl rfl
    · repeat' split
      all_goals exact Keeps.of_fields rfl rfl

theorem fireKill_keeps (killer comment nick : Str) (w : World) : Keeps w (fireKill killer comment nick w) := by
  unfold fireKill
  cases Map.lookup nick w.users with
  | none => exact Keeps.refl _
  | some u =>
    simp only
    split
    · exact Keeps.refl _
    · split <;> exact Keeps.of_fields rfl rfl

theorem fireKill_fold_keeps (killer comment : Str) (ns : List Str) (w : World) :
    Keeps w (ns.foldl (fun w n => fireKill killer comment n w) w) := by
  induction ns generalizing w with
  | nil => exact Keeps.refl _
  | cons n ns ih => simp only [List.foldl_cons]; exact Keeps.trans (fireKill_keeps ..) (ih _)

theorem processKill_keeps {cfg : Cfg} {c : Nat} {nickname comment : Str} {x : Ctx} :
    Keeps x.w (processKill cfg c nickname comment x).w := by
  unfold processKill
  simp only
  repeat' split
  all_goals first
    | exact Keeps.of_fields rfl rfl
    | exact fireKill_keeps ..

theorem processDie_keeps {cfg : Cfg} {c : Nat} {message : Option Str} {x : Ctx} :
    Keeps x.w (processDie cfg c message x).w := by
  unfold processDie
  simp only
  repeat' split
  all_goals first
    | exact Keeps.of_fields rfl rfl
    | exact Keeps.trans (fireKill_fold_keeps ..) (Keeps.of_fields rfl rfl)

theorem processSquit_keeps {cfg : Cfg} {c : Nat} {server comment : Str} {x : Ctx} :
    Keeps x.w (processSquit cfg c server comment x).w := by
  unfold processSquit
  split
  · exact Keeps.of_fields rfl rfl
  · exact processDie_keeps

theorem processModeUser_keeps {cfg : Cfg} {c : Nat} {target : Str} {modes : List (Str × List Str)} {x : Ctx}
    {u : User} (h : InvCore x.w) (hu : Map.lookup target x.w.users = some u) :
    Keeps x.w (processModeUser cfg c target modes x).w := by
  unfold processModeUser
  simp only [hu]
  split
  · exact Keeps.refl _
  · have hbi : u.modes.invisible.toNat ≤ x.w.invisibleCount := by
      rw [h.invisibleCount]
      rcases Bool.eq_false_or_eq_true u.modes.invisible with e | e
      · have := Modes.Map.filter_pos_of_lookup (fun v : User => v.modes.invisible) target _ u hu e
        rw [e]; exact this
      · rw [e]; exact Nat.zero_le _
    have hbo : u.modes.isLocalOper.toNat ≤ x.w.operatorsCount := by
      rw [h.operatorsCount]
      rcases Bool.eq_false_or_eq_true u.modes.isLocalOper with e | e
      · have := Modes.Map.filter_pos_of_lookup (fun v : User => v.modes.isLocalOper) target _ u hu e
        rw [e]; exact this
      · rw [e]; exact Nat.zero_le _
    have h0 : Modes.UAccInv x.w target u.modes.invisible.toNat u.modes.isLocalOper.toNat
        { x := x, modes := u.modes } := by
      refine ⟨rfl, rfl, rfl, rfl, rfl, rfl, rfl, rfl, ?_⟩
      intro k
      by_cases e : k = target
      · subst e; simp only [↓reduceIte]
        rw [h.wallopsSet k]
        constructor
        · rintro ⟨v, hv, hw'⟩; rw [hu] at hv; cases hv; exact hw'
        · intro hw'; exact ⟨u, hu, hw'⟩
      · simp [e]
    have hf := Modes.umode_fold_inv (cfg := cfg) (cn := x.conn c) hbi hbo modes h0
    generalize (modes.foldl (fun a g =>
        g.1.foldl (umodeChar cfg (x.conn c) target) { a with modeSet := false })
        ({ x := x, modes := u.modes } : UModeAcc)) = a at hf
    split <;> exact Keeps.of_fields hf.maxUsers hf.channels

theorem processModeChannel_keeps {cfg : Cfg} {c : Nat} {target t : Str} {ch : Channel} {chum : ChanUserModes}
    {modes : List (Str × List Str)} {x : Ctx} (h : InvCore x.w)
    (hch : Map.lookup target x.w.channels = some ch)
    (hv : validateChannelmodes t modes = .ok ()) :
    Keeps x.w (processModeChannel cfg c target ch modes chum x).w := by
  unfold processModeChannel
  simp only
  split
  · exact Keeps.refl _
  · have hf := Modes.modeGroups_inv (cfg := cfg) (cn := x.conn c) (target := target) (chum := chum)
      (w0 := x.w) (ch0 := ch) modes hv (a := { x := x, ch := ch, args := [] })
      ⟨rfl, rfl, h.rankMirror _ _ hch, rfl⟩
    generalize (modes.foldl (modeGroup cfg (x.conn c) target chum)
      ({ x := x, ch := ch, args := [] } : ModeAcc)) = a at hf
    have hk : Keeps x.w ({ a.x.w with channels := Map.insert target a.ch a.x.w.channels } : World) := by
      refine ⟨by simp only [hf.w], fun ch2 m => ?_⟩
      simp only [hf.w]
      by_cases e : target = ch2
      · subst e
        rw [Memb.World.memOf_of_lookup (Map.lookup_insert_eq _ _ _), Memb.World.memOf_of_lookup hch]
        exact Modes.Map.contains_eq_of_keys_eq m _ _ hf.keys
      · exact Memb.World.memOf_congr (Map.lookup_insert_ne _ _ _ _ e) m
    split
    · exact Keeps.trans hk (foldl_sendDisplay_keeps _ _ _ _)
    · exact hk

theorem processMode_keeps {cfg : Cfg} {c : Nat} {target : Str} {modes : List (Str × List Str)} {x : Ctx}
    (h : InvCore x.w) (hl : Live x.w c) (ha : (x.conn c).authenticated = true)
    (hv : Command.validate (.MODE target modes) = .ok ()) :
    Keeps x.w (processMode cfg c target modes x).w := by
  obtain ⟨n, u, hn, hu, _⟩ := Modes.sender_user h hl ha
  unfold processMode
  simp only [hn]
  unfold Command.validate at hv
  by_cases hvc : validateChannel target = true
  · simp only [hvc, ↓reduceIte] at hv ⊢
    cases hch : Map.lookup target x.w.channels with
    | none => exact Keeps.refl _
    | some ch =>
      simp only
      cases hcu : Map.lookup n ch.users with
      | none => exact Keeps.refl _
      | some chum => exact processModeChannel_keeps h hch hv
  · simp only [hvc, Bool.false_eq_true, ↓reduceIte]
    split
    · rename_i e
      have e' : n = target := by simpa using e
      subst e'
      exact processModeUser_keeps h hu
    · split <;> exact Keeps.refl _

theorem processCap_auth_keeps {cfg : Cfg} {c : Nat} {sub : CapCommand} {caps : Option (List Str)} {x : Ctx}
    (ha : (x.conn c).authenticated = true) : Keeps x.w (processCap cfg c sub caps x).w := by
  unfold processCap
  cases sub with
  | LS => exact Keeps.of_fields rfl rfl
  | LIST => exact Keeps.of_fields rfl rfl
  | REQ =>
    simp only
    split
    · split <;> exact Keeps.of_fields rfl rfl
    · exact Keeps.of_fields rfl rfl
  | END =>
    simp only [ha, Bool.not_true, Bool.false_eq_true, ↓reduceIte]
    exact Keeps.of_fields rfl rfl

theorem processPass_auth_keeps {cfg : Cfg} {c : Nat} {p : Str} {x : Ctx}
    (ha : (x.conn c).authenticated = true) : Keeps x.w (processPass cfg c p x).w := by
  unfold processPass
  simp only [ha, Bool.not_true, Bool.false_eq_true, ↓reduceIte]
  exact Keeps.of_fields rfl rfl

theorem processUser_auth_keeps {cfg : Cfg} {c : Nat} {u r : Str} {x : Ctx}
    (ha : (x.conn c).authenticated = true) : Keeps x.w (processUser cfg c u r x).w := by
  unfold processUser
  simp only [ha, Bool.not_true, Bool.false_eq_true, ↓reduceIte]
  exact Keeps.of_fields rfl rfl

theorem processNick_auth_maxUsers {cfg : Cfg} {c : Nat} {nick : Str} {msg : Message} {x : Ctx}
    (h : InvCore x.w) (hl : Live x.w c) (ha : (x.conn c).authenticated = true) :
    (processNick cfg c nick msg x).w.maxUsers = x.w.maxUsers := by
  obtain ⟨hm, hcid⟩ := Reg.Ctx.conn_of_live hl
  obtain ⟨old, user, hnick, hold, _⟩ := h.authOwns _ hm ha
  by_cases hne : nick = old
  · have : processNick cfg c nick msg x = x := by
      unfold processNick
      simp only [ha, Bool.not_true, Bool.false_eq_true, ↓reduceIte, hnick, hne, bne_self_eq_false]
    rw [this]
  · by_cases hc : Map.contains nick x.w.users = true
    · have : (processNick cfg c nick msg x).w = x.w := by
        unfold processNick
        have : (nick != old) = true := by simpa using hne
        simp only [ha, Bool.not_true, Bool.false_eq_true, ↓reduceIte, hnick, this, hc, Ctx.reply_w]
      rw [this]
    · have hc' : Map.contains nick x.w.users = false := by simpa using hc
      obtain ⟨chans', hW, _, _⟩ := Reg.processNick_rename_w (cfg := cfg) (msg := msg) h ha hnick hne hc' hold
      rw [hW]; rfl

/-- a command of a registered connection never changes the stored user maximum -/
theorem dispatch_auth_maxUsers {cfg : Cfg} {c : Nat} {msg : Message} {cmd : Command} {x : Ctx}
    (h : InvCore x.w) (hl : Live x.w c) (ha : (x.conn c).authenticated = true)
    (hcmd : Command.fromMessage msg = .ok cmd) :
    (dispatch cfg c msg cmd x).w.maxUsers = x.w.maxUsers := by
  have hv := fromMessage_ok_validate hcmd
  cases cmd with
  | CAP sub caps v => exact (processCap_auth_keeps ha).1
  | AUTHENTICATE => rfl
  | PASS p => exact (processPass_auth_keeps ha).1
  | NICK n => exact processNick_auth_maxUsers h hl ha
  | USER u a b r => exact (processUser_auth_keeps ha).1
  | QUIT => rfl
  | PING t => rfl
  | PONG t => rfl
  | MOTD t => exact congrArg World.maxUsers processMotd_world_unchanged
  | LUSERS => exact congrArg World.maxUsers (processLusers_world_unchanged h)
  | CONNECT a b d => rfl
  | REHASH => rfl
  | RESTART => rfl
  | NAMES chs => exact congrArg World.maxUsers (processNames_world_unchanged h)
  | LIST chs s => exact congrArg World.maxUsers processList_world_unchanged
  | VERSION t => exact congrArg World.maxUsers processVersion_world_unchanged
  | ADMIN t => exact congrArg World.maxUsers processAdmin_world_unchanged
  | TIME s => exact congrArg World.maxUsers processTime_world_unchanged
  | LINKS r m => exact congrArg World.maxUsers processLinks_world_unchanged
  | HELP s => exact congrArg World.maxUsers processHelp_world_unchanged
  | INFO => rfl
  | WHOWAS n cnt s => exact congrArg World.maxUsers processWhowas_world_unchanged
  | USERHOST ns => exact congrArg World.maxUsers processUserhost_world_unchanged
  | ISON ns => exact congrArg World.maxUsers processIson_world_unchanged
  | OPER n p => exact processOper_keeps.1
  | JOIN chs keys =>
    obtain ⟨_, _, _, _, _, f, _⟩ := Memb.join_all (cfg := cfg) (channels := chs) (keys := keys) h hl ha
    exact f.maxUsers
  | PART chs r =>
    obtain ⟨_, _, _, f, _⟩ := Memb.part_all (cfg := cfg) (channels := chs) (reason := r) h hl ha
    exact f.maxUsers
  | TOPIC ch t => exact processTopic_keeps.1
  | INVITE n ch => exact processInvite_keeps.1
  | KICK ch us cm =>
    obtain ⟨_, _, _, f, _⟩ := Memb.kick_all (cfg := cfg) (channel := ch) (kickUsers := us) (comment := cm) h hl ha
    exact f.maxUsers
  | STATS q s => exact congrArg World.maxUsers (processStats_world_unchanged h hl ha)
  | MODE t ms => exact (processMode_keeps h hl ha hv).1
  | PRIVMSG ts t => exact congrArg World.maxUsers (processPrivmsgNotice_world_unchanged h hl ha)
  | NOTICE ts t => exact congrArg World.maxUsers (processPrivmsgNotice_world_unchanged h hl ha)
  | WHO m => exact congrArg World.maxUsers (processWho_world_unchanged h hl ha)
  | WHOIS t ns => exact congrArg World.maxUsers (processWhois_world_unchanged h hl ha)
  | KILL n cm => exact processKill_keeps.1
  | SQUIT s cm => exact processSquit_keeps.1
  | AWAY t => exact processAway_keeps.1
  | WALLOPS t => exact congrArg World.maxUsers (processWallops_world_unchanged h hl ha)
  | DIE m => exact processDie_keeps.1

/-- the commands that change the membership relation in their handler -/
def changesMembership : Command → Bool
  | .JOIN .. | .PART .. | .KICK .. | .NICK .. => true
  | _ => false

/-- every other command of a registered connection leaves the membership relation alone (QUIT, KILL,
    DIE and SQUIT only flag connections; the removal happens in the settling phase) -/
theorem dispatch_auth_memOf {cfg : Cfg} {c : Nat} {msg : Message} {cmd : Command} {x : Ctx}
    (h : InvCore x.w) (hl : Live x.w c) (ha : (x.conn c).authenticated = true)
    (hcmd : Command.fromMessage msg = .ok cmd) (hno : changesMembership cmd = false) (ch m : Str) :
    (dispatch cfg c msg cmd x).w.memOf ch m = x.w.memOf ch m := by
  have hv := fromMessage_ok_validate hcmd
  have we : ∀ {w' : World}, w' = x.w → w'.memOf ch m = x.w.memOf ch m := fun e => by rw [e]
  cases cmd with
  | CAP sub caps v => exact (processCap_auth_keeps ha).2 ch m
  | AUTHENTICATE => rfl
  | PASS p => exact (processPass_auth_keeps ha).2 ch m
  | NICK n => simp [changesMembership] at hno
  | USER u a b r => exact (processUser_auth_keeps ha).2 ch m
  | QUIT => rfl
  | PING t => rfl
  | PONG t => rfl
  | MOTD t => exact we processMotd_world_unchanged
  | LUSERS => exact we (processLusers_world_unchanged h)
  | CONNECT a b d => rfl
  | REHASH => rfl
  | RESTART => rfl
  | NAMES chs => exact we (processNames_world_unchanged h)
  | LIST chs s => exact we processList_world_unchanged
  | VERSION t => exact we processVersion_world_unchanged
  | ADMIN t => exact we processAdmin_world_unchanged
  | TIME s => exact we processTime_world_unchanged
  | LINKS r m => exact we processLinks_world_unchanged
  | HELP s => exact we processHelp_world_unchanged
  | INFO => rfl
  | WHOWAS n cnt s => exact we processWhowas_world_unchanged
  | USERHOST ns => exact we processUserhost_world_unchanged
  | ISON ns => exact we processIson_world_unchanged
  | OPER n p => exact processOper_keeps.2 ch m
  | JOIN chs keys => simp [changesMembership] at hno
  | PART chs r => simp [changesMembership] at hno
  | TOPIC ch' t => exact processTopic_keeps.2 ch m
  | INVITE n ch' => exact processInvite_keeps.2 ch m
  | KICK ch' us cm => simp [changesMembership] at hno
  | STATS q s => exact we (processStats_world_unchanged h hl ha)
  | MODE t ms => exact (processMode_keeps h hl ha hv).2 ch m
  | PRIVMSG ts t => exact we (processPrivmsgNotice_world_unchanged h hl ha)
  | NOTICE ts t => exact we (processPrivmsgNotice_world_unchanged h hl ha)
  | WHO m' => exact we (processWho_world_unchanged h hl ha)
  | WHOIS t ns => exact we (processWhois_world_unchanged h hl ha)
  | KILL n cm => exact processKill_keeps.2 ch m
  | SQUIT s cm => exact processSquit_keeps.2 ch m
  | AWAY t => exact processAway_keeps.2 ch m
  | WALLOPS t => exact we (processWallops_world_unchanged h hl ha)
  | DIE m' => exact processDie_keeps.2 ch m

/-! ### 16. what a line of an unregistered connection does to the connection list and the maximum -/

structure UnregFrame (c : Nat) (x y : Ctx) : Prop where
  /-- the records of all other connections are untouched -/
  others : ∀ z, z ∈ y.w.conns → z.id ≠ c → z ∈ x.w.conns
  /-- the own record keeps its quit / kill flags unless the connection stays unregistered -/
  own : ∀ z, z ∈ y.w.conns → z.id = c →
    (z.quit = (x.conn c).quit ∧ z.killedBy = (x.conn c).killedBy) ∨ z.authenticated = false
  /-- the stored maximum only follows the size of the user table -/
  max : y.w.maxUsers = x.w.maxUsers ∨ y.w.maxUsers = max x.w.maxUsers y.w.users.length

theorem addUser_maxUsers_eq (w : World) (nick : Str) (u : User) :
    (w.addUser nick u).maxUsers = max w.maxUsers (w.addUser nick u).users.length := by
  rw [Reg.World.addUser_users]
  unfold World.addUser
  cases u.modes.invisible <;> cases u.modes.wallops <;> cases u.modes.isLocalOper <;>
    simp only [Bool.false_eq_true, ↓reduceIte] <;> split <;> simp only [] at * <;>
    omega

/-- a live unauthenticated connection is `x.conn c`, and that is the only record with id `c` -/
theorem conn_eq_of_id {x : Ctx} {c : Nat} (h : InvCore x.w) (hl : Live x.w c) {z : Conn}
    (hz : z ∈ x.w.conns) (hid : z.id = c) : z = x.conn c := by
  obtain ⟨hm, hcid⟩ := Reg.Ctx.conn_of_live hl
  exact conn_unique h hz hm (hid.trans hcid.symm)

theorem unregFrame_of_w_eq {c : Nat} {x y : Ctx} (h : InvCore x.w) (hl : Live x.w c) (e : y.w = x.w) :
    UnregFrame c x y := by
  refine ⟨fun z hz _ => by rw [e] at hz; exact hz, fun z hz hid => ?_, Or.inl (by rw [e])⟩
  rw [e] at hz
  rw [conn_eq_of_id h hl hz hid]
  exact Or.inl ⟨rfl, rfl⟩

/-- only the own record is replaced -/
theorem unregFrame_setConn {c : Nat} {x : Ctx} {cn' : Conn} (hid : cn'.id = c)
    (hf : (cn'.quit = (x.conn c).quit ∧ cn'.killedBy = (x.conn c).killedBy) ∨ cn'.authenticated = false) :
    UnregFrame c x (x.setConn cn') := by
  refine ⟨fun z hz hne => ?_, fun z hz hzid => ?_, Or.inl rfl⟩
  · rcases Modes.mem_setConn hz with ⟨h1, _⟩ | ⟨h1, _⟩
    · exact h1
    · subst h1; exact absurd hid hne
  · rcases Modes.mem_setConn hz with ⟨_, h2⟩ | ⟨h1, _⟩
    · exact absurd (hzid.trans hid.symm) h2
    · subst h1; exact hf

theorem UnregFrame.reply {c : Nat} {x y : Ctx} (f : UnregFrame c x y) (cfg : Cfg) (t : Str) :
    UnregFrame c x (y.reply cfg t) := ⟨f.others, f.own, f.max⟩

/-- pre-composition with an update of the own record that keeps the flags -/
theorem UnregFrame.after_setConn {c : Nat} {x y : Ctx} {cn' : Conn} (hl : Live x.w c) (hid : cn'.id = c)
    (hq : cn'.quit = (x.conn c).quit) (hk : cn'.killedBy = (x.conn c).killedBy)
    (f : UnregFrame c (x.setConn cn') y) : UnregFrame c x y := by
  have hc : (x.setConn cn').conn c = cn' := Reg.Ctx.conn_setConn_live hl hid
  refine ⟨fun z hz hne => ?_, fun z hz hzid => ?_, f.max⟩
  · rcases Modes.mem_setConn (f.others z hz hne) with ⟨h1, _⟩ | ⟨h1, _⟩
    · exact h1
    · subst h1; exact absurd hid hne
  · have := f.own z hz hzid
    rw [hc, hq, hk] at this
    exact this

theorem authenticate_unregFrame {cfg : Cfg} {c : Nat} {x : Ctx} (h : InvCore x.w) (hl : Live x.w c)
    (hu : (x.conn c).authenticated = false) : UnregFrame c x (authenticate cfg c x) := by
  obtain ⟨hm, hid⟩ := Reg.Ctx.conn_of_live hl
  rcases Reg.authenticate_w_cases cfg c x h hl hu with e | ⟨cn', e, h1, h2, _⟩ | ⟨nick, r, hn, hfree, e⟩
  · exact unregFrame_of_w_eq h hl e
  · have f := unregFrame_setConn (x := x) (cn' := cn') (h1.trans hid) (Or.inr h2)
    exact ⟨by rw [e]; exact f.others, by rw [e]; exact f.own, by rw [e]; exact f.max⟩
  · have e_conns : (authenticate cfg c x).w.conns = (x.w.setConn (Reg.regConn (x.conn c) r)).conns := by
      rw [e, Reg.World.setConn_conns, Reg.World.addUser_conns, ← Reg.World.setConn_conns,
        Reg.setConn_setConn x.w (Reg.regConn1 (x.conn c) r) (Reg.regConn (x.conn c) r) rfl]
    have f := unregFrame_setConn (x := x) (cn' := Reg.regConn (x.conn c) r) hid (Or.inl ⟨rfl, rfl⟩)
    refine ⟨by rw [e_conns]; exact f.others, by rw [e_conns]; exact f.own, Or.inr ?_⟩
    rw [e]
    simp only [World.setConn_maxUsers, World.setConn_users]
    rw [addUser_maxUsers_eq]
    rfl

theorem setConn_authenticate_unregFrame {cfg : Cfg} {c : Nat} {x : Ctx} {cn' : Conn} (h : InvCore x.w)
    (hl : Live x.w c) (hu : (x.conn c).authenticated = false) (hid : cn'.id = c)
    (hu' : cn'.authenticated = false) (hr1 : cn'.hasSender = (x.conn c).hasSender)
    (hr2 : cn'.hasQuitSender = (x.conn c).hasQuitSender)
    (hr3 : cn'.hasPingSender = (x.conn c).hasPingSender)
    (hq : cn'.quit = (x.conn c).quit) (hk : cn'.killedBy = (x.conn c).killedBy) :
    UnregFrame c x (authenticate cfg c (x.setConn cn')) := by
  obtain ⟨hm, hcid⟩ := Reg.Ctx.conn_of_live hl
  have h1 : InvCore (x.setConn cn').w :=
    Reg.invCore_setConn_unauth h hm (by rw [hid, hcid]) hu hu' hr1 hr2 hr3
  have hl1 : Live (x.setConn cn').w c := Reg.live_setConn cn' hl
  have hc1 : (x.setConn cn').conn c = cn' := Reg.Ctx.conn_setConn_live hl hid
  exact (authenticate_unregFrame (cfg := cfg) h1 hl1 (by rw [hc1]; exact hu')).after_setConn hl hid hq hk

/-- any line of a live unregistered connection -/
theorem handleLine_unregFrame {cfg : Cfg} {c : Nat} {s : Str} {x : Ctx}
    (h : InvCore x.w) (hl : Live x.w c) (hu : (x.conn c).authenticated = false) :
    UnregFrame c x (handleLine cfg c s x) := by
  unfold handleLine
  simp only
  split
  · exact unregFrame_of_w_eq h hl rfl
  · exact unregFrame_of_w_eq h hl rfl
  · exact unregFrame_of_w_eq h hl rfl
  · rename_i msg _
    split
    · exact unregFrame_of_w_eq h hl rfl
    · rename_i cmd hcmd
      have hb : InvCore (x.modifyW (fun w => bumpCount w cmd.id.index)).w := invCore_bumpCount h _
      have hlb : Live (x.modifyW (fun w => bumpCount w cmd.id.index)).w c := hl
      have hub : ((x.modifyW (fun w => bumpCount w cmd.id.index)).conn c).authenticated = false := hu
      have lift : ∀ {y : Ctx}, UnregFrame c (x.modifyW (fun w => bumpCount w cmd.id.index)) y →
          UnregFrame c x y := fun f => ⟨f.others, f.own, f.max⟩
      apply lift
      generalize x.modifyW (fun w => bumpCount w cmd.id.index) = x' at hb hlb hub
      obtain ⟨hm', hcid'⟩ := Reg.Ctx.conn_of_live hlb
      split
      · exact unregFrame_of_w_eq hb hlb rfl
      · rename_i hg
        have hall : allowedUnregistered cmd = true := by
          rw [hu] at hg
          simpa using hg
        cases cmd with
        | CAP sub caps v =>
          simp only [dispatch]
          unfold processCap
          cases sub with
          | LS =>
            exact (unregFrame_setConn (cn' := { x'.conn c with capsNeg := true }) hcid'
              (Or.inl ⟨rfl, rfl⟩)).reply cfg _
          | LIST => exact unregFrame_of_w_eq hb hlb rfl
          | REQ =>
            simp only
            have f1 : UnregFrame c x' (x'.setConn { x'.conn c with capsNeg := true }) :=
              unregFrame_setConn hcid' (Or.inl ⟨rfl, rfl⟩)
            cases caps with
            | none => exact f1
            | some cs =>
              simp only
              split
              · refine UnregFrame.reply ?_ cfg _
                rw [show (x'.setConn { x'.conn c with capsNeg := true }).setConn
                      (if cs.isEmpty then { x'.conn c with capsNeg := true }
                       else { x'.conn c with capsNeg := true, multiPrefix := true }) =
                    x'.setConn (if cs.isEmpty then { x'.conn c with capsNeg := true }
                       else { x'.conn c with capsNeg := true, multiPrefix := true }) from by
                  unfold Ctx.setConn
                  simp only
                  rw [Reg.setConn_setConn _ _ _ (by split <;> rfl)]]
                apply unregFrame_setConn
                · split <;> exact hcid'
                · split <;> exact Or.inl ⟨rfl, rfl⟩
              · exact f1.reply cfg _
          | END =>
            simp only [hub, Bool.not_false, ↓reduceIte]
            exact setConn_authenticate_unregFrame hb hlb hub hcid' rfl rfl rfl rfl rfl rfl
        | AUTHENTICATE => exact unregFrame_of_w_eq hb hlb rfl
        | PASS p =>
          simp only [dispatch]
          unfold processPass
          simp only [hub, Bool.not_false, ↓reduceIte]
          exact setConn_authenticate_unregFrame hb hlb hub hcid' rfl rfl rfl rfl rfl rfl
        | NICK n =>
          simp only [dispatch]
          unfold processNick
          simp only [hub, Bool.not_false, ↓reduceIte]
          split
          · exact setConn_authenticate_unregFrame hb hlb hub hcid' hub rfl rfl rfl rfl rfl
          · exact unregFrame_of_w_eq hb hlb rfl
        | USER u a b r =>
          simp only [dispatch]
          unfold processUser
          simp only [hub, Bool.not_false, ↓reduceIte]
          exact setConn_authenticate_unregFrame hb hlb hub hcid' hub rfl rfl rfl rfl rfl
        | QUIT =>
          simp only [dispatch]
          unfold processQuit
          exact (unregFrame_setConn (cn' := { x'.conn c with quit := true }) hcid' (Or.inr hub)).reply cfg _
        | _ => simp [allowedUnregistered] at hall

/-! ### 17. the stored maximum along `step` -/

theorem teardown_maxUsers {w : World} (h : InvCore w) {cn : Conn} (hm : cn ∈ w.conns) :
    (teardown w cn.id).maxUsers = w.maxUsers := by
  cases ha : cn.authenticated with
  | false => exact (teardown_unauthenticated_noop h hm ha).2.2.2.2.2.1
  | true =>
    obtain ⟨n, u, hn, _, _⟩ := h.authOwns cn hm ha
    exact (teardown_keeps_others h hm ha hn).2.2.2.2.2

theorem foldl_settleW_maxUsers (l : List Nat) {w : World} (h : InvCore w) :
    (l.foldl settleW w).maxUsers = w.maxUsers := by
  induction l generalizing w with
  | nil => rfl
  | cons i l ih =>
    rw [List.foldl_cons, ih (settleW_spec h i).1]
    rcases settleW_cases h i with e | ⟨cn, hm, _, _, e⟩
    · rw [e]
    · rw [e]; exact teardown_maxUsers h hm

theorem settle_maxUsers {w : World} (h : InvCore w) (cfg : Cfg) (outs : List (Nat × Str)) (evs : List Str) :
    (settle cfg w outs evs).1.maxUsers = w.maxUsers := by
  unfold settle
  rw [settle_w]
  exact foldl_settleW_maxUsers _ h

/-- if the only connection that can be flagged is an unregistered one, the settling phase changes
    neither users nor channels nor the maximum -/
theorem settle_only_unauth_flagged {w : World} (h : InvCore w) {c : Nat}
    (hf : ∀ z, z ∈ w.conns → flagged z = true → z.id = c ∧ z.authenticated = false)
    (cfg : Cfg) (outs : List (Nat × Str)) (evs : List Str) :
    (settle cfg w outs evs).1.users = w.users ∧ (settle cfg w outs evs).1.channels = w.channels ∧
    (settle cfg w outs evs).1.maxUsers = w.maxUsers := by
  by_cases hex : ∃ z, z ∈ w.conns ∧ flagged z = true
  · obtain ⟨z, hz, hfz⟩ := hex
    obtain ⟨hzid, hza⟩ := hf z hz hfz
    have ho : ∀ y, y ∈ w.conns → y.id ≠ z.id → y.quit = false ∧ y.killedBy = none := by
      intro y hy hne
      apply flagged_false.mp
      cases hfy : flagged y with
      | false => rfl
      | true => exact absurd ((hf y hy hfy).1.trans hzid.symm) hne
    rw [settle_one h hz hfz ho]
    obtain ⟨a, b, _, _, _, c', _⟩ := teardown_unauthenticated_noop h hz hza
    exact ⟨a, b, c'⟩
  · have hs : ∀ cn, cn ∈ w.conns → cn.quit = false ∧ cn.killedBy = none := by
      intro cn hcn
      apply flagged_false.mp
      cases hfc : flagged cn with
      | false => rfl
      | true => exact absurd ⟨cn, hcn, hfc⟩ hex
    rw [settle_of_settled cfg w outs evs hs]
    exact ⟨rfl, rfl, rfl⟩

/-- a line of an unregistered connection, at `step` level: the settling phase does nothing to users,
    channels and the maximum -/
theorem step_unreg_line {cfg : Cfg} {w : World} (h : Inv w) {cn : Conn} (hm : cn ∈ w.conns)
    (ha : cn.authenticated = false) (s : Str) :
    (step cfg w (.line cn.id s)).w.users = (handleLine cfg cn.id s { w := w }).w.users ∧
    (step cfg w (.line cn.id s)).w.channels = (handleLine cfg cn.id s { w := w }).w.channels ∧
    (step cfg w (.line cn.id s)).w.maxUsers = (handleLine cfg cn.id s { w := w }).w.maxUsers := by
  have hl : Live w cn.id := ⟨cn, hm, rfl⟩
  have hc : Ctx.conn { w := w } cn.id = cn := Reg.Ctx.conn_of_conn? (conn?_mem h.toInvCore hm)
  have hu : (Ctx.conn { w := w } cn.id).authenticated = false := by rw [hc]; exact ha
  have f := handleLine_unregFrame (cfg := cfg) (s := s) (x := { w := w }) h.toInvCore hl hu
  have hi := (invCore_handleLine (cfg := cfg) (s := s) (x := { w := w }) h.toInvCore hl).1
  unfold step
  simp only [conn?_mem h.toInvCore hm]
  unfold finish
  simp only
  apply settle_only_unauth_flagged hi (c := cn.id)
  intro z hz hfz
  by_cases hid : z.id = cn.id
  · refine ⟨hid, ?_⟩
    rcases f.own z hz hid with ⟨hq, hk⟩ | hza
    · rw [hc] at hq hk
      obtain ⟨s1, s2⟩ := h.settled cn hm
      rw [flagged_false.mpr ⟨hq.trans s1, hk.trans s2⟩] at hfz; cases hfz
    · exact hza
  · have := h.settled z (f.others z hz hid)
    rw [flagged_false.mpr this] at hfz; cases hfz

theorem handleLine_auth_maxUsers {cfg : Cfg} {c : Nat} {s : Str} {x : Ctx}
    (h : InvCore x.w) (hl : Live x.w c) (ha : (x.conn c).authenticated = true) :
    (handleLine cfg c s x).w.maxUsers = x.w.maxUsers := by
  unfold handleLine
  simp only
  split
  · rfl
  · rfl
  · rfl
  · rename_i msg _
    split
    · rfl
    · rename_i cmd hcmd
      split
      · rfl
      · exact dispatch_auth_maxUsers (x := x.modifyW (fun w => bumpCount w cmd.id.index))
          (invCore_bumpCount h _) hl ha hcmd

theorem max_eq_of_same {w w' : World} (hi : InvCore w') (e : w'.maxUsers = w.maxUsers) :
    w'.maxUsers = max w.maxUsers w'.users.length := by
  have := hi.maxUsers
  omega

/-- **the stored maximum is a running maximum**: after every operation it is the larger of its old
    value and the new number of users -/
theorem step_maxUsers {cfg : Cfg} {w : World} (h : Inv w) {e : Event} (hs : Sched w e) :
    (step cfg w e).w.maxUsers = max w.maxUsers (step cfg w e).w.users.length := by
  have hi' : InvCore (step cfg w e).w := (inv_step h hs).toInvCore
  cases e with
  | connect c ip =>
    apply max_eq_of_same hi'
    rcases step_connect_w cfg w c ip with e | e <;> rw [e]
  | line c s =>
    cases hc : w.conn? c with
    | none =>
      apply max_eq_of_same hi'
      unfold step; simp only [hc]
    | some cn =>
      obtain ⟨hm, hid⟩ := conn?_some hc
      subst hid
      have hcc : Ctx.conn { w := w } cn.id = cn := Reg.Ctx.conn_of_conn? hc
      cases ha : cn.authenticated with
      | true =>
        apply max_eq_of_same hi'
        have hl : Live w cn.id := ⟨cn, hm, rfl⟩
        have hW := (invCore_handleLine (cfg := cfg) (s := s) (x := { w := w }) h.toInvCore hl).1
        have : (step cfg w (.line cn.id s)).w.maxUsers = (handleLine cfg cn.id s { w := w }).w.maxUsers := by
          unfold step
          simp only [hc]
          unfold finish
          exact settle_maxUsers hW cfg _ _
        rw [this]
        exact handleLine_auth_maxUsers (x := { w := w }) h.toInvCore hl (by rw [hcc]; exact ha)
      | false =>
        obtain ⟨e1, _, e3⟩ := step_unreg_line (cfg := cfg) h hm ha s
        have hl : Live w cn.id := ⟨cn, hm, rfl⟩
        have f := handleLine_unregFrame (cfg := cfg) (s := s) (x := { w := w }) h.toInvCore hl
          (by rw [hcc]; exact ha)
        rcases f.max with e | e
        · exact max_eq_of_same hi' (e3.trans e)
        · rw [e3, e1]; exact e
  | tooLong c =>
    apply max_eq_of_same hi'
    cases hc : w.conn? c with
    | none => unfold step; simp only [hc]
    | some cn =>
      obtain ⟨hm, hid⟩ := conn?_some hc
      subst hid
      rw [step_tooLong_w h hm]; exact teardown_maxUsers h.toInvCore hm
  | badUtf8 c =>
    apply max_eq_of_same hi'
    cases hc : w.conn? c with
    | none => unfold step; simp only [hc]
    | some cn =>
      obtain ⟨hm, hid⟩ := conn?_some hc
      subst hid
      rw [step_badUtf8_w h hm]; exact teardown_maxUsers h.toInvCore hm
  | eof c =>
    apply max_eq_of_same hi'
    cases hc : w.conn? c with
    | none => unfold step; simp only [hc]
    | some cn =>
      obtain ⟨hm, hid⟩ := conn?_some hc
      subst hid
      rw [step_eof_w h hm]; exact teardown_maxUsers h.toInvCore hm
  | reset c =>
    apply max_eq_of_same hi'
    cases hc : w.conn? c with
    | none => unfold step; simp only [hc]
    | some cn =>
      obtain ⟨hm, hid⟩ := conn?_some hc
      subst hid
      rw [step_reset_w h hm]; exact teardown_maxUsers h.toInvCore hm
  | partialLine c s =>
    apply max_eq_of_same hi'
    unfold step
    simp only
    split <;> rfl

theorem handleLine_auth_memOf {cfg : Cfg} {c : Nat} {s : Str} {x : Ctx}
    (h : InvCore x.w) (hl : Live x.w c) (ha : (x.conn c).authenticated = true)
    (hno : ∀ msg cmd, Message.parse s = .ok msg → Command.fromMessage msg = .ok cmd →
      changesMembership cmd = false) (ch m : Str) :
    (handleLine cfg c s x).w.memOf ch m = x.w.memOf ch m := by
  unfold handleLine
  simp only
  split
  · rfl
  · rfl
  · rfl
  · rename_i msg hmsg
    split
    · rfl
    · rename_i cmd hcmd
      split
      · rfl
      · exact dispatch_auth_memOf (x := x.modifyW (fun w => bumpCount w cmd.id.index))
          (invCore_bumpCount h _) hl ha hcmd (hno msg cmd hmsg hcmd) ch m

/-! ### 18. KILL at `step` level -/

/-- a line that parses to `KILL nick comment` -/
def IsKillLine (s : Str) (nick comment : Str) : Prop :=
  ∃ msg, Message.parse s = .ok msg ∧ Command.fromMessage msg = .ok (.KILL nick comment)

/-- the world right after the handler of a successful KILL of `n` (user `u`, connection `cn`) by the
    operator `k`: the kill signal is recorded in the victim's user entry and connection record -/
def killedWorld (w : World) (k comment n : Str) (u : User) (cn : Conn) : World :=
  ({ bumpCount w CmdId.KILL.index with
      users := Map.insert n { u with killed := true } w.users } : World).setConn
    { cn with killedBy := some (k, comment) }

theorem fireKill_eq {W : World} {k comment n : Str} {u : User} {cn : Conn}
    (hu : Map.lookup n W.users = some u) (hk : u.killed = false) (hc : W.conn? u.owner = some cn) :
    fireKill k comment n W =
      ({ W with users := Map.insert n { u with killed := true } W.users } : World).setConn
        { cn with killedBy := some (k, comment) } := by
  unfold fireKill
  simp only [hu, hk, Bool.false_eq_true, ↓reduceIte]
  have e2 : World.conn? ({ W with users := Map.insert n { u with killed := true } W.users } : World) u.owner
      = some cn := hc
  rw [e2]

theorem handleLine_kill_w {cfg : Cfg} {w : World} (h : Inv w) {co : Conn} (hco : co ∈ w.conns)
    (hca : co.authenticated = true) {k : Str} (hck : co.nick = some k) {uk : User}
    (huk : Map.lookup k w.users = some uk) (hop : uk.modes.oper = true)
    {n : Str} {u : User} (hu : Map.lookup n w.users = some u) {cn : Conn} (hcn : cn ∈ w.conns)
    (hown : cn.id = u.owner) {s comment : Str} (hk : IsKillLine s n comment) :
    (handleLine cfg co.id s { w := w }).w = killedWorld w k comment n u cn := by
  obtain ⟨msg, hp, hc⟩ := hk
  have hconn : ∀ W : World, W.conns = w.conns → (Ctx.conn { w := W } co.id) = co := by
    intro W hW
    apply Reg.Ctx.conn_of_conn?
    show W.conn? co.id = some co
    unfold World.conn?
    rw [hW]
    exact conn?_mem h.toInvCore hco
  unfold handleLine
  simp only [hp, hc, allowedUnregistered, Bool.not_false, hconn w rfl, hca, Bool.not_true, Bool.and_false,
    Bool.false_eq_true, ↓reduceIte, dispatch]
  unfold processKill
  have hcb : (Ctx.modifyW { w := w } fun w => bumpCount w (Command.KILL n comment).id.index).conn co.id = co :=
    hconn _ rfl
  have hcont : Map.contains n w.users = true := (Map.contains_iff _ _).mpr ⟨u, hu⟩
  simp only [hcb, hck, Ctx.modifyW_w]
  have e1 : (bumpCount w (Command.KILL n comment).id.index).users = w.users := rfl
  simp only [e1, huk, hop, ↓reduceIte, hcont]
  have hc' : (bumpCount w (Command.KILL n comment).id.index).conn? u.owner = some cn := by
    rw [← hown]; exact conn?_mem h.toInvCore hcn
  exact fireKill_eq (W := bumpCount w (Command.KILL n comment).id.index) hu (h.notKilled n u hu) hc'

theorem step_kill_w {cfg : Cfg} {w : World} (h : Inv w) {co : Conn} (hco : co ∈ w.conns)
    (hca : co.authenticated = true) {k : Str} (hck : co.nick = some k) {uk : User}
    (huk : Map.lookup k w.users = some uk) (hop : uk.modes.oper = true)
    {n : Str} {u : User} (hu : Map.lookup n w.users = some u) {cn : Conn} (hcn : cn ∈ w.conns)
    (hown : cn.id = u.owner) {s comment : Str} (hk : IsKillLine s n comment) :
    InvCore (killedWorld w k comment n u cn) ∧
    ({ cn with killedBy := some (k, comment) } : Conn) ∈ (killedWorld w k comment n u cn).conns ∧
    (step cfg w (.line co.id s)).w = teardown (killedWorld w k comment n u cn) cn.id := by
  have hl : Live w co.id := ⟨co, hco, rfl⟩
  have hW := handleLine_kill_w (cfg := cfg) h hco hca hck huk hop hu hcn hown hk
  have hi : InvCore (killedWorld w k comment n u cn) := by
    rw [← hW]; exact (invCore_handleLine (cfg := cfg) (s := s) (x := { w := w }) h.toInvCore hl).1
  have hmem := Reg.mem_setConn (w := ({ bumpCount w CmdId.KILL.index with
      users := Map.insert n { u with killed := true } w.users } : World))
      (cn := cn) (cn' := { cn with killedBy := some (k, comment) }) hcn rfl
  have hm' : ({ cn with killedBy := some (k, comment) } : Conn) ∈ (killedWorld w k comment n u cn).conns :=
    (hmem _).mpr (Or.inl rfl)
  refine ⟨hi, hm', ?_⟩
  unfold step
  simp only [conn?_mem h.toInvCore hco]
  unfold finish
  simp only [hW]
  exact settle_one hi hm' (by simp [flagged]) (by
    intro y hy hne
    rcases (hmem y).mp hy with rfl | ⟨hy', _⟩
    · exact absurd rfl hne
    · exact h.settled y hy') cfg _ _

end Irc.IP
