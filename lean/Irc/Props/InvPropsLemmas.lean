/-
  Irc.Props.InvPropsLemmas — helper lemmas shared by the property files C02, C04, C06, C19
  (corollaries of the global invariant and of the per-handler theorems in Irc/InvProofs).
  Everything lives in `namespace Irc.IP`.
-/
import Irc.InvProofs.Step

namespace Irc.IP
open Irc Tear

/-! ### 1. connections -/

theorem conn?_mem {w : World} (h : InvCore w) {cn : Conn} (hm : cn ∈ w.conns) :
    w.conn? cn.id = some cn := Tear.conn?_of_mem h.connsNodup hm

theorem conn_unique {w : World} (h : InvCore w) {a b : Conn} (ha : a ∈ w.conns) (hb : b ∈ w.conns)
    (e : a.id = b.id) : a = b := conn_eq_of_id h.connsNodup ha hb e

/-- two live authenticated connections with the same nick are the same connection -/
theorem owner_unique {w : World} (h : InvCore w) {a b : Conn} {n : Str}
    (ha : a ∈ w.conns) (haa : a.authenticated = true) (han : a.nick = some n)
    (hb : b ∈ w.conns) (hba : b.authenticated = true) (hbn : b.nick = some n) : a = b := by
  obtain ⟨n1, u1, e1, l1, o1⟩ := h.authOwns a ha haa
  obtain ⟨n2, u2, e2, l2, o2⟩ := h.authOwns b hb hba
  rw [han] at e1; cases e1
  rw [hbn] at e2; cases e2
  rw [l1] at l2; cases l2
  exact conn_unique h ha hb (o1.symm.trans o2)

theorem filter_setConn_ne (l : List Conn) (cn' : Conn) :
    (l.map (fun x => if x.id == cn'.id then cn' else x)).filter (·.id != cn'.id) =
      l.filter (·.id != cn'.id) := by
  induction l with
  | nil => rfl
  | cons a l ih =>
    simp only [List.map_cons, List.filter_cons]
    by_cases e : a.id = cn'.id
    · have e1 : (a.id == cn'.id) = true := by simpa using e
      have e2 : (cn'.id != cn'.id) = false := by simp
      have e3 : (a.id != cn'.id) = false := by simp [e]
      simp only [e1, ↓reduceIte, e2, e3, Bool.false_eq_true, ih]
    · have e1 : (a.id == cn'.id) = false := by simpa using e
      simp only [e1, Bool.false_eq_true, ↓reduceIte]
      have e2 : (a.id != cn'.id) = true := by simpa using e
      simp only [e2, ↓reduceIte, ih]

/-! ### 2. `remove_user` does not look at the connection list, the slot counter or `cmdCounts` -/

/-- `{ w with conns := cs, connsCount := k, cmdCounts := cc }` -/
def upd (cs : List Conn) (k : Nat) (cc : List Nat) (w : World) : World :=
  { w with conns := cs, connsCount := k, cmdCounts := cc }

theorem removeUserFromChannel_upd (w : World) (ch n : Str) (cs : List Conn) (k : Nat) (cc : List Nat) :
    (upd cs k cc w).removeUserFromChannel ch n = upd cs k cc (w.removeUserFromChannel ch n) := by
  unfold World.removeUserFromChannel upd
  simp only
  split
  · split
    · rfl
    · split <;> rfl
  · rfl

theorem fold_removeUserFromChannel_upd (n : Str) (l : List Str) (w : World) (cs : List Conn) (k : Nat)
    (cc : List Nat) :
    l.foldl (fun w chn => w.removeUserFromChannel chn n) (upd cs k cc w) =
      upd cs k cc (l.foldl (fun w chn => w.removeUserFromChannel chn n) w) := by
  induction l generalizing w with
  | nil => rfl
  | cons a l ih =>
    simp only [List.foldl_cons]
    rw [removeUserFromChannel_upd, ih]

def rmOper (b : Bool) (w : World) : World :=
  if b then
    (if w.operatorsCount = 0 then w.panic "remove_user: operators_count underflow"
     else { w with operatorsCount := w.operatorsCount - 1 })
  else w

def rmInvisible (b : Bool) (w : World) : World :=
  if b then
    (if w.invisibleCount = 0 then w.panic "remove_user: invisible_users_count underflow"
     else { w with invisibleCount := w.invisibleCount - 1 })
  else w

def rmWallops (n : Str) (w : World) : World := { w with wallops := KSet.erase n w.wallops }

theorem removeUser_unfold' (w : World) (n : Str) :
    w.removeUser n =
      match Map.lookup n w.users with
      | none => w
      | some user =>
        World.pushHistory
          (user.channels.foldl (fun w chn => w.removeUserFromChannel chn n)
            (rmWallops n (rmInvisible user.modes.invisible (rmOper user.modes.isLocalOper
                ({ w with users := Map.erase n w.users } : World)))))
          n user.history := rfl

theorem rmOper_upd (b : Bool) (cs : List Conn) (k : Nat) (cc : List Nat) (w : World) :
    rmOper b (upd cs k cc w) = upd cs k cc (rmOper b w) := by
  unfold rmOper upd
  split
  · split <;> rfl
  · rfl

theorem rmInvisible_upd (b : Bool) (cs : List Conn) (k : Nat) (cc : List Nat) (w : World) :
    rmInvisible b (upd cs k cc w) = upd cs k cc (rmInvisible b w) := by
  unfold rmInvisible upd
  split
  · split <;> rfl
  · rfl

theorem removeUser_upd (w : World) (n : Str) (cs : List Conn) (k : Nat) (cc : List Nat) :
    (upd cs k cc w).removeUser n = upd cs k cc (w.removeUser n) := by
  rw [removeUser_unfold', removeUser_unfold']
  show (match Map.lookup n w.users with
        | none => upd cs k cc w
        | some user => _) = _
  cases Map.lookup n w.users with
  | none => rfl
  | some user =>
    simp only
    have e1 : ({ upd cs k cc w with users := Map.erase n (upd cs k cc w).users } : World) =
        upd cs k cc ({ w with users := Map.erase n w.users } : World) := rfl
    rw [e1, rmOper_upd, rmInvisible_upd]
    have e2 : ∀ W : World, rmWallops n (upd cs k cc W) = upd cs k cc (rmWallops n W) := fun _ => rfl
    rw [e2, fold_removeUserFromChannel_upd]
    rfl

theorem upd_self (w : World) : upd w.conns w.connsCount w.cmdCounts w = w := rfl

theorem removeUser_conns_eq (w : World) (n : Str) : (w.removeUser n).conns = w.conns := by
  have h := removeUser_upd w n w.conns w.connsCount w.cmdCounts
  rw [upd_self] at h
  exact (congrArg World.conns h).trans rfl

theorem removeUser_connsCount_eq (w : World) (n : Str) : (w.removeUser n).connsCount = w.connsCount := by
  have h := removeUser_upd w n w.conns w.connsCount w.cmdCounts
  rw [upd_self] at h
  exact (congrArg World.connsCount h).trans rfl

theorem removeUser_cmdCounts_eq (w : World) (n : Str) : (w.removeUser n).cmdCounts = w.cmdCounts := by
  have h := removeUser_upd w n w.conns w.connsCount w.cmdCounts
  rw [upd_self] at h
  exact (congrArg World.cmdCounts h).trans rfl

/-! ### 3. `teardown` looks only at id, nick and authentication state of the closing connection -/

theorem teardown_eq_of_conn? {w : World} {c : Nat} {cn : Conn} (hc : w.conn? c = some cn) :
    teardown w c =
      if cn.authenticated = true then
        (match cn.nick with
         | some n => { w.removeUser n with conns := w.conns.filter (·.id != c), connsCount := w.connsCount - 1 }
         | none => { w with conns := w.conns.filter (·.id != c), connsCount := w.connsCount - 1 })
      else { w with conns := w.conns.filter (·.id != c), connsCount := w.connsCount - 1 } := by
  unfold teardown
  rw [hc]
  cases ha : cn.authenticated with
  | false => simp [ha]
  | true =>
    cases hn : cn.nick with
    | none => simp [ha, hn]
    | some n => simp [ha, hn, removeUser_conns_eq, removeUser_connsCount_eq]

/-- replacing the record of the closing connection by one with the same id, nick and authentication
    state (e.g. with the `quit` flag set) does not change what `teardown` produces -/
theorem teardown_setConn {w : World} (h : InvCore w) {cn cn' : Conn} (hm : cn ∈ w.conns)
    (hid : cn'.id = cn.id) (hnick : cn'.nick = cn.nick) (hauth : cn'.authenticated = cn.authenticated) :
    teardown (w.setConn cn') cn.id = teardown w cn.id := by
  have hl : Live w cn.id := ⟨cn, hm, rfl⟩
  rw [teardown_eq_of_conn? (Reg.conn?_setConn_live hl hid), teardown_eq_of_conn? (conn?_mem h hm)]
  have hf : (w.setConn cn').conns.filter (·.id != cn.id) = w.conns.filter (·.id != cn.id) := by
    rw [Reg.World.setConn_conns, ← hid]; exact filter_setConn_ne w.conns cn'
  rw [hauth, hnick, hf]
  have hs : w.setConn cn' = upd (w.setConn cn').conns w.connsCount w.cmdCounts w := rfl
  split
  · split
    · rename_i n _
      rw [hs, removeUser_upd]
      simp only [upd, removeUser_cmdCounts_eq]
    · rfl
  · rfl

/-! ### 4. the settling phase, exactly -/

def flagged (cn : Conn) : Bool := cn.quit || cn.killedBy.isSome

theorem flagged_false {cn : Conn} : flagged cn = false ↔ cn.quit = false ∧ cn.killedBy = none := by
  unfold flagged
  cases cn.quit <;> cases cn.killedBy <;> simp

theorem settleW_of_unflagged {w : World} {i : Nat}
    (hu : ∀ cn, w.conn? i = some cn → cn.quit = false ∧ cn.killedBy = none) : settleW w i = w := by
  unfold settleW
  split
  · rfl
  · rename_i cn hc
    obtain ⟨h1, h2⟩ := hu cn hc
    simp [h1, h2]

/-- a flagged live connection is torn down by its settling step -/
theorem settleW_of_flagged {w : World} (h : InvCore w) {cn : Conn} (hm : cn ∈ w.conns)
    (hf : flagged cn = true) : settleW w cn.id = teardown w cn.id := by
  unfold settleW
  rw [conn?_mem h hm]
  simp only
  cases hq : cn.quit with
  | true => simp
  | false =>
    cases hk : cn.killedBy with
    | none => simp [flagged, hq, hk] at hf
    | some p =>
      simp only [Bool.false_eq_true, ↓reduceIte]
      exact teardown_setConn h hm rfl rfl rfl

theorem foldl_settleW_settled (l : List Nat) (w : World)
    (hs : ∀ cn, cn ∈ w.conns → cn.quit = false ∧ cn.killedBy = none) : l.foldl settleW w = w := by
  induction l with
  | nil => rfl
  | cons i l ih =>
    rw [List.foldl_cons, settleW_of_unflagged (fun cn hc => hs cn (conn?_some hc).1), ih]

/-- with exactly one flagged connection the settling phase is the teardown of that connection -/
theorem foldl_settleW_one {w : World} (h : InvCore w) {cn : Conn} (hm : cn ∈ w.conns)
    (hf : flagged cn = true)
    (ho : ∀ y, y ∈ w.conns → y.id ≠ cn.id → y.quit = false ∧ y.killedBy = none) (l : List Nat) :
    l.foldl settleW w = if cn.id ∈ l then teardown w cn.id else w := by
  induction l with
  | nil => rfl
  | cons i l ih =>
    rw [List.foldl_cons]
    by_cases e : i = cn.id
    · subst e
      rw [settleW_of_flagged h hm hf]
      simp only [List.mem_cons, true_or, ↓reduceIte]
      apply foldl_settleW_settled
      intro y hy
      rw [teardown_conns h hm, List.mem_filter] at hy
      exact ho y hy.1 (by simpa using hy.2)
    · rw [settleW_of_unflagged (fun y hc => ho y (conn?_some hc).1 (by rw [(conn?_some hc).2]; exact e)), ih]
      have : (cn.id ∈ i :: l) ↔ cn.id ∈ l := by
        simp only [List.mem_cons, or_iff_right_iff_imp]
        intro e'; exact absurd e'.symm e
      simp only [this]

theorem settle_one {w : World} (h : InvCore w) {cn : Conn} (hm : cn ∈ w.conns) (hf : flagged cn = true)
    (ho : ∀ y, y ∈ w.conns → y.id ≠ cn.id → y.quit = false ∧ y.killedBy = none)
    (cfg : Cfg) (outs : List (Nat × Str)) (evs : List Str) :
    (settle cfg w outs evs).1 = teardown w cn.id := by
  unfold settle
  rw [settle_w, foldl_settleW_one h hm hf ho, if_pos (List.mem_map.mpr ⟨cn, hm, rfl⟩)]

/-- `quit` is set on one connection of a settled world, then the settling phase runs: exactly that
    connection is torn down -/
theorem finish_quit {w : World} (h : Inv w) {cn : Conn} (hm : cn ∈ w.conns) {x : Ctx} (hx : x.w = w)
    (cfg : Cfg) (evs : List Str) :
    (finish cfg cn.id (x.setConn { cn with quit := true }) evs).w = teardown w cn.id := by
  have hm' := (mem_setConn (w := w) (cn' := { cn with quit := true }) hm rfl)
  have hi : InvCore (w.setConn { cn with quit := true }) := invCore_setConn_quit h.toInvCore hm cn.killedBy
  unfold finish
  simp only [Ctx.setConn_w, hx]
  refine (settle_one hi (cn := { cn with quit := true }) ((hm' _).mpr (Or.inl rfl)) (by simp [flagged])
    (by
      intro y hy hne
      rcases (hm' y).mp hy with rfl | ⟨hy', _⟩
      · exact absurd rfl hne
      · exact h.settled y hy') cfg _ evs).trans ?_
  exact teardown_setConn h.toInvCore (cn := cn) (cn' := { cn with quit := true }) hm rfl rfl rfl

end Irc.IP
