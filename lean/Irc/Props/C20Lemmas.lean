/-
  Helper lemmas for property C20 (configuration).  Final statements: `Irc/Props/C20.lean`.
-/
import Irc.Config
import Irc.HConn
import Irc.HChannel

namespace Irc.C20
open Irc Irc.Config

/-! ## `firstBad` / element validators -/

theorem firstBad_eq_none_iff {α : Type} (err : α → Option Str) (i : Nat) (l : List α) :
    firstBad err i l = none ↔ ∀ x ∈ l, err x = none := by
  induction l generalizing i with
  | nil => simp [firstBad]
  | cons x xs ih =>
    unfold firstBad
    cases h : err x with
    | some f => simp [h]
    | none => simp [h, ih]

theorem firstBad_eq_some {α : Type} (err : α → Option Str) (i : Nat) (l : List α) (j : Nat) (f : Str)
    (h : firstBad err i l = some (j, f)) : ∃ x ∈ l, err x = some f := by
  induction l generalizing i with
  | nil => simp [firstBad] at h
  | cons x xs ih =>
    unfold firstBad at h
    cases hx : err x with
    | some g =>
      simp [hx] at h
      exact ⟨x, by simp, by rw [hx, h.2]⟩
    | none =>
      simp [hx] at h
      obtain ⟨y, hy, hy'⟩ := ih _ h
      exact ⟨y, by simp [hy], hy'⟩

theorem operErr_eq_none_iff (o : RawOper) :
    operErr o = none ↔ validateUsername o.name = true ∧ validPasswordHash o.password = true := by
  unfold operErr
  cases validateUsername o.name <;> cases validPasswordHash o.password <;> simp

theorem optOk_iff (p : Str → Bool) (o : Option Str) :
    optOk p o = true ↔ ∀ s, o = some s → p s = true := by
  cases o <;> simp [optOk]

theorem userErr_eq_none_iff (u : RawUser) :
    userErr u = none ↔ validateUsername u.name = true ∧ validateUsername u.nick = true ∧
      optOk lengthMin6 u.password = true ∧ optOk validPasswordHash u.password = true := by
  unfold userErr
  cases validateUsername u.name <;> cases validateUsername u.nick <;>
    cases optOk lengthMin6 u.password <;> cases optOk validPasswordHash u.password <;> simp

theorem chanErr_eq_none_iff (ch : RawChannel) :
    chanErr ch = none ↔ validateChannel ch.name = true := by
  unfold chanErr
  cases validateChannel ch.name <;> simp

/-! ## `validate` / `loadConfig` -/

/-- the Boolean content of `validate`. -/
theorem validate_eq_ok_iff (c : RawConfig) :
    validate c = .ok () ↔
      containsChar '.' c.name = true ∧ optOk validPasswordHash c.password = true ∧
      (∀ o ∈ c.operators, operErr o = none) ∧ (∀ u ∈ c.users, userErr u = none) ∧
      (∀ ch ∈ c.channels, chanErr ch = none) := by
  unfold validate
  cases h1 : containsChar '.' c.name
  · simp
  cases h2 : optOk validPasswordHash c.password
  · simp
  simp only [Bool.not_true, Bool.false_eq_true, if_false, true_and]
  cases h3 : firstBad operErr 0 c.operators with
  | some p =>
    obtain ⟨i, f⟩ := p
    obtain ⟨x, hx, hx'⟩ := firstBad_eq_some _ _ _ _ _ h3
    simp only [reduceCtorEq, false_iff, not_and]
    intro h; rw [h x hx] at hx'; cases hx'
  | none =>
    rw [firstBad_eq_none_iff] at h3
    cases h4 : firstBad userErr 0 c.users with
    | some p =>
      obtain ⟨i, f⟩ := p
      obtain ⟨x, hx, hx'⟩ := firstBad_eq_some _ _ _ _ _ h4
      simp only [reduceCtorEq, false_iff, not_and]
      intro _ h; rw [h x hx] at hx'; cases hx'
    | none =>
      rw [firstBad_eq_none_iff] at h4
      cases h5 : firstBad chanErr 0 c.channels with
      | some p =>
        obtain ⟨i, f⟩ := p
        obtain ⟨x, hx, hx'⟩ := firstBad_eq_some _ _ _ _ _ h5
        simp only [reduceCtorEq, false_iff, not_and]
        intro _ _ h; rw [h x hx] at hx'; cases hx'
      | none =>
        rw [firstBad_eq_none_iff] at h5
        exact ⟨fun _ => ⟨h3, h4, h5⟩, fun _ => rfl⟩

/-- `validate` never reports `tlsPair` / `nickLength`. -/
theorem validate_error_is_validation (c : RawConfig) (e : LoadError) (h : validate c = .error e) :
    ∃ f, e = .validation f := by
  unfold validate at h
  repeat' split at h
  all_goals first | (cases h; exact ⟨_, rfl⟩) | cases h

theorem validateNicknames_iff (c : RawConfig) :
    validateNicknames c = true ↔ ∀ u ∈ c.users, utf8Len u.nick ≤ 200 := by
  simp [validateNicknames]

theorem tlsPairBad_eq_false_iff (cli : CliOpts) :
    tlsPairBad cli = false ↔ (cli.tlsCert.isSome ↔ cli.tlsKey.isSome) := by
  unfold tlsPairBad
  cases cli.tlsCert <;> cases cli.tlsKey <;> simp

theorem loadConfig_eq_ok_iff (cli : CliOpts) (file c : RawConfig) :
    loadConfig cli file = .ok c ↔
      c = applyCli cli file ∧ tlsPairBad cli = false ∧ validate c = .ok () ∧
      validateNicknames c = true := by
  unfold loadConfig
  cases ht : tlsPairBad cli
  · simp only [Bool.false_eq_true, if_false, true_and]
    cases hv : validate (applyCli cli file) with
    | error e =>
      simp only [reduceCtorEq, false_iff, not_and]
      intro hc; subst hc; simp [hv]
    | ok u =>
      cases hn : validateNicknames (applyCli cli file)
      · simp only [Bool.not_false, if_true, reduceCtorEq, false_iff, not_and]
        intro hc; subst hc; simp [hn]
      · simp only [Bool.not_true, Bool.false_eq_true, if_false, Except.ok.injEq]
        constructor
        · intro h; subst h; exact ⟨rfl, hv, hn⟩
        · intro h; exact h.1.symm
  · simp

theorem loadConfig_cases (cli : CliOpts) (file : RawConfig) :
    (tlsPairBad cli = true ∧ loadConfig cli file = .error .tlsPair) ∨
    (tlsPairBad cli = false ∧ ∃ f, validate (applyCli cli file) = .error (.validation f) ∧
        loadConfig cli file = .error (.validation f)) ∨
    (tlsPairBad cli = false ∧ validate (applyCli cli file) = .ok () ∧
        validateNicknames (applyCli cli file) = false ∧ loadConfig cli file = .error .nickLength) ∨
    (tlsPairBad cli = false ∧ validate (applyCli cli file) = .ok () ∧
        validateNicknames (applyCli cli file) = true ∧
        loadConfig cli file = .ok (applyCli cli file)) := by
  unfold loadConfig
  cases ht : tlsPairBad cli
  · cases hv : validate (applyCli cli file) with
    | error e =>
      obtain ⟨f, rfl⟩ := validate_error_is_validation _ _ hv
      right; left; exact ⟨rfl, f, rfl, by simp [hv]⟩
    | ok u =>
      cases hn : validateNicknames (applyCli cli file)
      · right; right; left; simp [hv, hn]
      · right; right; right; simp [hv, hn]
  · left; simp

end Irc.C20
