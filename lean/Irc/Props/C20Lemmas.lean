/-
  Helper lemmas for property C20 (configuration).  Final statements: `Irc/Props/C20.lean`.
-/
import Irc.Config
import Irc.HConn
import Irc.HChannel
import Irc.Lemmas.Frame

namespace Irc.C20
open Irc Irc.Config

/-! ## `firstBad` / element validators -/

theorem firstBad_eq_none_iff {α : Type} (err : α → Option Str) (i : Nat) (l : List α) :
    firstBad err i l = none ↔ ∀ x ∈ l, err x = none := by
  induction l generalizing i with
  | nil => simp [firstBad]
  | cons x xs ih =>
    unfold firstBad
    cases h : err x with
    | some f => simp [h]
    | none => simp [h, ih]

theorem firstBad_eq_some {α : Type} (err : α → Option Str) (i : Nat) (l : List α) (j : Nat) (f : Str)
    (h : firstBad err i l = some (j, f)) : ∃ x ∈ l, err x = some f := by
  induction l generalizing i with
  | nil => simp [firstBad] at h
  | cons x xs ih =>
    unfold firstBad at h
    cases hx : err x with
    | some g =>
      simp [hx] at h
      exact ⟨x, by simp, by rw [hx, h.2]⟩
    | none =>
      simp [hx] at h
      obtain ⟨y, hy, hy'⟩ := ih _ h
      exact ⟨y, by simp [hy], hy'⟩

theorem operErr_eq_none_iff (o : RawOper) :
    operErr o = none ↔ validateUsername o.name = true ∧ validPasswordHash o.password = true := by
  unfold operErr
  cases validateUsername o.name <;> cases validPasswordHash o.password <;> simp

theorem optOk_iff (p : Str → Bool) (o : Option Str) :
    optOk p o = true ↔ ∀ s, o = some s → p s = true := by
  cases o <;> simp [optOk]

theorem userErr_eq_none_iff (u : RawUser) :
    userErr u = none ↔ validateUsername u.name = true ∧ validateUsername u.nick = true ∧
      optOk lengthMin6 u.password = true ∧ optOk validPasswordHash u.password = true := by
  unfold userErr
  cases validateUsername u.name <;> cases validateUsername u.nick <;>
    cases optOk lengthMin6 u.password <;> cases optOk validPasswordHash u.password <;> simp

theorem chanErr_eq_none_iff (ch : RawChannel) :
    chanErr ch = none ↔ validateChannel ch.name = true := by
  unfold chanErr
  cases validateChannel ch.name <;> simp

/-! ## `validate` / `loadConfig` -/

/-- the Boolean content of `validate`. -/
theorem validate_eq_ok_iff (c : RawConfig) :
    validate c = .ok () ↔
      containsChar '.' c.name = true ∧ optOk validPasswordHash c.password = true ∧
      (∀ o ∈ c.operators, operErr o = none) ∧ (∀ u ∈ c.users, userErr u = none) ∧
      (∀ ch ∈ c.channels, chanErr ch = none) := by
  unfold validate
  cases h1 : containsChar '.' c.name
  · simp
  cases h2 : optOk validPasswordHash c.password
  · simp
  simp only [Bool.not_true, Bool.false_eq_true, if_false, true_and]
  cases h3 : firstBad operErr 0 c.operators with
  | some p =>
    obtain ⟨i, f⟩ := p
    obtain ⟨x, hx, hx'⟩ := firstBad_eq_some _ _ _ _ _ h3
    simp only [reduceCtorEq, false_iff, not_and]
    intro h; rw [h x hx] at hx'; cases hx'
  | none =>
    rw [firstBad_eq_none_iff] at h3
    cases h4 : firstBad userErr 0 c.users with
    | some p =>
      obtain ⟨i, f⟩ := p
      obtain ⟨x, hx, hx'⟩ := firstBad_eq_some _ _ _ _ _ h4
      simp only [reduceCtorEq, false_iff, not_and]
      intro _ h; rw [h x hx] at hx'; cases hx'
    | none =>
      rw [firstBad_eq_none_iff] at h4
      cases h5 : firstBad chanErr 0 c.channels with
      | some p =>
        obtain ⟨i, f⟩ := p
        obtain ⟨x, hx, hx'⟩ := firstBad_eq_some _ _ _ _ _ h5
        simp only [reduceCtorEq, false_iff, not_and]
        intro _ _ h; rw [h x hx] at hx'; cases hx'
      | none =>
        rw [firstBad_eq_none_iff] at h5
        exact ⟨fun _ => ⟨h3, h4, h5⟩, fun _ => rfl⟩

/-- `validate` never reports `tlsPair` / `nickLength`. -/
theorem validate_error_is_validation (c : RawConfig) (e : LoadError) (h : validate c = .error e) :
    ∃ f, e = .validation f := by
  unfold validate at h
  repeat' split at h
  all_goals first | (cases h; exact ⟨_, rfl⟩) | cases h

theorem validateNicknames_iff (c : RawConfig) :
    validateNicknames c = true ↔ ∀ u ∈ c.users, utf8Len u.nick ≤ 200 := by
  simp [validateNicknames]

theorem tlsPairBad_eq_false_iff (cli : CliOpts) :
    tlsPairBad cli = false ↔ (cli.tlsCert.isSome ↔ cli.tlsKey.isSome) := by
  unfold tlsPairBad
  cases cli.tlsCert <;> cases cli.tlsKey <;> simp

theorem loadConfig_eq_ok_iff (cli : CliOpts) (file c : RawConfig) :
    loadConfig cli file = .ok c ↔
      c = applyCli cli file ∧ tlsPairBad cli = false ∧ validate c = .ok () ∧
      validateNicknames c = true := by
  unfold loadConfig
  cases ht : tlsPairBad cli
  · simp only [Bool.false_eq_true, if_false, true_and]
    cases hv : validate (applyCli cli file) with
    | error e =>
      simp only [reduceCtorEq, false_iff, not_and]
      intro hc; subst hc; simp [hv]
    | ok u =>
      cases hn : validateNicknames (applyCli cli file)
      · simp only [Bool.not_false, if_true, reduceCtorEq, false_iff, not_and]
        intro hc; subst hc; simp [hn]
      · simp only [Bool.not_true, Bool.false_eq_true, if_false, Except.ok.injEq]
        constructor
        · intro h; subst h; exact ⟨rfl, hv, hn⟩
        · intro h; exact h.1.symm
  · simp

theorem loadConfig_cases (cli : CliOpts) (file : RawConfig) :
    (tlsPairBad cli = true ∧ loadConfig cli file = .error .tlsPair) ∨
    (tlsPairBad cli = false ∧ ∃ f, validate (applyCli cli file) = .error (.validation f) ∧
        loadConfig cli file = .error (.validation f)) ∨
    (tlsPairBad cli = false ∧ validate (applyCli cli file) = .ok () ∧
        validateNicknames (applyCli cli file) = false ∧ loadConfig cli file = .error .nickLength) ∨
    (tlsPairBad cli = false ∧ validate (applyCli cli file) = .ok () ∧
        validateNicknames (applyCli cli file) = true ∧
        loadConfig cli file = .ok (applyCli cli file)) := by
  unfold loadConfig
  cases ht : tlsPairBad cli
  · cases hv : validate (applyCli cli file) with
    | error e =>
      obtain ⟨f, rfl⟩ := validate_error_is_validation _ _ hv
      right; left; exact ⟨rfl, f, rfl, by simp [hv]⟩
    | ok u =>
      cases hn : validateNicknames (applyCli cli file)
      · right; right; left; simp [hv, hn]
      · right; right; right; simp [hv, hn]
  · left; simp

/-! ## unpadded base64 -/

theorem b64val_b64char : ∀ v, v < 64 → b64val (b64char v) = some v := by decide

theorem b64val_lt {c : Char} {v : Nat} (h : b64val c = some v) : v < 64 := by
  unfold b64val at h
  simp only at h
  repeat' split at h
  all_goals first | (injection h with h; omega) | cases h

theorem b64char_b64val {c : Char} {v : Nat} (h : b64val c = some v) : b64char v = c := by
  unfold b64val at h
  simp only at h
  repeat' split at h
  · injection h with h
    have h1 : v < 26 := by omega
    have h2 : 65 + v = c.toNat := by omega
    simp only [b64char, h1, if_true, h2, Char.ofNat_toNat]
  · injection h with h
    have h1 : ¬ v < 26 := by omega
    have h1' : v < 52 := by omega
    have h2 : 71 + v = c.toNat := by omega
    simp only [b64char, h1, h1', if_true, if_false, h2, Char.ofNat_toNat]
  · injection h with h
    have h1 : ¬ v < 26 := by omega
    have h1' : ¬ v < 52 := by omega
    have h1'' : v < 62 := by omega
    have h2 : v - 4 = c.toNat := by omega
    simp only [b64char, h1, h1', h1'', if_true, if_false, h2, Char.ofNat_toNat]
  · injection h with h
    subst h
    rename_i h43
    have : c = '+' := Char.toNat_inj.mp (by rw [h43]; rfl)
    subst this; rfl
  · injection h with h
    subst h
    rename_i h47
    have : c = '/' := Char.toNat_inj.mp (by rw [h47]; rfl)
    subst this; rfl
  · cases h

/-- the alphabet, in words: `A-Z`, `a-z`, `0-9`, `+`, `/`. -/
def B64Alphabet (c : Char) : Prop :=
  ('A' ≤ c ∧ c ≤ 'Z') ∨ ('a' ≤ c ∧ c ≤ 'z') ∨ ('0' ≤ c ∧ c ≤ '9') ∨ c = '+' ∨ c = '/'

theorem char_le_iff (a b : Char) : a ≤ b ↔ a.toNat ≤ b.toNat := by
  rw [Char.le_def, UInt32.le_iff_toNat_le]; rfl

theorem isB64Char_iff (c : Char) : isB64Char c = true ↔ B64Alphabet c := by
  unfold isB64Char b64val B64Alphabet
  simp only [char_le_iff, ← Char.toNat_inj]
  have e1 : 'A'.toNat = 65 := rfl
  have e2 : 'Z'.toNat = 90 := rfl
  have e3 : 'a'.toNat = 97 := rfl
  have e4 : 'z'.toNat = 122 := rfl
  have e5 : '0'.toNat = 48 := rfl
  have e6 : '9'.toNat = 57 := rfl
  have e7 : '+'.toNat = 43 := rfl
  have e8 : '/'.toNat = 47 := rfl
  rw [e1, e2, e3, e4, e5, e6, e7, e8]
  repeat' split
  all_goals simp
  all_goals omega

theorem lastCanonical_iff (s : Str) :
    lastCanonical s = true ↔ ∃ c, s.getLast? = some c ∧ (b64val c).getD 1 % 16 = 0 := by
  fun_induction lastCanonical s with
  | case1 => simp
  | case2 c => simp
  | case3 x c cs ih => rw [ih]; simp [List.getLast?_cons_cons]

theorem canonical_last_char (c : Char) :
    (b64val c).getD 1 % 16 = 0 ↔ c = 'A' ∨ c = 'Q' ∨ c = 'g' ∨ c = 'w' := by
  constructor
  · intro h
    cases hv : b64val c with
    | none => simp [hv] at h
    | some v =>
      simp only [hv, Option.getD_some] at h
      have hlt := b64val_lt hv
      have hc := b64char_b64val hv
      have : v = 0 ∨ v = 16 ∨ v = 32 ∨ v = 48 := by omega
      rcases this with rfl | rfl | rfl | rfl
      · left; exact hc.symm
      · right; left; exact hc.symm
      · right; right; left; exact hc.symm
      · right; right; right; exact hc.symm
  · rintro (rfl | rfl | rfl | rfl) <;> decide

theorem lastCanonical_cons (x : Char) (l : Str) (h : l ≠ []) :
    lastCanonical (x :: l) = lastCanonical l := by
  cases l with
  | nil => exact absurd rfl h
  | cons y ys => rfl

/-! ### encoder -/

theorem b64encode_ne_nil (bs : List Nat) (h : bs ≠ []) : b64encode bs ≠ [] := by
  fun_cases b64encode bs <;> simp_all

theorem b64encode_length (bs : List Nat) :
    (b64encode bs).length = (4 * bs.length + 2) / 3 := by
  fun_induction b64encode bs with
  | case1 => simp
  | case2 b0 => simp
  | case3 b0 b1 => simp
  | case4 b0 b1 b2 rest ih =>
    simp only [List.length_cons, ih]
    omega

theorem b64encode_all (bs : List Nat) (h : ∀ b ∈ bs, b < 256) :
    ∀ c ∈ b64encode bs, isB64Char c = true := by
  fun_induction b64encode bs with
  | case1 => simp
  | case2 b0 =>
    have h0 : b0 < 256 := h b0 (by simp)
    intro c hc
    simp only [List.mem_cons, List.not_mem_nil, or_false] at hc
    rcases hc with rfl | rfl <;> (unfold isB64Char; rw [b64val_b64char _ (by omega)]; rfl)
  | case3 b0 b1 =>
    have h0 : b0 < 256 := h b0 (by simp)
    have h1 : b1 < 256 := h b1 (by simp)
    intro c hc
    simp only [List.mem_cons, List.not_mem_nil, or_false] at hc
    rcases hc with rfl | rfl | rfl <;> (unfold isB64Char; rw [b64val_b64char _ (by omega)]; rfl)
  | case4 b0 b1 b2 rest ih =>
    have h0 : b0 < 256 := h b0 (by simp)
    have h1 : b1 < 256 := h b1 (by simp)
    have h2 : b2 < 256 := h b2 (by simp)
    intro c hc
    simp only [List.mem_cons] at hc
    rcases hc with rfl | rfl | rfl | rfl | hc
    · unfold isB64Char; rw [b64val_b64char _ (by omega)]; rfl
    · unfold isB64Char; rw [b64val_b64char _ (by omega)]; rfl
    · unfold isB64Char; rw [b64val_b64char _ (by omega)]; rfl
    · unfold isB64Char; rw [b64val_b64char _ (by omega)]; rfl
    · exact ih (fun b hb => h b (by simp [hb])) c hc

theorem b64encode_lastCanonical (bs : List Nat) (h : ∀ b ∈ bs, b < 256)
    (hl : bs.length % 3 = 1) : lastCanonical (b64encode bs) = true := by
  fun_induction b64encode bs with
  | case1 => simp at hl
  | case2 b0 =>
    have h0 : b0 < 256 := h b0 (by simp)
    simp only [lastCanonical]
    rw [b64val_b64char _ (by omega)]
    simp only [Option.getD_some, beq_iff_eq]
    omega
  | case3 b0 b1 => simp at hl
  | case4 b0 b1 b2 rest ih =>
    have hr : rest ≠ [] := by
      intro e; subst e; simp at hl
    have hne := b64encode_ne_nil rest hr
    rw [lastCanonical_cons _ _ (by simp), lastCanonical_cons _ _ (by simp),
      lastCanonical_cons _ _ (by simp), lastCanonical_cons _ _ hne]
    apply ih (fun b hb => h b (by simp [hb]))
    simp only [List.length_cons] at hl
    omega

/-! ### decoder -/

theorem b64decode_b64encode (bs : List Nat) (h : ∀ b ∈ bs, b < 256) :
    b64decode (b64encode bs) = some bs := by
  fun_induction b64encode bs with
  | case1 => rfl
  | case2 b0 =>
    have h0 : b0 < 256 := h b0 (by simp)
    simp only [b64decode]
    rw [b64val_b64char _ (by omega), b64val_b64char _ (by omega)]
    have : b0 % 4 * 16 % 16 = 0 := by omega
    simp only [this, if_true, Option.some.injEq, List.cons.injEq, and_true]
    omega
  | case3 b0 b1 =>
    have h0 : b0 < 256 := h b0 (by simp)
    have h1 : b1 < 256 := h b1 (by simp)
    simp only [b64decode]
    rw [b64val_b64char _ (by omega), b64val_b64char _ (by omega), b64val_b64char _ (by omega)]
    have : b1 % 16 * 4 % 4 = 0 := by omega
    simp only [this, if_true, Option.some.injEq, List.cons.injEq, and_true]
    omega
  | case4 b0 b1 b2 rest ih =>
    have h0 : b0 < 256 := h b0 (by simp)
    have h1 : b1 < 256 := h b1 (by simp)
    have h2 : b2 < 256 := h b2 (by simp)
    simp only [b64decode]
    rw [b64val_b64char _ (by omega), b64val_b64char _ (by omega), b64val_b64char _ (by omega),
      b64val_b64char _ (by omega), ih (fun b hb => h b (by simp [hb]))]
    simp only [Option.some.injEq, List.cons.injEq, and_true]
    omega

theorem b64encode_b64decode (s : Str) (bs : List Nat) (h : b64decode s = some bs) :
    b64encode bs = s ∧ ∀ b ∈ bs, b < 256 := by
  fun_induction b64decode s generalizing bs with
  | case1 => cases h; simp [b64encode]
  | case2 c => cases h
  | case3 c0 c1 v0 v1 e1 e0 hc =>
    cases h
    have l0 := b64val_lt e0; have l1 := b64val_lt e1
    refine ⟨?_, by simp; omega⟩
    simp only [b64encode]
    have a0 : (v0 * 4 + v1 / 16) / 4 = v0 := by omega
    have a1 : (v0 * 4 + v1 / 16) % 4 * 16 = v1 := by omega
    rw [a0, a1, b64char_b64val e0, b64char_b64val e1]
  | case4 c0 c1 v0 v1 e0 e1 hc => cases h
  | case5 c0 c1 hn => cases h
  | case6 c0 c1 c2 v0 v1 v2 e2 e1 e0 hc =>
    cases h
    have l0 := b64val_lt e0; have l1 := b64val_lt e1; have l2 := b64val_lt e2
    refine ⟨?_, by simp; omega⟩
    simp only [b64encode]
    have a0 : (v0 * 4 + v1 / 16) / 4 = v0 := by omega
    have a1 : (v0 * 4 + v1 / 16) % 4 * 16 + (v1 % 16 * 16 + v2 / 4) / 16 = v1 := by omega
    have a2 : (v1 % 16 * 16 + v2 / 4) % 16 * 4 = v2 := by omega
    rw [a0, a1, a2, b64char_b64val e0, b64char_b64val e1, b64char_b64val e2]
  | case7 c0 c1 c2 v0 v1 v2 e0 e1 e2 hc => cases h
  | case8 c0 c1 c2 hn => cases h
  | case9 c0 c1 c2 c3 rest v0 v1 v2 v3 bs' er e3 e2 e1 e0 ih =>
    cases h
    have l0 := b64val_lt e0; have l1 := b64val_lt e1; have l2 := b64val_lt e2
    have l3 := b64val_lt e3
    obtain ⟨ihe, ihb⟩ := ih bs' er
    refine ⟨?_, ?_⟩
    · simp only [b64encode]
      have a0 : (v0 * 4 + v1 / 16) / 4 = v0 := by omega
      have a1 : (v0 * 4 + v1 / 16) % 4 * 16 + (v1 % 16 * 16 + v2 / 4) / 16 = v1 := by omega
      have a2 : (v1 % 16 * 16 + v2 / 4) % 16 * 4 + (v2 % 4 * 64 + v3) / 64 = v2 := by omega
      have a3 : (v2 % 4 * 64 + v3) % 64 = v3 := by omega
      rw [a0, a1, a2, a3, b64char_b64val e0, b64char_b64val e1, b64char_b64val e2,
        b64char_b64val e3, ihe]
    · intro b hb
      simp only [List.mem_cons] at hb
      rcases hb with rfl | rfl | rfl | hb
      · omega
      · omega
      · omega
      · exact ihb b hb
  | case10 c0 c1 c2 c3 rest hn => cases h

theorem b64decode_isSome (s : Str) (ha : ∀ c ∈ s, isB64Char c = true)
    (hc : lastCanonical s = true) (hl : s.length % 4 = 2) : ∃ bs, b64decode s = some bs := by
  induction s using b64decode.induct with
  | case1 => simp at hl
  | case2 c => simp at hl
  | case3 c0 c1 v0 v1 e1 e0 hc' => simp [b64decode, e0, e1, hc']
  | case4 c0 c1 v0 v1 e1 e0 hc' =>
    exfalso
    simp [lastCanonical, e1] at hc
    exact hc' hc
  | case5 c0 c1 hn =>
    exfalso
    have h0 := ha c0 (by simp); have h1 := ha c1 (by simp)
    obtain ⟨v0, e0⟩ := Option.isSome_iff_exists.mp h0
    obtain ⟨v1, e1⟩ := Option.isSome_iff_exists.mp h1
    exact hn v0 v1 e0 e1
  | case6 => simp at hl
  | case7 => simp at hl
  | case8 => simp at hl
  | case9 c0 c1 c2 c3 rest v0 v1 v2 v3 bs' er e3 e2 e1 e0 ih =>
    simp [b64decode, e0, e1, e2, e3, er]
  | case10 c0 c1 c2 c3 rest hn ih =>
    exfalso
    have h0 := ha c0 (by simp); have h1 := ha c1 (by simp)
    have h2 := ha c2 (by simp); have h3 := ha c3 (by simp)
    have hr : rest ≠ [] := by intro e; subst e; simp at hl
    have hcr : lastCanonical rest = true := by
      rw [lastCanonical_cons _ _ (by simp), lastCanonical_cons _ _ (by simp),
        lastCanonical_cons _ _ (by simp), lastCanonical_cons _ _ hr] at hc
      exact hc
    obtain ⟨bs, hbs⟩ := ih (fun c hc => ha c (by simp [hc])) hcr
      (by simp only [List.length_cons] at hl; omega)
    obtain ⟨v0, e0⟩ := Option.isSome_iff_exists.mp h0
    obtain ⟨v1, e1⟩ := Option.isSome_iff_exists.mp h1
    obtain ⟨v2, e2⟩ := Option.isSome_iff_exists.mp h2
    obtain ⟨v3, e3⟩ := Option.isSome_iff_exists.mp h3
    exact hn v0 v1 v2 v3 bs e0 e1 e2 e3 hbs

/-! ## the welcome burst, line by line -/

open Reply

/-- `feed_msg`: what `Ctx.reply cfg t` appends to the connection's own output. -/
def serverLine (cfg : Cfg) (t : Str) : Str := ':' :: (cfg.name ++ ' ' :: t)

theorem foldl_reply_direct {α : Type} (cfg : Cfg) (f : α → Str) (l : List α) (x : Ctx) :
    (l.foldl (fun x a => x.reply cfg (f a)) x).direct =
      x.direct ++ l.map (fun a => serverLine cfg (f a)) := by
  induction l generalizing x with
  | nil => simp
  | cons a as ih => simp [ih, serverLine]

theorem foldl_reply_w {α : Type} (cfg : Cfg) (f : α → Str) (l : List α) (x : Ctx) :
    (l.foldl (fun x a => x.reply cfg (f a)) x).w = x.w := by
  induction l generalizing x with
  | nil => rfl
  | cons a as ih => simp [ih]

theorem sendIsupport_direct (cfg : Cfg) (client : Str) (x : Ctx) :
    (sendIsupport cfg client x).direct = x.direct ++
      (chunks 10 (sortStrs (supportTokens cfg))).map
        (fun toks => serverLine cfg (RplISupport005 client (joinWith [' '] toks))) :=
  foldl_reply_direct cfg _ _ x

theorem sendIsupport_w (cfg : Cfg) (client : Str) (x : Ctx) :
    (sendIsupport cfg client x).w = x.w := foldl_reply_w cfg _ _ x

/-- the seven LUSERS lines (numbers taken from the world `w`). -/
def lusersLines (cfg : Cfg) (client : Str) (w : World) : List Str :=
  [serverLine cfg (RplLUserClient251 client (w.users.length - w.invisibleCount) w.invisibleCount 1),
   serverLine cfg (RplLUserOp252 client w.operatorsCount),
   serverLine cfg (RplLUserUnknown253 client 0),
   serverLine cfg (RplLUserChannels254 client w.channels.length),
   serverLine cfg (RplLUserMe255 client w.users.length 1),
   serverLine cfg (RplLocalUsers265 client w.users.length w.maxUsers),
   serverLine cfg (RplGlobalUsers266 client w.users.length w.maxUsers)]

theorem processLusers_direct (cfg : Cfg) (client : Str) (x : Ctx) :
    (processLusers cfg client x).direct = x.direct ++ lusersLines cfg client x.w := by
  unfold processLusers lusersLines serverLine
  by_cases h : x.w.invisibleCount > x.w.users.length <;> simp [h]

theorem processLusers_users (cfg : Cfg) (client : Str) (x : Ctx) :
    (processLusers cfg client x).w.users = x.w.users := by
  unfold processLusers
  by_cases h : x.w.invisibleCount > x.w.users.length <;> simp [h]

theorem processMotd_none_direct (cfg : Cfg) (client : Str) (x : Ctx) :
    (processMotd cfg client none x).direct = x.direct ++
      [serverLine cfg (RplMotdStart375 client cfg.name), serverLine cfg (RplMotd372 client cfg.motd),
       serverLine cfg (RplEndOfMotd376 client)] := by
  simp [processMotd, serverLine]

theorem processMotd_none_w (cfg : Cfg) (client : Str) (x : Ctx) :
    (processMotd cfg client none x).w = x.w := by
  simp [processMotd]

/-- The complete text of the welcome burst. -/
theorem welcomeBurst_direct (cfg : Cfg) (cn : Conn) (m : Str) (x : Ctx) :
    (welcomeBurst cfg cn m x).direct = x.direct ++
      [serverLine cfg (RplWelcome001 cn.clientName cfg.network (cn.nick.getD []) (cn.name.getD [])
          cn.hostname),
       serverLine cfg (RplYourHost002 cn.clientName cfg.name pkgDash),
       serverLine cfg (RplCreated003 cn.clientName (str "DATE")),
       serverLine cfg (RplMyInfo004 cn.clientName cfg.name pkgDash (str "Oiorw")
          (str "Iabehiklmnopqstv") none)] ++
      (chunks 10 (sortStrs (supportTokens cfg))).map
        (fun toks => serverLine cfg (RplISupport005 cn.clientName (joinWith [' '] toks))) ++
      lusersLines cfg cn.clientName x.w ++
      [serverLine cfg (RplMotdStart375 cn.clientName cfg.name),
       serverLine cfg (RplMotd372 cn.clientName cfg.motd),
       serverLine cfg (RplEndOfMotd376 cn.clientName),
       serverLine cfg (RplUModeIs221 cn.clientName m)] := by
  unfold welcomeBurst
  simp only [Ctx.reply_direct, processMotd_none_direct, processLusers_direct, sendIsupport_direct,
    sendIsupport_w, Ctx.reply_w, serverLine, List.append_assoc, List.cons_append, List.nil_append]

theorem welcomeBurst_users (cfg : Cfg) (cn : Conn) (m : Str) (x : Ctx) :
    (welcomeBurst cfg cn m x).w.users = x.w.users := by
  unfold welcomeBurst
  simp only [Ctx.reply_w, processMotd_none_w, processLusers_users, sendIsupport_w]

/-! ### every ISUPPORT token is in one of the 005 lines -/

theorem mem_insertSorted (t x : Str) (l : List Str) : t ∈ insertSorted x l ↔ t = x ∨ t ∈ l := by
  induction l with
  | nil => simp [insertSorted]
  | cons y ys ih =>
    unfold insertSorted
    split
    · simp
    · simp only [List.mem_cons, ih]
      constructor
      · rintro (h | h | h) <;> simp [h]
      · rintro (h | h | h) <;> simp [h]

theorem mem_sortStrs (t : Str) (l : List Str) : t ∈ sortStrs l ↔ t ∈ l := by
  unfold sortStrs
  induction l with
  | nil => simp
  | cons y ys ih => simp [List.foldr_cons, mem_insertSorted, ih]

theorem chunksAux_flatten {α : Type} (n : Nat) (hn : 0 < n) (fuel : Nat) (xs : List α)
    (hf : xs.length ≤ fuel) : (chunksAux n fuel xs).flatten = xs := by
  induction fuel generalizing xs with
  | zero =>
    have : xs = [] := List.eq_nil_of_length_eq_zero (by omega)
    subst this; simp [chunksAux]
  | succ f ih =>
    cases xs with
    | nil => simp [chunksAux]
    | cons a as =>
      simp only [chunksAux, List.flatten_cons]
      rw [ih]
      · exact List.take_append_drop n (a :: as)
      · simp only [List.length_drop, List.length_cons] at hf ⊢
        omega

theorem chunks_flatten {α : Type} (n : Nat) (hn : 0 < n) (xs : List α) :
    (chunks n xs).flatten = xs := by
  unfold chunks
  have : n ≠ 0 := by omega
  simp only [this, if_false]
  exact chunksAux_flatten n hn _ xs (Nat.le_refl _)

theorem mem_chunks {α : Type} (n : Nat) (hn : 0 < n) (xs : List α) (a : α) (h : a ∈ xs) :
    ∃ c ∈ chunks n xs, a ∈ c := by
  rw [← chunks_flatten n hn xs, List.mem_flatten] at h
  exact h

/-! ### `authenticate`: the user record that is inserted -/

theorem addUser_users (w : World) (nick : Str) (u : User) :
    (w.addUser nick u).users = Map.insert nick u w.users := by
  unfold World.addUser
  simp only
  repeat' split
  all_goals rfl

/-! ### `max_joins` -/

theorem joinDecide_count (cfg : Cfg) (w : World) (cn : Conn) (nick : Str) (inv : KSet)
    (chans : List Str) (keys : List (Option Str)) (cnt : Nat) :
    (joinDecide cfg w cn nick inv chans keys cnt).2.2 =
      cnt + ((joinDecide cfg w cn nick inv chans keys cnt).1.filter (·.1)).length ∧
    (∀ mj, cfg.maxJoins = some mj →
      (joinDecide cfg w cn nick inv chans keys cnt).2.2 ≤ max cnt mj) := by
  fun_induction joinDecide cfg w cn nick inv chans keys cnt with
  | case1 => simp; intros; omega
  | case2 chn rest keys cnt key client join create errs hjc j e hdj cnt' ds es final hrec ih =>
    rw [hrec] at ih
    simp only at ih ⊢
    refine ⟨?_, ?_⟩
    · rw [ih.1]
      cases j <;> simp [cnt'] <;> omega
    · intro mj hmj
      have h2 := ih.2 mj hmj
      rw [hmj] at hdj
      simp only [Prod.mk.injEq] at hdj
      cases hd : j
      · simp only [cnt', hd] at h2; simpa using h2
      · simp only [cnt', hd, if_true] at h2
        have hlt : cnt < mj := by
          have := hdj.1; rw [hd] at this; simp at this; exact this.2
        omega

/-! ## `World.init`: preconfigured channels -/

theorem lookup_foldl_insert {α β : Type} (key : β → Str) (val : β → α) (l : List β) (m0 : Map α)
    (k : Str) :
    Map.lookup k (l.foldl (fun m c => Map.insert (key c) (val c) m) m0) =
      match l.reverse.find? (fun c => key c == k) with
      | some c => some (val c)
      | none => Map.lookup k m0 := by
  induction l generalizing m0 with
  | nil => simp
  | cons c cs ih =>
    simp only [List.foldl_cons, ih, List.reverse_cons, List.find?_append]
    cases h : cs.reverse.find? (fun c => key c == k) with
    | some c' => simp
    | none =>
      simp only [Option.none_or, List.find?_cons, List.find?_nil]
      by_cases hk : key c = k
      · simp [hk]
      · have hb : (key c == k) = false := by simp [hk]
        simp [hb, Map.lookup_insert_ne k (key c) (val c) m0 hk]

end Irc.C20
