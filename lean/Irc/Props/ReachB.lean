/-
  Irc.Props.ReachB — reachability corollaries, part B: property C04 (channel membership is one
  symmetric relation; rank lists mirror member flags; JOIN / PART / KICK / QUIT / NICK change it
  exactly as specified; the NAMES / WHO / WHOIS views agree).

  Every theorem of `Irc/Props/C04.lean` with an `InvCore` hypothesis, restated with
  `(hr : Reachable cfg w)` in its place (see the header of `ReachA.lean`).
-/
import Irc.Props.ReachA
import Irc.Props.C04

namespace Irc.Reach.C04
open Irc Reply Irc.C04

theorem membership_symmetric_reachable
    {cfg : Cfg} {w : World} (hr : Reachable cfg w) {n : Str} {u : User}
    (hu : Map.lookup n w.users = some u) (ch : Str) :
    ch ∈ u.channels ↔ Member w ch n :=
  membership_symmetric (core_reachable hr) hu ch

theorem members_are_users_reachable
    {cfg : Cfg} {w : World} (hr : Reachable cfg w) {ch n : Str} (hm : Member w ch n) :
    ∃ u, Map.lookup n w.users = some u ∧ ch ∈ u.channels :=
  members_are_users (core_reachable hr) hm

theorem no_duplicates_reachable
    {cfg : Cfg} {w : World} (hr : Reachable cfg w) :
    (∀ ch C, Map.lookup ch w.channels = some C → (Map.keys C.users).Nodup) ∧
    (∀ n u, Map.lookup n w.users = some u → u.channels.Nodup) ∧
    (Map.keys w.channels).Nodup ∧ (Map.keys w.users).Nodup :=
  no_duplicates (core_reachable hr)

theorem rank_lists_mirror_flags_reachable
    {cfg : Cfg} {w : World} (hr : Reachable cfg w) {ch : Str} {C : Channel}
    (hC : Map.lookup ch w.channels = some C) (n : Str) :
    (n ∈ C.modes.founders ↔ ∃ m, Map.lookup n C.users = some m ∧ m.founder = true) ∧
    (n ∈ C.modes.protecteds ↔ ∃ m, Map.lookup n C.users = some m ∧ m.prot = true) ∧
    (n ∈ C.modes.operators ↔ ∃ m, Map.lookup n C.users = some m ∧ m.operator = true) ∧
    (n ∈ C.modes.halfOperators ↔ ∃ m, Map.lookup n C.users = some m ∧ m.halfOper = true) ∧
    (n ∈ C.modes.voices ↔ ∃ m, Map.lookup n C.users = some m ∧ m.voice = true) :=
  rank_lists_mirror_flags (core_reachable hr) hC n

theorem empty_only_if_preconfigured_reachable
    {cfg : Cfg} {w : World} (hr : Reachable cfg w) {ch : Str} {C : Channel}
    (hC : Map.lookup ch w.channels = some C) (he : ∀ n, ¬ Member w ch n) :
    C.preconfigured = true :=
  empty_only_if_preconfigured (core_reachable hr) hC he

theorem join_adds_exactly_reachable
    {cfg : Cfg} {c : Nat} {channels : List Str} {keys : Option (List Str)} {x : Ctx}
    (hr : Reachable cfg x.w) (hl : Live x.w c) (ha : (x.conn c).authenticated = true) :
    ∃ n u, (x.conn c).nick = some n ∧ Map.lookup n x.w.users = some u ∧
      ∀ ch m, Member (processJoin cfg c channels keys x).w ch m ↔
        Spec.afterJoin (Member x.w) n
          (fun ch => ∃ p, p ∈ (Memb.joinDecisions cfg c channels keys x n u).zip channels ∧
            p.1.1 = true ∧ p.2 = ch) ch m :=
  join_adds_exactly (core_reachable hr) hl ha

theorem part_removes_exactly_reachable
    {cfg : Cfg} {c : Nat} {channels : List Str} {reason : Option Str} {x : Ctx}
    (hr : Reachable cfg x.w) (hl : Live x.w c) (ha : (x.conn c).authenticated = true) :
    ∃ n, (x.conn c).nick = some n ∧
      ∀ ch m, Member (processPart cfg c channels reason x).w ch m ↔
        Spec.afterPart (Member x.w) n channels ch m :=
  part_removes_exactly (core_reachable hr) hl ha

theorem kick_removes_exactly_reachable
    {cfg : Cfg} {c : Nat} {channel : Str} {kickUsers : List Str} {comment : Option Str} {x : Ctx}
    (hr : Reachable cfg x.w) (hl : Live x.w c) (ha : (x.conn c).authenticated = true) :
    ∃ n, (x.conn c).nick = some n ∧
      ∀ ch m, Member (processKick cfg c channel kickUsers comment x).w ch m ↔
        Spec.afterKick (Member x.w) channel
          (fun m => m ∈ kickUsers ∧ Memb.KickVictim x.w channel n m) ch m :=
  kick_removes_exactly (core_reachable hr) hl ha

theorem teardown_removes_member_everywhere_reachable
    {cfg : Cfg} {w : World} (hr : Reachable cfg w) {cn : Conn} (hm : cn ∈ w.conns)
    (ha : cn.authenticated = true) {n : Str} (hn : cn.nick = some n) (ch m : Str) :
    Member (teardown w cn.id) ch m ↔ Spec.afterQuit (Member w) n ch m :=
  teardown_removes_member_everywhere (core_reachable hr) hm ha hn ch m

theorem teardown_unregistered_keeps_membership_reachable
    {cfg : Cfg} {w : World} (hr : Reachable cfg w) {cn : Conn} (hm : cn ∈ w.conns)
    (ha : cn.authenticated = false) (ch m : Str) :
    Member (teardown w cn.id) ch m ↔ Member w ch m :=
  teardown_unregistered_keeps_membership (core_reachable hr) hm ha ch m

theorem nick_renames_member_reachable
    {cfg : Cfg} {c : Nat} {nick : Str} {msg : Message} {x : Ctx} (hr : Reachable cfg x.w)
    (hl : Live x.w c) (ha : (x.conn c).authenticated = true) :
    ∃ old, (x.conn c).nick = some old ∧
      ((∀ ch m, Member (processNick cfg c nick msg x).w ch m ↔ Member x.w ch m) ∨
       (nick ≠ old ∧ Map.lookup nick x.w.users = none ∧
        ∀ ch m, Member (processNick cfg c nick msg x).w ch m ↔
          Spec.afterNick (Member x.w) old nick ch m)) :=
  nick_renames_member (core_reachable hr) hl ha

theorem unregistered_keeps_membership_reachable
    {cfg : Cfg} {c : Nat} {s : Str} {x : Ctx} (hr : Reachable cfg x.w) (hl : Live x.w c)
    (hu : (x.conn c).authenticated = false) (ch m : Str) :
    Member (handleLine cfg c s x).w ch m ↔ Member x.w ch m :=
  unregistered_keeps_membership (core_reachable hr) hl hu ch m

theorem views_are_read_only_reachable
    {cfg : Cfg} {c : Nat} {x : Ctx} (hr : Reachable cfg x.w) (hl : Live x.w c)
    (ha : (x.conn c).authenticated = true) (chs : List Str) (mask : Str) (t : Option Str)
    (ns : List Str) :
    (processNames cfg c chs x).w = x.w ∧ (processWho cfg c mask x).w = x.w ∧
    (processWhois cfg c t ns x).w = x.w :=
  views_are_read_only (core_reachable hr) hl ha chs mask t ns

theorem nobody_else_changes_reachable
    {cfg : Cfg} {c : Nat} {x : Ctx} (hr : Reachable cfg x.w) (hl : Live x.w c)
    (ha : (x.conn c).authenticated = true) :
    ∃ n, (x.conn c).nick = some n ∧
      (∀ channels keys ch m, m ≠ n →
        (Member (processJoin cfg c channels keys x).w ch m ↔ Member x.w ch m)) ∧
      (∀ channels reason ch m, m ≠ n →
        (Member (processPart cfg c channels reason x).w ch m ↔ Member x.w ch m)) ∧
      (∀ channel kickUsers comment ch m, m ∉ kickUsers →
        (Member (processKick cfg c channel kickUsers comment x).w ch m ↔ Member x.w ch m)) :=
  nobody_else_changes (core_reachable hr) hl ha

theorem membership_changes_only_by_reachable
    {cfg : Cfg} {c : Nat} {s : Str} {x : Ctx} (hr : Reachable cfg x.w) (hl : Live x.w c)
    (ha : (x.conn c).authenticated = true)
    (hno : ∀ msg cmd, Message.parse s = .ok msg → Command.fromMessage msg = .ok cmd →
      IP.changesMembership cmd = false)
    (ch m : Str) :
    Member (handleLine cfg c s x).w ch m ↔ Member x.w ch m :=
  membership_changes_only_by (core_reachable hr) hl ha hno ch m

theorem names_view_member_reachable
    {cfg : Cfg} {w : World} (hr : Reachable cfg w) {ch : Str} {C : Channel}
    (hC : Map.lookup ch w.channels = some C) {obs : Str} (hobs : Map.contains obs C.users = true) :
    namesView w (some obs) C = Map.keys C.users :=
  names_view_member (core_reachable hr) hC hobs

theorem names_view_outsider_reachable
    {cfg : Cfg} {w : World} (hr : Reachable cfg w) {ch : Str} {C : Channel}
    (hC : Map.lookup ch w.channels = some C) (obs : Option Str) (m : Str) :
    (m ∈ namesView w obs C → Member w ch m) ∧
    (Member w ch m → (∀ u, Map.lookup m w.users = some u → u.modes.invisible = false) →
      m ∈ namesView w obs C) :=
  names_view_outsider (core_reachable hr) hC obs m

theorem who_view_member_reachable
    {cfg : Cfg} {w : World} (hr : Reachable cfg w) {ch : Str} {C : Channel}
    (hC : Map.lookup ch w.channels = some C) {obs : Str} {obsUser : User}
    (hou : Map.lookup obs w.users = some obsUser) (hobs : Map.contains obs C.users = true) :
    whoView w obsUser C = Map.keys C.users :=
  who_view_member (core_reachable hr) hC hou hobs

theorem who_view_outsider_reachable
    {cfg : Cfg} {w : World} (hr : Reachable cfg w) {ch : Str} {C : Channel}
    (hC : Map.lookup ch w.channels = some C) (obsUser : User) (m : Str) :
    (m ∈ whoView w obsUser C → Member w ch m) ∧
    (Member w ch m → (∀ u, Map.lookup m w.users = some u → u.modes.invisible = false) →
      m ∈ whoView w obsUser C) :=
  who_view_outsider (core_reachable hr) hC obsUser m

theorem whois_lists_membership_reachable
    {cfg : Cfg} {w : World} (hr : Reachable cfg w) {n : Str} {au : User}
    (hau : Map.lookup n w.users = some au) {ch : Str} :
    ch ∈ whoisChannels w n au ↔
      (Member w ch n ∧ ∃ C, Map.lookup ch w.channels = some C ∧ C.modes.secret = false) :=
  whois_lists_membership (core_reachable hr) hau

theorem views_agree_for_members_reachable
    {cfg : Cfg} {w : World} (hr : Reachable cfg w) {ch : Str} {C : Channel}
    (hC : Map.lookup ch w.channels = some C) (hsec : C.modes.secret = false) {obs : Str}
    {obsUser : User} (hou : Map.lookup obs w.users = some obsUser)
    (hobs : Map.contains obs C.users = true) :
    namesView w (some obs) C = Map.keys C.users ∧
    whoView w obsUser C = Map.keys C.users ∧
    (∀ m, m ∈ Map.keys C.users ↔ Member w ch m) ∧
    (∀ m au, Map.lookup m w.users = some au →
      ((m ∈ Map.keys C.users → whoisVisible au obsUser = true) ∧
       (ch ∈ whoisChannels w m au ↔ m ∈ Map.keys C.users))) :=
  views_agree_for_members (core_reachable hr) hC hsec hou hobs

/-! ### trace-level forms: the headline of C04 over whole executions -/

/-- **C04 over whole executions** (`membership_symmetric`): after any well-scheduled event
    list, a user's channel set lists `ch` iff `ch`'s member map lists the user.
    (`C04.reachable_membership_symmetric` is the same statement in the original file.) -/
theorem membership_symmetric_run {cfg : Cfg} (evs : List Event) (hs : SchedAll cfg evs) {n : Str}
    {u : User} (hu : Map.lookup n (run cfg evs).users = some u) (ch : Str) :
    ch ∈ u.channels ↔ Member (run cfg evs) ch n :=
  membership_symmetric_reachable (reachable_run hs) hu ch

/-- every member of a channel is a registered user that lists the channel -/
theorem members_are_users_run {cfg : Cfg} (evs : List Event) (hs : SchedAll cfg evs) {ch n : Str}
    (hm : Member (run cfg evs) ch n) :
    ∃ u, Map.lookup n (run cfg evs).users = some u ∧ ch ∈ u.channels :=
  members_are_users_reachable (reachable_run hs) hm

/-- **C04 over whole executions** (`rank_lists_mirror_flags`): after any well-scheduled event
    list, in every channel, each of the five rank lists holds exactly the members whose
    corresponding flag is set. -/
theorem rank_lists_mirror_flags_run {cfg : Cfg} (evs : List Event) (hs : SchedAll cfg evs)
    {ch : Str} {C : Channel} (hC : Map.lookup ch (run cfg evs).channels = some C) (n : Str) :
    (n ∈ C.modes.founders ↔ ∃ m, Map.lookup n C.users = some m ∧ m.founder = true) ∧
    (n ∈ C.modes.protecteds ↔ ∃ m, Map.lookup n C.users = some m ∧ m.prot = true) ∧
    (n ∈ C.modes.operators ↔ ∃ m, Map.lookup n C.users = some m ∧ m.operator = true) ∧
    (n ∈ C.modes.halfOperators ↔ ∃ m, Map.lookup n C.users = some m ∧ m.halfOper = true) ∧
    (n ∈ C.modes.voices ↔ ∃ m, Map.lookup n C.users = some m ∧ m.voice = true) :=
  rank_lists_mirror_flags_reachable (reachable_run hs) hC n

/-- no duplicates anywhere, after any well-scheduled event list -/
theorem no_duplicates_run {cfg : Cfg} (evs : List Event) (hs : SchedAll cfg evs) :
    (∀ ch C, Map.lookup ch (run cfg evs).channels = some C → (Map.keys C.users).Nodup) ∧
    (∀ n u, Map.lookup n (run cfg evs).users = some u → u.channels.Nodup) ∧
    (Map.keys (run cfg evs).channels).Nodup ∧ (Map.keys (run cfg evs).users).Nodup :=
  no_duplicates_reachable (reachable_run hs)

/-- a channel without members exists only if it is preconfigured, after any well-scheduled
    event list -/
theorem empty_only_if_preconfigured_run {cfg : Cfg} (evs : List Event) (hs : SchedAll cfg evs)
    {ch : Str} {C : Channel} (hC : Map.lookup ch (run cfg evs).channels = some C)
    (he : ∀ n, ¬ Member (run cfg evs) ch n) : C.preconfigured = true :=
  empty_only_if_preconfigured_reachable (reachable_run hs) hC he

/-- the whole symmetric picture in one statement, for every world along every execution:
    for ALL prefixes `pre` of a well-scheduled event list the membership relation of
    `run cfg pre` is symmetric and mirrored by the rank lists -/
theorem membership_wellformed_along_run {cfg : Cfg} (evs : List Event) (hs : SchedAll cfg evs) :
    ∀ pre post, evs = pre ++ post →
      (∀ n u ch, Map.lookup n (run cfg pre).users = some u →
        (ch ∈ u.channels ↔ Member (run cfg pre) ch n)) ∧
      (∀ ch n, Member (run cfg pre) ch n → ∃ u, Map.lookup n (run cfg pre).users = some u) ∧
      (∀ ch C, Map.lookup ch (run cfg pre).channels = some C → RankMirror C) := by
  intro pre post he
  subst he
  have hr : Reachable cfg (run cfg pre) := reachable_prefix hs
  refine ⟨fun n u ch hu => membership_symmetric_reachable hr hu ch, ?_,
    (core_reachable hr).rankMirror⟩
  intro ch n hm
  obtain ⟨u, hu, _⟩ := members_are_users_reachable hr hm
  exact ⟨u, hu⟩

/-- a step-level form: the line `s` of the unregistered connection `c`, handled in the context
    `step` builds after a well-scheduled prefix, changes nobody's membership -/
theorem unregistered_keeps_membership_run {cfg : Cfg} (evs : List Event) (hs : SchedAll cfg evs)
    {c : Nat} {s : Str} (hl : Live (run cfg evs) c)
    (hu : (Ctx.conn { w := run cfg evs } c).authenticated = false) (ch m : Str) :
    Member (handleLine cfg c s { w := run cfg evs }).w ch m ↔ Member (run cfg evs) ch m :=
  unregistered_keeps_membership_reachable (x := { w := run cfg evs }) (reachable_run hs) hl hu ch m

end Irc.Reach.C04
