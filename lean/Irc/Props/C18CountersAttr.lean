/-
  Simp sets for the counter-frame proofs of C18 (`Irc/Props/C18Counters.lean`).

  `bc_read` : what a handler READS is the same in `x.bc i` (a command counter bumped) and in `x`
  `bc_push` : every context operation commutes with `·.bc i` (the bump is pushed outwards)
-/
import Lean

register_simp_attr bc_read
register_simp_attr bc_push
