/-
  C06 — "When a registered connection ends for any reason - QUIT, the client closing or resetting the
  socket at any moment, KILL, ping timeout, a fatal protocol error - the user disappears from every
  channel roster, rank list and WALLOPS audience, its nickname is immediately available again, a WHOWAS
  record of it is kept, and channels it leaves empty vanish unless preconfigured.  Nothing else
  changes: all other users keep their memberships, ranks, modes and pending invitations."

  In the model every end of a connection goes through `teardown` (`remove_user` + drop of the
  connection state): the stream-end events and QUIT set the `quit` flag and the settling phase tears
  the flagged connection down; KILL / DIE set `killedBy`, which the settling phase turns into `quit`.
  The theorems are stated for every world satisfying the global invariant.
  Helper lemmas: Irc/Props/InvPropsLemmas.lean.
-/
import Irc.Props.InvPropsLemmas

namespace Irc.C06
open Irc

/-! ### the specification: what "torn down, and nothing else changed" means -/

/-- `C'` is the channel `C` after `n` left: all settings are the same, every other member has the same
    entry (flags) and the same presence in the five rank lists -/
structure ChanKept (n : Str) (C C' : Channel) : Prop where
  topic : C'.topic = C.topic
  defaultModes : C'.defaultModes = C.defaultModes
  banInfo : C'.banInfo = C.banInfo
  preconfigured : C'.preconfigured = C.preconfigured
  /-- ban / exception / invite-exception lists, key, limit and the five flags -/
  settings : ({ C'.modes with operators := [], halfOperators := [], voices := [], founders := [],
                               protecteds := [] } : ChannelModes) =
             { C.modes with operators := [], halfOperators := [], voices := [], founders := [], protecteds := [] }
  members : ∀ m, m ≠ n → Map.lookup m C'.users = Map.lookup m C.users
  founders : ∀ m, m ≠ n → KSet.mem m C'.modes.founders = KSet.mem m C.modes.founders
  protecteds : ∀ m, m ≠ n → KSet.mem m C'.modes.protecteds = KSet.mem m C.modes.protecteds
  operators : ∀ m, m ≠ n → KSet.mem m C'.modes.operators = KSet.mem m C.modes.operators
  halfOperators : ∀ m, m ≠ n → KSet.mem m C'.modes.halfOperators = KSet.mem m C.modes.halfOperators
  voices : ∀ m, m ≠ n → KSet.mem m C'.modes.voices = KSet.mem m C.modes.voices

/-- going from `w` to `w'`, the connection `c`, registered as `n` with user record `u`, has ended:
    everything the property promises, and nothing else has changed -/
structure TornDown (w w' : World) (c : Nat) (n : Str) (u : User) : Prop where
  /-- the connection is gone; all other connections are literally unchanged -/
  connGone : ∀ y, y ∈ w'.conns ↔ (y ∈ w.conns ∧ y.id ≠ c)
  /-- its slot is free again -/
  slotFreed : w'.connsCount + 1 = w.connsCount ∧ w'.connsCount = w'.conns.length
  /-- the nickname is available again -/
  nickFree : Map.lookup n w'.users = none
  /-- not in the WALLOPS audience -/
  notWallops : KSet.mem n w'.wallops = false
  /-- on no roster and in no rank list -/
  offRosters : ∀ ch C', Map.lookup ch w'.channels = some C' →
    Map.contains n C'.users = false ∧ KSet.mem n C'.modes.founders = false ∧
    KSet.mem n C'.modes.protecteds = false ∧ KSet.mem n C'.modes.operators = false ∧
    KSet.mem n C'.modes.halfOperators = false ∧ KSet.mem n C'.modes.voices = false
  /-- a WHOWAS record is appended -/
  whowas : Map.lookup n w'.histories = some ((Map.lookup n w.histories).getD [] ++ [u.history])
  /-- a channel vanishes exactly if the user was its only member and it is not preconfigured -/
  vanish : ∀ ch C, Map.lookup ch w.channels = some C →
    (Map.lookup ch w'.channels = none ↔
      (C.preconfigured = false ∧ ∀ m, Map.contains m C.users = true ↔ m = n))
  /-- no channel appears -/
  chansKept : ∀ ch C', Map.lookup ch w'.channels = some C' →
    ∃ C, Map.lookup ch w.channels = some C ∧ ChanKept n C C'
  /-- every other user record is identical: memberships, modes, away, invitations, ... -/
  otherUsers : ∀ m, m ≠ n → Map.lookup m w'.users = Map.lookup m w.users
  otherWallops : ∀ m, m ≠ n → KSet.mem m w'.wallops = KSet.mem m w.wallops
  otherHistories : ∀ m, m ≠ n → Map.lookup m w'.histories = Map.lookup m w.histories
  maxUsers : w'.maxUsers = w.maxUsers
  srvQuit : w'.srvQuit = w.srvQuit
  /-- and the result is a consistent state again (counters exact, membership symmetric, ...) -/
  inv : InvCore w'

theorem chanKept_of {n : Str} {C C' : Channel} (h : Tear.ChanSameExcept n C C') : ChanKept n C C' := by
  obtain ⟨a1, a2, a3, a4, b1, b2, b3, b4, b5, b6, b7, b8, b9, b10, m, r1, r2, r3, r4, r5⟩ := h
  refine ⟨a1, a2, a3, a4, ?_, m, r1, r2, r3, r4, r5⟩
  simp only [ChannelModes.mk.injEq, true_and]
  exact ⟨b1, b2, b3, b4, b5, b6, b7, b8, b9, b10⟩

/-! ### `teardown` does exactly that -/

/-- the teardown of a live, registered connection -/
theorem teardown_tears_down {w : World} (h : InvCore w) {cn : Conn} (hm : cn ∈ w.conns)
    (ha : cn.authenticated = true) {n : Str} (hn : cn.nick = some n) :
    ∃ u, Map.lookup n w.users = some u ∧ u.owner = cn.id ∧ TornDown w (teardown w cn.id) cn.id n u := by
  obtain ⟨r1, r2, r3⟩ := teardown_removes_user h hm ha hn
  obtain ⟨k1, k2, _, ⟨u, hu, ho, k4⟩, k5, k6⟩ := teardown_keeps_others h hm ha hn
  obtain ⟨s1, s2, _⟩ := IP.teardown_connsCount h hm
  refine ⟨u, hu, ho, ?_⟩
  exact
    { connGone := IP.teardown_mem_conns h hm
      slotFreed := ⟨s1, s2⟩
      nickFree := r1
      notWallops := r2
      offRosters := r3
      whowas := k4
      vanish := fun ch C hC => IP.teardown_vanish_iff h hm ha hn hC
      chansKept := fun ch C' hC' => let ⟨C, hC, hs⟩ := k2 ch C' hC'; ⟨C, hC, chanKept_of hs⟩
      otherUsers := k1
      otherWallops := IP.teardown_wallops_others h hm ha hn
      otherHistories := k5
      maxUsers := k6
      srvQuit := (IP.teardown_srvQuit h hm).1
      inv := invCore_teardown h cn hm }

theorem TornDown.of_eqUpToCounts {w w' w'' : World} {c : Nat} {n : Str} {u : User}
    (t : TornDown w w' c n u) (e : IP.EqUpToCounts w'' w') : TornDown w w'' c n u := by
  obtain ⟨e1, e2, e3, e4, e5, e6, e7, e8, e9, e10, e11⟩ := e
  obtain ⟨t1, t2, t3, t4, t5, t6, t7, t8, t9, t10, t11, t12, t13, t14⟩ := t
  refine ⟨?_, ?_, ?_, ?_, ?_, ?_, ?_, ?_, ?_, ?_, ?_, ?_, ?_, ?_⟩
  · rw [e8]; exact t1
  · rw [e8, e9]; exact t2
  · rw [e1]; exact t3
  · rw [e3]; exact t4
  · rw [e2]; exact t5
  · rw [e7]; exact t6
  · rw [e2]; exact t7
  · rw [e2]; exact t8
  · rw [e1]; exact t9
  · rw [e3]; exact t10
  · rw [e7]; exact t11
  · rw [e6]; exact t12
  · rw [e10]; exact t13
  · exact Modes.invCore_of_fields t14 e11 e1 e2 e8 e4 e5 e3 e6 e9

/-! ### every way a connection ends itself -/

/-- **C06, main theorem.**  In a world satisfying the invariant, let `cn` be a live connection
    registered as `n`.  For each of the events EOF, connection reset, undecodable input, over-long
    line and the line `QUIT` (`IP.EndsItself`), the resulting world is `w` with the user torn down
    (`TornDown`), and it satisfies the invariant again. -/
theorem every_ending_tears_down {cfg : Cfg} {w : World} (h : Inv w) {cn : Conn} (hm : cn ∈ w.conns)
    (ha : cn.authenticated = true) {n : Str} (hn : cn.nick = some n) {e : Event}
    (he : IP.EndsItself cn.id e) :
    ∃ u, Map.lookup n w.users = some u ∧ u.owner = cn.id ∧ TornDown w (step cfg w e).w cn.id n u := by
  obtain ⟨u, hu, ho, t⟩ := teardown_tears_down h.toInvCore hm ha hn
  exact ⟨u, hu, ho, t.of_eqUpToCounts (IP.step_self_end h hm he)⟩

/-- the four stream-end events are literally one `teardown` -/
theorem stream_end_is_teardown {cfg : Cfg} {w : World} (h : Inv w) {cn : Conn} (hm : cn ∈ w.conns)
    {e : Event} (he : IP.IsEnd cn.id e) : (step cfg w e).w = teardown w cn.id :=
  IP.step_end_w h hm he

/-- QUIT is one `teardown` plus the STATS count of the command -/
theorem quit_is_teardown {cfg : Cfg} {w : World} (h : Inv w) {cn : Conn} (hm : cn ∈ w.conns) {s : Str}
    (hq : IP.IsQuitLine s) :
    (step cfg w (.line cn.id s)).w = bumpCount (teardown w cn.id) CmdId.QUIT.index :=
  IP.step_quit_w h hm hq

/-! ### KILL / DIE: a connection whose kill signal has fired -/

/-- the settling step of a connection whose `killedBy` is set (KILL, DIE) or whose `quit` flag is set
    is its teardown -/
theorem killed_conn_torn_down {w : World} (h : InvCore w) {cn : Conn} (hm : cn ∈ w.conns)
    (hk : cn.killedBy.isSome = true ∨ cn.quit = true)
    (ha : cn.authenticated = true) {n : Str} (hn : cn.nick = some n)
    (cfg : Cfg) (outs : List (Nat × Str)) (evs : List Str) :
    (settleConn cfg (w, outs, evs) cn.id).1 = teardown w cn.id ∧
    ∃ u, Map.lookup n w.users = some u ∧ u.owner = cn.id ∧
      TornDown w (settleConn cfg (w, outs, evs) cn.id).1 cn.id n u := by
  have hf : IP.flagged cn = true := by
    unfold IP.flagged; rcases hk with hk | hk <;> simp [hk]
  have e : (settleConn cfg (w, outs, evs) cn.id).1 = teardown w cn.id := by
    rw [Tear.settleConn_w]; exact IP.settleW_of_flagged h hm hf
  refine ⟨e, ?_⟩
  rw [e]
  exact teardown_tears_down h hm ha hn

/-- **KILL, the whole operation.**  In a world satisfying the invariant let the registered connection
    `co` belong to an IRC operator `k`, and let `n` be a registered nickname (user record `u`, owned by
    the connection `cn`; `cn = co` is allowed).  After the operation in which `co` sends a line that
    parses to `KILL n comment`, the user `n` has been torn down and nothing else has changed. -/
theorem kill_tears_down {cfg : Cfg} {w : World} (h : Inv w) {co : Conn} (hco : co ∈ w.conns)
    (hca : co.authenticated = true) {k : Str} (hck : co.nick = some k) {uk : User}
    (huk : Map.lookup k w.users = some uk) (hop : uk.modes.oper = true)
    {n : Str} {u : User} (hu : Map.lookup n w.users = some u) {s comment : Str}
    (hk : IP.IsKillLine s n comment) :
    ∃ cn, cn ∈ w.conns ∧ cn.id = u.owner ∧ TornDown w (step cfg w (.line co.id s)).w cn.id n u := by
  obtain ⟨cn, hcn, hown, hcna, hcnn⟩ := h.userOwned n u hu
  refine ⟨cn, hcn, hown, ?_⟩
  obtain ⟨hi, hm', e⟩ := IP.step_kill_w (cfg := cfg) h hco hca hck huk hop hu hcn hown hk
  rw [e]
  obtain ⟨u', hu', _, t⟩ := teardown_tears_down hi hm' (n := n) hcna hcnn
  have hu'' : u' = { u with killed := true } := by
    have : Map.lookup n (IP.killedWorld w k comment n u cn).users = some { u with killed := true } :=
      Map.lookup_insert_eq _ _ _
    rw [hu'] at this; cases this; rfl
  subst hu''
  have hmem := Reg.mem_setConn (w := ({ bumpCount w CmdId.KILL.index with
      users := Map.insert n { u with killed := true } w.users } : World))
      (cn := cn) (cn' := { cn with killedBy := some (k, comment) }) hcn rfl
  obtain ⟨t1, t2, t3, t4, t5, t6, t7, t8, t9, t10, t11, t12, t13, t14⟩ := t
  refine ⟨?_, t2, t3, t4, t5, t6, t7, t8, ?_, t10, t11, t12, t13, t14⟩
  · intro y
    rw [t1 y]
    constructor
    · rintro ⟨hy, hne⟩
      rcases (hmem y).mp hy with rfl | ⟨hy', _⟩
      · exact absurd rfl hne
      · exact ⟨hy', hne⟩
    · rintro ⟨hy, hne⟩
      exact ⟨(hmem y).mpr (Or.inr ⟨hy, hne⟩), hne⟩
  · intro m hne
    rw [t9 m hne]
    exact Map.lookup_insert_ne _ _ _ _ (fun e => hne e.symm)

/-! ### several connections ending in the same operation -/

/-- The settling phase with any number of flagged connections (e.g. after DIE, or a KILL of the
    sender itself together with a pending kill of somebody else):
    * exactly the flagged connections disappear, all others are literally unchanged;
    * the nick of every flagged registered connection is free afterwards (and hence on no roster and
      in no rank list, by the invariant of the result);
    * every user whose connection is not flagged keeps its record unchanged;
    * the result satisfies the full invariant. -/
theorem several_at_once {w : World} (h : InvCore w) (cfg : Cfg) (outs : List (Nat × Str)) (evs : List Str) :
    Inv (settle cfg w outs evs).1 ∧
    (∀ y, y ∈ (settle cfg w outs evs).1.conns ↔ (y ∈ w.conns ∧ y.quit = false ∧ y.killedBy = none)) ∧
    (∀ cn n, cn ∈ w.conns → (cn.quit = true ∨ cn.killedBy.isSome = true) → cn.authenticated = true →
      cn.nick = some n →
      Map.lookup n (settle cfg w outs evs).1.users = none ∧
      KSet.mem n (settle cfg w outs evs).1.wallops = false ∧
      ∀ ch C', Map.lookup ch (settle cfg w outs evs).1.channels = some C' → Map.contains n C'.users = false) ∧
    (∀ m u, Map.lookup m w.users = some u →
      (∀ y, y ∈ w.conns → y.id = u.owner → y.quit = false ∧ y.killedBy = none) →
      Map.lookup m (settle cfg w outs evs).1.users = some u) := by
  obtain ⟨hi, hc⟩ := inv_settle h cfg outs evs
  refine ⟨hi, hc, ?_, ?_⟩
  · intro cn n hm hf ha hn
    have hf' : IP.flagged cn = true := by
      unfold IP.flagged; rcases hf with hf | hf <;> simp [hf]
    have hnone := IP.settle_flagged_gone h cfg outs evs hm hf' ha hn
    refine ⟨hnone, ?_, ?_⟩
    · cases hw : KSet.mem n (settle cfg w outs evs).1.wallops with
      | false => rfl
      | true =>
        obtain ⟨u', hu', _⟩ := (hi.wallopsSet n).mp hw
        rw [hnone] at hu'; cases hu'
    · intro ch C' hC'
      cases hcc : Map.contains n C'.users with
      | false => rfl
      | true =>
        have := hi.memberIsUser ch C' n hC' hcc
        rw [Map.contains_iff] at this
        obtain ⟨v, hv⟩ := this
        rw [hnone] at hv; cases hv
  · intro m u hu hf
    exact IP.settle_lookup_unflagged h cfg outs evs hu (fun y hy ho => IP.flagged_false.mpr (hf y hy ho))

/-- every connection that ends frees exactly its slot: after the settling phase the slot counter is
    the number of remaining connections, and it went down by the number of flagged connections -/
theorem slot_freed {w : World} (h : InvCore w) (cfg : Cfg) (outs : List (Nat × Str)) (evs : List Str) :
    (settle cfg w outs evs).1.connsCount = (settle cfg w outs evs).1.conns.length ∧
    (settle cfg w outs evs).1.connsCount + (w.conns.filter (fun y => y.quit || y.killedBy.isSome)).length
      = w.connsCount :=
  let ⟨a, _, c⟩ := IP.settle_slots h cfg outs evs
  ⟨a, c⟩

/-- a single teardown frees one slot -/
theorem slot_freed_one {w : World} (h : InvCore w) {cn : Conn} (hm : cn ∈ w.conns) :
    (teardown w cn.id).connsCount + 1 = w.connsCount ∧
    (teardown w cn.id).connsCount = (teardown w cn.id).conns.length :=
  let ⟨a, b, _⟩ := IP.teardown_connsCount h hm
  ⟨a, b⟩

/-! ### non-vacuity -/

section Examples
open Tear

/-- user `a` (invisible, +w, operator of `#a` and of the preconfigured `#p`), user `b` (member of `#p`),
    connection 3 unregistered -/
def exA : User :=
  { hostname := str "h", name := str "a", realname := str "r", source := str "a!~a@h",
    modes := { invisible := true, wallops := true }, channels := [str "#a", str "#p"],
    history := ⟨str "a", str "h", str "r"⟩, owner := 1 }
def exB : User :=
  { hostname := str "g", name := str "b", realname := str "s", source := str "b!~b@g",
    modes := {}, channels := [str "#p"], invitedTo := [str "#x"], away := some (str "gone"),
    history := ⟨str "b", str "g", str "s"⟩, owner := 2 }
def exC (id : Nat) (n : String) : Conn :=
  { id := id, hostname := str "h", nick := some (str n), name := some (str n), source := str n,
    authenticated := true, hasSender := false, hasQuitSender := false, hasPingSender := false }
def exW : World :=
  { users := [(str "a", exA), (str "b", exB)]
    channels := [(str "#a", { users := [(str "a", { operator := true })], modes := { operators := [str "a"] } }),
                 (str "#p", { users := [(str "a", { operator := true }), (str "b", { voice := true })],
                              modes := { operators := [str "a"], voices := [str "b"], secret := true },
                              preconfigured := true })]
    wallops := [str "a"], invisibleCount := 1, maxUsers := 2
    conns := [exC 1 "a", exC 2 "b", Conn.new 3 (str "i")], connsCount := 3 }

-- the executable check of the invariant accepts the example world (the hypotheses are satisfiable)
example : invCoreCheck exW = [] := by decide

-- EOF of connection 1: `a` is gone everywhere, `#a` vanished, `#p` (preconfigured) stays with `b`
-- keeping its voice; `b`'s record (membership, away, invitation) is untouched; WHOWAS record kept
example :
    let w' := (step {} exW (.eof 1)).w
    w'.conns.map (·.id) = [2, 3] ∧ w'.connsCount = 2 ∧
    Map.lookup (str "a") w'.users = none ∧ w'.wallops = [] ∧ w'.invisibleCount = 0 ∧
    Map.lookup (str "#a") w'.channels = none ∧
    (Map.lookup (str "#p") w'.channels).map (fun C => (C.users, C.modes.operators, C.modes.voices, C.modes.secret)) =
      some ([(str "b", { voice := true })], [], [str "b"], true) ∧
    Map.lookup (str "b") w'.users = some exB ∧
    Map.lookup (str "a") w'.histories = some [exA.history] := by decide

-- the same for QUIT, reset, bad UTF-8, over-long line
example : (step {} exW (.line 1 (str "QUIT :bye"))).w.users = [(str "b", exB)] ∧
    (step {} exW (.reset 1)).w.users = [(str "b", exB)] ∧
    (step {} exW (.badUtf8 1)).w.users = [(str "b", exB)] ∧
    (step {} exW (.tooLong 1)).w.users = [(str "b", exB)] := by decide

-- both users flagged at once (pending kill of `a`, `b` quitting): both are removed, the unregistered
-- connection 3 stays
example :
    let w1 := (exW.setConn { exC 1 "a" with killedBy := some (str "b", str "x") }).setConn
      { exC 2 "b" with quit := true }
    (settle {} w1 [] []).1.users = [] ∧ (settle {} w1 [] []).1.conns.map (·.id) = [3] ∧
    (settle {} w1 [] []).1.connsCount = 1 ∧
    (Map.lookup (str "#p") (settle {} w1 [] []).1.channels).map (·.users) = some [] := by decide

-- KILL: the operator `a` (made operator by OPER first) kills `b`
example : IP.IsKillLine (str "KILL b :bye") (str "b") (str "bye") :=
  ⟨⟨none, str "KILL", [str "b", str "bye"]⟩, by decide, by decide⟩
example :
    let cfg : Cfg := { operators := [{ name := str "root", password := str "pw", mask := none }] }
    let w1 := (step cfg exW (.line 1 (str "OPER root pw"))).w
    let w2 := (step cfg w1 (.line 1 (str "KILL b :bye"))).w
    (Map.lookup (str "a") w1.users).map (·.modes.oper) = some true ∧
    Map.keys w2.users = [str "a"] ∧ w2.conns.map (·.id) = [1, 3] ∧
    (Map.lookup (str "#p") w2.channels).map (fun C => Map.keys C.users) = some [str "a"] ∧
    Map.lookup (str "b") w2.histories = some [exB.history] := by decide

-- the theorems applied to a world known to satisfy `Inv`
example : ∃ u, Map.lookup (str "a") exWorld.users = some u ∧ u.owner = exConn1.id ∧
    TornDown exWorld (step {} exWorld (.eof 1)).w exConn1.id (str "a") u :=
  every_ending_tears_down exWorld_inv (cn := exConn1) (by decide) rfl rfl (Or.inl .eof)

end Examples

/-! ### reachable worlds -/
section Reachable

theorem reachable_every_ending_tears_down {cfg : Cfg} {evs : List Event} (hs : SchedAll cfg evs)
    {cn : Conn} (hm : cn ∈ (run cfg evs).conns) (ha : cn.authenticated = true) {n : Str}
    (hn : cn.nick = some n) {e : Event} (he : IP.EndsItself cn.id e) :
    ∃ u, Map.lookup n (run cfg evs).users = some u ∧ u.owner = cn.id ∧
      TornDown (run cfg evs) (run cfg (evs ++ [e])) cn.id n u := by
  have := every_ending_tears_down (cfg := cfg) (inv_run hs) hm ha hn he
  unfold run at this ⊢
  rw [List.foldl_append]
  exact this

end Reachable

end Irc.C06
