/-
  C18, first sentence — the ORDER half:
  "Replies to one connection's commands arrive in the order the commands were sent, and messages
   from one sender to one receiver arrive in the order they were sent."

  Model: `Irc/Deliver.lean` (`DState`, `DEvent`, `dstep`, `drun`; `drain = true` is the server
  after the repair `65df214`, `drain = false` the server before it).  Every theorem holds for
  EVERY configuration, every initial world, every event list, any number of connections; the
  handler `handleLine` is never inspected.  The specification side are the logs of
  `Irc/Deliver.lean` (`directLog`, `pushLog`, `ownLog`, `producedLog`): what the commands
  produce, command by command, computed from the world and the command counters only.

  Contents
   1. `result_order` (+ `result_order_exact`)      drain = true
   2. `sender_receiver_fifo` (+ `_self`, `_sorted`) both servers;  the literal statement
      `sender_receiver_fifo_full` is FALSE for `s = d` (`sender_receiver_fifo_full_false`):
      the lines of issuer `d` on `d`'s own socket are direct replies AND echoes, and the old
      server reorders them — what is true for `s = d` is `sender_receiver_fifo_self`.
   3. `nothing_lost` (+ `nothing_lost_count`, `queue_empty_after_cmd`, `queue_empty_after_recv`)
   4. `old_server_reorders`, `repaired_server_in_order` (`decide`d runs)
-/
import Irc.Props.C18OrderLemmas2

namespace Irc.C18Order

open Irc Irc.Conc

/-- the initial delivery state: nothing on any socket, nothing in any queue (the world and the
    command counters are arbitrary) -/
structure Fresh (s0 : DState) : Prop where
  sock : ∀ d, s0.sock d = []
  queue : ∀ d, s0.queue d = []

theorem fresh_init (w : World) : Fresh (DState.init w) := ⟨fun _ => rfl, fun _ => rfl⟩

/-! ## the demo worlds -/

namespace Demo

def ip : Str := str "10.0.0.1"
def cfg : Cfg := {}

/-- one registered connection (nick `a`) that is on the channel `#c` -/
def w1 : World := run cfg [.connect 1 ip, .line 1 (str "NICK a"), .line 1 (str "USER u 0 * :U"),
  .line 1 (str "JOIN #c")]
def s1 : DState := DState.init w1

/-- TOPIC (echo through the own queue), then PING (direct PONG), then the task takes one line
    from its queue -/
def evs1 : List DEvent := [.cmd 1 (str "TOPIC #c :t1"), .cmd 1 (str "PING x1"), .recv 1]

def pong : Str := str ":irc.irc PONG irc.irc :x1"
def topicEcho : Str := str ":a!~u@10.0.0.1 TOPIC #c t1"

/-- two registered connections `a` (1) and `b` (2) -/
def w2 : World := run cfg [.connect 1 ip, .line 1 (str "NICK a"), .line 1 (str "USER u 0 * :U"),
  .connect 2 ip, .line 2 (str "NICK b"), .line 2 (str "USER v 0 * :V")]
def s2 : DState := DState.init w2

/-- `a` sends two messages to `b` and one to itself; `b`'s task takes one line -/
def evs2 : List DEvent := [.cmd 1 (str "PRIVMSG b :m1"), .cmd 1 (str "PRIVMSG b,a :m2"), .recv 2]

def m1 : Str := str ":a!~u@10.0.0.1 PRIVMSG b :m1"
def m2b : Str := str ":a!~u@10.0.0.1 PRIVMSG b :m2"
def m2a : Str := str ":a!~u@10.0.0.1 PRIVMSG a :m2"

end Demo

/-! ## 1. results of one connection's commands arrive in command order (repaired server) -/

/-- **`result_order`, full strength**: on the socket of `c`, the lines caused by `c`'s own
    commands (direct replies and echoes alike) appear in command order. -/
def result_order_full : Prop :=
  ∀ (cfg : Cfg) (s0 : DState) (evs : List DEvent) (c : Nat), Fresh s0 →
    ((((drun cfg true s0 evs).sock c).filter (·.1 = c)).map (·.2.1)).Pairwise (· ≤ ·)

/-- the exact form: with the drain, at every event boundary the own results on the socket of `c`
    are EXACTLY the log of `c`'s commands — per command its direct replies, then its echoes —
    and none of them is waiting in the queue. -/
theorem result_order_exact (cfg : Cfg) (s0 : DState) (evs : List DEvent) (c : Nat)
    (h0 : Fresh s0) :
    ((drun cfg true s0 evs).sock c).filter (·.1 = c) = ownLog cfg c s0.w s0.count evs ∧
    ((drun cfg true s0 evs).queue c).filter (·.1 = c) = [] := by
  have hn : NoOwn c s0 := by simp [NoOwn, h0.queue]
  obtain ⟨h1, h2⟩ := sel_all_self cfg c evs s0 hn
  unfold NoOwn at h2
  refine ⟨?_, h2⟩
  have : sel c ((drun cfg true s0 evs).sock c) = ownLog cfg c s0.w s0.count evs := by
    simpa [DState.all, h0.sock, h0.queue, h2] using h1
  exact this

theorem ownLog_tag (d c k : Nat) (x : Ctx) :
    ∀ e ∈ (if c = d then tagDirect c k x ++ tagPushes c k x d else []), e.1 = c ∧ e.2.1 = k := by
  intro e he
  split at he
  · rcases List.mem_append.1 he with h | h
    · exact mem_tagDirect h
    · exact mem_tagPushes h
  · cases he

theorem result_order : result_order_full := by
  intro cfg s0 evs c h0
  have hs := (dlog_sorted cfg _ (ownLog_tag c) c evs s0.w s0.count).2
  have he := (result_order_exact cfg s0 evs c h0).1
  change sel c ((drun cfg true s0 evs).sock c) = ownLog cfg c s0.w s0.count evs at he
  change (idxs (sel c ((drun cfg true s0 evs).sock c))).Pairwise (· ≤ ·)
  have h2 : sel c (ownLog cfg c s0.w s0.count evs) = ownLog cfg c s0.w s0.count evs := by
    rw [← he, sel_sel]
  unfold ownLog at h2 he
  rw [h2] at hs
  rw [he]; exact hs

-- not vacuous: the run of the demo has both a direct reply and an echo on the socket
open Demo in
example : ownLog cfg 1 s1.w s1.count evs1 = [(1, 0, topicEcho), (1, 1, pong)] := by decide

/-! ## 2. messages from one sender to one receiver arrive in the order they were sent -/

/-- the literal statement of the task: for ALL `s d`, both servers.  It is **false** for `s = d`
    (see `sender_receiver_fifo_full_false`). -/
def sender_receiver_fifo_full : Prop :=
  ∀ (cfg : Cfg) (drain : Bool) (s0 : DState) (evs : List DEvent) (s d : Nat), Fresh s0 →
    ((((drun cfg drain s0 evs).sock d).filter (·.1 = s)).map (·.2.1)).Pairwise (· ≤ ·) ∧
    ((drun cfg drain s0 evs).sock d ++ (drun cfg drain s0 evs).queue d).filter (·.1 = s) =
      pushLog cfg s d s0.w s0.count evs

theorem pushLog_tag (s d c k : Nat) (x : Ctx) :
    ∀ e ∈ (if c = s then tagPushes c k x d else []), e.1 = c ∧ e.2.1 = k := by
  intro e he
  split at he
  · exact mem_tagPushes he
  · cases he

/-- **`sender_receiver_fifo`** (both servers, `s ≠ d`): the lines of sender `s` on the socket of
    `d` followed by those still in `d`'s queue are EXACTLY the pushes of `s` to `d` in push order
    (nothing lost, nothing duplicated, nothing reordered); in particular the command indices of
    the lines from `s` on `d`'s socket are sorted. -/
theorem sender_receiver_fifo (cfg : Cfg) (drain : Bool) (s0 : DState) (evs : List DEvent)
    (s d : Nat) (h0 : Fresh s0) (hsd : s ≠ d) :
    ((((drun cfg drain s0 evs).sock d).filter (·.1 = s)).map (·.2.1)).Pairwise (· ≤ ·) ∧
    ((drun cfg drain s0 evs).sock d ++ (drun cfg drain s0 evs).queue d).filter (·.1 = s) =
      pushLog cfg s d s0.w s0.count evs := by
  have he : sel s ((drun cfg drain s0 evs).all d) = pushLog cfg s d s0.w s0.count evs := by
    simpa [DState.all, h0.sock, h0.queue] using sel_all_ne cfg drain hsd evs s0
  refine ⟨?_, he⟩
  have hs := (dlog_sorted cfg _ (pushLog_tag s d) s evs s0.w s0.count).2
  have h2 : sel s (pushLog cfg s d s0.w s0.count evs) = pushLog cfg s d s0.w s0.count evs := by
    rw [← he, sel_sel]
  unfold pushLog at h2 he
  rw [h2, ← he, DState.all, sel_append, idxs_append, List.pairwise_append] at hs
  exact hs.1

/-- **`sender_receiver_fifo_self`** (both servers, `s = d`): the lines of issuer `d` on `d`'s own
    socket are a merge of the two FIFO streams "direct replies of `d`" (all of them) and "what `d`
    pushed to itself" (the part `P1` already taken from the queue; the rest is still in the queue,
    in push order).  Neither stream is reordered, nothing is lost or duplicated; the old server
    does not fix the relative order of the two streams (`old_server_reorders`). -/
theorem sender_receiver_fifo_self (cfg : Cfg) (drain : Bool) (s0 : DState) (evs : List DEvent)
    (d : Nat) (h0 : Fresh s0) :
    ∃ P1, Interleave (directLog cfg d s0.w s0.count evs) P1
        (((drun cfg drain s0 evs).sock d).filter (·.1 = d)) ∧
      P1 ++ ((drun cfg drain s0 evs).queue d).filter (·.1 = d) =
        pushLog cfg d d s0.w s0.count evs := by
  have hm : Merged d s0 [] [] := ⟨[], by simp [h0.sock, Interleave.nil], by simp [h0.queue]⟩
  have := merged_drun cfg drain d evs s0 [] [] hm
  simp only [List.nil_append] at this
  exact this

/-- in particular `sock d ++ queue d` restricted to issuer `d` is an interleaving of the direct
    replies and the self-pushes, each in its own order -/
theorem sender_receiver_fifo_self_all (cfg : Cfg) (drain : Bool) (s0 : DState)
    (evs : List DEvent) (d : Nat) (h0 : Fresh s0) :
    Interleave (directLog cfg d s0.w s0.count evs) (pushLog cfg d d s0.w s0.count evs)
      (((drun cfg drain s0 evs).sock d ++ (drun cfg drain s0 evs).queue d).filter (·.1 = d)) := by
  have hm : Merged d s0 [] [] := ⟨[], by simp [h0.sock, Interleave.nil], by simp [h0.queue]⟩
  have := merged_all (merged_drun cfg drain d evs s0 [] [] hm)
  simp only [List.nil_append] at this
  exact this

/-- the sortedness half for every pair the statement is true for: the repaired server for all
    `s d`, the old server for `s ≠ d` -/
theorem sender_receiver_fifo_sorted (cfg : Cfg) (drain : Bool) (s0 : DState) (evs : List DEvent)
    (s d : Nat) (h0 : Fresh s0) (h : drain = true ∨ s ≠ d) :
    ((((drun cfg drain s0 evs).sock d).filter (·.1 = s)).map (·.2.1)).Pairwise (· ≤ ·) := by
  by_cases hsd : s = d
  · subst hsd
    rcases h with h | h
    · subst h; exact result_order cfg s0 evs s h0
    · exact absurd rfl h
  · exact (sender_receiver_fifo cfg drain s0 evs s d h0 hsd).1

-- not vacuous: with the old server `b` has received the first message, the second is queued;
-- the message `a` sent to itself waits in `a`'s queue
open Demo in
example : (drun cfg false s2 evs2).sock 2 = [(1, 0, m1)] ∧
    (drun cfg false s2 evs2).queue 2 = [(1, 1, m2b)] ∧
    pushLog cfg 1 2 s2.w s2.count evs2 = [(1, 0, m1), (1, 1, m2b)] ∧
    (drun cfg false s2 evs2).queue 1 = [(1, 1, m2a)] ∧
    (drun cfg true s2 evs2).sock 2 = [(1, 0, m1), (1, 1, m2b)] ∧
    (drun cfg true s2 evs2).sock 1 = [(1, 1, m2a)] := by decide

/-! ## 3. nothing is lost, nothing is duplicated -/

/-- **`nothing_lost`, full strength**: every line a command produced for `d` (a direct reply of
    `d`'s own command, or a push of anybody) is in `sock d ++ queue d` exactly once:
    `sock d ++ queue d` is a permutation of the production log. -/
def nothing_lost_full : Prop :=
  ∀ (cfg : Cfg) (drain : Bool) (s0 : DState) (evs : List DEvent) (d : Nat), Fresh s0 →
    ((drun cfg drain s0 evs).sock d ++ (drun cfg drain s0 evs).queue d).Perm
      (producedLog cfg d s0.w s0.count evs)

theorem nothing_lost : nothing_lost_full := by
  intro cfg drain s0 evs d h0
  simpa [DState.all, h0.sock, h0.queue] using all_perm cfg drain d evs s0

/-- "exactly once", spelled out: every tagged line occurs in `sock d ++ queue d` as often as the
    commands produced it -/
theorem nothing_lost_count (cfg : Cfg) (drain : Bool) (s0 : DState) (evs : List DEvent) (d : Nat)
    (h0 : Fresh s0) (e : Nat × Nat × Str) :
    ((drun cfg drain s0 evs).sock d ++ (drun cfg drain s0 evs).queue d).count e =
      (producedLog cfg d s0.w s0.count evs).count e :=
  (nothing_lost cfg drain s0 evs d h0).count_eq e

/-- with the drain, after a `cmd c` event the queue of `c` is empty (any state before) -/
theorem queue_empty_after_cmd (cfg : Cfg) (s0 : DState) (evs : List DEvent) (c : Nat)
    (line : Str) : (drun cfg true s0 (evs ++ [.cmd c line])).queue c = [] := by
  rw [drun_append]; exact queue_dstep_cmd_self cfg _ c line

/-- … and so it is after a `recv c` event -/
theorem queue_empty_after_recv (cfg : Cfg) (s0 : DState) (evs : List DEvent) (c : Nat) :
    (drun cfg true s0 (evs ++ [.recv c])).queue c = [] := by
  rw [drun_append]; exact queue_dstep_recv_self cfg _ c

open Demo in
example : producedLog cfg 2 s2.w s2.count evs2 = [(1, 0, m1), (1, 1, m2b)] ∧
    producedLog cfg 1 s2.w s2.count evs2 = [(1, 1, m2a)] ∧
    producedLog cfg 1 s1.w s1.count evs1 = [(1, 0, topicEcho), (1, 1, pong)] := by decide

/-! ## 4. the repair is needed -/

/-- **`old_server_reorders`**: one registered connection on `#c` sends `TOPIC #c :t1`, then
    `PING x1`, then its task takes one line from its queue.  On the OLD server the PONG of the
    second command (tag `(1,1)`) is on the socket BEFORE the TOPIC echo of the first (tag `(1,0)`). -/
theorem old_server_reorders :
    (drun Demo.cfg false Demo.s1 Demo.evs1).sock 1 = [(1, 1, Demo.pong), (1, 0, Demo.topicEcho)] := by
  decide

/-- the same events on the repaired server: command order (and already after the two commands,
    without the `recv` event) -/
theorem repaired_server_in_order :
    (drun Demo.cfg true Demo.s1 Demo.evs1).sock 1 = [(1, 0, Demo.topicEcho), (1, 1, Demo.pong)] ∧
    (drun Demo.cfg true Demo.s1 (Demo.evs1.take 2)).sock 1 =
      [(1, 0, Demo.topicEcho), (1, 1, Demo.pong)] := by
  decide

/-- so `result_order` fails for `drain = false` … -/
theorem result_order_needs_drain :
    ¬ ∀ (cfg : Cfg) (s0 : DState) (evs : List DEvent) (c : Nat), Fresh s0 →
      ((((drun cfg false s0 evs).sock c).filter (·.1 = c)).map (·.2.1)).Pairwise (· ≤ ·) := by
  intro h
  have := h Demo.cfg Demo.s1 Demo.evs1 1 (fresh_init _)
  rw [old_server_reorders] at this
  revert this; decide

/-- … and the literal `sender_receiver_fifo_full` (all `s d`, both servers) is false: take
    `s = d = 1` on the old server. -/
theorem sender_receiver_fifo_full_false : ¬ sender_receiver_fifo_full := by
  intro h
  have := (h Demo.cfg false Demo.s1 Demo.evs1 1 1 (fresh_init _)).1
  rw [old_server_reorders] at this
  revert this; decide

/-! ## 5. side facts -/

/-- every line on a socket or in a queue is caused by a command that was already issued: its
    command index is below the issuer's counter (and a `cmd c` event uses the index `count c`) -/
theorem tags_below_count (cfg : Cfg) (drain : Bool) (s0 : DState) (evs : List DEvent) (d : Nat)
    (h0 : Fresh s0) :
    ∀ e ∈ (drun cfg drain s0 evs).sock d ++ (drun cfg drain s0 evs).queue d,
      e.2.1 < (drun cfg drain s0 evs).count e.1 :=
  below_drun cfg drain evs s0 (fun d e he => by simp [DState.all, h0.sock, h0.queue] at he) d

/-- the world and the command counters are those of the same events on the other server: the
    drain changes only WHEN a line reaches the socket -/
theorem world_independent_of_drain (cfg : Cfg) (s0 : DState) (evs : List DEvent) :
    (drun cfg true s0 evs).w = (drun cfg false s0 evs).w ∧
      (drun cfg true s0 evs).count = (drun cfg false s0 evs).count :=
  drun_w_count cfg true false evs s0 s0 rfl rfl

end Irc.C18Order
