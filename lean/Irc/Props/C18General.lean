/-
  Property C18, the GENERAL serialisability theorem: ANY number of connections, each with ANY
  program (list of command lines), ANY schedule of their lock sections.

  Semantics (`Irc/Props/C18GeneralLemmas0.lean`): `Sys` = the `CState` of `Irc/Conc.lean` + per
  connection the rest of its program (`todo`), the sections of its command in progress still to run
  (`pend`) and the line of that command (`cur`).  `move cfg split c` = connection `c` is granted its
  next section: if nothing is pending it takes the next line of its program and computes the section
  list `split auth c line` from its OWN `authenticated` flag at this moment; then it executes the
  first pending section (`Conc.stepSection`).  A schedule is a `List Nat` (who moves next);
  `runSched` folds `move` and is `none` if a picked connection has nothing to do.  So the runs of
  `runSched` are exactly the interleavings of the connections' section sequences that respect every
  connection's program order, with the dynamic choice of the section lists.

  How the known obstacles are dealt with
  1. THE CORNER (nick free at A1, decision "good", nick taken at A3) is not serialisable
     (`corner_not_serialisable` in C18.lean).  Hypothesis `noCorner cfg split sched S₀ = true`: at
     every executed `.authCommit c` that belongs to a split `NICK` and finds `pc c = .toCommit r`,
     the nick recorded in `c`'s connection record is free in the state the section runs in
     (`cornerFree`, a `Bool`, checked along the run).  For PASS / USER / CAP END a taken nick at A3 is
     not a corner and is NOT excluded.
  2. THE COMMAND COUNTERS: BOTH ways out are proved, from one parametric proof (`split` = the
     section-list function; only its shape `SplitShape` is used).
     (a) `general_serialisable`: the section lists WITHOUT the `.count` sections (`splitCore`); the
         sequential reference is the back-to-back run of the cores (`seqRun cfg splitCore`);
         `seqStep_core_vs_whole` relates the core to the whole command (`whole = core` for
         one-section commands, `whole = count ; core` for the split ones: `split_is_sequential`).
         No hypothesis on the program lines.
     (b) `general_serialisable_whole`: the FULL section lists of `splitCommand` (counter sections
         included, executed when the command starts) against the sequential model proper,
         `handleLine` folded over `cmds` (`seqWhole`).  Hypothesis on the program lines:
         `BumpCommLine cfg c line` — the handler of the line commutes with
         `command_counts[i].fetch_add(1)`; false for `STATS m`, true for every other command; proved
         here for the lines of the registration path and some more (`bumpCommLine_registration`:
         NICK, PASS, USER, CAP, PING, PONG, QUIT, AUTHENTICATE, unparsable lines), an explicit
         hypothesis for the other handlers.  The sections of the registration path themselves
         commute with the bumps (`bumpComm_reg`, proved).
  3. KILL / DIE / SQUIT are ALLOWED in the programs.  They are independent of a connection only
     where it owns no user; the proof carries "the sequential state satisfies `InvCore`" (the
     invariant of `Irc/Inv.lean`, preserved by every `handleLine`: `invCore_handleLine`) through the
     run, from which "a connection in the middle of a split command is unauthenticated in the
     sequential state, hence owns no user" follows.  Hypothesis: `InvCore` of the INITIAL world
     (it holds in every reachable world: `inv_reachable`).
  4. `.teardown` sections are not part of programs.

  Proof (files `Irc/Props/C18GeneralLemmas0 … 8.lean`): refinement.  Invariant `SimW`: there is a
  base state `ρ` such that the interleaved state is `ρ` + the LOCAL updates (own record, own reply
  buffer, own program counter; and the pending counter bump) of the connections that are between
  their counter section / A1 / prelude and A3, and the sequential run of the commands serialised so
  far is `ρ` + the local updates of the connections that are "behind" (NICK, nick free at A1,
  decision not "good": serialised at A1, its local A2 still to run).  Serialisation points:
  one-section command / PRIVMSG / NOTICE = its (first) section; unregistered PASS / USER / CAP END =
  its `authCommit`; unregistered NICK = A1 if the nick is taken at A1 or the decision is not
  "good", A3 otherwise.
-/
import Irc.Props.C18GeneralLemmas8

namespace Irc.C18

open Irc Irc.Conc Irc.C18G

/-! ## the warm-up: one-section commands -/

/-- **any number of connections, one-section commands only.**  Every schedule of the lock sections
    of programs that consist of one-section commands (everything but `NICK` / `PASS` / `USER` /
    `CAP END`) is the sequential execution (`handleLine`, one command at a time) of an
    order-respecting merge `cmds` of the programs: same `CState` (world, counters, every reply
    buffer, the global push sequence).  No hypothesis on the initial state. -/
theorem general_serialisable_atomic (cfg : Cfg) (S₀ S : Sys) (sched : List Nat)
    (hpend : ∀ c, S₀.pend c = []) (hone : ∀ c, ∀ l ∈ S₀.todo c, OneSection c l)
    (hrun : runSched cfg splitCore sched S₀ = some S) :
    ∃ cmds : List (Nat × Str), (∀ c, S₀.todo c = linesOf c cmds ++ S.todo c) ∧
      S.σ = seqWhole cfg cmds S₀.σ := by
  have h0 : AtomicSim cfg S₀.σ S₀.todo S₀ [] :=
    ⟨rfl, fun c => rfl, fun c s hs => by rw [hpend c] at hs; exact absurd hs List.not_mem_nil, hone⟩
  obtain ⟨cmds, h⟩ := runSched_sim' (AtomicSim cfg S₀.σ S₀.todo)
    (fun S done c S' hR hm => atomicSim_step hR hm) sched S₀ [] S h0 hrun
  exact ⟨cmds, h.progs, h.state⟩

/-! ## the general theorem -/

/-- the parametric form: any section-list function of the shape of `splitCommand` / `splitCore`;
    the program lines commute with the counter bumps, or there are no counter sections -/
theorem general_serialisable_split (cfg : Cfg) (split : Bool → Nat → Str → List Section)
    (hsh : SplitShape split) (cs : List Nat) (S₀ S : Sys) (sched : List Nat)
    (hnd : cs.Nodup) (hcs : ∀ c, c ∉ cs → S₀.todo c = [])
    (hlive : ∀ c ∈ cs, (S₀.σ.w.conn? c).isSome = true) (hinv : InvCore S₀.σ.w)
    (hpc : ∀ c, S₀.σ.pc c = .idle) (hpend : ∀ c, S₀.pend c = [])
    (hbc : ∀ c, ∀ l ∈ S₀.todo c, NoCount split ∨ BumpCommLine cfg c l)
    (hrun : runSched cfg split sched S₀ = some S)
    (hnc : noCorner cfg split sched S₀ = true)
    (hdone : ∀ c ∈ cs, S.pend c = []) :
    ∃ cmds : List (Nat × Str), (∀ c, S₀.todo c = linesOf c cmds ++ S.todo c) ∧
      S.σ = seqRun cfg split cmds S₀.σ := by
  have hlive' : ∀ c ∈ cs, Live S₀.σ.w c := by
    intro c hc
    obtain ⟨cn, hcn⟩ := Option.isSome_iff_exists.mp (hlive c hc)
    obtain ⟨hm, hid⟩ := Tear.conn?_some hcn
    exact ⟨cn, hm, hid⟩
  have h0 := simW_init (cfg := cfg) (split := split) hnd hcs hlive' hinv hpc hpend hbc
  obtain ⟨cmds, ρ, st, h⟩ := runSched_sim
    (R := fun S done => ∃ ρ st, SimW cfg split cs S₀.σ S₀.todo S done ρ st)
    (fun S done c S' hR hcf hm => by
      obtain ⟨ρ, st, h⟩ := hR
      exact sim_step hsh h hcf hm)
    sched S₀ [] S ⟨_, _, h0⟩ hnc hrun
  exact ⟨cmds, simW_final h hdone⟩

/-- **`general_serialisable`** (counters: way out (a)).  `cs` lists the connections that take part
    (all others have an empty program).  Initially: every participant is live, the world satisfies
    `InvCore` (true in every reachable world), every task is between two commands (`pc = idle`,
    nothing pending).  For EVERY schedule `sched` that can be run (`runSched … = some S`), that never
    hits the corner (`noCorner`) and after which no command is in progress (`S.pend c = []` for all
    `c ∈ cs`), there is a list `cmds` of whole commands such that
    (1) for every connection `c` the lines of `c` in `cmds`, in order, followed by what is left of
        `c`'s program, are `c`'s program — `cmds` is an order-respecting merge of the executed
        parts of the programs (of the whole programs if `S.todo c = []`), and
    (2) executing `cmds` ONE AT A TIME from the initial state gives EXACTLY the final `CState` of
        the interleaved run: the same world (shared state and every connection record), the same
        program counters, the same direct-reply stream `dir d` of every connection and the same
        global push sequence `sent` (hence the same queue `queueOf d` of every receiver).
    "One at a time" is `seqRun cfg splitCore` = the sections of each command back to back, without
    the counter section; see `seqStep_core_vs_whole` for its relation to `handleLine`, and
    `general_serialisable_whole` for the version with the counter sections.  No hypothesis on the
    program lines: KILL / DIE / SQUIT (and STATS) lines are allowed. -/
theorem general_serialisable (cfg : Cfg) (cs : List Nat) (S₀ S : Sys) (sched : List Nat)
    (hnd : cs.Nodup) (hcs : ∀ c, c ∉ cs → S₀.todo c = [])
    (hlive : ∀ c ∈ cs, (S₀.σ.w.conn? c).isSome = true) (hinv : InvCore S₀.σ.w)
    (hpc : ∀ c, S₀.σ.pc c = .idle) (hpend : ∀ c, S₀.pend c = [])
    (hrun : runSched cfg splitCore sched S₀ = some S)
    (hnc : noCorner cfg splitCore sched S₀ = true)
    (hdone : ∀ c ∈ cs, S.pend c = []) :
    ∃ cmds : List (Nat × Str), (∀ c, S₀.todo c = linesOf c cmds ++ S.todo c) ∧
      S.σ = seqRun cfg splitCore cmds S₀.σ :=
  general_serialisable_split cfg splitCore splitCore_shape cs S₀ S sched hnd hcs hlive hinv hpc
    hpend (fun _ _ _ => .inl splitCore_noCount) hrun hnc hdone

/-- **`general_serialisable_whole`** (counters: way out (b)): the semantics WITH the counter
    sections (`splitCommand`: the counter of a split command is bumped when the command starts)
    against the sequential model proper — `cmds` executed one at a time by `handleLine`
    (`seqWhole cfg cmds` = `stepSection cfg (.whole c line)` folded over `cmds`).  Same hypotheses
    as `general_serialisable`, plus: every program line commutes with the counter bumps
    (`BumpCommLine`; see `bumpCommLine_registration`; it fails for `STATS m` only, and `STATS m`
    between the start and the serialisation point of another connection's split command is indeed
    not serialisable).  Conclusion: the same `CState` — world (counters included), program
    counters, every `dir d`, `sent`. -/
theorem general_serialisable_whole (cfg : Cfg) (cs : List Nat) (S₀ S : Sys) (sched : List Nat)
    (hnd : cs.Nodup) (hcs : ∀ c, c ∉ cs → S₀.todo c = [])
    (hlive : ∀ c ∈ cs, (S₀.σ.w.conn? c).isSome = true) (hinv : InvCore S₀.σ.w)
    (hpc : ∀ c, S₀.σ.pc c = .idle) (hpend : ∀ c, S₀.pend c = [])
    (hbc : ∀ c, ∀ l ∈ S₀.todo c, BumpCommLine cfg c l)
    (hrun : runSched cfg splitCommand sched S₀ = some S)
    (hnc : noCorner cfg splitCommand sched S₀ = true)
    (hdone : ∀ c ∈ cs, S.pend c = []) :
    ∃ cmds : List (Nat × Str), (∀ c, S₀.todo c = linesOf c cmds ++ S.todo c) ∧
      S.σ = seqWhole cfg cmds S₀.σ := by
  obtain ⟨cmds, h1, h2⟩ := general_serialisable_split cfg splitCommand splitCommand_shape cs S₀ S
    sched hnd hcs hlive hinv hpc hpend (fun c l hl => .inr (hbc c l hl)) hrun hnc hdone
  refine ⟨cmds, h1, ?_⟩
  rw [h2]
  apply seqRun_splitCommand_eq_seqWhole cmds S₀.σ hinv hpc
  intro p hp
  have hpc' := mem_cmds_of_linesOf hcs h1 p hp
  obtain ⟨cn, hcn⟩ := Option.isSome_iff_exists.mp (hlive p.1 hpc')
  obtain ⟨hm, hid⟩ := Tear.conn?_some hcn
  exact ⟨cn, hm, hid⟩

/-- the same with the equalities spelled out -/
theorem general_serialisable_spelled_out (cfg : Cfg) (cs : List Nat) (S₀ S : Sys)
    (sched : List Nat) (hnd : cs.Nodup) (hcs : ∀ c, c ∉ cs → S₀.todo c = [])
    (hlive : ∀ c ∈ cs, (S₀.σ.w.conn? c).isSome = true) (hinv : InvCore S₀.σ.w)
    (hpc : ∀ c, S₀.σ.pc c = .idle) (hpend : ∀ c, S₀.pend c = [])
    (hrun : runSched cfg splitCore sched S₀ = some S)
    (hnc : noCorner cfg splitCore sched S₀ = true)
    (hdone : ∀ c ∈ cs, S.pend c = []) :
    ∃ cmds : List (Nat × Str), (∀ c, S₀.todo c = linesOf c cmds ++ S.todo c) ∧
      S.σ.w = (seqRun cfg splitCore cmds S₀.σ).w ∧
      S.σ.pc = (seqRun cfg splitCore cmds S₀.σ).pc ∧
      (∀ d, S.σ.dir d = (seqRun cfg splitCore cmds S₀.σ).dir d) ∧
      S.σ.sent = (seqRun cfg splitCore cmds S₀.σ).sent ∧
      (∀ d, S.σ.queueOf d = (seqRun cfg splitCore cmds S₀.σ).queueOf d) := by
  obtain ⟨cmds, h1, h2⟩ :=
    general_serialisable cfg cs S₀ S sched hnd hcs hlive hinv hpc hpend hrun hnc hdone
  exact ⟨cmds, h1, by rw [h2], by rw [h2], fun d => by rw [h2], by rw [h2], fun d => by rw [h2]⟩

/-- if moreover every program has been executed to its end (`S.todo c = []`), `cmds` is an
    order-respecting merge of the WHOLE programs: the lines of `c` in `cmds` are exactly `c`'s
    program, in order — for both semantics -/
theorem general_serialisable_complete (cfg : Cfg) (cs : List Nat) (S₀ S : Sys) (sched : List Nat)
    (hnd : cs.Nodup) (hcs : ∀ c, c ∉ cs → S₀.todo c = [])
    (hlive : ∀ c ∈ cs, (S₀.σ.w.conn? c).isSome = true) (hinv : InvCore S₀.σ.w)
    (hpc : ∀ c, S₀.σ.pc c = .idle) (hpend : ∀ c, S₀.pend c = [])
    (hall : ∀ c, S.todo c = []) (hdone : ∀ c ∈ cs, S.pend c = []) :
    (runSched cfg splitCore sched S₀ = some S → noCorner cfg splitCore sched S₀ = true →
      ∃ cmds : List (Nat × Str), (∀ c, linesOf c cmds = S₀.todo c) ∧
        S.σ = seqRun cfg splitCore cmds S₀.σ) ∧
    ((∀ c, ∀ l ∈ S₀.todo c, BumpCommLine cfg c l) →
      runSched cfg splitCommand sched S₀ = some S → noCorner cfg splitCommand sched S₀ = true →
      ∃ cmds : List (Nat × Str), (∀ c, linesOf c cmds = S₀.todo c) ∧
        S.σ = seqWhole cfg cmds S₀.σ) := by
  constructor
  · intro hrun hnc
    obtain ⟨cmds, h1, h2⟩ :=
      general_serialisable cfg cs S₀ S sched hnd hcs hlive hinv hpc hpend hrun hnc hdone
    exact ⟨cmds, fun c => by rw [h1 c, hall c, List.append_nil], h2⟩
  · intro hbc hrun hnc
    obtain ⟨cmds, h1, h2⟩ :=
      general_serialisable_whole cfg cs S₀ S sched hnd hcs hlive hinv hpc hpend hbc hrun hnc hdone
    exact ⟨cmds, fun c => by rw [h1 c, hall c, List.append_nil], h2⟩

/-- **the core of a command and the whole command** (the counters, way out (a)): for a live
    connection between two commands, `handleLine` (`.whole c line`) is the core of the command, or
    — for the split commands — the counter section followed by the core. -/
theorem seqStep_core_vs_whole {cfg : Cfg} {c : Nat} {line : Str} {τ : CState} {cn : Conn}
    (h : τ.w.conn? c = some cn) (hpc : τ.pc c = .idle) :
    stepSection cfg (.whole c line) τ = seqStep cfg splitCore (c, line) τ ∨
    ∃ i, stepSection cfg (.whole c line) τ =
      seqStep cfg splitCore (c, line) (stepSection cfg (.count c i) τ) := by
  have hs := split_is_sequential (cfg := cfg) (line := line) h hpc
  rcases splitCommand_eq cn.authenticated c line with e | ⟨i, e⟩
  · left
    rw [← hs, e, seqStep_eq, authOf_of h]
  · right
    refine ⟨i, ?_⟩
    rw [← hs, e, runSections_cons, seqStep_eq]
    have : authOf (stepSection cfg (.count c i) τ) c = cn.authenticated := by
      rw [step_count]
      exact authOf_of (σ := { τ with w := bumpCount τ.w i }) h
    rw [this]

/-! ## non-vacuity: three connections, two of them racing through split commands

Connections 1 and 2 are connected and have sent `USER`; connection 3 is registered as `c`.
Programs: 1 = `PASS x`, `NICK a`;  2 = `NICK b`, `NICK a`;  3 = `PRIVMSG c :hi`, `PING x`.
The schedule interleaves the two registrations section by section (both are between A1 and A3 at
the same time) with the one-section commands of 3; the second command of 2 finds it registered
(one section) and the nick `a` taken. -/

namespace GDemo
open Demo

def evs : List Event :=
  [.connect 1 ip, .connect 2 ip, .connect 3 ip, .line 1 (str "USER u 0 * :U"),
   .line 2 (str "USER v 0 * :V"), .line 3 (str "NICK c"), .line 3 (str "USER c 0 * :C")]

def prog : Nat → List Str := fun c =>
  if c = 1 then [str "PASS x", str "NICK a"]
  else if c = 2 then [str "NICK b", str "NICK a"]
  else if c = 3 then [str "PRIVMSG c :hi", str "PING x"]
  else []

def S₀ : Sys := { σ := { w := run cfg evs }, todo := prog }

def sched : List Nat := [1, 2, 3, 1, 1, 2, 3, 1, 2, 1, 2, 3]

/-- the sections in the order in which this schedule executes them -/
def trace : List Section :=
  [.prelude 1 (.PASS (str "x")), .nickCheck 2 (str "b"), .whole 3 (str "PRIVMSG c :hi"),
   .authCommit 1, .nickCheck 1 (str "a"), .authDecide 2, .touch 3, .authDecide 1, .authCommit 2,
   .authCommit 1, .whole 2 (str "NICK a"), .whole 3 (str "PING x")]

/-- the final system of the run -/
def S : Sys := (runSched cfg splitCore sched S₀).getD S₀

/-- the serialisation the proof constructs: the commands in the order of their serialisation
    points (the `whole` of 3, the `authCommit` of 1's PASS, the A3 of 2, the A3 of 1, …) -/
def cmds : List (Nat × Str) :=
  [(3, str "PRIVMSG c :hi"), (1, str "PASS x"), (2, str "NICK b"), (1, str "NICK a"),
   (2, str "NICK a"), (3, str "PING x")]

end GDemo

open GDemo in
set_option maxRecDepth 16384 in
/-- the schedule can be run -/
theorem gdemo_run : runSched Demo.cfg splitCore sched S₀ = some S := by
  have h : (runSched Demo.cfg splitCore sched S₀).isSome = true := by decide
  unfold GDemo.S
  cases h' : runSched Demo.cfg splitCore sched S₀ with
  | none => rw [h'] at h; cases h
  | some s => rfl

open GDemo in
/-- the initial world is reachable, hence satisfies the invariant -/
theorem gdemo_inv : InvCore S₀.σ.w :=
  (inv_run (cfg := Demo.cfg) (evs := evs) (by decide)).toInvCore

open GDemo in
set_option maxRecDepth 16384 in
/-- all hypotheses of `general_serialisable` hold for this run -/
example : ∃ cmds : List (Nat × Str), (∀ c, S₀.todo c = linesOf c cmds ++ S.todo c) ∧
    S.σ = seqRun Demo.cfg splitCore cmds S₀.σ :=
  general_serialisable Demo.cfg [1, 2, 3] S₀ S sched (by decide)
    (by intro c hc; simp at hc; simp [S₀, prog, hc])
    (by decide) gdemo_inv (fun _ => rfl) (fun _ => rfl) gdemo_run (by decide) (by decide)

open GDemo in
set_option maxRecDepth 16384 in
-- the run is the one described: two registrations in flight at the same time
example : S.σ.sent = (runSections Demo.cfg trace S₀.σ).sent ∧
    S.σ.dir 1 = (runSections Demo.cfg trace S₀.σ).dir 1 ∧
    (runSections Demo.cfg (trace.take 8) S₀.σ).pc 1 = .toCommit false ∧
    (runSections Demo.cfg (trace.take 8) S₀.σ).pc 2 = .toCommit false := by decide

open GDemo in
set_option maxRecDepth 16384 in
-- the outcome is not trivial: both register (18-line welcome bursts), 2 is then refused `a`
example : Map.keys S.σ.w.users = [str "c", str "b", str "a"] ∧
    Demo.authOf S.σ 1 = true ∧ Demo.authOf S.σ 2 = true ∧ Demo.nickOf S.σ 2 = some (str "b") ∧
    (S.σ.dir 1).length = 18 ∧ (S.σ.dir 2).length = 19 ∧ (S.σ.dir 3).length = 1 ∧
    S.σ.sent = [(3, 3, str ":c!~c@10.0.0.1 PRIVMSG c :hi")] := by decide

/-! the serialisation `cmds`, exhibited and checked component by component (the two `decide +kernel`
    compare whole user tables / connection tables; kernel evaluation, no extra axiom) -/

open GDemo in
set_option maxRecDepth 16384 in
example : ∀ c ∈ [1, 2, 3], S₀.todo c = linesOf c cmds ++ S.todo c := by decide

open GDemo in
set_option maxRecDepth 16384 in
example : S.σ.w.users = (seqRun Demo.cfg splitCore cmds S₀.σ).w.users := by decide +kernel

open GDemo in
set_option maxRecDepth 16384 in
example : S.σ.w.conns = (seqRun Demo.cfg splitCore cmds S₀.σ).w.conns := by decide +kernel

open GDemo in
set_option maxRecDepth 16384 in
example : S.σ.sent = (seqRun Demo.cfg splitCore cmds S₀.σ).sent := by decide

open GDemo in
set_option maxRecDepth 16384 in
example : ∀ c ∈ [1, 2, 3], S.σ.dir c = (seqRun Demo.cfg splitCore cmds S₀.σ).dir c := by decide

open GDemo in
set_option maxRecDepth 16384 in
example : ∀ c ∈ [1, 2, 3], S.σ.pc c = (seqRun Demo.cfg splitCore cmds S₀.σ).pc c := by decide

/-! ### the same race in the semantics WITH the counter sections (`general_serialisable_whole`)

Programs: 1 = `PASS x`, `NICK a`;  2 = `NICK b`, `NICK a`;  3 = `PING y`, `PING x` (lines for which
`BumpCommLine` is proved).  The unregistered commands start with their counter section. -/

namespace GDemo
open Demo

def progB : Nat → List Str := fun c =>
  if c = 1 then [str "PASS x", str "NICK a"]
  else if c = 2 then [str "NICK b", str "NICK a"]
  else if c = 3 then [str "PING y", str "PING x"]
  else []

def SB₀ : Sys := { σ := { w := run cfg evs }, todo := progB }

/-- 1: count(PASS) · 2: count(NICK b) · 3: PING y · 1: prelude · 2: A1(b) · 1: A3(PASS) ·
    1: count(NICK a) · 1: A1(a) · 2: A2 · 1: A2 · 2: A3 · 1: A3 · 2: NICK a (whole) · 3: PING x -/
def schedB : List Nat := [1, 2, 3, 1, 2, 1, 1, 1, 2, 1, 2, 1, 2, 3]

def SB : Sys := (runSched cfg splitCommand schedB SB₀).getD SB₀

def cmdsB : List (Nat × Str) :=
  [(3, str "PING y"), (1, str "PASS x"), (2, str "NICK b"), (1, str "NICK a"),
   (2, str "NICK a"), (3, str "PING x")]

end GDemo

open GDemo in
set_option maxRecDepth 16384 in
theorem gdemoB_run : runSched Demo.cfg splitCommand schedB SB₀ = some SB := by
  have h : (runSched Demo.cfg splitCommand schedB SB₀).isSome = true := by decide
  unfold GDemo.SB
  cases h' : runSched Demo.cfg splitCommand schedB SB₀ with
  | none => rw [h'] at h; cases h
  | some s => rfl

open GDemo in
/-- every program line commutes with the counter bumps -/
theorem gdemoB_lines : ∀ c, ∀ l ∈ SB₀.todo c, BumpCommLine Demo.cfg c l := by
  intro c l hl
  apply bumpCommLine_registration
  have hl' : l ∈ progB c := hl
  unfold progB at hl'
  split at hl'
  · simp only [List.mem_cons, List.not_mem_nil, or_false] at hl'
    rcases hl' with rfl | rfl <;> decide
  · split at hl'
    · simp only [List.mem_cons, List.not_mem_nil, or_false] at hl'
      rcases hl' with rfl | rfl <;> decide
    · split at hl'
      · simp only [List.mem_cons, List.not_mem_nil, or_false] at hl'
        rcases hl' with rfl | rfl <;> decide
      · cases hl'

open GDemo in
set_option maxRecDepth 16384 in
/-- all hypotheses of `general_serialisable_whole` hold for this run -/
example : ∃ cmds : List (Nat × Str), (∀ c, SB₀.todo c = linesOf c cmds ++ SB.todo c) ∧
    SB.σ = seqWhole Demo.cfg cmds SB₀.σ :=
  general_serialisable_whole Demo.cfg [1, 2, 3] SB₀ SB schedB (by decide)
    (by intro c hc; simp at hc; simp [SB₀, progB, hc])
    (by decide) gdemo_inv (fun _ => rfl) (fun _ => rfl) gdemoB_lines gdemoB_run (by decide)
    (by decide)

open GDemo in
set_option maxRecDepth 16384 in
-- the serialisation, checked: counters (PASS 1, NICK 1 + 3, USER 3, PING 2), queues, replies
example : SB.σ.w.cmdCounts = (seqWhole Demo.cfg cmdsB SB₀.σ).w.cmdCounts ∧
    SB.σ.w.cmdCounts.take 6 = [0, 0, 1, 4, 3, 2] ∧
    SB.σ.sent = (seqWhole Demo.cfg cmdsB SB₀.σ).sent := by decide

open GDemo in
set_option maxRecDepth 16384 in
example : ∀ c ∈ [1, 2, 3], SB.σ.dir c = (seqWhole Demo.cfg cmdsB SB₀.σ).dir c := by decide

open GDemo in
set_option maxRecDepth 16384 in
example : SB.σ.w.users = (seqWhole Demo.cfg cmdsB SB₀.σ).w.users := by decide +kernel

/-! ### why (b) needs the hypothesis on the lines: `STATS m` sees a counter bumped too early

Connection 3 is the operator `c`, connection 1 has sent `USER`.  1 starts `NICK a` (its counter
section runs), then 3 executes `STATS m` (which shows the bump) and `ISON a` (which does not show
`a`), then 1 registers.  No sequential order of the three commands gives connection 3 this
transcript: `ISON a` before the registration forces `STATS m` before it, too. -/

namespace GDemo
open Demo

def evsC : List Event :=
  [.connect 3 ip, .line 3 (str "NICK c"), .line 3 (str "USER c 0 * :C"), .line 3 (str "OPER op pw"),
   .connect 1 ip, .line 1 (str "USER u 0 * :U")]

def progC : Nat → List Str := fun c =>
  if c = 1 then [str "NICK a"] else if c = 3 then [str "STATS m", str "ISON a"] else []

def SC₀ : Sys := { σ := { w := run kcfg evsC }, todo := progC }

/-- 1: count(NICK) · 3: STATS m · 3: ISON a · 1: A1 · 1: A2 · 1: A3 -/
def schedC : List Nat := [1, 3, 3, 1, 1, 1]

def SC : Sys := (runSched kcfg splitCommand schedC SC₀).getD SC₀

end GDemo

open GDemo in
set_option maxRecDepth 16384 in
/-- **`counter_not_serialisable`**: the run is complete and corner-free, and the transcript of
    connection 3 differs from the one of each of the three order-respecting merges -/
example : (runSched Demo.kcfg splitCommand schedC SC₀).isSome = true ∧
    noCorner Demo.kcfg splitCommand schedC SC₀ = true ∧ (∀ c ∈ [1, 3], SC.pend c = []) ∧
    (SC.σ.dir 3).map String.ofList =
      [":irc.irc 212 c NICK 2", ":irc.irc 212 c USER 2", ":irc.irc 212 c OPER 1",
       ":irc.irc 212 c STATS 1", ":irc.irc 219 c m :End of STATS report", ":irc.irc 303 c :"] ∧
    SC.σ.dir 3 ≠ (seqWhole Demo.kcfg
      [(1, str "NICK a"), (3, str "STATS m"), (3, str "ISON a")] SC₀.σ).dir 3 ∧
    SC.σ.dir 3 ≠ (seqWhole Demo.kcfg
      [(3, str "STATS m"), (1, str "NICK a"), (3, str "ISON a")] SC₀.σ).dir 3 ∧
    SC.σ.dir 3 ≠ (seqWhole Demo.kcfg
      [(3, str "STATS m"), (3, str "ISON a"), (1, str "NICK a")] SC₀.σ).dir 3 := by decide

open GDemo in
set_option maxRecDepth 16384 in
/-- accordingly the hypothesis of `general_serialisable_whole` fails for this line -/
example : ¬ BumpCommLine Demo.kcfg 3 (str "STATS m") := by
  intro h
  have := congrArg Ctx.direct (h 3 { w := SC₀.σ.w })
  revert this
  decide

end Irc.C18
