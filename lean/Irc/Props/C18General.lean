/-
  Property C18, the GENERAL serialisability theorem: any number of connections, any programs, any
  schedule of lock sections.  (Work in progress: this first version contains the theorem for
  programs of one-section commands.)
-/
import Irc.Props.C18GeneralLemmas1

namespace Irc.C18

open Irc Irc.Conc Irc.C18G

/-- **any number of connections, one-section commands only.**  Every schedule of the lock sections
    of programs that consist of one-section commands (everything but `NICK` / `PASS` / `USER` /
    `CAP END`) is the sequential execution (`handleLine`, one command at a time) of an
    order-respecting merge `cmds` of the programs: same `CState` (world, counters, every reply
    buffer, the global push sequence). -/
theorem general_serialisable_atomic (cfg : Cfg) (S₀ S : Sys) (sched : List Nat)
    (hpend : ∀ c, S₀.pend c = []) (hone : ∀ c, ∀ l ∈ S₀.todo c, OneSection c l)
    (hrun : runSched cfg splitCore sched S₀ = some S) :
    ∃ cmds : List (Nat × Str), (∀ c, S₀.todo c = linesOf c cmds ++ S.todo c) ∧
      S.σ = seqWhole cfg cmds S₀.σ := by
  have h0 : AtomicSim cfg S₀.σ S₀.todo S₀ [] :=
    ⟨rfl, fun c => rfl, fun c s hs => by rw [hpend c] at hs; exact absurd hs List.not_mem_nil, hone⟩
  obtain ⟨cmds, h⟩ := runSched_sim' (AtomicSim cfg S₀.σ S₀.todo)
    (fun S done c S' hR hm => atomicSim_step hR hm) sched S₀ [] S h0 hrun
  exact ⟨cmds, h.progs, h.state⟩

end Irc.C18
