/-
  Counter-frame lemmas for C18 (`Irc/Props/C18Counters.lean`), part 0: vocabulary, the context
  primitives, the tactic.  The method is the one of `Irc/Props/C18FrameLemmas0.lean` (the record of a
  foreign connection), applied to another component of the world: the command counters.

  One fact is proved for every handler `h` except `STATS m`:

      h (x.bc i) = (h x).bc i          where  x.bc i = bmp i x = x.modifyW (bumpCount · i)

  `Ctx.bc` / `World.bcW` are `bmp` / `bumpCount` under another name: a marker for "the bump of a
  command counter", so that rewriting with the push lemmas (`bc_push`) moves exactly this update
  outwards and terminates.  There is NO read lemma for `(w.bcW i).cmdCounts`: a handler that reads
  the counters gets stuck (that is `STATS m`).
-/
import Irc.Props.C18CountersAttr
import Irc.Props.C18GeneralLemmas8

namespace Irc

/-- `bumpCount`, used as the marker of the counter bump that is pushed outwards -/
def World.bcW (w : World) (i : Nat) : World := bumpCount w i
/-- `C18G.bmp`, used as the marker of the counter bump that is pushed outwards -/
def Ctx.bc (x : Ctx) (i : Nat) : Ctx := x.modifyW (fun w => bumpCount w i)

namespace C18C
open Irc.Conc Irc.C18G

theorem bc_eq_bmp (x : Ctx) (i : Nat) : x.bc i = bmp i x := rfl

/-! ### reads -/
section
variable (w : World) (x : Ctx) (i : Nat)

@[bc_read] theorem bc_w : (x.bc i).w = x.w.bcW i := rfl
@[bc_read] theorem bc_direct : (x.bc i).direct = x.direct := rfl
@[bc_read] theorem bc_queued : (x.bc i).queued = x.queued := rfl
@[bc_read] theorem bcW_users : (w.bcW i).users = w.users := rfl
@[bc_read] theorem bcW_channels : (w.bcW i).channels = w.channels := rfl
@[bc_read] theorem bcW_wallops : (w.bcW i).wallops = w.wallops := rfl
@[bc_read] theorem bcW_invisibleCount : (w.bcW i).invisibleCount = w.invisibleCount := rfl
@[bc_read] theorem bcW_operatorsCount : (w.bcW i).operatorsCount = w.operatorsCount := rfl
@[bc_read] theorem bcW_maxUsers : (w.bcW i).maxUsers = w.maxUsers := rfl
@[bc_read] theorem bcW_histories : (w.bcW i).histories = w.histories := rfl
@[bc_read] theorem bcW_conns : (w.bcW i).conns = w.conns := rfl
@[bc_read] theorem bcW_connsCount : (w.bcW i).connsCount = w.connsCount := rfl
@[bc_read] theorem bcW_srvQuit : (w.bcW i).srvQuit = w.srvQuit := rfl
@[bc_read] theorem bcW_panicked : (w.bcW i).panicked = w.panicked := rfl
-- no lemma for `(w.bcW i).cmdCounts`: the component that the bump changes

@[bc_read] theorem bc_conn (d : Nat) : (x.bc i).conn d = x.conn d := rfl
@[bc_read] theorem bcW_conn? (o : Nat) : (w.bcW i).conn? o = w.conn? o := rfl

end

/-! ### pushes -/
section
variable (w : World) (x : Ctx) (i : Nat)

@[bc_push] theorem bc_reply (cfg : Cfg) (t : Str) : (x.bc i).reply cfg t = (x.reply cfg t).bc i := rfl
@[bc_push] theorem bc_replySrc (s t : Str) : (x.bc i).replySrc s t = (x.replySrc s t).bc i := rfl
@[bc_push] theorem bc_panic (s : String) : (x.bc i).panic s = (x.panic s).bc i := rfl
@[bc_push] theorem bcW_panic (s : String) : (w.bcW i).panic s = (w.panic s).bcW i := rfl

@[bc_push] theorem bc_send (n l : Str) : (x.bc i).send n l = (x.send n l).bc i := by
  unfold Ctx.send
  simp only [bc_w, bcW_users]
  split <;> rfl

@[bc_push] theorem bc_sendDisplay (n s t : Str) :
    (x.bc i).sendDisplay n s t = (x.sendDisplay n s t).bc i := bc_send x i n _

@[bc_push] theorem bc_foldl {α : Type} (f : Ctx → α → Ctx)
    (hf : ∀ y a, f (y.bc i) a = (f y a).bc i) (l : List α) :
    l.foldl f (x.bc i) = (l.foldl f x).bc i := by
  induction l generalizing x with
  | nil => rfl
  | cons a l ih => simp only [List.foldl_cons, hf, ih]

@[bc_push] theorem bcW_foldl {α : Type} (f : World → α → World)
    (hf : ∀ y a, f (y.bcW i) a = (f y a).bcW i) (l : List α) :
    l.foldl f (w.bcW i) = (l.foldl f w).bcW i := by
  induction l generalizing w with
  | nil => rfl
  | cons a l ih => simp only [List.foldl_cons, hf, ih]

@[bc_push] theorem bc_sendAll (ns : List Str) (l : Str) :
    (x.bc i).sendAll ns l = (x.sendAll ns l).bc i :=
  bc_foldl x i _ (fun y a => bc_send y i a l) ns

@[bc_push] theorem bc_setConn (dn : Conn) : (x.bc i).setConn dn = (x.setConn dn).bc i := rfl

@[bc_push] theorem bcW_setConn (dn : Conn) : (w.bcW i).setConn dn = (w.setConn dn).bcW i := rfl

@[bc_push] theorem bc_modifyW (f : World → World) (hf : ∀ w, f (w.bcW i) = (f w).bcW i) :
    (x.bc i).modifyW f = (x.modifyW f).bc i := by
  simp only [Ctx.modifyW, Ctx.bc, World.bcW] at hf ⊢
  rw [hf]

/-- structure updates of the other fields commute with the bump -/
@[bc_push] theorem bcW_mk (a : Map User) (b : Map Channel) (c : KSet) (d e f : Nat)
    (g : Map (List HistEntry)) (h : List Conn) (j : Nat) (k : Bool) (l : Option Str) :
    World.mk a b c d e f g h j k (w.bcW i).cmdCounts l =
      (World.mk a b c d e f g h j k w.cmdCounts l).bcW i := rfl

@[bc_push] theorem bc_mk (dr : List Str) (q : List (Nat × Str)) :
    Ctx.mk (w.bcW i) dr q = (Ctx.mk w dr q).bc i := rfl

/-- two bumps commute (the one of `handleLine` and the marker) -/
@[bc_push] theorem bumpCount_bcW (j : Nat) : bumpCount (w.bcW i) j = (bumpCount w j).bcW i :=
  bumpCount_comm w i j

end

/-! ### the tactic -/

macro "bc_simp" : tactic =>
  `(tactic| simp only [bc_read, bc_push, ↓reduceIte, Bool.false_eq_true, Bool.true_eq_false, ne_eq,
      not_false_eq_true, not_true_eq_false, implies_true, *])

theorem ite_bc {i : Nat} {p : Prop} [Decidable p] {A B A' B' : Ctx} (hA : A' = A.bc i)
    (hB : B' = B.bc i) : (if p then A' else B') = (if p then A else B).bc i := by
  subst hA hB; split <;> rfl

theorem ite_bcW {i : Nat} {p : Prop} [Decidable p] {A B A' B' : World} (hA : A' = A.bcW i)
    (hB : B' = B.bcW i) : (if p then A' else B') = (if p then A else B).bcW i := by
  subst hA hB; split <;> rfl

/-- hook: further structural steps registered with `macro_rules` -/
syntax "bc_hook" : tactic
macro_rules | `(tactic| bc_hook) => `(tactic| fail "no counter-frame step applies")

/-- normalise the reads, push the bump outwards, split the handler's case analysis (on both sides at
    once), recurse into folds and world updates -/
macro "bcf" : tactic =>
  `(tactic| repeat' (first
    | with_reducible rfl
    | intro _
    | bc_simp
    | (rw [bc_foldl])
    | (rw [bcW_foldl])
    | (rw [bc_modifyW])
    | with_reducible apply ite_bc
    | with_reducible apply ite_bcW
    | bc_hook
    | split))

end C18C
end Irc
