/-
  Counter-frame lemmas for C18, part 4: the handlers of `Irc/HQuery.lean`.

  `processStats` is the one handler that READS `World.cmdCounts` — in the branch `stat = 'm'`
  (no target server, the acting user a local operator).  Its lemma carries the hypothesis
  `stat ≠ 'm'`.
-/
import Irc.Props.C18CountersLemmas3

namespace Irc

/-- the counter bump inside the accumulator of the channel-MODE loop -/
def ModeAcc.bc (a : ModeAcc) (i : Nat) : ModeAcc := { a with x := a.x.bc i }
/-- the counter bump inside the accumulator of the user-MODE loop -/
def UModeAcc.bc (a : UModeAcc) (i : Nat) : UModeAcc := { a with x := a.x.bc i }

namespace C18C
open Irc Irc.Conc

section
variable {cfg : Cfg} {i : Nat} {d : Nat} {x : Ctx}

@[bc_push] theorem processVersion_bc (t : Option Str) :
    processVersion cfg d t (x.bc i) = (processVersion cfg d t x).bc i := by
  unfold processVersion
  bcf

@[bc_push] theorem processAdmin_bc (t : Option Str) :
    processAdmin cfg d t (x.bc i) = (processAdmin cfg d t x).bc i := by
  unfold processAdmin
  bcf

@[bc_push] theorem processTime_bc (t : Option Str) :
    processTime cfg d t (x.bc i) = (processTime cfg d t x).bc i := by
  unfold processTime
  bcf

/-- `STATS` with a query letter other than `m` -/
theorem processStats_bc (st : Char) (hst : st ≠ 'm') (t : Option Str) :
    processStats cfg d st t (x.bc i) = (processStats cfg d st t x).bc i := by
  unfold processStats
  bcf

/-- `STATS <letter> <server>` is refused before anything is read -/
theorem processStats_bc_server (st : Char) (s : Str) :
    processStats cfg d st (some s) (x.bc i) = (processStats cfg d st (some s) x).bc i := rfl

@[bc_push] theorem processLinks_bc (r m : Option Str) :
    processLinks cfg d r m (x.bc i) = (processLinks cfg d r m x).bc i := by
  unfold processLinks
  bcf

@[bc_push] theorem helpLines_bc (client subject : Str) (k : Nat) (lines : List Str) (total : Nat) :
    helpLines cfg client subject k lines total (x.bc i) =
      (helpLines cfg client subject k lines total x).bc i := by
  induction lines generalizing k x with
  | nil => rfl
  | cons l ls ih =>
    simp only [helpLines]
    rw [← ih]
    congr 1
    bcf

@[bc_push] theorem processHelp_bc (s : Option Str) :
    processHelp cfg d s (x.bc i) = (processHelp cfg d s x).bc i := by
  unfold processHelp
  bcf

@[bc_push] theorem processInfo_bc :
    processInfo cfg d (x.bc i) = (processInfo cfg d x).bc i := by
  unfold processInfo
  bcf

/-! channel MODE -/

section
variable (a : ModeAcc)
@[bc_read] theorem macc_x : (a.bc i).x = a.x.bc i := rfl
@[bc_read] theorem macc_ch : (a.bc i).ch = a.ch := rfl
@[bc_read] theorem macc_args : (a.bc i).args = a.args := rfl
@[bc_read] theorem macc_modeSet : (a.bc i).modeSet = a.modeSet := rfl
@[bc_read] theorem macc_setStr : (a.bc i).setStr = a.setStr := rfl
@[bc_read] theorem macc_unsetStr : (a.bc i).unsetStr = a.unsetStr := rfl
@[bc_read] theorem macc_paramsStr : (a.bc i).paramsStr = a.paramsStr := rfl
@[bc_push] theorem macc_mk (y : Ctx) (ch : Channel) (args : List Str) (ms : Bool) (s u p : Str) :
    ModeAcc.mk (y.bc i) ch args ms s u p = (ModeAcc.mk y ch args ms s u p).bc i := rfl

@[bc_push] theorem macc_foldl {α : Type} (f : ModeAcc → α → ModeAcc)
    (hf : ∀ b e, f (b.bc i) e = (f b e).bc i) (l : List α) :
    l.foldl f (a.bc i) = (l.foldl f a).bc i := by
  induction l generalizing a with
  | nil => rfl
  | cons e l ih => simp only [List.foldl_cons, hf, ih]
end

section
variable (a : UModeAcc)
@[bc_read] theorem uacc_x : (a.bc i).x = a.x.bc i := rfl
@[bc_read] theorem uacc_modes : (a.bc i).modes = a.modes := rfl
@[bc_read] theorem uacc_modeSet : (a.bc i).modeSet = a.modeSet := rfl
@[bc_read] theorem uacc_setStr : (a.bc i).setStr = a.setStr := rfl
@[bc_read] theorem uacc_unsetStr : (a.bc i).unsetStr = a.unsetStr := rfl
@[bc_push] theorem uacc_mk (y : Ctx) (m : UserModes) (ms : Bool) (s u : Str) :
    UModeAcc.mk (y.bc i) m ms s u = (UModeAcc.mk y m ms s u).bc i := rfl

@[bc_push] theorem uacc_foldl {α : Type} (f : UModeAcc → α → UModeAcc)
    (hf : ∀ b e, f (b.bc i) e = (f b e).bc i) (l : List α) :
    l.foldl f (a.bc i) = (l.foldl f a).bc i := by
  induction l generalizing a with
  | nil => rfl
  | cons e l ih => simp only [List.foldl_cons, hf, ih]
end

theorem ite_macc {p : Prop} [Decidable p] {A B A' B' : ModeAcc} (hA : A' = A.bc i)
    (hB : B' = B.bc i) : (if p then A' else B') = (if p then A else B).bc i := by
  subst hA hB; split <;> rfl
macro_rules | `(tactic| bc_hook) => `(tactic| with_reducible apply ite_macc)

theorem ite_uacc {p : Prop} [Decidable p] {A B A' B' : UModeAcc} (hA : A' = A.bc i)
    (hB : B' = B.bc i) : (if p then A' else B') = (if p then A else B).bc i := by
  subst hA hB; split <;> rfl
macro_rules | `(tactic| bc_hook) => `(tactic| with_reducible apply ite_uacc)

@[bc_push] theorem modeChar_bc (cn' : Conn) (target : Str) (chum : ChanUserModes) (a : ModeAcc)
    (m : Char) :
    modeChar cfg cn' target chum (a.bc i) m = (modeChar cfg cn' target chum a m).bc i := by
  unfold modeChar
  simp only [bc_read]
  generalize ((_ : Bool) && !mayChange chum m) = b
  cases b
  · simp only [Bool.false_eq_true, ↓reduceIte]
    bcf
  · simp only [↓reduceIte]
    bcf


end
end C18C
end Irc
