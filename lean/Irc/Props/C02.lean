/-
  C02 — "At any moment at most one connection is registered under a given nickname, and that nickname
  belongs to the connection whose registration or NICK change the server accepted for it.  Whatever a
  connection sends and however it ends, it can speak as, rename, modify or remove only the user it
  registered itself; a connection whose registration was refused (nickname in use, wrong password,
  mask mismatch) or never completed has no effect on any registered user."

  All theorems are stated for every world satisfying the global invariant (`InvCore` where the
  settling clauses are not needed, `Inv` otherwise); reachable worlds satisfy it (`Reachable` section).
  Helper lemmas: Irc/Props/InvPropsLemmas.lean.
-/
import Irc.Props.InvPropsLemmas

namespace Irc.C02
open Irc

/-! ### vocabulary -/

/-- `cn` is a live connection that is registered under the nickname `n` -/
def RegisteredAs (w : World) (cn : Conn) (n : Str) : Prop :=
  cn ∈ w.conns ∧ cn.authenticated = true ∧ cn.nick = some n

instance (w : World) (cn : Conn) (n : Str) : Decidable (RegisteredAs w cn n) := by
  unfold RegisteredAs; infer_instance

/-- the initial world has no users -/
theorem init_no_users (cfg : Cfg) : (World.init cfg).users = [] := rfl

/-! ### one nickname, one owner -/

/-- at most one connection is registered under a given nickname -/
theorem at_most_one_owner {w : World} (h : InvCore w) {n : Str} {a b : Conn}
    (ha : RegisteredAs w a n) (hb : RegisteredAs w b n) : a = b :=
  IP.owner_unique h ha.1 ha.2.1 ha.2.2 hb.1 hb.2.1 hb.2.2

/-- every registered nickname has exactly one owner: the live connection whose id is recorded in the
    user entry (`owner`, written when the registration / NICK change was accepted) -/
theorem one_owner {w : World} (h : InvCore w) {n : Str} {u : User}
    (hu : Map.lookup n w.users = some u) :
    ∃ cn, RegisteredAs w cn n ∧ cn.id = u.owner ∧ ∀ cn', RegisteredAs w cn' n → cn' = cn := by
  obtain ⟨cn, hm, hid, ha, hn⟩ := h.userOwned n u hu
  exact ⟨cn, ⟨hm, ha, hn⟩, hid, fun cn' h' => at_most_one_owner h h' ⟨hm, ha, hn⟩⟩

/-- conversely a registered connection has a user entry under its nick, and owns it -/
theorem auth_conn_has_user {w : World} (h : InvCore w) {cn : Conn} (hm : cn ∈ w.conns)
    (ha : cn.authenticated = true) :
    ∃ n u, cn.nick = some n ∧ Map.lookup n w.users = some u ∧ u.owner = cn.id ∧ RegisteredAs w cn n := by
  obtain ⟨n, u, hn, hu, ho⟩ := h.authOwns cn hm ha
  exact ⟨n, u, hn, hu, ho, hm, ha, hn⟩

/-- a connection that is not registered owns nobody: no user entry carries its id -/
theorem unregistered_owns_nobody {w : World} (h : InvCore w) {cn : Conn} (hm : cn ∈ w.conns)
    (ha : cn.authenticated = false) {n : Str} {u : User} (hu : Map.lookup n w.users = some u) :
    u.owner ≠ cn.id := Reg.no_user_of_unauth h hm ha hu

/-! ### a connection that has not registered -/

/-- the only two things a line of an unregistered connection `c` can do to the user table -/
inductive UnregOutcome (c : Nat) (x y : Ctx) : Prop
  /-- still unregistered, user table untouched -/
  | nothing (hu : (y.conn c).authenticated = false) (he : y.w.users = x.w.users)
  /-- registration completed: exactly one new entry, under the connection's own nick, which was free,
      owned by `c` and in no channel -/
  | registered (nick : Str) (u : User) (hfree : Map.lookup nick x.w.users = none) (ho : u.owner = c)
      (hch : u.channels = []) (he : y.w.users = Map.insert nick u x.w.users)
      (ha : (y.conn c).authenticated = true) (hn : (y.conn c).nick = some nick)

/-- Whatever line (any text at all) an unregistered live connection sends:
    * either it is still unregistered and the user table is unchanged, or it has just registered and
      the table grew by exactly its own entry under a nick that was free;
    * the channels are untouched;
    * every user registered before is still registered with a literally identical record. -/
theorem unregistered_no_effect_line {cfg : Cfg} {c : Nat} {s : Str} {x : Ctx}
    (h : InvCore x.w) (hl : Live x.w c) (hu : (x.conn c).authenticated = false) :
    UnregOutcome c x (handleLine cfg c s x) ∧
    (handleLine cfg c s x).w.channels = x.w.channels ∧
    ∀ n u, Map.lookup n x.w.users = some u → Map.lookup n (handleLine cfg c s x).w.users = some u := by
  have r := IP.handleLine_unreg_regEffect (cfg := cfg) (s := s) h hl hu
  refine ⟨?_, r.1, fun n u hn => r.lookup_preserved hn⟩
  rcases r.2 with ⟨he, ha⟩ | ⟨nick, u, hfree, ho, hch, he, ha, hn⟩
  · exact .nothing ha he
  · exact .registered nick u hfree ho hch he ha hn

/-- a registration attempt that is refused or incomplete (the connection is still unregistered
    afterwards) changes nothing in the user table -/
theorem refused_registration_no_effect {cfg : Cfg} {c : Nat} {s : Str} {x : Ctx}
    (h : InvCore x.w) (hl : Live x.w c) (hu : (x.conn c).authenticated = false)
    (hr : ((handleLine cfg c s x).conn c).authenticated = false) :
    (handleLine cfg c s x).w.users = x.w.users ∧ (handleLine cfg c s x).w.channels = x.w.channels := by
  have r := IP.handleLine_unreg_regEffect (cfg := cfg) (s := s) h hl hu
  exact ⟨r.users_eq_of_unauth hr, r.1⟩

/-- the same for the whole operation (handler and settling phase, in which a connection refused for a
    wrong password is closed): in a world satisfying the invariant, a line of an unregistered
    connection leaves the user table unchanged or adds exactly the connection's own new entry; the
    channels are untouched and every registered user keeps its record -/
theorem unregistered_no_effect_step {cfg : Cfg} {w : World} (h : Inv w) {cn : Conn} (hm : cn ∈ w.conns)
    (ha : cn.authenticated = false) (s : Str) :
    ((step cfg w (.line cn.id s)).w.users = w.users ∨
      ∃ nick u, Map.lookup nick w.users = none ∧ u.owner = cn.id ∧ u.channels = [] ∧
        (step cfg w (.line cn.id s)).w.users = Map.insert nick u w.users) ∧
    (step cfg w (.line cn.id s)).w.channels = w.channels ∧
    ∀ n u, Map.lookup n w.users = some u → Map.lookup n (step cfg w (.line cn.id s)).w.users = some u := by
  obtain ⟨e1, e2, _⟩ := IP.step_unreg_line (cfg := cfg) h hm ha s
  have hl : Live w cn.id := ⟨cn, hm, rfl⟩
  have hc : Ctx.conn { w := w } cn.id = cn := Reg.Ctx.conn_of_conn? (IP.conn?_mem h.toInvCore hm)
  have r := IP.handleLine_unreg_regEffect (cfg := cfg) (s := s) (x := { w := w }) h.toInvCore hl
    (by rw [hc]; exact ha)
  rw [e1, e2]
  refine ⟨?_, r.1, fun n u hn => r.lookup_preserved hn⟩
  rcases r.2 with ⟨he, _⟩ | ⟨nick, u, hfree, ho, hch, he, _, _⟩
  · exact Or.inl he
  · exact Or.inr ⟨nick, u, hfree, ho, hch, he⟩

/-- closing a connection that never registered (or whose registration was refused, even if it had
    asked for the nick of a registered user) removes nobody and changes no user, channel or counter -/
theorem unregistered_teardown_no_effect {w : World} (h : InvCore w) {cn : Conn} (hm : cn ∈ w.conns)
    (ha : cn.authenticated = false) :
    (teardown w cn.id).users = w.users ∧ (teardown w cn.id).channels = w.channels ∧
    (teardown w cn.id).wallops = w.wallops ∧ (teardown w cn.id).invisibleCount = w.invisibleCount ∧
    (teardown w cn.id).operatorsCount = w.operatorsCount ∧ (teardown w cn.id).histories = w.histories ∧
    (teardown w cn.id).conns = w.conns.filter (·.id != cn.id) := by
  obtain ⟨a, b, c, d, e, _, f, _, _, _, g, _⟩ := teardown_unauthenticated_noop h hm ha
  exact ⟨a, b, c, d, e, f, g⟩

/-- however an unregistered connection ends (EOF, reset, undecodable or over-long input, or its own
    QUIT), the registered users, channels, WALLOPS audience and WHOWAS records are untouched -/
theorem unregistered_end_no_effect {cfg : Cfg} {w : World} (h : Inv w) {cn : Conn} (hm : cn ∈ w.conns)
    (ha : cn.authenticated = false) {e : Event}
    (he : IP.EndsItself cn.id e) :
    (step cfg w e).w.users = w.users ∧ (step cfg w e).w.channels = w.channels ∧
    (step cfg w e).w.wallops = w.wallops ∧ (step cfg w e).w.histories = w.histories ∧
    (step cfg w e).w.conns = w.conns.filter (·.id != cn.id) := by
  obtain ⟨a, b, c, _, _, f, g⟩ := unregistered_teardown_no_effect h.toInvCore hm ha
  have q := IP.step_self_end (cfg := cfg) h hm he
  exact ⟨q.users.trans a, q.channels.trans b, q.wallops.trans c, q.histories.trans f, q.conns.trans g⟩

/-! ### a registered connection acts only on its own user -/

/-- NICK of a registered connection: the user table changes at most at the old and the new nick;
    the entry that moves is the connection's own (same `owner`), and the new nick was free -/
theorem registered_nick_only_renames_self {cfg : Cfg} {c : Nat} {nick : Str} {msg : Message} {x : Ctx}
    (h : InvCore x.w) (hl : Live x.w c) (ha : (x.conn c).authenticated = true) :
    ∃ old user, (x.conn c).nick = some old ∧ Map.lookup old x.w.users = some user ∧ user.owner = c ∧
      (∀ n, n ≠ old → n ≠ nick →
        Map.lookup n (processNick cfg c nick msg x).w.users = Map.lookup n x.w.users) ∧
      ((processNick cfg c nick msg x).w.users = x.w.users ∨
       (nick ≠ old ∧ Map.lookup nick x.w.users = none ∧
        Map.lookup old (processNick cfg c nick msg x).w.users = none ∧
        ∃ user', Map.lookup nick (processNick cfg c nick msg x).w.users = some user' ∧
          user'.owner = c ∧ user' = { user with source := user'.source })) := by
  obtain ⟨old, user, hn, hu, ho, hcase⟩ := registered_nick_users (cfg := cfg) (nick := nick) (msg := msg) h hl ha
  refine ⟨old, user, hn, hu, ho, registered_nick_only_own_key h hl ha hn, ?_⟩
  rcases hcase with e | ⟨hne, hfree, e⟩
  · exact Or.inl e
  · refine Or.inr ⟨hne, hfree, ?_, { user with source := ((x.conn c).setNick nick).source }, ?_, ho, rfl⟩
    · rw [e, Map.lookup_insert_ne _ _ _ _ hne, Map.lookup_erase_eq]
    · rw [e, Map.lookup_insert_eq]

/-- a nick that is in use is never taken over: NICK to a registered nickname (other than the own one)
    leaves the user table as it is -/
theorem nick_in_use_refused {cfg : Cfg} {c : Nat} {nick : Str} {msg : Message} {x : Ctx}
    (h : InvCore x.w) (hl : Live x.w c) {u : User} (hu : Map.lookup nick x.w.users = some u) :
    (processNick cfg c nick msg x).w.users = x.w.users := by
  cases ha : (x.conn c).authenticated with
  | true =>
    obtain ⟨old, user, _, _, _, hcase⟩ :=
      registered_nick_users (cfg := cfg) (nick := nick) (msg := msg) h hl ha
    rcases hcase with e | ⟨_, hfree, _⟩
    · exact e
    · rw [hu] at hfree; cases hfree
  | false =>
    have hc : Map.contains nick x.w.users = true := (Map.contains_iff _ _).mpr ⟨u, hu⟩
    unfold processNick
    simp only [ha, Bool.not_false, ↓reduceIte, hc, Bool.not_true, Bool.false_eq_true, Ctx.reply_w]

/-- closing any live connection removes at most the user that connection registered itself: every
    user entry under a nick the connection is not registered as is literally unchanged -/
theorem teardown_removes_only_own {w : World} (h : InvCore w) {cn : Conn} (hm : cn ∈ w.conns)
    {m : Str} (hne : ¬ RegisteredAs w cn m) :
    Map.lookup m (teardown w cn.id).users = Map.lookup m w.users :=
  IP.teardown_lookup_other h hm (fun ⟨ha, hn⟩ => hne ⟨hm, ha, hn⟩)

/-- the same at `step` level, for every way a connection can end by itself -/
theorem ending_removes_only_own {cfg : Cfg} {w : World} (h : Inv w) {cn : Conn} (hm : cn ∈ w.conns)
    {e : Event} (he : IP.EndsItself cn.id e)
    {m : Str} (hne : ¬ RegisteredAs w cn m) :
    Map.lookup m (step cfg w e).w.users = Map.lookup m w.users := by
  rw [(IP.step_self_end (cfg := cfg) h hm he).users]
  exact teardown_removes_only_own h.toInvCore hm hne

/-! ### non-vacuity (`Tear.exWorld`: user `a`, owned by the authenticated connection 1; connection 2
    is unauthenticated although its record says nick `a` — the refused-433 situation) -/

open Tear in
example : Inv exWorld ∧ RegisteredAs exWorld exConn1 (str "a") ∧ ¬ RegisteredAs exWorld exConn2 (str "a") :=
  ⟨exWorld_inv, by decide, by decide⟩
open Tear in
example : ∃ cn, RegisteredAs exWorld cn (str "a") ∧ cn.id = 1 :=
  let ⟨cn, h1, h2, _⟩ := one_owner exWorld_invCore (n := str "a") (u := exUser) rfl
  ⟨cn, h1, h2⟩
-- an unregistered connection: NICK to the nick in use, PASS, an unknown command, garbage: no effect
open Tear in
example : Live exWorld 2 ∧ (Ctx.conn { w := exWorld } 2).authenticated = false := ⟨⟨exConn2, by decide, rfl⟩, by decide⟩
open Tear in
example : (handleLine {} 2 (str "NICK a") { w := exWorld }).w.users = exWorld.users ∧
    (handleLine {} 2 (str "USER a 0 * :r") { w := exWorld }).w.users = exWorld.users ∧
    (handleLine {} 2 (str "JOIN #a") { w := exWorld }).w.users = exWorld.users ∧
    (handleLine {} 2 (str ":::") { w := exWorld }).w.users = exWorld.users := by decide
-- the whole operation, including the settling phase that closes a connection with a wrong password
open Tear in
example : (step { password := some (str "pw") } exWorld (.line 2 (str "PASS bad"))).w.users = exWorld.users ∧
    (step { password := some (str "pw") } exWorld (.line 2 (str "PASS bad"))).w.conns.map (·.id) = [1, 2] := by
  decide
open Tear in
example :
    let w1 := (step { password := some (str "pw") } exWorld (.line 2 (str "NICK b"))).w
    let w2 := (step { password := some (str "pw") } w1 (.line 2 (str "PASS bad"))).w
    let w3 := (step { password := some (str "pw") } w2 (.line 2 (str "USER b 0 * :r"))).w
    w3.users = exWorld.users ∧ w3.conns = [exConn1] := by decide
-- ... and a registration that completes adds exactly the own entry
open Tear in
example : Map.keys (handleLine {} 2 (str "USER b 0 * :r")
      (handleLine {} 2 (str "NICK b") { w := exWorld })).w.users = [str "a", str "b"] ∧
    Map.lookup (str "a") (handleLine {} 2 (str "USER b 0 * :r")
      (handleLine {} 2 (str "NICK b") { w := exWorld })).w.users = Map.lookup (str "a") exWorld.users := by
  decide
-- the D3 situation: closing connection 2 (record says nick `a`, not authenticated) keeps user `a`
open Tear in
example : (step {} exWorld (.eof 2)).w.users = exWorld.users ∧ (step {} exWorld (.eof 2)).w.conns = [exConn1] ∧
    (step {} exWorld (.line 2 (str "QUIT"))).w.users = exWorld.users := by decide
example : IP.IsQuitLine (str "QUIT") ∧ IP.IsQuitLine (str "QUIT :bye") :=
  ⟨⟨⟨none, str "QUIT", []⟩, by decide, by decide⟩, ⟨⟨none, str "QUIT", [str "bye"]⟩, by decide, by decide⟩⟩
-- closing connection 1 does remove its own user
open Tear in
example : (step {} exWorld (.eof 1)).w.users = [] := by decide
-- NICK of the registered connection 1: only its own entry moves
example : (Reg.exX4.conn 1).authenticated = true ∧ Map.keys Reg.exX4.w.users = [str "a", str "c"] ∧
    Map.keys (processNick {} 1 (str "b") (Reg.exMsg "b") Reg.exX4).w.users = [str "c", str "b"] ∧
    (processNick {} 1 (str "c") (Reg.exMsg "c") Reg.exX4).w.users = Reg.exX4.w.users := by decide

/-! ### reachable worlds -/
section Reachable

theorem reachable_one_owner {cfg : Cfg} {evs : List Event} (hs : SchedAll cfg evs) {n : Str} {u : User}
    (hu : Map.lookup n (run cfg evs).users = some u) :
    ∃ cn, RegisteredAs (run cfg evs) cn n ∧ cn.id = u.owner ∧
      ∀ cn', RegisteredAs (run cfg evs) cn' n → cn' = cn :=
  one_owner (inv_run hs).toInvCore hu

theorem reachable_at_most_one_owner {cfg : Cfg} {evs : List Event} (hs : SchedAll cfg evs) {n : Str}
    {a b : Conn} (ha : RegisteredAs (run cfg evs) a n) (hb : RegisteredAs (run cfg evs) b n) : a = b :=
  at_most_one_owner (inv_run hs).toInvCore ha hb

/-- in a reachable state, a line of an unregistered connection keeps every registered user -/
theorem reachable_unregistered_no_effect_line {cfg : Cfg} {evs : List Event} (hs : SchedAll cfg evs)
    {c : Nat} {s : Str} (hl : Live (run cfg evs) c)
    (hu : (Ctx.conn { w := run cfg evs } c).authenticated = false) :
    UnregOutcome c { w := run cfg evs } (handleLine cfg c s { w := run cfg evs }) ∧
    ∀ n u, Map.lookup n (run cfg evs).users = some u →
      Map.lookup n (handleLine cfg c s { w := run cfg evs }).w.users = some u :=
  let r := unregistered_no_effect_line (cfg := cfg) (s := s) (x := { w := run cfg evs })
    (inv_run hs).toInvCore hl hu
  ⟨r.1, r.2.2⟩

theorem reachable_ending_removes_only_own {cfg : Cfg} {evs : List Event} (hs : SchedAll cfg evs)
    {cn : Conn} (hm : cn ∈ (run cfg evs).conns) {e : Event}
    (he : IP.EndsItself cn.id e)
    {m : Str} (hne : ¬ RegisteredAs (run cfg evs) cn m) :
    Map.lookup m (step cfg (run cfg evs) e).w.users = Map.lookup m (run cfg evs).users :=
  ending_removes_only_own (inv_run hs) hm he hne

end Reachable

end Irc.C02
