/-
  Property C18, general serialisability, part 3: the sequential step `seqStep` (the sections of one
  command back to back) — it preserves `InvCore` and the set of live connections, it commutes with
  the local updates of other connections; "an unauthenticated connection owns no user"; and the
  LOCAL COMPUTATIONS: what each section of the registration path does to the local components of
  its connection, written as a local update `Upd`.
-/
import Irc.Props.C18GeneralLemmas2b

namespace Irc.C18G

open Irc Irc.Conc Reply Irc.C18F

/-! ### an unauthenticated connection owns no user -/

theorem noOwn_of_invCore {w : World} (h : InvCore w) {d : Nat} {cn : Conn}
    (hc : w.conn? d = some cn) (ha : cn.authenticated = false) : NoOwn d w := by
  intro n u hl ho
  obtain ⟨cn', hm, hid, hauth, _⟩ := h.userOwned n u hl
  have h1 : w.conn? cn'.id = some cn' := Tear.conn?_of_mem h.connsNodup hm
  rw [hid, ho, hc] at h1
  cases h1
  rw [ha] at hauth
  cases hauth

/-! ### the line and its command -/

theorem lineCmd_some {line : Str} {cmd : Command} (h : lineCmd line = some cmd) :
    ∃ msg, Message.parse line = .ok msg ∧ Command.fromMessage msg = .ok cmd := by
  unfold lineCmd at h
  split at h
  · rename_i msg hp
    split at h
    · rename_i cmd' hc
      cases h
      exact ⟨msg, hp, hc⟩
    · cases h
  · cases h

theorem dispatch_prelude {cfg : Cfg} {c : Nat} {msg : Message} {cmd : Command} {x : Ctx}
    {cn cn' : Conn} (hc : x.conn c = cn) (ha : cn.authenticated = false)
    (hp : preludeConn cmd cn = some cn') :
    dispatch cfg c msg cmd x = authenticate cfg c (x.setConn cn') := by
  unfold preludeConn at hp
  split at hp
  · cases hp
    simp only [dispatch, processPass, hc, ha, Bool.not_false, ↓reduceIte]
  · cases hp
    simp only [dispatch, processUser, hc, ha, Bool.not_false, ↓reduceIte]
  · cases hp
    simp only [dispatch, processCap, hc, ha, Bool.not_false, ↓reduceIte]
  · cases hp

theorem prelude_allowed {cmd : Command} {cn cn' : Conn} (hp : preludeConn cmd cn = some cn') :
    allowedUnregistered cmd = true := by
  unfold preludeConn at hp
  split at hp <;> first | rfl | cases hp

/-! ### `seqStep` preserves the invariant of the sequential model -/

theorem seqStep_eq (cfg : Cfg) (split : Bool → Nat → Str → List Section) (c : Nat) (line : Str)
    (τ : CState) :
    seqStep cfg split (c, line) τ = runSections cfg (split (authOf τ c) c line) τ := rfl

theorem seqStep_whole {cfg : Cfg} {split : Bool → Nat → Str → List Section} {c : Nat}
    {line : Str} {τ : CState}
    (h : split (authOf τ c) c line = [.whole c line] ∨
      split (authOf τ c) c line = [.whole c line, .touch c]) :
    seqStep cfg split (c, line) τ = stepSection cfg (.whole c line) τ := by
  rw [seqStep_eq]
  rcases h with e | e
  · simp only [e, runSections_cons, runSections_nil]
  · simp only [e, runSections_cons, runSections_nil, step_touch]

/-- the optional counter section is the optional bump -/
theorem run_cntSec (cfg : Cfg) (c : Nat) (cnt : Option Nat) (L : List Section) (τ : CState) :
    runSections cfg (cntSec c cnt ++ L) τ = runSections cfg L (bumpO cnt τ) := by
  cases cnt with
  | none => rfl
  | some i =>
    simp only [cntSec, List.cons_append, List.nil_append, runSections_cons, step_count]
    rfl

theorem authOf_bumpO (o : Option Nat) (τ : CState) (c : Nat) : authOf (bumpO o τ) c = authOf τ c := by
  cases o <;> rfl

/-- the world after the sections of one command is the world after `handleLine`, or (split
    commands) after the handler without the counter — possibly on the bumped world -/
theorem seqStep_w {cfg : Cfg} {split : Bool → Nat → Str → List Section} (hsh : SplitShape split)
    {c : Nat} {line : Str} {τ : CState} {cn : Conn} (h : τ.w.conn? c = some cn) :
    (seqStep cfg split (c, line) τ).w = (handleLine cfg c line { w := τ.w }).w ∨
    ∃ msg cmd cnt, Command.fromMessage msg = .ok cmd ∧ allowedUnregistered cmd = true ∧
      (seqStep cfg split (c, line) τ).w = (dispatch cfg c msg cmd { w := (bumpO cnt τ).w }).w := by
  have hauth := authOf_of h
  rcases hsh.cases (authOf τ c) c line with
    e | e | ⟨ha, n, cnt, hl, e⟩ | ⟨ha, _, cmd, cnt, hl, hpre, e⟩
  · left; rw [seqStep_whole (.inl e)]; rfl
  · left; rw [seqStep_whole (.inr e)]; rfl
  · right
    obtain ⟨msg, _, hc⟩ := lineCmd_some hl
    refine ⟨msg, .NICK n, cnt, hc, rfl, ?_⟩
    have h' : (bumpO cnt τ).w.conn? c = some cn := (bumpO_conn _ _ _).trans h
    rw [seqStep_eq, e, run_cntSec, run_nickSections msg h' (hauth ▸ ha)]
    rfl
  · right
    obtain ⟨msg, _, hc⟩ := lineCmd_some hl
    obtain ⟨cn', hp⟩ := hpre cn
    refine ⟨msg, cmd, cnt, hc, prelude_allowed hp, ?_⟩
    have ha' : cn.authenticated = false := hauth ▸ ha
    have h' : (bumpO cnt τ).w.conn? c = some cn := (bumpO_conn _ _ _).trans h
    rw [seqStep_eq, e, run_cntSec, run_prelude_commit h' ha' hp,
      dispatch_prelude (x := { w := (bumpO cnt τ).w }) (ctx_conn_of h') ha' hp]
    rfl

theorem invCore_bumpO {τ : CState} (hi : InvCore τ.w) (o : Option Nat) : InvCore (bumpO o τ).w := by
  cases o with
  | none => exact hi
  | some i => exact invCore_bumpCount hi i

theorem invCore_seqStep {cfg : Cfg} {split : Bool → Nat → Str → List Section}
    (hsh : SplitShape split) {c : Nat} {line : Str} {τ : CState}
    (hi : InvCore τ.w) (hl : Live τ.w c) :
    InvCore (seqStep cfg split (c, line) τ).w ∧
      SameConnIds τ.w (seqStep cfg split (c, line) τ).w := by
  obtain ⟨cn, h, _, _⟩ := conn?_of_live hl
  rcases seqStep_w (cfg := cfg) hsh (line := line) h with e | ⟨msg, cmd, cnt, hc, ha, e⟩
  · rw [e]; exact invCore_handleLine (x := { w := τ.w }) hi hl
  · rw [e]
    have hl' : Live (bumpO cnt τ).w c := by cases cnt <;> exact hl
    have hs : SameConnIds τ.w (bumpO cnt τ).w := by cases cnt <;> rfl
    obtain ⟨h1, h2⟩ := invCore_dispatch (cfg := cfg) (msg := msg) (x := { w := (bumpO cnt τ).w })
      (invCore_bumpO hi cnt) hl' hc (.inl ha)
    exact ⟨h1, SameConnIds.trans hs h2⟩

/-- `seqStep` of `c` commutes with the local updates of the other connections (for a whole
    command: where they own no user), none of which carries a pending bump -/
theorem seqStep_comm_applyOn {cfg : Cfg} {split : Bool → Nat → Str → List Section}
    (hsh : SplitShape split) {c : Nat} {line : Str} {cs : List Nat} {e : Nat → Upd}
    {ρ : CState} (hp : ∀ d, (e d).Proper d) (hcn : ∀ d, (e d).cnt = none) (hc : e c = idU)
    (h : ∀ d ∈ cs, e d = idU ∨ (c ≠ d ∧ NoOwn d ρ.w)) :
    seqStep cfg split (c, line) (applyOn cs e ρ) =
      applyOn cs e (seqStep cfg split (c, line) ρ) := by
  have hauth : authOf (applyOn cs e ρ) c = authOf ρ c := by
    simp only [authOf, Ctx.conn, applyOn_conn_id hp hc]
  have hw : stepSection cfg (.whole c line) (applyOn cs e ρ) =
      applyOn cs e (stepSection cfg (.whole c line) ρ) :=
    step_comm_applyOn cfg (s := .whole c line) rfl (fun d hd => by
      rcases h d hd with e0 | ⟨hne, hown⟩
      · exact .inl e0
      · exact .inr ⟨hne, hp d, fun _ => hown, .inl (hcn d)⟩)
  have hreg : ∀ L : List Section, (∀ s ∈ L, isProg s = true ∧ isWhole s = false ∧ s.conn = c) →
      runSections cfg L (applyOn cs e ρ) = applyOn cs e (runSections cfg L ρ) := by
    intro L hL
    refine run_comm_applyOn cfg (c := c) hL (fun d hd => ?_) ρ
    rcases h d hd with e0 | ⟨hne, _⟩
    · exact .inl e0
    · exact .inr ⟨hne, hp d, hcn d⟩
  have hcs : ∀ cnt : Option Nat, ∀ s ∈ cntSec c cnt,
      isProg s = true ∧ isWhole s = false ∧ s.conn = c := by
    intro cnt s hs
    cases cnt with
    | none => cases hs
    | some i =>
      simp only [cntSec, List.mem_cons, List.not_mem_nil, or_false] at hs
      subst hs
      exact ⟨rfl, rfl, rfl⟩
  rcases hsh.cases (authOf ρ c) c line with
    e1 | e1 | ⟨_, n, cnt, _, e1⟩ | ⟨_, _, cmd, cnt, _, _, e1⟩
  · rw [seqStep_whole (.inl (hauth ▸ e1)), seqStep_whole (.inl e1), hw]
  · rw [seqStep_whole (.inr (hauth ▸ e1)), seqStep_whole (.inr e1), hw]
  · rw [seqStep_eq, seqStep_eq, hauth, e1]
    apply hreg
    intro s hs
    rcases List.mem_append.mp hs with hs | hs
    · exact hcs cnt s hs
    · simp only [nickSections, List.mem_cons, List.not_mem_nil, or_false] at hs
      rcases hs with rfl | rfl | rfl <;> exact ⟨rfl, rfl, rfl⟩
  · rw [seqStep_eq, seqStep_eq, hauth, e1]
    apply hreg
    intro s hs
    rcases List.mem_append.mp hs with hs | hs
    · exact hcs cnt s hs
    · simp only [List.mem_cons, List.not_mem_nil, or_false] at hs
      rcases hs with rfl | rfl <;> exact ⟨rfl, rfl, rfl⟩

/-! ### local computations -/

/-- A2 as a local update of the connection whose record is `cn` -/
def decU (cfg : Cfg) (cn : Conn) : Upd :=
  match authDecision cfg cn with
  | .notReady => { pc := some .idle }
  | .maskMismatch =>
    { dir := [Conc.srvLine cfg (str "ERROR: user mask doesn't match")], pc := some .idle }
  | .decided true r => { conn := some { cn with authenticated := true }, pc := some (.toCommit r) }
  | .decided false _ =>
    { conn := some { cn with authenticated := false, quit := true },
      dir := [Conc.srvLine cfg (ErrPasswdMismatch464 cn.clientName)], pc := some .idle }

theorem decideOut_eq (cfg : Cfg) (c : Nat) (cn : Conn) (σ : CState) :
    decideOut cfg c cn σ = (decU cfg cn).app c σ := by
  unfold decideOut decU
  cases authDecision cfg cn with
  | notReady => simp only [Upd.app, setPcO, setConnO, bumpO, CState.addDir_nil]
  | maskMismatch => simp only [Upd.app, setPcO, setConnO, bumpO]
  | decided good r =>
    cases good with
    | true => simp only [Upd.app, setPcO, setConnO, bumpO, CState.addDir_nil]
    | false => simp only [Upd.app, setPcO, setConnO, bumpO]

theorem decU_cnt (cfg : Cfg) (cn : Conn) : (decU cfg cn).cnt = none := by
  unfold decU
  cases authDecision cfg cn with
  | notReady => rfl
  | maskMismatch => rfl
  | decided good r => cases good <;> rfl

theorem decU_proper (cfg : Cfg) (cn : Conn) : (decU cfg cn).Proper cn.id := by
  intro cn' h
  unfold decU at h
  cases hd : authDecision cfg cn with
  | notReady => rw [hd] at h; cases h
  | maskMismatch => rw [hd] at h; cases h
  | decided good r =>
    rw [hd] at h
    cases good <;> (simp only [Option.some.injEq] at h; subst h; rfl)

theorem decU_conn_auth (cfg : Cfg) (cn : Conn) (h : ∀ r, authDecision cfg cn ≠ .decided true r) :
    ((decU cfg cn).conn.getD cn).authenticated = cn.authenticated ∨
    ((decU cfg cn).conn.getD cn).authenticated = false := by
  unfold decU
  cases hd : authDecision cfg cn with
  | notReady => left; rfl
  | maskMismatch => left; rfl
  | decided good r =>
    cases good with
    | true => exact absurd hd (h r)
    | false => right; rfl

theorem decU_pc_idle (cfg : Cfg) (cn : Conn) (h : ∀ r, authDecision cfg cn ≠ .decided true r) :
    (decU cfg cn).pc = some .idle := by
  unfold decU
  cases hd : authDecision cfg cn with
  | notReady => rfl
  | maskMismatch => rfl
  | decided good r =>
    cases good with
    | true => exact absurd hd (h r)
    | false => rfl

/-- the record of `c` after A1 (nick free): `set_nick` -/
def nick1U (n : Str) (cn : Conn) : Upd :=
  { conn := some (cn.setNick n), pc := some .toDecide }

/-- … and after A2 with decision "good" -/
def nick2U (n : Str) (cn : Conn) (r : Bool) : Upd :=
  { conn := some { cn.setNick n with authenticated := true }, pc := some (.toCommit r) }

/-- the local effect of the `prelude` section (connection-local update, then A2) -/
def preU (cfg : Cfg) (cn' : Conn) : Upd :=
  { conn := some ((decU cfg cn').conn.getD cn'), dir := (decU cfg cn').dir, pc := (decU cfg cn').pc }

theorem nick1U_app (n : Str) (cn : Conn) (c : Nat) (σ : CState) :
    (nick1U n cn).app c σ = (σ.setConn (cn.setNick n)).setPc c .toDecide := by
  simp only [nick1U, Upd.app, setPcO, setConnO, bumpO, CState.addDir_nil]

theorem nick2U_app (n : Str) (cn : Conn) (r : Bool) (c : Nat) (σ : CState) :
    (nick2U n cn r).app c σ =
      (σ.setConn { cn.setNick n with authenticated := true }).setPc c (.toCommit r) := by
  simp only [nick2U, Upd.app, setPcO, setConnO, bumpO, CState.addDir_nil]

theorem preU_app (cfg : Cfg) (cn' : Conn) (c : Nat) (σ : CState) :
    (preU cfg cn').app c σ = (decU cfg cn').app c (σ.setConn cn') := by
  have hcnt := decU_cnt cfg cn'
  unfold preU Upd.app setConnO
  simp only [hcnt, bumpO]
  cases hc : (decU cfg cn').conn with
  | none => rfl
  | some cn'' =>
    have hid : cn'.id = cn''.id := (decU_proper cfg cn' cn'' hc).symm
    simp only [Option.getD_some]
    rw [CState.setConn_setConn _ _ _ hid]

/-- A1 with the nick free -/
theorem local_nickCheck_free {cfg : Cfg} {c : Nat} {n : Str} {σ : CState} {cn : Conn}
    (h : σ.w.conn? c = some cn) (ha : cn.authenticated = false)
    (ht : Map.contains n σ.w.users = false) :
    stepSection cfg (.nickCheck c n) σ = (nick1U n cn).app c σ := by
  rw [step_nickCheck_free h ha ht, nick1U_app]

/-- A2 after A1, decision "good" -/
theorem local_authDecide_good {cfg : Cfg} {c : Nat} {n : Str} {σ : CState} {cn : Conn} {r : Bool}
    (h : σ.w.conn? c = some cn)
    (hd : authDecision cfg (cn.setNick n) = .decided true r) :
    stepSection cfg (.authDecide c) ((nick1U n cn).app c σ) = (nick2U n cn r).app c σ := by
  have hid : cn.id = c := conn?_id h
  have hid1 : (cn.setNick n).id = c := hid
  rw [nick1U_app, nick2U_app]
  have h1 : ((σ.setConn (cn.setNick n)).setPc c .toDecide).w.conn? c = some (cn.setNick n) :=
    conn?_setConn_self _ h hid1
  rw [step_authDecide (by simp) h1, decideOut_setPc, decideOut_good hd, CState.setConn_setConn]
  rfl

/-- A2 in general, on the state after A1 -/
theorem local_authDecide {cfg : Cfg} {c : Nat} {σ : CState} {cn1 : Conn}
    (h : σ.w.conn? c = some cn1) (hpc : σ.pc c = .toDecide) :
    stepSection cfg (.authDecide c) σ = (decU cfg cn1).app c σ := by
  rw [step_authDecide hpc h, decideOut_eq]

/-- the `prelude` section -/
theorem local_prelude {cfg : Cfg} {c : Nat} {cmd : Command} {σ : CState} {cn cn' : Conn}
    (h : σ.w.conn? c = some cn) (ha : cn.authenticated = false)
    (hp : preludeConn cmd cn = some cn') :
    stepSection cfg (.prelude c cmd) σ = (preU cfg cn').app c σ := by
  have hid : cn.id = c := conn?_id h
  have h1 : ((σ.setConn cn').setPc c .toDecide).w.conn? c = some cn' :=
    conn?_setConn_self _ h ((preludeConn_id hp).trans hid)
  rw [step_prelude h ha hp, step_authDecide (by simp) h1, decideOut_setPc, decideOut_eq, preU_app]

/-- the skippable sections: with the program counter at `idle`, A2 and A3 are no-ops -/
theorem local_skip {cfg : Cfg} {c : Nat} {s : Section} {σ : CState} (hpc : σ.pc c = .idle)
    (hs : s = .authDecide c ∨ s = .authCommit c ∨ s = .touch c) : stepSection cfg s σ = σ := by
  rcases hs with rfl | rfl | rfl
  · exact step_authDecide_skip (by rw [hpc]; simp)
  · exact step_authCommit_skip (by rw [hpc]; simp)
  · exact step_touch cfg c σ

/-- the whole NICK, nick taken at A1 -/
theorem run_nick_taken_eq {cfg : Cfg} {c : Nat} {n : Str} {σ : CState} {cn : Conn}
    (h : σ.w.conn? c = some cn) (ha : cn.authenticated = false)
    (ht : Map.contains n σ.w.users = true) :
    runSections cfg (nickSections c n) σ = stepSection cfg (.nickCheck c n) σ ∧
    (stepSection cfg (.nickCheck c n) σ).pc c = .idle := by
  simp only [nickSections, runSections_cons, runSections_nil]
  rw [step_nickCheck_taken h ha ht, step_authDecide_skip (by simp), step_authCommit_skip (by simp)]
  exact ⟨rfl, by simp⟩

/-- the whole NICK, nick free at A1, decision not "good": A1, then A2 (a local update) -/
theorem run_nick_notgood_eq {cfg : Cfg} {c : Nat} {n : Str} {σ : CState} {cn : Conn}
    (h : σ.w.conn? c = some cn) (ha : cn.authenticated = false)
    (ht : Map.contains n σ.w.users = false)
    (hd : ∀ r, authDecision cfg (cn.setNick n) ≠ .decided true r) :
    runSections cfg (nickSections c n) σ =
      (decU cfg (cn.setNick n)).app c (stepSection cfg (.nickCheck c n) σ) ∧
    (stepSection cfg (.nickCheck c n) σ).w.conn? c = some (cn.setNick n) ∧
    (stepSection cfg (.nickCheck c n) σ).pc c = .toDecide := by
  have hid : cn.id = c := conn?_id h
  have hid1 : (cn.setNick n).id = c := hid
  simp only [nickSections, runSections_cons, runSections_nil]
  rw [step_nickCheck_free h ha ht]
  have h1 : ((σ.setConn (cn.setNick n)).setPc c .toDecide).w.conn? c = some (cn.setNick n) :=
    conn?_setConn_self _ h hid1
  refine ⟨?_, h1, by simp⟩
  rw [local_authDecide h1 (by simp)]
  apply step_authCommit_skip
  intro r
  rw [Upd.app_pc_self, decU_pc_idle cfg _ hd]
  simp

/-- the whole NICK, nick free, decision "good": A3 on the state after A1 ; A2 -/
theorem run_nick_good_eq {cfg : Cfg} {c : Nat} {n : Str} {σ : CState} {cn : Conn} {r : Bool}
    (h : σ.w.conn? c = some cn) (ha : cn.authenticated = false)
    (ht : Map.contains n σ.w.users = false)
    (hd : authDecision cfg (cn.setNick n) = .decided true r) :
    runSections cfg (nickSections c n) σ =
      stepSection cfg (.authCommit c) ((nick2U n cn r).app c σ) := by
  simp only [nickSections, runSections_cons, runSections_nil]
  rw [local_nickCheck_free h ha ht, local_authDecide_good h hd]

/-- PASS / USER / CAP END: A3 on the state after the prelude -/
theorem run_prelude_eq {cfg : Cfg} {c : Nat} {cmd : Command} {σ : CState} {cn cn' : Conn}
    (h : σ.w.conn? c = some cn) (ha : cn.authenticated = false)
    (hp : preludeConn cmd cn = some cn') :
    runSections cfg [.prelude c cmd, .authCommit c] σ =
      stepSection cfg (.authCommit c) ((preU cfg cn').app c σ) := by
  simp only [runSections_cons, runSections_nil]
  rw [local_prelude h ha hp]

/-! ### local updates with a pending counter bump -/

/-- the same local update, with the pending bump `cnt` -/
def Upd.withCnt (u : Upd) (cnt : Option Nat) : Upd := { u with cnt := cnt }

/-- only the pending bump -/
def cntU (cnt : Option Nat) : Upd := { cnt := cnt }

theorem cntU_none : cntU none = idU := rfl

theorem cntU_app (cnt : Option Nat) (c : Nat) (σ : CState) : (cntU cnt).app c σ = bumpO cnt σ := by
  simp only [cntU, Upd.app, setPcO, setConnO, CState.addDir_nil]

theorem cntU_proper (cnt : Option Nat) (c : Nat) : (cntU cnt).Proper c := by
  intro cn h; cases h

theorem withCnt_app {u : Upd} (h : u.cnt = none) (cnt : Option Nat) (c : Nat) (σ : CState) :
    (u.withCnt cnt).app c σ = u.app c (bumpO cnt σ) := by
  simp only [Upd.withCnt, Upd.app, h, bumpO]

theorem withCnt_proper {u : Upd} {c : Nat} (h : u.Proper c) (cnt : Option Nat) :
    (u.withCnt cnt).Proper c := h

theorem nick1U_cnt (n : Str) (cn : Conn) : (nick1U n cn).cnt = none := rfl
theorem nick2U_cnt (n : Str) (cn : Conn) (r : Bool) : (nick2U n cn r).cnt = none := rfl
theorem preU_cnt (cfg : Cfg) (cn' : Conn) : (preU cfg cn').cnt = none := rfl

end Irc.C18G
