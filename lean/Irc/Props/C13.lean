/-
  Property C13 — message grammar, relay round trip, "never silently misread".

  "Every received line within the length limit is parsed as optional ':'source,
   case-insensitive command, space-separated middle parameters and a final ' :'-introduced
   trailing parameter that may contain spaces and colons, and is then either executed or
   answered with the specific error for an unknown command (421), missing parameters (461) or
   an invalid parameter - never silently misread; empty lines are ignored ... a relayed command
   (PRIVMSG, NOTICE, TOPIC, PART, KICK, NICK, INVITE, WALLOPS, AWAY text), re-parsed by its
   receiver, yields the same command, target and text the originator sent."

  This file holds only: the hypotheses' vocabulary (decidable `Bool` predicates), the
  reference grammar `refParse`, the theorems, and a concrete `decide`-checked instance next to
  every theorem that has hypotheses.  All helper lemmas are in `Irc/Props/C13Lemmas.lean`.
  Every theorem is for ALL inputs (induction over the character list), no bound.

  Findings (each with a kernel-checked witness below):
  * `relay_cr`     — `to_string_with_source` adds the " :" prefix only for ':' ' ' '\t' / empty,
                     but the parser also splits words at '\r', '\x0C' (and '\n'): a last
                     parameter such as "x\ry" is relayed as TWO parameters.
  * `parse_blanks` — TAB / FF / CR inside a line separate words (`split_ascii_whitespace`),
                     and " :" is recognised after any of them; RFC 1459/2812 only knows SPACE.
  * `empty_source` — a lone ":" is accepted as an (empty) source.
-/
import Irc.Props.C13Lemmas
namespace Irc.C13
open Irc Irc.Reply

/-- (part of `empty_ignored`, section C) empty / blank lines are recognised exactly by
    `trim_start` (Unicode aware) -/
theorem parse_empty_iff (l : Str) : Message.parse l = .error .empty ↔ trimStart l = [] := by
  unfold Message.parse
  constructor
  · intro h
    split at h
    · assumption
    · exfalso
      simp only [Message.finish] at h
      repeat' split at h
      all_goals cases h
  · intro h; rw [h]


/-! ## A. The reference grammar

RFC 1459 §2.3.1 / RFC 2812 §2.3.1, for lines whose only blanks are spaces:

    message  =  [ ":" source SPACE+ ] command ( SPACE+ middle )* [ SPACE+ ":" trailing ]
    source   =  run of non-space chars          command = non-empty run of non-space chars
    middle   =  non-empty run of non-space chars not starting with ':'
    trailing =  everything after the first SPACE ":" (any chars, may be empty)

`refTokens` is a left-to-right scanner with two states (in a run of spaces / inside a token);
it does not use `splitTrailing`, `splitOnPred` or `splitAsciiWhitespace`. -/

/-- Scan the rest of a line.  `cur = none`: at least one space was just consumed;
    `cur = some w`: inside a token whose characters so far are `w`.
    Result: the tokens in order, and the trailing text if a token began with ':' . -/
def refTokens : Option Str → Str → List Str × Option Str
  | none, [] => ([], none)
  | some w, [] => ([w], none)
  | none, c :: cs =>
    if c = ' ' then refTokens none cs
    else if c = ':' then ([], some cs)          -- SPACE ':' : the remainder is the trailing
    else refTokens (some [c]) cs
  | some w, c :: cs =>
    if c = ' ' then
      let r := refTokens none cs
      (w :: r.1, r.2)
    else refTokens (some (w ++ [c])) cs

/-- The reference parser: `(source, command, params)`, or `none` when the line has no command.
    Leading spaces are skipped.  The first token of a line that starts with ':' is
    `':' :: source`; the next token is the command; a later token starting with ':' begins the
    trailing (so neither the command after a source nor a middle can start with ':').
    NOTE (finding `empty_source`): like the code, a lone ":" counts as an empty source; the
    RFC wants a non-empty one. -/
def refParse (l : Str) : Option (Option Str × Str × List Str) :=
  match l.dropWhile (· == ' ') with
  | [] => none
  | c0 :: cs =>
    let r := refTokens (some [c0]) cs
    if c0 = ':' then
      match r.1 with
      | src :: cmd :: ms => some (some (src.drop 1), cmd, ms ++ r.2.toList)
      | _ => none
    else
      match r.1 with
      | cmd :: ms => some (none, cmd, ms ++ r.2.toList)
      | [] => none

/-- the source of a line: the run of non-space chars after a leading ':' -/
def refSource (l : Str) : Option Str :=
  match l.dropWhile (· == ' ') with
  | ':' :: cs => some (cs.takeWhile (· != ' '))
  | _ => none

/-- every char of `l` that is whitespace for `char::is_whitespace` (used by `trim_start`) or
    for `u8::is_ascii_whitespace` (used by the word split and the " :" detection) is ' ' -/
def onlySpaces (l : Str) : Bool :=
  l.all (fun c => !(isWhitespace c || isAsciiWhitespace c) || c == ' ')

example : refParse (str "  :n!u@h  PRIVMSG  #a:b   :hi  :there ") =
    some (some (str "n!u@h"), str "PRIVMSG", [str "#a:b", str "hi  :there "]) := by decide
example : refParse (str "join #a,#b k1,k2") =
    some (none, str "join", [str "#a,#b", str "k1,k2"]) := by decide
example : refParse (str ":src :x") = none ∧ refParse (str ":src") = none ∧
    refParse (str "   ") = none := by decide

/-- helper: `refTokens` computes what `splitTrailing` + `splitAsciiWhitespace` compute
    (for a remainder `cs` whose ASCII blanks are all spaces) -/
private theorem refTokens_spec (cs : Str)
    (hcs : ∀ c ∈ cs, isAsciiWhitespace c = true → c = ' ') :
    (∀ w prev, w ≠ [] → WsFree w → isAsciiWhitespace prev = false →
      refTokens (some w) cs =
        (splitAsciiWhitespace (w ++ (splitTrailing prev cs).1), (splitTrailing prev cs).2)) ∧
    refTokens none cs =
      (splitAsciiWhitespace (splitTrailing ' ' cs).1, (splitTrailing ' ' cs).2) := by
  induction cs with
  | nil =>
    refine ⟨?_, ?_⟩
    · intro w prev hne hw _
      simp [refTokens, splitTrailing, saw_word w hne hw]
    · simp [refTokens, splitTrailing, saw_nil]
  | cons c cs ih =>
    obtain ⟨ihS, ihN⟩ := ih (fun d hd => hcs d (List.mem_cons_of_mem _ hd))
    by_cases hc : c = ' '
    · subst hc
      refine ⟨?_, ?_⟩
      · intro w prev hne hw hp
        rw [splitTrailing_cons cs (by simp)]
        simp only [refTokens, if_true]
        rw [saw_word_sep w _ hne hw isAsciiWhitespace_space, ihN]
      · rw [splitTrailing_cons cs (by simp), saw_sep _ isAsciiWhitespace_space]
        simp only [refTokens, if_true]
        rw [ihN]
    · have hws : isAsciiWhitespace c = false := by
        cases h : isAsciiWhitespace c
        · rfl
        · exact absurd (hcs c (List.mem_cons_self ..) h) hc
      refine ⟨?_, ?_⟩
      · intro w prev hne hw hp
        rw [splitTrailing_cons cs (by simp [hp])]
        simp only [refTokens, hc, if_false]
        rw [ihS (w ++ [c]) c (by simp) (hw.append (WsFree.cons hws WsFree.nil)) hws]
        simp
      · by_cases hcol : c = ':'
        · subst hcol
          simp [refTokens, splitTrailing_colon ' ' cs isAsciiWhitespace_space, saw_nil]
        · rw [splitTrailing_cons cs (by simp [hcol])]
          simp only [refTokens, hc, hcol, if_false]
          rw [ihS [c] c (by simp) (WsFree.cons hws WsFree.nil) hws]
          simp

/-- helper: the first token is the current token extended by the next run of non-spaces -/
private theorem refTokens_head (cs w : Str) :
    ∃ ts, (refTokens (some w) cs).1 = (w ++ cs.takeWhile (· != ' ')) :: ts := by
  induction cs generalizing w with
  | nil => exact ⟨[], by simp [refTokens]⟩
  | cons c cs ih =>
    by_cases hc : c = ' '
    · subst hc; exact ⟨(refTokens none cs).1, by simp [refTokens]⟩
    · obtain ⟨ts, h⟩ := ih (w ++ [c])
      exact ⟨ts, by simp [refTokens, hc, h]⟩

/-- helper: `Message.parse` on an only-spaces line, in terms of `refTokens` -/
private theorem parse_via_refTokens (l : Str) (h : onlySpaces l = true) :
    Message.parse l =
      match l.dropWhile (· == ' ') with
      | [] => .error .empty
      | c0 :: cs =>
        let T := refTokens (some [c0]) cs
        if c0 = ':' then
          if validateSource (cs.takeWhile (· != ' ')) = true then
            Message.finish (some (cs.takeWhile (· != ' '))) T.1.tail T.2
          else .error .wrongSource
        else Message.finish none T.1 T.2 := by
  have hl := onlySp_of_all l h
  unfold Message.parse
  rw [trimStart_onlySp l hl]
  cases hd : l.dropWhile (· == ' ') with
  | nil => rfl
  | cons c0 cs =>
    obtain ⟨hc0, hsub⟩ := dropWhile_sp_cons l c0 cs hd
    have hw0 : isAsciiWhitespace c0 = false := by
      cases hw : isAsciiWhitespace c0
      · rfl
      · exact absurd (hl c0 (hsub c0 (List.mem_cons_self ..)) (Or.inr hw)) hc0
    have hcs : ∀ c ∈ cs, isAsciiWhitespace c = true → c = ' ' :=
      fun c hc hw => hl c (hsub c (List.mem_cons_of_mem _ hc)) (Or.inr hw)
    have hT := (refTokens_spec cs hcs).1 [c0] c0 (by simp) (WsFree.cons hw0 WsFree.nil) hw0
    obtain ⟨ts, hts⟩ := refTokens_head cs [c0]
    simp only [List.singleton_append] at hT hts
    rw [hT] at hts
    simp only at hts
    simp only [hT]
    by_cases hcol : c0 = ':'
    · subst hcol
      simp only [hts, beq_self_eq_true, if_true, List.drop_one, List.tail_cons]
      cases validateSource (List.takeWhile (fun x => x != ' ') cs) <;> simp
    · simp [hcol]

/-- **`parse_eq_ref`** — for every line whose only blanks are spaces the code accepts exactly
    what the reference grammar accepts, with the same source, command and parameters, provided
    the source (if any) passes `validate_source`.

    Choice of formulation: the source check is the only thing `from_shared_str` does beyond
    the grammar, so instead of ASSUMING a valid source the statement carries it as a conjunct
    on the right-hand side (`Option.all`: vacuous without source).  This is an `iff` without
    any hypothesis other than `onlySpaces`, hence also gives: a line that is grammatical but
    has an invalid source is NOT accepted, and a line the grammar rejects is never accepted.
    The three error results are characterised in `parse_error_*_ref` below; the four theorems
    together determine `Message.parse l` for every only-spaces line. -/
theorem parse_eq_ref (l : Str) (h : onlySpaces l = true) (src : Option Str) (cmd : Str)
    (ps : List Str) :
    Message.parse l = .ok ⟨src, cmd, ps⟩ ↔
      refParse l = some (src, cmd, ps) ∧ src.all validateSource = true := by
  rw [parse_via_refTokens l h]
  unfold refParse
  split
  · simp
  · rename_i c0 cs hd
    obtain ⟨ts, hts⟩ := refTokens_head cs [c0]
    by_cases hcol : c0 = ':'
    · subst hcol
      simp only [if_true, hts, List.tail_cons, List.singleton_append, List.drop_one]
      cases ts with
      | nil =>
        cases validateSource (List.takeWhile (fun x => x != ' ') cs) <;> simp [Message.finish]
      | cons cmd' ms =>
        rw [finish_cons]
        cases hv : validateSource (List.takeWhile (fun x => x != ' ') cs)
        · simp only [Bool.false_eq_true, if_false, reduceCtorEq, false_iff, not_and,
            Option.some.injEq, Prod.mk.injEq]
          rintro ⟨rfl, -, -⟩
          simp [hv]
        · simp only [if_true, Except.ok.injEq, Message.mk.injEq, Option.some.injEq,
            Prod.mk.injEq]
          constructor
          · rintro ⟨rfl, rfl, rfl⟩; exact ⟨⟨rfl, rfl, rfl⟩, by simp [hv]⟩
          · rintro ⟨⟨rfl, rfl, rfl⟩, -⟩; exact ⟨rfl, rfl, rfl⟩
    · simp only [hcol, if_false, hts]
      rw [finish_cons]
      simp only [Except.ok.injEq, Message.mk.injEq, Option.some.injEq, Prod.mk.injEq]
      constructor
      · rintro ⟨rfl, rfl, rfl⟩; exact ⟨⟨rfl, rfl, rfl⟩, rfl⟩
      · rintro ⟨⟨rfl, rfl, rfl⟩, -⟩; exact ⟨rfl, rfl, rfl⟩

/-- instance: blanks doubled, colons inside a middle and inside the trailing -/
example : onlySpaces (str " :n!u@h  PRIVMSG #a:b  :hi  :there ") = true ∧
    refParse (str " :n!u@h  PRIVMSG #a:b  :hi  :there ") =
      some (some (str "n!u@h"), str "PRIVMSG", [str "#a:b", str "hi  :there "]) ∧
    Message.parse (str " :n!u@h  PRIVMSG #a:b  :hi  :there ") =
      .ok ⟨some (str "n!u@h"), str "PRIVMSG", [str "#a:b", str "hi  :there "]⟩ := by decide

/-- `.error .empty` iff the line is empty or all spaces -/
theorem parse_error_empty_ref (l : Str) (h : onlySpaces l = true) :
    Message.parse l = .error .empty ↔ l.all (· == ' ') = true := by
  rw [parse_empty_iff, trimStart_onlySp l (onlySp_of_all l h), dropWhile_sp_eq_nil]

example : onlySpaces (str "    ") = true ∧ (str "    ").all (· == ' ') = true ∧
    Message.parse (str "    ") = .error .empty := by decide

/-- `.error .wrongSource` iff there is a source and it fails `validate_source`
    (checked BEFORE the presence of a command) -/
theorem parse_error_wrongSource_ref (l : Str) (h : onlySpaces l = true) :
    Message.parse l = .error .wrongSource ↔
      ∃ s, refSource l = some s ∧ validateSource s = false := by
  rw [parse_via_refTokens l h]
  unfold refSource
  split
  · rename_i hd; simp [hd]
  · rename_i c0 cs hd
    obtain ⟨ts, hts⟩ := refTokens_head cs [c0]
    rw [hd]
    by_cases hcol : c0 = ':'
    · subst hcol
      simp only [if_true, hts, List.tail_cons, Option.some.injEq, exists_eq_left']
      cases hv : validateSource (List.takeWhile (fun x => x != ' ') cs)
      · simp
      · cases ts <;> simp [Message.finish]
    · simp only [hcol, if_false, hts, finish_cons]
      constructor
      · intro h'; cases h'
      · rintro ⟨s, hs, -⟩
        split at hs
        · rename_i heq; cases heq; exact absurd rfl hcol
        · cases hs

/-- `.error .noCommand` iff only a (valid) source is present -/
theorem parse_error_noCommand_ref (l : Str) (h : onlySpaces l = true) :
    Message.parse l = .error .noCommand ↔
      ∃ s, refSource l = some s ∧ validateSource s = true ∧ refParse l = none := by
  rw [parse_via_refTokens l h]
  unfold refSource refParse
  split
  · rename_i hd; simp [hd]
  · rename_i c0 cs hd
    obtain ⟨ts, hts⟩ := refTokens_head cs [c0]
    rw [hd]
    by_cases hcol : c0 = ':'
    · subst hcol
      simp only [if_true, hts, List.tail_cons, Option.some.injEq, exists_eq_left']
      cases hv : validateSource (List.takeWhile (fun x => x != ' ') cs)
      · simp
      · cases ts <;> simp [Message.finish]
    · simp only [hcol, if_false, hts, finish_cons]
      constructor
      · intro h'; cases h'
      · rintro ⟨s, hs, -⟩
        split at hs
        · rename_i heq; cases heq; exact absurd rfl hcol
        · cases hs

example : onlySpaces (str " :a:b  X") = true ∧ refSource (str " :a:b  X") = some (str "a:b") ∧
    validateSource (str "a:b") = false ∧
    Message.parse (str " :a:b  X") = .error .wrongSource := by decide
example : onlySpaces (str ":n!u@h   :x y") = true ∧
    refSource (str ":n!u@h   :x y") = some (str "n!u@h") ∧ refParse (str ":n!u@h   :x y") = none ∧
    Message.parse (str ":n!u@h   :x y") = .error .noCommand := by decide

/-- FINDING `empty_source`: ":" alone is taken as an empty source. -/
example : Message.parse (str ": PING x") = .ok ⟨some [], str "PING", [str "x"]⟩ := by decide

/-- **`parse_blanks`** — outside the `onlySpaces` fragment the code is more liberal than the
    RFC: `split_ascii_whitespace` separates words at TAB, FF, CR (and LF) as well, and the
    trailing is recognised after any of them; VT (0x0B) and the non-ASCII Unicode blanks are
    ordinary characters inside a line (but `trim_start` removes them at the beginning). -/
theorem parse_blanks :
    Message.parse (str "JOIN\t#a") = .ok ⟨none, str "JOIN", [str "#a"]⟩ ∧
    Message.parse (str "JOIN\x0C#a\r#b") = .ok ⟨none, str "JOIN", [str "#a", str "#b"]⟩ ∧
    Message.parse (str "PRIVMSG #a\t:x y") = .ok ⟨none, str "PRIVMSG", [str "#a", str "x y"]⟩ ∧
    Message.parse (str "JOIN\x0B#a") = .ok ⟨none, str "JOIN\x0B#a", []⟩ ∧
    Message.parse (str "\x0B  JOIN #a") = .ok ⟨none, str "JOIN", [str "#a"]⟩ ∧
    onlySpaces (str "JOIN\t#a") = false := by decide

/-! ## B. Relay round trip -/

/-- no ASCII whitespace (`u8::is_ascii_whitespace`: ' ' \t \n \x0C \r) in `s` -/
def noAsciiWs (s : Str) : Bool := s.all (fun c => !isAsciiWhitespace c)

/-- a middle parameter: non-empty, no ASCII whitespace, does not start with ':' -/
def wellFormedMiddle (p : Str) : Bool := !p.isEmpty && noAsciiWs p && !startsWithChar ':' p

/-- a command word: non-empty, no ASCII whitespace, does not start with ':' -/
def wellFormedCommand (c : Str) : Bool := !c.isEmpty && noAsciiWs c && !startsWithChar ':' c

/-- a source: non-empty, no whitespace of either kind, accepted by `validate_source`
    (the theorems below actually use only "no ASCII whitespace" and `validateSource`). -/
def wellFormedSource (s : Str) : Bool :=
  !s.isEmpty && s.all (fun c => !isWhitespace c && !isAsciiWhitespace c) && validateSource s

/-- a trailing text: a single line.  (NOT needed by any theorem below: the parser takes
    everything after the first " :" whatever it contains; the predicate is only what the
    line framing guarantees.) -/
def wellFormedTrailing (t : Str) : Bool := t.all (fun c => c != '\n')

/-- the test in `Message::to_string_with_source` that makes the last parameter `" :last"` -/
def getsColonPrefix (t : Str) : Bool :=
  t.any (fun c => c == ':' || c == ' ' || c == '\t') || t.isEmpty

/-- the WEAKEST condition on the last parameter under which the round trip holds
    (`relay_roundtrip` proves sufficiency, `relay_roundtrip_last_necessary` necessity):
    it is rendered with " :" (then it may be ANY text), or it contains no ASCII whitespace.
    What is excluded: a text without ':' ' ' '\t' that contains '\r', '\x0C' or '\n'. -/
def wellFormedLast (t : Str) : Bool := getsColonPrefix t || noAsciiWs t

/-- all parameters but the last are middles, the last one is `wellFormedLast` -/
def wellFormedParams (ps : List Str) : Bool :=
  ps.dropLast.all wellFormedMiddle &&
  (match ps.getLast? with
   | none => true
   | some t => wellFormedLast t)

/-- every middle is a possible last parameter, and so is every text that contains a blank or
    a colon, and the empty text -/
theorem wellFormedLast_of_middle (t : Str) (h : wellFormedMiddle t = true) :
    wellFormedLast t = true := by
  simp only [wellFormedMiddle, wellFormedLast, Bool.and_eq_true, Bool.or_eq_true] at h ⊢
  exact Or.inr h.1.2

theorem relay_roundtrip (m : Message) (s : Str)
    (hs : wellFormedSource s = true) (hc : wellFormedCommand m.command = true)
    (hp : wellFormedParams m.params = true) :
    Message.parse (m.render s) =
      .ok { source := some s, command := m.command, params := m.params } := by
  obtain ⟨hs1, hs2⟩ := source_of_bools s hs
  simp only [wellFormedParams, Bool.and_eq_true, List.all_eq_true] at hp
  refine parse_render m s hs1 hs2 (word_of_bools _ hc) (paramsOk_of _ ?_ ?_)
  · intro p hp'; exact word_of_bools p (hp.1 p hp')
  · intro t ht
    have h2 := hp.2
    rw [ht] at h2
    simp only [wellFormedLast, Bool.or_eq_true] at h2
    rcases h2 with h2 | h2
    · exact Or.inl h2
    · exact Or.inr (wsFree_of_all t h2)

/-- instance: a TOPIC relay whose text contains blanks, colons and even a CR -/
example : wellFormedSource (str "nick!~u@host") = true ∧
    wellFormedCommand (str "TOPIC") = true ∧
    wellFormedParams [str "#a:b", str "hi :there\r x"] = true ∧
    Message.parse ((Message.mk none (str "TOPIC") [str "#a:b", str "hi :there\r x"]).render
      (str "nick!~u@host")) =
      .ok ⟨some (str "nick!~u@host"), str "TOPIC", [str "#a:b", str "hi :there\r x"]⟩ := by
  decide

/-- FINDING `relay_cr`: a last parameter with '\r' (or '\x0C', '\n') but none of ':' ' ' '\t'
    is rendered without " :" and re-parsed as TWO parameters.  Reachable end to end:
    the line `TOPIC #a :x\ry` is parsed with topic "x\ry" and relayed by `msg.render`. -/
example : Message.parse (str "TOPIC #a :x\ry") = .ok ⟨none, str "TOPIC", [str "#a", str "x\ry"]⟩ ∧
    (Message.mk none (str "TOPIC") [str "#a", str "x\ry"]).render (str "n") =
      str ":n TOPIC #a x\ry" ∧
    Message.parse ((Message.mk none (str "TOPIC") [str "#a", str "x\ry"]).render (str "n")) =
      .ok ⟨some (str "n"), str "TOPIC", [str "#a", str "x", str "y"]⟩ ∧
    Message.parse ((Message.mk none (str "TOPIC") [str "#a", str "x\x0Cy"]).render (str "n")) =
      .ok ⟨some (str "n"), str "TOPIC", [str "#a", str "x", str "y"]⟩ ∧
    wellFormedLast (str "x\ry") = false := by
  decide

/-- What the receiver really gets when the last parameter `t` is written without " :"
    (no ':' ' ' '\t' in it, not empty): `t` is split again at its ASCII blanks. -/
theorem relay_reparse_unprefixed (m : Message) (s : Str) (ms : List Str) (t : Str)
    (hs : wellFormedSource s = true) (hc : wellFormedCommand m.command = true)
    (hp : m.params = ms ++ [t]) (hms : ms.all wellFormedMiddle = true)
    (ht : getsColonPrefix t = false) :
    Message.parse (m.render s) =
      .ok ⟨some s, m.command, ms ++ splitAsciiWhitespace t⟩ := by
  obtain ⟨hs1, hs2⟩ := source_of_bools s hs
  exact parse_render_unprefixed m s ms t hs1 hs2 (word_of_bools _ hc) hp
    (fun p hp' => word_of_bools p (List.all_eq_true.mp hms p hp')) ht

/-- `wellFormedLast` is NECESSARY for the round trip (so `relay_roundtrip` has the weakest
    possible hypothesis on the last parameter). -/
theorem relay_roundtrip_last_necessary (m : Message) (s : Str) (ms : List Str) (t : Str)
    (hs : wellFormedSource s = true) (hc : wellFormedCommand m.command = true)
    (hp : m.params = ms ++ [t]) (hms : ms.all wellFormedMiddle = true)
    (hrt : Message.parse (m.render s) = .ok ⟨some s, m.command, m.params⟩) :
    wellFormedLast t = true := by
  cases hg : getsColonPrefix t
  · have h := relay_reparse_unprefixed m s ms t hs hc hp hms hg
    rw [hrt, hp] at h
    simp only [Except.ok.injEq, Message.mk.injEq, true_and] at h
    have h' := List.append_cancel_left h
    have hmem : t ∈ splitAsciiWhitespace t := by rw [← h']; exact List.mem_singleton.mpr rfl
    have := (saw_wsFree t t hmem).1
    simp only [wellFormedLast, noAsciiWs, all_of_wsFree t this, Bool.or_true]
  · simp [wellFormedLast, hg]

example : wellFormedSource (str "n") = true ∧ wellFormedCommand (str "TOPIC") = true ∧
    [str "#a"].all wellFormedMiddle = true ∧ getsColonPrefix (str "x\ry\x0C\nz") = false ∧
    Message.parse ((Message.mk none (str "TOPIC") ([str "#a"] ++ [str "x\ry\x0C\nz"])).render
      (str "n")) = .ok ⟨some (str "n"), str "TOPIC", [str "#a", str "x", str "y", str "z"]⟩ := by
  decide

/-- Every message that `Message.parse` returns is well formed: command and all parameters
    but the last are words (non-empty, blank-free, not starting with ':'), the source is
    blank-free and valid.  (The last parameter is the trailing, if there was one: any text.) -/
theorem parse_wellFormed (l : Str) (m : Message) (h : Message.parse l = .ok m) :
    wellFormedCommand m.command = true ∧ m.params.dropLast.all wellFormedMiddle = true ∧
    (∀ s, m.source = some s → noAsciiWs s = true ∧ validateSource s = true) := by
  obtain ⟨h1, h2, h3⟩ := Irc.C13.parse_wellFormed_raw l m h
  refine ⟨bools_of_word _ h1, List.all_eq_true.mpr (fun p hp => bools_of_word p (h2 p hp)), ?_⟩
  intro s hs
  exact ⟨all_of_wsFree s (h3 s hs).1, (h3 s hs).2⟩

/-- The relays built with `msg.render cn.source` (TOPIC, INVITE, NICK, WALLOPS: the handler
    re-emits the message it has just parsed): whatever line `l` the originator sent, if it
    parsed to `m` then every receiver re-parsing the relayed line gets the same command and the
    same parameters (and the relaying user as source) — provided the last parameter is
    `wellFormedLast` (see finding `relay_cr` for the only exception). -/
theorem relay_of_parsed (l : Str) (m : Message) (s : Str) (h : Message.parse l = .ok m)
    (hs : wellFormedSource s = true)
    (hlast : ∀ t, m.params.getLast? = some t → wellFormedLast t = true) :
    Message.parse (m.render s) = .ok { m with source := some s } := by
  obtain ⟨h1, h2, -⟩ := parse_wellFormed l m h
  refine relay_roundtrip m s hs h1 ?_
  simp only [wellFormedParams, h2, Bool.true_and]
  cases hl : m.params.getLast? with
  | none => rfl
  | some t => exact hlast t hl

example : Message.parse (str "topic  #a:b\t :new  topic: x") =
      .ok ⟨none, str "topic", [str "#a:b", str "new  topic: x"]⟩ ∧
    wellFormedSource (str "n!~u@h") = true ∧ wellFormedLast (str "new  topic: x") = true ∧
    Message.parse ((Message.mk none (str "topic") [str "#a:b", str "new  topic: x"]).render
      (str "n!~u@h")) =
      .ok ⟨some (str "n!~u@h"), str "topic", [str "#a:b", str "new  topic: x"]⟩ := by decide

/-! ### the `format!`-built relays of the handlers

`Ctx.sendDisplay` / `Ctx.replySrc` build `":" ++ source ++ " " ++ text`.  The texts below are
literally the ones of `Irc/HRest.lean` (`privmsgTarget`), `Irc/HChannel.lean` (`processPart`,
`processKick`, `joinAnnounce`) and `Irc/HQuery.lean` (`modeAnnouncement`).  There is NO
hypothesis on the relayed text / reason / comment: any characters at all. -/

/-- `feed_msg_source` / `send_msg_display` -/
def relayLine (src t : Str) : Str := ':' :: (src ++ ' ' :: t)

example (x : Ctx) (nick src t : Str) : x.sendDisplay nick src t = x.send nick (relayLine src t) :=
  rfl

private theorem relay_generic (src verb : Str) (ms : List Str) (tr : Option Str)
    (hs : wellFormedSource src = true) (hv : Word verb) (hms : ∀ m ∈ ms, Word m) :
    Message.parse (relayLine src (verb ++ (middlesStr ms ++ trailingStr tr))) =
      .ok ⟨some src, verb, ms ++ tr.toList⟩ := by
  obtain ⟨hs1, hs2⟩ := source_of_bools src hs
  have := parse_canonical src verb ms tr hs1 hs2 hv hms
  simpa [relayLine] using this

theorem relay_privmsg_notice (notice : Bool) (src target text : Str)
    (hs : wellFormedSource src = true) (ht : wellFormedMiddle target = true) :
    Message.parse (relayLine src
      ((if notice then str "NOTICE " else str "PRIVMSG ") ++ target ++ str " :" ++ text)) =
      .ok ⟨some src, if notice then str "NOTICE" else str "PRIVMSG", [target, text]⟩ := by
  have h := relay_generic src (if notice then str "NOTICE" else str "PRIVMSG") [target]
    (some text) hs (by cases notice <;> exact word_of_bools _ (by decide))
    (by intro m hm; rw [List.mem_singleton.mp hm]; exact word_of_bools _ ht)
  refine (congrArg Message.parse ?_).trans h
  have e1 : str "NOTICE " = str "NOTICE" ++ [' '] := by decide
  have e2 : str "PRIVMSG " = str "PRIVMSG" ++ [' '] := by decide
  cases notice <;> simp [e1, e2, str_space_colon, middlesStr, trailingStr]

example : wellFormedSource (str "a!~b@c") = true ∧ wellFormedMiddle (str "@#chan") = true ∧
    Message.parse (relayLine (str "a!~b@c") (str "PRIVMSG " ++ str "@#chan" ++ str " :" ++
      str ":-) see  http://x :y\t")) =
      .ok ⟨some (str "a!~b@c"), str "PRIVMSG", [str "@#chan", str ":-) see  http://x :y\t"]⟩ := by
  decide

/-- ... and the receiver's command layer sees the same verb, target and text. -/
theorem relay_privmsg_command (src target text : Str) :
    Command.parseFromMessage ⟨some src, str "PRIVMSG", [target, text]⟩ =
      .ok (.PRIVMSG (splitComma target) text) ∧
    Command.parseFromMessage ⟨some src, str "NOTICE", [target, text]⟩ =
      .ok (.NOTICE (splitComma target) text) := ⟨rfl, rfl⟩

theorem relay_part_reason (src chan reason : Str)
    (hs : wellFormedSource src = true) (ht : wellFormedMiddle chan = true) :
    Message.parse (relayLine src (str "PART " ++ chan ++ str " :" ++ reason)) =
      .ok ⟨some src, str "PART", [chan, reason]⟩ := by
  have h := relay_generic src (str "PART") [chan] (some reason) hs (word_of_bools _ (by decide))
    (by intro m hm; rw [List.mem_singleton.mp hm]; exact word_of_bools _ ht)
  refine (congrArg Message.parse ?_).trans h
  have e1 : str "PART " = str "PART" ++ [' '] := by decide
  simp [e1, str_space_colon, middlesStr, trailingStr]

theorem relay_part (src chan : Str)
    (hs : wellFormedSource src = true) (ht : wellFormedMiddle chan = true) :
    Message.parse (relayLine src (str "PART " ++ chan)) = .ok ⟨some src, str "PART", [chan]⟩ := by
  have h := relay_generic src (str "PART") [chan] none hs (word_of_bools _ (by decide))
    (by intro m hm; rw [List.mem_singleton.mp hm]; exact word_of_bools _ ht)
  refine (congrArg Message.parse ?_).trans h
  have e1 : str "PART " = str "PART" ++ [' '] := by decide
  simp [e1, middlesStr, trailingStr]

example : wellFormedSource (str "n") = true ∧ wellFormedMiddle (str "&loc") = true ∧
    Message.parse (relayLine (str "n") (str "PART " ++ str "&loc" ++ str " :" ++ str "")) =
      .ok ⟨some (str "n"), str "PART", [str "&loc", str ""]⟩ ∧
    Message.parse (relayLine (str "n") (str "PART " ++ str "&loc")) =
      .ok ⟨some (str "n"), str "PART", [str "&loc"]⟩ := by
  decide

theorem relay_part_command (src chan : Str) (reason : Option Str) :
    Command.parseFromMessage ⟨some src, str "PART", chan :: reason.toList⟩ =
      .ok (.PART (splitComma chan) reason) := by
  cases reason <;> rfl

theorem relay_kick (src chan nick comment : Str)
    (hs : wellFormedSource src = true) (hc : wellFormedMiddle chan = true)
    (hn : wellFormedMiddle nick = true) :
    Message.parse (relayLine src (str "KICK " ++ chan ++ [' '] ++ nick ++ str " :" ++ comment)) =
      .ok ⟨some src, str "KICK", [chan, nick, comment]⟩ := by
  have h := relay_generic src (str "KICK") [chan, nick] (some comment) hs
    (word_of_bools _ (by decide))
    (by
      intro m hm
      rcases List.mem_cons.mp hm with rfl | hm
      · exact word_of_bools _ hc
      · rw [List.mem_singleton.mp hm]; exact word_of_bools _ hn)
  refine (congrArg Message.parse ?_).trans h
  have e1 : str "KICK " = str "KICK" ++ [' '] := by decide
  simp [e1, str_space_colon, middlesStr, trailingStr]

example : wellFormedSource (str "op!~o@h") = true ∧ wellFormedMiddle (str "#c") = true ∧
    wellFormedMiddle (str "bad:guy") = true ∧
    Message.parse (relayLine (str "op!~o@h")
      (str "KICK " ++ str "#c" ++ [' '] ++ str "bad:guy" ++ str " :" ++ str "out: now ")) =
      .ok ⟨some (str "op!~o@h"), str "KICK", [str "#c", str "bad:guy", str "out: now "]⟩ := by
  decide

theorem relay_kick_command (src chan nick comment : Str) :
    Command.parseFromMessage ⟨some src, str "KICK", [chan, nick, comment]⟩ =
      .ok (.KICK chan (splitComma nick) (some comment)) := rfl

theorem relay_join (src chan : Str)
    (hs : wellFormedSource src = true) (ht : wellFormedMiddle chan = true) :
    Message.parse (relayLine src (str "JOIN " ++ chan)) = .ok ⟨some src, str "JOIN", [chan]⟩ := by
  have h := relay_generic src (str "JOIN") [chan] none hs (word_of_bools _ (by decide))
    (by intro m hm; rw [List.mem_singleton.mp hm]; exact word_of_bools _ ht)
  refine (congrArg Message.parse ?_).trans h
  have e1 : str "JOIN " = str "JOIN" ++ [' '] := by decide
  simp [e1, middlesStr, trailingStr]

example : wellFormedSource (str "n!~u@h") = true ∧ wellFormedMiddle (str "#a:b") = true ∧
    Message.parse (relayLine (str "n!~u@h") (str "JOIN " ++ str "#a:b")) =
      .ok ⟨some (str "n!~u@h"), str "JOIN", [str "#a:b"]⟩ := by decide

/-- MODE announcements `"MODE " ++ target ++ " " ++ modestring (++ " " ++ arg)*`
    (`modeAnnouncement`: `ms ++ ' ' :: paramsStr.drop 1` with `paramsStr = " a1 .. an"`). -/
theorem relay_mode (src target modestr : Str) (args : List Str)
    (hs : wellFormedSource src = true) (ht : wellFormedMiddle target = true)
    (hm : wellFormedMiddle modestr = true) (ha : args.all wellFormedMiddle = true) :
    Message.parse (relayLine src
      (str "MODE " ++ target ++ ' ' :: (modestr ++ args.flatMap (fun a => ' ' :: a)))) =
      .ok ⟨some src, str "MODE", target :: modestr :: args⟩ := by
  have h := relay_generic src (str "MODE") (target :: modestr :: args) none hs
    (word_of_bools _ (by decide))
    (by
      intro m hm'
      rcases List.mem_cons.mp hm' with rfl | hm'
      · exact word_of_bools _ ht
      · rcases List.mem_cons.mp hm' with rfl | hm'
        · exact word_of_bools _ hm
        · exact word_of_bools _ (List.all_eq_true.mp ha m hm'))
  have e : ∀ l : List Str, middlesStr l = l.flatMap (fun a => ' ' :: a) := by
    intro l; induction l with
    | nil => rfl
    | cons a l ih => simp [middlesStr, ih]
  have e1 : str "MODE " = str "MODE" ++ [' '] := by decide
  simp only [Option.toList_none, List.append_nil] at h
  refine (congrArg Message.parse ?_).trans h
  simp [e1, e, middlesStr, trailingStr]

example : wellFormedSource (str "op") = true ∧ wellFormedMiddle (str "#c") = true ∧
    wellFormedMiddle (str "+ok-v") = true ∧
    [str "bob", str "key", str "al"].all wellFormedMiddle = true ∧
    Message.parse (relayLine (str "op") (str "MODE " ++ str "#c" ++ ' ' ::
      (str "+ok-v" ++ [str "bob", str "key", str "al"].flatMap (fun a => ' ' :: a)))) =
      .ok ⟨some (str "op"), str "MODE", [str "#c", str "+ok-v", str "bob", str "key", str "al"]⟩ := by
  decide

/-- AWAY text: it reaches the other side inside `301 client nick :text` (`Ctx.reply` prefixes
    `":" server " "`); any text. -/
theorem relay_away (server client nick text : Str)
    (hs : wellFormedSource server = true) (hc : wellFormedMiddle client = true)
    (hn : wellFormedMiddle nick = true) :
    Message.parse (relayLine server (RplAway301 client nick text)) =
      .ok ⟨some server, str "301", [client, nick, text]⟩ := by
  have h := relay_generic server (str "301") [client, nick] (some text) hs
    (word_of_bools _ (by decide))
    (by
      intro m hm
      rcases List.mem_cons.mp hm with rfl | hm
      · exact word_of_bools _ hc
      · rw [List.mem_singleton.mp hm]; exact word_of_bools _ hn)
  refine (congrArg Message.parse ?_).trans h
  have e1 : str "301 " = str "301" ++ [' '] := by decide
  simp [RplAway301, e1, str_space_colon, str_space, middlesStr, trailingStr]

example (x : Ctx) (cfg : Cfg) (t : Str) :
    x.reply cfg t = { x with direct := x.direct ++ [relayLine cfg.name t] } := rfl

example : wellFormedSource (str "irc.irc") = true ∧ wellFormedMiddle (str "bob") = true ∧
    wellFormedMiddle (str "al") = true ∧
    Message.parse (relayLine (str "irc.irc") (RplAway301 (str "bob") (str "al") (str "gone: back  soon"))) =
      .ok ⟨some (str "irc.irc"), str "301", [str "bob", str "al", str "gone: back  soon"]⟩ := by
  decide

/-! ## C. Command layer: every line is executed or answered -/

/-- the numeric (or `ERROR :`) each command error is answered with -/
def errorPrefix : CommandError → Str
  | .unknownCommand _ => str "421 "
  | .needMoreParams _ => str "461 "
  | .unknownMode .. => str "472 "
  | .unknownUModeFlag _ => str "501 "
  | .invalidModeParam .. => str "696 "
  | .unknownSubcommand .. | .parameterDoesntMatch .. | .wrongParameter .. => str "ERROR :"

/-- every `CommandError` is answered by a non-empty line that starts with its specific numeric
    (421 unknown command, 461 missing parameters, 472/501/696 invalid mode parameter) or with
    `ERROR :` (invalid parameter / subcommand). -/
theorem command_error_reply_nonempty (client : Str) (e : CommandError) :
    commandErrorReply client e ≠ [] ∧
    errorPrefix e <+: commandErrorReply client e ∧
    errorPrefix e ∈ [str "421 ", str "461 ", str "472 ", str "501 ", str "696 ", str "ERROR :"] := by
  have key : errorPrefix e <+: commandErrorReply client e := by
    cases e <;>
      simp only [commandErrorReply, errorPrefix, ErrUnknownCommand421, ErrNeedMoreParams461,
        ErrUnknownMode472, ErrUmodeUnknownFlag501, ErrInvalidModeParam696, List.append_assoc] <;>
      exact List.prefix_append _ _
  refine ⟨?_, key, ?_⟩
  · intro h
    rw [h] at key
    have := List.prefix_nil.mp key
    cases e <;> (simp only [errorPrefix] at this; exact absurd this (by decide))
  · cases e <;> simp [errorPrefix]

example : commandErrorReply (str "bob") (.needMoreParams .JOIN) =
      (Reply.ErrNeedMoreParams461 (client := str "bob") (command := str "JOIN")) ∧
    Command.fromMessage ⟨none, str "foo", [str "x"]⟩ = .error (.unknownCommand (str "FOO")) ∧
    commandErrorReply (str "bob") (.unknownCommand (str "FOO")) =
      (Reply.ErrUnknownCommand421 (client := str "bob") (command := str "FOO")) ∧
    Command.fromMessage ⟨none, str "JOIN", [str "a"]⟩ = .error (.wrongParameter .JOIN 0) ∧
    commandErrorReply (str "bob") (.wrongParameter .JOIN 0) =
      str "ERROR :Wrong parameter 0 in command 'JOIN'" := by decide

/-- **`empty_ignored`** — a line is reported `Empty` exactly when `trim_start` (Unicode aware)
    leaves nothing, and such a line is ignored: nothing is emitted, nothing changes. -/
theorem empty_ignored (l : Str) :
    (Message.parse l = .error .empty ↔ trimStart l = []) ∧
    (trimStart l = [] → ∀ (cfg : Cfg) (c : Nat) (x : Ctx), handleLine cfg c l x = x) := by
  refine ⟨parse_empty_iff l, ?_⟩
  intro h cfg c x
  have hp := (parse_empty_iff l).mpr h
  simp only [handleLine, hp]

/-- instance: blanks, a TAB and a no-break space -/
example : trimStart (str " \t \u00a0 ") = [] ∧
    Message.parse (str " \t \u00a0 ") = .error .empty := by
  decide

/-- `handleLine` mirrors `process_internal`; this case split makes explicit that a line is
    never silently dropped:
    (i)   the line is blank and nothing happens, or
    (ii)  exactly one line `":" server " " e` is appended to the sender's own buffer and nothing
          else changes, where `e` is the message error text or the `commandErrorReply`, or
    (iii) the line parsed to a message and a VALID command `cmd`, its counter is bumped, and the
          result is the 451 gate or `dispatch` of exactly that message / command. -/
theorem handleLine_answers_or_executes (cfg : Cfg) (c : Nat) (l : Str) (x : Ctx) :
    (trimStart l = [] ∧ handleLine cfg c l x = x)
    ∨ (∃ e : Str,
        handleLine cfg c l x = { x with direct := x.direct ++ [':' :: (cfg.name ++ ' ' :: e)] } ∧
        ((Message.parse l = .error .wrongSource ∧ e = str "ERROR :Wrong source")
         ∨ (Message.parse l = .error .noCommand ∧ e = str "ERROR :No command supplied")
         ∨ (∃ msg ce, Message.parse l = .ok msg ∧ Command.fromMessage msg = .error ce ∧
              e = commandErrorReply (x.conn c).clientName ce ∧ e ≠ [])))
    ∨ (∃ msg cmd, Message.parse l = .ok msg ∧ Command.fromMessage msg = .ok cmd ∧
        handleLine cfg c l x =
          (let x' := x.modifyW (fun w => bumpCount w cmd.id.index)
           if !(allowedUnregistered cmd) && !(x.conn c).authenticated then
             x'.reply cfg (ErrNotRegistered451 (x.conn c).clientName)
           else dispatch cfg c msg cmd x')) := by
  cases hp : Message.parse l with
  | error e =>
    cases e with
    | empty =>
      exact Or.inl ⟨(parse_empty_iff l).mp hp,
        (empty_ignored l).2 ((parse_empty_iff l).mp hp) cfg c x⟩
    | wrongSource =>
      refine Or.inr (Or.inl ⟨str "ERROR :Wrong source", ?_, Or.inl ⟨rfl, rfl⟩⟩)
      simp only [handleLine, hp, Ctx.reply]
    | noCommand =>
      refine Or.inr (Or.inl ⟨str "ERROR :No command supplied", ?_, Or.inr (Or.inl ⟨rfl, rfl⟩)⟩)
      simp only [handleLine, hp, Ctx.reply]
  | ok msg =>
    cases hc : Command.fromMessage msg with
    | error ce =>
      refine Or.inr (Or.inl ⟨commandErrorReply (x.conn c).clientName ce, ?_,
        Or.inr (Or.inr ⟨msg, ce, rfl, hc, rfl, (command_error_reply_nonempty _ ce).1⟩)⟩)
      simp only [handleLine, hp, hc, Ctx.reply]
    | ok cmd =>
      refine Or.inr (Or.inr ⟨msg, cmd, rfl, hc, ?_⟩)
      simp only [handleLine, hp, hc]

/-- verbs are case-insensitive: `parse_from_message` (hence `from_message`) depends on the
    command word only through its ASCII upper-casing. -/
theorem verb_case_insensitive (m : Message) (verb : Str)
    (h : asciiUpper verb = asciiUpper m.command) :
    Command.parseFromMessage { m with command := verb } = Command.parseFromMessage m ∧
    Command.fromMessage { m with command := verb } = Command.fromMessage m := by
  have h1 : Command.parseFromMessage { m with command := verb } = Command.parseFromMessage m :=
    parseFromMessage_congr _ _ h rfl
  exact ⟨h1, by simp only [Command.fromMessage, h1]⟩

theorem verb_upper (m : Message) :
    Command.parseFromMessage { m with command := asciiUpper m.command } =
      Command.parseFromMessage m :=
  (verb_case_insensitive m _ (asciiUpper_idem _)).1

example : asciiUpper (str "pRiVmSg") = asciiUpper (str "PRIVMSG") ∧
    Command.fromMessage ⟨none, str "pRiVmSg", [str "#a", str "x"]⟩ =
      Command.fromMessage ⟨none, str "PRIVMSG", [str "#a", str "x"]⟩ := by decide

end Irc.C13
