/-
  Helper lemmas for `Irc/Props/C18Order.lean`, part 2: the inductions over the event list.
-/
import Irc.Props.C18OrderLemmas

namespace Irc.C18Order

open Irc Irc.Conc

/-! ### the logs -/

section logs
variable (cfg : Cfg) (f : Nat → Nat → Ctx → List Tagged)

@[simp] theorem dlog_nil (w : World) (cnt : Nat → Nat) : dlog cfg f w cnt [] = [] := rfl
@[simp] theorem dlog_recv (w : World) (cnt : Nat → Nat) (d : Nat) (es : List DEvent) :
    dlog cfg f w cnt (.recv d :: es) = dlog cfg f w cnt es := rfl
@[simp] theorem dlog_cmd (w : World) (cnt : Nat → Nat) (c : Nat) (line : Str) (es : List DEvent) :
    dlog cfg f w cnt (.cmd c line :: es) =
      f c (cnt c) (handleLine cfg c line { w := w }) ++
        dlog cfg f (handleLine cfg c line { w := w }).w (bump cnt c) es := rfl

theorem bump_le (cnt : Nat → Nat) (c i : Nat) : cnt i ≤ bump cnt c i := by
  unfold bump; split
  · next h => subst h; omega
  · exact Nat.le_refl _

/-- every logged line carries the tag (issuer, command index), indices are not below the counter
    the log starts with, and per issuer the indices are sorted -/
theorem dlog_sorted (hf : ∀ c k x, ∀ e ∈ f c k x, e.1 = c ∧ e.2.1 = k) (s : Nat) :
    ∀ (evs : List DEvent) (w : World) (cnt : Nat → Nat),
      (∀ e ∈ dlog cfg f w cnt evs, cnt e.1 ≤ e.2.1) ∧
      (idxs (sel s (dlog cfg f w cnt evs))).Pairwise (· ≤ ·) := by
  intro evs
  induction evs with
  | nil => intro w cnt; simp
  | cons e es ih =>
    intro w cnt
    cases e with
    | recv d => simpa using ih w cnt
    | cmd c line =>
      obtain ⟨ih1, ih2⟩ := ih (handleLine cfg c line { w := w }).w (bump cnt c)
      have hlow : ∀ e ∈ dlog cfg f (handleLine cfg c line { w := w }).w (bump cnt c) es,
          cnt e.1 ≤ e.2.1 := fun e he => Nat.le_trans (bump_le cnt c e.1) (ih1 e he)
      refine ⟨?_, ?_⟩
      · intro e he
        simp only [dlog_cmd, List.mem_append] at he
        rcases he with he | he
        · obtain ⟨h1, h2⟩ := hf _ _ _ e he
          rw [h1, h2]; exact Nat.le_refl _
        · exact hlow e he
      · simp only [dlog_cmd, sel_append, idxs_append, List.pairwise_append]
        refine ⟨?_, ih2, ?_⟩
        · -- one block: all indices equal
          rw [List.pairwise_iff_forall_sublist]
          intro a b hab
          have ha : a ∈ idxs (sel s (f c (cnt c) (handleLine cfg c line { w := w }))) :=
            hab.subset (by simp)
          have hb : b ∈ idxs (sel s (f c (cnt c) (handleLine cfg c line { w := w }))) :=
            hab.subset (by simp)
          simp only [idxs, sel, List.mem_map, List.mem_filter] at ha hb
          obtain ⟨ea, ⟨hea, _⟩, rfl⟩ := ha
          obtain ⟨eb, ⟨heb, _⟩, rfl⟩ := hb
          rw [(hf _ _ _ ea hea).2, (hf _ _ _ eb heb).2]; exact Nat.le_refl _
        · intro a ha b hb
          simp only [idxs, sel, List.mem_map, List.mem_filter, decide_eq_true_eq] at ha hb
          obtain ⟨ea, ⟨hea, hs⟩, rfl⟩ := ha
          obtain ⟨eb, ⟨heb, hs'⟩, rfl⟩ := hb
          obtain ⟨h1, h2⟩ := hf _ _ _ ea hea
          have := ih1 eb heb
          rw [hs', ← hs, h1] at this
          rw [h2]
          exact Nat.le_trans (by unfold bump; simp) this

theorem dlog_issuer (s : Nat) (hf : ∀ c k x, ∀ e ∈ f c k x, e.1 = s) :
    ∀ (evs : List DEvent) (w : World) (cnt : Nat → Nat), ∀ e ∈ dlog cfg f w cnt evs, e.1 = s := by
  intro evs
  induction evs with
  | nil => intro w cnt; simp
  | cons e es ih =>
    intro w cnt
    cases e with
    | recv d => simpa using ih w cnt
    | cmd c line =>
      intro e he
      simp only [dlog_cmd, List.mem_append] at he
      rcases he with he | he
      · exact hf _ _ _ e he
      · exact ih _ _ e he

end logs

/-- generic induction: an observation `g` of the delivery state that every `recv` event leaves
    alone and every `cmd` event extends by `f` is the log of `f` (under an invariant) -/
theorem drun_log (cfg : Cfg) (drain : Bool) (Inv : DState → Prop) (g : DState → List Tagged)
    (f : Nat → Nat → Ctx → List Tagged)
    (hinv : ∀ σ e, Inv σ → Inv (dstep cfg drain σ e))
    (hrecv : ∀ σ d, Inv σ → g (dstep cfg drain σ (.recv d)) = g σ)
    (hcmd : ∀ σ c line, Inv σ → g (dstep cfg drain σ (.cmd c line)) =
      g σ ++ f c (σ.count c) (handleLine cfg c line { w := σ.w })) :
    ∀ (evs : List DEvent) (σ : DState), Inv σ →
      g (drun cfg drain σ evs) = g σ ++ dlog cfg f σ.w σ.count evs ∧ Inv (drun cfg drain σ evs) := by
  intro evs
  induction evs with
  | nil => intro σ h; simp [h]
  | cons e es ih =>
    intro σ h
    obtain ⟨ih1, ih2⟩ := ih (dstep cfg drain σ e) (hinv σ e h)
    refine ⟨?_, ih2⟩
    rw [drun_cons, ih1]
    cases e with
    | recv d => simp [hrecv σ d h]
    | cmd c line => simp [hcmd σ c line h]

/-! ### nothing lost, nothing duplicated -/

/-- `sock d ++ queue d` is, up to the order, what it was plus everything produced for `d` -/
theorem all_perm (cfg : Cfg) (drain : Bool) (d : Nat) :
    ∀ (evs : List DEvent) (σ : DState),
      ((drun cfg drain σ evs).all d).Perm (σ.all d ++ producedLog cfg d σ.w σ.count evs) := by
  intro evs
  induction evs with
  | nil => intro σ; simp [producedLog]
  | cons e es ih =>
    intro σ
    rw [drun_cons]
    refine (ih _).trans ?_
    cases e with
    | recv d' => simp [producedLog]
    | cmd c line =>
      simp only [producedLog, dstep_cmd_w, dstep_cmd_count, dlog_cmd]
      rw [← List.append_assoc, ← List.append_assoc]
      refine List.Perm.append_right _ ?_
      by_cases h : d = c
      · subst h
        rw [all_dstep_cmd_self]
        simp only [↓reduceIte, DState.all, List.append_assoc]
        refine List.Perm.append_left _ ?_
        exact List.perm_append_comm_assoc _ _ _
      · rw [all_dstep_cmd_ne cfg drain σ h]
        simp [Ne.symm h]

/-! ### sender ≠ receiver: the exact stream -/

theorem sel_all_ne (cfg : Cfg) (drain : Bool) {s d : Nat} (hsd : s ≠ d) (evs : List DEvent)
    (σ : DState) :
    sel s ((drun cfg drain σ evs).all d) = sel s (σ.all d) ++ pushLog cfg s d σ.w σ.count evs := by
  refine (drun_log cfg drain (fun _ => True) (fun σ => sel s (σ.all d))
    (fun c k x => if c = s then tagPushes c k x d else []) (fun _ _ _ => trivial) ?_ ?_ evs σ
    trivial).1
  · intro σ d' _; simp
  · intro σ c line _
    by_cases h : d = c
    · subst h
      rw [all_dstep_cmd_self]
      simp [DState.all, sel_tagDirect_ne (Ne.symm hsd), sel_tagPushes_ne (Ne.symm hsd),
        Ne.symm hsd]
    · rw [all_dstep_cmd_ne cfg drain σ h]
      by_cases hc : c = s
      · subst hc; simp
      · simp [hc, sel_tagPushes_ne hc]

/-! ### drain = true: a connection's own results -/

/-- the invariant of the repaired server: at every event boundary the queue of `d` holds no line
    issued by `d` itself -/
def NoOwn (d : Nat) (σ : DState) : Prop := sel d (σ.queue d) = []

theorem noOwn_dstep (cfg : Cfg) (d : Nat) (σ : DState) (e : DEvent) (h : NoOwn d σ) :
    NoOwn d (dstep cfg true σ e) := by
  unfold NoOwn at *
  cases e with
  | recv d' =>
    by_cases hd : d = d'
    · subst hd; simp [queue_dstep_recv_self]
    · rw [queue_dstep_recv_ne cfg true σ hd]; exact h
  | cmd c line =>
    by_cases hd : d = c
    · subst hd; simp [queue_dstep_cmd_self]
    · rw [queue_dstep_cmd_ne cfg true σ hd]
      simp [h, sel_tagPushes_ne (Ne.symm hd)]

theorem sel_all_self (cfg : Cfg) (d : Nat) (evs : List DEvent) (σ : DState) (h : NoOwn d σ) :
    sel d ((drun cfg true σ evs).all d) = sel d (σ.all d) ++ ownLog cfg d σ.w σ.count evs ∧
      NoOwn d (drun cfg true σ evs) := by
  refine drun_log cfg true (NoOwn d) (fun σ => sel d (σ.all d))
    (fun c k x => if c = d then tagDirect c k x ++ tagPushes c k x d else [])
    (fun σ e => noOwn_dstep cfg d σ e) ?_ ?_ evs σ h
  · intro σ d' _; simp
  · intro σ c line hσ
    by_cases hd : d = c
    · subst hd
      rw [all_dstep_cmd_self]
      unfold NoOwn at hσ
      simp [DState.all, hσ]
    · rw [all_dstep_cmd_ne cfg true σ hd]
      simp [Ne.symm hd, sel_tagPushes_ne (Ne.symm hd)]

/-! ### any server: a connection's own lines are a merge of its two streams -/

theorem il_nil_left {α : Type} : ∀ (ys : List α), Interleave [] ys ys
  | [] => .nil
  | _ :: ys => .right (il_nil_left ys)

theorem il_nil_right {α : Type} : ∀ (xs : List α), Interleave xs [] xs
  | [] => .nil
  | _ :: xs => .left (il_nil_right xs)

theorem il_append {α : Type} {a b l a' b' l' : List α} (h : Interleave a b l)
    (h' : Interleave a' b' l') : Interleave (a ++ a') (b ++ b') (l ++ l') := by
  induction h with
  | nil => exact h'
  | left _ ih => exact .left ih
  | right _ ih => exact .right ih

theorem il_append_left {α : Type} {a b l : List α} (h : Interleave a b l) (a' : List α) :
    Interleave (a ++ a') b (l ++ a') := by
  simpa using il_append h (il_nil_right a')

theorem il_append_right {α : Type} {a b l : List α} (h : Interleave a b l) (b' : List α) :
    Interleave a (b ++ b') (l ++ b') := by
  simpa using il_append h (il_nil_left b')

theorem il_eq_of_nil_left {α : Type} {ys l : List α} (h : Interleave [] ys l) : l = ys := by
  generalize hx : ([] : List α) = xs at h
  induction h with
  | nil => rfl
  | left _ _ => cases hx
  | right _ ih => rw [ih hx]

/-- `sel d (sock d)` is a merge of the direct replies `D` with the already received part of the
    self-pushes `P`; the rest of `P` is still in the queue -/
def Merged (d : Nat) (σ : DState) (D P : List Tagged) : Prop :=
  ∃ P1, Interleave D P1 (sel d (σ.sock d)) ∧ P1 ++ sel d (σ.queue d) = P

theorem merged_drainQ {d : Nat} {σ : DState} {D P : List Tagged} (h : Merged d σ D P) (c : Nat) :
    Merged d (σ.drainQ c) D P := by
  by_cases hc : d = c
  · subst hc
    obtain ⟨P1, h1, h2⟩ := h
    refine ⟨P1 ++ sel d (σ.queue d), ?_, ?_⟩
    · simpa [DState.drainQ] using il_append_right h1 _
    · simpa [DState.drainQ] using h2
  · simpa [Merged, DState.drainQ, hc] using h

theorem merged_drainIf {d : Nat} {σ : DState} {D P : List Tagged} (h : Merged d σ D P)
    (drain : Bool) (c : Nat) : Merged d (σ.drainIf drain c) D P := by
  cases drain
  · exact h
  · exact merged_drainQ h c

theorem merged_recvOne {d : Nat} {σ : DState} {D P : List Tagged} (h : Merged d σ D P) (d' : Nat) :
    Merged d (σ.recvOne d') D P := by
  unfold DState.recvOne
  split
  · exact h
  · next m rest hq =>
    by_cases hd : d = d'
    · subst hd
      obtain ⟨P1, h1, h2⟩ := h
      rw [hq] at h2
      by_cases hm : m.1 = d
      · refine ⟨P1 ++ [m], ?_, ?_⟩
        · simpa [sel_cons_eq hm] using il_append_right h1 [m]
        · simpa [sel_cons_eq hm] using h2
      · refine ⟨P1, ?_, ?_⟩
        · simpa [sel_cons_ne hm] using h1
        · simpa [sel_cons_ne hm] using h2
    · simpa [Merged, hd] using h

theorem merged_handle (cfg : Cfg) {d : Nat} {σ : DState} {D P : List Tagged} (h : Merged d σ D P)
    (c : Nat) (line : Str) :
    Merged d (σ.handle cfg c line)
      (D ++ if c = d then tagDirect c (σ.count c) (handleLine cfg c line { w := σ.w }) else [])
      (P ++ if c = d then tagPushes c (σ.count c) (handleLine cfg c line { w := σ.w }) d
        else []) := by
  obtain ⟨P1, h1, h2⟩ := h
  by_cases hc : c = d
  · subst hc
    refine ⟨P1, ?_, ?_⟩
    · simpa [DState.handle] using il_append_left h1 _
    · simp [DState.handle, ← h2]
  · refine ⟨P1, ?_, ?_⟩
    · simpa [DState.handle, hc, Ne.symm hc] using h1
    · simpa [DState.handle, hc, sel_tagPushes_ne hc] using h2

theorem merged_drun (cfg : Cfg) (drain : Bool) (d : Nat) :
    ∀ (evs : List DEvent) (σ : DState) (D P : List Tagged), Merged d σ D P →
      Merged d (drun cfg drain σ evs) (D ++ directLog cfg d σ.w σ.count evs)
        (P ++ pushLog cfg d d σ.w σ.count evs) := by
  intro evs
  induction evs with
  | nil => intro σ D P h; simpa [directLog, pushLog] using h
  | cons e es ih =>
    intro σ D P h
    rw [drun_cons]
    cases e with
    | recv d' =>
      have := ih _ _ _ (merged_drainIf (merged_recvOne h d') drain d')
      simpa [dstep, directLog, pushLog] using this
    | cmd c line =>
      have := ih _ _ _ (merged_drainIf (merged_handle cfg h c line) drain c)
      simpa [dstep, directLog, pushLog, DState.handle] using this

theorem merged_all {d : Nat} {σ : DState} {D P : List Tagged} (h : Merged d σ D P) :
    Interleave D P (sel d (σ.all d)) := by
  obtain ⟨P1, h1, h2⟩ := h
  subst h2
  simpa [DState.all] using il_append_right h1 _

/-! ### every line is caused by a command already issued -/

/-- all tags in `sock d ++ queue d` are below the issuer's command counter -/
def Below (σ : DState) : Prop := ∀ d, ∀ e ∈ σ.all d, e.2.1 < σ.count e.1

theorem below_dstep (cfg : Cfg) (drain : Bool) (σ : DState) (e : DEvent) (h : Below σ) :
    Below (dstep cfg drain σ e) := by
  intro d a ha
  cases e with
  | recv d' =>
    rw [all_dstep_recv] at ha
    simpa using h d a ha
  | cmd c line =>
    rw [dstep_cmd_count]
    have hnew : ∀ a : Tagged, a.1 = c ∧ a.2.1 = σ.count c → a.2.1 < bump σ.count c a.1 := by
      intro a ⟨h1, h2⟩; rw [h1, h2]; simp [bump]
    have hold : ∀ a : Tagged, a.2.1 < σ.count a.1 → a.2.1 < bump σ.count c a.1 :=
      fun a h => Nat.lt_of_lt_of_le h (bump_le _ _ _)
    by_cases hd : d = c
    · subst hd
      rw [all_dstep_cmd_self] at ha
      simp only [List.mem_append] at ha
      rcases ha with (ha | ha) | ha | ha
      · exact hold a (h d a (by simp [DState.all, ha]))
      · exact hnew a (mem_tagDirect ha)
      · exact hold a (h d a (by simp [DState.all, ha]))
      · exact hnew a (mem_tagPushes ha)
    · rw [all_dstep_cmd_ne cfg drain σ hd] at ha
      rcases List.mem_append.1 ha with ha | ha
      · exact hold a (h d a ha)
      · exact hnew a (mem_tagPushes ha)

theorem below_drun (cfg : Cfg) (drain : Bool) (evs : List DEvent) (σ : DState) (h : Below σ) :
    Below (drun cfg drain σ evs) := by
  induction evs generalizing σ with
  | nil => exact h
  | cons e es ih => exact ih _ (below_dstep cfg drain σ e h)

/-- the world and the command counters do not depend on `drain`, on the sockets or the queues -/
theorem drun_w_count (cfg : Cfg) (drain drain' : Bool) (evs : List DEvent) (σ σ' : DState)
    (hw : σ.w = σ'.w) (hc : σ.count = σ'.count) :
    (drun cfg drain σ evs).w = (drun cfg drain' σ' evs).w ∧
      (drun cfg drain σ evs).count = (drun cfg drain' σ' evs).count := by
  induction evs generalizing σ σ' with
  | nil => exact ⟨hw, hc⟩
  | cons e es ih =>
    cases e with
    | recv d => exact ih _ _ (by simpa using hw) (by simpa using hc)
    | cmd c line => exact ih _ _ (by simp [hw]) (by simp [hc])

end Irc.C18Order
