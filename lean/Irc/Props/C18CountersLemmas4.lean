/-
  Counter-frame lemmas for C18, part 4: the handlers of `Irc/HQuery.lean`.

  `processStats` is the one handler that READS `World.cmdCounts` — in the branch `stat = 'm'`
  (no target server, the acting user a local operator).  Its lemma carries the hypothesis
  `stat ≠ 'm'`.

  `modeChar` (a chain of 17 letter tests) is done letter by letter (`modeChar_bc_b`, …) and
  assembled by case distinction: one proof over the whole chain takes the kernel a minute.
-/
import Irc.Props.C18CountersLemmas3

namespace Irc

/-- the counter bump inside the accumulator of the channel-MODE loop -/
def ModeAcc.bc (a : ModeAcc) (i : Nat) : ModeAcc := { a with x := a.x.bc i }
/-- the counter bump inside the accumulator of the user-MODE loop -/
def UModeAcc.bc (a : UModeAcc) (i : Nat) : UModeAcc := { a with x := a.x.bc i }

namespace C18C
open Irc Irc.Conc

section
variable {cfg : Cfg} {i : Nat} {d : Nat} {x : Ctx}

@[bc_push] theorem processVersion_bc (t : Option Str) :
    processVersion cfg d t (x.bc i) = (processVersion cfg d t x).bc i := by
  unfold processVersion
  bcf

@[bc_push] theorem processAdmin_bc (t : Option Str) :
    processAdmin cfg d t (x.bc i) = (processAdmin cfg d t x).bc i := by
  unfold processAdmin
  bcf

@[bc_push] theorem processTime_bc (t : Option Str) :
    processTime cfg d t (x.bc i) = (processTime cfg d t x).bc i := by
  unfold processTime
  bcf

/-- `STATS` with a query letter other than `m` -/
theorem processStats_bc (st : Char) (hst : st ≠ 'm') (t : Option Str) :
    processStats cfg d st t (x.bc i) = (processStats cfg d st t x).bc i := by
  unfold processStats
  bcf

/-- `STATS <letter> <server>` is refused before anything is read -/
theorem processStats_bc_server (st : Char) (s : Str) :
    processStats cfg d st (some s) (x.bc i) = (processStats cfg d st (some s) x).bc i := rfl

@[bc_push] theorem processLinks_bc (r m : Option Str) :
    processLinks cfg d r m (x.bc i) = (processLinks cfg d r m x).bc i := by
  unfold processLinks
  bcf

@[bc_push] theorem helpLines_bc (client subject : Str) (k : Nat) (lines : List Str) (total : Nat) :
    helpLines cfg client subject k lines total (x.bc i) =
      (helpLines cfg client subject k lines total x).bc i := by
  induction lines generalizing k x with
  | nil => rfl
  | cons l ls ih =>
    simp only [helpLines]
    rw [← ih]
    congr 1
    bcf

@[bc_push] theorem processHelp_bc (s : Option Str) :
    processHelp cfg d s (x.bc i) = (processHelp cfg d s x).bc i := by
  unfold processHelp
  bcf

@[bc_push] theorem processInfo_bc :
    processInfo cfg d (x.bc i) = (processInfo cfg d x).bc i := by
  unfold processInfo
  bcf

/-! channel MODE -/

section
variable (a : ModeAcc)
@[bc_read] theorem macc_x : (a.bc i).x = a.x.bc i := rfl
@[bc_read] theorem macc_ch : (a.bc i).ch = a.ch := rfl
@[bc_read] theorem macc_args : (a.bc i).args = a.args := rfl
@[bc_read] theorem macc_modeSet : (a.bc i).modeSet = a.modeSet := rfl
@[bc_read] theorem macc_setStr : (a.bc i).setStr = a.setStr := rfl
@[bc_read] theorem macc_unsetStr : (a.bc i).unsetStr = a.unsetStr := rfl
@[bc_read] theorem macc_paramsStr : (a.bc i).paramsStr = a.paramsStr := rfl
@[bc_push] theorem macc_mk (y : Ctx) (ch : Channel) (args : List Str) (ms : Bool) (s u p : Str) :
    ModeAcc.mk (y.bc i) ch args ms s u p = (ModeAcc.mk y ch args ms s u p).bc i := rfl

@[bc_push] theorem macc_foldl {α : Type} (f : ModeAcc → α → ModeAcc)
    (hf : ∀ b e, f (b.bc i) e = (f b e).bc i) (l : List α) :
    l.foldl f (a.bc i) = (l.foldl f a).bc i := by
  induction l generalizing a with
  | nil => rfl
  | cons e l ih => simp only [List.foldl_cons, hf, ih]
end

section
variable (a : UModeAcc)
@[bc_read] theorem uacc_x : (a.bc i).x = a.x.bc i := rfl
@[bc_read] theorem uacc_modes : (a.bc i).modes = a.modes := rfl
@[bc_read] theorem uacc_modeSet : (a.bc i).modeSet = a.modeSet := rfl
@[bc_read] theorem uacc_setStr : (a.bc i).setStr = a.setStr := rfl
@[bc_read] theorem uacc_unsetStr : (a.bc i).unsetStr = a.unsetStr := rfl
@[bc_push] theorem uacc_mk (y : Ctx) (m : UserModes) (ms : Bool) (s u : Str) :
    UModeAcc.mk (y.bc i) m ms s u = (UModeAcc.mk y m ms s u).bc i := rfl

@[bc_push] theorem uacc_foldl {α : Type} (f : UModeAcc → α → UModeAcc)
    (hf : ∀ b e, f (b.bc i) e = (f b e).bc i) (l : List α) :
    l.foldl f (a.bc i) = (l.foldl f a).bc i := by
  induction l generalizing a with
  | nil => rfl
  | cons e l ih => simp only [List.foldl_cons, hf, ih]
end

theorem ite_macc {p : Prop} [Decidable p] {A B A' B' : ModeAcc} (hA : A' = A.bc i)
    (hB : B' = B.bc i) : (if p then A' else B') = (if p then A else B).bc i := by
  subst hA hB; split <;> rfl
macro_rules | `(tactic| bc_hook) => `(tactic| with_reducible apply ite_macc)

theorem ite_uacc {p : Prop} [Decidable p] {A B A' B' : UModeAcc} (hA : A' = A.bc i)
    (hB : B' = B.bc i) : (if p then A' else B') = (if p then A else B).bc i := by
  subst hA hB; split <;> rfl
macro_rules | `(tactic| bc_hook) => `(tactic| with_reducible apply ite_uacc)


/-- `modeChar` for one given mode letter: the chain of letter tests collapses -/
macro "mc_collapse" : tactic =>
  `(tactic| (
    unfold modeChar
    simp only [bc_read, Char.reduceEq, ↓reduceIte, Bool.or_false, Bool.false_or, Bool.or_true,
      Bool.true_or, Bool.false_and, Bool.true_and, decide_false, decide_true, Bool.false_eq_true]))

/-- a letter without privilege pre-check -/
macro "mc_letter" : tactic => `(tactic| (mc_collapse; bcf))

/-- a letter with privilege pre-check (`err482` first, if the actor may not change it) -/
macro "mc_letter_pre" c:term:max l:term:max : tactic =>
  `(tactic| (mc_collapse; generalize (!mayChange $c $l) = b; cases b <;> bcf))

section
variable (cn' : Conn) (target : Str) (chum : ChanUserModes) (a : ModeAcc)

theorem modeChar_bc_plus :
    modeChar cfg cn' target chum (a.bc i) '+' = (modeChar cfg cn' target chum a '+').bc i := by
  mc_letter

theorem modeChar_bc_minus :
    modeChar cfg cn' target chum (a.bc i) '-' = (modeChar cfg cn' target chum a '-').bc i := by
  mc_letter

theorem modeChar_bc_b :
    modeChar cfg cn' target chum (a.bc i) 'b' = (modeChar cfg cn' target chum a 'b').bc i := by
  mc_letter

theorem modeChar_bc_e :
    modeChar cfg cn' target chum (a.bc i) 'e' = (modeChar cfg cn' target chum a 'e').bc i := by
  mc_letter

theorem modeChar_bc_I :
    modeChar cfg cn' target chum (a.bc i) 'I' = (modeChar cfg cn' target chum a 'I').bc i := by
  mc_letter

theorem modeChar_bc_o :
    modeChar cfg cn' target chum (a.bc i) 'o' = (modeChar cfg cn' target chum a 'o').bc i := by
  mc_letter_pre chum 'o'

theorem modeChar_bc_v :
    modeChar cfg cn' target chum (a.bc i) 'v' = (modeChar cfg cn' target chum a 'v').bc i := by
  mc_letter_pre chum 'v'

theorem modeChar_bc_h :
    modeChar cfg cn' target chum (a.bc i) 'h' = (modeChar cfg cn' target chum a 'h').bc i := by
  mc_letter_pre chum 'h'

theorem modeChar_bc_q :
    modeChar cfg cn' target chum (a.bc i) 'q' = (modeChar cfg cn' target chum a 'q').bc i := by
  mc_letter_pre chum 'q'

theorem modeChar_bc_a :
    modeChar cfg cn' target chum (a.bc i) 'a' = (modeChar cfg cn' target chum a 'a').bc i := by
  mc_letter_pre chum 'a'

theorem modeChar_bc_l :
    modeChar cfg cn' target chum (a.bc i) 'l' = (modeChar cfg cn' target chum a 'l').bc i := by
  mc_letter_pre chum 'l'

theorem modeChar_bc_k :
    modeChar cfg cn' target chum (a.bc i) 'k' = (modeChar cfg cn' target chum a 'k').bc i := by
  mc_letter_pre chum 'k'

theorem modeChar_bc_i :
    modeChar cfg cn' target chum (a.bc i) 'i' = (modeChar cfg cn' target chum a 'i').bc i := by
  mc_letter_pre chum 'i'

theorem modeChar_bc_m :
    modeChar cfg cn' target chum (a.bc i) 'm' = (modeChar cfg cn' target chum a 'm').bc i := by
  mc_letter_pre chum 'm'

theorem modeChar_bc_t :
    modeChar cfg cn' target chum (a.bc i) 't' = (modeChar cfg cn' target chum a 't').bc i := by
  mc_letter_pre chum 't'

theorem modeChar_bc_n :
    modeChar cfg cn' target chum (a.bc i) 'n' = (modeChar cfg cn' target chum a 'n').bc i := by
  mc_letter_pre chum 'n'

theorem modeChar_bc_s :
    modeChar cfg cn' target chum (a.bc i) 's' = (modeChar cfg cn' target chum a 's').bc i := by
  mc_letter_pre chum 's'

/-- any other character: nothing happens -/
theorem modeChar_bc_other (m : Char)
    (h0 : m ≠ '+')
    (h1 : m ≠ '-')
    (h2 : m ≠ 'b')
    (h3 : m ≠ 'e')
    (h4 : m ≠ 'I')
    (h5 : m ≠ 'o')
    (h6 : m ≠ 'v')
    (h7 : m ≠ 'h')
    (h8 : m ≠ 'q')
    (h9 : m ≠ 'a')
    (h10 : m ≠ 'l')
    (h11 : m ≠ 'k')
    (h12 : m ≠ 'i')
    (h13 : m ≠ 'm')
    (h14 : m ≠ 't')
    (h15 : m ≠ 'n')
    (h16 : m ≠ 's')
    : modeChar cfg cn' target chum (a.bc i) m = (modeChar cfg cn' target chum a m).bc i := by
  unfold modeChar
  simp only [bc_read, ne_eq] at *
  simp only [*, ↓reduceIte, Bool.or_false, Bool.false_and, decide_false, Bool.false_eq_true]
  bcf

@[bc_push] theorem modeChar_bc (m : Char) :
    modeChar cfg cn' target chum (a.bc i) m = (modeChar cfg cn' target chum a m).bc i := by
  by_cases h0 : m = '+'
  · subst h0; exact modeChar_bc_plus cn' target chum a
  by_cases h1 : m = '-'
  · subst h1; exact modeChar_bc_minus cn' target chum a
  by_cases h2 : m = 'b'
  · subst h2; exact modeChar_bc_b cn' target chum a
  by_cases h3 : m = 'e'
  · subst h3; exact modeChar_bc_e cn' target chum a
  by_cases h4 : m = 'I'
  · subst h4; exact modeChar_bc_I cn' target chum a
  by_cases h5 : m = 'o'
  · subst h5; exact modeChar_bc_o cn' target chum a
  by_cases h6 : m = 'v'
  · subst h6; exact modeChar_bc_v cn' target chum a
  by_cases h7 : m = 'h'
  · subst h7; exact modeChar_bc_h cn' target chum a
  by_cases h8 : m = 'q'
  · subst h8; exact modeChar_bc_q cn' target chum a
  by_cases h9 : m = 'a'
  · subst h9; exact modeChar_bc_a cn' target chum a
  by_cases h10 : m = 'l'
  · subst h10; exact modeChar_bc_l cn' target chum a
  by_cases h11 : m = 'k'
  · subst h11; exact modeChar_bc_k cn' target chum a
  by_cases h12 : m = 'i'
  · subst h12; exact modeChar_bc_i cn' target chum a
  by_cases h13 : m = 'm'
  · subst h13; exact modeChar_bc_m cn' target chum a
  by_cases h14 : m = 't'
  · subst h14; exact modeChar_bc_t cn' target chum a
  by_cases h15 : m = 'n'
  · subst h15; exact modeChar_bc_n cn' target chum a
  by_cases h16 : m = 's'
  · subst h16; exact modeChar_bc_s cn' target chum a
  exact modeChar_bc_other cn' target chum a m h0 h1 h2 h3 h4 h5 h6 h7 h8 h9 h10 h11 h12 h13 h14 h15 h16

end

@[bc_push] theorem modeGroup_bc (cn' : Conn) (target : Str) (chum : ChanUserModes) (a : ModeAcc)
    (g : Str × List Str) :
    modeGroup cfg cn' target chum (a.bc i) g = (modeGroup cfg cn' target chum a g).bc i := by
  unfold modeGroup
  bcf

@[bc_push] theorem processModeChannel_bc (target : Str) (ch : Channel)
    (modes : List (Str × List Str)) (chum : ChanUserModes) :
    processModeChannel cfg d target ch modes chum (x.bc i) =
      (processModeChannel cfg d target ch modes chum x).bc i := by
  unfold processModeChannel
  bcf

@[bc_push] theorem umodeChar_bc (cn' : Conn) (nick : Str) (a : UModeAcc) (m : Char) :
    umodeChar cfg cn' nick (a.bc i) m = (umodeChar cfg cn' nick a m).bc i := by
  unfold umodeChar
  bcf

@[bc_push] theorem processModeUser_bc (target : Str) (modes : List (Str × List Str)) :
    processModeUser cfg d target modes (x.bc i) = (processModeUser cfg d target modes x).bc i := by
  unfold processModeUser
  bcf

@[bc_push] theorem processMode_bc (target : Str) (modes : List (Str × List Str)) :
    processMode cfg d target modes (x.bc i) = (processMode cfg d target modes x).bc i := by
  unfold processMode
  bcf

end

end C18C
end Irc
