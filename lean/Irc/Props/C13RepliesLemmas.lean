/-
  C13 (numeric replies) — generic part.

  * `parse_numeric_line`: `":" srv " " num " " client rest` parses to source `srv`, command `num`,
    first parameter `client`, for ANY `rest` that is empty or starts with an ASCII blank
    (`u8::is_ascii_whitespace`: ' ', TAB, LF, FF, CR); nothing else is assumed about `rest`.
  * `NumericShape num client s`: the machine-readable shape `s = num ++ " " ++ client ++ rest`
    with `num` three ASCII digits and `rest` empty or starting with ' '.
  * `shape_lit` / `shape_lit_end` and the tactic `reply_shape R`: how the shape of a generated
    reply definition `R` is established.  Only three facts about the literals of `R` are
    evaluated: the first literal is `NNN ++ " "`, `NNN` is three digits, and the literal that
    follows `client` starts with ' '.  No other character of any literal is looked at, so the
    human-readable wording of reply.rs may change freely.
-/
import Irc.Props.C13
import Irc.Conc
namespace Irc.C13
open Irc Irc.Reply

/-! ### vocabulary -/

/-- three ASCII digits -/
def isNumeric (num : Str) : Bool := num.length == 3 && num.all Char.isDigit

/-- empty, or the first char is an ASCII blank (what `split_ascii_whitespace` and the `" :"`
    detection of `Message::from_shared_str` treat as a separator: ' ' \t \n \x0C \r) -/
def blankOrEmpty : Str → Bool
  | [] => true
  | b :: _ => isAsciiWhitespace b

/-- what `Message.parse` makes of the text after the client token: the words before the first
    blank-preceded ':' and then the trailing.  (`'x'` is the "previous char": any non-blank.) -/
def restParams (rest : Str) : List Str :=
  splitAsciiWhitespace (splitTrailing 'x' rest).1 ++ (splitTrailing 'x' rest).2.toList

/-- the machine-readable shape of a numeric reply: `NNN client[ ...]` -/
def NumericShape (num client s : Str) : Prop :=
  isNumeric num = true ∧
    ∃ rest, s = num ++ ' ' :: (client ++ rest) ∧ (rest = [] ∨ rest.head? = some ' ')

/-! ### digits are word characters -/

theorem digit_not_ws (c : Char) (h : c.isDigit = true) :
    isAsciiWhitespace c = false ∧ c ≠ ':' := by
  unfold Char.isDigit at h
  rw [Bool.and_eq_true, decide_eq_true_eq, decide_eq_true_eq] at h
  have h1 : 48 ≤ c.toNat := (UInt32.le_iff_toNat_le.mp h.1 : '0'.val.toNat ≤ c.val.toNat)
  have h2 : c.toNat ≤ 57 := (UInt32.le_iff_toNat_le.mp h.2 : c.val.toNat ≤ '9'.val.toNat)
  refine ⟨?_, ?_⟩
  · simp only [isAsciiWhitespace, Bool.or_eq_false_iff, beq_eq_false_iff_ne]
    omega
  · intro hc; subst hc
    revert h2; decide

theorem word_of_numeric (num : Str) (h : isNumeric num = true) : Word num := by
  simp only [isNumeric, Bool.and_eq_true, beq_iff_eq] at h
  obtain ⟨hl, hd⟩ := h
  have hd' : ∀ c ∈ num, c.isDigit = true := List.all_eq_true.mp hd
  refine ⟨?_, fun c hc => (digit_not_ws c (hd' c hc)).1, ?_⟩
  · intro he; rw [he] at hl; cases hl
  · cases num with
    | nil => rfl
    | cons a t =>
      have := (digit_not_ws a (hd' a (List.mem_cons_self ..))).2
      simp [startsWithChar, this]

/-! ### `splitTrailing` / `splitAsciiWhitespace` across a word followed by anything -/

/-- after a non-empty blank-free word the "previous char" is a non-blank, whatever follows -/
theorem splitTrailing_word_any (w rest : Str) (p : Char) (hne : w ≠ []) (hw : WsFree w)
    (h : isAsciiWhitespace p = false ∨ startsWithChar ':' w = false) :
    splitTrailing p (w ++ rest) =
      (w ++ (splitTrailing 'x' rest).1, (splitTrailing 'x' rest).2) := by
  induction w generalizing p with
  | nil => exact absurd rfl hne
  | cons c w ih =>
    have hc : (c == ':' && isAsciiWhitespace p) = false := by
      rcases h with h | h
      · simp [h]
      · simp only [startsWithChar] at h; simp [h]
    rw [List.cons_append, splitTrailing_cons _ hc]
    cases w with
    | nil =>
      have hx : isAsciiWhitespace c = isAsciiWhitespace 'x' := by
        rw [hw.head]; decide
      rw [List.nil_append, splitTrailing_congr c 'x' rest hx]
      rfl
    | cons d w =>
      rw [ih c (by simp) hw.tail (Or.inl hw.head)]
      rfl

theorem splitTrailing_blankOrEmpty (rest : Str) (p : Char) (h : blankOrEmpty rest = true) :
    splitTrailing p rest = splitTrailing 'x' rest := by
  cases rest with
  | nil => rfl
  | cons b r =>
    have hb : isAsciiWhitespace b = true := h
    have hc : ∀ q, (b == ':' && isAsciiWhitespace q) = false := by
      intro q
      have : b ≠ ':' := by
        intro e; rw [e] at hb; revert hb; decide
      simp [this]
    rw [splitTrailing_cons r (hc p), splitTrailing_cons r (hc 'x')]

/-- the words of `w ++ T` when `T` is empty or starts with a blank -/
theorem saw_word_blankOrEmpty (w T : Str) (hne : w ≠ []) (hw : WsFree w)
    (hT : blankOrEmpty T = true) :
    splitAsciiWhitespace (w ++ T) = w :: splitAsciiWhitespace T := by
  cases T with
  | nil => rw [List.append_nil, saw_word w hne hw, saw_nil]
  | cons b r =>
    have hb : isAsciiWhitespace b = true := hT
    rw [saw_word_sep w r hne hw hb, saw_sep r hb]

/-- the part of `rest` before the trailing is again empty or starts with a blank -/
theorem blankOrEmpty_splitTrailing (rest : Str) (h : blankOrEmpty rest = true) :
    blankOrEmpty (splitTrailing 'x' rest).1 = true := by
  cases rest with
  | nil => rfl
  | cons b r =>
    have hb : isAsciiWhitespace b = true := h
    have hc : (b == ':' && isAsciiWhitespace 'x') = false := by
      have : b ≠ ':' := by
        intro e; rw [e] at hb; revert hb; decide
      simp [this]
    rw [splitTrailing_cons r hc]
    exact hb

/-! ### 1. the generic lemma -/

/-- `":" srv " " num " " client rest` is a message with source `srv`, command `num` and first
    parameter `client`.  Hypotheses: `srv` has no ASCII blank and passes `validate_source`
    (no ':' ; a '!' before an '@'); `num` and `client` are words (non-empty, no ASCII blank, not
    starting with ':'); `rest` is empty or starts with an ASCII blank.  Nothing else is assumed
    about `rest`: it may contain any separator, any ':' and any other character. -/
theorem parse_numeric_line_raw (srv num client rest : Str)
    (hs : WsFree srv) (hv : validateSource srv = true) (hn : Word num) (hc : Word client)
    (hr : blankOrEmpty rest = true) :
    Message.parse (':' :: (srv ++ ' ' :: (num ++ ' ' :: (client ++ rest)))) =
      .ok ⟨some srv, num, client :: restParams rest⟩ := by
  -- the split at the first blank-preceded ':'
  have hST : splitTrailing ':' (srv ++ ' ' :: (num ++ ' ' :: (client ++ rest))) =
      (srv ++ ' ' :: (num ++ ' ' :: (client ++ (splitTrailing 'x' rest).1)),
        (splitTrailing 'x' rest).2) := by
    rw [splitTrailing_word_sp srv _ ':' hs (Or.inl isAsciiWhitespace_colon),
      splitTrailing_word_sp num _ ' ' hn.2.1 (Or.inr hn.2.2),
      splitTrailing_word_any client rest ' ' hc.1 hc.2.1 (Or.inr hc.2.2)]
  -- the words
  have hW : splitAsciiWhitespace
      (':' :: (srv ++ ' ' :: (num ++ ' ' :: (client ++ (splitTrailing 'x' rest).1)))) =
      (':' :: srv) :: num :: client :: splitAsciiWhitespace (splitTrailing 'x' rest).1 := by
    have h1 := saw_word_sep (':' :: srv) (num ++ ' ' :: (client ++ (splitTrailing 'x' rest).1))
      (by simp) (WsFree.cons isAsciiWhitespace_colon hs) isAsciiWhitespace_space
    rw [List.cons_append] at h1
    rw [h1, saw_word_sep num _ hn.1 hn.2.1 isAsciiWhitespace_space,
      saw_word_blankOrEmpty client _ hc.1 hc.2.1 (blankOrEmpty_splitTrailing rest hr)]
  have hT : trimStart (':' :: (srv ++ ' ' :: (num ++ ' ' :: (client ++ rest)))) =
      ':' :: (srv ++ ' ' :: (num ++ ' ' :: (client ++ rest))) := by
    simp [trimStart, isWhitespace_colon]
  unfold Message.parse
  rw [hT]
  simp only [hST, hW, List.drop_one, List.tail_cons, hv, finish_cons, restParams]
  simp

/-- the same with the decidable hypotheses of `Irc/Props/C13.lean` -/
theorem parse_numeric_line (srv num client rest : Str)
    (hs : wellFormedSource srv = true) (hn : isNumeric num = true)
    (hc : wellFormedMiddle client = true) (hr : blankOrEmpty rest = true) :
    Message.parse (':' :: (srv ++ ' ' :: (num ++ ' ' :: (client ++ rest)))) =
      .ok ⟨some srv, num, client :: restParams rest⟩ := by
  obtain ⟨hs1, hs2⟩ := source_of_bools srv hs
  exact parse_numeric_line_raw srv num client rest hs1 hs2 (word_of_numeric num hn)
    (word_of_bools client hc) hr

/-! ### 2. establishing the shape of a generated definition -/

theorem blankOrEmpty_of_space (rest : Str) (h : rest = [] ∨ rest.head? = some ' ') :
    blankOrEmpty rest = true := by
  rcases h with h | h
  · rw [h]; rfl
  · cases rest with
    | nil => rfl
    | cons b r =>
      simp only [List.head?_cons, Option.some.injEq] at h
      rw [h]; rfl

/-- `lit1 ++ client ++ lit2 ++ tail` where `lit1 = NNN ++ " "` and `lit2` starts with ' ' -/
theorem shape_lit (num lit1 client lit2 tail : Str) (h1 : lit1 = num ++ [' '])
    (hn : isNumeric num = true) (h2 : lit2.head? = some ' ') :
    NumericShape num client (lit1 ++ (client ++ (lit2 ++ tail))) := by
  refine ⟨hn, lit2 ++ tail, ?_, Or.inr ?_⟩
  · rw [h1]; simp
  · cases lit2 with
    | nil => cases h2
    | cons b r => simpa using h2

/-- `lit1 ++ client ++ lit2` -/
theorem shape_lit_end (num lit1 client lit2 : Str) (h1 : lit1 = num ++ [' '])
    (hn : isNumeric num = true) (h2 : lit2.head? = some ' ') :
    NumericShape num client (lit1 ++ (client ++ lit2)) := by
  have := shape_lit num lit1 client lit2 [] h1 hn h2
  rwa [List.append_nil] at this

/-- unfold the generated definition `R`, re-associate, and check the three literal facts -/
macro "reply_shape " R:ident : tactic =>
  `(tactic| (simp only [$R:ident, List.append_assoc]
             first
             | exact shape_lit _ _ _ _ _ (by decide) (by decide) (by decide)
             | exact shape_lit_end _ _ _ _ (by decide) (by decide) (by decide)))

/-- the statement of the task text follows from `NumericShape` -/
theorem NumericShape.exists {num client s : Str} (h : NumericShape num client s) :
    ∃ num rest, s = num ++ ' ' :: (client ++ rest) ∧ num.length = 3 ∧
      num.all Char.isDigit = true ∧ (rest = [] ∨ rest.head? = some ' ') := by
  obtain ⟨hn, rest, he, hr⟩ := h
  simp only [isNumeric, Bool.and_eq_true, beq_iff_eq] at hn
  exact ⟨num, rest, he, hn.1, hn.2, hr⟩

/-! ### 3. shape + generic lemma -/

/-- a reply of the shape `NNN client ..`, sent as `":" srv " " reply`, is a message with source
    `srv`, command `NNN` and first parameter `client` -/
theorem parse_of_shape (srv num client s : Str) (h : NumericShape num client s)
    (hs : wellFormedSource srv = true) (hc : wellFormedMiddle client = true) :
    Message.parse (':' :: (srv ++ ' ' :: s)) =
      .ok ⟨some srv, num, client :: restParams (s.drop (4 + client.length))⟩ := by
  obtain ⟨hn, rest, he, hr⟩ := h
  have hl : num.length = 3 := by
    simp only [isNumeric, Bool.and_eq_true, beq_iff_eq] at hn
    exact hn.1
  have hd : s.drop (4 + client.length) = rest := by
    have e : s = (num ++ ' ' :: client) ++ rest := by rw [he]; simp
    rw [e]
    exact List.drop_left' (by simp [hl]; omega)
  rw [hd, he]
  exact parse_numeric_line srv num client rest hs hn hc (blankOrEmpty_of_space rest hr)

end Irc.C13
