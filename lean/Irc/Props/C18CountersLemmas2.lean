/-
  Counter-frame lemmas for C18, part 2: the handlers of `Irc/HChannel.lean`.
-/
import Irc.Props.C18CountersLemmas1

namespace Irc.C18C
open Irc Irc.Conc

section
variable {cfg : Cfg} {i : Nat} {d : Nat} {x : Ctx}

@[bc_push] theorem namesLines_bc (cn' : Conn) (chname : Str) (ch : Channel) (users : Map User) :
    namesLines cfg cn' chname ch users (x.bc i) = (namesLines cfg cn' chname ch users x).bc i := by
  unfold namesLines
  bcf

@[bc_push] theorem sendNamesFromChannel_bc (chname : Str) (ch : Channel) (e : Bool) :
    sendNamesFromChannel cfg d chname ch e (x.bc i) =
      (sendNamesFromChannel cfg d chname ch e x).bc i := by
  unfold sendNamesFromChannel
  bcf

@[bc_push] theorem processNames_bc (chs : List Str) :
    processNames cfg d chs (x.bc i) = (processNames cfg d chs x).bc i := by
  unfold processNames
  bcf

@[bc_read] theorem joinDecide_bcW (w : World) (cn' : Conn) (nick : Str) (inv : KSet) (chs : List Str)
    (keys : List (Option Str)) (cnt : Nat) :
    joinDecide cfg (w.bcW i) cn' nick inv chs keys cnt = joinDecide cfg w cn' nick inv chs keys cnt := by
  induction chs generalizing keys cnt with
  | nil => rfl
  | cons a l ih =>
    simp only [joinDecide, bcW_channels, ih]
    rfl

@[bc_push] theorem joinApply_bcW (nick : Str) (ds : List (Bool × Bool)) (chs : List Str) (w : World) :
    joinApply nick ds chs (w.bcW i) = (joinApply nick ds chs w).bcW i := by
  fun_induction joinApply nick ds chs w with
  | case1 join create ds chn chs w w1 ih =>
    rw [joinApply, ← ih]
    congr 1
    simp only [w1]
    bcf
  | case2 ds chs w h =>
    rw [joinApply]
    · intro a b c d e; exact h a b c d e

@[bc_push] theorem joinAnnounce_bc (nick : Str) (ds : List (Bool × Bool)) (chs : List Str) :
    joinAnnounce cfg d nick ds chs (x.bc i) = (joinAnnounce cfg d nick ds chs x).bc i := by
  fun_induction joinAnnounce cfg d nick ds chs x with
  | case1 join create ds chn chs x x1 ih =>
    rw [joinAnnounce, ← ih]
    congr 1
    simp only [x1]
    bcf
  | case2 ds chs x h =>
    rw [joinAnnounce]
    · intro a b c d e; exact h a b c d e

@[bc_push] theorem removeUserFromChannel_bcW (w : World) (ch n : Str) :
    (w.bcW i).removeUserFromChannel ch n = (w.removeUserFromChannel ch n).bcW i := by
  unfold World.removeUserFromChannel
  bcf

@[bc_push] theorem processJoin_bc (chs : List Str) (keys : Option (List Str)) :
    processJoin cfg d chs keys (x.bc i) = (processJoin cfg d chs keys x).bc i := by
  unfold processJoin
  bcf

@[bc_push] theorem processPart_bc (chs : List Str) (r : Option Str) :
    processPart cfg d chs r (x.bc i) = (processPart cfg d chs r x).bc i := by
  unfold processPart
  bcf

@[bc_push] theorem processTopic_bc (ch : Str) (t : Option Str) (msg : Message) :
    processTopic cfg d ch t msg (x.bc i) = (processTopic cfg d ch t msg x).bc i := by
  unfold processTopic
  bcf

@[bc_push] theorem listLine_bc (client chn : Str) (ch : Channel) :
    listLine cfg client chn ch (x.bc i) = (listLine cfg client chn ch x).bc i := rfl

@[bc_push] theorem processList_bc (chs : List Str) (srv : Option Str) :
    processList cfg d chs srv (x.bc i) = (processList cfg d chs srv x).bc i := by
  unfold processList
  bcf

@[bc_push] theorem processInvite_bc (n ch : Str) (msg : Message) :
    processInvite cfg d n ch msg (x.bc i) = (processInvite cfg d n ch msg x).bc i := by
  unfold processInvite
  bcf

@[bc_push] theorem processKick_bc (ch : Str) (us : List Str) (cm : Option Str) :
    processKick cfg d ch us cm (x.bc i) = (processKick cfg d ch us cm x).bc i := by
  unfold processKick
  bcf

end

end Irc.C18C
