/-
  Property C08.  "A channel's flags, key, limit, mask lists and member ranks change only through
  MODE from a current member of sufficient rank: founder status (q) by a founder, protected (a) by
  founder or protected, operator and half-operator (o, h) by operator or above, and voice, bans,
  exceptions, invite-exceptions, key, limit and the i/m/t/n/s flags by half-operator or above;
  outsiders and lower ranks are answered with ERR_NOTONCHANNEL or ERR_CHANOPRIVSNEEDED and change
  nothing.  Each accepted change is applied, announced to all members, shown by later
  MODE/NAMES/WHO queries and enforced ...; each refused change leaves all of these as they were."

  Model: `Irc.mayChange`, `Irc.modeChar` (one mode letter), `Irc.modeGroup`, `Irc.processModeChannel`,
  `Irc.processMode`, `Irc.Channel.setRank`, `Irc.modeAnnouncement`, `Irc.ChannelModes.render`.
  Helper lemmas: `Irc/Props/ChanPrivLemmas.lean`.
-/
import Irc.Props.ChanPrivLemmas
namespace Irc.C08
open Irc Reply

/-! ## 0. vocabulary -/

namespace Spec

/-- the fifteen channel-mode letters the statement talks about -/
def letters : List Char := ['q', 'a', 'o', 'h', 'v', 'b', 'e', 'I', 'k', 'l', 'i', 'm', 't', 'n', 's']

example : letters = str "qaohvbeIklimtns" := by decide

/-- The privilege matrix, in the words of the statement: the rank a member needs to change
    the mode named by `letter`. -/
def required (letter : Char) (m : ChanUserModes) : Bool :=
  if letter = 'q' then m.founder
  else if letter = 'a' then m.founder || m.prot
  else if letter = 'o' ∨ letter = 'h' then m.founder || m.prot || m.operator
  else if letter ∈ ['v', 'b', 'e', 'I', 'k', 'l', 'i', 'm', 't', 'n', 's'] then
    m.founder || m.prot || m.operator || m.halfOper
  else false

/-- the letters that take their argument from the argument list even when refused -/
def takesArg : List Char := ['q', 'a', 'o', 'h', 'v', 'b', 'e', 'I']

end Spec

/-- a server reply `t` as the line written to the acting connection -/
def srvLine (cfg : Cfg) (t : Str) : Str := str ":" ++ cfg.name ++ str " " ++ t

/-! ## 1. the privilege matrix -/

theorem mayChange_eq_spec (chum : ChanUserModes) (l : Char) (hl : l ∈ Spec.letters) :
    mayChange chum l = Spec.required l chum := by
  simp only [Spec.letters, List.mem_cons, List.not_mem_nil, or_false] at hl
  rcases hl with rfl | rfl | rfl | rfl | rfl | rfl | rfl | rfl | rfl | rfl | rfl | rfl | rfl | rfl | rfl
  all_goals
    simp [mayChange, Spec.required, ChanUserModes.isProtected, ChanUserModes.isOperator,
      ChanUserModes.isHalfOperator]

example : Spec.required 'q' { operator := true, prot := true } = false := by decide
example : Spec.required 'a' { prot := true } = true := by decide
example : Spec.required 'o' { halfOper := true } = false := by decide
example : Spec.required 'v' { halfOper := true } = true := by decide
example : Spec.required 'b' { voice := true } = false := by decide

/-! ## 2. a refused letter changes nothing -/

/-- For each of the fifteen letters, when the actor's rank is insufficient (and the letter is
    not a pure list query `b`/`e`/`I` without argument, and a rank letter has its argument):
    the channel, the three announcement accumulators, the sign, the world and the queues are
    untouched; exactly one 482 is written, followed by one 441 exactly when a rank letter names
    a non-member; the argument is consumed exactly by the letters in `Spec.takesArg`. -/
theorem modeChar_refused_unchanged (cfg : Cfg) (cn : Conn) (target : Str) (chum : ChanUserModes)
    (a : ModeAcc) (l : Char) (hl : l ∈ Spec.letters) (hreq : Spec.required l chum = false)
    (harg : l ∈ Spec.takesArg → a.args ≠ []) :
    let a' := modeChar cfg cn target chum a l
    a'.ch = a.ch ∧ a'.setStr = a.setStr ∧ a'.unsetStr = a.unsetStr ∧ a'.paramsStr = a.paramsStr ∧
    a'.modeSet = a.modeSet ∧ a'.x.w = a.x.w ∧ a'.x.queued = a.x.queued ∧
    a'.x.direct = a.x.direct ++ [srvLine cfg (ErrChanOpPrivsNeeded482 cn.clientName target)] ++
      (if l ∈ rankLetters ∧ Map.contains (a.args.headD []) a.ch.users = false then
        [srvLine cfg (ErrUserNotInChannel441 cn.clientName (a.args.headD []) target)] else []) ∧
    a'.args = if l ∈ Spec.takesArg then a.args.tail else a.args := by
  simp only [Spec.letters, List.mem_cons, List.not_mem_nil, or_false] at hl
  cases hargs : a.args with
  | nil =>
    by_cases hm : l ∈ Spec.takesArg
    · exact absurd hargs (harg hm)
    · rcases hl with rfl | rfl | rfl | rfl | rfl | rfl | rfl | rfl | rfl | rfl | rfl | rfl | rfl | rfl | rfl
      all_goals first
        | (simp [Spec.takesArg] at hm; done)
        | (simp [Spec.required] at hreq
           simp [modeChar, mayChange, ChanUserModes.isHalfOperator, hreq, hargs, srvLine, str,
             Spec.takesArg, rankLetters])
  | cons arg rest =>
    rcases hl with rfl | rfl | rfl | rfl | rfl | rfl | rfl | rfl | rfl | rfl | rfl | rfl | rfl | rfl | rfl
    all_goals
      simp [Spec.required] at hreq
      by_cases hc : Map.contains arg a.ch.users = true
      all_goals
        simp [modeChar, mayChange, ChanUserModes.isHalfOperator, ChanUserModes.isOperator,
          ChanUserModes.isProtected, hreq, hargs, srvLine, str, Spec.takesArg, rankLetters, hc]

/-- The two cases excluded above, for completeness.  A rank letter without an argument hits an
    `unwrap` site (the parser never lets this through): channel and accumulators unchanged.
    `b`/`e`/`I` without argument is a list query open to every member: only replies. -/
theorem modeChar_noarg (cfg : Cfg) (cn : Conn) (target : Str) (chum : ChanUserModes)
    (a : ModeAcc) (l : Char) (hl : l ∈ Spec.takesArg) (hargs : a.args = []) :
    let a' := modeChar cfg cn target chum a l
    a'.ch = a.ch ∧ a'.setStr = a.setStr ∧ a'.unsetStr = a.unsetStr ∧ a'.paramsStr = a.paramsStr ∧
    a'.modeSet = a.modeSet ∧ a'.args = [] ∧ a'.x.queued = a.x.queued ∧
    (l ∈ rankLetters → a'.x.w = a.x.w.panic "mode: rank letter without argument") ∧
    (l ∉ rankLetters → a'.x.w = a.x.w) := by
  simp only [Spec.takesArg, List.mem_cons, List.not_mem_nil, or_false] at hl
  rcases hl with rfl | rfl | rfl | rfl | rfl | rfl | rfl | rfl
  all_goals
    by_cases hm : mayChange chum _ = true
    all_goals simp [modeChar, hargs, rankLetters, hm]
  all_goals
    refine ⟨(foldl_reply_frame cfg _ _ a.x).1, (foldl_reply_frame cfg _ _ a.x).2.1⟩

/-! ## 3. accepted rank letters `q a o h v` -/

/-- With sufficient rank, `±ℓ arg` for a member `arg` applies `Channel.setRank` (described by
    `setRank_mirror` below) and adds `" ±ℓ arg"` to the announced parameters, writing nothing;
    for a non-member the channel is unchanged and one 441 is written. -/
theorem modeChar_rank_spec (cfg : Cfg) (cn : Conn) (target : Str) (chum : ChanUserModes)
    (a : ModeAcc) (l : Char) (hl : l ∈ rankLetters) (hreq : Spec.required l chum = true)
    (arg : Str) (rest : List Str) (hargs : a.args = arg :: rest) :
    let a' := modeChar cfg cn target chum a l
    (∀ m, Map.lookup arg a.ch.users = some m →
      ∃ ch', a.ch.setRank l arg a.modeSet = some ch' ∧ a'.ch = ch' ∧
        a'.paramsStr = a.paramsStr ++ (if a.modeSet then str " +" else str " -") ++ [l, ' '] ++ arg ∧
        a'.x = a.x) ∧
    (Map.lookup arg a.ch.users = none →
      a'.ch = a.ch ∧ a'.paramsStr = a.paramsStr ∧ a'.x.w = a.x.w ∧ a'.x.queued = a.x.queued ∧
      a'.x.direct = a.x.direct ++ [srvLine cfg (ErrUserNotInChannel441 cn.clientName arg target)]) ∧
    a'.args = rest ∧ a'.setStr = a.setStr ∧ a'.unsetStr = a.unsetStr ∧ a'.modeSet = a.modeSet := by
  have hmay : mayChange chum l = true := by
    rw [mayChange_eq_spec chum l (by
      simp only [rankLetters, List.mem_cons, List.not_mem_nil, or_false] at hl
      rcases hl with rfl | rfl | rfl | rfl | rfl <;> simp [Spec.letters])]
    exact hreq
  simp only [rankLetters, List.mem_cons, List.not_mem_nil, or_false] at hl
  cases hm : Map.lookup arg a.ch.users with
  | none =>
    rcases hl with rfl | rfl | rfl | rfl | rfl
    all_goals simp [modeChar, hmay, hargs, Map.contains, hm, srvLine, str]
  | some m =>
    obtain ⟨ch', hch'⟩ : ∃ ch', a.ch.setRank l arg a.modeSet = some ch' := by
      cases h : a.ch.setRank l arg a.modeSet with
      | none => rw [Channel.setRank_eq_none] at h; simp [hm] at h
      | some ch' => exact ⟨ch', rfl⟩
    rcases hl with rfl | rfl | rfl | rfl | rfl
    all_goals simp [modeChar, hmay, hargs, Map.contains, hm, hch']

/-- `Channel.setRank` keeps the rank lists and the member flags in step (invariant I3), sets
    exactly flag `ℓ` of member `n` to `on` (and the membership of `n` in list `ℓ`), and leaves every
    other member, every other flag, every other rank list and all other channel settings alone. -/
theorem setRank_mirror (C C' : Channel) (l : Char) (hl : l ∈ rankLetters) (n : Str) (on : Bool)
    (h : C.setRank l n on = some C') :
    (RankMirror C → RankMirror C') ∧
    (∃ m m', Map.lookup n C.users = some m ∧ Map.lookup n C'.users = some m' ∧
      rankFlag m' l = on ∧ (∀ l', l' ≠ l → rankFlag m' l' = rankFlag m l')) ∧
    (∀ n', n' ≠ n → Map.lookup n' C'.users = Map.lookup n' C.users) ∧
    (∀ n', KSet.mem n' (rankList C'.modes l) = if n' = n then on else KSet.mem n' (rankList C.modes l)) ∧
    (∀ l', l' ≠ l → rankList C'.modes l' = rankList C.modes l') ∧
    Map.keys C'.users = Map.keys C.users ∧ SameSettings C C' := by
  obtain ⟨m, m', h1, h2, h3, h4, h5, h6, h7, h8, h9⟩ := Channel.setRank_spec C C' l hl n on h
  exact ⟨fun hC => Channel.setRank_mirror C C' l hl n on hC h, ⟨m, m', h1, h2, h3, h4⟩, h5, h6, h7, h8, h9⟩

/-- `setRank` succeeds exactly for members. -/
theorem setRank_isSome_iff (C : Channel) (l : Char) (n : Str) (on : Bool) :
    (C.setRank l n on).isSome = Map.contains n C.users := by
  unfold Channel.setRank Map.contains
  cases Map.lookup n C.users <;> rfl
