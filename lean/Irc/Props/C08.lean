/-
  Property C08.  "A channel's flags, key, limit, mask lists and member ranks change only through
  MODE from a current member of sufficient rank: founder status (q) by a founder, protected (a) by
  founder or protected, operator and half-operator (o, h) by operator or above, and voice, bans,
  exceptions, invite-exceptions, key, limit and the i/m/t/n/s flags by half-operator or above;
  outsiders and lower ranks are answered with ERR_NOTONCHANNEL or ERR_CHANOPRIVSNEEDED and change
  nothing.  Each accepted change is applied, announced to all members, shown by later
  MODE/NAMES/WHO queries and enforced ...; each refused change leaves all of these as they were."

  Model: `Irc.mayChange`, `Irc.modeChar` (one mode letter), `Irc.modeGroup`, `Irc.processModeChannel`,
  `Irc.processMode`, `Irc.Channel.setRank`, `Irc.modeAnnouncement`, `Irc.ChannelModes.render`.
  Helper lemmas: `Irc/Props/ChanPrivLemmas.lean`.
-/
import Irc.Props.ChanPrivLemmas
namespace Irc.C08
open Irc Reply

/-! ## 0. vocabulary -/

namespace Spec

/-- the fifteen channel-mode letters the statement talks about -/
def letters : List Char := ['q', 'a', 'o', 'h', 'v', 'b', 'e', 'I', 'k', 'l', 'i', 'm', 't', 'n', 's']

example : letters = str "qaohvbeIklimtns" := by decide

/-- The privilege matrix, in the words of the statement: the rank a member needs to change
    the mode named by `letter`. -/
def required (letter : Char) (m : ChanUserModes) : Bool :=
  if letter = 'q' then m.founder
  else if letter = 'a' then m.founder || m.prot
  else if letter = 'o' ∨ letter = 'h' then m.founder || m.prot || m.operator
  else if letter ∈ ['v', 'b', 'e', 'I', 'k', 'l', 'i', 'm', 't', 'n', 's'] then
    m.founder || m.prot || m.operator || m.halfOper
  else false

/-- the letters that take their argument from the argument list even when refused -/
def takesArg : List Char := ['q', 'a', 'o', 'h', 'v', 'b', 'e', 'I']

end Spec

/-- a server reply `t` as the line written to the acting connection -/
def srvLine (cfg : Cfg) (t : Str) : Str := str ":" ++ cfg.name ++ str " " ++ t

/-! ## 1. the privilege matrix -/

theorem mayChange_eq_spec (chum : ChanUserModes) (l : Char) (hl : l ∈ Spec.letters) :
    mayChange chum l = Spec.required l chum := by
  simp only [Spec.letters, List.mem_cons, List.not_mem_nil, or_false] at hl
  rcases hl with rfl | rfl | rfl | rfl | rfl | rfl | rfl | rfl | rfl | rfl | rfl | rfl | rfl | rfl | rfl
  all_goals
    simp [mayChange, Spec.required, ChanUserModes.isProtected, ChanUserModes.isOperator,
      ChanUserModes.isHalfOperator]

example : Spec.required 'q' { operator := true, prot := true } = false := by decide
example : Spec.required 'a' { prot := true } = true := by decide
example : Spec.required 'o' { halfOper := true } = false := by decide
example : Spec.required 'v' { halfOper := true } = true := by decide
example : Spec.required 'b' { voice := true } = false := by decide

/-! ## 2. a refused letter changes nothing -/

/-- For each of the fifteen letters, when the actor's rank is insufficient (and the letter is
    not a pure list query `b`/`e`/`I` without argument, and a rank letter has its argument):
    the channel, the three announcement accumulators, the sign, the world and the queues are
    untouched; exactly one 482 is written, followed by one 441 exactly when a rank letter names
    a non-member; the argument is consumed exactly by the letters in `Spec.takesArg`. -/
theorem modeChar_refused_unchanged (cfg : Cfg) (cn : Conn) (target : Str) (chum : ChanUserModes)
    (a : ModeAcc) (l : Char) (hl : l ∈ Spec.letters) (hreq : Spec.required l chum = false)
    (harg : l ∈ Spec.takesArg → a.args ≠ []) :
    let a' := modeChar cfg cn target chum a l
    a'.ch = a.ch ∧ a'.setStr = a.setStr ∧ a'.unsetStr = a.unsetStr ∧ a'.paramsStr = a.paramsStr ∧
    a'.modeSet = a.modeSet ∧ a'.x.w = a.x.w ∧ a'.x.queued = a.x.queued ∧
    a'.x.direct = a.x.direct ++ [srvLine cfg (ErrChanOpPrivsNeeded482 cn.clientName target)] ++
      (if l ∈ rankLetters ∧ Map.contains (a.args.headD []) a.ch.users = false then
        [srvLine cfg (ErrUserNotInChannel441 cn.clientName (a.args.headD []) target)] else []) ∧
    a'.args = if l ∈ Spec.takesArg then a.args.tail else a.args := by
  simp only [Spec.letters, List.mem_cons, List.not_mem_nil, or_false] at hl
  cases hargs : a.args with
  | nil =>
    by_cases hm : l ∈ Spec.takesArg
    · exact absurd hargs (harg hm)
    · rcases hl with rfl | rfl | rfl | rfl | rfl | rfl | rfl | rfl | rfl | rfl | rfl | rfl | rfl | rfl | rfl
      all_goals first
        | (simp [Spec.takesArg] at hm; done)
        | (simp [Spec.required] at hreq
           simp [modeChar, mayChange, ChanUserModes.isHalfOperator, hreq, hargs, srvLine, str,
             Spec.takesArg, rankLetters])
  | cons arg rest =>
    rcases hl with rfl | rfl | rfl | rfl | rfl | rfl | rfl | rfl | rfl | rfl | rfl | rfl | rfl | rfl | rfl
    all_goals
      simp [Spec.required] at hreq
      by_cases hc : Map.contains arg a.ch.users = true
      all_goals
        simp [modeChar, mayChange, ChanUserModes.isHalfOperator, ChanUserModes.isOperator,
          ChanUserModes.isProtected, hreq, hargs, srvLine, str, Spec.takesArg, rankLetters, hc]

/-- The two cases excluded above, for completeness.  A rank letter without an argument hits an
    `unwrap` site (the parser never lets this through): channel and accumulators unchanged.
    `b`/`e`/`I` without argument is a list query open to every member: only replies. -/
theorem modeChar_noarg (cfg : Cfg) (cn : Conn) (target : Str) (chum : ChanUserModes)
    (a : ModeAcc) (l : Char) (hl : l ∈ Spec.takesArg) (hargs : a.args = []) :
    let a' := modeChar cfg cn target chum a l
    a'.ch = a.ch ∧ a'.setStr = a.setStr ∧ a'.unsetStr = a.unsetStr ∧ a'.paramsStr = a.paramsStr ∧
    a'.modeSet = a.modeSet ∧ a'.args = [] ∧ a'.x.queued = a.x.queued ∧
    (l ∈ rankLetters → a'.x.w = a.x.w.panic "mode: rank letter without argument") ∧
    (l ∉ rankLetters → a'.x.w = a.x.w) := by
  simp only [Spec.takesArg, List.mem_cons, List.not_mem_nil, or_false] at hl
  by_cases hm : mayChange chum l = true
  all_goals
    rcases hl with rfl | rfl | rfl | rfl | rfl | rfl | rfl | rfl
    all_goals simp [modeChar, hargs, rankLetters, hm]
  all_goals
    refine ⟨(foldl_reply_frame cfg _ _ a.x).1, (foldl_reply_frame cfg _ _ a.x).2.1⟩

/-! ## 3. accepted rank letters `q a o h v` -/

/-- With sufficient rank, `±ℓ arg` for a member `arg` applies `Channel.setRank` (described by
    `setRank_mirror` below) and adds `" ±ℓ arg"` to the announced parameters, writing nothing;
    for a non-member the channel is unchanged and one 441 is written. -/
theorem modeChar_rank_spec (cfg : Cfg) (cn : Conn) (target : Str) (chum : ChanUserModes)
    (a : ModeAcc) (l : Char) (hl : l ∈ rankLetters) (hreq : Spec.required l chum = true)
    (arg : Str) (rest : List Str) (hargs : a.args = arg :: rest) :
    let a' := modeChar cfg cn target chum a l
    (∀ m, Map.lookup arg a.ch.users = some m →
      ∃ ch', a.ch.setRank l arg a.modeSet = some ch' ∧ a'.ch = ch' ∧
        a'.paramsStr = a.paramsStr ++ (if a.modeSet then str " +" else str " -") ++ [l, ' '] ++ arg ∧
        a'.x = a.x) ∧
    (Map.lookup arg a.ch.users = none →
      a'.ch = a.ch ∧ a'.paramsStr = a.paramsStr ∧ a'.x.w = a.x.w ∧ a'.x.queued = a.x.queued ∧
      a'.x.direct = a.x.direct ++ [srvLine cfg (ErrUserNotInChannel441 cn.clientName arg target)]) ∧
    a'.args = rest ∧ a'.setStr = a.setStr ∧ a'.unsetStr = a.unsetStr ∧ a'.modeSet = a.modeSet := by
  have hmay : mayChange chum l = true := by
    rw [mayChange_eq_spec chum l (by
      simp only [rankLetters, List.mem_cons, List.not_mem_nil, or_false] at hl
      rcases hl with rfl | rfl | rfl | rfl | rfl <;> simp [Spec.letters])]
    exact hreq
  simp only [rankLetters, List.mem_cons, List.not_mem_nil, or_false] at hl
  cases hm : Map.lookup arg a.ch.users with
  | none =>
    rcases hl with rfl | rfl | rfl | rfl | rfl
    all_goals simp [modeChar, hmay, hargs, Map.contains, hm, srvLine, str]
  | some m =>
    obtain ⟨ch', hch'⟩ : ∃ ch', a.ch.setRank l arg a.modeSet = some ch' := by
      cases h : a.ch.setRank l arg a.modeSet with
      | none => rw [Channel.setRank_eq_none] at h; simp [hm] at h
      | some ch' => exact ⟨ch', rfl⟩
    rcases hl with rfl | rfl | rfl | rfl | rfl
    all_goals simp [modeChar, hmay, hargs, Map.contains, hm, hch']

/-- `Channel.setRank` keeps the rank lists and the member flags in step (invariant I3), sets
    exactly flag `ℓ` of member `n` to `on` (and the membership of `n` in list `ℓ`), and leaves every
    other member, every other flag, every other rank list and all other channel settings alone. -/
theorem setRank_mirror (C C' : Channel) (l : Char) (hl : l ∈ rankLetters) (n : Str) (on : Bool)
    (h : C.setRank l n on = some C') :
    (RankMirror C → RankMirror C') ∧
    (∃ m m', Map.lookup n C.users = some m ∧ Map.lookup n C'.users = some m' ∧
      rankFlag m' l = on ∧ (∀ l', l' ≠ l → rankFlag m' l' = rankFlag m l')) ∧
    (∀ n', n' ≠ n → Map.lookup n' C'.users = Map.lookup n' C.users) ∧
    (∀ n', KSet.mem n' (rankList C'.modes l) = if n' = n then on else KSet.mem n' (rankList C.modes l)) ∧
    (∀ l', l' ≠ l → rankList C'.modes l' = rankList C.modes l') ∧
    Map.keys C'.users = Map.keys C.users ∧ SameSettings C C' := by
  obtain ⟨m, m', h1, h2, h3, h4, h5, h6, h7, h8, h9⟩ := Channel.setRank_spec C C' l hl n on h
  exact ⟨fun hC => Channel.setRank_mirror C C' l hl n on hC h, ⟨m, m', h1, h2, h3, h4⟩, h5, h6, h7, h8, h9⟩

/-- `setRank` succeeds exactly for members. -/
theorem setRank_isSome_iff (C : Channel) (l : Char) (n : Str) (on : Bool) :
    (C.setRank l n on).isSome = Map.contains n C.users := by
  unfold Channel.setRank Map.contains
  cases Map.lookup n C.users <;> rfl

/-! ## 4. accepted flags, key, limit and mask lists -/

namespace Spec
/-- the five Boolean channel flags -/
def flagLetters : List Char := ['i', 'm', 't', 'n', 's']

/-- "the Boolean named by `l` becomes `b`, everything else stays" -/
def withFlag (m : ChannelModes) (l : Char) (b : Bool) : ChannelModes :=
  if l = 'i' then { m with inviteOnly := b }
  else if l = 'm' then { m with moderated := b }
  else if l = 't' then { m with protectedTopic := b }
  else if l = 'n' then { m with noExternalMessages := b }
  else if l = 's' then { m with secret := b }
  else m
end Spec

/-- sufficient rank for every letter of the half-operator class -/
theorem halfop_of_required (chum : ChanUserModes) (l : Char)
    (hl : l ∈ ['v', 'b', 'e', 'I', 'k', 'l', 'i', 'm', 't', 'n', 's']) :
    Spec.required l chum = chum.isHalfOperator := by
  simp only [List.mem_cons, List.not_mem_nil, or_false] at hl
  rcases hl with rfl | rfl | rfl | rfl | rfl | rfl | rfl | rfl | rfl | rfl | rfl
  all_goals simp [Spec.required, ChanUserModes.isHalfOperator]

/-- `±i ±m ±t ±n ±s` with sufficient rank: exactly that Boolean becomes the current sign, the
    letter is appended to the `+` or `-` part of the announcement, nothing is written. -/
theorem modeChar_flag_spec (cfg : Cfg) (cn : Conn) (target : Str) (chum : ChanUserModes)
    (a : ModeAcc) (l : Char) (hl : l ∈ Spec.flagLetters) (hreq : Spec.required l chum = true) :
    let a' := modeChar cfg cn target chum a l
    a'.ch = { a.ch with modes := Spec.withFlag a.ch.modes l a.modeSet } ∧
    a'.setStr = (if a.modeSet then a.setStr ++ [l] else a.setStr) ∧
    a'.unsetStr = (if a.modeSet then a.unsetStr else a.unsetStr ++ [l]) ∧
    a'.paramsStr = a.paramsStr ∧ a'.x = a.x ∧ a'.args = a.args ∧ a'.modeSet = a.modeSet := by
  simp only [Spec.flagLetters, List.mem_cons, List.not_mem_nil, or_false] at hl
  have hH : chum.isHalfOperator = true := by
    rw [← halfop_of_required chum l (by rcases hl with rfl | rfl | rfl | rfl | rfl <;> simp)]; exact hreq
  rcases hl with rfl | rfl | rfl | rfl | rfl
  all_goals
    cases hs : a.modeSet
    all_goals simp [modeChar, mayChange, hH, Spec.withFlag, hs]

/-- `+k arg` sets the key to `arg`, `-k` clears it (without taking an argument). -/
theorem modeChar_key_spec (cfg : Cfg) (cn : Conn) (target : Str) (chum : ChanUserModes)
    (a : ModeAcc) (hreq : Spec.required 'k' chum = true) :
    let a' := modeChar cfg cn target chum a 'k'
    (a.modeSet = true → ∀ arg rest, a.args = arg :: rest →
      a'.ch = { a.ch with modes := { a.ch.modes with key := some arg } } ∧
      a'.paramsStr = a.paramsStr ++ str " +k " ++ arg ∧ a'.args = rest ∧
      a'.unsetStr = a.unsetStr) ∧
    (a.modeSet = false →
      a'.ch = { a.ch with modes := { a.ch.modes with key := none } } ∧
      a'.unsetStr = a.unsetStr ++ ['k'] ∧ a'.paramsStr = a.paramsStr ∧ a'.args = a.args) ∧
    (a.modeSet = true → a.args = [] → a'.ch = a.ch ∧ a'.paramsStr = a.paramsStr ∧
      a'.unsetStr = a.unsetStr ∧ a'.x.w = a.x.w.panic "mode: +k without argument") ∧
    (a.modeSet = false ∨ a.args ≠ [] → a'.x = a.x) ∧ a'.x.queued = a.x.queued ∧
    a'.x.direct = a.x.direct ∧ a'.setStr = a.setStr ∧ a'.modeSet = a.modeSet := by
  have hH : chum.isHalfOperator = true := by
    rw [← halfop_of_required chum 'k' (by simp)]; exact hreq
  cases hs : a.modeSet
  · simp [modeChar, mayChange, hH, hs]
  · cases hargs : a.args <;> simp [modeChar, mayChange, hH, hs, hargs]

/-- `+l n` sets the limit to the parsed number, `-l` clears it (without taking an argument). -/
theorem modeChar_limit_spec (cfg : Cfg) (cn : Conn) (target : Str) (chum : ChanUserModes)
    (a : ModeAcc) (hreq : Spec.required 'l' chum = true) :
    let a' := modeChar cfg cn target chum a 'l'
    (a.modeSet = true → ∀ arg rest n, a.args = arg :: rest → parseUnsigned usizeMax arg = .ok n →
      a'.ch = { a.ch with modes := { a.ch.modes with clientLimit := some n } } ∧
      a'.paramsStr = a.paramsStr ++ str " +l " ++ arg ∧ a'.args = rest ∧
      a'.unsetStr = a.unsetStr ∧ a'.x = a.x) ∧
    (a.modeSet = false →
      a'.ch = { a.ch with modes := { a.ch.modes with clientLimit := none } } ∧
      a'.unsetStr = a.unsetStr ++ ['l'] ∧ a'.paramsStr = a.paramsStr ∧ a'.args = a.args ∧ a'.x = a.x) ∧
    (a.modeSet = true → (a.args = [] ∨ ∃ arg rest e, a.args = arg :: rest ∧ parseUnsigned usizeMax arg = .error e) →
      a'.ch = a.ch ∧ a'.paramsStr = a.paramsStr ∧ a'.unsetStr = a.unsetStr ∧ a'.x.w.panicked.isSome = true) ∧
    a'.x.queued = a.x.queued ∧ a'.x.direct = a.x.direct ∧ a'.setStr = a.setStr ∧ a'.modeSet = a.modeSet := by
  have hH : chum.isHalfOperator = true := by
    rw [← halfop_of_required chum 'l' (by simp)]; exact hreq
  cases hs : a.modeSet
  · simp [modeChar, mayChange, hH, hs]
  · cases hargs : a.args with
    | nil => simp [modeChar, mayChange, hH, hs, hargs, World.panic]
    | cons arg rest =>
      cases hp : parseUnsigned usizeMax arg with
      | error e =>
        simp [modeChar, mayChange, hH, hs, hargs, hp, World.panic]
        intro arg' rest' n h1 h2 h3; subst h1; rw [hp] at h3; cases h3
      | ok n0 =>
        simp [modeChar, mayChange, hH, hs, hargs, hp]
        intro arg' rest' n h1 h2 h3; subst h1; rw [hp] at h3; cases h3; exact ⟨rfl, rfl, h2⟩

/-- `±b mask`, `±e mask`, `±I mask` with sufficient rank: the completed mask
    (`normalizeSourcemask`, property C14) is inserted into / erased from the list (for `b` also the
    "who set it" table), `" ±b mask"` is appended to the announced parameters, nothing is written. -/
theorem modeChar_mask_spec (cfg : Cfg) (cn : Conn) (target : Str) (chum : ChanUserModes)
    (a : ModeAcc) (l : Char) (hl : l ∈ ['b', 'e', 'I']) (hreq : Spec.required l chum = true)
    (mask : Str) (rest : List Str) (hargs : a.args = mask :: rest) :
    let a' := modeChar cfg cn target chum a l
    let norm := normalizeSourcemask mask
    let upd (s : KSet) : KSet := if a.modeSet then KSet.insert norm s else KSet.erase norm s
    (l = 'b' → a'.ch = { a.ch with
        modes := { a.ch.modes with ban := upd a.ch.modes.ban }
        banInfo := if a.modeSet then Map.insert norm (cn.nick.getD []) a.ch.banInfo
                   else Map.erase norm a.ch.banInfo }) ∧
    (l = 'e' → a'.ch = { a.ch with modes := { a.ch.modes with exception := upd a.ch.modes.exception } }) ∧
    (l = 'I' → a'.ch = { a.ch with modes := { a.ch.modes with inviteException := upd a.ch.modes.inviteException } }) ∧
    a'.paramsStr = a.paramsStr ++ (if a.modeSet then str " +" else str " -") ++ [l, ' '] ++ norm ∧
    a'.args = rest ∧ a'.x = a.x ∧ a'.setStr = a.setStr ∧ a'.unsetStr = a.unsetStr ∧
    a'.modeSet = a.modeSet := by
  simp only [List.mem_cons, List.not_mem_nil, or_false] at hl
  have hH : chum.isHalfOperator = true := by
    rw [← halfop_of_required chum l (by rcases hl with rfl | rfl | rfl <;> simp)]; exact hreq
  rcases hl with rfl | rfl | rfl
  all_goals
    cases hs : a.modeSet
    all_goals simp [modeChar, hH, hs, hargs, str]

/-! ## 5. outsiders -/

/-- MODE on an existing channel by a non-member: exactly one 442, nothing else happens.
    MODE on an unknown channel: exactly one 403, nothing else happens. -/
theorem mode_outsider (cfg : Cfg) (c : Nat) (target : Str) (modes : List (Str × List Str)) (x : Ctx)
    (nick : Str) (hnick : (x.conn c).nick = some nick) (hchan : validateChannel target = true) :
    let x' := processMode cfg c target modes x
    (∀ ch, Map.lookup target x.w.channels = some ch → Map.lookup nick ch.users = none →
      x'.w = x.w ∧ x'.queued = x.queued ∧
      x'.direct = x.direct ++ [srvLine cfg (ErrNotOnChannel442 (x.conn c).clientName target)]) ∧
    (Map.lookup target x.w.channels = none →
      x'.w = x.w ∧ x'.queued = x.queued ∧
      x'.direct = x.direct ++ [srvLine cfg (ErrNoSuchChannel403 (x.conn c).clientName target)]) := by
  refine ⟨fun ch hch hm => ?_, fun hch => ?_⟩
  · simp [processMode, hnick, hchan, hch, hm, srvLine, str]
  · simp [processMode, hnick, hchan, hch, srvLine, str]

/-! ## 6. the whole command of a member: announcement and frame -/

/-- the accumulator after the MODE loop (all groups, all letters) -/
def modeRun (cfg : Cfg) (cn : Conn) (target : Str) (chum : ChanUserModes) (x : Ctx) (ch : Channel)
    (modes : List (Str × List Str)) : ModeAcc :=
  modes.foldl (modeGroup cfg cn target chum) { x := x, ch := ch, args := [] }

/-- `processMode` by a member is `processModeChannel` with the member's rank at the start of the
    command. -/
theorem mode_member (cfg : Cfg) (c : Nat) (target : Str) (modes : List (Str × List Str)) (x : Ctx)
    (nick : Str) (hnick : (x.conn c).nick = some nick) (hchan : validateChannel target = true)
    (ch : Channel) (hch : Map.lookup target x.w.channels = some ch)
    (chum : ChanUserModes) (hm : Map.lookup nick ch.users = some chum) :
    processMode cfg c target modes x = processModeChannel cfg c target ch modes chum x := by
  simp [processMode, hnick, hchan, hch, hm]

/-- The result of the loop, `a`, is stored as `channels[target]`; nothing else of the world
    changes (users, other channels, counters, connections); if the three accumulators yield an
    announcement `line`, then `":source line"` is queued to every member of the updated channel,
    once each, in member order, and nothing else is queued; if they yield none, nothing is queued.
    The loop never changes the set of members, the topic, the default ranks or the preconfigured
    flag. -/
theorem mode_announced_to_all_members (cfg : Cfg) (c : Nat) (target : Str) (ch : Channel)
    (modes : List (Str × List Str)) (chum : ChanUserModes) (x : Ctx) (hne : modes ≠ [])
    (hmem : ∀ n, Map.contains n ch.users = true → Map.contains n x.w.users = true) :
    let cn := x.conn c
    let a := modeRun cfg cn target chum x ch modes
    let x' := processModeChannel cfg c target ch modes chum x
    x'.w = { x.w with channels := Map.insert target a.ch x.w.channels, panicked := a.x.w.panicked } ∧
    x'.direct = a.x.direct ∧
    (∀ line, modeAnnouncement target a.setStr a.unsetStr a.paramsStr = some line →
      x'.queued = x.queued ++
        (Map.keys a.ch.users).map (fun n => (ownerOf x.w n, str ":" ++ cn.source ++ str " " ++ line))) ∧
    (modeAnnouncement target a.setStr a.unsetStr a.paramsStr = none → x'.queued = x.queued) ∧
    Map.keys a.ch.users = Map.keys ch.users ∧ a.ch.topic = ch.topic ∧
    a.ch.defaultModes = ch.defaultModes ∧ a.ch.preconfigured = ch.preconfigured ∧
    ((Map.keys ch.users).Nodup → ∀ n ∈ Map.keys a.ch.users, (Map.keys a.ch.users).count n = 1) := by
  intro cn a x'
  obtain ⟨h1, h2, h3⟩ := processModeChannel_nonempty cfg c target ch modes chum x hne hmem
  have hfr : ModeFrame { x := x, ch := ch, args := [] } a := modeRun_frame cfg cn target chum _ modes
  refine ⟨h1, h2, ?_, ?_, hfr.keys, hfr.topic, hfr.defaultModes, hfr.preconfigured, ?_⟩
  · intro line hl
    rw [h3]
    show _ ++ (match modeAnnouncement target a.setStr a.unsetStr a.paramsStr with
      | some line => _ | none => _) = _
    rw [hl]; simp [str]; rfl
  · intro hl
    rw [h3]
    show _ ++ (match modeAnnouncement target a.setStr a.unsetStr a.paramsStr with
      | some line => _ | none => _) = _
    rw [hl]; simp
  · intro hnd n hn
    have hk : Map.keys a.ch.users = Map.keys ch.users := hfr.keys
    rw [hk] at hn ⊢
    have h1 := List.nodup_iff_count.mp hnd n
    have h2 := List.count_pos_iff.mpr hn
    omega

/-- what is announced: nothing iff no accepted change was recorded; otherwise
    `MODE target [+set][-unset][ params]`. -/
theorem modeAnnouncement_none_iff (target setStr unsetStr paramsStr : Str) :
    modeAnnouncement target setStr unsetStr paramsStr = none ↔
      setStr = [] ∧ unsetStr = [] ∧ paramsStr = [] := by
  unfold modeAnnouncement
  cases setStr <;> cases unsetStr <;> cases paramsStr <;> simp

/-- A member below half-operator cannot change anything with a whole MODE command, whatever the
    mode string: `channels[target]` is rewritten with the same value, nothing is announced. -/
theorem mode_lowrank_changes_nothing (cfg : Cfg) (c : Nat) (target : Str) (ch : Channel)
    (modes : List (Str × List Str)) (chum : ChanUserModes) (x : Ctx)
    (hlow : chum.isHalfOperator = false) (hch : Map.lookup target x.w.channels = some ch) :
    let x' := processModeChannel cfg c target ch modes chum x
    x'.w.channels = x.w.channels ∧ x'.w.users = x.w.users ∧ x'.queued = x.queued := by
  intro x'
  by_cases hne : modes = []
  · subst hne; simp [x', processModeChannel]
  · have hs := modeRun_lowrank cfg (x.conn c) target chum { x := x, ch := ch, args := [] } modes hlow
    have hfr := modeRun_frame cfg (x.conn c) target chum { x := x, ch := ch, args := [] } modes
    obtain ⟨hq, ⟨p, hw⟩, -, -, -, -, -⟩ := hfr
    have hemp : modes.isEmpty = false := by cases modes <;> simp_all
    have hann : modeAnnouncement target
        (modes.foldl (modeGroup cfg (x.conn c) target chum) { x := x, ch := ch, args := [] }).setStr
        (modes.foldl (modeGroup cfg (x.conn c) target chum) { x := x, ch := ch, args := [] }).unsetStr
        (modes.foldl (modeGroup cfg (x.conn c) target chum) { x := x, ch := ch, args := [] }).paramsStr = none := by
      rw [hs.setStr, hs.unsetStr, hs.paramsStr]; rfl
    show (processModeChannel cfg c target ch modes chum x).w.channels = _ ∧
      (processModeChannel cfg c target ch modes chum x).w.users = _ ∧
      (processModeChannel cfg c target ch modes chum x).queued = _
    unfold processModeChannel
    simp only [hemp, Bool.false_eq_true, ↓reduceIte, hann, Ctx.modifyW_w, Ctx.modifyW_queued, hs.ch, hw, hq]
    exact ⟨Map.insert_lookup_self _ _ _ hch, trivial, trivial⟩

/-! ## 7. the query form shows the stored modes -/

/-- `MODE #chan` (no mode string) by a member: 324 with the rendered modes of the channel as it
    is stored, then 329; nothing changes. -/
theorem mode_query_shows (cfg : Cfg) (c : Nat) (target : Str) (ch : Channel) (chum : ChanUserModes)
    (x : Ctx) :
    let x' := processModeChannel cfg c target ch [] chum x
    x'.w = x.w ∧ x'.queued = x.queued ∧
    x'.direct = x.direct ++
      [srvLine cfg (RplChannelModeIs324 (x.conn c).clientName target ch.modes.render),
       srvLine cfg (RplCreationTime329 (x.conn c).clientName target 0)] := by
  simp [processModeChannel, srvLine, str]

/-! ## 8. examples on a concrete channel
    `#c` = alice (founder, operator), hank (half-operator), vic (voice), pat (plain); `out` is not a
    member.  Connection ids 1..5 in that order. -/

namespace Ex
open PrivEx

-- half-operator hank sets +m: applied, announced once to each of the four members
example : (processMode cfg 2 (str "#c") [(str "+m", [])] x0).queued =
    [(1, str ":hank!~hank@h MODE #c +m"), (2, str ":hank!~hank@h MODE #c +m"),
     (3, str ":hank!~hank@h MODE #c +m"), (4, str ":hank!~hank@h MODE #c +m")] := by decide
example : (chanAfter (processMode cfg 2 (str "#c") [(str "+m", [])] x0)).map (·.modes.moderated) =
    some true := by decide
-- ... and a later query shows it
example : (processMode cfg 4 (str "#c") []
      { w := (processMode cfg 2 (str "#c") [(str "+m", [])] x0).w }).direct =
    [str ":irc.irc 324 pat #c +m +q alice +o alice +h hank +v vic", (str ":irc.irc " ++ Reply.RplCreationTime329 (client := str "pat") (channel := str "#c") (creation_time := 0))] := by
  decide

-- half-operator hank may give voice, but not operator, half-operator, protected or founder status
example : rankAfter (processMode cfg 2 (str "#c") [(str "+v", [str "pat"])] x0) "pat" = some (str "v") := by
  decide
example : let x := processMode cfg 2 (str "#c") [(str "+o", [str "pat"])] x0
    chanAfter x = some chan ∧ x.queued = [] ∧
    x.direct = [(str ":irc.irc " ++ Reply.ErrChanOpPrivsNeeded482 (client := str "hank") (channel := str "#c"))] := by decide
example : let x := processMode cfg 2 (str "#c") [(str "+hqa", [str "pat", str "pat", str "pat"])] x0
    chanAfter x = some chan ∧ x.queued = [] ∧
    x.direct = [(str ":irc.irc " ++ Reply.ErrChanOpPrivsNeeded482 (client := str "hank") (channel := str "#c")),
                (str ":irc.irc " ++ Reply.ErrChanOpPrivsNeeded482 (client := str "hank") (channel := str "#c")),
                (str ":irc.irc " ++ Reply.ErrChanOpPrivsNeeded482 (client := str "hank") (channel := str "#c"))] := by decide

-- the founder may do all of it; rank lists and member flags move together
example : let x := processMode cfg 1 (str "#c") [(str "+oa-h", [str "hank", str "hank", str "hank"])] x0
    rankAfter x "hank" = some (str "ao") ∧
    (chanAfter x).map (fun C => (C.modes.operators, C.modes.protecteds, C.modes.halfOperators)) =
      some ([str "alice", str "hank"], [str "hank"], []) ∧
    x.queued.map (·.2) = List.replicate 4 (str ":alice!~alice@h MODE #c +o hank +a hank -h hank") ∧
    (chanAfter x).map rankMirrorCheck = some true := by decide

-- voice and plain members change nothing and get 482; nothing is announced
example : let x := processMode cfg 3 (str "#c") [(str "+mk-n+l", [str "key", str "5"])] x0
    chanAfter x = some chan ∧ x.queued = [] ∧ x.direct.length = 4 ∧
    x.direct.all (· == (str ":irc.irc " ++ Reply.ErrChanOpPrivsNeeded482 (client := str "vic") (channel := str "#c"))) = true := by decide
example : let x := processMode cfg 4 (str "#c") [(str "+b", [str "bad"])] x0
    chanAfter x = some chan ∧ x.queued = [] ∧
    x.direct = [(str ":irc.irc " ++ Reply.ErrChanOpPrivsNeeded482 (client := str "pat") (channel := str "#c"))] := by decide

-- an outsider gets 442, an unknown channel 403
example : let x := processMode cfg 5 (str "#c") [(str "+m", [])] x0
    chanAfter x = some chan ∧ x.queued = [] ∧
    x.direct = [(str ":irc.irc " ++ Reply.ErrNotOnChannel442 (client := str "out") (channel := str "#c"))] := by decide
example : (processMode cfg 5 (str "#d") [(str "+m", [])] x0).direct =
    [(str ":irc.irc " ++ Reply.ErrNoSuchChannel403 (client := str "out") (channel := str "#d"))] := by decide

-- key, limit, ban by the half-operator; the mask is completed
example : let x := processMode cfg 2 (str "#c") [(str "+klb", [str "sesame", str "10", str "bad"])] x0
    (chanAfter x).map (·.modes.key) = some (some (str "sesame")) ∧
    (chanAfter x).map (·.modes.clientLimit) = some (some 10) ∧
    (chanAfter x).map (·.modes.ban) = some [str "bad!*@*"] ∧
    (chanAfter x).map (·.banInfo) = some [(str "bad!*@*", str "hank")] ∧
    x.queued.map (·.2) = List.replicate 4 (str ":hank!~hank@h MODE #c +k sesame +l 10 +b bad!*@*") := by
  decide

-- the hypotheses of the theorems above are satisfiable on this world
example : Spec.required 'o' { halfOper := true } = false ∧ 'o' ∈ Spec.letters := by decide
example : Spec.required 'v' { halfOper := true } = true ∧ 'v' ∈ rankLetters := by decide
example : (x0.conn 5).nick = some (str "out") ∧ validateChannel (str "#c") = true ∧
    Map.lookup (str "#c") x0.w.channels = some chan ∧ Map.lookup (str "out") chan.users = none := by decide
example : ∀ n ∈ Map.keys chan.users, Map.contains n x0.w.users = true := by decide
example : (chan.setRank 'o' (str "pat") true).isSome = true ∧ rankMirrorCheck chan = true := by decide

end Ex

end Irc.C08
