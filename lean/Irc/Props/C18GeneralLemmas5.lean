/-
  Property C18, general serialisability, part 5: the three forms of a move of connection `c`
  (general / local, nothing serialised / the command of `c` is serialised) preserve `SimW`.
-/
import Irc.Props.C18GeneralLemmas4

namespace Irc.C18G

open Irc Irc.Conc Reply Irc.C18F

section
variable {cfg : Cfg} {split : Bool → Nat → Str → List Section} {cs : List Nat} {σ₀ : CState}
  {prog : Nat → List Str} {S : Sys} {done : List (Nat × Str)} {ρ : CState} {st : Nat → St}

/-- the general move of `c`: the section turns `c`'s local update over `ρ` into the one of the new
    status over `ρ'`.  `hbc`: the section commutes with the pending counter bumps of the others, or
    there are no counter sections at all. -/
theorem sim_move (h : SimW cfg split cs σ₀ prog S done ρ st) {c : Nat} (hc : c ∈ cs) {s : Section}
    (hp : isProg s = true) (hsc : s.conn = c) (hbc : BumpComm cfg s ∨ NoCount split)
    {s' : St} {ρ' : CState} {done' : List (Nat × Str)}
    {t' : List Str} {p' : List Section} {k' : Str}
    (heq : stepSection cfg s ((eaOf cfg (st c)).app c ρ) = (eaOf cfg s').app c ρ')
    (hτ' : seqRun cfg split done' σ₀ =
      applyOn cs (upd (fun d => ebOf cfg (st d)) c (ebOf cfg s')) ρ')
    (hgood : Good cfg split ρ' c p' k' s')
    (hinv : InvCore (seqRun cfg split done' σ₀).w)
    (hlive : ∀ d ∈ cs, Live (seqRun cfg split done' σ₀).w d)
    (hprogc : prog c = linesOf c done' ++ (if s'.pendingLine then [k'] else []) ++ t')
    (hprogo : ∀ d, d ≠ c → linesOf d done' = linesOf d done)
    (hbcl : ∀ l ∈ t', NoCount split ∨ BumpCommLine cfg c l) :
    SimW cfg split cs σ₀ prog (mkS S c (stepSection cfg s S.σ) t' p' k') done' ρ'
      (upd st c s') := by
  have hownE : ∀ d ∈ cs, d ≠ c → eaOf cfg (st d) = idU ∨
      ((isWhole s = true → NoOwn d ρ.w) ∧ ((eaOf cfg (st d)).cnt = none ∨ BumpComm cfg s)) := by
    intro d _ _
    cases hi : (st d).isIdle with
    | true => exact .inl (eaOf_idle hi)
    | false =>
      refine .inr ⟨fun _ => h.noOwn hi, ?_⟩
      rcases hbc with hb | hn
      · exact .inr hb
      · exact .inl ((h.good d).cnt_none hn)
  refine simW_update h hc ?_ hτ' ?_ hgood hinv hlive hprogc hprogo hbcl
  · rw [h.hσ]
    conv => lhs; rw [← upd_same (fun d => eaOf cfg (st d)) c]
    exact step_applyOn_local cfg hp hsc h.nodup hc h.propA (h.propA c) hgood.proper_a hownE heq
  · intro d hd
    obtain ⟨f1, f2⟩ := frame_of_local cfg hp hsc (h.propA c) hgood.proper_a heq hd
    exact ⟨fun hi => f1 (fun _ => h.noOwn hi), f2⟩

/-- a move that does not serialise anything and leaves the base state alone -/
theorem sim_move_loc (h : SimW cfg split cs σ₀ prog S done ρ st) {c : Nat} (hc : c ∈ cs)
    {s : Section} (hp : isProg s = true) (hsc : s.conn = c) (hbc : BumpComm cfg s ∨ NoCount split)
    {s' : St} {t' : List Str} {p' : List Section} {k' : Str}
    (heq : stepSection cfg s ((eaOf cfg (st c)).app c ρ) = (eaOf cfg s').app c ρ)
    (hb : ebOf cfg s' = ebOf cfg (st c))
    (hgood : Good cfg split ρ c p' k' s')
    (hprogc : prog c = linesOf c done ++ (if s'.pendingLine then [k'] else []) ++ t')
    (hbcl : ∀ l ∈ t', NoCount split ∨ BumpCommLine cfg c l) :
    SimW cfg split cs σ₀ prog (mkS S c (stepSection cfg s S.σ) t' p' k') done ρ (upd st c s') :=
  sim_move h hc hp hsc hbc heq (by rw [hb, upd_same]; exact h.hτ) hgood h.inv h.live hprogc
    (fun _ _ => rfl) hbcl

/-- a move that serialises the command `line` of `c` -/
theorem sim_move_ser (hsh : SplitShape split) (h : SimW cfg split cs σ₀ prog S done ρ st)
    {c : Nat} (hc : c ∈ cs) {s : Section}
    (hp : isProg s = true) (hsc : s.conn = c) (hbc : BumpComm cfg s ∨ NoCount split)
    {s' : St} {ρ' : CState} {line : Str}
    {t' : List Str} {p' : List Section} {k' : Str}
    (heq : stepSection cfg s ((eaOf cfg (st c)).app c ρ) = (eaOf cfg s').app c ρ')
    (hb : ebOf cfg (st c) = idU)
    (hseq : seqStep cfg split (c, line) ρ = (ebOf cfg s').app c ρ')
    (hgood : Good cfg split ρ' c p' k' s') (hpl : s'.pendingLine = false)
    (hprogc : prog c = linesOf c done ++ [line] ++ t')
    (hbcl : ∀ l ∈ t', NoCount split ∨ BumpCommLine cfg c l) :
    SimW cfg split cs σ₀ prog (mkS S c (stepSection cfg s S.σ) t' p' k') (done ++ [(c, line)]) ρ'
      (upd st c s') := by
  have hinv' := invCore_seqStep (cfg := cfg) hsh (line := line) h.inv (h.live c hc)
  refine sim_move h hc hp hsc hbc heq ?_ hgood ?_ ?_ ?_ ?_ hbcl
  · rw [seqRun_snoc, h.hτ,
      seqStep_comm_applyOn hsh (e := fun d => ebOf cfg (st d)) h.propB
        (fun d => ebOf_cnt cfg (st d)) hb (fun d _ => by
        cases hi : (st d).isIdle with
        | true => exact .inl (ebOf_idle hi)
        | false =>
          by_cases hdc : d = c
          · subst hdc; exact .inl hb
          · exact .inr ⟨fun e => hdc e.symm, h.noOwn hi⟩),
      hseq,
      applyOn_extract (e := upd (fun d => ebOf cfg (st d)) c (ebOf cfg s'))
        (upd_proper h.propB hgood.proper_b) h.nodup hc, upd_self, upd_upd]
    conv => lhs; rw [← upd_same (fun d => ebOf cfg (st d)) c, hb]
  · rw [seqRun_snoc]; exact hinv'.1
  · intro d hd
    rw [seqRun_snoc]
    exact Live.of_same hinv'.2 (h.live d hd)
  · rw [hpl, linesOf_snoc_self, hprogc]
    simp
  · intro d hd
    exact linesOf_snoc_ne _ _ (fun e => hd e.symm)

end

end Irc.C18G
